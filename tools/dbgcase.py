#!/usr/bin/env python3
# usage: dbgcase.py cases_file.v defname index  -- prints model vs observed for one case
import sys,re,subprocess,os
f,name,idx=sys.argv[1],sys.argv[2],int(sys.argv[3])
src=open(f).read()
dbg=f"""
Definition dbg_case := nth {idx} {name} (O, SRet (EVar 0), OnBuf [], mkObs ROk [] [] [] []).
Eval vm_compute in (let '(id,p,x,o) := dbg_case in
  let m := model_run geom_tab p x in
  (id, p, x, ("MODEL", ores_of (res m), rd (w m), groups_of (glog (w m)), rpd (w m), filter visible (tr (w m))), ("IMPL", o))).
"""
src=re.sub(r'Definition \w+_M := Eval.*', '', src, flags=re.S)
src=src.replace("Rapid.Generated.GeomTable.","Rapid.Generated.GeomTable Rapid.Model.Monad Rapid.Model.Engine.")
src+= "\nFrom Coq Require Import String.\nOpen Scope string_scope.\n"+dbg
open('/verif/coq/dbg_tmp.v','w').write(src)
r=subprocess.run(['coqc','-Q','.','Rapid','dbg_tmp.v'],cwd='/verif/coq',capture_output=True,text=True)
print(r.stdout[-6000:]); print(r.stderr[-2000:])
for e in ('.vo','.glob','.vok','.vos'):
    try: os.remove('/verif/coq/dbg_tmp'+e)
    except: pass
