#!/bin/sh
# usage: matrix.sh [dir ...]   (default: every /verif/seeded/*/ with a patch.diff)
# For each seeded change: apply to /repo, run the quick check of its own property, restore /repo.
# Writes /verif/seeded/matrix.tsv: dir, property, exit code, VIOLATION line.
cd /verif
DIRS="$@"; [ -z "$DIRS" ] && DIRS=$(ls -d seeded/*/ | sed 's#/$##')
OUT=/verif/seeded/matrix.tsv
for d in $DIRS; do
  [ -f $d/patch.diff ] || continue
  id=$(basename $d | cut -c1-3)
  git -C /repo diff --quiet || { echo "/repo is dirty, abort"; exit 2; }
  if ! git -C /repo apply --check $PWD/$d/patch.diff 2>/dev/null; then echo "$d	$id	NA	patch does not apply" | tee -a $OUT; continue; fi
  git -C /repo apply $PWD/$d/patch.diff
  cp -f evidence/$id.json /verif/build/evidence_$id.clean.json 2>/dev/null   # evidence is from clean-tree runs only
  timeout 1800 bin/check $id quick > /verif/build/matrix_$id.log 2>&1; rc=$?
  cp -f /verif/build/evidence_$id.clean.json evidence/$id.json 2>/dev/null
  git -C /repo checkout -- .
  echo "$d	$id	$rc	$(grep VIOLATION /verif/build/matrix_$id.log | head -1)" | tee -a $OUT
done
