#!/bin/sh
# usage: confirm_mutation.sh <dir with patch.diff and demo_test.go>
# confirms in a scratch worktree: demo passes on clean HEAD, suite passes with the patch, demo fails with the patch
D=$1
export GOFLAGS=-mod=mod GOPROXY=off GOSUMDB=off GOTOOLCHAIN=local
W=/tmp/confirm_wt
git -C /repo worktree remove --force $W 2>/dev/null; rm -rf $W
git -C /repo worktree add -q --detach $W HEAD || exit 2
cd $W
cp $D/demo_test.go ./zz_demo_test.go
RUN=$(grep -o 'func Test[A-Za-z0-9_]*' zz_demo_test.go | head -1 | sed 's/func //')
[ -n "$2" ] && RUN="$2"
go test -vet=off -count=1 -run "$RUN" . > /tmp/confirm_clean.log 2>&1; A=$?
git apply $D/patch.diff || { echo "PATCH DOES NOT APPLY"; exit 2; }
mv zz_demo_test.go /tmp/zz_demo_test.go
go test -vet=off -count=1 ./... > /tmp/confirm_suite.log 2>&1; B=$?
mv /tmp/zz_demo_test.go ./zz_demo_test.go
go test -vet=off -count=1 -run "$RUN" . > /tmp/confirm_mut.log 2>&1; C=$?
echo "demo($RUN) on clean: exit $A (want 0); suite with patch: exit $B (want 0); demo with patch: exit $C (want non-0)"
cd /; git -C /repo worktree remove --force $W
[ $A -eq 0 ] && [ $B -eq 0 ] && [ $C -ne 0 ] && echo CONFIRMED || echo NOT-CONFIRMED
