#!/usr/bin/env python3
"""Renders seeded/matrix.tsv as the markdown table of DESIGN.md section 11.6 (replaces the block between the markers)."""
import os, re, json
rows = []
for line in open('/verif/seeded/matrix.tsv'):
    f = line.rstrip('\n').split('\t')
    if len(f) < 4:
        continue
    d, pid, rc, viol = f
    notes = open(f'/verif/{d}/notes.md').read() if os.path.exists(f'/verif/{d}/notes.md') else ''
    title = notes.strip().splitlines()[0].lstrip('# ').strip() if notes.strip() else ''
    title = re.sub(r'^(Mutation\s+)?C\d\d(-[AB])?\s*(mutation)?\s*[:\-–]\s*', '', title, flags=re.I)
    if rc == '0':
        res = '**missed**'
    elif 'no-failing-input-found' in viol:
        res = 'nfif'
    elif viol.startswith('VIOLATION'):
        res = 'concrete'
    else:
        res = viol
    rows.append((os.path.basename(d), pid, title[:150], res))
rows.sort()
out = ['| change | property | what it does | quick check of its property |', '|---|---|---|---|']
for r in rows:
    out.append('| %s | %s | %s | %s |' % r)
n = len(rows)
conc = sum(1 for r in rows if r[3] == 'concrete')
nf = sum(1 for r in rows if r[3] == 'nfif')
miss = n - conc - nf
out.append('')
out.append(f'Totals: {n} changes, {conc} caught with a concrete failing input, {nf} caught as a broken proof obligation / correspondence with `no-failing-input-found`, {miss} missed.')
block = '\n'.join(out)
p = '/verif/DESIGN.md'
s = open(p).read()
if 'MATRIX_PLACEHOLDER' in s:
    s = s.replace('MATRIX_PLACEHOLDER', '<!-- matrix:begin -->\n' + block + '\n<!-- matrix:end -->')
else:
    s = re.sub(r'<!-- matrix:begin -->.*?<!-- matrix:end -->', lambda m: '<!-- matrix:begin -->\n' + block + '\n<!-- matrix:end -->', s, flags=re.S)
open(p, 'w').write(s)
print(block[-400:])
