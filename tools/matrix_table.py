#!/usr/bin/env python3
"""Renders seeded/matrix.tsv as the markdown table of DESIGN.md section 11.6 (replaces the block between the markers)."""
import os, re, json
rows = []
last = {}
for line in open('/verif/seeded/matrix.tsv'):
    f = line.rstrip('\n').split('\t')
    if len(f) >= 4:
        last[f[0]] = line
for line in last.values():
    f = line.rstrip('\n').split('\t')
    if len(f) < 4:
        continue
    d, pid, rc, viol = f
    notes = open(f'/verif/{d}/notes.md').read() if os.path.exists(f'/verif/{d}/notes.md') else ''
    title = notes.strip().splitlines()[0].lstrip('# ').strip() if notes.strip() else ''
    title = re.sub(r'^(Mutation\s+)?C\d\d(-[A-Z])?\s*(mutation)?\s*[:\-–]\s*', '', title, flags=re.I)
    if rc == '0':
        res = '**missed**'
    elif 'no-failing-input-found' in viol:
        res = 'nfif'
    elif viol.startswith('VIOLATION'):
        res = 'concrete'
    else:
        res = viol
    rows.append((os.path.basename(d), pid, title[:150], res))
OVERRIDE = {
    'C02-A': 'checkOnce consults the sticky non-fatal failure only after a skip, no longer after a normal return (a failure signalled in a cleanup of a passing case is lost)',
    'C02-B': 'T.fail marks only the immediate parent: Errorf then Skip in a Custom nested in a Custom is lost',
    'C09-A': 'FailNow moved inside the falsified-property branch of checkTB (not called after "only generated")',
    'C09-B': "Repeat's invariant is run through runAction: a Skip from the invariant is swallowed and the case counts as valid",
    'C11-A': 'findBug reuses one T across test cases and checkOnce no longer consults the failure flag on a skip (two cooperating sites)',
    'C11-B': 'randomBitStream.init(seed) returns early when nothing was drawn since the last init: the case after a draw-less case runs on the old stream',
}
rows = [(a, b, OVERRIDE.get(a, c), d) for (a, b, c, d) in rows]
rows.sort()
out = ['| change | property | what it does | quick check of its property |', '|---|---|---|---|']
for r in rows:
    out.append('| %s | %s | %s | %s |' % r)
n = len(rows)
conc = sum(1 for r in rows if r[3] == 'concrete')
nf = sum(1 for r in rows if r[3] == 'nfif')
miss = n - conc - nf
out.append('')
out.append(f'Totals: {n} changes, {conc} caught with a concrete failing input, {nf} caught as a broken proof obligation / correspondence with `no-failing-input-found`, {miss} missed.')
block = '\n'.join(out)
p = '/verif/DESIGN.md'
s = open(p).read()
if 'MATRIX_PLACEHOLDER' in s:
    s = s.replace('MATRIX_PLACEHOLDER', '<!-- matrix:begin -->\n' + block + '\n<!-- matrix:end -->')
else:
    s = re.sub(r'<!-- matrix:begin -->.*?<!-- matrix:end -->', lambda m: '<!-- matrix:begin -->\n' + block + '\n<!-- matrix:end -->', s, flags=re.S)
open(p, 'w').write(s)
print(block[-400:])
