#!/usr/bin/env python3
# usage: showgoal.py file.v LINE  -- compiles the file truncated at LINE (exclusive) with "Show. Abort." appended
import sys,subprocess,os
f,line=sys.argv[1],int(sys.argv[2])
lines=open(f).read().split('\n')
src='\n'.join(lines[:line-1])+'\nShow.\nAbort.\n'
tmp=os.path.join(os.path.dirname(f),'zz_show_tmp.v')
open(tmp,'w').write(src)
r=subprocess.run(['coqc','-Q','.','Rapid',os.path.relpath(tmp,'/verif/coq')],cwd='/verif/coq',capture_output=True,text=True)
out=(r.stdout+r.stderr)
print(out[-int(sys.argv[3]) if len(sys.argv)>3 else -3500:])
for e in ('.v','.vo','.glob','.vok','.vos'):
    try: os.remove(tmp[:-2]+e)
    except: pass
try: os.remove(os.path.join(os.path.dirname(f),'.zz_show_tmp.aux'))
except: pass
