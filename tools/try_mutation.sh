#!/bin/sh
# usage: try_mutation.sh <patch.diff> <property id> [more ids...]
# applies the patch to /repo, runs the quick checks, restores /repo.  Prints exit codes and VIOLATION lines.
P=$1; shift
cd /repo || exit 2
git apply --check "$P" || { echo "patch does not apply"; exit 2; }
git apply "$P"
for id in "$@"; do
  ( cd /verif && timeout 1500 bin/check $id quick > /tmp/mutrun_$id.log 2>&1; echo "$id exit=$? $(grep -c VIOLATION /tmp/mutrun_$id.log) violation line(s): $(grep VIOLATION /tmp/mutrun_$id.log | head -2)" )
done
git -C /repo checkout -- . 
git -C /repo status --short | grep -v '^??' | head
