#!/bin/sh
# usage: runall.sh <quick|thorough> [ids...]  - runs the checks one after another on the current tree, prints exit codes
T=${1:-quick}; shift
IDS="$@"; [ -z "$IDS" ] && IDS="C01 C02 C03 C04 C05 C06 C07 C08 C09 C10 C11 C12 C13 C14 C15 C16 C17 C18"
cd /verif
for id in $IDS; do
  s=$(date +%s)
  timeout 7200 bin/check $id $T > /verif/build/run_$id.log 2>&1; rc=$?
  e=$(date +%s)
  echo "$id rc=$rc $((e-s))s $(grep -c VIOLATION /verif/build/run_$id.log) violation(s) $(grep -c KNOWN-FINDING /verif/build/run_$id.log) known $(grep VIOLATION /verif/build/run_$id.log | head -1)"
done
