module verifrace

go 1.18

require pgregory.net/rapid v0.0.0

replace pgregory.net/rapid => /repo
