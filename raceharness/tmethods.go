package main

import (
	"context"
	"flag"
	"fmt"
	"runtime"
	"strings"
	"sync"
	"sync/atomic"
	"time"

	"pgregory.net/rapid"
)

type opKind int

const (
	opHelper opKind = iota
	opName
	opLog
	opLogf
	opFailed
	opContext
	opCleanup
	opError // signalling kinds last
	opErrorf
	opFail
	numOpKinds
)

var opNames = [numOpKinds]string{"Helper", "Name", "Log", "Logf", "Failed", "Context", "Cleanup", "Error", "Errorf", "Fail"}

func (k opKind) signals() bool { return k >= opError }

// cleanupSpec is the plan-time description of what a registered cleanup does when it runs.
type cleanupSpec struct {
	nest  *cleanupSpec // register another cleanup from inside the cleanup
	spawn bool         // start 2 goroutines using t concurrently from inside the cleanup
}

type op struct {
	kind opKind
	cs   *cleanupSpec
}

type plan struct {
	g         int
	lists     [][]op // lists[g] is executed by the property goroutine itself
	signalled bool
	nOps      int
	nSignals  int
}

func buildCleanupSpec(rng *splitmix64, depth int) *cleanupSpec {
	cs := &cleanupSpec{spawn: rng.intn(4) == 0}
	if depth < 3 && rng.intn(3) == 0 {
		cs.nest = buildCleanupSpec(rng, depth+1)
	}
	return cs
}

func buildPlan(seed uint64, k int, goroutines int) *plan {
	rng := &splitmix64{x: mix(seed, uint64(k), 0x706c616e)}
	p := &plan{g: goroutines}
	if p.g <= 0 {
		p.g = []int{2, 3, 4, 8, 16, 32, 64}[rng.intn(7)]
	}
	p.signalled = rng.intn(2) == 1
	p.lists = make([][]op, p.g+1)
	for i := range p.lists {
		n := 5 + rng.intn(36)
		if i == p.g {
			n = 3 + rng.intn(6)
		}
		for j := 0; j < n; j++ {
			o := op{kind: opKind(rng.intn(int(opError)))}
			if o.kind == opCleanup {
				o.cs = buildCleanupSpec(rng, 0)
			}
			p.lists[i] = append(p.lists[i], o)
		}
		p.nOps += n
	}
	if p.signalled {
		for n := 1 + rng.intn(3); n > 0; n-- {
			l := p.lists[rng.intn(p.g)]
			l[rng.intn(len(l))] = op{kind: opError + opKind(rng.intn(3))}
		}
		for _, l := range p.lists {
			for _, o := range l {
				if o.kind.signals() {
					p.nSignals++
				}
			}
		}
	}
	return p
}

func (p *plan) shape() string {
	var counts [numOpKinds]int
	for _, l := range p.lists {
		for _, o := range l {
			counts[o.kind]++
		}
	}
	return fmt.Sprintf("%d%v", p.g, counts)
}

func (p *plan) describe() []string {
	out := []string{fmt.Sprintf("goroutines=%d signalled=%v ops=%d signal_ops=%d", p.g, p.signalled, p.nOps, p.nSignals)}
	for i, l := range p.lists {
		if i >= 3 && i != p.g {
			continue
		}
		var names []string
		for j, o := range l {
			if j == 12 {
				names = append(names, fmt.Sprintf("...(%d more)", len(l)-j))
				break
			}
			s := opNames[o.kind]
			for cs := o.cs; cs != nil; cs = cs.nest {
				if cs != o.cs {
					s += ">nested"
				}
				if cs.spawn {
					s += "+spawn"
				}
			}
			names = append(names, s)
		}
		who := fmt.Sprintf("g%d", i)
		if i == p.g {
			who = "prop"
		}
		out = append(out, who+": "+strings.Join(names, " "))
	}
	return out
}

// tmCounters are updated atomically while workloads run and emitted as part of the JSON summary.
type tmCounters struct {
	Invocations              int64 `json:"invocations"`
	Ops                      int64 `json:"ops"`
	CleanupsRegistered       int64 `json:"cleanups_registered"`
	CleanupsRan              int64 `json:"cleanups_ran"`
	ContextsCollected        int64 `json:"contexts_collected"`
	VerdictMismatch          int64 `json:"verdict_mismatch"`
	UnexpectedError          int64 `json:"unexpected_error"`
	CleanupNotOnce           int64 `json:"cleanup_not_once"`
	ContextsDistinct         int64 `json:"contexts_distinct"`
	CtxNotLiveBeforeReturn   int64 `json:"ctx_not_live_before_return"`
	CtxNotCancelledAtCleanup int64 `json:"ctx_not_cancelled_at_cleanup"`
	CtxInCleanupLive         int64 `json:"ctx_in_cleanup_live"`
	FailedWithoutSignal      int64 `json:"failed_without_signal"`
	FailedMismatchAfterJoin  int64 `json:"failed_mismatch_after_join"`
}

type tmStats struct {
	tmCounters
	prob problems
}

func inc(p *int64) { atomic.AddInt64(p, 1) }

// caseState is the bookkeeping of one invocation of the property function.
type caseState struct {
	p         *plan
	stats     *tmStats
	nextID    int64 // atomic
	ops       int64 // atomic
	signals   int64 // atomic
	completed bool  // property goroutine only

	late       sync.WaitGroup // goroutines that register cleanups while the cleanup phase is running
	mu         sync.Mutex
	registered map[int64]int
	ran        map[int64]int
	ctxs       []context.Context
}

func (st *caseState) register(t *rapid.T, cs *cleanupSpec) {
	id := atomic.AddInt64(&st.nextID, 1)
	st.mu.Lock()
	st.registered[id]++
	st.mu.Unlock()
	inc(&st.stats.CleanupsRegistered)
	t.Cleanup(func() { st.runCleanup(t, id, cs) })
}

func (st *caseState) checkCleanupCtx(t *rapid.T) {
	if t.Context().Err() == nil {
		inc(&st.stats.CtxInCleanupLive)
		st.stats.prob.note("t.Context() returned a live context while cleanups are running")
	}
}

func (st *caseState) runCleanup(t *rapid.T, id int64, cs *cleanupSpec) {
	st.mu.Lock()
	st.ran[id]++
	ctxs := append([]context.Context(nil), st.ctxs...)
	st.mu.Unlock()
	for _, c := range ctxs {
		if c.Err() == nil {
			inc(&st.stats.CtxNotCancelledAtCleanup)
			st.stats.prob.note("context handed out before the property returned is not cancelled when cleanup %d runs", id)
		}
	}
	st.checkCleanupCtx(t)
	t.Logf("cleanup %d", id)
	if cs == nil {
		return
	}
	if cs.nest != nil {
		st.register(t, cs.nest)
	}
	if cs.spawn {
		var wg sync.WaitGroup
		for i := 0; i < 2; i++ {
			wg.Add(1)
			go func() {
				defer wg.Done()
				st.register(t, nil)
				st.checkCleanupCtx(t)
				st.observeFailed(t)
			}()
		}
		wg.Wait()
		// ... and one goroutine that is NOT joined here: it registers a cleanup while the property goroutine goes on
		// popping and running the remaining cleanups.  It is joined by the cleanup registered first (which runs last).
		st.late.Add(1)
		go func() {
			defer st.late.Done()
			runtime.Gosched()
			st.register(t, nil)
		}()
	}
}

func (st *caseState) observeFailed(t *rapid.T) {
	if t.Failed() && !st.p.signalled {
		inc(&st.stats.FailedWithoutSignal)
		st.stats.prob.note("t.Failed() is true in a workload without any failure-signalling op")
	}
}

func (st *caseState) runOps(t *rapid.T, who int, ops []op) {
	for j, o := range ops {
		switch o.kind {
		case opHelper:
			t.Helper()
		case opName:
			_ = t.Name()
		case opLog:
			t.Log("log", who, j)
		case opLogf:
			t.Logf("logf %d %d", who, j)
		case opError:
			t.Error("error", who, j)
		case opErrorf:
			t.Errorf("errorf %d %d", who, j)
		case opFail:
			t.Fail()
		case opFailed:
			st.observeFailed(t)
		case opContext:
			c := t.Context()
			live := c.Err() == nil
			st.mu.Lock()
			st.ctxs = append(st.ctxs, c)
			st.mu.Unlock()
			inc(&st.stats.ContextsCollected)
			if !live {
				inc(&st.stats.CtxNotLiveBeforeReturn)
				st.stats.prob.note("t.Context() returned a cancelled context before the property returned")
			}
		case opCleanup:
			st.register(t, o.cs)
		}
		if o.kind.signals() {
			atomic.AddInt64(&st.signals, 1)
		}
		atomic.AddInt64(&st.ops, 1)
	}
}

type tmWorkload struct {
	k     int
	p     *plan
	stats *tmStats
	cur   *caseState // touched only by the goroutine that runs the property
}

func (w *tmWorkload) prop(t *rapid.T) {
	w.verifyPrev()
	inc(&w.stats.Invocations)
	// Drawing is not part of the property under test: do it before any goroutine exists.
	_ = rapid.IntRange(0, 1000).Draw(t, "x")
	_ = rapid.SliceOfN(rapid.Byte(), 0, 4).Draw(t, "bs")

	st := &caseState{p: w.p, stats: w.stats, registered: map[int64]int{}, ran: map[int64]int{}}
	w.cur = st
	t.Cleanup(func() { st.late.Wait() }) // registered first, runs last: joins the late registrars
	start := make(chan struct{})
	var wg sync.WaitGroup
	for i := 0; i < w.p.g; i++ {
		wg.Add(1)
		go func(who int, ops []op) {
			defer wg.Done()
			<-start
			st.runOps(t, who, ops)
		}(i, w.p.lists[i])
	}
	close(start)
	st.runOps(t, w.p.g, w.p.lists[w.p.g])
	wg.Wait()
	if t.Failed() != w.p.signalled {
		inc(&w.stats.FailedMismatchAfterJoin)
		w.stats.prob.note("workload %d: after join t.Failed()=%v but signalled=%v", w.k, !w.p.signalled, w.p.signalled)
	}
	st.completed = true
}

// verifyPrev checks the bookkeeping of the previous completed invocation (its cleanups have finished).
func (w *tmWorkload) verifyPrev() {
	st := w.cur
	w.cur = nil
	if st == nil || !st.completed {
		return
	}
	if ops, sig := atomic.LoadInt64(&st.ops), atomic.LoadInt64(&st.signals); ops != int64(st.p.nOps) || sig != int64(st.p.nSignals) {
		die("internal: workload %d executed %d ops (%d signals), plan has %d (%d)", w.k, ops, sig, st.p.nOps, st.p.nSignals)
	}
	atomic.AddInt64(&w.stats.Ops, int64(st.p.nOps))
	st.mu.Lock()
	defer st.mu.Unlock()
	for id := int64(1); id <= atomic.LoadInt64(&st.nextID); id++ {
		atomic.AddInt64(&w.stats.CleanupsRan, int64(st.ran[id]))
		if st.registered[id] != 1 || st.ran[id] != 1 {
			inc(&w.stats.CleanupNotOnce)
			w.stats.prob.note("workload %d: cleanup %d registered %d times, ran %d times", w.k, id, st.registered[id], st.ran[id])
		}
	}
	for _, c := range st.ctxs {
		if c != st.ctxs[0] {
			inc(&w.stats.ContextsDistinct)
			w.stats.prob.note("workload %d: goroutines observed different contexts", w.k)
			break
		}
	}
}

type tmResult struct {
	Cmd                string `json:"cmd"`
	Goroutines         int    `json:"goroutines"`
	Iters              int    `json:"iters"`
	Seed               uint64 `json:"seed"`
	Verbose            bool   `json:"verbose"`
	Log                bool   `json:"log"`
	Check              bool   `json:"check"`
	Workloads          int    `json:"workloads"`
	WorkloadsSignalled int    `json:"workloads_signalled"`
	MaxGoroutines      int    `json:"max_goroutines"`
	DistinctPlans      int    `json:"distinct_plans"`
	TBLogCalls         int    `json:"tb_log_calls"`
	tmCounters
	FirstProblem string   `json:"first_problem"`
	SamplePlan   []string `json:"sample_plan"`
	ElapsedMS    int64    `json:"elapsed_ms"`
	RaceEnabled  bool     `json:"race_enabled"`
}

func tMethodsMain(args []string) {
	fs := flag.NewFlagSet("t-methods", flag.ContinueOnError)
	goroutines := fs.Int("goroutines", 0, "goroutines per workload (0: plan picks from 2..64)")
	iters := fs.Int("iters", 100, "number of workloads")
	seed := fs.Uint64("seed", 1, "base seed")
	verbose := fs.Bool("verbose", false, "tbLog / flags.Verbose: forward T.Log* to the TB")
	logFlag := fs.Bool("log", false, "flags.Log: T.rawLog path")
	check := fs.Bool("check", false, "run every workload through rapid.Check")
	if err := fs.Parse(args); err != nil || fs.NArg() != 0 || *iters < 0 || *goroutines < 0 {
		die("t-methods: bad flags %v", args)
	}

	fl := rapid.VerifGetFlags()
	fl.NoFailFile, fl.FailFile, fl.Log, fl.Verbose, fl.Debug = true, "", *logFlag, *verbose, false
	if *check {
		fl.Checks, fl.Steps, fl.ShrinkTime = 5, 30, 50*time.Millisecond
	}
	rapid.VerifSetFlags(fl)

	began := time.Now()
	stats := &tmStats{}
	res := tmResult{Cmd: "t-methods", Goroutines: *goroutines, Iters: *iters, Seed: *seed, Verbose: *verbose, Log: *logFlag, Check: *check, RaceEnabled: raceEnabled}
	shapes := map[string]bool{}
	for k := 0; k < *iters; k++ {
		p := buildPlan(*seed, k, *goroutines)
		if k == 0 {
			res.SamplePlan = p.describe()
		}
		shapes[p.shape()] = true
		if p.g > res.MaxGoroutines {
			res.MaxGoroutines = p.g
		}
		if p.signalled {
			res.WorkloadsSignalled++
		}
		w := &tmWorkload{k: k, p: p, stats: stats}
		tb := newRecTB(fmt.Sprintf("raceharness-tm-%d", k))
		seedK := mix(*seed, uint64(k), 0x73656564)
		var failed bool
		if *check {
			fl.Seed = seedK
			rapid.VerifSetFlags(fl) // no workload is running here
			runCheck(tb, w.prop)
			failed = tb.Failed()
		} else {
			verr, _ := rapid.VerifRunSeed(tb, seedK, *verbose, w.prop)
			failed = verr.Kind == "stop"
			if verr.Kind == "panic" || verr.Kind == "invalid" {
				inc(&stats.UnexpectedError)
				stats.prob.note("workload %d: unexpected %s: %s", k, verr.Kind, verr.Msg)
			}
		}
		w.verifyPrev()
		if failed != p.signalled {
			inc(&stats.VerdictMismatch)
			stats.prob.note("workload %d: failed=%v signalled=%v (%s)", k, failed, p.signalled, tb.firstError())
		}
		res.TBLogCalls += tb.logCalls()
		res.Workloads++
	}

	res.DistinctPlans = len(shapes)
	res.tmCounters = stats.tmCounters // all goroutines have been joined
	res.FirstProblem = stats.prob.get()
	res.ElapsedMS = time.Since(began).Milliseconds()
	emit(res)
}
