package main

import (
	"flag"
	"fmt"
	"sync"
	"sync/atomic"
	"time"

	"pgregory.net/rapid"
)

// runOut is what one VerifRunSeed call over a generator set produced.
type runOut struct {
	owners []string // generator name of every attempted draw, in order
	draws  []string // printed values of the completed draws
	err    rapid.VerifError
	rec    rapid.VerifRecording
}

// jobOut is everything goroutine i of a round observed.
type jobOut struct {
	strs     []string
	examples []string
	runs     []runOut
}

// drawOrder is a deterministic permutation of the generator indices, each one or two times.
func drawOrder(n int, seed uint64) []int {
	rng := &splitmix64{x: seed ^ 0x6f72646572}
	var order []int
	for i := 0; i < n; i++ {
		order = append(order, i)
		if rng.intn(2) == 0 {
			order = append(order, i)
		}
	}
	for i := len(order) - 1; i > 0; i-- {
		j := rng.intn(i + 1)
		order[i], order[j] = order[j], order[i]
	}
	return order
}

// runJob is the work of goroutine i in round r; it is used unchanged for the shared and the solo runs.
func runJob(gens []namedGen, seed uint64, r int, i int, verbose bool) jobOut {
	var out jobOut
	switch i % 4 {
	case 1:
		for _, g := range gens {
			out.strs = append(out.strs, g.str())
		}
	case 2:
		for j, g := range gens {
			out.examples = append(out.examples, g.example(int(mix(seed, uint64(r), uint64(i), uint64(j))%1000000)))
		}
	}
	nruns := 1
	if i%4 == 3 {
		nruns = 2
	}
	for q := 0; q < nruns; q++ {
		runSeed := mix(seed, uint64(r), uint64(i), uint64(q), 0x72756e)
		order := drawOrder(len(gens), runSeed)
		tb := newRecTB(fmt.Sprintf("raceharness-gs-%d-%d-%d", r, i, q))
		var ro runOut
		ro.err, ro.rec = rapid.VerifRunSeed(tb, runSeed, verbose, func(t *rapid.T) {
			for n, idx := range order {
				label := ""
				if n%3 != 0 {
					label = fmt.Sprintf("%s#%d", gens[idx].name, n)
				}
				ro.owners = append(ro.owners, gens[idx].name)
				ro.draws = append(ro.draws, gens[idx].draw(t, label))
			}
		})
		out.runs = append(out.runs, ro)
	}
	return out
}

type gsResult struct {
	Cmd               string   `json:"cmd"`
	Parallel          int      `json:"parallel"`
	Rounds            int      `json:"rounds"`
	Seed              uint64   `json:"seed"`
	Verbose           bool     `json:"verbose"`
	GeneratorsPerRnd  int      `json:"generators_per_round"`
	GeneratorNames    []string `json:"generator_names"`
	Runs              int      `json:"runs"`
	Draws             int      `json:"draws"`
	Examples          int      `json:"examples"`
	ValueMismatches   int      `json:"value_mismatches"`
	ErrorMismatches   int      `json:"error_mismatches"`
	DataMismatches    int      `json:"data_mismatches"`
	LabelDiffs        int      `json:"label_diffs"`
	LabelDiffExamples []string `json:"label_diff_examples"`
	SoloNondet        int      `json:"solo_nondeterminism"`
	InvalidRuns       int      `json:"invalid_runs"`
	PanicRuns         int      `json:"panic_runs"`
	CustomCtxProblems int64    `json:"custom_ctx_problems"`
	CustomCleanups    int64    `json:"custom_cleanups"`
	FirstProblem      string   `json:"first_problem"`
	ElapsedMS         int64    `json:"elapsed_ms"`
	RaceEnabled       bool     `json:"race_enabled"`
}

// diff holds the outcome of comparing two jobOuts.
type diff struct {
	values, errors, data, labels int
	first                        string
	labelExamples                []string
}

func (d *diff) note(format string, args ...any) {
	if d.first == "" {
		d.first = fmt.Sprintf(format, args...)
	}
}

func (d *diff) strings(what string, a, b []string, names func(int) string) {
	if len(a) != len(b) {
		d.values++
		d.note("%s: %d vs %d entries", what, len(a), len(b))
	}
	for i := 0; i < len(a) && i < len(b); i++ {
		if a[i] != b[i] {
			d.values++
			d.note("%s %s: %.200s vs %.200s", what, names(i), a[i], b[i])
		}
	}
}

func sameGroupShape(a, b []rapid.VerifGroup) bool {
	if len(a) != len(b) {
		return false
	}
	for i := range a {
		if a[i].Begin != b[i].Begin || a[i].End != b[i].End || a[i].Standalone != b[i].Standalone || a[i].Discard != b[i].Discard {
			return false
		}
	}
	return true
}

func sameData(a, b []uint64) bool {
	if len(a) != len(b) {
		return false
	}
	for i := range a {
		if a[i] != b[i] {
			return false
		}
	}
	return true
}

// labelDiffs compares group labels of two recordings with identical shape. A torn read of the
// racily written label string could fault; that is reported instead of crashing the harness.
func (d *diff) labelDiffs(a, b runOut) {
	defer func() {
		if p := recover(); p != nil {
			d.values++
			d.note("fault while comparing group labels: %v", p)
		}
	}()
	top, topEnd := -1, 0
	for j, ga := range a.rec.Groups {
		if ga.Standalone && (top < 0 || (topEnd >= 0 && ga.Begin >= topEnd)) {
			top, topEnd = top+1, ga.End
		}
		if gb := b.rec.Groups[j]; ga.Label != gb.Label {
			d.labels++
			owner := "?"
			if top < len(a.owners) {
				owner = a.owners[top]
			}
			d.labelExamples = append(d.labelExamples, fmt.Sprintf("%s/label %q vs %q", owner, ga.Label, gb.Label))
		}
	}
}

func compareJobs(what string, a, b jobOut, names []string) *diff {
	d := &diff{}
	byIndex := func(i int) string { return names[i] }
	d.strings(what+" String()", a.strs, b.strs, byIndex)
	d.strings(what+" Example()", a.examples, b.examples, byIndex)
	if len(a.runs) != len(b.runs) {
		die("internal: %s: %d vs %d runs", what, len(a.runs), len(b.runs))
	}
	for q := range a.runs {
		ra, rb := a.runs[q], b.runs[q]
		d.strings(fmt.Sprintf("%s run %d draw", what, q), ra.draws, rb.draws, func(i int) string { return ra.owners[i] })
		if ra.err.Kind != rb.err.Kind || ra.err.Msg != rb.err.Msg {
			d.errors++
			d.note("%s run %d: error %s %q vs %s %q", what, q, ra.err.Kind, ra.err.Msg, rb.err.Kind, rb.err.Msg)
		}
		if !sameData(ra.rec.Data, rb.rec.Data) || !sameGroupShape(ra.rec.Groups, rb.rec.Groups) {
			d.data++
			d.note("%s run %d: recordings differ (%d vs %d words, %d vs %d groups)", what, q, len(ra.rec.Data), len(rb.rec.Data), len(ra.rec.Groups), len(rb.rec.Groups))
			continue
		}
		d.labelDiffs(ra, rb)
	}
	return d
}

func gShareMain(args []string) {
	fs := flag.NewFlagSet("g-share", flag.ContinueOnError)
	parallel := fs.Int("parallel", 8, "concurrently running checks per round")
	rounds := fs.Int("rounds", 5, "rounds (each with a fresh generator set)")
	seed := fs.Uint64("seed", 1, "base seed")
	verbose := fs.Bool("verbose", false, "tbLog: forward draws to the TB")
	if err := fs.Parse(args); err != nil || fs.NArg() != 0 || *parallel < 1 || *rounds < 0 {
		die("g-share: bad flags %v", args)
	}
	fl := rapid.VerifGetFlags()
	fl.NoFailFile, fl.FailFile, fl.Log, fl.Verbose, fl.Debug = true, "", false, *verbose, false
	rapid.VerifSetFlags(fl)

	began := time.Now()
	res := gsResult{Cmd: "g-share", Parallel: *parallel, Rounds: *rounds, Seed: *seed, Verbose: *verbose, RaceEnabled: raceEnabled, LabelDiffExamples: []string{}}
	var prob problems
	seenExample := map[string]bool{}
	for r := 0; r < *rounds; r++ {
		shared := buildGens(r, *seed)
		names := make([]string, len(shared))
		for i, g := range shared {
			names[i] = g.name
		}
		if r == 0 {
			res.GeneratorsPerRnd, res.GeneratorNames = len(shared), names
		} else if len(shared) != res.GeneratorsPerRnd {
			die("internal: generator set size changed between rounds")
		}

		// Parallel phase: every goroutine uses the same generator objects, each with its own T.
		outs := make([]jobOut, *parallel)
		start := make(chan struct{})
		var wg sync.WaitGroup
		for i := 0; i < *parallel; i++ {
			wg.Add(1)
			go func(i int) {
				defer wg.Done()
				<-start
				outs[i] = runJob(shared, *seed, r, i, *verbose)
			}(i)
		}
		close(start)
		wg.Wait()

		// Solo phase: nothing else is running; every job gets generator sets of its own.
		for i, o := range outs {
			res.Examples += len(o.examples)
			for _, ro := range o.runs {
				res.Runs++
				res.Draws += len(ro.draws)
				switch ro.err.Kind {
				case "invalid":
					res.InvalidRuns++
				case "panic", "stop":
					res.PanicRuns++
					prob.note("round %d goroutine %d: %s: %s", r, i, ro.err.Kind, ro.err.Msg)
				}
			}
			solo1 := runJob(buildGens(r, *seed), *seed, r, i, *verbose)
			solo2 := runJob(buildGens(r, *seed), *seed, r, i, *verbose)
			what := fmt.Sprintf("round %d goroutine %d", r, i)
			if d := compareJobs(what+" solo vs solo", solo1, solo2, names); d.values+d.errors+d.data > 0 {
				res.SoloNondet += d.values + d.errors + d.data
				prob.note("%s", d.first)
			}
			d := compareJobs(what+" shared vs alone", o, solo1, names)
			res.ValueMismatches += d.values
			res.ErrorMismatches += d.errors
			res.DataMismatches += d.data
			res.LabelDiffs += d.labels
			if d.first != "" {
				prob.note("%s", d.first)
			}
			for _, e := range d.labelExamples {
				if !seenExample[e] && len(res.LabelDiffExamples) < 5 {
					seenExample[e] = true
					res.LabelDiffExamples = append(res.LabelDiffExamples, e)
				}
			}
		}
	}
	res.CustomCtxProblems = atomic.LoadInt64(&customCtxProblems)
	res.CustomCleanups = atomic.LoadInt64(&customCleanups)
	if res.CustomCtxProblems > 0 {
		prob.note("Custom function saw a cancelled context while running or a live one in its cleanup")
	}
	res.FirstProblem = prob.get()
	res.ElapsedMS = time.Since(began).Milliseconds()
	emit(res)
}
