package main

import (
	"fmt"
	"sync"

	"pgregory.net/rapid"
)

// tbSentinel is the private panic value used by recTB to unwind out of rapid.Check
// (Fatal*/FailNow/Skip* on a real *testing.T call runtime.Goexit; we have no test goroutine to exit).
type tbSentinel struct{ what string }

// recTB is a goroutine-safe recording implementation of rapid.TB.
type recTB struct {
	mu       sync.Mutex
	name     string
	logs     int
	errs     int
	helpers  int
	failed   bool
	skipped  bool
	firstErr string
}

var _ rapid.TB = (*recTB)(nil)

func newRecTB(name string) *recTB { return &recTB{name: name} }

func (r *recTB) Helper() {
	r.mu.Lock()
	r.helpers++
	r.mu.Unlock()
}

func (r *recTB) Name() string {
	r.mu.Lock()
	defer r.mu.Unlock()
	return r.name
}

func (r *recTB) note(fail bool, skip bool, msg string) {
	r.mu.Lock()
	defer r.mu.Unlock()
	if !fail && !skip {
		r.logs++
	}
	if fail {
		r.errs++
		r.failed = true
		if r.firstErr == "" {
			r.firstErr = msg
		}
	}
	if skip {
		r.skipped = true
	}
}

func (r *recTB) Logf(format string, args ...any) { r.note(false, false, fmt.Sprintf(format, args...)) }
func (r *recTB) Log(args ...any)                 { r.note(false, false, fmt.Sprint(args...)) }
func (r *recTB) Errorf(format string, args ...any) {
	r.note(true, false, fmt.Sprintf(format, args...))
}
func (r *recTB) Error(args ...any) { r.note(true, false, fmt.Sprint(args...)) }

func (r *recTB) Fatalf(format string, args ...any) {
	r.note(true, false, fmt.Sprintf(format, args...))
	panic(tbSentinel{"Fatalf"})
}

func (r *recTB) Fatal(args ...any) {
	r.note(true, false, fmt.Sprint(args...))
	panic(tbSentinel{"Fatal"})
}

func (r *recTB) Skipf(format string, args ...any) {
	r.note(false, true, fmt.Sprintf(format, args...))
	panic(tbSentinel{"Skipf"})
}

func (r *recTB) Skip(args ...any) {
	r.note(false, true, fmt.Sprint(args...))
	panic(tbSentinel{"Skip"})
}

func (r *recTB) SkipNow() {
	r.mu.Lock()
	r.skipped = true
	r.mu.Unlock()
	panic(tbSentinel{"SkipNow"})
}

func (r *recTB) FailNow() {
	r.mu.Lock()
	r.failed = true
	r.mu.Unlock()
	panic(tbSentinel{"FailNow"})
}

func (r *recTB) Fail() {
	r.mu.Lock()
	r.failed = true
	r.mu.Unlock()
}

func (r *recTB) Failed() bool {
	r.mu.Lock()
	defer r.mu.Unlock()
	return r.failed
}

// logCalls returns the number of Log/Logf calls seen so far.
func (r *recTB) logCalls() int {
	r.mu.Lock()
	defer r.mu.Unlock()
	return r.logs
}

func (r *recTB) firstError() string {
	r.mu.Lock()
	defer r.mu.Unlock()
	return r.firstErr
}

// runCheck runs rapid.Check against tb, absorbing the sentinel panic that tb raises from
// FailNow/Fatal*/Skip* (checkTB ends a failed check with tb.FailNow()).
func runCheck(tb *recTB, prop func(*rapid.T)) (unwound bool) {
	defer func() {
		if p := recover(); p != nil {
			if _, ok := p.(tbSentinel); ok {
				unwound = true
				return
			}
			panic(p)
		}
	}()
	rapid.Check(tb, prop)
	return false
}
