package main

import (
	"fmt"
	"reflect"
	"sort"
	"strconv"
	"strings"
	"sync/atomic"
	"unicode"

	"pgregory.net/rapid"
)

// namedGen erases the value type of a generator: draws are returned in printed form.
type namedGen struct {
	name    string
	draw    func(t *rapid.T, label string) string
	str     func() string
	example func(seed int) string
}

func wrap[V any](name string, g *rapid.Generator[V]) namedGen {
	return namedGen{
		name: name,
		draw: func(t *rapid.T, label string) string { return pp(g.Draw(t, label)) },
		str:  g.String,
		example: func(seed int) (s string) {
			defer func() {
				if p := recover(); p != nil {
					s = fmt.Sprintf("PANIC: %v", p)
				}
			}()
			return pp(g.Example(seed))
		},
	}
}

// pp prints a value deterministically: pointees instead of addresses, maps with sorted keys.
func pp(v any) string {
	var b strings.Builder
	ppValue(&b, reflect.ValueOf(v))
	return b.String()
}

func ppValue(b *strings.Builder, v reflect.Value) {
	if !v.IsValid() {
		b.WriteString("nil")
		return
	}
	switch v.Kind() {
	case reflect.Ptr, reflect.Interface:
		if v.IsNil() {
			b.WriteString("nil")
			return
		}
		if v.Kind() == reflect.Ptr {
			b.WriteString("&")
		}
		ppValue(b, v.Elem())
	case reflect.Struct:
		b.WriteString(v.Type().Name() + "{")
		for i := 0; i < v.NumField(); i++ {
			if i > 0 {
				b.WriteString(", ")
			}
			b.WriteString(v.Type().Field(i).Name + ":")
			ppValue(b, v.Field(i))
		}
		b.WriteString("}")
	case reflect.Slice, reflect.Array:
		if v.Kind() == reflect.Slice && v.IsNil() {
			b.WriteString("nil" + v.Type().String())
			return
		}
		b.WriteString("[")
		for i := 0; i < v.Len(); i++ {
			if i > 0 {
				b.WriteString(" ")
			}
			ppValue(b, v.Index(i))
		}
		b.WriteString("]")
	case reflect.Map:
		if v.IsNil() {
			b.WriteString("nil" + v.Type().String())
			return
		}
		entries := make([]string, 0, v.Len())
		for it := v.MapRange(); it.Next(); {
			var e strings.Builder
			ppValue(&e, it.Key())
			e.WriteString(":")
			ppValue(&e, it.Value())
			entries = append(entries, e.String())
		}
		sort.Strings(entries)
		b.WriteString("map[" + strings.Join(entries, " ") + "]")
	case reflect.String:
		b.WriteString(strconv.Quote(v.String()))
	case reflect.Bool:
		b.WriteString(strconv.FormatBool(v.Bool()))
	case reflect.Int, reflect.Int8, reflect.Int16, reflect.Int32, reflect.Int64:
		b.WriteString(strconv.FormatInt(v.Int(), 10))
	case reflect.Uint, reflect.Uint8, reflect.Uint16, reflect.Uint32, reflect.Uint64, reflect.Uintptr:
		b.WriteString(strconv.FormatUint(v.Uint(), 10))
	case reflect.Float32, reflect.Float64:
		b.WriteString(strconv.FormatFloat(v.Float(), 'g', -1, 64))
	default:
		fmt.Fprintf(b, "<%s>", v.Kind())
	}
}

// Types used by Custom, Deferred and Make generators.
type pair struct {
	A int
	S string
	B []byte
}

type list struct {
	V    int
	Next *list
}

type tree struct {
	V    int8
	L, R *tree
}

type inner struct {
	A int8
	B string
}

type makeStruct struct {
	N   int
	F   float32
	S   []uint16
	M   map[string]bool
	P   *inner
	PS  *[]int8
	Arr [2]byte
	In  []inner
	MP  map[int8]*inner
}

// customCtxProblems counts violations of the Context/Cleanup contract seen inside Custom functions.
var customCtxProblems, customCleanups int64

// buildGens constructs a fresh set of generators. Only the construction parameters depend on
// (r, seed): two calls with the same arguments give distinct but equivalent generator objects.
func buildGens(r int, seed uint64) []namedGen {
	p := (r + int(seed%5)) % 100
	c := func(base rune, off int) rune { return base + rune(off%10) }
	var out []namedGen
	add := func(g namedGen) { out = append(out, g) }

	add(wrap("Bool", rapid.Bool()))
	add(wrap("Byte", rapid.Byte()))
	add(wrap("Int", rapid.Int()))
	add(wrap("Int8", rapid.Int8()))
	add(wrap("Int16", rapid.Int16()))
	add(wrap("Int32", rapid.Int32()))
	add(wrap("Int64", rapid.Int64()))
	add(wrap("Uint", rapid.Uint()))
	add(wrap("Uint8", rapid.Uint8()))
	add(wrap("Uint16", rapid.Uint16()))
	add(wrap("Uint32", rapid.Uint32()))
	add(wrap("Uint64", rapid.Uint64()))
	add(wrap("Uintptr", rapid.Uintptr()))

	add(wrap("ByteMin", rapid.ByteMin(byte(p))))
	add(wrap("IntMin", rapid.IntMin(-p)))
	add(wrap("Int8Min", rapid.Int8Min(int8(-p))))
	add(wrap("Int16Min", rapid.Int16Min(int16(100*p))))
	add(wrap("Int32Min", rapid.Int32Min(int32(-1000*p))))
	add(wrap("Int64Min", rapid.Int64Min(int64(p)<<40)))
	add(wrap("UintMin", rapid.UintMin(uint(p))))
	add(wrap("Uint8Min", rapid.Uint8Min(uint8(200+p))))
	add(wrap("Uint16Min", rapid.Uint16Min(uint16(p))))
	add(wrap("Uint32Min", rapid.Uint32Min(uint32(p)<<20)))
	add(wrap("Uint64Min", rapid.Uint64Min(uint64(p)<<50)))
	add(wrap("UintptrMin", rapid.UintptrMin(uintptr(p))))

	add(wrap("ByteMax", rapid.ByteMax(byte(100+p))))
	add(wrap("IntMax", rapid.IntMax(1000*p)))
	add(wrap("Int8Max", rapid.Int8Max(int8(p))))
	add(wrap("Int16Max", rapid.Int16Max(int16(-p))))
	add(wrap("Int32Max", rapid.Int32Max(int32(p))))
	add(wrap("Int64Max", rapid.Int64Max(-int64(p)<<33)))
	add(wrap("UintMax", rapid.UintMax(uint(p)+1)))
	add(wrap("Uint8Max", rapid.Uint8Max(uint8(p))))
	add(wrap("Uint16Max", rapid.Uint16Max(uint16(1000+p))))
	add(wrap("Uint32Max", rapid.Uint32Max(uint32(p)<<10)))
	add(wrap("Uint64Max", rapid.Uint64Max(uint64(p)<<40)))
	add(wrap("UintptrMax", rapid.UintptrMax(uintptr(p)+7)))

	add(wrap("ByteRange", rapid.ByteRange(byte(p), byte(p+50))))
	add(wrap("IntRange", rapid.IntRange(-p-1, p+10)))
	add(wrap("Int8Range", rapid.Int8Range(-5, int8(p))))
	add(wrap("Int16Range", rapid.Int16Range(int16(-p), 3000)))
	add(wrap("Int32Range", rapid.Int32Range(int32(p), int32(p)+1)))
	add(wrap("Int64Range", rapid.Int64Range(-1<<62, int64(p%4)<<60)))
	add(wrap("UintRange", rapid.UintRange(uint(p), uint(p)*3+1)))
	add(wrap("Uint8Range", rapid.Uint8Range(0, uint8(p))))
	add(wrap("Uint16Range", rapid.Uint16Range(uint16(p), 65535)))
	add(wrap("Uint32Range", rapid.Uint32Range(7, uint32(p)+7)))
	add(wrap("Uint64Range", rapid.Uint64Range(uint64(p), 1<<63)))
	add(wrap("UintptrRange", rapid.UintptrRange(uintptr(p), uintptr(p)+255)))

	add(wrap("Float32", rapid.Float32()))
	add(wrap("Float32Min", rapid.Float32Min(-1.5)))
	add(wrap("Float32Max", rapid.Float32Max(float32(p))))
	add(wrap("Float32Range", rapid.Float32Range(-1, float32(p)+0.5)))
	add(wrap("Float64", rapid.Float64()))
	add(wrap("Float64Min", rapid.Float64Min(float64(p)*1e10)))
	add(wrap("Float64Max", rapid.Float64Max(-0.25)))
	add(wrap("Float64Range", rapid.Float64Range(-float64(p)-1, 1e-3)))

	// Runes and strings. The range tables are fresh objects, so the expandedTables cache is cold.
	greek := &unicode.RangeTable{R16: []unicode.Range16{{Lo: 0x3b1, Hi: 0x3c9 - uint16(p%5), Stride: 1}}}
	digits := &unicode.RangeTable{R16: []unicode.Range16{{Lo: '0', Hi: '9', Stride: 1 + uint16(p%2)}}}
	runeABC := rapid.RuneFrom([]rune{'a', 'b', c('c', p), 'X'})
	add(wrap("Rune", rapid.Rune()))
	add(wrap("RuneFrom(runes)", runeABC))
	add(wrap("RuneFrom(tables)", rapid.RuneFrom(nil, greek, digits)))
	add(wrap("RuneFrom(both)", rapid.RuneFrom([]rune{'_'}, unicode.Cyrillic, digits)))
	add(wrap("String", rapid.String()))
	add(wrap("StringN", rapid.StringN(1, 5+p, -1)))
	add(wrap("StringOf", rapid.StringOf(runeABC)))
	add(wrap("StringOfN", rapid.StringOfN(rapid.RuneFrom(nil, greek), 0, 4, 12)))

	// Regexp-based generators: (r, seed)-dependent expressions keep the package-level caches cold.
	dyn1 := fmt.Sprintf("[a-%c]{1,%d}x%dy", c('b', p+int(seed%7)), 2+r%5, seed%1000+uint64(r))
	dyn2 := fmt.Sprintf("(?i)[%c-%c]+_%d", c('A', p), c('K', p), r)
	dyn3 := fmt.Sprintf(`\d{%d}-[%c-%c]*(r%d|s%d)`, 1+r%3, c('m', p), c('p', p), r, seed%100)
	// a large negated class that no earlier round used: expanding its ~1.1M runes takes long enough that
	// concurrent first users really overlap inside the package-level table cache
	bigNeg := fmt.Sprintf(`[^\x{%X}]{8}`, 0xE000+(r*131+int(seed%97))%6000)
	add(wrap("StringMatching(bigneg)", rapid.StringMatching(bigNeg)))
	shortWord := rapid.StringMatching(`[a-z]{1,6}`)
	add(wrap("StringMatching(dyn1)", rapid.StringMatching(dyn1)))
	add(wrap("StringMatching(dyn2)", rapid.StringMatching(dyn2)))
	add(wrap("StringMatching(email)", rapid.StringMatching(`[a-z]+@[a-z]+\.(com|org|net)`)))
	add(wrap("StringMatching(fold)", rapid.StringMatching(`(?i)hello|world`)))
	add(wrap("StringMatching(ident)", rapid.StringMatching(`^[[:alpha:]_]\w{0,8}$`)))
	add(wrap("StringMatching(rep)", rapid.StringMatching(`(ab|cd)*e?f+`)))
	add(wrap("StringMatching(dot)", rapid.StringMatching(`.{0,5}`)))
	add(wrap("StringMatching(dotall)", rapid.StringMatching(`(?s).\p{Greek}{1,3}`)))
	add(wrap("StringMatching(short)", shortWord))
	add(wrap("SliceOfBytesMatching(dyn3)", rapid.SliceOfBytesMatching(dyn3)))
	add(wrap("SliceOfBytesMatching(mac)", rapid.SliceOfBytesMatching(`[0-9a-f]{2}(:[0-9a-f]{2}){0,3}`)))

	// Collections.
	small := rapid.IntRange(0, 100+p)
	bytes3 := rapid.SliceOfN(rapid.Byte(), 0, 3)
	add(wrap("IntRange(shared)", small))
	add(wrap("SliceOfN(shared)", bytes3))
	add(wrap("SliceOf", rapid.SliceOf(rapid.Int8())))
	add(wrap("SliceOfDistinct", rapid.SliceOfDistinct(small, rapid.ID[int])))
	add(wrap("SliceOfNDistinct", rapid.SliceOfNDistinct(shortWord, 1, 3, func(s string) int { return len(s) })))
	add(wrap("MapOf", rapid.MapOf(small, rapid.Bool())))
	add(wrap("MapOfN", rapid.MapOfN(rapid.StringMatching(`[a-c]{1,2}`), rapid.Byte(), 1, 3)))
	add(wrap("MapOfValues", rapid.MapOfValues(small, func(i int) string { return strconv.Itoa(i % 17) })))
	add(wrap("MapOfNValues", rapid.MapOfNValues(shortWord, 0, 3, func(s string) byte { return s[0] })))

	// Combinators.
	add(wrap("Just(int)", rapid.Just(42+p)))
	add(wrap("Just(string)", rapid.Just("x")))
	add(wrap("SampledFrom", rapid.SampledFrom([]string{"a", "b", "c", dyn1})))
	add(wrap("Permutation", rapid.Permutation([]int{1, 2, 3, 4, 5, 6, 7}[:4+p%4])))
	{
		// the value a check draws is its own: it is sorted in place after the draw.  A generator that hands out its
		// own slice would then produce other values for the other checks (and for the solo run)
		gperm := rapid.Permutation([]int{5, 3, 9, 1, 7, 2, 8}[:3+p%5])
		ng := wrap("Permutation/sorted-in-place", gperm)
		ng.draw = func(t *rapid.T, label string) string {
			v := gperm.Draw(t, label)
			s := pp(v)
			sort.Ints(v)
			return s
		}
		add(ng)
	}
	add(wrap("OneOf", rapid.OneOf(small, rapid.Just(-1), rapid.IntMin(1000))))
	add(wrap("Ptr(nil ok)", rapid.Ptr(small, true)))
	add(wrap("Ptr(non-nil)", rapid.Ptr(rapid.String(), false)))
	add(wrap("Map", rapid.Map(small, func(i int) string { return "#" + strconv.Itoa(i) })))

	dynGen := rapid.StringMatching(dyn1)
	custom := rapid.Custom(func(t *rapid.T) pair {
		ctx := t.Context()
		if ctx.Err() != nil {
			atomic.AddInt64(&customCtxProblems, 1)
		}
		t.Cleanup(func() {
			atomic.AddInt64(&customCleanups, 1)
			if ctx.Err() == nil {
				atomic.AddInt64(&customCtxProblems, 1)
			}
		})
		a := small.Draw(t, "a")
		if a%9 == 8 {
			t.Skip("unlucky")
		}
		return pair{A: a, S: dynGen.Draw(t, "s"), B: bytes3.Draw(t, "b")}
	})
	add(wrap("Custom", custom))
	add(wrap("Map(Custom)", rapid.Map(custom, func(v pair) string { return v.S + "/" + strconv.Itoa(v.A) })))
	add(wrap("Custom.AsAny", custom.AsAny()))
	add(wrap("Filter(int)", small.Filter(func(i int) bool { return i%2 == 0 })))
	add(wrap("Filter(StringMatching)", shortWord.Filter(func(s string) bool { return len(s)%2 == 0 })))
	add(wrap("AsAny", rapid.OneOf(rapid.Int8().AsAny(), rapid.StringN(0, 3, -1).AsAny(), rapid.Bool().AsAny())))

	defInt := rapid.Deferred(func() *rapid.Generator[int] { return rapid.IntRange(-p, 9) })
	defRe := rapid.Deferred(func() *rapid.Generator[string] {
		return rapid.StringMatching(fmt.Sprintf("%c{1,3}[%c-%c]", c('q', p), c('a', r), c('f', r)))
	})
	defCustom := rapid.Deferred(func() *rapid.Generator[pair] { return custom })
	add(wrap("Deferred(int)", defInt))
	add(wrap("Deferred(regexp)", defRe))
	add(wrap("SliceOfN(Deferred(Custom))", rapid.SliceOfN(defCustom, 0, 3)))
	add(wrap("OneOf(Deferred)", rapid.OneOf(defInt, rapid.Deferred(func() *rapid.Generator[int] { return small }), rapid.Just(7))))

	var listGen *rapid.Generator[*list]
	listGen = rapid.OneOf(rapid.Just[*list](nil), rapid.Deferred(func() *rapid.Generator[*list] {
		return rapid.Custom(func(t *rapid.T) *list {
			return &list{V: small.Draw(t, "v"), Next: listGen.Draw(t, "next")}
		})
	}))
	add(wrap("Deferred(list)", listGen))

	var treeGen *rapid.Generator[*tree]
	leaf := rapid.Just[*tree](nil)
	treeGen = rapid.OneOf(leaf, leaf, leaf, rapid.Deferred(func() *rapid.Generator[*tree] {
		return rapid.Custom(func(t *rapid.T) *tree {
			return &tree{V: rapid.Int8().Draw(t, "v"), L: treeGen.Draw(t, "l"), R: treeGen.Draw(t, "r")}
		})
	}))
	add(wrap("Deferred(tree)", treeGen))
	add(wrap("SliceOfN(Deferred(tree))", rapid.SliceOfN(rapid.Deferred(func() *rapid.Generator[*tree] { return treeGen }), 1, 3)))

	add(wrap("Make(struct)", rapid.Make[makeStruct]()))
	add(wrap("Make([]*inner)", rapid.Make[[]*inner]()))
	add(wrap("Make(map)", rapid.Make[map[int8]*[2]bool]()))

	return out
}
