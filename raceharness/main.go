// Command raceharness is a race-detector stress harness for pgregory.net/rapid.
//
// Subcommands: t-methods (concurrent use of *rapid.T methods), g-share (generators shared
// between concurrently running checks), selftest (a deliberate race in the harness itself).
// One JSON object is printed on the real stdout; os.Stdout is redirected to /dev/null because
// rapid's -rapid.log path writes to os.Stdout.
package main

import (
	"encoding/json"
	"flag"
	"fmt"
	"os"
	"sync"
	"testing"
)

var realStdout *os.File

func die(format string, args ...any) {
	fmt.Fprintf(os.Stderr, "raceharness: "+format+"\n", args...)
	os.Exit(2)
}

func emit(v any) {
	b, err := json.Marshal(v)
	if err != nil {
		die("json: %v", err)
	}
	if _, err := realStdout.Write(append(b, '\n')); err != nil {
		die("write: %v", err)
	}
}

// splitmix64 is the tiny deterministic PRNG used for all plans and orders.
type splitmix64 struct{ x uint64 }

func (s *splitmix64) next() uint64 {
	s.x += 0x9e3779b97f4a7c15
	z := s.x
	z = (z ^ (z >> 30)) * 0xbf58476d1ce4e5b9
	z = (z ^ (z >> 27)) * 0x94d049bb133111eb
	return z ^ (z >> 31)
}

func (s *splitmix64) intn(n int) int { return int(s.next() % uint64(n)) }

// mix derives a non-zero seed from a base seed and indices.
func mix(base uint64, idx ...uint64) uint64 {
	s := splitmix64{x: base}
	v := s.next()
	for _, i := range idx {
		s.x ^= i * 0xd6e8feb86659fd93
		v ^= s.next()
	}
	return v | 1
}

// problems remembers the first problem description seen.
type problems struct {
	mu    sync.Mutex
	first string
}

func (p *problems) note(format string, args ...any) {
	p.mu.Lock()
	defer p.mu.Unlock()
	if p.first == "" {
		p.first = fmt.Sprintf(format, args...)
	}
}

func (p *problems) get() string {
	p.mu.Lock()
	defer p.mu.Unlock()
	return p.first
}

func selftest() {
	n := 0
	var wg sync.WaitGroup
	for i := 0; i < 2; i++ {
		wg.Add(1)
		go func() {
			defer wg.Done()
			for j := 0; j < 1000; j++ {
				n++ // deliberate data race
			}
		}()
	}
	wg.Wait()
	emit(map[string]any{"cmd": "selftest", "race_enabled": raceEnabled, "n": n})
}

func main() {
	realStdout = os.Stdout
	devnull, err := os.OpenFile(os.DevNull, os.O_WRONLY, 0)
	if err != nil {
		die("open %s: %v", os.DevNull, err)
	}
	os.Stdout = devnull

	// rapid's checkTB calls testing.Short(), which needs initialised and parsed test flags.
	testing.Init()
	_ = flag.CommandLine.Parse(nil)

	if len(os.Args) < 2 {
		die("usage: raceharness t-methods|g-share|selftest [flags]")
	}
	switch os.Args[1] {
	case "t-methods":
		tMethodsMain(os.Args[2:])
	case "g-share":
		gShareMain(os.Args[2:])
	case "selftest":
		selftest()
	default:
		die("unknown subcommand %q", os.Args[1])
	}
}
