#!/bin/sh
# development helper: sequential build of everything of the core workstream (the checks use make)
cd /verif/coq
./build.sh || exit 1
for f in Model/Minimize Model/Shrink Model/CorrEngine Proofs/Inv Proofs/Closure Proofs/Prefix Proofs/Frame Proofs/Shortlex Proofs/Replay Proofs/ReplayTop Proofs/ShrinkProofs Proofs/EngineProofs Proofs/FuzzProofs Proofs/Signals Proofs/Bracket Proofs/Closure2 Proofs/BracketEnd Proofs/RepeatProofs Proofs/IntProofs Model/Witness Model/CorrValues Proofs/Reach Proofs/MinimizeProofs Proofs/Contract Proofs/Termination Proofs/Rejected Proofs/PruneRefines Model/Strings Model/CorrStrings Proofs/StringProofs Proofs/Glue Proofs/FileProofs Proofs/FileEngine Proofs/Jsf Proofs/MinimizeMono Proofs/BiasMono Properties/C03 Properties/C12 Properties/C18 Properties/C01 Properties/C02 Properties/C08 Properties/C10 Properties/C04 Properties/C05 Properties/C07 Properties/C09 Properties/C11 Properties/C13; do
  timeout 600 coqc -Q . Rapid -w -abstract-large-number $f.v > /tmp/buildall.log 2>&1 || { echo "FAILED $f"; cat /tmp/buildall.log | head -30; exit 1; }
done
echo ALL_BUILT
