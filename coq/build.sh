#!/bin/sh
# quick sequential build of the model files (development helper; the checks use make)
cd /verif/coq
for f in Generated/Consts Generated/GeomTable Model/Base Model/Syntax Model/Monad Model/Prim Model/Interp Model/Engine Model/Pexp Model/Groups Model/Corr; do
  coqc -Q . Rapid $f.v || exit 1
done
