(* Facts about the loader alone (C17): totality with four possible error classes, what an Ok result
   says about the file, and insensitivity to comment lines. *)
From Coq Require Import List NArith Bool Lia Arith.
Import ListNotations.
Require Import Rapid.Model.Persist.
Require Import Rapid.Proofs.PersistProofs.
Open Scope N_scope.

(* every byte string loads to a result or to one of the four parse-level error classes; the two
   file-system classes (ErrOpen, ErrScan) cannot come out of the byte-level function *)
Lemma load_total b :
  (exists v s ws, load_bytes b = LOk v s ws) \/
  (exists e, load_bytes b = LErr e /\ (e = ErrNoData \/ e = ErrFields \/ e = ErrSeed \/ e = ErrWord)).
Proof.
  unfold load_bytes. destruct (data_lines b) as [|d0 ds]; [right; eexists; split; [reflexivity|tauto]|].
  destruct (split_on 35 d0) as [|v [|sd [|x xs]]]; try (right; eexists; split; [reflexivity|tauto]).
  destruct (parse_uint 10 sd); [|right; eexists; split; [reflexivity|tauto]].
  destruct (parse_words ds); [left; eauto|right; eexists; split; [reflexivity|tauto]].
Qed.

(* no data line (only comments, blank lines, or nothing at all) is exactly the ErrNoData class *)
Lemma load_no_data b : data_lines b = [] <-> load_bytes b = LErr ErrNoData.
Proof.
  unfold load_bytes. split.
  - intros ->. reflexivity.
  - destruct (data_lines b) as [|d0 ds]; [reflexivity|].
    destruct (split_on 35 d0) as [|v [|sd [|x xs]]]; try discriminate.
    destruct (parse_uint 10 sd); [|discriminate]. destruct (parse_words ds); discriminate.
Qed.

Lemma load_empty : load_bytes [] = LErr ErrNoData.
Proof. reflexivity. Qed.

(* ---- what parse_uint accepts ---- *)
Lemma parse_digits_bound base b0 l : forall n us m us', parse_digits base b0 l n us = DOk m us' -> n <= maxu64 -> m <= maxu64.
Proof.
  induction l as [|c l IH]; intros n us m us' H Hn; cbn [parse_digits] in H.
  - inversion H; subst. exact Hn.
  - destruct ((c =? 95) && b0); [eapply IH; eassumption|].
    destruct (digit_val c) as [d|]; [|discriminate].
    destruct (base <=? d); [discriminate|]. destruct (cutoff base <=? n); [discriminate|].
    destruct (N.ltb_spec maxu64 (n * base + d)); [discriminate|]. eapply IH; eassumption.
Qed.

Lemma parse_uint_bound base s m : parse_uint base s = POk m -> m <= maxu64.
Proof.
  unfold parse_uint. destruct s as [|c0 t0]; [discriminate|].
  destruct (if base =? 0 then _ else _) as [b digits].
  destruct (parse_digits b (base =? 0) digits 0 false) as [n us|e] eqn:E; [|discriminate].
  intros H. assert (n = m) by (destruct (us && negb (underscore_ok (c0 :: t0))); [discriminate|congruence]). subst.
  eapply parse_digits_bound; [exact E|unfold maxu64; lia].
Qed.

Definition dec_digit (c : N) : Prop := 48 <= c <= 57.

Lemma digit_val_lt10 c d : digit_val c = Some d -> d < 10 -> dec_digit c.
Proof.
  unfold digit_val, dec_digit. intros H Hd.
  destruct ((48 <=? c) && (c <=? 57)) eqn:E1.
  - apply andb_true_iff in E1. rewrite !N.leb_le in E1. exact E1.
  - destruct ((97 <=? c) && (c <=? 122)) eqn:E2.
    + apply andb_true_iff in E2. rewrite !N.leb_le in E2. inversion H. lia.
    + destruct ((65 <=? c) && (c <=? 90)) eqn:E3; [|discriminate].
      apply andb_true_iff in E3. rewrite !N.leb_le in E3. inversion H. lia.
Qed.

Lemma parse_digits_10_chars l : forall n us m us', parse_digits 10 false l n us = DOk m us' -> Forall dec_digit l.
Proof.
  induction l as [|c l IH]; intros n us m us' H; [constructor|]. cbn [parse_digits] in H.
  rewrite andb_false_r in H.
  destruct (digit_val c) as [d|] eqn:Ed; [|discriminate].
  destruct (N.leb_spec 10 d); [discriminate|]. destruct (cutoff 10 <=? n); [discriminate|].
  destruct (maxu64 <? n * 10 + d); [discriminate|].
  constructor; [eapply digit_val_lt10; eassumption|eapply IH; eassumption].
Qed.

(* base 10: exactly the non-empty strings of decimal digits (with value below 2^64) are accepted *)
Lemma parse_uint_10_chars s m : parse_uint 10 s = POk m -> s <> [] /\ Forall dec_digit s.
Proof.
  destruct s as [|c t]; [discriminate|]. rewrite parse_uint_10_unfold.
  destruct (parse_digits 10 false (c :: t) 0 false) as [n us|e] eqn:E; [|discriminate].
  intros _. split; [discriminate|]. eapply parse_digits_10_chars. exact E.
Qed.

Lemma parse_words_inv ds : forall ws, parse_words ds = Some ws ->
  length ws = length ds /\ Forall (fun u => u <= maxu64) ws /\ Forall2 (fun l u => parse_uint 0 l = POk u) ds ws.
Proof.
  induction ds as [|l ds IH]; intros ws H; cbn in H.
  - inversion H; subst. repeat split; constructor.
  - destruct (parse_uint 0 l) as [u|] eqn:Eu; [|discriminate].
    destruct (parse_words ds) as [us|]; [|discriminate]. inversion H; subst.
    destruct (IH us eq_refl) as [H1 [H2 H3]]. cbn. repeat split.
    + f_equal. exact H1.
    + constructor; [eapply parse_uint_bound; exact Eu|exact H2].
    + constructor; assumption.
Qed.

(* An Ok result determines the shape of the file: its first data line is exactly
   <version>#<decimal seed> - with a non-empty '#'-free version - and every further data line is a number.
   So arbitrary garbage can only "load" as a usable file if it really has that shape. *)
Theorem load_ok_inv b v s ws : load_bytes b = LOk v s ws ->
  exists sd rest,
    data_lines b = (v ++ 35 :: sd) :: rest /\
    v <> [] /\ ~ In 35 v /\
    sd <> [] /\ Forall dec_digit sd /\ parse_uint 10 sd = POk s /\ s <= maxu64 /\
    parse_words rest = Some ws /\ length ws = length rest /\ Forall (fun u => u <= maxu64) ws.
Proof.
  unfold load_bytes. destruct (data_lines b) as [|d0 ds] eqn:Ed; [discriminate|].
  destruct (split_on 35 d0) as [|v' [|sd [|x xs]]] eqn:Es; try discriminate.
  destruct (parse_uint 10 sd) as [seed|] eqn:Ep; [|discriminate].
  destruct (parse_words ds) as [ws'|] eqn:Ew; [|discriminate].
  intros H. inversion H; subst v' seed ws'. exists sd, ds.
  assert (Ed0 : d0 = v ++ 35 :: sd).
  { rewrite <- (join_split_on 35 d0), Es. reflexivity. }
  pose proof (split_on_parts 35 d0) as HF. rewrite Es in HF.
  pose proof (Forall_inv HF) as Hv. cbv beta in Hv.
  destruct (parse_uint_10_chars sd s Ep) as [Hne Hdig].
  destruct (parse_words_inv ds ws Ew) as [Hlen [Hws _]].
  assert (Hin : In d0 (data_lines b)) by (rewrite Ed; left; reflexivity).
  unfold data_lines in Hin. apply filter_In in Hin. destruct Hin as [_ Hdl].
  repeat split; try assumption.
  - rewrite Ed0. reflexivity.
  - intros ->. rewrite Ed0 in Hdl. cbn in Hdl. discriminate.
  - eapply parse_uint_bound. exact Ep.
Qed.

(* ---- comment lines are invisible ---- *)
Lemma split_on_app_gen sep a b : split_on sep (a ++ sep :: b) = split_on sep a ++ split_on sep b.
Proof.
  induction a as [|c a IH]; cbn.
  - rewrite N.eqb_refl. reflexivity.
  - destruct (N.eqb_spec c sep); [rewrite IH; reflexivity|].
    rewrite IH. pose proof (split_on_nonempty sep a) as Hne.
    destruct (split_on sep a) as [|x xs]; [contradiction|reflexivity].
Qed.

Lemma scan_tokens_cons2 x y ys : scan_tokens (x :: y :: ys) = drop_cr x :: scan_tokens (y :: ys).
Proof. reflexivity. Qed.

(* inserting a whole comment line - any bytes after "# " up to the newline - at the start of the file
   or after any newline changes nothing: not the result, not the error class *)
Theorem load_ignores_comment_line a c b :
  ~ In 10 c -> (a = [] \/ exists a', a = a' ++ [10]) ->
  load_bytes (a ++ comment_line c ++ b) = load_bytes (a ++ b).
Proof.
  intros Hc Ha. unfold load_bytes.
  assert (E : data_lines (a ++ comment_line c ++ b) = data_lines (a ++ b)); [|rewrite E; reflexivity].
  unfold data_lines, scan_lines.
  assert (Hcl : split_on 10 (comment_line c ++ b) = (35 :: 32 :: c) :: split_on 10 b).
  { unfold comment_line. rewrite <- !app_assoc. cbn [app].
    change (35 :: 32 :: c ++ 10 :: b) with ((35 :: 32 :: c) ++ 10 :: b).
    apply split_on_app. intros [H|[H|H]]; try discriminate. contradiction. }
  pose proof (split_on_nonempty 10 b) as Hb.
  assert (Hskip : forall P,
    filter is_data_line (map trim_space (scan_tokens (P ++ (35 :: 32 :: c) :: split_on 10 b))) =
    filter is_data_line (map trim_space (scan_tokens (P ++ split_on 10 b)))).
  { intros P. rewrite !scan_tokens_app by (try discriminate; exact Hb).
    destruct (split_on 10 b) as [|y ys] eqn:Ey; [contradiction|].
    rewrite scan_tokens_cons2. rewrite !map_app, !filter_app. cbn [map filter].
    rewrite comment_token_skipped. reflexivity. }
  destruct Ha as [->|[a' ->]].
  - cbn [app]. rewrite Hcl. apply (Hskip []).
  - rewrite <- !app_assoc. cbn [app]. rewrite !split_on_app_gen. rewrite Hcl. apply Hskip.
Qed.
