(* minimize(u, cond) for an arbitrary monotone condition: the result is the least satisfying value.
   (MinimizeProofs.minimize_exact is the special case cond = (t <=? .).) *)
From Coq Require Import Lia NArith ZArith ZifyN ZifyNat ZifyBool.
Require Import Rapid.Model.Base Rapid.Model.Minimize.
Require Import Rapid.Generated.Consts.
Require Import Rapid.Proofs.MinimizeProofs.
Ltac Zify.zify_post_hook ::= Z.div_mod_to_equations.
Local Open Scope N_scope.

Section Ext.
  Variables c1 c2 : N -> bool.
  Variable u : N.
  Hypothesis Hagree : forall x, x < u -> c1 x = c2 x.

  Lemma macc_ext best x : best <= u -> macc c1 best x = macc c2 best x.
  Proof.
    intros Hb. unfold macc. destruct (N.leb_spec best x) as [H|H]; cbn [orb]; [reflexivity|].
    rewrite (Hagree x) by lia. reflexivity.
  Qed.
  Lemma macc_le c best x : fst (macc c best x) <= best.
  Proof. destruct (macc_step c best x) as [H _]. exact H. Qed.

  Lemma rshift_ext : forall fuel best, best <= u -> rshift c1 fuel best = rshift c2 fuel best.
  Proof.
    induction fuel as [|f IH]; intros best Hb; cbn [rshift]; [reflexivity|].
    rewrite (macc_ext best _ Hb). pose proof (macc_le c2 best (N.shiftr best 1)) as Hl.
    destruct (macc c2 best (N.shiftr best 1)) as [b ok]. cbn [fst] in Hl. destruct ok; [apply IH; lia|reflexivity].
  Qed.
  Lemma unset_ext : forall i best, best <= u -> unset_bits c1 i best = unset_bits c2 i best.
  Proof.
    induction i as [|i IH]; intros best Hb; cbn [unset_bits]; [reflexivity|].
    rewrite (macc_ext best _ Hb). apply IH. pose proof (macc_le c2 best (N.lxor best (N.shiftl 1 (N.of_nat i)))). lia.
  Qed.
  Lemma sort_inner_ext : forall n j i best, best <= u -> sort_inner c1 n j i best = sort_inner c2 n j i best.
  Proof.
    induction n as [|n IH]; intros j i best Hb; cbn [sort_inner]; [reflexivity|].
    destruct (N.ltb j i); [|reflexivity]. destruct (N.testbit best j); [apply IH; exact Hb|].
    rewrite (macc_ext best _ Hb). pose proof (macc_le c2 best (N.lxor best (N.lor (N.shiftl 1 j) (N.shiftl 1 i)))) as Hl.
    destruct (macc c2 best _) as [b ok]. cbn [fst] in Hl. destruct ok; [reflexivity|apply IH; lia].
  Qed.
  Lemma sort_inner_le c : forall n j i best, sort_inner c n j i best <= best.
  Proof. intros n j i best. destruct (sort_inner_step c n j i best) as [H _]. exact H. Qed.
  Lemma sort_ext : forall i best, best <= u -> sort_bits c1 i best = sort_bits c2 i best.
  Proof.
    induction i as [|i IH]; intros best Hb; cbn [sort_bits]; [reflexivity|].
    destruct (N.testbit best (N.of_nat i)); [|apply IH; exact Hb].
    rewrite (sort_inner_ext i 0 (N.of_nat i) best Hb). apply IH.
    pose proof (sort_inner_le c2 i 0 (N.of_nat i) best). lia.
  Qed.
  Lemma bin_loop_ext : forall fuel best i j, best <= u -> bin_loop c1 fuel best i j = bin_loop c2 fuel best i j.
  Proof.
    induction fuel as [|f IH]; intros best i j Hb; cbn [bin_loop]; [reflexivity|].
    destruct (N.ltb i j); [|reflexivity]. rewrite (macc_ext best _ Hb).
    pose proof (macc_le c2 best (i + (j - i) / 2)) as Hl.
    destruct (macc c2 best _) as [b ok]. cbn [fst] in Hl. destruct ok; apply IH; lia.
  Qed.
  Lemma bin_search_ext best : best <= u -> bin_search c1 best = bin_search c2 best.
  Proof.
    intros Hb. unfold bin_search. rewrite (macc_ext best _ Hb).
    pose proof (macc_le c2 best (best - 1)) as Hl.
    destruct (macc c2 best _) as [b ok]. cbn [fst] in Hl. destruct ok; [apply bin_loop_ext; lia|reflexivity].
  Qed.
  Lemma try_small_ext : forall n i, try_small c1 n i u = try_small c2 n i u.
  Proof.
    induction n as [|n IH]; intros i; cbn [try_small]; [reflexivity|].
    destruct (N.ltb_spec i u) as [H|H]; cbn [andb]; [|reflexivity].
    destruct (N.ltb i smallN); [|reflexivity]. rewrite (Hagree i H). rewrite IH. reflexivity.
  Qed.
  Theorem minimize_ext : minimize c1 u = minimize c2 u.
  Proof.
    unfold minimize. destruct (N.eqb u 0); [reflexivity|]. rewrite try_small_ext.
    destruct (try_small c2 c_small 0 u); [reflexivity|]. destruct (N.leb u smallN); [reflexivity|].
    assert (A1 : rshift c1 64 u = rshift c2 64 u) by (apply rshift_ext; lia). rewrite A1.
    set (b1 := rshift c2 64 u). assert (L1 : b1 <= u) by (destruct (rshift_step c2 64 u) as [H _]; exact H).
    assert (A2 : unset_bits c1 (len64 b1) b1 = unset_bits c2 (len64 b1) b1) by (apply unset_ext; exact L1). rewrite A2.
    set (b2 := unset_bits c2 (len64 b1) b1). assert (L2 : b2 <= b1) by (destruct (unset_step c2 (len64 b1) b1) as [H _]; exact H).
    assert (A3 : sort_bits c1 (len64 b2) b2 = sort_bits c2 (len64 b2) b2) by (apply sort_ext; lia). rewrite A3.
    set (b3 := sort_bits c2 (len64 b2) b2). assert (L3 : b3 <= b2) by (destruct (sort_step c2 (len64 b2) b2) as [H _]; exact H).
    apply bin_search_ext. lia.
  Qed.
End Ext.

(* a satisfied condition has a least satisfying value *)
Lemma exists_least (cond : N -> bool) : forall n u, (N.to_nat u <= n)%nat -> cond u = true ->
  exists t, t <= u /\ cond t = true /\ forall x, x < t -> cond x = false.
Proof.
  induction n as [|n IH]; intros u Hn Hc.
  - exists u. repeat split; [lia|exact Hc|intros x Hx; lia].
  - destruct (N.eq_dec u 0) as [->|Hu0]; [exists 0; repeat split; [lia|exact Hc|intros x Hx; lia]|].
    (* is there a satisfying value below u? search downwards *)
    assert (Hdec : (exists y, y < u /\ cond y = true) \/ (forall y, y < u -> cond y = false)).
    { clear IH Hc Hn. induction u as [|u IHu] using N.peano_ind; [right; intros y Hy; lia|].
      destruct (N.eq_dec u 0) as [->|Hne].
      - destruct (cond 0) eqn:E; [left; exists 0; split; [lia|exact E]|right; intros y Hy; assert (y = 0) by lia; subst; exact E].
      - destruct (IHu Hne) as [[y [Hy Hcy]]|Hall].
        + left. exists y. split; [lia|exact Hcy].
        + destruct (cond u) eqn:E; [left; exists u; split; [lia|exact E]|].
          right. intros y Hy. destruct (N.eq_dec y u) as [->|Hyu]; [exact E|apply Hall; lia]. }
    destruct Hdec as [[y [Hy Hcy]]|Hall].
    + destruct (IH y ltac:(lia) Hcy) as [t [Ht [Hct Hlt]]]. exists t. repeat split; [lia|exact Hct|exact Hlt].
    + exists u. repeat split; [lia|exact Hc|exact Hall].
Qed.

(* the general exactness theorem *)
Theorem minimize_least (cond : N -> bool) (u : N) :
  smallN = 5 -> u < 2 ^ 64 -> cond u = true ->
  (forall x y, x <= y -> y <= u -> cond x = true -> cond y = true) ->
  cond (minimize cond u) = true /\ forall x, x < minimize cond u -> cond x = false.
Proof.
  intros Hs Hu Hc Hmono.
  destruct (exists_least cond (N.to_nat u) u (le_n _) Hc) as [t [Ht [Hct Hlt]]].
  assert (Hagree : forall x, x < u -> cond x = N.leb t x).
  { intros x Hx. destruct (N.leb_spec t x) as [H|H]; [apply (Hmono t x H ltac:(lia) Hct)|apply Hlt; exact H]. }
  rewrite (minimize_ext cond (fun x => N.leb t x) u Hagree).
  rewrite (minimize_exact t u Hs Ht Hu). split; [exact Hct|exact Hlt].
Qed.
