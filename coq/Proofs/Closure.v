(* A generic induction principle over the whole interpreter: any predicate on computations that is
   closed under the monad operations, the primitives, grouping, catching and the fresh-T scope holds
   for every generator expression and every program.  Invariants are proved by instantiating it. *)
From Coq Require Import Lia.
Require Import Rapid.Model.Base Rapid.Model.Syntax Rapid.Model.Monad Rapid.Model.Prim Rapid.Model.Interp Rapid.Model.Engine.
Require Import Rapid.Generated.Consts Rapid.Proofs.Inv.
Local Open Scope nat_scope.

Section Closure.
  Variable P : forall A, M A -> Prop.
  Arguments P {A}.
  Hypothesis P_ret : forall A (a : A), P (ret a).
  Hypothesis P_throw : forall A e, P (@throw A e).
  Hypothesis P_bind : forall A B (m : M A) (f : A -> M B), P m -> (forall a, P (f a)) -> P (bind m f).
  Hypothesis P_emit_g : forall e, P (emit_g e).
  Hypothesis P_emit_u : forall e, plain e = true -> P (emit_u e).
  Hypothesis P_get_ts : P get_ts.
  Hypothesis P_mark_dirty : P mark_dirty.
  Hypothesis P_signal : forall k m id, P (signal k m id).
  Hypothesis P_register : forall id f, P (register id f).
  Hypothesis P_context_call : P context_call.
  Hypothesis P_begin_cleanup : P begin_cleanup.
  Hypothesis P_pop_cleanup : P pop_cleanup.
  Hypothesis P_end_cleanup : P end_cleanup.
  Hypothesis P_note_skip : forall m, P (note_skip m).
  Hypothesis P_note_ood : forall m, P (note_ood m).
  Hypothesis P_failOnError : forall l, P (failOnError l).
  Hypothesis P_note_draw : forall v, P (note_draw v).
  Hypothesis P_drawBits : forall n, P (drawBits n).
  Hypothesis P_group_d : forall A sa (m : M (A * bool)), P m -> P (group_d sa m).
  Hypothesis P_try : forall A B (m : M A) (h : result A -> M B), P m -> (forall r, P (h r)) -> P (try_ m h).
  Hypothesis P_try_w : forall A B (m : M A) (h : result A -> wr -> M B), P m -> (forall r x, P (h r x)) -> P (try_w m h).
  Hypothesis P_fresh : forall A (m : M A), P m -> P (with_fresh_T m).

  Ltac pa :=
    repeat first
      [ apply P_ret | apply P_throw | apply P_emit_g | apply P_emit_u; reflexivity | apply P_get_ts | apply P_mark_dirty
      | apply P_signal | apply P_register | apply P_context_call | apply P_begin_cleanup | apply P_pop_cleanup
      | apply P_end_cleanup | apply P_note_skip | apply P_note_ood | apply P_failOnError | apply P_note_draw | apply P_drawBits
      | apply P_group_d | apply P_bind; [|intros]
      | assumption
      | match goal with H : forall a, P (_ a) |- _ => apply H end ].

  Lemma P_group A sa (m : M A) : P m -> P (group sa m).
  Proof. intros H. unfold group. pa. Qed.

  Section WithOracles.
    Variable geom : nat -> N -> N.
    Variable LF : nat.
    Variable crun : prog -> M val.
    Hypothesis P_crun : forall p, P (crun p).

    Lemma P_coin K : P (coin K).
    Proof. unfold coin. apply P_bind; [apply P_group; pa|intros; pa]. Qed.
    Lemma P_unbiased : forall fuel bl max, P (unbiased_loop fuel bl max).
    Proof. induction fuel as [|f IH]; intros; cbn [unbiased_loop]; pa. destruct (negb _); pa; apply IH. Qed.
    Lemma P_biased : forall fuel bl max n, P (biased_loop fuel bl max n).
    Proof. induction fuel as [|f IH]; intros; cbn [biased_loop]; pa. destruct (negb _); [apply IH|unfold biased_fin; pa]. Qed.
    Lemma P_genUintN fuel max bias : P (genUintN geom fuel max bias).
    Proof.
      unfold genUintN, genUintNBiased. destruct bias.
      - apply P_bind; [apply P_group; pa|intros; apply P_biased].
      - apply P_bind; [apply P_unbiased|intros; pa].
    Qed.
    Lemma P_genUintRange fuel mn mx bias : P (genUintRange geom fuel mn mx bias).
    Proof.
      unfold genUintRange, assert_fail. destruct (N.ltb mx mn); pa.
      - apply P_genUintN.
      - destruct a as [[u l] r]; pa.
    Qed.
    Lemma P_genIntRange fuel mn mx : P (genIntRange geom fuel mn mx).
    Proof.
      unfold genIntRange, assert_fail. destruct (Z.ltb mx mn); pa.
      destruct (Z.leb 0 mn); [|destruct (Z.leb mx 0)];
        (apply P_bind; [apply P_coin|intros neg]; destruct neg;
         (apply P_bind; [apply P_genUintRange|intros [[u l] r]; pa])).
    Qed.
    Lemma P_genIndex fuel n bias : P (genIndex geom fuel n bias).
    Proof. unfold genIndex, assert_fail. destruct n; pa. apply P_genUintN. Qed.

    Lemma P_rep_iter A minc maxc K (body : A -> M (option A)) count rej force acc :
      (forall a, P (body a)) -> P (rep_iter minc maxc K body count rej force acc).
    Proof.
      intros Hb. unfold rep_iter. apply P_group_d. apply P_bind.
      - unfold rep_coin. destruct (N.ltb _ _); [apply P_coin|]. destruct force.
        + apply P_bind; [apply P_group; pa|intros; pa].
        + destruct (N.leb _ _); apply P_coin.
      - intros cont. unfold rep_tail, rep_reject. destruct cont; pa. destruct a; pa.
        destruct (Nat.ltb _ _); pa. destruct (N.leb _ _); pa. destruct (N.eqb _ _); pa.
    Qed.
    Lemma P_rep_loop A minc maxc K (body : A -> M (option A)) :
      (forall a, P (body a)) -> forall fuel count rej force acc, P (rep_loop fuel minc maxc K body count rej force acc).
    Proof.
      intros Hb. induction fuel as [|f IH]; intros; cbn [rep_loop]; [apply P_throw|].
      apply P_bind; [apply P_rep_iter; exact Hb|]. intros r; destruct r; try apply P_ret; apply IH.
    Qed.
    Lemma P_find_loop A (att : M (option A)) : P att -> forall tries, P (find_loop att tries).
    Proof.
      intros Ha. induction tries as [|t IH]; cbn [find_loop]; [apply P_throw|].
      apply P_bind.
      - apply P_group_d. apply P_bind; [exact Ha|intros; apply P_ret].
      - intros r; destruct r; [apply P_ret|exact IH].
    Qed.

    Lemma P_cleanup_loop inner : forall fuel last, P (cleanup_loop crun inner fuel last).
    Proof.
      induction fuel as [|f IH]; intros last; cbn [cleanup_loop]; [apply P_throw|].
      apply P_bind; [apply P_pop_cleanup|intros c].
      destruct c as [c|]; [|apply P_ret].
      apply P_try; [apply P_crun|]. intros [v|e]; [apply IH|].
      destruct e; try apply IH.
      - destruct (inner && internal_msg m).
        + apply P_bind; [apply P_mark_dirty|intros _].
          apply P_bind; [apply P_note_ood|intros; apply IH].
        + apply P_bind; [destruct (internal_msg m); pa|intros _].
          apply P_bind; [apply P_note_skip|intros; apply IH].
      - apply P_throw.
    Qed.
    Lemma P_cleanup inner : P (cleanup LF crun inner).
    Proof.
      unfold cleanup. apply P_bind; [apply P_begin_cleanup|intros _].
      apply P_bind; [apply P_cleanup_loop|intros r].
      apply P_bind; [apply P_end_cleanup|intros _]. apply P_ret.
    Qed.
    Lemma P_custom_end r : P (custom_end r).
    Proof.
      unfold custom_end.
      assert (H : P (_ <- emit_u (UCustomEnd (match r with Ok _ => 0 | Err _ => 1 end)) ;;
                   match r with Ok v => _ <- failOnError SCustomFOE ;; ret v | Err e => throw e end)).
      { apply P_bind; [apply P_emit_u; destruct r; reflexivity|intros _]. destruct r; pa. }
      destruct r as [v|[]]; try exact H. apply P_throw.
    Qed.
    Lemma P_custom_att (body : M val) : P body -> P (custom_att LF crun body).
    Proof.
      intros Hb. unfold custom_att. apply P_fresh. unfold custom_inner.
      apply P_bind; [apply P_emit_u; reflexivity|intros _].
      apply P_try; [apply P_try; [exact Hb|apply P_custom_end]|intros r].
      unfold custom_handler.
      assert (H : P (
                   c <- cleanup LF crun true ;;
                   t0 <- get_ts ;;
                   match c, r with
                   | None, Ok v =>
                       match ood t0 with
                       | Some m => match failed t0 with Some _ => throw (XInvalid m) | None => ret None end
                       | None => ret (Some v)
                       end
                   | Some e, Err (XInvalid m) => _ <- (if internal_msg m then mark_dirty else ret tt) ;; throw e
                   | Some e, _ => throw e
                   | None, Err (XInvalid m) => match failed t0 with Some _ => throw (XInvalid m) | None => ret None end
                   | None, Err e => throw e
                   end)).
      { apply P_bind; [apply P_cleanup|intros c].
        apply P_bind; [apply P_get_ts|intros t0].
        destruct c as [[]|]; destruct r as [v|[]]; pa; try (destruct (ood t0); pa); try (destruct (failed t0); pa);
          try (destruct (internal_msg _); pa). }
      destruct r as [v|[]]; try exact H. apply P_throw.
    Qed.

    Lemma P_run_action id (run_act : nat -> val -> M val) i s :
      (forall i s, P (run_act i s)) -> P (run_action id run_act i s).
    Proof.
      intros Ha. unfold run_action. apply P_try_w.
      - apply P_try_w; [apply Ha|]. intros r wa. apply P_bind; [apply P_emit_u; reflexivity|intros _]. destruct r; pa.
      - intros r wa. destruct r as [v|e]; [pa|]. destruct e; pa.
        destruct (failed a); pa. destruct (rd wa); pa. destruct (internal_msg m); pa.
    Qed.
    Lemma P_exec_action id nacts (run_act : nat -> val -> M val) :
      (forall i s, P (run_act i s)) -> forall tries s, P (exec_action geom LF id nacts run_act tries s).
    Proof.
      intros Ha. induction tries as [|t IH]; intros s; cbn [exec_action]; [apply P_throw|].
      apply P_bind.
      - apply P_group. apply P_bind; [apply P_group, P_genIndex|intros i].
        apply P_bind; [apply P_emit_u; reflexivity|intros _]. apply P_run_action. exact Ha.
      - intros r. destruct r; pa; try apply IH.
    Qed.
    Lemma P_run_repeat id K nacts (chk : val -> M unit) (run_act : nat -> val -> M val) s0 :
      (forall s, P (chk s)) -> (forall i s, P (run_act i s)) -> P (run_repeat geom LF id K nacts chk run_act s0).
    Proof.
      intros Hc Ha. unfold run_repeat. apply P_bind; [apply Hc|intros _].
      apply P_bind; [apply P_failOnError|intros _].
      apply P_rep_loop. intros s. unfold repeat_step.
      apply P_bind; [apply P_exec_action; exact Ha|intros r].
      destruct r; [|apply P_ret]. apply P_bind; [apply Hc|intros _].
      apply P_bind; [apply P_failOnError|intros _; apply P_ret].
    Qed.

    Theorem P_interp : (forall g, P (run_g geom LF crun g)) /\ (forall p, P (run_p geom LF crun p)).
    Proof.
      apply gexp_prog_ind; intros; cbn [run_g run_p]; unfold gval.
      - pa.
      - apply P_bind; [apply P_genUintRange|intros; pa].
      - apply P_bind; [apply P_genIntRange|intros; pa].
      - apply P_bind; [apply P_genIndex|intros; pa].
      - apply P_bind; [apply P_genIndex|intros i]. apply P_group. apply H.
      - apply P_bind; [apply P_coin|intros b]. destruct b; [|pa]. apply P_bind; [apply P_group; assumption|intros; pa].
      - apply P_bind; [|intros; pa]. apply P_rep_loop. intros acc.
        unfold slice_body. apply P_bind; [apply P_group; assumption|intros v].
        destruct key; [destruct (existsb _ _)|]; pa.
      - apply P_bind; [|intros; pa]. apply P_rep_loop. intros acc.
        unfold map_body. apply P_bind; [|intros kv; destruct (existsb _ _); pa].
        apply P_bind; [apply P_group; assumption|intros k]. apply P_bind; [apply P_group; assumption|intros; pa].
      - apply P_bind; [|intros; pa]. apply P_rep_loop. intros acc.
        unfold map_body. apply P_bind; [|intros kv; destruct (existsb _ _); pa].
        apply P_bind; [apply P_group; assumption|intros; pa].
      - apply P_bind; [|intros; pa]. apply P_rep_loop. intros [i l].
        unfold perm_body. apply P_bind; [apply P_genUintRange|intros; pa].
      - apply P_find_loop. apply P_bind; [apply P_group; assumption|intros; pa].
      - apply P_bind; [apply P_group; assumption|intros; pa].
      - apply P_find_loop. apply P_custom_att; assumption.
      - apply P_group; assumption.
      - pa.
      - apply P_bind; [apply P_group; assumption|intros v]. apply P_bind; [apply P_note_draw|intros _; apply H0].
      - apply P_bind; [apply P_signal|intros _]. destruct kind; pa.
      - pa.
      - apply P_bind; [apply P_register|intros _; assumption].
      - apply P_bind; [apply P_context_call|intros b]. apply H.
      - apply P_bind; [apply P_get_ts|intros t]. apply P_bind; [apply P_emit_u; reflexivity|intros _]. apply H.
      - pa.
      - destruct nacts; [apply H1|]. apply P_bind; [|intros sfin; apply H1].
        apply P_run_repeat.
        + intros s. destruct haschk; pa. apply H.
        + intros i s. apply H0.
    Qed.
  End WithOracles.

  (* tying the knot over cleanup nesting levels *)
  Theorem P_exec geom LF : forall lvl p, P (exec geom LF lvl p).
  Proof.
    induction lvl as [|l IH]; intros p; cbn [exec]; [apply P_throw|].
    apply (proj2 (P_interp geom LF (exec geom LF l) IH)).
  Qed.

  Theorem P_checkOnce geom LF lvl p : P (checkOnce geom LF lvl p).
  Proof.
    unfold checkOnce. apply P_try.
    - apply P_bind; [apply P_exec|intros; apply P_failOnError].
    - intros r. unfold check_handler.
      assert (H : P (_ <- (match r with Err (XInvalid m) => if internal_msg m then mark_dirty else ret tt | _ => ret tt end) ;;
          c <- cleanup LF (exec geom LF lvl) false ;;
          t <- get_ts ;;
          let r' := match c with
                    | Some e => Err e
                    | None => match r, skipreq t with Ok _, Some m => Err (XInvalid m) | _, _ => r end
                    end in
          match r', failed t with
          | Err XFuel, _ => throw XFuel
          | Ok _, Some m | Err (XInvalid _), Some m => throw (XStop m SLate)
          | Ok _, None => ret tt
          | Err e, _ => throw e
          end)).
      { apply P_bind.
        - destruct r as [|[]]; try apply P_ret. destruct (internal_msg m); [apply P_mark_dirty|apply P_ret].
        - intros _. apply P_bind; [apply P_cleanup; apply P_exec|intros c].
          apply P_bind; [apply P_get_ts|intros t]. cbv zeta.
          destruct (match c with Some e => Err e | None => match r, skipreq t with Ok _, Some m => Err (XInvalid m) | _, _ => r end end)
            as [u|[]]; destruct (failed t); try apply P_throw; apply P_ret. }
      destruct r as [u|[]]; try exact H. apply P_throw.
  Qed.
End Closure.
