(* minimize(u, cond) returns the exact threshold of a monotone condition, for every 64-bit u. *)
From Coq Require Import Lia ZArith ZifyN ZifyNat ZifyBool.
Require Import Rapid.Model.Base Rapid.Model.Minimize.
Require Import Rapid.Generated.Consts.
Ltac Zify.zify_post_hook ::= Z.div_mod_to_equations.
Local Open Scope N_scope.

Section Exact.
  Variable t : N.
  Let cond (x : N) : bool := N.leb t x.
  Hypothesis Hsmall5 : smallN = 5.

  Lemma macc_inv best x : t <= best -> t <= fst (macc cond best x) /\ fst (macc cond best x) <= best.
  Proof.
    intros H. unfold macc, cond. destruct (N.leb_spec best x); cbn [orb fst]; [lia|].
    destruct (N.ltb_spec x smallN); cbn [orb fst]; [lia|].
    destruct (N.leb_spec t x); cbn [negb fst]; lia.
  Qed.
  Lemma macc_pair best x : macc cond best x = (fst (macc cond best x), snd (macc cond best x)).
  Proof. destruct (macc cond best x); reflexivity. Qed.

  Lemma rshift_inv : forall fuel best, t <= best -> t <= rshift cond fuel best /\ rshift cond fuel best <= best.
  Proof.
    induction fuel as [|f IH]; intros best H; cbn [rshift]; [lia|].
    pose proof (macc_inv best (N.shiftr best 1) H) as [A B]. rewrite macc_pair.
    destruct (snd (macc cond best (N.shiftr best 1))); [|lia].
    destruct (IH _ A). lia.
  Qed.
  Lemma unset_inv : forall i best, t <= best -> t <= unset_bits cond i best /\ unset_bits cond i best <= best.
  Proof.
    induction i as [|i IH]; intros best H; cbn [unset_bits]; [lia|].
    pose proof (macc_inv best (N.lxor best (N.shiftl 1 (N.of_nat i))) H) as [A B].
    destruct (IH _ A). lia.
  Qed.
  Lemma sort_inner_inv : forall n j i best, t <= best -> t <= sort_inner cond n j i best /\ sort_inner cond n j i best <= best.
  Proof.
    induction n as [|n IH]; intros j i best H; cbn [sort_inner]; [lia|].
    destruct (N.ltb j i); [|lia]. destruct (N.testbit best j); [apply IH; exact H|].
    pose proof (macc_inv best (N.lxor best (N.lor (N.shiftl 1 j) (N.shiftl 1 i))) H) as [A B]. rewrite macc_pair.
    destruct (snd (macc cond best _)); [lia|]. destruct (IH (j + 1) i _ A). lia.
  Qed.
  Lemma sort_inv : forall i best, t <= best -> t <= sort_bits cond i best /\ sort_bits cond i best <= best.
  Proof.
    induction i as [|i IH]; intros best H; cbn [sort_bits]; [lia|].
    destruct (N.testbit best (N.of_nat i)).
    - destruct (sort_inner_inv i 0 (N.of_nat i) best H) as [A B]. destruct (IH _ A). lia.
    - apply IH. exact H.
  Qed.

  (* binary search: invariant "cond best, j = best, everything below i fails or is < small" *)
  Hypothesis Ht5 : 5 <= t.
  Lemma done_exact best i : t <= best -> i = best -> (forall x, x < i -> x < t \/ x < 5) -> best = t.
  Proof.
    intros Hc -> Hlo. destruct (N.eq_dec best t) as [|Hne]; [assumption|].
    assert (Hlt : t < best) by lia. destruct (Hlo t Hlt); lia.
  Qed.
  Lemma bin_loop_exact : forall fuel best i j,
    j - i < 2 ^ N.of_nat fuel -> j = best -> t <= best ->
    (forall x, x < i -> x < t \/ x < 5) -> i <= j ->
    bin_loop cond fuel best i j = t.
  Proof.
    induction fuel as [|f IH]; intros best i j Hf Hj Hc Hlo Hij.
    - cbn in Hf. cbn [bin_loop]. apply (done_exact best i); try assumption. lia.
    - rewrite Nat2N.inj_succ, N.pow_succ_r' in Hf.
      cbn [bin_loop]. destruct (N.ltb_spec i j) as [Hlt|Hge].
      + set (h := i + (j - i) / 2). assert (Hh : i <= h < j) by (unfold h; lia).
        assert (Hh2 : j - (h + 1) < 2 ^ N.of_nat f /\ h - i < 2 ^ N.of_nat f) by (unfold h; lia).
        unfold macc, cond. subst j.
        destruct (N.leb_spec best h); [lia|]. cbn [orb].
        rewrite Hsmall5.
        destruct (N.ltb_spec h 5) as [Hs|Hs]; cbn [orb].
        * apply IH; [lia|reflexivity|exact Hc| |lia]. intros x Hx. right. lia.
        * destruct (N.leb_spec t h) as [Hth|Hth]; cbn [negb].
          -- apply IH; [lia|reflexivity|lia|exact Hlo|lia].
          -- apply IH; [lia|reflexivity|exact Hc| |lia]. intros x Hx. left. lia.
      + apply (done_exact best i); try assumption. lia.
  Qed.
  Lemma bin_search_exact best : best < 2 ^ 64 -> t <= best -> bin_search cond best = t.
  Proof.
    intros Hb Hc. unfold bin_search, macc, cond. rewrite Hsmall5.
    destruct (N.leb_spec best (best - 1)); [lia|]. cbn [orb].
    destruct (N.ltb_spec (best - 1) 5); cbn [orb]; [lia|].
    destruct (N.leb_spec t (best - 1)); cbn [negb].
    - apply bin_loop_exact; try lia; intros x Hx; lia.
    - lia.
  Qed.
End Exact.

Theorem minimize_exact (t u : N) : smallN = 5 -> t <= u -> u < 2 ^ 64 -> minimize (fun x => N.leb t x) u = t.
Proof.
  intros Hs Htu Hu. unfold minimize.
  destruct (N.eqb_spec u 0) as [->|Hu0]; [lia|].
  (* the first loop tries 0..4 *)
  assert (Hts : forall n i, i + N.of_nat n = 5 -> i <= t ->
            try_small (fun x => N.leb t x) n i u = (if (N.ltb t u && N.ltb t 5)%bool then Some t else None)).
  { induction n as [|n IH]; intros i Hi Hit; cbn [try_small].
    - destruct (N.ltb_spec t u); destruct (N.ltb_spec t 5); cbn; try reflexivity; lia.
    - rewrite Hs. destruct (N.ltb_spec i u); cbn [andb].
      + destruct (N.ltb_spec i 5); [|lia]. destruct (N.leb_spec t i).
        * assert (i = t) by lia. subst i. destruct (N.ltb_spec t u); destruct (N.ltb_spec t 5); cbn; try reflexivity; lia.
        * apply IH; lia.
      + destruct (N.ltb_spec t u); [lia|]. reflexivity. }
  assert (Hc5 : N.of_nat c_small = 5) by exact Hs.
  rewrite (Hts c_small 0) by (rewrite ?Hc5; lia).
  destruct (N.ltb_spec t u); destruct (N.ltb_spec t 5); cbn [andb]; try reflexivity.
  - (* 5 <= t < u *)
    rewrite Hs. destruct (N.leb_spec u 5); [lia|].
    set (b1 := rshift _ 64 u). set (b2 := unset_bits _ (len64 b1) b1). set (b3 := sort_bits _ (len64 b2) b2).
    assert (G1 : t <= b1 /\ b1 <= u) by (apply rshift_inv; lia).
    assert (G2 : t <= b2 /\ b2 <= b1) by (apply unset_inv; lia).
    assert (G3 : t <= b3 /\ b3 <= b2) by (apply sort_inv; lia).
    apply bin_search_exact; try assumption; lia.
  - (* t = u < 5 *) assert (t = u) by lia. subst. rewrite Hs. destruct (N.leb_spec u 5); [reflexivity|lia].
  - (* t = u >= 5 *) assert (t = u) by lia. subst. rewrite Hs. destruct (N.leb_spec u 5); [reflexivity|].
    set (b1 := rshift _ 64 u). set (b2 := unset_bits _ (len64 b1) b1). set (b3 := sort_bits _ (len64 b2) b2).
    assert (G1 : u <= b1 /\ b1 <= u) by (apply rshift_inv; lia).
    assert (G2 : u <= b2 /\ b2 <= b1) by (apply unset_inv; lia).
    assert (G3 : u <= b3 /\ b3 <= b2) by (apply sort_inv; lia).
    apply bin_search_exact; try assumption; lia.
Qed.

(* ---- for an arbitrary (also non-monotone, but pure) condition: the result is never larger, and it either
        is the input or satisfies the condition ---- *)
Section Sound.
  Variable cond : N -> bool.
  Definition mstep (a b : N) : Prop := b <= a /\ (b = a \/ cond b = true).
  Lemma mstep_refl a : mstep a a. Proof. split; [lia|left; reflexivity]. Qed.
  Lemma mstep_trans a b c : mstep a b -> mstep b c -> mstep a c.
  Proof.
    intros [H1 H2] [H3 H4]. split; [lia|]. destruct H4 as [->|H4]; [exact H2|right; exact H4].
  Qed.
  Lemma macc_step best x : mstep best (fst (macc cond best x)).
  Proof.
    unfold macc. destruct (N.leb_spec best x); cbn [orb fst]; [apply mstep_refl|].
    destruct (N.ltb x smallN); cbn [orb fst]; [apply mstep_refl|].
    destruct (cond x) eqn:E; cbn [negb fst]; [|apply mstep_refl]. split; [lia|right; exact E].
  Qed.
  Lemma macc_pair' best x : macc cond best x = (fst (macc cond best x), snd (macc cond best x)).
  Proof. destruct (macc cond best x); reflexivity. Qed.
  Lemma rshift_step : forall fuel best, mstep best (rshift cond fuel best).
  Proof.
    induction fuel as [|f IH]; intros best; cbn [rshift]; [apply mstep_refl|].
    rewrite macc_pair'. pose proof (macc_step best (N.shiftr best 1)) as A.
    destruct (snd (macc cond best (N.shiftr best 1))); [|exact A]. eapply mstep_trans; [exact A|apply IH].
  Qed.
  Lemma unset_step : forall i best, mstep best (unset_bits cond i best).
  Proof.
    induction i as [|i IH]; intros best; cbn [unset_bits]; [apply mstep_refl|].
    eapply mstep_trans; [apply macc_step|apply IH].
  Qed.
  Lemma sort_inner_step : forall n j i best, mstep best (sort_inner cond n j i best).
  Proof.
    induction n as [|n IH]; intros j i best; cbn [sort_inner]; [apply mstep_refl|].
    destruct (N.ltb j i); [|apply mstep_refl]. destruct (N.testbit best j); [apply IH|].
    rewrite macc_pair'. pose proof (macc_step best (N.lxor best (N.lor (N.shiftl 1 j) (N.shiftl 1 i)))) as A.
    destruct (snd (macc cond best _)); [exact A|]. eapply mstep_trans; [exact A|apply IH].
  Qed.
  Lemma sort_step : forall i best, mstep best (sort_bits cond i best).
  Proof.
    induction i as [|i IH]; intros best; cbn [sort_bits]; [apply mstep_refl|].
    destruct (N.testbit best (N.of_nat i)); [|apply IH]. eapply mstep_trans; [apply sort_inner_step|apply IH].
  Qed.
  Lemma bin_loop_step : forall fuel best i j, mstep best (bin_loop cond fuel best i j).
  Proof.
    induction fuel as [|f IH]; intros best i j; cbn [bin_loop]; [apply mstep_refl|].
    destruct (N.ltb i j); [|apply mstep_refl]. rewrite macc_pair'.
    pose proof (macc_step best (i + (j - i) / 2)) as A.
    destruct (snd (macc cond best _)); (eapply mstep_trans; [exact A|apply IH]).
  Qed.
  Lemma bin_search_step best : mstep best (bin_search cond best).
  Proof.
    unfold bin_search. rewrite macc_pair'. pose proof (macc_step best (best - 1)) as A.
    destruct (snd (macc cond best _)); [|apply mstep_refl]. eapply mstep_trans; [exact A|apply bin_loop_step].
  Qed.
  Lemma try_small_some : forall n i u r, try_small cond n i u = Some r -> r < u /\ cond r = true.
  Proof.
    induction n as [|n IH]; intros i u r; cbn [try_small]; [discriminate|].
    destruct (N.ltb_spec i u) as [Hiu|Hiu]; cbn [andb]; [|discriminate]. destruct (N.ltb i smallN); [|discriminate].
    destruct (cond i) eqn:E; [intros Hr; injection Hr as <-; split; assumption|apply IH].
  Qed.
  Theorem minimize_sound u : mstep u (minimize cond u).
  Proof.
    unfold minimize. destruct (N.eqb_spec u 0) as [->|Hu]; [apply mstep_refl|].
    destruct (try_small cond c_small 0 u) as [r|] eqn:E.
    - apply try_small_some in E. destruct E. split; [lia|right; assumption].
    - destruct (N.leb u smallN); [apply mstep_refl|].
      eapply mstep_trans; [apply rshift_step|]. eapply mstep_trans; [apply unset_step|].
      eapply mstep_trans; [apply sort_step|]. apply bin_search_step.
  Qed.
End Sound.
