(* findBug invokes the property exactly once per counted test case, plus once for the falsifying one: no further. *)
From Coq Require Import Lia List.
Require Import Rapid.Model.Base Rapid.Model.Syntax Rapid.Model.Monad Rapid.Model.Prim Rapid.Model.Interp
  Rapid.Model.Engine Rapid.Model.Groups Rapid.Model.Shrink.
Require Import Rapid.Generated.Consts.
Local Open Scope nat_scope.
Arguments Nat.ltb : simpl never.
Arguments Nat.leb : simpl never.

Section InvCount.
  Variable geom : nat -> N -> N.
  Variable LF : nat.
  Variable lvl : nat.
  Variable p : prog.
  Notation run := (run_case geom LF lvl p).
  Notation findBug := (findBug geom LF lvl p).
  Notation findBug0 := (findBug0 geom LF lvl p).

  (* number of invocations that do not show up in the two counters: the falsifying one *)
  Definition extra (r : fbres) : nat :=
    match fb_err r with
    | None => 0
    | Some _ => 1
    end.

  Lemma findBug_count : forall fuel checks early seed valid invalid log,
    length log = valid + invalid ->
    let r := findBug fuel checks early seed valid invalid log in
    fb_err r <> Some XFuel ->
    length (fb_log r) = fb_valid r + fb_invalid r + extra r.
  Proof.
    induction fuel as [|f IH]; intros checks early seed valid invalid log Hlen; cbn [Shrink.findBug].
    - cbn. intros H. exfalso. apply H. reflexivity.
    - destruct (Nat.ltb valid checks && Nat.ltb invalid (checks * c_invalidChecksMult)).
      + destruct (Nat.ltb 0 (valid + invalid) && early (valid + invalid)).
        * intros _. unfold extra; cbn. lia.
        * set (x := SRnd (jsf_init (case_seed seed (valid + invalid)))).
          assert (Hl : length (log ++ [mkIvc x (run x)]) = S (valid + invalid))
            by (rewrite app_length; cbn; lia).
          destruct (res (run x)) as [u|e] eqn:Er.
          -- apply IH. rewrite Hl. lia.
          -- destruct e as [m|m s0|m s0|].
             ++ apply IH. rewrite Hl. lia.
             ++ intros _. unfold extra; cbn. rewrite Hl. lia.
             ++ intros _. unfold extra; cbn. rewrite Hl. lia.
             ++ cbn. intros H. exfalso. apply H. reflexivity.
      + intros _. unfold extra; cbn. lia.
  Qed.

  Theorem findBug0_count : forall checks early seed,
    let r := findBug0 checks early seed in
    fb_err r <> Some XFuel ->
    length (fb_log r) = fb_valid r + fb_invalid r + extra r.
  Proof. intros checks early seed. apply findBug_count. reflexivity. Qed.
End InvCount.
