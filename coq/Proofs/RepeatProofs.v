(* C08: the check/action discipline of T.Repeat as an automaton over the event trace, proved for state
   machines whose actions and invariant do not themselves run a state machine (their own traces contain
   no invariant/action events), and the "no valid action" failure. *)
From Coq Require Import Lia.
Require Import Rapid.Model.Base Rapid.Model.Syntax Rapid.Model.Monad Rapid.Model.Prim Rapid.Model.Interp Rapid.Model.Engine.
Require Import Rapid.Generated.Consts Rapid.Proofs.Inv Rapid.Proofs.Bracket.
Local Open Scope nat_scope.
Arguments Nat.ltb : simpl never.
Arguments Nat.eqb : simpl never.
Arguments N.leb : simpl never.
Arguments N.ltb : simpl never.
Arguments N.eqb : simpl never.
Arguments internal_msg : simpl never.

Definition is_rep (e : uev) : bool := match e with UChk | UAct _ | UActEnd _ _ => true | _ => false end.
Definition proj (l : list uev) : list uev := filter is_rep l.
Lemma proj_app a b : proj (a ++ b) = proj a ++ proj b. Proof. apply filter_app. Qed.
Definition trp {A} (o : out A) : list uev := proj (tr (w o)).
Definition QUIETT {A} (m : M A) : Prop := forall s, trp (m s) = [].

(* ---- trace of the combinators ---- *)
Lemma trp_bind A B (m : M A) (f : A -> M B) s :
  trp (bind m f s) = match res (m s) with Ok a => trp (m s) ++ trp (f a (post (m s))) | Err _ => trp (m s) end.
Proof. unfold trp, bind. destruct (res (m s)); cbn [w tr wapp]; [apply proj_app|reflexivity]. Qed.
Lemma trp_group_d A sa (m : M (A * bool)) s : trp (group_d sa m s) = trp (m s).
Proof.
  unfold trp, group_d. destruct (res (m s)) as [[a d]|e]; [destruct d|]; cbn; rewrite ?app_nil_r; auto.
  destruct (rd (w (m s))); cbn; rewrite ?app_nil_r, ?tr_wkeep; auto.
Qed.
Lemma res_group A sa (m : M A) s a : res (group sa m s) = Ok a -> res (m s) = Ok a.
Proof.
  unfold group, group_d, bind, ret. destruct (res (m s)) as [v|e]; cbn; [|discriminate].
  destruct (rd _ ++ []); cbn; [discriminate|congruence].
Qed.
Lemma post_group A sa (m : M A) s : post (group sa m s) = post (m s).
Proof. unfold group, group_d, bind, ret. destruct (res (m s)); cbn; [destruct (rd _ ++ [])|]; reflexivity. Qed.
Lemma trp_group A sa (m : M A) s : trp (group sa m s) = trp (m s).
Proof.
  unfold group. rewrite trp_group_d, trp_bind. destruct (res (m s)); [|reflexivity]. cbn. apply app_nil_r.
Qed.

(* ---- the automaton: one state machine, events of its own level only ---- *)
Inductive ast := ALoop | AInAct (i : nat) | ANeedChk.
Definition astep (haschk : bool) (n : nat) (st : ast) (e : uev) : option ast :=
  match st, e with
  | ALoop, UAct i => if Nat.ltb i n then Some (AInAct i) else None            (* only supplied actions *)
  | AInAct i, UActEnd j how =>
      if Nat.eqb i j then Some (if Nat.eqb how 0 && haschk then ANeedChk else ALoop) else None
  | ANeedChk, UChk => Some ALoop                                               (* invariant exactly here *)
  | _, _ => None
  end.
Fixpoint arun (haschk : bool) (n : nat) (l : list uev) (st : ast) : option ast :=
  match l with
  | [] => Some st
  | e :: r => match astep haschk n st e with Some st' => arun haschk n r st' | None => None end
  end.
Lemma arun_app h n a b st : arun h n (a ++ b) st = match arun h n a st with Some st' => arun h n b st' | None => None end.
Proof. revert st. induction a as [|e a IH]; intros st; cbn; [reflexivity|]. destruct (astep h n st e); [apply IH|reflexivity]. Qed.

(* ---- the integer primitives produce no user-visible events ---- *)
Definition NOTR {A} (m : M A) : Prop := forall s, tr (w (m s)) = [].
Lemma notr_ret A (a : A) : NOTR (ret a). Proof. intros s; reflexivity. Qed.
Lemma notr_throw A e : NOTR (@throw A e). Proof. intros s; reflexivity. Qed.
Lemma notr_bind A B (m : M A) (f : A -> M B) : NOTR m -> (forall a, NOTR (f a)) -> NOTR (bind m f).
Proof. intros Hm Hf s. unfold bind. destruct (res (m s)); cbn [w tr wapp]; rewrite ?Hm, ?Hf; reflexivity. Qed.
Lemma notr_drawBits n : NOTR (drawBits n).
Proof.
  intros s. unfold drawBits. destruct (src s) as [[|x l]|j]; [| |destruct (Nat.leb n 64); [destruct (jsf_rand j)|]]; reflexivity.
Qed.
Lemma notr_group_d A sa (m : M (A * bool)) : NOTR m -> NOTR (group_d sa m).
Proof.
  intros Hm s. unfold group_d. destruct (res (m s)) as [[a d]|e]; [destruct d|]; cbn; rewrite ?app_nil_r, ?Hm; auto.
  destruct (rd (w (m s))); cbn; rewrite ?app_nil_r, ?tr_wkeep, ?Hm; auto.
Qed.
Lemma notr_group A sa (m : M A) : NOTR m -> NOTR (group sa m).
Proof. intros H. apply notr_group_d. apply notr_bind; [exact H|intros; apply notr_ret]. Qed.
Lemma notr_biased : forall fuel bl max n, NOTR (biased_loop fuel bl max n).
Proof.
  induction fuel as [|f IH]; intros; cbn [biased_loop]; [apply notr_throw|].
  apply notr_bind; [apply notr_group_d, notr_bind; [apply notr_drawBits|intros; apply notr_ret]|intros u].
  destruct (negb _); [apply IH|unfold biased_fin; apply notr_ret].
Qed.
Lemma notr_genIndex geom fuel n : NOTR (genIndex geom fuel n true).
Proof.
  unfold genIndex, assert_fail. destruct n; [apply notr_throw|].
  apply notr_bind; [|intros; apply notr_ret].
  unfold genUintN, genUintNBiased. apply notr_bind; [apply notr_group, notr_drawBits|intros; apply notr_biased].
Qed.

(* ---- the action index is one of the supplied actions ---- *)
Lemma bind_res_ok A B (m : M A) (f : A -> M B) s b :
  res (bind m f s) = Ok b -> exists a, res (m s) = Ok a /\ res (f a (post (m s))) = Ok b.
Proof. unfold bind. destruct (res (m s)) as [a|e]; cbn; [eauto|discriminate]. Qed.

Lemma biased_loop_le : forall fuel bl max n s u l r,
  res (biased_loop fuel bl max n s) = Ok (u, l, r) -> (u <= max)%N.
Proof.
  induction fuel as [|f IH]; intros bl max n s u l r; cbn [biased_loop]; [cbn; discriminate|].
  intros H. apply bind_res_ok in H. destruct H as [a [Ha H]].
  destruct (negb (Nat.ltb 64 bl || N.leb a max)) eqn:Ed; [eapply IH; exact H|].
  unfold biased_fin, ret in H. cbn in H. injection H as <- _ _.
  apply negb_false_iff in Ed. apply orb_true_iff in Ed.
  destruct (Nat.ltb 64 bl); [lia|]. destruct Ed as [Ed|Ed]; [discriminate|]. apply N.leb_le. exact Ed.
Qed.
Lemma genIndex_lt geom fuel n s i : res (genIndex geom fuel n true s) = Ok i -> i < n.
Proof.
  unfold genIndex, assert_fail. destruct n as [|n']; [cbn; discriminate|].
  intros H. apply bind_res_ok in H. destruct H as [[[u l] r] [Ha H]].
  unfold ret in H. cbn in H. injection H as <-.
  unfold genUintN, genUintNBiased in Ha. apply bind_res_ok in Ha. destruct Ha as [k [_ Ha]].
  apply biased_loop_le in Ha. lia.
Qed.

Section Repeat.
  Variable geom : nat -> N -> N.
  Variable LF : nat.
  Variables (id nacts : nat) (haschk : bool).
  Variable check_body : val -> M val.
  Variable run_act : nat -> val -> M val.
  Hypothesis Hq_check : forall st, QUIETT (check_body st).
  Hypothesis Hq_act : forall i st, QUIETT (run_act i st).

  Definition chk (st : val) : M unit :=
    if haschk then _ <- emit_u UChk ;; _ <- check_body st ;; ret tt else ret tt.
  Definition after_ok : ast := if haschk then ANeedChk else ALoop.

  Lemma trp_chk st s : trp (chk st s) = if haschk then [UChk] else [].
  Proof.
    unfold chk. destruct haschk; [|reflexivity].
    rewrite trp_bind. cbn [emit_u res post]. rewrite trp_bind, Hq_check.
    destruct (res (check_body st s)); reflexivity.
  Qed.

  (* one action: exactly one UActEnd, code 0 iff the action function returned *)
  Lemma trp_run_action i st s :
    exists how, trp (run_action id run_act i st s) = [UActEnd i how] /\
      (forall v, res (run_action id run_act i st s) = Ok (ADone v) -> how = 0) /\
      (res (run_action id run_act i st s) = Ok ASkipped \/ res (run_action id run_act i st s) = Ok ARejected -> how <> 0).
  Proof.
    unfold run_action, try_w, trp. cbn [res post w tr wapp].
    set (o := run_act i st s).
    assert (Hq : proj (tr (w o)) = []) by apply Hq_act.
    rewrite !proj_app, Hq. cbn [app].
    destruct (res o) as [v|e] eqn:Er.
    - exists 0. unfold bind, emit_u, failOnError, ret. cbn [res post w tr wapp ts].
      destruct (failed (ts (post o))) eqn:Ef; cbn; rewrite ?Ef; cbn;
        (split; [reflexivity|split; [reflexivity|intros [H|H]; discriminate]]).
    - exists (if Nat.eqb (nd (w o)) 0 then 1 else 2).
      assert (Hc : (if Nat.eqb (nd (w o)) 0 then 1 else 2) <> 0) by (destruct (Nat.eqb _ _); discriminate).
      unfold bind, emit_u, throw, ret, get_ts, mark_dirty. cbn [res post w tr wapp ts nd].
      destruct e as [m|m s0|m s0|]; cbn [res post w tr wapp ts nd].
      + destruct (failed (ts (post o))); cbn; [split; [reflexivity|split; [intros v H; discriminate|intros _; exact Hc]]|].
        rewrite ?app_nil_r.
        destruct (rd (w o)); cbn; [destruct (internal_msg m); cbn|];
          (split; [reflexivity|split; [intros v H; discriminate|intros _; exact Hc]]).
      + cbn. split; [reflexivity|split; [intros v H; discriminate|intros [H|H]; discriminate]].
      + cbn. split; [reflexivity|split; [intros v H; discriminate|intros [H|H]; discriminate]].
      + cbn. split; [reflexivity|split; [intros v H; discriminate|intros [H|H]; discriminate]].
  Qed.

  (* executeAction: from the loop state, each try is "action i starts, action i ends"; a completed action
     leads to the state in which the invariant is due, a skipped or rejected one back to the loop state *)
  Lemma exec_action_auto : forall tries st s,
    exists stf, arun haschk nacts (trp (exec_action geom LF id nacts run_act tries st s)) ALoop = Some stf /\
      (forall st', res (exec_action geom LF id nacts run_act tries st s) = Ok (Some st') -> stf = after_ok) /\
      (res (exec_action geom LF id nacts run_act tries st s) = Ok None -> stf = ALoop).
  Proof.
    induction tries as [|t IH]; intros st s; cbn [exec_action].
    - exists ALoop. cbn. repeat split; try discriminate; auto.
    - set (inner := (i <- group true (genIndex geom LF nacts true) ;; _ <- emit_u (UAct i) ;; run_action id run_act i st)).
      rewrite trp_bind, trp_group.
      (* the try's own trace *)
      assert (Hin : forall r, res (inner s) = r ->
        match r with
        | Err _ => exists stf, arun haschk nacts (trp (inner s)) ALoop = Some stf
        | Ok ar => exists i how, i < nacts /\ trp (inner s) = [UAct i; UActEnd i how] /\
                     (forall v, ar = ADone v -> how = 0) /\ (ar = ASkipped \/ ar = ARejected -> how <> 0)
        end).
      { intros r Hr. unfold inner in *. rewrite trp_bind, trp_group in *.
        assert (Hgq : trp (genIndex geom LF nacts true s) = []).
        { unfold trp. rewrite notr_genIndex. reflexivity. }
        rewrite Hgq in *. cbn [app] in *.
        unfold bind at 1 in Hr.
        destruct (res (group true (genIndex geom LF nacts true) s)) as [i|e] eqn:Eg.
        - pose proof (genIndex_lt _ _ _ _ _ (res_group _ _ _ _ _ Eg)) as Hlt.
          rewrite trp_bind. cbn [emit_u res post]. unfold trp at 1. cbn [emit_u w tr proj filter is_rep app].
          set (s2 := post (group true (genIndex geom LF nacts true) s)) in *.
          destruct (trp_run_action i st s2) as [how [Ht [H0 Hn0]]].
          rewrite Ht. cbn [res post] in Hr. unfold bind at 1 in Hr. cbn [emit_u res post] in Hr. fold s2 in Hr.
          destruct r as [ar|e].
          + exists i, how. split; [exact Hlt|]. split; [reflexivity|].
            split; [intros v ->; eapply H0; exact Hr|intros [->| ->]; apply Hn0; auto].
          + cbn. destruct (Nat.ltb_spec i nacts); [|lia]. cbn. rewrite Nat.eqb_refl. eexists; reflexivity.
        - subst r. cbn. eexists; reflexivity. }
      (* the rest of the step, by the way the try ended *)
      unfold bind at 1 2.
      destruct (res (group false inner s)) as [ar|e] eqn:Eg.
      + pose proof (res_group _ _ _ _ _ Eg) as Ei. specialize (Hin _ Ei). cbn beta iota in Hin.
        destruct Hin as [i [how [Hlt [Ht [H0 Hn0]]]]]. rewrite Ht.
        assert (Hrun : arun haschk nacts [UAct i; UActEnd i how] ALoop = Some (if Nat.eqb how 0 && haschk then ANeedChk else ALoop)).
        { cbn. destruct (Nat.ltb_spec i nacts); [|lia]. cbn. rewrite Nat.eqb_refl. reflexivity. }
        assert (Hnil : forall (x : option val) s0, trp (ret x s0) = []) by reflexivity.
        destruct ar as [v| |].
        * specialize (H0 v eq_refl). subst how. rewrite Hnil, app_nil_r, Hrun.
          change (Nat.eqb 0 0) with true. cbn [andb res ret].
          exists after_ok. unfold after_ok. split; [reflexivity|]. split; [auto|intros H; discriminate].
        * assert (Hh : how <> 0) by (apply Hn0; auto).
          rewrite Hnil, app_nil_r, Hrun. destruct (Nat.eqb_spec how 0); [contradiction|]. cbn [andb res ret].
          exists ALoop. split; [reflexivity|]. split; [intros st' H; discriminate|auto].
        * assert (Hh : how <> 0) by (apply Hn0; auto).
          rewrite arun_app, Hrun. destruct (Nat.eqb_spec how 0); [contradiction|]. cbn [andb res].
          rewrite post_group. apply IH.
      + (* the try panicked (or its group asserted): the trace ends inside it *)
        destruct (res (inner s)) as [v|e''] eqn:Ei'.
        * specialize (Hin _ eq_refl). cbn beta iota in Hin. destruct Hin as [i [how [Hlt [Ht _]]]]. rewrite Ht.
          cbn. destruct (Nat.ltb_spec i nacts); [|lia]. cbn. rewrite Nat.eqb_refl.
          eexists. split; [reflexivity|]. split; [intros st' HH; discriminate|intros HH; discriminate].
        * specialize (Hin _ eq_refl). cbn beta iota in Hin. destruct Hin as [stf Hstf].
          exists stf. split; [exact Hstf|]. split; [intros st' HH; discriminate|intros HH; discriminate].
  Qed.

  Lemma chk_auto st s : arun haschk nacts (trp (chk st s)) after_ok = Some ALoop.
  Proof. rewrite trp_chk. unfold after_ok. destruct haschk; reflexivity. Qed.

  Definition step_body := repeat_step geom LF id nacts chk run_act.
  Local Strategy expand [step_body].

  Lemma res_bind A B (m : M A) (f : A -> M B) s0 :
    res (bind m f s0) = match res (m s0) with Ok a => res (f a (post (m s0))) | Err e => Err e end.
  Proof. unfold bind. destruct (res (m s0)); reflexivity. Qed.

  Lemma repeat_step_auto st s :
    exists stf, arun haschk nacts (trp (step_body st s)) ALoop = Some stf /\
      (forall r, res (step_body st s) = Ok r -> stf = ALoop).
  Proof.
    unfold step_body, repeat_step. rewrite trp_bind, res_bind.
    destruct (exec_action_auto c_validActionTries st s) as [stf [Hrun [Hs Hn]]].
    destruct (res (exec_action geom LF id nacts run_act c_validActionTries st s)) as [[st'|]|e] eqn:Ee.
    - specialize (Hs st' eq_refl). subst stf. rewrite arun_app, Hrun.
      set (s1 := post (exec_action geom LF id nacts run_act c_validActionTries st s)).
      rewrite trp_bind, res_bind.
      assert (Hrest : forall s2, trp ((_ <- failOnError (SRepeatCheck id) ;; ret (Some st')) s2) = []).
      { intros s2. unfold trp, bind, failOnError, ret. destruct (failed (ts s2)); reflexivity. }
      destruct (res (chk st' s1)) as [u|e].
      + rewrite arun_app, chk_auto, Hrest. cbn [arun]. eexists; split; [reflexivity|auto].
      + rewrite chk_auto. eexists; split; [reflexivity|]. intros r H; discriminate.
    - rewrite arun_app, Hrun. specialize (Hn eq_refl). subst stf. cbn. eexists; split; [reflexivity|auto].
    - exists stf. split; [exact Hrun|]. intros r H; discriminate.
  Qed.

  Lemma notr_coin K : NOTR (coin K).
  Proof. unfold coin. apply notr_bind; [apply notr_group, notr_drawBits|intros; apply notr_ret]. Qed.
  Lemma notr_rep_coin minc maxc K count force : NOTR (rep_coin minc maxc K count force).
  Proof.
    unfold rep_coin. destruct (N.ltb _ _); [apply notr_coin|]. destruct force.
    - apply notr_bind; [apply notr_group, notr_drawBits|intros; apply notr_ret].
    - destruct (N.leb _ _); apply notr_coin.
  Qed.

  Lemma foe_cases site s1 :
    (res (failOnError site s1) = Ok tt /\ trp (failOnError site s1) = [] /\ post (failOnError site s1) = s1) \/
    (exists e, res (failOnError site s1) = Err e /\ trp (failOnError site s1) = []).
  Proof.
    unfold trp, failOnError. destruct (failed (ts s1)); [right; eexists; split; reflexivity|left; repeat split; reflexivity].
  Qed.

  Lemma rep_loop_auto minc maxc K : forall fuel count rej force acc s,
    exists stf, arun haschk nacts (trp (rep_loop fuel minc maxc K step_body count rej force acc s)) ALoop = Some stf /\
      (forall r, res (rep_loop fuel minc maxc K step_body count rej force acc s) = Ok r -> stf = ALoop).
  Proof.
    induction fuel as [|f IH]; intros count rej force acc s; cbn [rep_loop].
    - exists ALoop. split; [reflexivity|]. cbn. intros r H; discriminate.
    - rewrite trp_bind, res_bind.
      assert (Etr : trp (rep_iter minc maxc K step_body count rej force acc s) =
                    trp ((cont <- rep_coin minc maxc K count force ;; rep_tail minc K step_body count rej force acc cont) s))
        by (unfold rep_iter; apply trp_group_d).
      rewrite Etr. clear Etr.
      (* the iteration: coin (no events), then possibly one step *)
      set (it := (cont <- rep_coin minc maxc K count force ;; rep_tail minc K step_body count rej force acc cont)).
      assert (Hit : exists stf, arun haschk nacts (trp (it s)) ALoop = Some stf /\
                    (forall x, res (it s) = Ok x -> stf = ALoop)).
      { unfold it. rewrite trp_bind, res_bind.
        assert (Hc0 : trp (rep_coin minc maxc K count force s) = []) by (unfold trp; rewrite notr_rep_coin; reflexivity).
        rewrite !Hc0. cbn [app].
        destruct (res (rep_coin minc maxc K count force s)) as [cont|e].
        - unfold rep_tail. destruct cont.
          + rewrite trp_bind, res_bind.
            destruct (repeat_step_auto acc (post (rep_coin minc maxc K count force s))) as [stf [Hr Ho]].
            destruct (res (step_body acc _)) as [[a'|]|e] eqn:Es.
            * specialize (Ho _ eq_refl). subst stf. rewrite arun_app, Hr. cbn. eexists; split; [reflexivity|auto].
            * specialize (Ho _ eq_refl). subst stf. rewrite arun_app, Hr.
              assert (Hrj : forall s0, trp (@rep_reject val minc K count rej force s0) = []).
              { intros s0. unfold trp, rep_reject. destruct (Nat.ltb _ _); [destruct (N.leb _ _); [destruct (N.eqb _ _)|]|]; reflexivity. }
              rewrite Hrj. cbn. eexists; split; [reflexivity|auto].
            * exists stf. split; [exact Hr|]. intros x H; discriminate.
          + cbn. eexists; split; [reflexivity|auto].
        - cbn. eexists; split; [reflexivity|]. intros x H; discriminate. }
      destruct Hit as [stf [Hr Ho]].
      destruct (res (rep_iter minc maxc K step_body count rej force acc s)) as [r|e] eqn:Er.
      + (* the group closed normally: the inner computation succeeded *)
        assert (Hi : exists x, res (it s) = Ok x).
        { unfold rep_iter, group_d in Er. fold it in Er. destruct (res (it s)) as [[x d]|e]; [eauto|discriminate]. }
        destruct Hi as [x Hx]. specialize (Ho _ Hx). subst stf. rewrite arun_app, Hr.
        destruct r as [|a'|f2].
        * cbn. eexists; split; [reflexivity|auto].
        * apply IH.
        * apply IH.
      + exists stf. split; [exact Hr|]. intros r H; discriminate.
  Qed.

  (* C08: the whole state machine run *)
  Theorem run_repeat_auto K s0 s :
    exists stf, arun haschk nacts (trp (run_repeat geom LF id K nacts chk run_act s0 s)) after_ok = Some stf /\
      (forall r, res (run_repeat geom LF id K nacts chk run_act s0 s) = Ok r -> stf = ALoop).
  Proof.
    unfold run_repeat. rewrite trp_bind, res_bind.
    destruct (res (chk s0 s)) as [u|e] eqn:Ec.
    - rewrite arun_app, chk_auto. rewrite trp_bind, res_bind.
      set (s1 := post (chk s0 s)).
      destruct (foe_cases (SRepeatInit id) s1) as [[Hr [Ht Hp]]|[e2 [Hr Ht]]]; rewrite Hr, Ht; cbn [app].
      + rewrite Hp. exact (rep_loop_auto 0 maxInt K LF 0%nat 0%nat false s0 s1).
      + eexists; split; [reflexivity|]. intros r H; discriminate.
    - rewrite chk_auto. eexists; split; [reflexivity|]. intros r H; discriminate.
  Qed.
End Repeat.
