(* compareData (shortlex order on word lists): order properties and well-foundedness. *)
From Coq Require Import Lia Wellfounded.
Require Import Rapid.Model.Base.
Require Import Rapid.Proofs.Inv.
Local Open Scope nat_scope.

Definition sl_lt (a b : list N) : Prop := compareData a b = Lt.
Definition sl_le (a b : list N) : Prop := compareData a b <> Gt.

Lemma lex_refl a : lex_cmp a a = Eq.
Proof. induction a as [|x a IH]; cbn; [reflexivity|]. rewrite N.compare_refl. exact IH. Qed.
Lemma compareData_refl a : compareData a a = Eq.
Proof. unfold compareData. rewrite Nat.compare_refl. apply lex_refl. Qed.
Lemma sl_le_refl a : sl_le a a.
Proof. unfold sl_le. rewrite compareData_refl. discriminate. Qed.
Lemma sl_lt_le a b : sl_lt a b -> sl_le a b.
Proof. unfold sl_lt, sl_le. congruence. Qed.

Lemma lex_le_lt_trans : forall a b c, length a = length b -> length b = length c ->
  lex_cmp a b <> Gt -> lex_cmp b c = Lt -> lex_cmp a c = Lt.
Proof.
  induction a as [|x a IH]; intros [|y b] [|z c] H1 H2 Hab Hbc; cbn in *; try discriminate; try congruence.
  destruct (N.compare_spec x y) as [Exy|Lxy|Gxy].
  - subst y. destruct (N.compare_spec x z) as [Exz|Lxz|Gxz]; try congruence.
    eapply IH; [| |exact Hab|exact Hbc]; lia.
  - destruct (N.compare_spec y z) as [Eyz|Lyz|Gyz]; try discriminate.
    + subst z. rewrite (proj2 (N.compare_lt_iff x y) Lxy). reflexivity.
    + assert (Hxz : (x < z)%N) by lia. rewrite (proj2 (N.compare_lt_iff x z) Hxz). reflexivity.
  - congruence.
Qed.
Lemma lex_le_trans : forall a b c, length a = length b -> length b = length c ->
  lex_cmp a b <> Gt -> lex_cmp b c <> Gt -> lex_cmp a c <> Gt.
Proof.
  induction a as [|x a IH]; intros [|y b] [|z c] H1 H2 Hab Hbc; cbn in *; try discriminate; try congruence.
  destruct (N.compare_spec x y) as [Exy|Lxy|Gxy].
  - subst y. destruct (N.compare_spec x z) as [Exz|Lxz|Gxz]; try congruence; try discriminate.
    eapply IH; [| |exact Hab|exact Hbc]; lia.
  - destruct (N.compare_spec y z) as [Eyz|Lyz|Gyz]; try congruence.
    + subst z. rewrite (proj2 (N.compare_lt_iff x y) Lxy). discriminate.
    + assert (Hxz : (x < z)%N) by lia. rewrite (proj2 (N.compare_lt_iff x z) Hxz). discriminate.
  - congruence.
Qed.

Ltac cmp_len a b := destruct (Nat.compare_spec (length a) (length b)).
Lemma cmp_lt x y : x < y -> Nat.compare x y = Lt.  Proof. apply Nat.compare_lt_iff. Qed.
Lemma cmp_eq x y : x = y -> Nat.compare x y = Eq.  Proof. apply Nat.compare_eq_iff. Qed.

Lemma sl_le_lt_trans a b c : sl_le a b -> sl_lt b c -> sl_lt a c.
Proof.
  unfold sl_le, sl_lt, compareData. intros Hab Hbc.
  cmp_len a b; cmp_len b c; try congruence.
  - rewrite cmp_eq by lia. eapply lex_le_lt_trans; eauto.
  - rewrite cmp_lt by lia. reflexivity.
  - rewrite cmp_lt by lia. reflexivity.
  - rewrite cmp_lt by lia. reflexivity.
Qed.
Lemma sl_le_trans a b c : sl_le a b -> sl_le b c -> sl_le a c.
Proof.
  unfold sl_le, compareData. intros Hab Hbc.
  cmp_len a b; cmp_len b c; try congruence.
  - rewrite cmp_eq by lia. eapply lex_le_trans; eauto.
  - rewrite cmp_lt by lia. discriminate.
  - rewrite cmp_lt by lia. discriminate.
  - rewrite cmp_lt by lia. discriminate.
Qed.
Lemma sl_lt_irrefl a : ~ sl_lt a a.
Proof. unfold sl_lt. rewrite compareData_refl. discriminate. Qed.

(* pointwise <= of equal length is shortlex <= *)
Lemma lex_pointwise : forall a b, Forall2 N.le a b -> lex_cmp a b <> Gt.
Proof.
  induction 1 as [|x y a b Hxy H IH]; cbn; [discriminate|].
  destruct (N.compare_spec x y); try discriminate; try lia. exact IH.
Qed.
Lemma Forall2_len A B (R : A -> B -> Prop) a b : Forall2 R a b -> length a = length b.
Proof. induction 1; cbn; congruence. Qed.
Lemma sl_le_prefix_pointwise a l1 rest : Forall2 N.le a l1 -> sl_le a (l1 ++ rest).
Proof.
  intros H. pose proof (Forall2_len _ _ _ _ _ H) as HL. unfold sl_le, compareData. rewrite app_length.
  destruct rest as [|r rest].
  - rewrite app_nil_r. cbn. rewrite Nat.add_0_r, cmp_eq by lia. apply lex_pointwise; exact H.
  - cbn [length]. rewrite cmp_lt by lia. discriminate.
Qed.
Lemma sl_le_sublist a b : sublist a b -> sl_le a b.
Proof.
  intros H. pose proof (sublist_length _ _ _ H) as HL. unfold sl_le, compareData.
  cmp_len a b; try lia; try discriminate.
  rewrite (sublist_same_length _ _ _ H) by lia. rewrite lex_refl. discriminate.
Qed.

(* ---- well-foundedness on 64-bit words (base-2^64 encoding into N) ---- *)
Definition B : N := 18446744073709551616.
Definition bounded (a : list N) := Forall (fun x => (x < B)%N) a.
Fixpoint value (a : list N) : N :=
  match a with [] => 0%N | x :: a' => (x * B ^ N.of_nat (length a') + value a')%N end.
Definition enc (a : list N) : N := (B ^ N.of_nat (length a) + value a)%N.
Lemma B_pos : (0 < B)%N. Proof. reflexivity. Qed.
Lemma B_gt1 : (1 < B)%N. Proof. reflexivity. Qed.
Lemma Bpow_pos n : (0 < B ^ n)%N. Proof. apply N.neq_0_lt_0, N.pow_nonzero. discriminate. Qed.
Opaque B.
Lemma value_lt a : bounded a -> (value a < B ^ N.of_nat (length a))%N.
Proof.
  induction 1 as [|x a Hx Ha IH]; cbn [value length]; [change (N.of_nat 0) with 0%N; rewrite N.pow_0_r; lia|].
  rewrite Nat2N.inj_succ, N.pow_succ_r'.
  pose proof (Bpow_pos (N.of_nat (length a))).
  assert ((x + 1) * B ^ N.of_nat (length a) <= B * B ^ N.of_nat (length a))%N by (apply N.mul_le_mono_r; lia).
  rewrite N.mul_add_distr_r in H0. lia.
Qed.
Lemma lex_value : forall a b, length a = length b -> bounded a -> bounded b ->
  lex_cmp a b = Lt -> (value a < value b)%N.
Proof.
  induction a as [|x a IH]; intros [|y b] Hl Ha Hb Hc; cbn in *; try discriminate.
  inversion Ha as [|? ? Hx Ha']; inversion Hb as [|? ? Hy Hb']; subst.
  injection Hl as Hl. rewrite <- Hl.
  destruct (N.compare_spec x y) as [E|L|G]; try discriminate.
  - subst. specialize (IH b Hl Ha' Hb' Hc). lia.
  - pose proof (value_lt a Ha'). pose proof (Bpow_pos (N.of_nat (length a))).
    assert ((x + 1) * B ^ N.of_nat (length a) <= y * B ^ N.of_nat (length a))%N by (apply N.mul_le_mono_r; lia).
    rewrite N.mul_add_distr_r in H1. lia.
Qed.
Definition sl_ltb (a b : list N) : Prop := bounded a /\ bounded b /\ sl_lt a b.
Lemma sl_enc a b : sl_ltb a b -> (enc a < enc b)%N.
Proof.
  intros [Ha [Hb Hc]]. unfold sl_lt, compareData in Hc. unfold enc.
  destruct (Nat.compare_spec (length a) (length b)) as [E|L|G]; try discriminate.
  - rewrite E. pose proof (lex_value a b E Ha Hb Hc). lia.
  - pose proof (value_lt a Ha).
    assert (B ^ N.of_nat (length a) * B <= B ^ N.of_nat (length b))%N.
    { replace (length b) with (S (length a) + (length b - S (length a))) by lia.
      rewrite Nat2N.inj_add, N.pow_add_r, Nat2N.inj_succ, N.pow_succ_r'.
      set (P := (B ^ N.of_nat (length a))%N). set (R := (B ^ N.of_nat (length b - S (length a)))%N).
      assert (0 < R)%N by apply Bpow_pos.
      assert (P * B * 1 <= P * B * R)%N by (apply N.mul_le_mono_l; lia).
      rewrite (N.mul_comm B P). lia. }
    assert (B ^ N.of_nat (length a) * 2 <= B ^ N.of_nat (length a) * B)%N by (apply N.mul_le_mono_l; pose proof B_gt1; lia).
    lia.
Qed.
Theorem sl_wf : well_founded sl_ltb.
Proof.
  apply (wf_incl _ _ (fun a b => (enc a < enc b)%N)); [intros a b; apply sl_enc|].
  apply (wf_inverse_image _ _ N.lt enc). apply N.lt_wf_0.
Qed.
