(* Replay after prune: a run whose rejected attempts left no trace on the test state is reproduced
   exactly - result, test state, delivered draws - by running on its pruned recording. *)
From Coq Require Import Lia.
Require Import Rapid.Model.Base Rapid.Model.Syntax Rapid.Model.Monad Rapid.Model.Prim Rapid.Model.Interp
  Rapid.Model.Engine.
Require Import Rapid.Generated.Consts Rapid.Proofs.Inv.

Local Open Scope nat_scope.
Arguments Nat.ltb : simpl never.
Arguments Nat.leb : simpl never.
Arguments N.leb : simpl never.
Arguments N.ltb : simpl never.
Arguments N.eqb : simpl never.
Arguments mask : simpl never.
Arguments internal_msg : simpl never.

(* outcomes that a pruned replay must reproduce: success, failures, and skips decided by user code.
   Invalid data raised by rapid itself (overrun, retries exhausted) and fuel exhaustion are not. *)
Definition good {A} (r : result A) : Prop :=
  match r with
  | Ok _ => True
  | Err (XStop _ _) | Err (XPanic _ _) => True
  | Err (XInvalid m) => internal_msg m = false
  | Err XFuel => False
  end.

Record rep_ok {A} (o o' : out A) (c : list word) : Prop := mkRep {
  ro_res : res o' = res o;
  ro_ts : ts (post o') = ts (post o);
  ro_src : src (post o') = SBuf c;
  ro_rd : rd (w o') = rpd (w o);
  ro_rpd : rpd (w o') = rpd (w o);
  ro_pv : pv (w o') = pv (w o);
  ro_nd : (nd (w o') <= nd (w o))%nat;
  ro_dirty : dirty (w o') = false }.

(* m' reproduces m on m's pruned recording (m' = m except for loop fuel / retry budgets) *)
Definition rep_at {A} (m m' : M A) (s : st) : Prop :=
  good (res (m s)) -> dirty (w (m s)) = false ->
  forall c, rep_ok (m s) (m' (with_src s (SBuf (rpd (w (m s)) ++ c)))) c.
Definition replays2 {A} (m m' : M A) : Prop := forall s, rep_at m m' s.
Notation replays m := (replays2 m m).

Lemma with_src_src s x : src (with_src s x) = x. Proof. reflexivity. Qed.
Lemma with_src_ts s x : ts (with_src s x) = ts s. Proof. reflexivity. Qed.
Lemma st_eq s s' : src s = src s' -> ts s = ts s' -> s = s'.
Proof. destruct s, s'; cbn; intros -> ->; reflexivity. Qed.
Lemma with_src_eq s s' x : ts s = ts s' -> with_src s x = with_src s' x.
Proof. intros H. apply st_eq; cbn; auto. Qed.

Lemma dirty_wapp a b : dirty (wapp a b) = false -> dirty a = false /\ dirty b = false.
Proof. unfold wapp; cbn. intros H. apply orb_false_iff in H. exact H. Qed.

Lemma replays_ret A (a : A) : replays (ret a).
Proof. intros s _ _ c. constructor; cbn; auto. Qed.
Lemma replays_throw A (e : exn) : replays (@throw A e).
Proof. intros s _ _ c. constructor; cbn; auto. Qed.

Lemma rep_at_bind A B (m m' : M A) (f f' : A -> M B) s :
  rep_at m m' s -> (forall a, res (m s) = Ok a -> rep_at (f a) (f' a) (post (m s))) ->
  rep_at (bind m f) (bind m' f') s.
Proof.
  intros Hm Hf Hg Hd c. unfold bind in *.
  destruct (res (m s)) as [a|e] eqn:Er.
  - cbn in Hg, Hd. apply dirty_wapp in Hd. destruct Hd as [Hd1 Hd2].
    assert (G1 : good (res (m s))) by (rewrite Er; exact I).
    cbn [w rpd wapp]. rewrite <- app_assoc.
    destruct (Hm G1 Hd1 (rpd (w (f a (post (m s)))) ++ c)) as [R1 R2 R3 R4 R5 R6 R7 R8].
    set (o1' := m' (with_src s (SBuf (rpd (w (m s)) ++ rpd (w (f a (post (m s)))) ++ c)))) in *.
    rewrite R1, Er.
    assert (Epost : post o1' = with_src (post (m s)) (SBuf (rpd (w (f a (post (m s)))) ++ c))).
    { apply st_eq; cbn; [exact R3|exact R2]. }
    rewrite Epost.
    destruct (Hf a eq_refl Hg Hd2 c) as [S1 S2 S3 S4 S5 S6 S7 S8].
    constructor; cbn; try assumption.
    + rewrite R4, S4. reflexivity.
    + rewrite R5, S5. reflexivity.
    + rewrite R6, S6. reflexivity.
    + lia.
    + rewrite R8, S8. reflexivity.
  - cbn in Hg, Hd |- *.
    assert (G1 : good (res (m s))) by (rewrite Er; exact Hg).
    destruct (Hm G1 Hd c) as [R1 R2 R3 R4 R5 R6 R7 R8].
    rewrite R1, Er. constructor; cbn; auto.
Qed.
Lemma replays_bind A B (m m' : M A) (f f' : A -> M B) :
  replays2 m m' -> (forall a, replays2 (f a) (f' a)) -> replays2 (bind m f) (bind m' f').
Proof. intros Hm Hf s. apply rep_at_bind; [apply Hm|intros a _; apply Hf]. Qed.

(* ---- state-only operations ---- *)
Lemma replays_emit_g e : replays (emit_g e).  Proof. intros s _ _ c; constructor; cbn; auto. Qed.
Lemma replays_emit_u e : replays (emit_u e).  Proof. intros s _ _ c; constructor; cbn; auto. Qed.
Lemma replays_get_ts : replays get_ts.        Proof. intros s _ _ c; constructor; cbn; auto. Qed.
Lemma replays_mark_dirty : replays mark_dirty.
Proof. intros s _ Hd c. cbn in Hd. discriminate. Qed.
Lemma replays_signal k m id : replays (signal k m id).
Proof. intros s _ _ c; unfold signal; destruct k; constructor; cbn; auto. Qed.
Lemma replays_register id f : replays (register id f).
Proof. intros s _ _ c; constructor; cbn; auto. Qed.
Lemma replays_context_call : replays context_call.
Proof.
  intros s _ _ c. unfold context_call. cbn [with_src ts].
  destruct (ctx (ts s)); [|destruct (cleaning (ts s))]; constructor; cbn; auto.
Qed.
Lemma replays_begin_cleanup : replays begin_cleanup.
Proof. intros s _ _ c; constructor; cbn; auto. Qed.
Lemma replays_end_cleanup : replays end_cleanup.
Proof. intros s _ _ c; constructor; cbn; auto. Qed.
Lemma replays_pop_cleanup : replays pop_cleanup.
Proof.
  intros s _ _ c. unfold pop_cleanup. cbn [with_src ts].
  destruct (cleanups (ts s)) as [|[i f] r]; [|destruct (cleaning (ts s))]; constructor; cbn; auto.
Qed.
Lemma replays_note_skip m : replays (note_skip m).
Proof. intros s _ _ c; constructor; cbn; auto. Qed.
Lemma replays_note_ood m : replays (note_ood m).
Proof. intros s _ _ c; constructor; cbn; auto. Qed.
Lemma replays_failOnError l : replays (failOnError l).
Proof.
  intros s _ _ c. unfold failOnError. cbn [with_src ts].
  destruct (failed (ts s)); constructor; cbn; auto.
Qed.

(* ---- drawBits ---- *)
Lemma mask_idem n x : mask n (mask n x) = mask n x.
Proof. unfold mask. rewrite <- N.land_assoc, N.land_diag. reflexivity. Qed.
Lemma mask_ones64 n : 64 < n -> mask n ones64 = ones64.
Proof.
  intros H. unfold mask, ones64. rewrite Nat.min_r by lia. apply N.land_diag.
Qed.

Lemma replays_drawBits n : replays (drawBits n).
Proof.
  intros s Hg Hd c. unfold drawBits in *.
  destruct (src s) as [[|x l]|j] eqn:Es.
  - cbn in Hg. discriminate.
  - cbn. rewrite mask_idem. constructor; cbn; auto.
  - destruct (Nat.leb n 64) eqn:En.
    + destruct (jsf_rand j) as [r j'] eqn:Ej. cbn. rewrite mask_idem. constructor; cbn; auto.
    + cbn. rewrite mask_ones64. constructor; cbn; auto.
      apply Nat.leb_gt in En. exact En.
Qed.

Ltac fin := constructor; cbn; rewrite ?app_nil_r, ?Nat.add_0_r, ?orb_false_r; auto; try congruence; try lia.

(* ---- groups that are kept ---- *)
Lemma wkeep_proj a :
  rd (wkeep a) = rd a /\ rpd (wkeep a) = rpd a /\ pv (wkeep a) = pv a /\ nd (wkeep a) = nd a
  /\ (dirty (wkeep a) = false -> dirty a = false /\ rpd a <> []).
Proof.
  unfold wkeep. destruct (rpd a) eqn:E; cbn; repeat split; auto; try discriminate.
Qed.

Lemma rep_at_group_keep A sa (m m' : M (A * bool)) s :
  INV m -> rep_at m m' s -> (forall a, res (m s) <> Ok (a, true)) ->
  rep_at (group_d sa m) (group_d sa m') s.
Proof.
  intros Hi Hm Hk Hg Hd c. unfold group_d in *.
  destruct (res (m s)) as [[a d]|e] eqn:Er.
  - assert (d = false) by (destruct d; [exfalso; eapply Hk; eauto|reflexivity]). subst d.
    assert (G : good (res (m s))) by (rewrite Er; exact I).
    destruct (rd (w (m s))) as [|x l] eqn:Erd.
    + (* used no data: the same assertion fires in the replay *)
      cbn in Hd. apply orb_false_iff in Hd. destruct Hd as [Hd _]. cbn in Hd.
      destruct (Hi s) as [Hsub _ _]. rewrite Erd in Hsub. apply sublist_nil_r in Hsub.
      cbn [w rpd wapp wgev app]. rewrite Hsub. cbn [app].
      destruct (Hm G Hd c) as [R1 R2 R3 R4 R5 R6 R7 R8]. rewrite Hsub in *. cbn [app] in *.
      rewrite R1, Er, R4. fin.
    + destruct (wkeep_proj (w (m s))) as [K1 [K2 [K3 [K4 K5]]]].
      cbn in Hd. apply orb_false_iff in Hd. destruct Hd as [Hd _].
      destruct (K5 Hd) as [Hd' Hne].
      cbn [w rpd wapp wgev app]. rewrite app_nil_r, K2.
      pose proof (Hm G Hd' c) as R.
      set (o' := m' (with_src s (SBuf (rpd (w (m s)) ++ c)))) in *.
      destruct R as [R1 R2 R3 R4 R5 R6 R7 R8].
      rewrite R1, Er, R4.
      destruct (rpd (w (m s))) as [|y l'] eqn:Erpd; [congruence|].
      destruct (wkeep_proj (w o')) as [L1 [L2 [L3 [L4 L5]]]].
      constructor; cbn; rewrite ?app_nil_r, ?Nat.add_0_r, ?orb_false_r, ?L1, ?L2, ?L3, ?L4, ?K1, ?K2, ?K3, ?K4; auto; try congruence; try lia.
      unfold wkeep. rewrite R5. cbn. exact R8.
  - cbn in Hg, Hd. apply orb_false_iff in Hd. destruct Hd as [Hd _].
    assert (G : good (res (m s))) by (rewrite Er; exact Hg).
    cbn [w rpd wapp wgev app]. rewrite app_nil_r.
    destruct (Hm G Hd c) as [R1 R2 R3 R4 R5 R6 R7 R8].
    rewrite R1, Er. fin.
Qed.
Lemma replays_group_keep A sa (m m' : M (A * bool)) :
  INV m -> replays2 m m' -> (forall s a, res (m s) <> Ok (a, true)) ->
  replays2 (group_d sa m) (group_d sa m').
Proof. intros Hi Hm Hk s. apply rep_at_group_keep; auto. Qed.

Lemma replays_group A sa (m m' : M A) : INV m -> replays2 m m' -> replays2 (group sa m) (group sa m').
Proof.
  intros Hi Hm. unfold group. apply replays_group_keep.
  - apply inv_bind; [exact Hi|intros; apply inv_ret].
  - apply replays_bind; [exact Hm|intros; apply replays_ret].
  - intros s a H. unfold bind, ret in H. destruct (res (m s)); cbn in H; congruence.
Qed.

(* a discarded attempt in front of a computation does not show in the replay *)
Lemma rep_ok_skip A (wd : wr) (o2 o' : out A) c :
  rpd wd = [] -> pv wd = [] -> rep_ok o2 o' c ->
  rep_ok (mkOut (res o2) (post o2) (wapp wd (w o2))) o' c.
Proof.
  intros H1 H2 [R1 R2 R3 R4 R5 R6 R7 R8]. constructor; cbn; rewrite ?H1, ?H2; cbn; auto. lia.
Qed.

Lemma wdiscard_dirty a : dirty (wdiscard a) = false -> dirty a = false /\ nf a = false /\ reg a = false.
Proof.
  unfold wdiscard; cbn. intros H. apply orb_false_iff in H. destruct H as [H H2].
  apply orb_false_iff in H. destruct H as [H H1]. auto.
Qed.

(* shape of group_d when the attempt is discarded / kept *)
Lemma group_d_discard A sa (att : M (A * bool)) s a :
  res (att s) = Ok (a, true) ->
  group_d sa att s = mkOut (Ok a) (post (att s))
                           (wapp (wgev (EB sa)) (wapp (wdiscard (w (att s))) (wgev (EE true)))).
Proof. intros H. unfold group_d. rewrite H. reflexivity. Qed.

Section PrimReplay.
  Variable geom : nat -> N -> N.

  Lemma inv_draw_att (f : N -> bool) bl : INV (u <- drawBits bl ;; ret (u, f u)).
  Proof. apply inv_bind; [apply inv_drawBits|intros; apply inv_ret]. Qed.

  Lemma replays_coin K : replays (coin K).
  Proof.
    unfold coin. apply replays_bind; [|intros; apply replays_ret].
    apply replays_group; [apply inv_drawBits|apply replays_drawBits].
  Qed.

  (* drawing attempts of the rejection loops: u <- drawBits bl ;; ret (u, discard u) *)
  Lemma draw_att_eq (f : N -> bool) bl s :
    (u <- drawBits bl ;; ret (u, f u)) s =
    match res (drawBits bl s) with
    | Ok u => mkOut (Ok (u, f u)) (post (drawBits bl s)) (wapp (w (drawBits bl s)) wnil)
    | Err e => mkOut (Err e) (post (drawBits bl s)) (w (drawBits bl s))
    end.
  Proof. unfold bind, ret. destruct (res (drawBits bl s)); reflexivity. Qed.

  Lemma replays_draw_loop A (disc : N -> bool) (fin : N -> M A) bl
        (loop : nat -> M A) :
    (forall f, loop (S f) = (u <- group_d false (u <- drawBits bl ;; ret (u, disc u)) ;;
                             if disc u then loop f else fin u)) ->
    loop O = throw XFuel ->
    (forall u, replays (fin u)) ->
    forall fuel fuel', 1 <= fuel' -> replays2 (loop fuel) (loop fuel').
  Proof.
    intros Hstep H0 Hfin. induction fuel as [|f IH]; intros fuel' Hf' s Hg Hd c.
    - rewrite H0 in Hg. cbn in Hg. contradiction.
    - destruct fuel' as [|f']; [lia|]. rewrite !Hstep in *.
      set (att := (u <- drawBits bl ;; ret (u, disc u))) in *.
      unfold bind at 1 in Hg. unfold bind at 1 in Hd. unfold bind at 1. unfold bind at 2.
      destruct (res (att s)) as [[u d]|e] eqn:Ea.
      + assert (Ed : d = disc u).
        { unfold att in Ea. rewrite draw_att_eq in Ea. destruct (res (drawBits bl s)); cbn in Ea; congruence. }
        subst d. destruct (disc u) eqn:Edu.
        * (* rejected: the group is discarded, the loop goes on *)
          rewrite (group_d_discard _ _ _ _ _ Ea) in *. cbn [res post w] in *.
          rewrite Edu in *.
          apply dirty_wapp in Hd. destruct Hd as [Hd1 Hd2].
          apply dirty_wapp in Hd1. destruct Hd1 as [_ Hd1]. apply dirty_wapp in Hd1. destruct Hd1 as [Hd1 _].
          apply wdiscard_dirty in Hd1. destruct Hd1 as [Hda [Hnf Hreg]].
          destruct (inv_draw_att disc bl s) as [_ _ Hts]. fold att in Hts. specialize (Hts eq_refl Hnf Hreg).
          pose proof (IH (S f') ltac:(lia) (post (att s)) Hg Hd2 c) as R.
          rewrite (with_src_eq _ _ _ Hts) in R. rewrite Hstep in R.
          cbn [w rpd wapp wgev wdiscard app].
          apply rep_ok_skip; [reflexivity|reflexivity|]. exact R.
        * (* accepted *)
          assert (Hat : rep_at (group_d false att) (group_d false att) s).
          { apply rep_at_group_keep.
            - apply inv_draw_att.
            - apply (replays_bind _ _ (drawBits bl) (drawBits bl)); [apply replays_drawBits|intros; apply replays_ret].
            - intros a0 H. rewrite Ea in H. discriminate. }
          fold (bind (group_d false att) (fun u => if disc u then loop f else fin u)) in Hg, Hd |- *.
          fold (bind (group_d false att) (fun u => if disc u then loop f' else fin u)).
          revert Hg Hd c. apply rep_at_bind; [exact Hat|].
          intros a0 Ha0. unfold group_d in Ha0. rewrite Ea in Ha0.
          destruct (rd (w (att s))); cbn in Ha0; [discriminate|]. injection Ha0 as <-.
          rewrite Edu. apply Hfin.
      + (* drawBits failed: overrun is not a good outcome *)
        exfalso. unfold group_d in Hg. rewrite Ea in Hg. cbn in Hg.
        unfold att in Ea. rewrite draw_att_eq in Ea. unfold drawBits in Ea.
        destruct (src s) as [[|x l]|j]; cbn in Ea.
        * injection Ea as <-. cbn in Hg. discriminate.
        * discriminate.
        * destruct (Nat.leb bl 64); [destruct (jsf_rand j)|]; cbn in Ea; discriminate.
  Qed.

  Lemma replays_unbiased bl max : forall fuel fuel', 1 <= fuel' ->
    replays2 (unbiased_loop fuel bl max) (unbiased_loop fuel' bl max).
  Proof.
    apply (replays_draw_loop N (fun u => negb (N.leb u max)) (fun u => ret u) bl (fun f => unbiased_loop f bl max));
      [reflexivity|reflexivity|intros; apply replays_ret].
  Qed.
  Lemma replays_biased bl max n : forall fuel fuel', 1 <= fuel' ->
    replays2 (biased_loop fuel bl max n) (biased_loop fuel' bl max n).
  Proof.
    apply (replays_draw_loop _ (fun u => negb (Nat.ltb 64 bl || N.leb u max)) (biased_fin bl max n) bl
             (fun f => biased_loop f bl max n)); [reflexivity|reflexivity|intros; apply replays_ret].
  Qed.

  Lemma replays_genUintN fuel max bias : 1 <= fuel -> replays (genUintN geom fuel max bias).
  Proof.
    intros Hf. unfold genUintN, genUintNBiased. destruct bias.
    - apply replays_bind; [apply replays_group; [apply inv_drawBits|apply replays_drawBits]|intros k].
      apply replays_biased; exact Hf.
    - apply replays_bind; [apply replays_unbiased; exact Hf|intros; apply replays_ret].
  Qed.
  Lemma replays_genUintRange fuel mn mx bias : 1 <= fuel -> replays (genUintRange geom fuel mn mx bias).
  Proof.
    intros Hf. unfold genUintRange, assert_fail. destruct (N.ltb mx mn); [apply replays_throw|].
    apply replays_bind; [apply replays_genUintN; exact Hf|intros [[u l] r]; apply replays_ret].
  Qed.
  Lemma replays_genIntRange fuel mn mx : 1 <= fuel -> replays (genIntRange geom fuel mn mx).
  Proof.
    intros Hf. unfold genIntRange, assert_fail. destruct (Z.ltb mx mn); [apply replays_throw|].
    destruct (Z.leb 0 mn); [|destruct (Z.leb mx 0)];
      (apply replays_bind; [apply replays_coin|intros neg]; destruct neg;
       (apply replays_bind; [apply replays_genUintRange; exact Hf|intros [[u l] r]; apply replays_ret])).
  Qed.
  Lemma replays_genIndex fuel n bias : 1 <= fuel -> replays (genIndex geom fuel n bias).
  Proof.
    intros Hf. unfold genIndex, assert_fail. destruct n; [apply replays_throw|].
    apply replays_bind; [apply replays_genUintN; exact Hf|intros; apply replays_ret].
  Qed.

  (* ---- find: attempts that may be rejected ---- *)
  (* an attempt is fit for pruning when (a) a kept or failing attempt replays and (b) it obeys INV *)
  Definition att_ok {A} (att : M (option A)) : Prop :=
    INV att /\ forall s, res (att s) <> Ok None -> rep_at att att s.

  Lemma find_att_shape A (att : M (option A)) s :
    (o <- att ;; ret (o, match o with Some _ => false | None => true end)) s =
    match res (att s) with
    | Ok o => mkOut (Ok (o, match o with Some _ => false | None => true end)) (post (att s)) (wapp (w (att s)) wnil)
    | Err e => mkOut (Err e) (post (att s)) (w (att s))
    end.
  Proof. unfold bind, ret. destruct (res (att s)); reflexivity. Qed.

  Lemma replays_find A (att : M (option A)) : att_ok att ->
    forall tries tries', 1 <= tries' -> replays2 (find_loop att tries) (find_loop att tries').
  Proof.
    intros [Hinv Hatt]. induction tries as [|t IH]; intros tries' Ht s Hg Hd c.
    - cbn in Hg. discriminate.
    - destruct tries' as [|t']; [lia|]. cbn [find_loop] in *.
      set (ga := (o <- att ;; ret (o, match o with Some _ => false | None => true end))) in *.
      assert (Hga : INV ga) by (apply inv_bind; [exact Hinv|intros; apply inv_ret]).
      destruct (res (att s)) as [[v|]|e] eqn:Ea.
      + (* kept *)
        revert Hg Hd c. apply rep_at_bind.
        * apply rep_at_group_keep; [exact Hga| |].
          -- apply (rep_at_bind _ _ att att); [apply Hatt; rewrite Ea; discriminate|].
             intros a _. apply replays_ret.
          -- intros a H. unfold ga in H. rewrite find_att_shape, Ea in H. cbn in H. discriminate.
        * intros a Ha. unfold group_d in Ha. unfold ga in Ha. rewrite find_att_shape, Ea in Ha. cbn in Ha.
          destruct (rd (w (att s)) ++ []); cbn in Ha; [discriminate|]. injection Ha as <-. apply replays_ret.
      + (* rejected *)
        assert (Eg : res (ga s) = Ok (None, true)) by (unfold ga; rewrite find_att_shape, Ea; reflexivity).
        assert (E : forall k, (r <- group_d false ga ;; match r with Some v => ret v | None => find_loop att k end) s =
                    mkOut (res (find_loop att k (post (ga s)))) (post (find_loop att k (post (ga s))))
                          (wapp (wapp (wgev (EB false)) (wapp (wdiscard (w (ga s))) (wgev (EE true))))
                                (w (find_loop att k (post (ga s)))))).
        { intros k. unfold bind at 1. rewrite (group_d_discard _ _ _ _ _ Eg). reflexivity. }
        rewrite E in Hg, Hd |- *. cbn [res post w] in *.
        apply dirty_wapp in Hd. destruct Hd as [Hd1 Hd2].
        apply dirty_wapp in Hd1. destruct Hd1 as [_ Hd1]. apply dirty_wapp in Hd1. destruct Hd1 as [Hd1 _].
        apply wdiscard_dirty in Hd1. destruct Hd1 as [Hda [Hnf Hreg]].
        destruct (Hga s) as [_ _ Hts]. specialize (Hts eq_refl Hnf Hreg).
        pose proof (IH (S t') ltac:(lia) (post (ga s)) Hg Hd2 c) as R.
        rewrite (with_src_eq _ _ _ Hts) in R. cbn [find_loop] in R. fold ga in R.
        cbn [w rpd wapp wgev wdiscard app].
        apply rep_ok_skip; [reflexivity|reflexivity|]. exact R.
      + (* the attempt panicked: the group stays open *)
        revert Hg Hd c. apply rep_at_bind.
        * apply rep_at_group_keep; [exact Hga| |].
          -- apply (rep_at_bind _ _ att att); [apply Hatt; rewrite Ea; discriminate|].
             intros a _. apply replays_ret.
          -- intros a H. unfold ga in H. rewrite find_att_shape, Ea in H. cbn in H. discriminate.
        * intros a Ha. unfold group_d in Ha. unfold ga in Ha. rewrite find_att_shape, Ea in Ha. cbn in Ha. discriminate.
  Qed.

  (* ---- the repeat loop ---- *)
  Lemma mask0 x : mask 0 x = 0%N.
  Proof. unfold mask. cbn. apply N.land_0_r. Qed.
  Lemma drawBits0_val s a : res (drawBits 0 s) = Ok a -> a = 0%N.
  Proof.
    unfold drawBits. destruct (src s) as [[|x l]|j]; cbn [res]; [discriminate| |].
    - rewrite mask0. congruence.
    - change (Nat.leb 0 64) with true. cbv iota. destruct (jsf_rand j) as [r j']. cbn [res]. rewrite mask0. congruence.
  Qed.
  Lemma drawBits0_53 : replays2 (drawBits 0) (drawBits 53).
  Proof.
    intros s Hg Hd c. unfold drawBits in *.
    destruct (src s) as [[|x l]|j] eqn:Es.
    - cbn in Hg. discriminate.
    - cbn [w rpd wword res post app with_src src]. rewrite mask0. constructor; cbn [res post w rd rpd pv nd dirty wword with_src src ts]; auto.
    - change (Nat.leb 0 64) with true in *. cbv iota in *. destruct (jsf_rand j) as [r j'].
      cbn [w rpd wword res post app with_src src]. rewrite mask0. constructor; cbn [res post w rd rpd pv nd dirty wword with_src src ts]; auto.
  Qed.
  Lemma forced_coin_replays K' : (0 < K')%N ->
    replays2 (_ <- group false (drawBits 0) ;; ret false) (coin K').
  Proof.
    intros HK s. unfold coin. apply rep_at_bind.
    - apply replays_group; [apply inv_drawBits|apply drawBits0_53].
    - intros a Ha.
      assert (a = 0%N).
      { unfold group, group_d, bind, ret in Ha. destruct (res (drawBits 0 s)) as [u|e] eqn:Eu; cbn in Ha; [|discriminate].
        destruct (rd _ ++ []); cbn in Ha; [discriminate|]. injection Ha as <-. eapply drawBits0_val; eauto. }
      subst a. assert (HKf : N.leb K' 0 = false) by (apply N.leb_gt; exact HK). rewrite HKf. apply replays_ret.
  Qed.

  Section RepLoop.
    Context {A : Type}.
    Variables (minc maxc K : N) (body : A -> M (option A)).
    Hypothesis Hbody : forall a, att_ok (body a).

    Let iter count rej force acc : M (step A * bool) :=
      cont <- rep_coin minc maxc K count force ;; rep_tail minc K body count rej force acc cont.

    Lemma inv_iter count rej force acc : INV (iter count rej force acc).
    Proof.
      unfold iter. apply inv_bind.
      - unfold rep_coin. destruct (N.ltb _ _); [apply inv_coin|]. destruct force; [inv_auto|].
        destruct (N.leb _ _); apply inv_coin.
      - intros cont. unfold rep_tail, rep_reject. destruct cont; inv_auto; try apply Hbody. destruct a; inv_auto.
        destruct (Nat.ltb _ _); inv_auto. destruct (N.leb _ _); inv_auto. destruct (N.eqb _ _); inv_auto.
    Qed.

    Lemma K_never_pos : (0 < K_never)%N. Proof. reflexivity. Qed.

    Lemma coin_rep count force :
      (force = true -> (minc <= N.of_nat count)%N /\ (0 < K)%N) ->
      replays2 (rep_coin minc maxc K count force) (rep_coin minc maxc K count false).
    Proof.
      intros Hf. unfold rep_coin. destruct (N.ltb_spec (N.of_nat count) minc) as [Hlt|Hge]; [apply replays_coin|].
      destruct force; [|destruct (N.leb _ _); apply replays_coin].
      destruct (Hf eq_refl) as [_ HKp].
      destruct (N.leb _ _); apply forced_coin_replays; [apply K_never_pos|exact HKp].
    Qed.

    (* an iteration that is kept replays, whatever the rejection counters of the replay are *)
    Lemma iter_kept count rej rej' force acc s :
      (force = true -> (minc <= N.of_nat count)%N /\ (0 < K)%N) ->
      (forall st, res (iter count rej force acc s) <> Ok (st, true)) ->
      rep_at (iter count rej force acc) (iter count rej' false acc) s.
    Proof.
      intros Hf Hk. unfold iter in *. apply rep_at_bind; [apply coin_rep; exact Hf|].
      intros cont Hc. unfold rep_tail. destruct cont; [|apply replays_ret].
      set (s1 := post (rep_coin minc maxc K count force s)) in *.
      destruct (Hbody acc) as [_ Hrep].
      destruct (res (body acc s1)) as [[a'|]|e] eqn:E.
      - apply rep_at_bind; [apply Hrep; rewrite E; discriminate|].
        intros r Hr. rewrite E in Hr. injection Hr as <-. apply replays_ret.
      - (* rejected: either discarded (excluded here) or "too many rejections" (not a good outcome) *)
        intros Hg Hd c. exfalso.
        unfold bind at 1 in Hk. rewrite Hc in Hk. fold s1 in Hk. unfold rep_tail in Hk.
        unfold bind at 1 in Hk. unfold bind at 1 in Hg. rewrite E in Hk, Hg. unfold rep_reject in Hk, Hg.
        destruct (Nat.ltb _ _); [destruct (N.leb _ _) eqn:El|]; [destruct (N.eqb K 0)| |]; cbn in Hk, Hg.
        + eapply Hk; reflexivity.
        + eapply Hk; reflexivity.
        + discriminate.
        + eapply Hk; reflexivity.
      - apply rep_at_bind; [apply Hrep; rewrite E; discriminate|].
        intros r Hr. rewrite E in Hr. discriminate.
    Qed.

    Lemma iter_shape count rej force acc s st d :
      res (iter count rej force acc s) = Ok (st, d) ->
      (d = true /\ exists f2, st = StRej f2 /\
         (f2 = true -> dirty (w (iter count rej force acc s)) = false ->
          force = true \/ ((minc <= N.of_nat count)%N /\ (0 < K)%N)))
      \/ (d = false /\ (st = StStop \/ exists a, st = StAcc a)).
    Proof.
      unfold iter. unfold bind. destruct (res (rep_coin minc maxc K count force s)) as [cont|e]; [|discriminate].
      unfold rep_tail. destruct cont.
      - unfold bind. set (s1 := post (rep_coin minc maxc K count force s)).
        destruct (res (body acc s1)) as [[a'|]|e] eqn:E; cbn [res]; try discriminate.
        + intros H. injection H as <- <-. right. split; [reflexivity|]. right. eexists; reflexivity.
        + unfold rep_reject. destruct (Nat.ltb _ _); [destruct (N.leb_spec minc (N.of_nat count)) as [Hle|Hgt]|]; cbn [res]; try discriminate.
          * destruct (N.eqb_spec K 0) as [HK0|HK0]; cbn [res bind mark_dirty ret];
              intros H; injection H as <- <-; left; (split; [reflexivity|]); eexists; (split; [reflexivity|]); intros _ Hdirty.
            -- exfalso. cbn in Hdirty. rewrite !orb_true_r in Hdirty. discriminate.
            -- right. split; [assumption|]. lia.
          * intros H. injection H as <- <-. left. split; [reflexivity|]. eexists; split; [reflexivity|].
            intros Hf _. left. exact Hf.
      - cbn [res ret]. intros H. injection H as <- <-. right. split; [reflexivity|]. left. reflexivity.
    Qed.

    Lemma group_iter_res count rej force acc s r :
      res (rep_iter minc maxc K body count rej force acc s) = Ok r ->
      exists d, res (iter count rej force acc s) = Ok (r, d).
    Proof.
      unfold rep_iter. fold (iter count rej force acc). unfold group_d.
      destruct (res (iter count rej force acc s)) as [[st d]|e]; [|discriminate].
      destruct d; cbn [res].
      - intros H. injection H as <-. eexists; reflexivity.
      - destruct (rd _); cbn [res]; [discriminate|]. intros H. injection H as <-. eexists; reflexivity.
    Qed.

    Theorem replays_rep_loop : forall fuel count rej force acc fuel' rej',
      fuel <= fuel' -> (force = true -> (minc <= N.of_nat count)%N /\ (0 < K)%N) ->
      replays2 (rep_loop fuel minc maxc K body count rej force acc)
               (rep_loop fuel' minc maxc K body count rej' false acc).
    Proof.
      induction fuel as [|f IH]; intros count rej force acc fuel' rej' Hf Hforce s Hg Hd c.
      - cbn in Hg. contradiction.
      - destruct fuel' as [|f']; [lia|]. cbn [rep_loop] in *.
        destruct (res (iter count rej force acc s)) as [[st d]|e] eqn:Ei.
        + destruct (iter_shape _ _ _ _ _ _ _ Ei) as [[-> [f2 [-> Hf2]]]|[-> Hst]].
          * (* rejected iteration: discarded *)
            assert (E : forall (k : step A -> M A), (r <- rep_iter minc maxc K body count rej force acc ;; k r) s =
                     let o2 := k (StRej f2) (post (iter count rej force acc s)) in
                     mkOut (res o2) (post o2)
                           (wapp (wapp (wgev (EB true)) (wapp (wdiscard (w (iter count rej force acc s))) (wgev (EE true)))) (w o2))).
            { intros k. unfold bind at 1. unfold rep_iter. fold (iter count rej force acc).
              rewrite (group_d_discard _ _ _ _ _ Ei). reflexivity. }
            rewrite E in Hg, Hd |- *. cbv zeta in *. cbn [res post w] in *.
            apply dirty_wapp in Hd. destruct Hd as [Hd1 Hd2].
            apply dirty_wapp in Hd1. destruct Hd1 as [_ Hd1]. apply dirty_wapp in Hd1. destruct Hd1 as [Hd1 _].
            apply wdiscard_dirty in Hd1. destruct Hd1 as [Hda [Hnf Hreg]].
            destruct (inv_iter count rej force acc s) as [_ _ Hts]. specialize (Hts eq_refl Hnf Hreg).
            assert (Hforce2 : f2 = true -> (minc <= N.of_nat count)%N /\ (0 < K)%N).
            { intros H2. destruct (Hf2 H2 Hda) as [H3|H3]; [apply Hforce; exact H3|exact H3]. }
            pose proof (IH count (S rej) f2 acc (S f') rej' ltac:(lia) Hforce2 _ Hg Hd2 c) as R.
            rewrite (with_src_eq _ _ _ Hts) in R. cbn [rep_loop] in R.
            cbn [w rpd wapp wgev wdiscard app].
            apply rep_ok_skip; [reflexivity|reflexivity|]. exact R.
          * (* kept iteration *)
            revert Hg Hd c. apply rep_at_bind.
            -- unfold rep_iter. fold (iter count rej force acc). fold (iter count rej' false acc).
               apply rep_at_group_keep; [apply inv_iter|apply iter_kept; [exact Hforce|]|].
               ++ intros st' H. rewrite Ei in H. discriminate.
               ++ intros a H. rewrite Ei in H. discriminate.
            -- intros r Hr. destruct (group_iter_res _ _ _ _ _ _ Hr) as [d' Hd']. rewrite Ei in Hd'. injection Hd' as <- <-.
               destruct Hst as [->|[a ->]]; [apply replays_ret|].
               apply IH; [lia|]. intros H. destruct (Hforce H) as [H1 H2]. split; [lia|exact H2].
        + revert Hg Hd c. apply rep_at_bind.
          * unfold rep_iter. fold (iter count rej force acc). fold (iter count rej' false acc).
            apply rep_at_group_keep; [apply inv_iter|apply iter_kept; [exact Hforce|]|].
            -- intros st' H. rewrite Ei in H. discriminate.
            -- intros a H. rewrite Ei in H. discriminate.
          * intros r Hr. destruct (group_iter_res _ _ _ _ _ _ Hr) as [d' Hd']. rewrite Ei in Hd'. discriminate.
    Qed.
  End RepLoop.
End PrimReplay.

(* ---- catching: try_ and try_w ---- *)
Lemma good_dec A (r : result A) : {good r} + {~ good r}.
Proof.
  destruct r as [a|[m|m s0|m s0|]]; cbn; auto.
  destruct (internal_msg m); [right; discriminate|left; reflexivity].
Qed.

(* [care]: the outcomes of the whole for which a faithful replay is claimed *)
Lemma rep_at_try_care A B (care : result B -> Prop) (m m' : M A) (h : result A -> M B) s :
  rep_at m m' s -> (forall r, replays (h r)) ->
  (~ good (res (m s)) -> good (res (h (res (m s)) (post (m s)))) -> care (res (h (res (m s)) (post (m s)))) ->
   dirty (w (h (res (m s)) (post (m s)))) = true) ->
  care (res (try_ m h s)) -> rep_at (try_ m h) (try_ m' h) s.
Proof.
  intros Hm Hh Hbad Hc Hg Hd c. unfold try_ in *. cbn [res post w] in *.
  apply dirty_wapp in Hd. destruct Hd as [Hd1 Hd2].
  destruct (good_dec _ (res (m s))) as [G|NG].
  - cbn [rpd wapp]. rewrite <- app_assoc.
    pose proof (Hm G Hd1 (rpd (w (h (res (m s)) (post (m s)))) ++ c)) as R.
    set (o1' := m' (with_src s (SBuf (rpd (w (m s)) ++ rpd (w (h (res (m s)) (post (m s)))) ++ c)))) in *.
    destruct R as [R1 R2 R3 R4 R5 R6 R7 R8]. rewrite R1.
    assert (Epost : post o1' = with_src (post (m s)) (SBuf (rpd (w (h (res (m s)) (post (m s)))) ++ c))).
    { apply st_eq; cbn; [exact R3|exact R2]. }
    rewrite Epost.
    destruct (Hh (res (m s)) (post (m s)) Hg Hd2 c) as [S1 S2 S3 S4 S5 S6 S7 S8].
    constructor; cbn; try assumption; try congruence. lia.
    rewrite R8, S8. reflexivity.
  - rewrite (Hbad NG Hg Hc) in Hd2. discriminate.
Qed.

Lemma rep_at_try_w_care A B (care : result B -> Prop) (m m' : M A) (h : result A -> wr -> M B) s :
  rep_at m m' s -> sublist (rpd (w (m s))) (rd (w (m s))) ->
  (forall r wa wa' s1, nd wa' <= nd wa -> (rd wa = [] -> rd wa' = []) -> care (res (h r wa s1)) -> rep_at (h r wa) (h r wa') s1) ->
  (~ good (res (m s)) -> good (res (h (res (m s)) (w (m s)) (post (m s)))) -> care (res (h (res (m s)) (w (m s)) (post (m s)))) ->
   dirty (w (h (res (m s)) (w (m s)) (post (m s)))) = true) ->
  care (res (try_w m h s)) -> rep_at (try_w m h) (try_w m' h) s.
Proof.
  intros Hm Hsub Hh Hbad Hc Hg Hd c. unfold try_w in *. cbn [res post w] in *.
  apply dirty_wapp in Hd. destruct Hd as [Hd1 Hd2].
  destruct (good_dec _ (res (m s))) as [G|NG].
  - cbn [rpd wapp]. rewrite <- app_assoc.
    pose proof (Hm G Hd1 (rpd (w (h (res (m s)) (w (m s)) (post (m s)))) ++ c)) as R.
    set (o1' := m' (with_src s (SBuf (rpd (w (m s)) ++ rpd (w (h (res (m s)) (w (m s)) (post (m s)))) ++ c)))) in *.
    destruct R as [R1 R2 R3 R4 R5 R6 R7 R8]. rewrite R1.
    assert (Epost : post o1' = with_src (post (m s)) (SBuf (rpd (w (h (res (m s)) (w (m s)) (post (m s)))) ++ c))).
    { apply st_eq; cbn; [exact R3|exact R2]. }
    rewrite Epost.
    assert (Hrd : rd (w (m s)) = [] -> rd (w o1') = []).
    { intros E. rewrite E in Hsub. apply sublist_nil_r in Hsub. rewrite R4, Hsub. reflexivity. }
    destruct (Hh (res (m s)) (w (m s)) (w o1') (post (m s)) R7 Hrd Hc Hg Hd2 c) as [S1 S2 S3 S4 S5 S6 S7 S8].
    constructor; cbn; try assumption; try congruence. lia.
    rewrite R8, S8. reflexivity.
  - rewrite (Hbad NG Hg Hc) in Hd2. discriminate.
Qed.

Section InterpReplay.
  Variable geom : nat -> N -> N.
  Variable LF : nat.
  Variable crun : prog -> M val.
  Hypothesis HLF : 1 <= LF.
  Hypothesis Hcrun_inv : forall p, INV (crun p).
  Hypothesis Hcrun_rep : forall p, replays (crun p).

  Lemma not_good_cases A (r : result A) : ~ good r -> r = Err XFuel \/ exists m, r = Err (XInvalid m) /\ internal_msg m = true.
  Proof.
    destruct r as [a|[m|m s0|m s0|]]; cbn; intros H; try (exfalso; apply H; exact I); auto.
    right. exists m. split; [reflexivity|]. destruct (internal_msg m); [reflexivity|exfalso; apply H; reflexivity].
  Qed.

  (* ---- T.cleanup ---- *)
  Lemma replays_cleanup_loop inner : forall fuel fuel' last, fuel <= fuel' ->
    replays2 (cleanup_loop crun inner fuel last) (cleanup_loop crun inner fuel' last).
  Proof.
    induction fuel as [|f IH]; intros fuel' last Hf s; [intros Hg; cbn in Hg; contradiction|].
    destruct fuel' as [|f']; [lia|]. cbn [cleanup_loop].
    apply rep_at_bind; [apply replays_pop_cleanup|intros oc _].
    destruct oc as [c|]; [|apply replays_ret].
    set (h := fun k (r : result val) =>
      match r with
      | Err XFuel => throw XFuel
      | Err (XInvalid m) =>
          if inner && internal_msg m then _ <- mark_dirty ;; _ <- note_ood m ;; cleanup_loop crun inner k last
          else _ <- (if internal_msg m then mark_dirty else ret tt) ;; _ <- note_skip m ;; cleanup_loop crun inner k last
      | Err e => cleanup_loop crun inner k (Some e)
      | Ok _ => cleanup_loop crun inner k last
      end).
    change (rep_at (try_ (crun c) (h f)) (try_ (crun c) (h f')) (post (pop_cleanup s))).
    set (s2 := post (pop_cleanup s)).
    intros Hg Hd cc. unfold try_ in *. cbn [res post w] in *.
    apply dirty_wapp in Hd. destruct Hd as [Hd1 Hd2].
    destruct (good_dec _ (res (crun c s2))) as [G|NG].
    - cbn [rpd wapp]. rewrite <- app_assoc.
      pose proof (Hcrun_rep c s2 G Hd1 (rpd (w (h f (res (crun c s2)) (post (crun c s2)))) ++ cc)) as R.
      set (o1' := crun c (with_src s2 (SBuf (rpd (w (crun c s2)) ++ rpd (w (h f (res (crun c s2)) (post (crun c s2)))) ++ cc)))) in *.
      destruct R as [R1 R2 R3 R4 R5 R6 R7 R8]. rewrite R1.
      assert (Epost : post o1' = with_src (post (crun c s2)) (SBuf (rpd (w (h f (res (crun c s2)) (post (crun c s2)))) ++ cc))).
      { apply st_eq; cbn; [exact R3|exact R2]. }
      rewrite Epost.
      assert (Hh : replays2 (h f (res (crun c s2))) (h f' (res (crun c s2)))).
      { unfold h. destruct (res (crun c s2)) as [v|e]; [apply IH; lia|].
        destruct e; try (apply IH; lia).
        - destruct (inner && internal_msg m).
          + apply replays_bind; [apply replays_mark_dirty|intros _].
            apply replays_bind; [apply replays_note_ood|intros; apply IH; lia].
          + apply replays_bind; [destruct (internal_msg m); [apply replays_mark_dirty|apply replays_ret]|intros _].
            apply replays_bind; [apply replays_note_skip|intros; apply IH; lia].
        - apply replays_throw. }
      destruct (Hh (post (crun c s2)) Hg Hd2 cc) as [S1 S2 S3 S4 S5 S6 S7 S8].
      constructor; cbn [res post w rd rpd pv nd dirty wapp]; try assumption; try congruence; try lia.
      rewrite R8, S8. reflexivity.
    - exfalso. destruct (not_good_cases _ _ NG) as [E|[m [E Hi]]]; rewrite E in *; unfold h in Hg, Hd2.
      + cbn in Hg. contradiction.
      + rewrite Hi in Hd2. destruct inner; cbn [andb] in Hd2;
          unfold bind at 1 in Hd2; cbn [mark_dirty res post w] in Hd2; cbn in Hd2; discriminate.
  Qed.

  Lemma replays_cleanup inner : replays (cleanup LF crun inner).
  Proof.
    unfold cleanup. apply replays_bind; [apply replays_begin_cleanup|intros _].
    apply replays_bind; [apply replays_cleanup_loop; lia|intros r].
    apply replays_bind; [apply replays_end_cleanup|intros _]. apply replays_ret.
  Qed.

  Lemma cleanup_loop_err inner : forall fuel last s e, res (cleanup_loop crun inner fuel last s) = Err e -> e = XFuel.
  Proof.
    induction fuel as [|f IH]; intros last s e; cbn [cleanup_loop]; [cbn; congruence|].
    unfold bind at 1. unfold pop_cleanup at 1 2 3. destruct (cleanups (ts s)) as [|[id c] rest]; [|destruct (cleaning (ts s))]; cbn [res post]; [cbn; discriminate| |cbn; discriminate].
    unfold try_. cbn [res]. destruct (res (crun c _)) as [v|e0]; [apply IH|].
    destruct e0; try apply IH.
    - destruct (inner && internal_msg m).
      + unfold bind at 1. cbn [mark_dirty res post]. unfold bind at 1. cbn [note_ood res post]. apply IH.
      + unfold bind at 1. destruct (internal_msg m); cbn [mark_dirty ret res post]; unfold bind at 1; cbn [note_skip res post]; apply IH.
    - cbn; congruence.
  Qed.
  Lemma cleanup_err inner s e : res (cleanup LF crun inner s) = Err e -> e = XFuel.
  Proof.
    unfold cleanup. unfold bind at 1. cbn [begin_cleanup res post].
    unfold bind at 1.
    match goal with |- context [res (cleanup_loop crun inner LF None ?s0)] => destruct (res (cleanup_loop crun inner LF None s0)) eqn:E end.
    - unfold bind at 1. cbn. discriminate.
    - cbn [res]. intros H. injection H as <-. eapply cleanup_loop_err; eauto.
  Qed.

  (* T.cleanup never reports an invalid-data exception: a skip requested by a cleanup function is noted on the T
     (note_skip), a generator that ran out of data inside a cleanup function of a Custom's inner T likewise (note_ood) *)
  Lemma dirty_wapp_r a b : dirty b = true -> dirty (wapp a b) = true.
  Proof. intros H. unfold wapp; cbn [dirty]. rewrite H. apply orb_true_r. Qed.
  Lemma dirty_wapp_r_l a b : dirty a = true -> dirty (wapp a b) = true.
  Proof. intros H. unfold wapp; cbn [dirty]. rewrite H. reflexivity. Qed.
  Lemma bind_ok_out A B (m : M A) (f : A -> M B) s a :
    res (m s) = Ok a ->
    bind m f s = mkOut (res (f a (post (m s)))) (post (f a (post (m s)))) (wapp (w (m s)) (w (f a (post (m s))))).
  Proof. intros H. unfold bind. rewrite H. reflexivity. Qed.
  Lemma cleanup_loop_invalid inner : forall fuel last s m,
    res (cleanup_loop crun inner fuel last s) = Ok (Some (XInvalid m)) -> last = Some (XInvalid m).
  Proof.
    induction fuel as [|f IH]; intros last s m; cbn [cleanup_loop]; [cbn; discriminate|].
    assert (Hpop : exists oc, res (pop_cleanup s) = Ok oc).
    { unfold pop_cleanup. destruct (cleanups (ts s)) as [|[id c] rest]; [|destruct (cleaning (ts s))]; eexists; reflexivity. }
    destruct Hpop as [oc Hpop]. rewrite (bind_ok_out _ _ pop_cleanup _ s oc Hpop). cbn [res w].
    destruct oc as [c|]; [|cbn [ret res]; intros H; injection H as H; exact H].
    unfold try_. cbn [res w]. set (s1 := post (pop_cleanup s)).
    destruct (res (crun c s1)) as [v|[m0|m0 st0|m0 st0|]].
    - intros H. exact (IH _ _ _ H).
    - destruct (inner && internal_msg m0).
      + rewrite (bind_ok_out _ _ mark_dirty _ _ tt eq_refl). cbn [res].
        rewrite (bind_ok_out _ _ (note_ood m0) _ _ tt eq_refl). cbn [res].
        intros H. exact (IH _ _ _ H).
      + assert (Hn : forall s2,
                  res ((_ <- (if internal_msg m0 then mark_dirty else ret tt) ;; _ <- note_skip m0 ;; cleanup_loop crun inner f last) s2)
                  = res (cleanup_loop crun inner f last (post (note_skip m0 s2)))).
        { intros s2. destruct (internal_msg m0); unfold bind; cbn [mark_dirty ret note_skip res post w]; reflexivity. }
        rewrite Hn. intros H. exact (IH _ _ _ H).
    - intros H. pose proof (IH _ _ _ H) as E. discriminate E.
    - intros H. pose proof (IH _ _ _ H) as E. discriminate E.
    - cbn. discriminate.
  Qed.
  Lemma cleanup_invalid inner s m : res (cleanup LF crun inner s) <> Ok (Some (XInvalid m)).
  Proof.
    unfold cleanup. rewrite (bind_ok_out _ _ begin_cleanup _ s tt eq_refl). cbn [res].
    set (s0 := post (begin_cleanup s)).
    pose proof (cleanup_loop_invalid inner LF None s0 m) as L.
    destruct (res (cleanup_loop crun inner LF None s0)) as [r|e0] eqn:El.
    - rewrite (bind_ok_out _ _ (cleanup_loop crun inner LF None) _ s0 r El). cbn [res].
      unfold bind. cbn [end_cleanup ret res post]. intros H. injection H as ->.
      discriminate (L eq_refl).
    - unfold bind. rewrite El. cbn. discriminate.
  Qed.

  (* ---- Custom ---- *)
  Lemma replays_custom_end r : replays (custom_end r).
  Proof.
    unfold custom_end.
    assert (H : replays (_ <- emit_u (UCustomEnd (match r with Ok _ => 0 | Err _ => 1 end)) ;;
                 match r with Ok v => _ <- failOnError SCustomFOE ;; ret v | Err e => throw e end)).
    { apply replays_bind; [apply replays_emit_u|intros _].
      destruct r; [apply replays_bind; [apply replays_failOnError|intros; apply replays_ret]|apply replays_throw]. }
    destruct r as [v|[]]; try exact H. apply replays_throw.
  Qed.
  Lemma replays_custom_handler r : replays (custom_handler LF crun r).
  Proof.
    unfold custom_handler.
    assert (H : replays (
                 c <- cleanup LF crun true ;;
                 t0 <- get_ts ;;
                 match c, r with
                 | None, Ok v =>
                     match ood t0 with
                     | Some m => match failed t0 with Some _ => throw (XInvalid m) | None => ret None end
                     | None => ret (Some v)
                     end
                 | Some e, Err (XInvalid m) => _ <- (if internal_msg m then mark_dirty else ret tt) ;; throw e
                 | Some e, _ => throw e
                 | None, Err (XInvalid m) => match failed t0 with Some _ => throw (XInvalid m) | None => ret None end
                 | None, Err e => throw e
                 end)).
    { apply replays_bind; [apply replays_cleanup|intros c].
      apply replays_bind; [apply replays_get_ts|intros t0].
      destruct c as [[]|]; destruct r as [v|[]]; try apply replays_throw; try apply replays_ret;
        try (destruct (failed t0); [apply replays_throw|apply replays_ret]);
        try (destruct (ood t0); [destruct (failed t0); [apply replays_throw|apply replays_ret]|apply replays_ret]);
        (apply replays_bind; [destruct (internal_msg _); [apply replays_mark_dirty|apply replays_ret]|intros; apply replays_throw]). }
    destruct r as [v|[]]; try exact H. apply replays_throw.
  Qed.

  (* the Custom function with its own end-of-function handling: a bad outcome stays bad *)
  Lemma body_end_rep (body : M val) : replays body -> replays (try_ body custom_end).
  Proof.
    intros Hb s. apply (rep_at_try_care _ _ (fun _ => True)); [apply Hb|apply replays_custom_end| |exact I].
    intros NG Hg _. exfalso. destruct (not_good_cases _ _ NG) as [E|[m [E Hi]]]; rewrite E in Hg; unfold custom_end in Hg.
    - cbn in Hg. contradiction.
    - unfold bind in Hg. cbn in Hg. congruence.
  Qed.

  Lemma custom_inner_rep (body : M val) s :
    replays body -> res (custom_inner LF crun body s) <> Ok None -> rep_at (custom_inner LF crun body) (custom_inner LF crun body) s.
  Proof.
    intros Hb Hne. unfold custom_inner in *. apply rep_at_bind; [apply replays_emit_u|intros _ _].
    cbn [emit_u post]. unfold bind at 1 in Hne. cbn [emit_u res post] in Hne.
    apply (rep_at_try_care _ _ (fun r => r <> Ok None)); [apply body_end_rep; exact Hb|apply replays_custom_handler| |exact Hne].
    intros NG Hg Hc. destruct (not_good_cases _ _ NG) as [E|[m [E Hi]]]; rewrite E in *.
    - cbn in Hg. contradiction.
    - unfold custom_handler in *. unfold bind at 1. unfold bind at 1 in Hg. unfold bind at 1 in Hc.
      match goal with |- context [cleanup LF crun true ?s0] => set (s1 := s0) in * end.
      destruct (res (cleanup LF crun true s1)) as [[e|]|e] eqn:Ec.
      + destruct e as [m'|m' st'|m' st'|].
        * destruct (cleanup_invalid true s1 m' Ec).
        * unfold bind at 1. cbn [get_ts res post w]. rewrite Hi. unfold bind at 1. cbn. rewrite !orb_true_r. reflexivity.
        * unfold bind at 1. cbn [get_ts res post w]. rewrite Hi. unfold bind at 1. cbn. rewrite !orb_true_r. reflexivity.
        * unfold bind at 1. cbn [get_ts res post w]. rewrite Hi. unfold bind at 1. cbn. rewrite !orb_true_r. reflexivity.
      + (* a skip raised by rapid itself that is not swallowed stays an internal invalid: not good *)
        unfold bind at 1 in Hg. unfold bind at 1 in Hc. cbn [get_ts res post w] in Hg, Hc.
        destruct (failed (ts (post (cleanup LF crun true s1)))); cbn in Hg, Hc; [congruence|congruence].
      + apply cleanup_err in Ec. subst e. cbn in Hg. contradiction.
  Qed.

  Lemma att_ok_custom (body : M val) : INV body -> replays body -> att_ok (custom_att LF crun body).
  Proof.
    intros Hi Hb. split; [apply inv_custom_att; assumption|].
    intros s Hne Hg Hd c. unfold custom_att, with_fresh_T in *. cbn [res w dirty rpd] in *.
    assert (Ew : forall x, with_ts (with_src s x) fresh_t = with_src (with_ts s fresh_t) x) by (intros; destruct s; reflexivity).
    rewrite Ew.
    destruct (custom_inner_rep body (with_ts s fresh_t) Hb Hne Hg Hd c) as [R1 R2 R3 R4 R5 R6 R7 R8].
    constructor; cbn [res post w rd rpd pv nd dirty ts src with_ts with_src]; auto.
    rewrite R2. reflexivity.
  Qed.

  (* ---- state machine ---- *)
  Lemma replays2_emit_u e e' : replays2 (emit_u e) (emit_u e').
  Proof. intros s _ _ c; constructor; cbn; auto. Qed.

  Lemma run_action_rep id (run_act : nat -> val -> M val) i st s :
    (forall i st, INV (run_act i st)) ->
    (forall i st, replays (run_act i st)) ->
    res (run_action id run_act i st s) <> Ok ARejected ->
    rep_at (run_action id run_act i st) (run_action id run_act i st) s.
  Proof.
    intros Hai Ha Hne. unfold run_action in *.
    set (h1 := fun (r : result val) (wa : wr) =>
             _ <- emit_u (UActEnd i (match r with Ok _ => 0 | Err _ => if Nat.eqb (nd wa) 0 then 1 else 2 end)) ;;
             match r with Ok s' => _ <- failOnError (SRepeatAction id) ;; ret s' | Err e => throw e end) in *.
    assert (Hinv1 : INV (try_w (run_act i st) h1)).
    { apply inv_try_w; [apply Hai|]. intros r wa. unfold h1. apply inv_bind; [apply inv_emit_u|intros _]. destruct r; inv_auto. }
    apply (rep_at_try_w_care _ _ (fun r => r <> Ok ARejected)); [|apply Hinv1| | |exact Hne].
    - (* the action with its failOnError *)
      apply (rep_at_try_w_care _ _ (fun _ => True)); [apply Ha|apply Hai| | |exact I].
      + intros r wa wa' s1 _ _ _. unfold h1. apply rep_at_bind; [apply replays2_emit_u|intros _ _].
        destruct r; [apply replays_bind; [apply replays_failOnError|intros; apply replays_ret]|apply replays_throw].
      + intros NG Hg _. exfalso. destruct (not_good_cases _ _ NG) as [E|[m [E Hi]]]; rewrite E in Hg;
          unfold h1, bind in Hg; cbn in Hg; [contradiction|congruence].
    - intros r wa wa' s1 Hnd Hrd Hc. destruct r as [v|e]; [apply replays_ret|].
      destruct e; try apply replays_throw.
      apply rep_at_bind; [apply replays_get_ts|intros t0 Ht0].
      cbn [get_ts res post] in Ht0. injection Ht0 as <-.
      destruct (failed (ts s1)) eqn:Ef; [apply replays_throw|].
      destruct (rd wa) as [|x0 l0] eqn:E0.
      + rewrite (Hrd eq_refl).
        apply replays_bind; [destruct (internal_msg m); [apply replays_mark_dirty|apply replays_ret]|intros; apply replays_ret].
      + exfalso. apply Hc. unfold bind. cbn [get_ts res post]. rewrite ?Ef, ?E0. reflexivity.
    - intros NG Hg Hc. destruct (not_good_cases _ _ NG) as [E|[m [E Hi]]]; rewrite E in *.
      + cbn in Hg. contradiction.
      + unfold bind at 1. unfold bind at 1 in Hg. unfold bind at 1 in Hc. cbn [get_ts res post w] in *.
        destruct (failed (ts _)).
        * cbn in Hg. congruence.
        * destruct (rd _).
          -- rewrite Hi. unfold bind. cbn. reflexivity.
          -- exfalso. apply Hc. reflexivity.
  Qed.

  Lemma group_d_ok_consumes A sa (m : M (A * bool)) s a :
    res (group_d sa m s) = Ok a -> (forall a', res (m s) <> Ok (a', true)) -> rd (w (group_d sa m s)) <> [].
  Proof.
    unfold group_d. destruct (res (m s)) as [[a' d]|e]; [|cbn; discriminate].
    destruct d; [intros _ H; exfalso; eapply H; reflexivity|].
    destruct (rd (w (m s))) as [|x0 l0] eqn:E; cbn [res w]; [discriminate|].
    intros _ _. destruct (wkeep_proj (w (m s))) as [K1 _].
    cbn [rd wapp wgev app]. rewrite K1, E. cbn. discriminate.
  Qed.
  Lemma group_ok_consumes A sa (m : M A) s a : res (group sa m s) = Ok a -> rd (w (group sa m s)) <> [].
  Proof.
    unfold group. intros H. eapply group_d_ok_consumes; [exact H|].
    intros a'. unfold bind, ret. destruct (res (m s)); cbn; congruence.
  Qed.
  Lemma bind_consumes A B (m : M A) (f : A -> M B) s :
    (forall a, res (m s) = Ok a -> rd (w (m s)) <> []) -> forall b, res (bind m f s) = Ok b -> rd (w (bind m f s)) <> [].
  Proof.
    intros H b. unfold bind. destruct (res (m s)) as [a|e]; cbn [res w]; [|discriminate].
    intros _. cbn [rd wapp]. specialize (H a eq_refl). destruct (rd (w (m s))); [congruence|cbn; discriminate].
  Qed.
  Lemma genIndex_consumes fuel n s v :
    res (genIndex geom fuel n true s) = Ok v -> rd (w (genIndex geom fuel n true s)) <> [].
  Proof.
    unfold genIndex, assert_fail. destruct n; [cbn; discriminate|].
    apply bind_consumes. intros a. unfold genUintN, genUintNBiased. apply bind_consumes.
    intros k. apply group_ok_consumes.
  Qed.

  Lemma rep_at_group A sa (m m' : M A) s : INV m -> rep_at m m' s -> rep_at (group sa m) (group sa m') s.
  Proof.
    intros Hi Hm. unfold group. apply rep_at_group_keep.
    - apply inv_bind; [exact Hi|intros; apply inv_ret].
    - apply rep_at_bind; [exact Hm|intros a _; apply replays_ret].
    - intros a H. unfold bind, ret in H. destruct (res (m s)); cbn in H; congruence.
  Qed.

  Lemma group_ok_shape A sa (m : M A) s a :
    res (m s) = Ok a -> rd (w (m s)) <> [] -> res (group sa m s) = Ok a /\ post (group sa m s) = post (m s).
  Proof.
    intros H Hc. unfold group, group_d.
    assert (E : (a0 <- m ;; ret (a0, false)) s = mkOut (Ok (a, false)) (post (m s)) (wapp (w (m s)) wnil)).
    { unfold bind, ret. rewrite H. reflexivity. }
    rewrite E. cbn [res post w rd wapp wnil]. rewrite app_nil_r.
    destruct (rd (w (m s))); [congruence|]. split; reflexivity.
  Qed.
  Lemma group_err_shape A sa (m : M A) s e : res (m s) = Err e -> res (group sa m s) = Err e.
  Proof.
    intros H. unfold group, group_d.
    assert (E : (a0 <- m ;; ret (a0, false)) s = mkOut (Err e) (post (m s)) (w (m s))).
    { unfold bind, ret. rewrite H. reflexivity. }
    rewrite E. reflexivity.
  Qed.

  Section ExecAction.
    Variables (id nacts : nat) (run_act : nat -> val -> M val).
    Hypothesis Hai : forall i st, INV (run_act i st).
    Hypothesis Ha : forall i st, replays (run_act i st).
    Let inner st : M actres :=
      i <- group true (genIndex geom LF nacts true) ;; _ <- emit_u (UAct i) ;; run_action id run_act i st.

    Lemma inv_inner st : INV (inner st).
    Proof.
      unfold inner. apply inv_bind; [apply inv_group, inv_genIndex|intros i].
      apply inv_bind; [apply inv_emit_u|intros _]. apply inv_run_action. exact Hai.
    Qed.
    Lemma inner_rep st s : res (inner st s) <> Ok ARejected -> rep_at (inner st) (inner st) s.
    Proof.
      intros Hne. unfold inner in *. apply rep_at_bind.
      - apply rep_at_group; [apply inv_genIndex|apply replays_genIndex; exact HLF].
      - intros i Hi. apply rep_at_bind; [apply replays_emit_u|intros _ _].
        apply run_action_rep; [exact Hai|exact Ha|]. intros E. apply Hne.
        unfold bind at 1. rewrite Hi. unfold bind at 1. cbn [emit_u res post]. exact E.
    Qed.
    Lemma inner_consumes st s r : res (inner st s) = Ok r -> rd (w (inner st s)) <> [].
    Proof. unfold inner. apply bind_consumes. intros i. apply group_ok_consumes. Qed.

    Lemma exec_action_rep : forall tries st s,
      res (exec_action geom LF id nacts run_act tries st s) <> Ok None ->
      rep_at (exec_action geom LF id nacts run_act tries st) (exec_action geom LF id nacts run_act tries st) s.
    Proof.
      induction tries as [|t IH]; intros st s Hne; cbn [exec_action] in *; [apply replays_throw|].
      fold (inner st) in *.
      destruct (res (inner st s)) as [r|e] eqn:Ei.
      - assert (Eg : res (group false (inner st) s) = Ok r /\ post (group false (inner st) s) = post (inner st s)).
        { apply group_ok_shape; [exact Ei|eapply inner_consumes; exact Ei]. }
        destruct Eg as [Eg1 Eg2].
        destruct r as [st'| |].
        + apply rep_at_bind; [apply rep_at_group; [apply inv_inner|apply inner_rep; rewrite Ei; discriminate]|].
          intros r Hr. rewrite Eg1 in Hr. injection Hr as <-. apply replays_ret.
        + exfalso. apply Hne. unfold bind at 1. rewrite Eg1. reflexivity.
        + apply rep_at_bind; [apply rep_at_group; [apply inv_inner|apply inner_rep; rewrite Ei; discriminate]|].
          intros r Hr. rewrite Eg1 in Hr. injection Hr as <-. apply IH.
          intros E. apply Hne. unfold bind at 1. rewrite Eg1. cbn [res]. exact E.
      - apply rep_at_bind; [apply rep_at_group; [apply inv_inner|apply inner_rep; rewrite Ei; discriminate]|].
        intros r Hr. exfalso. rewrite (group_err_shape _ _ _ _ _ Ei) in Hr. discriminate.
    Qed.

    Lemma att_ok_repeat_step (chk : val -> M unit) st :
      (forall st, INV (chk st)) -> (forall st, replays (chk st)) ->
      att_ok (repeat_step geom LF id nacts chk run_act st).
    Proof.
      intros Hci Hc. split.
      - unfold repeat_step. apply inv_bind; [apply inv_exec_action; exact Hai|intros r].
        destruct r; [|apply inv_ret]. apply inv_bind; [apply Hci|intros _].
        apply inv_bind; [apply inv_failOnError|intros _; apply inv_ret].
      - intros s Hne. unfold repeat_step in *. apply rep_at_bind.
        + apply exec_action_rep. intros E. apply Hne. unfold bind at 1. rewrite E. reflexivity.
        + intros r _. destruct r; [|apply replays_ret].
          apply replays_bind; [apply Hc|intros _].
          apply replays_bind; [apply replays_failOnError|intros _; apply replays_ret].
    Qed.

    Lemma replays_run_repeat K (chk : val -> M unit) s0 :
      (forall st, INV (chk st)) -> (forall st, replays (chk st)) ->
      replays (run_repeat geom LF id K nacts chk run_act s0).
    Proof.
      intros Hci Hc. unfold run_repeat.
      apply replays_bind; [apply Hc|intros _].
      apply replays_bind; [apply replays_failOnError|intros _].
      apply replays_rep_loop; [intros a; apply att_ok_repeat_step; assumption|lia|discriminate].
    Qed.
  End ExecAction.

  Lemma att_ok_always A (m : M A) : INV m -> replays m -> att_ok (a <- m ;; ret (Some a)).
  Proof.
    intros Hi Hm. split; [apply inv_bind; [exact Hi|intros; apply inv_ret]|].
    intros s _. apply replays_bind; [exact Hm|intros; apply replays_ret].
  Qed.

  Theorem replay_interp :
    (forall g, replays (run_g geom LF crun g)) /\ (forall p, replays (run_p geom LF crun p)).
  Proof.
    destruct (inv_interp geom LF crun Hcrun_inv) as [Ig Ip].
    assert (Hgv : forall g, replays (run_g geom LF crun g) -> replays (gval (run_g geom LF crun g))).
    { intros g H. unfold gval. apply replays_group; [apply Ig|exact H]. }
    assert (Igv : forall g, INV (gval (run_g geom LF crun g))).
    { intros g. unfold gval. apply inv_group. apply Ig. }
    apply gexp_prog_ind; intros; cbn [run_g run_p].
    - (* GBool *) apply replays_bind; [apply replays_drawBits|intros; apply replays_ret].
    - (* GUint *) apply replays_bind; [apply replays_genUintRange; exact HLF|intros; apply replays_ret].
    - (* GInt *) apply replays_bind; [apply replays_genIntRange; exact HLF|intros; apply replays_ret].
    - (* GSampled *) apply replays_bind; [apply replays_genIndex; exact HLF|intros; apply replays_ret].
    - (* GOneOf *) apply replays_bind; [apply replays_genIndex; exact HLF|intros i]. apply Hgv. apply H.
    - (* GPtr *) apply replays_bind; [apply replays_coin|intros b]. destruct b; [|apply replays_ret].
      apply replays_bind; [apply Hgv; assumption|intros; apply replays_ret].
    - (* GSlice *) apply replays_bind; [|intros; apply replays_ret].
      apply replays_rep_loop; [|lia|discriminate]. intros acc. unfold slice_body. split.
      + apply inv_bind; [apply Igv|intros v]. destruct key; [destruct (existsb _ _)|]; apply inv_ret.
      + intros s _. apply replays_bind; [apply Hgv; assumption|intros v].
        destruct key; [destruct (existsb _ _)|]; apply replays_ret.
    - (* GMap *) apply replays_bind; [|intros; apply replays_ret].
      apply replays_rep_loop; [|lia|discriminate]. intros acc. unfold map_body. split.
      + apply inv_bind; [|intros kv; destruct (existsb _ _); apply inv_ret].
        apply inv_bind; [apply Igv|intros k]. apply inv_bind; [apply Igv|intros v; apply inv_ret].
      + intros s _. apply replays_bind; [|intros kv; destruct (existsb _ _); apply replays_ret].
        apply replays_bind; [apply Hgv; assumption|intros k].
        apply replays_bind; [apply Hgv; assumption|intros v; apply replays_ret].
    - (* GMapV *) apply replays_bind; [|intros; apply replays_ret].
      apply replays_rep_loop; [|lia|discriminate]. intros acc. unfold map_body. split.
      + apply inv_bind; [|intros kv; destruct (existsb _ _); apply inv_ret].
        apply inv_bind; [apply Igv|intros v; apply inv_ret].
      + intros s _. apply replays_bind; [|intros kv; destruct (existsb _ _); apply replays_ret].
        apply replays_bind; [apply Hgv; assumption|intros v; apply replays_ret].
    - (* GPerm *) apply replays_bind; [|intros; apply replays_ret].
      apply replays_rep_loop; [|lia|discriminate]. intros [i l]. unfold perm_body. split.
      + apply inv_bind; [apply inv_genUintRange|intros; apply inv_ret].
      + intros s _. apply replays_bind; [apply replays_genUintRange; exact HLF|intros; apply replays_ret].
    - (* GFilter *) apply replays_find; [|unfold c_small; lia]. split.
      + apply inv_bind; [apply Igv|intros; apply inv_ret].
      + intros s _. apply replays_bind; [apply Hgv; assumption|intros; apply replays_ret].
    - (* GMapFn *) apply replays_bind; [apply Hgv; assumption|intros; apply replays_ret].
    - (* GCustom *) apply replays_find; [|unfold c_small; lia]. apply att_ok_custom; [apply Ip|assumption].
    - (* GDeferred *) apply Hgv; assumption.
    - (* PRet *) apply replays_ret.
    - (* PDraw *) apply replays_bind; [apply Hgv; assumption|intros v].
      apply replays_bind; [|intros _; apply H0].
      intros s _ _ c. constructor; cbn; auto.
    - (* PFail *) apply replays_bind; [apply replays_signal|intros _].
      destruct kind; [assumption|apply replays_throw|apply replays_throw].
    - (* PSkip *) apply replays_bind; [apply replays_emit_u|intros _; apply replays_throw].
    - (* PCleanup *) apply replays_bind; [apply replays_register|intros _; assumption].
    - (* PContext *) apply replays_bind; [apply replays_context_call|intros b]. apply H.
    - (* PFailed *) apply replays_bind; [apply replays_get_ts|intros t].
      apply replays_bind; [apply replays_emit_u|intros _; apply H].
    - (* PLog *) apply replays_bind; [apply replays_emit_u|intros _; assumption].
    - (* PRepeat *) destruct nacts; [apply H1|].
      apply replays_bind; [|intros sfin; apply H1].
      apply replays_run_repeat.
      + intros i st. apply Ip.
      + intros i st. apply H0.
      + intros st. destruct haschk; [|apply inv_ret].
        apply inv_bind; [apply inv_emit_u|intros _]. apply inv_bind; [apply Ip|intros; apply inv_ret].
      + intros st. destruct haschk; [|apply replays_ret].
        apply replays_bind; [apply replays_emit_u|intros _]. apply replays_bind; [apply H|intros; apply replays_ret].
  Qed.
End InterpReplay.
