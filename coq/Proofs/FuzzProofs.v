From Coq Require Import Lia ZArith ZifyNat.
Ltac Zify.zify_post_hook ::= Z.div_mod_to_equations.
Arguments Nat.div : simpl never.
Require Import Rapid.Model.Base Rapid.Model.Syntax Rapid.Model.Monad Rapid.Model.Engine.
Require Import Rapid.Proofs.Frame Rapid.Proofs.Prefix.
Local Open Scope nat_scope.

Lemma words_length_gen : forall fuel bs, length bs < fuel -> length (words_of_bytes fuel bs) = (length bs + 7) / 8.
Proof.
  induction fuel as [|f IH]; intros bs H; [lia|].
  destruct bs as [|b bs']; [reflexivity|].
  cbn [words_of_bytes length]. rewrite IH.
  - rewrite skipn_length. cbn [length]. lia.
  - rewrite skipn_length. cbn [length] in *. lia.
Qed.
Lemma words_length bs : length (words_of_bytes (S (length bs)) bs) = (length bs + 7) / 8.
Proof. apply words_length_gen. lia. Qed.

Lemma skipn_skipn_add A (l : list A) : forall b a, skipn a (skipn b l) = skipn (b + a) l.
Proof.
  revert l. intros l b. revert l. induction b as [|b IH]; intros l a; [reflexivity|].
  destruct l as [|x l]; [rewrite !skipn_nil; reflexivity|]. cbn [skipn Nat.add]. apply IH.
Qed.
Lemma words_nth_gen : forall fuel bs i, length bs < fuel -> i < (length bs + 7) / 8 ->
  nth i (words_of_bytes fuel bs) 0%N = le_word (firstn 8 (skipn (8 * i) bs)) 0.
Proof.
  induction fuel as [|f IH]; intros bs i H Hi; [lia|].
  destruct bs as [|b bs']; [cbn in Hi; lia|].
  cbn [words_of_bytes]. destruct i as [|i'].
  - reflexivity.
  - cbn [nth]. rewrite IH.
    + replace (8 * S i') with (8 + 8 * i') by lia. rewrite skipn_skipn_add. reflexivity.
    + rewrite skipn_length. cbn [length] in *. lia.
    + rewrite skipn_length. cbn [length] in *. lia.
Qed.

Lemma words_nth bs i : i < (length bs + 7) / 8 ->
  nth i (words_of_bytes (S (length bs)) bs) 0%N = le_word (firstn 8 (skipn (8 * i) bs)) 0.
Proof. apply words_nth_gen. lia. Qed.

Lemma fuzz_faithful geom LF lvl p bs :
  let o := checkOnce geom LF lvl p (start (SBuf (words_of_bytes (S (length bs)) bs))) in
  checkFuzz geom LF lvl p bs = (status_of (res o), o) /\
  (status_of (res o) = FPass <-> exists u, res o = Ok u) /\
  (status_of (res o) = FSkip <-> exists m, res o = Err (XInvalid m)) /\
  (status_of (res o) = FFail <-> exists m s, res o = Err (XStop m s) \/ res o = Err (XPanic m s)).
Proof.
  cbv zeta. split; [reflexivity|].
  destruct (res _) as [u|[m|m s|m s|]]; cbn; repeat split; intros H; try discriminate;
    try (destruct H as [? H]; discriminate); try (destruct H as [? [? [H|H]]]; discriminate); eauto.
Qed.
Lemma fuzz_total geom LF lvl p bs :
  res (snd (checkFuzz geom LF lvl p bs)) <> Err XFuel ->
  fst (checkFuzz geom LF lvl p bs) = FPass \/ fst (checkFuzz geom LF lvl p bs) = FSkip \/ fst (checkFuzz geom LF lvl p bs) = FFail.
Proof.
  unfold checkFuzz. cbn [fst snd]. destruct (res _) as [u|[m|m s|m s|]]; cbn; auto. congruence.
Qed.
Lemma fuzz_suffix geom LF lvl p (ws ext rest : list word) :
  let o := checkOnce geom LF lvl p (start (SBuf ws)) in
  src (post o) = SBuf rest -> rest <> [] ->
  let o' := checkOnce geom LF lvl p (start (SBuf (ws ++ ext))) in
  res o' = res o /\ w o' = w o /\ src (post o') = SBuf (rest ++ ext).
Proof.
  cbv zeta. intros Hr Hne. destruct (fp_checkOnce geom LF lvl p) as [_ F].
  pose proof (F (start (SBuf ws)) ws ext rest eq_refl Hr Hne) as E.
  change (with_src (start (SBuf ws)) (SBuf (ws ++ ext))) with (start (SBuf (ws ++ ext))) in E.
  rewrite E. cbn. auto.
Qed.
