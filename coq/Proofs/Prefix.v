(* What a run on a buffer records is, word for word, a masked prefix of the buffer; what is left of
   the buffer is the corresponding suffix.  Consequence: recorded data (and the pruned recording)
   is shortlex-below-or-equal the buffer - the assertion in accept() cannot fire. *)
From Coq Require Import Lia.
Require Import Rapid.Model.Base Rapid.Model.Syntax Rapid.Model.Monad Rapid.Model.Prim Rapid.Model.Interp Rapid.Model.Engine.
Require Import Rapid.Proofs.Inv Rapid.Proofs.Closure.
Local Open Scope nat_scope.
Arguments mask : simpl never.

Definition PFX {A} (m : M A) : Prop :=
  forall s l, src s = SBuf l ->
  exists l1 rest, l = l1 ++ rest /\ src (post (m s)) = SBuf rest /\ Forall2 N.le (rd (w (m s))) l1.

Lemma pfx_state A (m : M A) :
  (forall s, src (post (m s)) = src s /\ rd (w (m s)) = []) -> PFX m.
Proof.
  intros H s l Hs. destruct (H s) as [H1 H2]. exists [], l. rewrite H1, H2. repeat split; auto.
Qed.

Lemma mask_le n x : (mask n x <= x)%N.
Proof.
  unfold mask. destruct (N.eq_dec x 0) as [->|Hx]; [rewrite N.land_0_l; lia|].
  apply N.le_ngt. intros Hlt.
  (* land a b <= a : via bits *)
  assert (H : (N.land x (N.ones (N.of_nat (Nat.min n 64))) <= x)%N).
  { rewrite N.land_ones. apply N.mod_le. apply N.pow_nonzero. discriminate. }
  lia.
Qed.

Lemma pfx_bind A B (m : M A) (f : A -> M B) : PFX m -> (forall a, PFX (f a)) -> PFX (bind m f).
Proof.
  intros Hm Hf s l Hs. unfold bind. destruct (Hm s l Hs) as [l1 [r1 [E1 [S1 F1]]]].
  destruct (res (m s)) as [a|e].
  - destruct (Hf a (post (m s)) r1 S1) as [l2 [r2 [E2 [S2 F2]]]].
    exists (l1 ++ l2), r2. cbn. repeat split.
    + rewrite E1, E2, app_assoc. reflexivity.
    + exact S2.
    + apply Forall2_app; assumption.
  - exists l1, r1. cbn. auto.
Qed.

Lemma pfx_try A B (m : M A) (h : result A -> M B) : PFX m -> (forall r, PFX (h r)) -> PFX (try_ m h).
Proof.
  intros Hm Hh s l Hs. unfold try_. destruct (Hm s l Hs) as [l1 [r1 [E1 [S1 F1]]]].
  destruct (Hh (res (m s)) (post (m s)) r1 S1) as [l2 [r2 [E2 [S2 F2]]]].
  exists (l1 ++ l2), r2. cbn. repeat split.
  - rewrite E1, E2, app_assoc. reflexivity.
  - exact S2.
  - apply Forall2_app; assumption.
Qed.
Lemma pfx_try_w A B (m : M A) (h : result A -> wr -> M B) : PFX m -> (forall r x, PFX (h r x)) -> PFX (try_w m h).
Proof.
  intros Hm Hh s l Hs. unfold try_w. destruct (Hm s l Hs) as [l1 [r1 [E1 [S1 F1]]]].
  destruct (Hh (res (m s)) (w (m s)) (post (m s)) r1 S1) as [l2 [r2 [E2 [S2 F2]]]].
  exists (l1 ++ l2), r2. cbn. repeat split.
  - rewrite E1, E2, app_assoc. reflexivity.
  - exact S2.
  - apply Forall2_app; assumption.
Qed.

Lemma pfx_drawBits n : PFX (drawBits n).
Proof.
  intros s l Hs. unfold drawBits. rewrite Hs. destruct l as [|x l'].
  - exists [], []. cbn. auto.
  - exists [x], l'. cbn. repeat split; auto. constructor; [apply mask_le|constructor].
Qed.

Lemma rd_wkeep a : rd (wkeep a) = rd a.
Proof. unfold wkeep. destruct (rpd a); reflexivity. Qed.

Lemma pfx_group_d A sa (m : M (A * bool)) : PFX m -> PFX (group_d sa m).
Proof.
  intros Hm s l Hs. unfold group_d. destruct (Hm s l Hs) as [l1 [r1 [E1 [S1 F1]]]].
  destruct (res (m s)) as [[a d]|e].
  - destruct d.
    + exists l1, r1. cbn. rewrite app_nil_r. auto.
    + destruct (rd (w (m s))) as [|x0 l0] eqn:E.
      * exists l1, r1. cbn. rewrite app_nil_r, ?E. try rewrite E in F1. auto.
      * exists l1, r1. cbn. rewrite app_nil_r, rd_wkeep, ?E. try rewrite E in F1. auto.
  - exists l1, r1. cbn. rewrite app_nil_r. auto.
Qed.

Lemma pfx_fresh A (m : M A) : PFX m -> PFX (with_fresh_T m).
Proof.
  intros Hm s l Hs. unfold with_fresh_T.
  destruct (Hm (with_ts s fresh_t) l Hs) as [l1 [r1 [E1 [S1 F1]]]].
  exists l1, r1. cbn. auto.
Qed.

Ltac pfx_prim := apply pfx_state; intros s0; split; reflexivity.
Theorem pfx_checkOnce geom LF lvl p : PFX (checkOnce geom LF lvl p).
Proof.
  apply (P_checkOnce (@PFX)); intros; try pfx_prim.
  - apply pfx_bind; assumption.
  - apply pfx_state. intros s0. unfold signal. destruct k; split; reflexivity.
  - apply pfx_state. intros s0. unfold context_call. destruct (ctx (ts s0)); [|destruct (cleaning (ts s0))]; split; reflexivity.
  - apply pfx_state. intros s0. unfold pop_cleanup. destruct (cleanups (ts s0)) as [|[i c] r]; [|destruct (cleaning (ts s0))]; split; reflexivity.
  - apply pfx_state. intros s0. unfold failOnError. destruct (failed (ts s0)); split; reflexivity.
  - apply pfx_drawBits.
  - apply pfx_group_d; assumption.
  - apply pfx_try; assumption.
  - apply pfx_try_w; assumption.
  - apply pfx_fresh; assumption.
Qed.
