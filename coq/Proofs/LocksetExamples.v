(* LocksetExamples.v -- non-vacuity: the hypotheses of lockset_sound are satisfiable together, the
   notion of race is satisfiable, a table of the shape of defect D7 is rejected, and the transition
   system of Conc.v has the runs one expects. *)
From Coq Require Import List Arith Bool Lia String.
From Rapid Require Import Model.Lockset Model.Conc Proofs.LocksetProofs Proofs.ConcProofs.
Import ListNotations.
Local Open Scope string_scope.
Local Open Scope list_scope.

(* ---- a protected pair: fail writes, Failed reads, under one RWMutex ---- *)

Definition ex_tbl : table :=
  [("fail", [ILocked 0 MW [IAcc 3 true]]); ("Failed", [ILocked 0 MR [IAcc 3 false]])].

Definition ex_tr : trace :=
  [(1, Acq 0 MW); (1, Acc 3 true); (1, Rel 0 MW); (2, Acq 0 MR); (2, Acc 3 false); (2, Rel 0 MR)].

Lemma ex_tbl_ok : table_ok ex_tbl = true.
Proof. vm_compute. reflexivity. Qed.

Lemma nth_error_nil_none {A} n : @nth_error A [] n = None.
Proof. destruct n; reflexivity. Qed.

Lemma ex_tr_wf : wf_trace ex_tr.
Proof.
  split.
  - intros mu. unfold ex_tr. destruct mu as [|mu]; cbn; discriminate.
  - split.
    + intros o i j t t' Hi Hj. exfalso.
      do 7 (destruct i as [|i]; cbn in Hi; try discriminate).
    + intros o j t Hj. exfalso.
      do 7 (destruct j as [|j]; cbn in Hj; try discriminate).
Qed.

Lemma ex_tr_conforms : conforms ex_tbl ex_tr.
Proof.
  intros t.
  destruct t as [|[|[|t]]].
  - exists [], []. split; [constructor|reflexivity].
  - exists [Acq 0 MW; Acc 3 true; Rel 0 MW], []. split; [|reflexivity].
    change [Acq 0 MW; Acc 3 true; Rel 0 MW] with ([Acq 0 MW; Acc 3 true; Rel 0 MW] ++ []).
    eapply et_call with (name := "fail"); [left; reflexivity| |constructor].
    change [Acq 0 MW; Acc 3 true; Rel 0 MW] with ((Acq 0 MW :: [Acc 3 true] ++ [Rel 0 MW]) ++ []).
    apply el_do; [|apply el_stop]. apply ei_locked.
    change [Acc 3 true] with ([Acc 3 true] ++ []). apply el_do; [constructor|apply el_stop].
  - exists [Acq 0 MR; Acc 3 false; Rel 0 MR], []. split; [|reflexivity].
    change [Acq 0 MR; Acc 3 false; Rel 0 MR] with ([Acq 0 MR; Acc 3 false; Rel 0 MR] ++ []).
    eapply et_call with (name := "Failed"); [right; left; reflexivity| |constructor].
    change [Acq 0 MR; Acc 3 false; Rel 0 MR] with ((Acq 0 MR :: [Acc 3 false] ++ [Rel 0 MR]) ++ []).
    apply el_do; [|apply el_stop]. apply ei_locked.
    change [Acc 3 false] with ([Acc 3 false] ++ []). apply el_do; [constructor|apply el_stop].
  - exists [], []. split; [constructor|reflexivity].
Qed.

(* the two conflicting accesses (positions 1 and 4) are ordered *)
Lemma ex_tr_ordered : hb ex_tr 1 4.
Proof.
  apply hb_trans with 2; [eapply hb_po; [|reflexivity|reflexivity]; lia|].
  apply hb_trans with 3; [|eapply hb_po; [|reflexivity|reflexivity]; lia].
  apply hb_sw; [lia|]. exists 1, 2, (Rel 0 MW), (Acq 0 MR). cbn. auto.
Qed.

Lemma ex_tr_no_race : forall i j, ~ race ex_tr i j.
Proof. exact (lockset_sound ex_tbl ex_tr ex_tbl_ok ex_tr_wf ex_tr_conforms). Qed.

(* ---- an unprotected pair is a race, and the table check rejects it ---- *)

Definition bad_tbl : table := [("w", [IAcc 0 true]); ("r", [IAcc 0 false])].
Definition bad_tr : trace := [(1, Acc 0 true); (2, Acc 0 false)].

Lemma bad_tbl_rejected : table_ok bad_tbl = false.
Proof. vm_compute. reflexivity. Qed.

Lemma bad_tr_no_hb : forall i j, ~ hb bad_tr i j.
Proof.
  intros i j H. induction H as [i j t o1 o2 Hlt Hi Hj|i j Hlt Hsw|i j k _ IH1 _ IH2].
  - destruct i as [|[|i]]; cbn in Hi; try (rewrite nth_error_nil_none in Hi); try discriminate;
      destruct j as [|[|j]]; cbn in Hj; try (rewrite nth_error_nil_none in Hj); try discriminate;
      try lia; congruence.
  - destruct Hsw as [t1 [t2 [o1 [o2 [Hi [Hj Hm]]]]]].
    destruct i as [|[|i]]; cbn in Hi; try (rewrite nth_error_nil_none in Hi); try discriminate;
      destruct j as [|[|j]]; cbn in Hj; try (rewrite nth_error_nil_none in Hj); try discriminate;
      inversion Hi; inversion Hj; subst; exact Hm.
  - exact IH1.
Qed.

Lemma bad_tr_races : wf_trace bad_tr /\ conforms bad_tbl bad_tr /\ race bad_tr 0 1.
Proof.
  split; [|split].
  - split.
    + intros mu. destruct mu as [|mu]; cbn; discriminate.
    + split.
      * intros o i j t t' Hi. exfalso. do 3 (destruct i as [|i]; cbn in Hi; try discriminate).
      * intros o j t Hj. exfalso. do 3 (destruct j as [|j]; cbn in Hj; try discriminate).
  - intros t. destruct t as [|[|[|t]]].
    + exists [], []. split; [constructor|reflexivity].
    + exists [Acc 0 true], []. split; [|reflexivity].
      change [Acc 0 true] with ([Acc 0 true] ++ []).
      eapply et_call with (name := "w"); [left; reflexivity| |constructor].
      change [Acc 0 true] with ([Acc 0 true] ++ []). apply el_do; [constructor|apply el_stop].
    + exists [Acc 0 false], []. split; [|reflexivity].
      change [Acc 0 false] with ([Acc 0 false] ++ []).
      eapply et_call with (name := "r"); [right; left; reflexivity| |constructor].
      change [Acc 0 false] with ([Acc 0 false] ++ []). apply el_do; [constructor|apply el_stop].
    + exists [], []. split; [constructor|reflexivity].
  - exists 1, 2, (Acc 0 true), (Acc 0 false), (0, true, false), (0, false, false).
    repeat split; try reflexivity; try lia; try discriminate. apply bad_tr_no_hb.
Qed.

(* ---- the shape of defect D7: a label cached under a Once, read elsewhere without the Once ---- *)

Definition d7_tbl : table :=
  [("String", [IOnce 0 [IAcc 1 true]; IAcc 1 false]);    (* strOnce.Do(func(){ g.str = ... }); return g.str *)
   ("value", [IAcc 1 false])].                            (* beginGroup(g.str, ...) *)
Definition d7_fixed : table :=
  [("String", [IOnce 0 [IAcc 1 true]; IAcc 1 false]);
   ("value", [IOnce 0 [IAcc 1 true]; IAcc 1 false])].     (* beginGroup(g.String(), ...) *)

Lemma d7_rejected : table_ok d7_tbl = false /\ bad_rows d7_tbl = ["String"; "value"].
Proof. vm_compute. split; reflexivity. Qed.
Lemma d7_fixed_ok : table_ok d7_fixed = true.
Proof. vm_compute. reflexivity. Qed.

(* a Once-ordered pair in a concrete trace: goroutine 1 runs the function, goroutine 2 finds it done *)
Definition once_tr : trace :=
  [(1, OnceBegin 0); (1, Acc 1 true); (1, OnceEnd 0); (1, OnceDone 0); (2, OnceDone 0); (2, Acc 1 false)].

Lemma once_tr_ordered : hb once_tr 1 5.
Proof.
  apply hb_trans with 2; [eapply hb_po; [|reflexivity|reflexivity]; lia|].
  apply hb_trans with 4; [|eapply hb_po; [|reflexivity|reflexivity]; lia].
  apply hb_sw; [lia|]. exists 1, 2, (OnceEnd 0), (OnceDone 0). cbn. auto.
Qed.

(* ---- runs of the transition system ---- *)

Ltac cstep_tac :=
  match goal with
  | |- cstep (mkC ?s ?p ?k) ?l _ =>
    lazymatch l with
    | LFail ?t ?m => apply (s_fail s p k t m)
    | LFailed ?t _ => apply (s_failed s p k t)
    | LFailOnError ?t _ => apply (s_fail_on_error s p k t)
    | LReg ?t _ => apply (s_reg s p k t)
    | LCtxFast ?t (Some ?c) => apply (s_ctx_fast_hit s p k t c); reflexivity
    | LCtxFast ?t None => apply (s_ctx_fast_miss s p k t); reflexivity
    | LCtxLoad ?t None => apply (s_ctx_load_clear s p k t); reflexivity
    | LCtxLoad ?t (Some _) => apply (s_ctx_load_cleaning s p k t); reflexivity
    | LCtxSlow ?t ?c false => apply (s_ctx_slow_found s p k t c); reflexivity
    | LCtxSlow ?t _ true => apply (s_ctx_slow_create s p k t); reflexivity
    | LKStore => apply (s_k_store s p)
    | LKCancel None => apply (s_k_cancel_none s p); reflexivity
    | LKCancel (Some ?c) => apply (s_k_cancel_some s p c); reflexivity
    | LKPop (Some ?f) => apply (s_k_pop_some s p (removelast (cleanups s)) f); reflexivity
    | LKPop None => apply (s_k_pop_none s p); reflexivity
    | LKRan ?f false => apply (s_k_ran_ok s p f)
    | LKRan ?f true => apply (s_k_ran_panic s p f)
    | LKCheck true => apply (s_k_check_recurse s p); discriminate
    | LKCheck false => apply (s_k_check_done s p); reflexivity
    | LKEnd => apply (s_k_end s p)
    end
  end.
Ltac run_tac := unfold init; repeat (eapply cs_cons; [cstep_tac|]); apply cs_nil.

(* goroutine 1 fails with message 7, goroutine 2 then sees it *)
Lemma ex_run_fail : exists s, csteps init [LFail 1 7; LFailed 2 true; LFailOnError 0 true] s /\ failed (st s) = 7.
Proof. eexists. split; [run_tac|reflexivity]. Qed.

(* two registrations by different goroutines, one more from inside a running cleanup function;
   cleanup pops and runs all three and leaves after seeing the stack empty *)
Definition ex_labels_cleanup : list label :=
  [LReg 1 0; LReg 2 1; LKStore; LKCancel None; LKPop (Some 1); LReg 3 2; LKRan 1 false;
   LKPop (Some 2); LKRan 2 false; LKPop (Some 0); LKRan 0 false; LKPop None; LKCheck false; LKEnd].

Lemma ex_run_cleanup : exists s, csteps init ex_labels_cleanup s /\ cleanups (st s) = [] /\ kpc s = KIdle.
Proof. eexists. split; [unfold ex_labels_cleanup; run_tac|split; reflexivity]. Qed.

(* two goroutines race through Context(): both miss the fast path, both pass the cleaning test,
   one creates the context and the other finds it in the locked re-check: same context; then
   cleanup cancels it, and a late Context() call gets a cancelled context *)
Definition ex_labels_ctx : list label :=
  [LCtxFast 1 None; LCtxFast 2 None; LCtxLoad 2 None; LCtxLoad 1 None; LCtxSlow 2 0 true; LCtxSlow 1 0 false;
   LCtxFast 3 (Some 0); LKStore; LKCancel (Some 0); LCtxFast 4 None; LCtxLoad 4 (Some 1)].

Lemma ex_run_ctx : exists s, csteps init ex_labels_ctx s /\ ctx (st s) = None /\ cancelled (st s) = [1; 0].
Proof. eexists. split; [unfold ex_labels_ctx; run_tac|split; reflexivity]. Qed.
