(* The shrinker: accept() keeps an invariant, every accepted candidate is strictly shortlex-smaller and
   fails at the same site, the internal assertion and the "flaky" abort cannot happen, and - with replay
   after prune - the buffer the shrinker returns fails with the error it returns. *)
From Coq Require Import Lia.
Require Import Rapid.Model.Base Rapid.Model.Syntax Rapid.Model.Monad Rapid.Model.Prim Rapid.Model.Interp
  Rapid.Model.Engine Rapid.Model.Groups Rapid.Model.Shrink.
Require Import Rapid.Proofs.Inv Rapid.Proofs.Closure Rapid.Proofs.Prefix Rapid.Proofs.Shortlex
  Rapid.Proofs.Replay Rapid.Proofs.ReplayTop.
Local Open Scope nat_scope.

Lemma msg_eqb_refl m : msg_eqb m m = true.
Proof. destruct m; cbn; auto. apply N.eqb_refl. Qed.
Lemma site_eqb_refl s : site_eqb s s = true.
Proof. destruct s; cbn; auto using Nat.eqb_refl, msg_eqb_refl. Qed.
Lemma exn_eqb_refl e : exn_eqb e e = true.
Proof. destruct e; cbn; rewrite ?msg_eqb_refl, ?site_eqb_refl; reflexivity. Qed.
Lemma msg_eqb_eq a b : msg_eqb a b = true -> a = b.
Proof. destruct a, b; cbn; try discriminate; auto. intros H. apply N.eqb_eq in H. congruence. Qed.
Lemma site_eqb_eq a b : site_eqb a b = true -> a = b.
Proof.
  destruct a, b; cbn; try discriminate; auto; intros H;
    try (apply Nat.eqb_eq in H; congruence). apply msg_eqb_eq in H. congruence.
Qed.

(* INV and the sublist clause for checkOnce *)
Definition SUB {A} (m : M A) : Prop := forall s, sublist (rpd (w (m s))) (rd (w (m s))).
Lemma sub_checkOnce geom LF lvl p : SUB (checkOnce geom LF lvl p).
Proof.
  apply (P_checkOnce (@SUB)); unfold SUB; intros; cbn; try apply sub_nil.
  - unfold bind. destruct (res (m s)); cbn; [apply sublist_app|]; auto.
  - unfold signal. destruct k; cbn; apply sub_nil.
  - unfold context_call. destruct (ctx (ts s)); [|destruct (cleaning (ts s))]; cbn; apply sub_nil.
  - unfold pop_cleanup. destruct (cleanups (ts s)) as [|[i c] r]; [|destruct (cleaning (ts s))]; cbn; apply sub_nil.
  - unfold failOnError. destruct (failed (ts s)); cbn; apply sub_nil.
  - unfold drawBits. destruct (src s) as [[|x l0]|j]; cbn; try apply sub_nil; try apply sublist_refl.
    destruct (Nat.leb n 64); [destruct (jsf_rand j)|]; cbn; apply sublist_refl.
  - unfold group_d. destruct (res (m s)) as [[a d]|e]; [destruct d|].
    + cbn. apply sublist_nil_l.
    + destruct (wkeep_proj (w (m s))) as [K1 [K2 _]].
      pose proof (H s) as Hs.
      destruct (rd (w (m s))) as [|x0 l0] eqn:E; cbn [w rd rpd wapp wgev app]; rewrite ?app_nil_r, ?K1, ?K2, ?E; exact Hs.
    + cbn [w rd rpd wapp wgev app]. rewrite !app_nil_r. apply H.
  - unfold try_. cbn. apply sublist_app; auto.
  - unfold try_w. cbn. apply sublist_app; auto.
  - unfold with_fresh_T. cbn. apply H.
Qed.

Section ShrinkProofs.
  Variable geom : nat -> N -> N.
  Variable LF : nat.
  Hypothesis HLF : 1 <= LF.
  Variable lvl : nat.
  Variable p : prog.
  Notation run := (run_case geom LF lvl p).
  Notation accept := (accept geom LF lvl p).
  Notation shrink_any := (shrink_any geom LF lvl p).

  (* what a run on a buffer records (and keeps after pruning) is shortlex <= the buffer *)
  Lemma recorded_le buf : sl_le (rd (w (run (SBuf buf)))) buf.
  Proof.
    destruct (pfx_checkOnce geom LF lvl p (start (SBuf buf)) buf eq_refl) as [l1 [rest [E [_ F]]]].
    subst buf. apply sl_le_prefix_pointwise. exact F.
  Qed.
  Lemma pruned_le buf : sl_le (rpd (w (run (SBuf buf)))) buf.
  Proof.
    eapply sl_le_trans; [apply sl_le_sublist, sub_checkOnce|apply recorded_le].
  Qed.

  (* the failure the shrinker started from *)
  Variable site0 : site.
  Variable data0 : list word.

  Definition failing (r : result unit) : Prop := tb_of r = TSite site0.
  (* the shrinker's state describes a real failing run at the original site, not above the start *)
  Definition Inv (s : sst) : Prop :=
    (exists x, s_data s = rpd (w (run x)) /\ s_err s = res (run x)) /\ failing (s_err s) /\ sl_le (s_data s) data0.

  Lemma tbk_eqb_site r s : tbk_eqb (tb_of r) (TSite s) = true -> tb_of r = TSite s.
  Proof.
    destruct r as [u|[]]; cbn; try discriminate. 
    - intros H. apply site_eqb_eq in H. congruence.
    - intros H. apply site_eqb_eq in H. congruence.
  Qed.
  Lemma res_eqb_refl r : res_eqb r r = true.
  Proof. destruct r; cbn; auto using exn_eqb_refl. Qed.

  Theorem accept_step s c s' r : Inv s -> accept s c = (s', r) ->
    Inv s' /\
    (r = AccYes -> sl_lt (s_data s') (s_data s) /\ sl_le (s_data s') c /\ s_shrinks s' = S (s_shrinks s)) /\
    (r = AccNo -> s_data s' = s_data s /\ s_err s' = s_err s /\ s_shrinks s' = s_shrinks s) /\
    (r = AccYes \/ r = AccNo).
  Proof.
    intros [[x [Hd He]] [Hf Hle]] H. unfold Shrink.accept in H.
    assert (Hkeep : Inv s) by (split; [exists x; auto|split; assumption]).
    assert (Hno : (s, AccNo) = (s', r) ->
      Inv s' /\
      (r = AccYes -> sl_lt (s_data s') (s_data s) /\ sl_le (s_data s') c /\ s_shrinks s' = S (s_shrinks s)) /\
      (r = AccNo -> s_data s' = s_data s /\ s_err s' = s_err s /\ s_shrinks s' = s_shrinks s) /\
      (r = AccYes \/ r = AccNo)).
    { intros E. injection E as <- <-. split; [exact Hkeep|]. split; [discriminate|]. split; auto. }
    destruct (compareData c (s_data s)) eqn:Ecmp; [apply Hno; exact H| |apply Hno; exact H].
    destruct (existsb _ _); [apply Hno; exact H|].
    destruct (negb _) eqn:Etb.
    - injection H as <- <-. cbn. repeat split; auto; try discriminate. exists x; auto.
    - apply negb_false_iff in Etb. rewrite Hf in Etb. apply tbk_eqb_site in Etb.
      pose proof (pruned_le c) as Hpl.
      destruct (compareData (rpd (w (run (SBuf c)))) c) eqn:Ec2; try (exfalso; apply Hpl; exact Ec2);
        rewrite res_eqb_refl in H; injection H as <- <-; cbn;
        (split; [split; [exists (SBuf c); split; reflexivity|split; [exact Etb|]]|]).
      + eapply sl_le_trans; [exact Hpl|]. eapply sl_le_trans; [apply sl_lt_le; exact Ecmp|exact Hle].
      + repeat split; auto; try discriminate. eapply sl_le_lt_trans; [exact Hpl|exact Ecmp].
      + eapply sl_le_trans; [exact Hpl|]. eapply sl_le_trans; [apply sl_lt_le; exact Ecmp|exact Hle].
      + repeat split; auto; try discriminate. eapply sl_le_lt_trans; [exact Hpl|exact Ecmp].
  Qed.

  (* any candidate sequence, any clock: invariant kept, never above the start, no abort *)
  Theorem shrink_any_inv : forall cands clock k s s' ab,
    Inv s -> shrink_any cands clock k s = (s', ab) ->
    Inv s' /\ ab = None /\ sl_le (s_data s') (s_data s) /\ s_shrinks s <= s_shrinks s'.
  Proof.
    induction cands as [|c cs IH]; intros clock k s s' ab HI H; cbn [Shrink.shrink_any] in H.
    - injection H as <- <-. split; [exact HI|split; [reflexivity|split; [apply sl_le_refl|lia]]].
    - destruct (clock k); [|injection H as <- <-; split; [exact HI|split; [reflexivity|split; [apply sl_le_refl|lia]]]].
      destruct (accept s c) as [s1 r] eqn:Ea.
      destruct (accept_step s c s1 r HI Ea) as [HI1 [Hy [Hn Hr]]].
      destruct Hr as [-> | ->].
      + destruct (Hy eq_refl) as [Hlt [_ Hsh]].
        destruct (IH clock (S k) s1 s' ab HI1 H) as [A [B [C D]]].
        split; [exact A|split; [exact B|split; [eapply sl_le_trans; [exact C|apply sl_lt_le; exact Hlt]|lia]]].
      + destruct (Hn eq_refl) as [Hd [_ Hsh]].
        destruct (IH clock (S k) s1 s' ab HI1 H) as [A [B [C D]]].
        split; [exact A|split; [exact B|split; [rewrite <- Hd; exact C|lia]]].
  Qed.

  (* with replay-after-prune: what the shrinker returns is a real counterexample *)
  Theorem inv_reproduces s : Inv s ->
    (forall x, dirty (w (run x)) = false) ->
    res (run (SBuf (s_data s))) = s_err s /\
    rd (w (run (SBuf (s_data s)))) = s_data s /\ rpd (w (run (SBuf (s_data s)))) = s_data s.
  Proof.
    intros [[x [Hd He]] [Hf _]] Hclean.
    assert (Hg : good (res (run x))).
    { rewrite <- He. unfold failing in Hf. destruct (s_err s) as [u|[]]; cbn in Hf; try discriminate; exact I. }
    pose proof (replay_pruned_case geom LF HLF lvl p x [] Hg (Hclean x)) as R. cbv zeta in R.
    rewrite app_nil_r in R. destruct R as [R1 [R2 [R3 [R4 _]]]].
    unfold Shrink.run_case. rewrite Hd, He. repeat split; assumption.
  Qed.
End ShrinkProofs.
