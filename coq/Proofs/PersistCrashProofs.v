(* Crash atomicity of saveFailFile in the one-directory model (Model/FS.v): after any prefix of the
   operation list, every file the discovery glob finds is an old one (unchanged) or the complete new
   one; files with other names are never touched; the full list leaves the final file and no temp. *)
From Coq Require Import List NArith Bool Lia Arith.
Import ListNotations.
Require Import Rapid.Model.Persist Rapid.Model.FS.
Require Import Rapid.Proofs.PersistProofs.
Open Scope N_scope.

Lemma bytes_eqb_sym a b : bytes_eqb a b = bytes_eqb b a.
Proof.
  destruct (bytes_eqb a b) eqn:E.
  - apply bytes_eqb_eq in E. subst. symmetry. apply bytes_eqb_refl.
  - symmetry. apply bytes_eqb_neq. apply bytes_eqb_neq in E. congruence.
Qed.

(* ---- look / upd / del ---- *)
Lemma del_absent n d : look n d = None -> del n d = d.
Proof.
  induction d as [|[m c] d IH]; cbn; [reflexivity|].
  destruct (bytes_eqb m n); [discriminate|]. intros H. rewrite IH by exact H. reflexivity.
Qed.

Lemma look_del_same n d : look n (del n d) = None.
Proof.
  induction d as [|[m c] d IH]; cbn; [reflexivity|].
  destruct (bytes_eqb m n) eqn:E; [exact IH|]. cbn. rewrite E. exact IH.
Qed.

Lemma look_del_other n k d : n <> k -> look n (del k d) = look n d.
Proof.
  intros H. induction d as [|[m c] d IH]; cbn; [reflexivity|].
  destruct (bytes_eqb m k) eqn:E.
  - apply bytes_eqb_eq in E. subst m. destruct (bytes_eqb k n) eqn:E2; [apply bytes_eqb_eq in E2; congruence|exact IH].
  - cbn. destruct (bytes_eqb m n); [reflexivity|exact IH].
Qed.

Lemma look_upd_other n k f d : n <> k -> look n (upd k f d) = look n d.
Proof.
  intros H. induction d as [|[m c] d IH]; cbn; [reflexivity|].
  destruct (bytes_eqb m k) eqn:E; cbn.
  - apply bytes_eqb_eq in E. subst m. destruct (bytes_eqb k n) eqn:E2; [apply bytes_eqb_eq in E2; congruence|reflexivity].
  - destruct (bytes_eqb m n); [reflexivity|exact IH].
Qed.

Lemma In_del e n d : In e (del n d) -> In e d.
Proof.
  induction d as [|[m c] d IH]; cbn; [tauto|].
  destruct (bytes_eqb m n); [intros H; right; apply IH; exact H|].
  intros [H|H]; [left; exact H|right; apply IH; exact H].
Qed.

Lemma matches_upd pat n f d : glob_match pat n = false -> matches pat (upd n f d) = matches pat d.
Proof.
  intros H. unfold matches. induction d as [|[m c] d IH]; cbn [upd]; [reflexivity|].
  destruct (bytes_eqb m n) eqn:E.
  - apply bytes_eqb_eq in E. subst m. cbn [filter fst]. rewrite H. reflexivity.
  - cbn [filter fst]. rewrite IH. reflexivity.
Qed.

Lemma In_matches pat e d : In e (matches pat d) <-> In e d /\ glob_match pat (fst e) = true.
Proof. unfold matches. apply filter_In. Qed.

(* an invariant kept by every operation of a list holds after every prefix *)
Lemma prefix_inv (Inv : fs -> Prop) ops :
  (forall d o, In o ops -> Inv d -> Inv (apply1 d o)) -> forall k d, Inv d -> Inv (apply_ops (firstn k ops) d).
Proof.
  induction ops as [|o ops IH]; intros Hstep k d Hd; [destruct k; exact Hd|].
  destruct k as [|k]; [exact Hd|]. cbn [firstn]. unfold apply_ops. cbn [fold_left].
  apply IH.
  - intros d' o' Hin. apply Hstep. right. exact Hin.
  - apply Hstep; [left; reflexivity|exact Hd].
Qed.

Lemma apply_ops_app a b d : apply_ops (a ++ b) d = apply_ops b (apply_ops a d).
Proof. unfold apply_ops. apply fold_left_app. Qed.

Lemma apply_writes tmp chunks c d :
  apply_ops (map (Write tmp) chunks) ((tmp, c) :: d) = (tmp, c ++ concat chunks) :: d.
Proof.
  revert c. induction chunks as [|b chunks IH]; intros c; cbn [map concat].
  - rewrite app_nil_r. reflexivity.
  - unfold apply_ops. cbn [fold_left apply1 upd]. rewrite bytes_eqb_refl.
    fold (apply_ops (map (Write tmp) chunks) ((tmp, c ++ b) :: d)). rewrite IH, app_assoc. reflexivity.
Qed.

Section Atomic.
  Variables (pat : list N) (dir tmp final : name) (chunks : list bytes) (d0 : fs).
  Hypothesis tmp_nomatch : glob_match pat tmp = false.
  Hypothesis final_match : glob_match pat final = true.
  Hypothesis tmp_fresh : look tmp d0 = None.            (* os.CreateTemp: O_EXCL on a name that does not exist *)

  Let content : bytes := concat chunks.
  Let ops : list fop := save_ops_chunks dir tmp final chunks.
  Let opsA : list fop := [MkdirAll dir; CreateExcl tmp] ++ map (Write tmp) chunks ++ [Close tmp].
  Let opsB : list fop := [Rename tmp final; Close tmp; Remove tmp].

  Lemma final_neq_tmp : final <> tmp.
  Proof. intros E. rewrite E in final_match. rewrite tmp_nomatch in final_match. discriminate. Qed.

  Lemma ops_split : ops = opsA ++ opsB.
  Proof. unfold ops, opsA, opsB, save_ops_chunks. rewrite <- !app_assoc. reflexivity. Qed.

  (* what a later run can discover: old files unchanged, or the complete new file *)
  Definition good (d : fs) : Prop :=
    forall n c, In (n, c) (matches pat d) -> In (n, c) (matches pat d0) \/ (n = final /\ c = content).

  Lemma phaseA_inv k : matches pat (apply_ops (firstn k opsA) d0) = matches pat d0.
  Proof.
    apply (prefix_inv (fun d => matches pat d = matches pat d0)); [|reflexivity].
    intros d o Hin Hd. unfold opsA in Hin.
    cbn [app] in Hin. destruct Hin as [<-|[<-|Hin]]; cbn [apply1].
    - exact Hd.
    - destruct (look tmp d); [exact Hd|]. cbn. rewrite tmp_nomatch. exact Hd.
    - apply in_app_or in Hin. destruct Hin as [Hin|[<-|[]]].
      + apply in_map_iff in Hin. destruct Hin as [b [<- _]]. cbn [apply1].
        rewrite matches_upd by exact tmp_nomatch. exact Hd.
      + exact Hd.
  Qed.

  Lemma phaseA_end : apply_ops opsA d0 = (tmp, content) :: d0.
  Proof.
    unfold opsA. rewrite apply_ops_app.
    assert (E : apply_ops [MkdirAll dir; CreateExcl tmp] d0 = (tmp, []) :: d0).
    { unfold apply_ops. cbn. rewrite tmp_fresh. reflexivity. }
    rewrite E, apply_ops_app, apply_writes. reflexivity.
  Qed.

  Lemma after_rename : apply1 ((tmp, content) :: d0) (Rename tmp final) = (final, content) :: del final d0.
  Proof.
    cbn. rewrite bytes_eqb_refl. rewrite (del_absent tmp d0 tmp_fresh). reflexivity.
  Qed.

  Lemma after_remove : del tmp ((final, content) :: del final d0) = (final, content) :: del final d0.
  Proof.
    cbn. destruct (bytes_eqb final tmp) eqn:E; [apply bytes_eqb_eq in E; exfalso; exact (final_neq_tmp E)|].
    rewrite del_absent; [reflexivity|]. rewrite look_del_other by (intros E2; apply final_neq_tmp; congruence).
    exact tmp_fresh.
  Qed.

  Lemma good_final_state : good ((final, content) :: del final d0).
  Proof.
    intros n c Hin. apply In_matches in Hin. destruct Hin as [[Hin|Hin] Hm].
    - inversion Hin; subst. right. split; reflexivity.
    - left. apply In_matches. split; [eapply In_del; exact Hin|exact Hm].
  Qed.

  Lemma phaseB_states k :
    apply_ops (firstn k opsB) ((tmp, content) :: d0) = (tmp, content) :: d0 \/
    apply_ops (firstn k opsB) ((tmp, content) :: d0) = (final, content) :: del final d0.
  Proof.
    unfold opsB. destruct k as [|[|[|k]]].
    - left. reflexivity.
    - right. cbn [firstn]. unfold apply_ops. cbn [fold_left]. apply after_rename.
    - right. cbn [firstn]. unfold apply_ops. cbn [fold_left]. rewrite after_rename. reflexivity.
    - right. replace (firstn (S (S (S k))) [Rename tmp final; Close tmp; Remove tmp])
        with [Rename tmp final; Close tmp; Remove tmp] by (destruct k; reflexivity).
      unfold apply_ops. cbn [fold_left]. rewrite after_rename. cbn [apply1]. apply after_remove.
  Qed.

  Lemma state_after k :
    (apply_ops (firstn k ops) d0 = apply_ops (firstn k opsA) d0) \/
    apply_ops (firstn k ops) d0 = (tmp, content) :: d0 \/
    apply_ops (firstn k ops) d0 = (final, content) :: del final d0.
  Proof.
    rewrite ops_split. rewrite firstn_app. rewrite apply_ops_app.
    destruct (Nat.le_gt_cases k (length opsA)) as [Hle|Hgt].
    - left. replace (k - length opsA)%nat with 0%nat by lia. reflexivity.
    - right. rewrite (firstn_all2 opsA) by lia. rewrite phaseA_end. apply phaseB_states.
  Qed.

  Theorem crash_atomic k : good (apply_ops (firstn k ops) d0).
  Proof.
    destruct (state_after k) as [E|[E|E]]; rewrite E.
    - intros n c Hin. left. rewrite phaseA_inv in Hin. exact Hin.
    - intros n c Hin. left. apply In_matches in Hin. destruct Hin as [[Hin|Hin] Hm].
      + inversion Hin; subst. cbn in Hm. rewrite tmp_nomatch in Hm. discriminate.
      + apply In_matches. split; assumption.
    - apply good_final_state.
  Qed.

  (* files with other names are never touched, at any crash point *)
  Theorem crash_others_untouched k n : n <> final -> n <> tmp -> look n (apply_ops (firstn k ops) d0) = look n d0.
  Proof.
    intros Hf Ht. apply (prefix_inv (fun d => look n d = look n d0)); [|reflexivity].
    intros d o Hin Hd. unfold ops, save_ops_chunks in Hin.
    assert (Htn : bytes_eqb tmp n = false) by (apply bytes_eqb_neq; congruence).
    assert (Hfn : bytes_eqb final n = false) by (apply bytes_eqb_neq; congruence).
    cbn [app] in Hin. destruct Hin as [<-|[<-|Hin]]; cbn [apply1].
    - exact Hd.
    - destruct (look tmp d); [exact Hd|]. cbn. rewrite Htn. exact Hd.
    - apply in_app_or in Hin. destruct Hin as [Hin|[<-|[<-|[<-|[<-|[]]]]]]; cbn [apply1].
      + apply in_map_iff in Hin. destruct Hin as [b [<- _]]. cbn [apply1].
        rewrite look_upd_other by exact Ht. exact Hd.
      + exact Hd.
      + destruct (look tmp d); [|exact Hd]. cbn. rewrite Hfn.
        rewrite !look_del_other by assumption. exact Hd.
      + exact Hd.
      + rewrite look_del_other by exact Ht. exact Hd.
  Qed.

  (* the uninterrupted save: the final file is there, complete, and the temporary name is gone *)
  Theorem save_complete :
    let d := apply_ops ops d0 in
    d = (final, content) :: del final d0 /\ look final d = Some content /\ look tmp d = None.
  Proof.
    cbv zeta. assert (E : apply_ops ops d0 = (final, content) :: del final d0).
    { rewrite ops_split, apply_ops_app, phaseA_end. unfold opsB, apply_ops. cbn [fold_left].
      rewrite after_rename. cbn [apply1]. apply after_remove. }
    rewrite E. split; [reflexivity|]. split.
    - cbn. rewrite bytes_eqb_refl. reflexivity.
    - cbn. destruct (bytes_eqb final tmp) eqn:E2; [apply bytes_eqb_eq in E2; exfalso; exact (final_neq_tmp E2)|].
      rewrite look_del_other by (intros E3; apply final_neq_tmp; congruence). exact tmp_fresh.
  Qed.

  Lemma full_prefix : apply_ops (firstn (length ops) ops) d0 = apply_ops ops d0.
  Proof. rewrite firstn_all. reflexivity. Qed.
End Atomic.

Lemma concat_save_chunks ver out seed buf : concat (save_chunks ver out seed buf) = save_bytes ver out seed buf.
Proof. reflexivity. Qed.
