(* The generator CONTRACT: whatever bits a generator expression consumes (any buffer of 64-bit words, or the
   PRNG from any seed), a value it returns satisfies the documented contract of that generator.  The statement
   is by structural recursion over arbitrarily nested generator expressions. *)
From Coq Require Import Lia ZArith Permutation FinFun.
Require Import Rapid.Model.Base Rapid.Model.Syntax Rapid.Model.Monad Rapid.Model.Prim Rapid.Model.Interp.
Require Import Rapid.Generated.Consts.
Require Import Rapid.Proofs.Inv Rapid.Proofs.RepeatProofs Rapid.Proofs.IntProofs.
Local Open Scope N_scope.
Arguments N.leb : simpl never.
Arguments N.ltb : simpl never.
Arguments N.eqb : simpl never.
Arguments Nat.ltb : simpl never.
Arguments Nat.eqb : simpl never.
Arguments mask : simpl never.

(* ------------------------------------------------------------------------------------------------ *)
(* val_eqb, the comparison slice_body / map_body use for keys, decides Leibniz equality of values;    *)
(* "pairwise distinct w.r.t. val_eqb" is therefore exactly NoDup.                                     *)
(* ------------------------------------------------------------------------------------------------ *)
Section ValInd.
  Variable P : val -> Prop.
  Hypothesis HU : P VU.
  Hypothesis HZ : forall z, P (VZ z).
  Hypothesis HB : forall b, P (VB b).
  Hypothesis HL : forall l, Forall P l -> P (VL l).
  Hypothesis HPN : P (VP None).
  Hypothesis HPS : forall v, P v -> P (VP (Some v)).
  Hypothesis HM : forall kv, Forall (fun p : val * val => P (fst p) /\ P (snd p)) kv -> P (VM kv).
  Fixpoint val_ind2 (v : val) : P v :=
    match v with
    | VU => HU
    | VZ z => HZ z
    | VB b => HB b
    | VL l => HL l ((fix go (l : list val) : Forall P l :=
                       match l with
                       | [] => Forall_nil P
                       | x :: r => Forall_cons x (val_ind2 x) (go r)
                       end) l)
    | VP None => HPN
    | VP (Some u) => HPS u (val_ind2 u)
    | VM kv => HM kv ((fix go (l : list (val * val)) : Forall (fun p : val * val => P (fst p) /\ P (snd p)) l :=
                         match l with
                         | [] => Forall_nil _
                         | p :: r => Forall_cons p (conj (val_ind2 (fst p)) (val_ind2 (snd p))) (go r)
                         end) kv)
    end.
End ValInd.

Lemma val_eqb_eq : forall a b, val_eqb a b = true <-> a = b.
Proof.
  induction a as [|z|b0|l H| |u IHa|kv H] using val_ind2; intros b.
  - destruct b; cbn; split; intros E; try discriminate; reflexivity.
  - destruct b; cbn; split; intros E; try discriminate.
    + apply Z.eqb_eq in E. congruence.
    + injection E as ->. apply Z.eqb_refl.
  - destruct b as [| |b'| | |]; cbn; split; intros E; try discriminate.
    + apply Bool.eqb_prop in E. congruence.
    + injection E as ->. apply Bool.eqb_reflx.
  - assert (E : forall y, val_eqb (VL l) (VL y) = true <-> l = y).
    { induction H as [|x l Hx Hl IH]; intros y; destruct y as [|v y]; cbn; split; intros E; try discriminate; try reflexivity.
      - pose proof (IH y) as IHy. cbn in IHy.
        apply andb_true_iff in E. destruct E as [E1 E2]. apply Hx in E1. apply IHy in E2. congruence.
      - pose proof (IH y) as IHy. cbn in IHy.
        injection E as -> ->. apply andb_true_iff. split; [apply Hx; reflexivity|apply IHy; reflexivity]. }
    destruct b; try (cbn; split; intros E'; discriminate).
    split; intros E'; [apply E in E'; congruence|injection E' as ->; apply E; reflexivity].
  - destruct b as [| | | |[u|]|]; cbn; split; intros E; try discriminate; reflexivity.
  - destruct b as [| | | |[u'|]|]; cbn; split; intros E; try discriminate.
    + apply IHa in E. congruence.
    + injection E as ->. apply IHa. reflexivity.
  - assert (E : forall y, val_eqb (VM kv) (VM y) = true <-> kv = y).
    { induction H as [|[x1 x2] l Hx Hl IH]; intros y; destruct y as [|[v1 v2] y]; cbn; split; intros E; try discriminate; try reflexivity.
      - pose proof (IH y) as IHy. cbn in IHy. cbn in Hx. destruct Hx as [Hx1 Hx2].
        apply andb_true_iff in E. destruct E as [E1 E2]. apply andb_true_iff in E1. destruct E1 as [E0 E1].
        apply Hx1 in E0. apply Hx2 in E1. apply IHy in E2. congruence.
      - pose proof (IH y) as IHy. cbn in IHy. cbn in Hx. destruct Hx as [Hx1 Hx2].
        injection E as -> -> ->. apply andb_true_iff. split; [apply andb_true_iff; split|];
          [apply Hx1; reflexivity|apply Hx2; reflexivity|apply IHy; reflexivity]. }
    destruct b; try (cbn; split; intros E'; discriminate).
    split; intros E'; [apply E in E'; congruence|injection E' as ->; apply E; reflexivity].
Qed.

Lemma val_eqb_refl a : val_eqb a a = true.
Proof. apply val_eqb_eq. reflexivity. Qed.

(* the test slice_body makes before it keeps an element *)
Lemma existsb_eqb_false k ks : existsb (val_eqb k) ks = false -> ~ In k ks.
Proof.
  intros E Hin. assert (H : existsb (val_eqb k) ks = true).
  { apply existsb_exists. exists k. split; [exact Hin|apply val_eqb_refl]. }
  congruence.
Qed.
(* the test map_body makes before it keeps an entry *)
Lemma existsb_key_false (p : val * val) acc :
  existsb (fun q : val * val => val_eqb (fst p) (fst q)) acc = false -> ~ In (fst p) (map fst acc).
Proof.
  intros E Hin. apply in_map_iff in Hin. destruct Hin as [q [Hq Hin]].
  assert (H : existsb (fun q : val * val => val_eqb (fst p) (fst q)) acc = true).
  { apply existsb_exists. exists q. split; [exact Hin|rewrite Hq; apply val_eqb_refl]. }
  congruence.
Qed.
Lemma NoDup_snoc (A : Type) (l : list A) x : NoDup l -> ~ In x l -> NoDup (l ++ [x]).
Proof.
  intros Hl Hx. apply (Permutation_NoDup (Permutation_cons_append l x)). constructor; assumption.
Qed.

(* the boolean, val_eqb-based reading of "pairwise distinct" coincides with NoDup *)
Fixpoint distinctb (l : list val) : bool :=
  match l with
  | [] => true
  | x :: r => negb (existsb (val_eqb x) r) && distinctb r
  end.
Lemma distinctb_NoDup l : distinctb l = true <-> NoDup l.
Proof.
  induction l as [|x r IH]; cbn; split; intros H; try reflexivity; try constructor.
  - apply andb_true_iff in H. destruct H as [H _]. apply negb_true_iff in H. apply existsb_eqb_false. exact H.
  - apply andb_true_iff in H. destruct H as [_ H]. apply IH. exact H.
  - inversion H as [|? ? Hx Hr]; subst. apply andb_true_iff. split; [|apply IH; exact Hr].
    apply negb_true_iff. destruct (existsb (val_eqb x) r) eqn:E; [|reflexivity].
    apply existsb_exists in E. destruct E as [y [Hy E]]. apply val_eqb_eq in E. subst y. contradiction.
Qed.

(* ------------------------------------------------------------------------------------------------ *)
(* Inversion of the monad combinators                                                                 *)
(* ------------------------------------------------------------------------------------------------ *)
Lemma res_ret A (a b : A) s : res (ret a s) = Ok b -> a = b.
Proof. unfold ret. cbn [res]. congruence. Qed.
Lemma res_group_d A sa (m : M (A * bool)) s a : res (group_d sa m s) = Ok a -> exists d, res (m s) = Ok (a, d).
Proof.
  unfold group_d. destruct (res (m s)) as [[a0 d]|e]; [|cbn; discriminate].
  destruct d; cbn [res].
  - intros H; injection H as <-. eauto.
  - destruct (rd (w (m s))); cbn [res]; [discriminate|]. intros H; injection H as <-. eauto.
Qed.
Lemma res_gval (m : M val) s v : res (gval m s) = Ok v -> res (m s) = Ok v.
Proof. apply res_group. Qed.

(* ------------------------------------------------------------------------------------------------ *)
(* repeat: a generic invariant rule for rep_loop.                                                     *)
(* more() continues unconditionally below minc (coin K_always cannot say "stop"), never continues at   *)
(* or above maxc (coin K_never cannot say "continue"), and a forced stop is only armed once            *)
(* minc <= count.  The body is only ever run at a count that is below minc or below maxc.              *)
(* ------------------------------------------------------------------------------------------------ *)
Lemma rep_coin_true minc maxc K count force s :
  res (rep_coin minc maxc K count force s) = Ok true -> N.of_nat count < minc \/ N.of_nat count < maxc.
Proof.
  unfold rep_coin. destruct (N.ltb_spec (N.of_nat count) minc) as [Hlt|Hge]; [auto|].
  destruct force.
  - intros H. apply bind_res_ok in H. destruct H as [x [_ H]]. apply res_ret in H. discriminate.
  - destruct (N.leb_spec maxc (N.of_nat count)) as [Hle|Hgt]; [|auto].
    intros H. apply coin_never in H. discriminate.
Qed.
Lemma rep_coin_false minc maxc K count force s :
  res (rep_coin minc maxc K count force s) = Ok false -> minc <= N.of_nat count.
Proof.
  unfold rep_coin. destruct (N.ltb_spec (N.of_nat count) minc) as [Hlt|Hge]; [|intros _; exact Hge].
  intros H. apply coin_always in H. discriminate.
Qed.

Lemma rep_loop_inv A (I : nat -> A -> Prop) minc maxc K (body : A -> M (option A)) :
  (forall c a s a', I c a -> (N.of_nat c < minc \/ N.of_nat c < maxc) ->
                    res (body a s) = Ok (Some a') -> I (S c) a') ->
  forall fuel count rej force acc s r,
    I count acc -> (force = true -> minc <= N.of_nat count) ->
    res (rep_loop fuel minc maxc K body count rej force acc s) = Ok r ->
    exists c, (count <= c)%nat /\ I c r /\ minc <= N.of_nat c /\
              (minc <= maxc -> N.of_nat count <= maxc -> N.of_nat c <= maxc).
Proof.
  intros Hb. induction fuel as [|f IH]; intros count rej force acc s r HI Hf; cbn [rep_loop]; [cbn; discriminate|].
  intros H. apply bind_res_ok in H. destruct H as [stp [Hit H]].
  unfold rep_iter in Hit. apply res_group_d in Hit. destruct Hit as [d Hit].
  apply bind_res_ok in Hit. destruct Hit as [cont [Hc Ht]].
  unfold rep_tail in Ht. destruct cont.
  - apply rep_coin_true in Hc.
    apply bind_res_ok in Ht. destruct Ht as [o [Hbody Ht]].
    destruct o as [acc'|].
    + apply res_ret in Ht. injection Ht as <- <-.
      apply IH in H; [|eapply Hb; eassumption|intros Hfo; specialize (Hf Hfo); lia].
      destruct H as [c [Hc1 [Hc2 [Hc3 Hc4]]]]. exists c. repeat split; try assumption; try lia.
    + unfold rep_reject in Ht. destruct (Nat.ltb (count * 2) (S rej)).
      * destruct (N.leb_spec minc (N.of_nat count)) as [Hle|Hgt].
        -- apply bind_res_ok in Ht. destruct Ht as [u [_ Ht]]. apply res_ret in Ht. injection Ht as <- <-.
           apply IH in H; [|exact HI|intros _; exact Hle]. exact H.
        -- cbn in Ht. discriminate.
      * apply res_ret in Ht. injection Ht as <- <-.
        apply IH in H; [|exact HI|exact Hf]. exact H.
  - apply rep_coin_false in Hc. apply res_ret in Ht. injection Ht as <- <-.
    apply res_ret in H. subst r. exists count. repeat split; auto.
Qed.

(* find: the value comes out of an attempt that returned Some *)
Lemma find_loop_some A (att : M (option A)) : forall tries s v,
  res (find_loop att tries s) = Ok v -> exists s', res (att s') = Ok (Some v).
Proof.
  induction tries as [|t IH]; intros s v; cbn [find_loop]; [cbn; discriminate|].
  intros H. apply bind_res_ok in H. destruct H as [o [Hg H]].
  destruct o as [x|]; [|eapply IH; exact H].
  apply res_ret in H. subst x.
  apply res_group_d in Hg. destruct Hg as [d Hg].
  apply bind_res_ok in Hg. destruct Hg as [o [Ha Hg]]. apply res_ret in Hg. injection Hg as Ho _. subst o.
  exists s. exact Ha.
Qed.

(* ------------------------------------------------------------------------------------------------ *)
(* swap_nth permutes                                                                                 *)
(* ------------------------------------------------------------------------------------------------ *)
Lemma nth_map_combine_seq (F : nat * val -> val) : forall l a k d, (k < length l)%nat ->
  nth k (map F (combine (seq a (length l)) l)) d = F ((a + k)%nat, nth k l d).
Proof.
  induction l as [|x l IH]; intros a k d Hk; cbn [length] in *; [lia|].
  cbn [seq combine map]. destruct k as [|k]; cbn [nth].
  - rewrite Nat.add_0_r. reflexivity.
  - rewrite IH by lia. replace (S a + k)%nat with (a + S k)%nat by lia. reflexivity.
Qed.
Lemma swap_nth_length l i j : length (swap_nth l i j) = length l.
Proof. unfold swap_nth. rewrite map_length, combine_length, seq_length. apply Nat.min_id. Qed.
Lemma swap_nth_perm l i j : (i < length l)%nat -> (j < length l)%nat -> Permutation l (swap_nth l i j).
Proof.
  intros Hi Hj. apply (Permutation_nth l (swap_nth l i j) VU). cbv zeta.
  split; [apply swap_nth_length|].
  exists (fun k => if Nat.eqb k i then j else if Nat.eqb k j then i else k).
  split; [|split].
  - intros x Hx. destruct (Nat.eqb_spec x i); [assumption|]. destruct (Nat.eqb_spec x j); assumption.
  - intros x y Hx Hy.
    destruct (Nat.eqb_spec x i); destruct (Nat.eqb_spec y i); destruct (Nat.eqb_spec x j); destruct (Nat.eqb_spec y j); lia.
  - intros x Hx. unfold swap_nth. rewrite nth_map_combine_seq by exact Hx. cbn [Nat.add].
    destruct (Nat.eqb_spec x i); [reflexivity|]. destruct (Nat.eqb_spec x j); reflexivity.
Qed.

Lemma wrap_lt z : wrap z < 2 ^ 64.
Proof.
  unfold wrap. change (Z.of_N W64) with (2 ^ 64)%Z.
  pose proof (Z.mod_pos_bound z (2 ^ 64) eq_refl) as H. lia.
Qed.
Lemma wrap_le z : (0 <= z)%Z -> (Z.of_N (wrap z) <= z)%Z.
Proof.
  intros Hz. unfold wrap. change (Z.of_N W64) with (2 ^ 64)%Z.
  pose proof (Z.mod_pos_bound z (2 ^ 64) eq_refl) as H.
  pose proof (Z.mod_le z (2 ^ 64) Hz eq_refl) as H'. lia.
Qed.

(* ------------------------------------------------------------------------------------------------ *)
(* Well-formedness and contract                                                                      *)
(* ------------------------------------------------------------------------------------------------ *)
(* The numeric side conditions the Go types enforce: an unsigned bound is a uint64, signed bounds are
   int64s.  Nothing else: empty ranges (mx < mn), empty SampledFrom/OneOf lists, minLen > maxLen, are not
   excluded - the model panics (returns Err) for the former and the contract below says what it delivers
   for the latter. *)
Fixpoint wf_g (g : gexp) : Prop :=
  match g with
  | GBool => True
  | GUint mn mx => mx < 2 ^ 64
  | GInt mn mx => (- 2 ^ 63 <= mn)%Z /\ (mx < 2 ^ 63)%Z
  | GSampled xs => True
  | GOneOf n gs => forall i, (i < n)%nat -> wf_g (gs i)
  | GPtr allowNil e => wf_g e
  | GSlice minLen maxLen K key e => wf_g e
  | GMap minLen maxLen K ek ev => wf_g ek /\ wf_g ev
  | GMapV minLen maxLen K key ev => wf_g ev
  | GPerm xs => True
  | GFilter e f => wf_g e
  | GMapFn e f => wf_g e
  | GCustom body => True
  | GDeferred e => wf_g e
  end.

(* length contract of the repeat-based collections *)
Definition len_ok (minLen maxLen : Z) (n : nat) : Prop :=
  minc_of minLen <= N.of_nat n /\ (minc_of minLen <= maxc_of maxLen -> N.of_nat n <= maxc_of maxLen).

Fixpoint contract (g : gexp) (v : val) : Prop :=
  match g with
  | GBool => exists b, v = VB b
  | GUint mn mx => exists u, v = VZ (Z.of_N u) /\ mn <= u <= mx
  | GInt mn mx => exists z, v = VZ z /\ (mn <= z <= mx)%Z
  | GSampled xs => In v xs
  | GOneOf n gs => exists i, (i < n)%nat /\ contract (gs i) v
  | GPtr allowNil e => (v = VP None /\ allowNil = true) \/ exists u, v = VP (Some u) /\ contract e u
  | GSlice minLen maxLen K key e =>
      exists l, v = VL l /\ len_ok minLen maxLen (length l) /\ Forall (contract e) l /\
                (forall kf, key = Some kf -> NoDup (map kf l))
  | GMap minLen maxLen K ek ev =>
      exists kvs, v = VM kvs /\ len_ok minLen maxLen (length kvs) /\
                  Forall (fun p : val * val => contract ek (fst p) /\ contract ev (snd p)) kvs /\
                  NoDup (map fst kvs)
  | GMapV minLen maxLen K key ev =>
      exists kvs, v = VM kvs /\ len_ok minLen maxLen (length kvs) /\
                  Forall (fun p : val * val => fst p = key (snd p) /\ contract ev (snd p)) kvs /\
                  NoDup (map fst kvs)
  | GPerm xs => exists l, v = VL l /\ Permutation xs l
  | GFilter e f => contract e v /\ f v = true
  | GMapFn e f => exists u, contract e u /\ v = f u
  | GCustom body => True
  | GDeferred e => contract e v
  end.

(* ------------------------------------------------------------------------------------------------ *)
(* The loop bodies                                                                                    *)
(* ------------------------------------------------------------------------------------------------ *)
Definition slice_I (C : val -> Prop) (key : option (val -> val)) (c : nat) (acc : list val * list val) : Prop :=
  length (fst acc) = c /\ Forall C (fst acc) /\
  (forall kf, key = Some kf -> snd acc = map kf (fst acc) /\ NoDup (snd acc)).

Lemma slice_body_inv (C : val -> Prop) (elem : M val) key :
  (forall s v, res (elem s) = Ok v -> C v) ->
  forall c acc s acc', slice_I C key c acc -> res (slice_body elem key acc s) = Ok (Some acc') ->
                       slice_I C key (S c) acc'.
Proof.
  intros He c [l ks] s acc' [HL [HF HK]] H. cbn [fst snd] in *.
  unfold slice_body in H. apply bind_res_ok in H. destruct H as [v [Hv H]]. apply He in Hv.
  cbn [fst snd] in H. destruct key as [kf|].
  - destruct (existsb (val_eqb (kf v)) ks) eqn:Ex; apply res_ret in H; [discriminate|].
    injection H as <-. destruct (HK kf eq_refl) as [HK1 HK2]. apply existsb_eqb_false in Ex.
    unfold slice_I. cbn [fst snd]. split; [rewrite app_length; cbn; lia|].
    split; [apply Forall_app; split; [exact HF|constructor; [exact Hv|constructor]]|].
    intros kf' E. injection E as <-. split; [rewrite map_app, HK1; reflexivity|apply NoDup_snoc; assumption].
  - apply res_ret in H. injection H as <-. unfold slice_I. cbn [fst snd].
    split; [rewrite app_length; cbn; lia|].
    split; [apply Forall_app; split; [exact HF|constructor; [exact Hv|constructor]]|].
    intros kf' E. discriminate.
Qed.

Definition map_I (Q : val * val -> Prop) (c : nat) (acc : list (val * val)) : Prop :=
  length acc = c /\ Forall Q acc /\ NoDup (map fst acc).

Lemma map_body_inv (Q : val * val -> Prop) (kv : M (val * val)) :
  (forall s p, res (kv s) = Ok p -> Q p) ->
  forall c acc s acc', map_I Q c acc -> res (map_body kv acc s) = Ok (Some acc') -> map_I Q (S c) acc'.
Proof.
  intros Hk c acc s acc' [HL [HF HN]] H.
  unfold map_body in H. apply bind_res_ok in H. destruct H as [p [Hp H]]. apply Hk in Hp.
  destruct (existsb (fun q : val * val => val_eqb (fst p) (fst q)) acc) eqn:Ex; apply res_ret in H; [discriminate|].
  injection H as <-. apply existsb_key_false in Ex.
  unfold map_I. split; [rewrite app_length; cbn; lia|].
  split; [apply Forall_app; split; [exact HF|constructor; [exact Hp|constructor]]|].
  rewrite map_app. cbn [map]. apply NoDup_snoc; assumption.
Qed.

Definition perm_I (xs : list val) (c : nat) (acc : nat * list val) : Prop :=
  fst acc = c /\ Permutation xs (snd acc).

Lemma perm_body_inv geom LF (xs : list val) :
  forall c acc s acc', perm_I xs c acc ->
    (N.of_nat c < 0 \/ N.of_nat c < N.of_nat (length xs - 1)) ->
    res (perm_body geom LF (length xs) acc s) = Ok (Some acc') -> perm_I xs (S c) acc'.
Proof.
  intros c [i l] s acc' [Hi HP] Hc H. cbn [fst snd] in *. subst i.
  assert (Hc' : (c < length xs - 1)%nat) by lia. clear Hc.
  unfold perm_body in H. apply bind_res_ok in H. destruct H as [[[u lo] hi] [Hu H]].
  apply res_ret in H. injection H as <-. cbn [fst snd].
  apply uint_range_contract in Hu; [|apply wrap_lt].
  assert (Hw : (Z.of_N (wrap (Z.of_nat (length xs) - 1)) <= Z.of_nat (length xs) - 1)%Z) by (apply wrap_le; lia).
  pose proof (Permutation_length HP) as HLen.
  unfold perm_I. cbn [fst snd]. split; [reflexivity|].
  apply (Permutation_trans HP). apply swap_nth_perm; lia.
Qed.

(* ------------------------------------------------------------------------------------------------ *)
(* The theorem                                                                                        *)
(* ------------------------------------------------------------------------------------------------ *)
Section Contract.
  Variable geom : nat -> N -> N.            (* any bias oracle *)
  Variable LF : nat.                        (* any loop fuel *)
  Variable crun : prog -> M val.            (* any cleanup runner *)

  Local Notation RG := (run_g geom LF crun).
  Definition holds (g : gexp) : Prop := wf_g g -> forall s v, res (RG g s) = Ok v -> contract g v.

  Lemma len_ok_of (minLen maxLen : Z) c :
    minc_of minLen <= N.of_nat c ->
    (minc_of minLen <= maxc_of maxLen -> N.of_nat 0 <= maxc_of maxLen -> N.of_nat c <= maxc_of maxLen) ->
    len_ok minLen maxLen c.
  Proof. intros H1 H2. split; [exact H1|]. intros H. apply H2; [exact H|lia]. Qed.

  (* unfolding equations of the interpreter (each by computation) *)
  Lemma run_GBool : RG GBool = (u <- drawBits 1 ;; ret (VB (N.eqb u 1))).
  Proof. reflexivity. Qed.
  Lemma run_GUint mn mx : RG (GUint mn mx) = (r <- genUintRange geom LF mn mx true ;; ret (VZ (Z.of_N (fst (fst r))))).
  Proof. reflexivity. Qed.
  Lemma run_GInt mn mx : RG (GInt mn mx) = (r <- genIntRange geom LF mn mx ;; ret (VZ (fst (fst r)))).
  Proof. reflexivity. Qed.
  Lemma run_GSampled xs : RG (GSampled xs) = (i <- genIndex geom LF (length xs) true ;; ret (nth i xs VU)).
  Proof. reflexivity. Qed.
  Lemma run_GOneOf n gs : RG (GOneOf n gs) = (i <- genIndex geom LF n true ;; gval (RG (gs i))).
  Proof. reflexivity. Qed.
  Lemma run_GPtr allowNil e :
    RG (GPtr allowNil e) =
    (b <- coin (if allowNil then K_half else K_always) ;;
     if b then v <- gval (RG e) ;; ret (VP (Some v)) else ret (VP None)).
  Proof. reflexivity. Qed.
  Lemma run_GSlice minLen maxLen K key e :
    RG (GSlice minLen maxLen K key e) =
    (r <- rep_loop LF (minc_of minLen) (maxc_of maxLen) K (slice_body (gval (RG e)) key) 0 0 false ([], []) ;;
     ret (VL (fst r))).
  Proof. reflexivity. Qed.
  Lemma run_GMap minLen maxLen K ek ev :
    RG (GMap minLen maxLen K ek ev) =
    (r <- rep_loop LF (minc_of minLen) (maxc_of maxLen) K
            (map_body (k <- gval (RG ek) ;; v <- gval (RG ev) ;; ret (k, v))) 0 0 false [] ;;
     ret (VM r)).
  Proof. reflexivity. Qed.
  Lemma run_GMapV minLen maxLen K key ev :
    RG (GMapV minLen maxLen K key ev) =
    (r <- rep_loop LF (minc_of minLen) (maxc_of maxLen) K
            (map_body (v <- gval (RG ev) ;; ret (key v, v))) 0 0 false [] ;;
     ret (VM r)).
  Proof. reflexivity. Qed.
  Lemma run_GPerm xs :
    RG (GPerm xs) =
    (r <- rep_loop LF 0 (N.of_nat (length xs - 1)) K_always (perm_body geom LF (length xs)) 0 0 false (O, xs) ;;
     ret (VL (snd r))).
  Proof. reflexivity. Qed.
  Lemma run_GFilter e f :
    RG (GFilter e f) = find_loop (v <- gval (RG e) ;; ret (if f v then Some v else None)) c_small.
  Proof. reflexivity. Qed.
  Lemma run_GMapFn e f : RG (GMapFn e f) = (v <- gval (RG e) ;; ret (f v)).
  Proof. reflexivity. Qed.
  Lemma run_GDeferred e : RG (GDeferred e) = gval (RG e).
  Proof. reflexivity. Qed.

  Lemma holds_GBool : holds GBool.
  Proof.
    unfold holds.
    intros _ s v H. rewrite run_GBool in H. apply bind_res_ok in H. destruct H as [u [_ H]].
    apply res_ret in H. subst v. cbn. eexists; reflexivity.
  Qed.
  Lemma holds_GUint : forall mn mx, holds (GUint mn mx).
  Proof.
    unfold holds.
    intros mn mx Hwf s v H. rewrite run_GUint in H. cbn in Hwf.
    apply bind_res_ok in H. destruct H as [[[u lo] hi] [Hu H]]. apply res_ret in H. subst v.
    apply uint_range_contract in Hu; [|exact Hwf]. cbn [contract fst]. exists u. split; [reflexivity|exact Hu].
  Qed.
  Lemma holds_GInt : forall mn mx, holds (GInt mn mx).
  Proof.
    unfold holds.
    intros mn mx [Hmn Hmx] s v H. rewrite run_GInt in H.
    apply bind_res_ok in H. destruct H as [[[z lo] hi] [Hz H]]. apply res_ret in H. subst v.
    apply int_range_contract in Hz; [|exact Hmn|exact Hmx]. cbn [contract fst]. exists z. split; [reflexivity|exact Hz].
  Qed.
  Lemma holds_GSampled : forall xs, holds (GSampled xs).
  Proof.
    unfold holds.
    intros xs _ s v H. rewrite run_GSampled in H.
    apply bind_res_ok in H. destruct H as [i [Hi H]]. apply res_ret in H. subst v.
    apply genIndex_lt in Hi. cbn [contract]. apply nth_In. exact Hi.
  Qed.
  Lemma holds_GOneOf : forall n gs, (forall i, holds (gs i)) -> holds (GOneOf n gs).
  Proof.
    unfold holds.
    intros n gs IH Hwf s v H. rewrite run_GOneOf in H. cbn [wf_g] in Hwf.
    apply bind_res_ok in H. destruct H as [i [Hi H]]. apply genIndex_lt in Hi. apply res_gval in H.
    cbn [contract]. exists i. split; [exact Hi|]. eapply IH; [apply Hwf; exact Hi|exact H].
  Qed.
  Lemma holds_GPtr : forall allowNil e, holds e -> holds (GPtr allowNil e).
  Proof.
    unfold holds.
    intros allowNil e IH Hwf s v H. rewrite run_GPtr in H. cbn [wf_g] in Hwf.
    apply bind_res_ok in H. destruct H as [b [Hb H]]. cbn [contract]. destruct b.
    + apply bind_res_ok in H. destruct H as [u [Hu H]]. apply res_ret in H. subst v. apply res_gval in Hu.
      right. exists u. split; [reflexivity|]. eapply IH; eassumption.
    + apply res_ret in H. subst v. left. split; [reflexivity|].
      destruct allowNil; [reflexivity|]. apply coin_always in Hb. discriminate.
  Qed.
  Lemma holds_GSlice : forall minLen maxLen K key e, holds e -> holds (GSlice minLen maxLen K key e).
  Proof.
    unfold holds.
    intros minLen maxLen K key e IH Hwf s v H. rewrite run_GSlice in H. cbn [wf_g] in Hwf.
    apply bind_res_ok in H. destruct H as [[l ks] [Hr H]]. apply res_ret in H. subst v. cbn [fst].
    eapply (rep_loop_inv _ (slice_I (contract e) key)) in Hr.
    + destruct Hr as [c [_ [[HL [HF HK]] [Hmin Hmax]]]]. cbn [fst snd] in *.
      cbn [contract]. exists l. split; [reflexivity|]. subst c.
      split; [apply len_ok_of; assumption|]. split; [exact HF|].
      intros kf E. destruct (HK kf E) as [<- HN]. exact HN.
    + intros c a s0 a' Ha _ Hbody. eapply slice_body_inv; [|exact Ha|exact Hbody].
      intros s1 v1 Hv. apply res_gval in Hv. eapply IH; eassumption.
    + unfold slice_I. cbn [fst snd length map]. split; [reflexivity|]. split; [constructor|].
      intros kf _. split; [reflexivity|constructor].
    + discriminate.
  Qed.
  Lemma holds_GMap : forall minLen maxLen K ek, holds ek -> forall ev, holds ev -> holds (GMap minLen maxLen K ek ev).
  Proof.
    unfold holds.
    intros minLen maxLen K ek IHk ev IHv [Hwk Hwv] s v H. rewrite run_GMap in H.
    apply bind_res_ok in H. destruct H as [kvs [Hr H]]. apply res_ret in H. subst v.
    eapply (rep_loop_inv _ (map_I (fun p : val * val => contract ek (fst p) /\ contract ev (snd p)))) in Hr.
    + destruct Hr as [c [_ [[HL [HF HN]] [Hmin Hmax]]]].
      cbn [contract]. exists kvs. split; [reflexivity|]. subst c.
      split; [apply len_ok_of; assumption|]. split; assumption.
    + intros c a s0 a' Ha _ Hbody. eapply map_body_inv; [|exact Ha|exact Hbody].
      intros s1 p Hp. apply bind_res_ok in Hp. destruct Hp as [k [Hk Hp]].
      apply bind_res_ok in Hp. destruct Hp as [x [Hx Hp]]. apply res_ret in Hp. subst p. cbn [fst snd].
      apply res_gval in Hk. apply res_gval in Hx. split; [eapply IHk|eapply IHv]; eassumption.
    + unfold map_I. cbn [length map]. split; [reflexivity|]. split; constructor.
    + discriminate.
  Qed.
  Lemma holds_GMapV : forall minLen maxLen K key ev, holds ev -> holds (GMapV minLen maxLen K key ev).
  Proof.
    unfold holds.
    intros minLen maxLen K key ev IHv Hwv s v H. rewrite run_GMapV in H. cbn [wf_g] in Hwv.
    apply bind_res_ok in H. destruct H as [kvs [Hr H]]. apply res_ret in H. subst v.
    eapply (rep_loop_inv _ (map_I (fun p : val * val => fst p = key (snd p) /\ contract ev (snd p)))) in Hr.
    + destruct Hr as [c [_ [[HL [HF HN]] [Hmin Hmax]]]].
      cbn [contract]. exists kvs. split; [reflexivity|]. subst c.
      split; [apply len_ok_of; assumption|]. split; assumption.
    + intros c a s0 a' Ha _ Hbody. eapply map_body_inv; [|exact Ha|exact Hbody].
      intros s1 p Hp. apply bind_res_ok in Hp. destruct Hp as [x [Hx Hp]]. apply res_ret in Hp. subst p. cbn [fst snd].
      apply res_gval in Hx. split; [reflexivity|eapply IHv; eassumption].
    + unfold map_I. cbn [length map]. split; [reflexivity|]. split; constructor.
    + discriminate.
  Qed.
  Lemma holds_GPerm : forall xs, holds (GPerm xs).
  Proof.
    unfold holds.
    intros xs _ s v H. rewrite run_GPerm in H.
    apply bind_res_ok in H. destruct H as [[i l] [Hr H]]. apply res_ret in H. subst v. cbn [snd].
    eapply (rep_loop_inv _ (perm_I xs)) in Hr.
    + destruct Hr as [c [_ [[_ HP] _]]]. cbn [snd] in HP. cbn [contract]. exists l. split; [reflexivity|exact HP].
    + intros c a s0 a' Ha Hc Hbody. eapply perm_body_inv; eassumption.
    + unfold perm_I. cbn [fst snd]. split; [reflexivity|apply Permutation_refl].
    + discriminate.
  Qed.
  Lemma holds_GFilter : forall e, holds e -> forall f, holds (GFilter e f).
  Proof.
    unfold holds.
    intros e IH f Hwf s v H. rewrite run_GFilter in H. cbn [wf_g] in Hwf.
    apply find_loop_some in H. destruct H as [s' H].
    apply bind_res_ok in H. destruct H as [u [Hu H]]. apply res_ret in H. apply res_gval in Hu.
    destruct (f u) eqn:Ef; [|discriminate]. injection H as <-.
    cbn [contract]. split; [eapply IH; eassumption|exact Ef].
  Qed.
  Lemma holds_GMapFn : forall e, holds e -> forall f, holds (GMapFn e f).
  Proof.
    unfold holds.
    intros e IH f Hwf s v H. rewrite run_GMapFn in H. cbn [wf_g] in Hwf.
    apply bind_res_ok in H. destruct H as [u [Hu H]]. apply res_ret in H. subst v. apply res_gval in Hu.
    cbn [contract]. exists u. split; [eapply IH; eassumption|reflexivity].
  Qed.
  Lemma holds_GDeferred : forall e, holds e -> holds (GDeferred e).
  Proof.
    unfold holds.
    intros e IH Hwf s v H. rewrite run_GDeferred in H. cbn [wf_g] in Hwf. apply res_gval in H.
    cbn [contract]. eapply IH; eassumption.
  Qed.

  Theorem contract_holds : forall g, wf_g g -> forall s v, res (run_g geom LF crun g s) = Ok v -> contract g v.
  Proof.
    apply (gexp_mut holds (fun _ : prog => True)); try (intros; exact I).
    - exact holds_GBool.
    - exact holds_GUint.
    - exact holds_GInt.
    - exact holds_GSampled.
    - exact holds_GOneOf.
    - exact holds_GPtr.
    - exact holds_GSlice.
    - exact holds_GMap.
    - exact holds_GMapV.
    - exact holds_GPerm.
    - exact holds_GFilter.
    - exact holds_GMapFn.
    - intros body _ _ s v _. exact I.
    - exact holds_GDeferred.
  Qed.
End Contract.

(* ------------------------------------------------------------------------------------------------ *)
(* Non-vacuity                                                                                        *)
(* ------------------------------------------------------------------------------------------------ *)
(* a nested generator over the type-extreme ranges: OneOf(SliceOfNDistinct(Int64(), 2, 5, id), Ptr(Uint64(), true)) *)
Definition ex_g : gexp :=
  GOneOf 2 (fun i => match i with
                     | O => GSlice 2 5 K_half (Some (fun v => v)) (GInt (- 2 ^ 63) (2 ^ 63 - 1))
                     | _ => GPtr true (GUint 0 (2 ^ 64 - 1))
                     end).
Example ex_g_wf : wf_g ex_g.
Proof. intros i Hi. destruct i as [|[|i]]; cbn [wf_g]; lia. Qed.

(* the hypothesis "res ... = Ok v" is satisfiable, and the type-extreme values are actually produced *)
Definition ex_geom : nat -> N -> N := fun bl _ => N.of_nat bl.
Definition ex_buf : list N :=
  [0; 0; 9007199254740991; 9007199254740991; 0; 18446744073709551615;
   9007199254740991; 9007199254740991; 0; 18446744073709551615;
   9007199254740991; 0; 0; 9223372036854775807;
   9007199254740991; 0; 0; 5; 0; 0].
Example ex_run_buf :
  res (run_g ex_geom 100 (fun _ => ret VU) ex_g (mkSt (SBuf ex_buf) fresh_t))
  = Ok (VL [VZ (-9223372036854775808); VZ 9223372036854775807; VZ 5]).
Proof. vm_compute. reflexivity. Qed.
Example ex_run_buf2 :
  res (run_g ex_geom 100 (fun _ => ret VU) ex_g (mkSt (SBuf [0; 1; 9007199254740991; 0; 18446744073709551615]) fresh_t))
  = Ok (VP (Some (VZ 18446744073709551615))).
Proof. vm_compute. reflexivity. Qed.
Example ex_run_rnd :
  exists v, res (run_g ex_geom 100 (fun _ => ret VU) ex_g (mkSt (SRnd (jsf_init 42)) fresh_t)) = Ok v /\ contract ex_g v.
Proof.
  eexists. split; [vm_compute; reflexivity|].
  eapply (contract_holds ex_geom 100 (fun _ => ret VU) ex_g ex_g_wf (mkSt (SRnd (jsf_init 42)) fresh_t)).
  vm_compute. reflexivity.
Qed.
Example ex_contract_buf : contract ex_g (VL [VZ (-9223372036854775808); VZ 9223372036854775807; VZ 5]).
Proof. exact (contract_holds _ _ _ _ ex_g_wf _ _ ex_run_buf). Qed.

Print Assumptions contract_holds.
