(* The CONTRACT of the string generator StringOfN(elem, minRunes, maxRunes, maxLen) (Model/Strings.v):
   for every element generator expression, every parameter, every state (hence every bit stream: any buffer
   of 64-bit words, the PRNG from any seed), any bias oracle, any fuel and any cleanup runner, a returned
   string
     - has a rune count within [minRunes, maxRunes] (in the normalised form the repeat loop uses),
     - consists of valid code points only (utf8.RuneLen > 0: in 0..0x10FFFF and not a surrogate),
     - is at most maxLen bytes long when encoded as UTF-8,
     - and every rune of it is a value the element generator may deliver (its own contract holds). *)
From Coq Require Import List Lia NArith ZArith Bool.
Require Import Rapid.Model.Base Rapid.Model.Syntax Rapid.Model.Monad Rapid.Model.Prim Rapid.Model.Interp
  Rapid.Model.Strings.
Require Import Rapid.Proofs.Inv Rapid.Proofs.RepeatProofs Rapid.Proofs.Contract.
Import ListNotations.
Arguments N.leb : simpl never.
Arguments N.ltb : simpl never.
Arguments N.eqb : simpl never.
Arguments Nat.ltb : simpl never.
Arguments Nat.eqb : simpl never.
Arguments mask : simpl never.

(* ------------------------------------------------------------------------------------------------ *)
(* utf8.RuneLen                                                                                       *)
(* ------------------------------------------------------------------------------------------------ *)
Lemma rune_len_cases r : (rune_len r = -1 \/ rune_len r = 1 \/ rune_len r = 2 \/ rune_len r = 3 \/ rune_len r = 4)%Z.
Proof.
  unfold rune_len.
  destruct (r <? 0)%Z; [auto|].
  destruct (r <=? 127)%Z; [auto|].
  destruct (r <=? 2047)%Z; [auto|].
  destruct ((55296 <=? r)%Z && (r <=? 57343)%Z); [auto|].
  destruct (r <=? 65535)%Z; [auto|].
  destruct (r <=? 1114111)%Z; auto.
Qed.
Lemma rune_len_range r : (rune_len r < 0 \/ 1 <= rune_len r <= 4)%Z.
Proof. pose proof (rune_len_cases r). lia. Qed.
(* a positive length is exactly "a valid code point" (utf8.ValidRune) *)
Lemma rune_len_pos_iff r :
  (0 < rune_len r <-> (0 <= r <= 1114111 /\ ~ (55296 <= r <= 57343)))%Z.
Proof.
  unfold rune_len.
  destruct (Z.ltb_spec r 0); [lia|].
  destruct (Z.leb_spec r 127); [lia|].
  destruct (Z.leb_spec r 2047); [lia|].
  destruct (Z.leb_spec 55296 r); destruct (Z.leb_spec r 57343); cbn [andb]; try lia;
    destruct (Z.leb_spec r 65535); try lia; destruct (Z.leb_spec r 1114111); lia.
Qed.
Lemma rune_len_pos_valid r : (0 < rune_len r -> 0 <= r <= 1114111 /\ ~ (55296 <= r <= 57343))%Z.
Proof. apply rune_len_pos_iff. Qed.
(* the exact length table of the encoding *)
Lemma rune_len_table r : (0 < rune_len r ->
  (0 <= r <= 127 /\ rune_len r = 1) \/ (128 <= r <= 2047 /\ rune_len r = 2) \/
  ((2048 <= r <= 55295 \/ 57344 <= r <= 65535) /\ rune_len r = 3) \/ (65536 <= r <= 1114111 /\ rune_len r = 4))%Z.
Proof.
  unfold rune_len.
  destruct (Z.ltb_spec r 0); [lia|].
  destruct (Z.leb_spec r 127); [lia|].
  destruct (Z.leb_spec r 2047); [lia|].
  destruct (Z.leb_spec 55296 r); destruct (Z.leb_spec r 57343); cbn [andb]; try lia;
    destruct (Z.leb_spec r 65535); try lia; destruct (Z.leb_spec r 1114111); lia.
Qed.

(* the byte length of a list of runes *)
Definition byte_len (l : list Z) : Z := fold_right (fun r acc => (rune_len r + acc)%Z) 0%Z l.
Lemma byte_len_snoc l r : byte_len (l ++ [r]) = (byte_len l + rune_len r)%Z.
Proof. unfold byte_len. induction l as [|x l IH]; cbn [app fold_right]; [lia|]. rewrite IH. lia. Qed.
Lemma maxlen_of_nonneg maxLen : (0 <= maxlen_of maxLen)%Z.
Proof. unfold maxlen_of. destruct (Z.ltb_spec maxLen 0); lia. Qed.

(* ------------------------------------------------------------------------------------------------ *)
(* The loop invariant                                                                                 *)
(* ------------------------------------------------------------------------------------------------ *)
Definition string_I (P : val -> Prop) (maxLen : Z) (c : nat) (a : list Z * Z) : Prop :=
  length (fst a) = c /\
  Forall (fun r => (0 < rune_len r)%Z) (fst a) /\
  snd a = byte_len (fst a) /\
  (snd a <= maxLen)%Z /\
  Forall (fun r => exists v, P v /\ rune_of v = r) (fst a).

Lemma string_body_inv (P : val -> Prop) (elem : M val) maxLen c a a' s :
  (forall s1 v, res (elem s1) = Ok v -> P v) ->
  string_I P maxLen c a -> res (string_body elem maxLen a s) = Ok (Some a') -> string_I P maxLen (S c) a'.
Proof.
  intros He [HL [HV [HB [HM HE]]]] H. unfold string_body in H.
  apply bind_res_ok in H. destruct H as [v [Hv H]]. apply He in Hv.
  destruct ((rune_len (rune_of v) <? 0)%Z || (maxLen <? snd a + rune_len (rune_of v))%Z) eqn:E.
  - apply res_ret in H. discriminate.
  - apply res_ret in H. injection H as <-.
    apply orb_false_iff in E. destruct E as [E1 E2].
    apply Z.ltb_ge in E1. apply Z.ltb_ge in E2.
    assert (Hpos : (0 < rune_len (rune_of v))%Z) by (pose proof (rune_len_cases (rune_of v)); lia).
    unfold string_I. cbn [fst snd].
    split; [rewrite app_length; cbn [length]; lia|].
    split; [apply Forall_app; split; [exact HV|constructor; [exact Hpos|constructor]]|].
    split; [rewrite byte_len_snoc, HB; reflexivity|].
    split; [exact E2|].
    apply Forall_app; split; [exact HE|]. constructor; [|constructor].
    exists v. split; [exact Hv|reflexivity].
Qed.

(* ------------------------------------------------------------------------------------------------ *)
(* The contract                                                                                       *)
(* ------------------------------------------------------------------------------------------------ *)
Theorem string_contract : forall geom LF crun e minRunes maxRunes maxLen K s l,
  wf_g e ->
  res (string_gen geom LF crun e minRunes maxRunes maxLen K s) = Ok l ->
    (* rune count *)
    (minc_of minRunes <= N.of_nat (length l))%N
    /\ ((minc_of minRunes <= maxc_of maxRunes)%N -> (N.of_nat (length l) <= maxc_of maxRunes)%N)
    (* valid UTF-8: every rune is a code point that can be encoded *)
    /\ Forall (fun r => (0 < rune_len r)%Z) l
    (* byte length *)
    /\ (fold_right (fun r acc => rune_len r + acc) 0 l <= maxlen_of maxLen)%Z
    (* every rune is a value of the element generator *)
    /\ Forall (fun r => exists v, contract e v /\ rune_of v = r) l.
Proof.
  intros geom LF crun e minRunes maxRunes maxLen K s l Hwf H. unfold string_gen in H.
  apply bind_res_ok in H. destruct H as [[l0 n] [Hr H]]. apply res_ret in H. cbn [fst] in H. subst l0.
  eapply (rep_loop_inv _ (string_I (contract e) (maxlen_of maxLen))) in Hr.
  - destruct Hr as [c [_ [[HL [HV [HB [HM HE]]]] [Hmin Hmax]]]]. cbn [fst snd] in *. subst c.
    split; [exact Hmin|]. split; [intros Hle; apply Hmax; [exact Hle|apply N.le_0_l]|].
    split; [exact HV|]. split; [|exact HE].
    change (byte_len l <= maxlen_of maxLen)%Z. rewrite <- HB. exact HM.
  - intros c a s0 a' Ha _ Hbody. eapply string_body_inv; [|exact Ha|exact Hbody].
    intros s1 v1 Hv. apply res_gval in Hv. eapply contract_holds; eassumption.
  - unfold string_I. cbn [fst snd length]. split; [reflexivity|]. split; [constructor|].
    split; [reflexivity|]. split; [apply maxlen_of_nonneg|constructor].
  - discriminate.
Qed.

(* the same in terms of code points: every rune of the result is a Unicode scalar value *)
Corollary string_valid_runes : forall geom LF crun e minRunes maxRunes maxLen K s l,
  wf_g e ->
  res (string_gen geom LF crun e minRunes maxRunes maxLen K s) = Ok l ->
  Forall (fun r => (0 <= r <= 1114111 /\ ~ (55296 <= r <= 57343))%Z) l.
Proof.
  intros geom LF crun e minRunes maxRunes maxLen K s l Hwf H.
  destruct (string_contract _ _ _ _ _ _ _ _ _ _ Hwf H) as [_ [_ [HV _]]].
  eapply Forall_impl; [|exact HV]. intros r. apply rune_len_pos_valid.
Qed.
(* at most maxLen runes, too, when a byte budget is given: every rune takes at least one byte *)
Lemma byte_len_ge_length l : Forall (fun r => (0 < rune_len r)%Z) l -> (Z.of_nat (length l) <= byte_len l)%Z.
Proof.
  induction 1 as [|r l Hr _ IH]; [cbn; lia|].
  change (byte_len (r :: l)) with (rune_len r + byte_len l)%Z. cbn [length]. lia.
Qed.
Corollary string_runes_le_bytes : forall geom LF crun e minRunes maxRunes maxLen K s l,
  wf_g e ->
  res (string_gen geom LF crun e minRunes maxRunes maxLen K s) = Ok l ->
  (Z.of_nat (length l) <= maxlen_of maxLen)%Z.
Proof.
  intros geom LF crun e minRunes maxRunes maxLen K s l Hwf H.
  destruct (string_contract _ _ _ _ _ _ _ _ _ _ Hwf H) as [_ [_ [HV [HB _]]]].
  apply byte_len_ge_length in HV. unfold byte_len in HV. lia.
Qed.

(* ------------------------------------------------------------------------------------------------ *)
(* Non-vacuity                                                                                        *)
(* ------------------------------------------------------------------------------------------------ *)
Definition sx_geom : nat -> N -> N := fun bl _ => N.of_nat bl.
Definition sx_e : gexp := GInt (-3) 122.
Example sx_wf : wf_g sx_e.
Proof. cbn [sx_e wf_g]. lia. Qed.
Definition sx_crun : prog -> M val := fun _ => ret VU.
Definition sx_K : N := 4503599627370496.    (* K_half: a coin word >= 2^52 says "continue" / "negative" *)
(* one iteration reads [more-coin; sign-coin; bias word (bit length); value bits].
   StringOfN(IntRange(-3,122), 1, 5, maxLen=2):
     'a' is written; -2 is drawn and skipped (not a code point); 'b' is written;
     'c' is drawn and skipped (it would exceed the budget of 2 bytes); the next coin says stop. *)
Definition sx_buf : list N :=
  [0; 0; 7; 97;
   4503599627370496; 4503599627370496; 2; 1;
   4503599627370496; 0; 7; 98;
   4503599627370496; 0; 7; 99;
   0; 5; 5].
Example sx_run :
  res (string_gen sx_geom 100 sx_crun sx_e 1 5 2 sx_K (mkSt (SBuf sx_buf) fresh_t)) = Ok [97; 98]%Z.
Proof. vm_compute. reflexivity. Qed.
(* the skipped attempts are in the recording but not in its pruned form; two words are left unread *)
Example sx_run_bits :
  let o := string_gen sx_geom 100 sx_crun sx_e 1 5 2 sx_K (mkSt (SBuf sx_buf) fresh_t) in
  rd (w o) = firstn 17 sx_buf /\
  rpd (w o) = [0; 0; 7; 97; 4503599627370496; 0; 7; 98; 0]%N /\
  src (post o) = SBuf [5; 5]%N.
Proof. vm_compute. repeat split. Qed.
(* the element generator really delivered the invalid value -2 on the words of the skipped attempt *)
Example sx_elem_invalid :
  res (run_g sx_geom 100 sx_crun sx_e (mkSt (SBuf [4503599627370496; 2; 1]%N) fresh_t)) = Ok (VZ (-2))
  /\ rune_len (rune_of (VZ (-2))) = (-1)%Z.
Proof. vm_compute. split; reflexivity. Qed.
(* without a byte budget the same words give "abc": the third rune was skipped only because of maxLen *)
Example sx_run_nolimit :
  res (string_gen sx_geom 100 sx_crun sx_e 1 5 (-1) sx_K (mkSt (SBuf sx_buf) fresh_t)) = Ok [97; 98; 99]%Z.
Proof. vm_compute. reflexivity. Qed.
(* the theorem applied to the run *)
Example sx_contract :
  (1 <= N.of_nat (length [97; 98]%Z) <= 5)%N /\
  Forall (fun r => (0 < rune_len r)%Z) [97; 98]%Z /\
  (byte_len [97; 98]%Z <= 2)%Z /\
  Forall (fun r => exists v, contract sx_e v /\ rune_of v = r) [97; 98]%Z.
Proof.
  destruct (string_contract _ _ _ _ _ _ _ _ _ _ sx_wf sx_run) as [H1 [H2 [H3 [H4 H5]]]].
  split; [split; [exact H1|apply H2; vm_compute; discriminate]|].
  split; [exact H3|]. split; [exact H4|exact H5].
Qed.

(* multi-byte runes: StringOfN(IntRange(0, 0x10FFFF), 1, 5, maxLen=5):
   U+20AC (3 bytes) is written; the surrogate U+D800 is skipped; U+1F600 (4 bytes) is skipped because
   3 + 4 > 5; U+00E9 (2 bytes) is written: 5 bytes in all *)
Definition sx_e2 : gexp := GInt 0 1114111.
Example sx_wf2 : wf_g sx_e2.
Proof. cbn [sx_e2 wf_g]. lia. Qed.
Definition sx_buf2 : list N :=
  [0; 0; 21; 8364;
   4503599627370496; 0; 21; 55296;
   4503599627370496; 0; 21; 128512;
   4503599627370496; 0; 21; 233;
   0].
Example sx_run2 :
  res (string_gen sx_geom 100 sx_crun sx_e2 1 5 5 sx_K (mkSt (SBuf sx_buf2) fresh_t)) = Ok [8364; 233]%Z
  /\ byte_len [8364; 233]%Z = 5%Z /\ rune_len 55296 = (-1)%Z /\ rune_len 128512 = 4%Z.
Proof. vm_compute. repeat split. Qed.
(* from the PRNG *)
Example sx_run_rnd :
  res (string_gen sx_geom 100 sx_crun sx_e2 2 6 (-1) sx_K (mkSt (SRnd (jsf_init 42)) fresh_t))
  = Ok [1082337; 333262; 111767; 659385]%Z.
Proof. vm_compute. reflexivity. Qed.
Example sx_valid_rnd :
  Forall (fun r => (0 <= r <= 1114111 /\ ~ (55296 <= r <= 57343))%Z) [1082337; 333262; 111767; 659385]%Z.
Proof. exact (string_valid_runes _ _ _ _ _ _ _ _ _ _ sx_wf2 sx_run_rnd). Qed.

Print Assumptions string_contract.
