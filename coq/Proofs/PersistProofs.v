(* Lemmas about the fail-file model (Model/Persist.v): save/load round trip, totality facts of the
   loader.  Names, glob and crash atomicity are in PersistNameProofs.v / PersistCrashProofs.v. *)
From Coq Require Import List NArith Bool Lia Arith.
Import ListNotations.
Require Import Rapid.Generated.Consts Rapid.Model.Persist.
Open Scope N_scope.

(* decide the N comparisons occurring in the goal, one at a time, pruning impossible branches *)
Ltac ncase :=
  match goal with
  | |- context [N.eqb ?a ?b] => destruct (N.eqb_spec a b); try lia
  | |- context [N.leb ?a ?b] => destruct (N.leb_spec a b); try lia
  | |- context [N.ltb ?a ?b] => destruct (N.ltb_spec a b); try lia
  end.
Ltac ncases := repeat (ncase; cbn [andb orb negb]); try reflexivity; try discriminate; try lia.

(* ------------------------------------------------------------------------------------------ *)
(* bytes_eqb *)
Lemma bytes_eqb_refl a : bytes_eqb a a = true.
Proof. induction a as [|x a IH]; cbn; [reflexivity|]. rewrite N.eqb_refl. exact IH. Qed.

Lemma bytes_eqb_eq a b : bytes_eqb a b = true <-> a = b.
Proof.
  split.
  - revert b. induction a as [|x a IH]; intros [|y b] H; cbn in H; try discriminate; [reflexivity|].
    apply andb_true_iff in H. destruct H as [H1 H2]. apply N.eqb_eq in H1. apply IH in H2. congruence.
  - intros ->. apply bytes_eqb_refl.
Qed.

Lemma bytes_eqb_neq a b : bytes_eqb a b = false <-> a <> b.
Proof.
  split.
  - intros H E. apply bytes_eqb_eq in E. congruence.
  - intros H. destruct (bytes_eqb a b) eqn:E; [|reflexivity]. apply bytes_eqb_eq in E. contradiction.
Qed.

(* ------------------------------------------------------------------------------------------ *)
(* split_on / join *)
Lemma split_on_nonempty sep l : split_on sep l <> [].
Proof.
  destruct l as [|c l]; cbn; [discriminate|].
  destruct (c =? sep); [discriminate|]. destruct (split_on sep l); discriminate.
Qed.

Lemma split_on_nosep sep a : ~ In sep a -> split_on sep a = [a].
Proof.
  induction a as [|c a IH]; intros H; cbn; [reflexivity|].
  destruct (N.eqb_spec c sep) as [E|E]; [exfalso; apply H; left; exact E|].
  rewrite IH; [reflexivity|]. intros Hin. apply H. right. exact Hin.
Qed.

Lemma split_on_app sep a b : ~ In sep a -> split_on sep (a ++ sep :: b) = a :: split_on sep b.
Proof.
  induction a as [|c a IH]; intros H; cbn.
  - rewrite N.eqb_refl. reflexivity.
  - destruct (N.eqb_spec c sep) as [E|E]; [exfalso; apply H; left; exact E|].
    rewrite IH; [reflexivity|]. intros Hin. apply H. right. exact Hin.
Qed.

Lemma split_on_parts sep l : Forall (fun p => ~ In sep p) (split_on sep l).
Proof.
  induction l as [|c l IH]; cbn.
  - constructor; [intros []|constructor].
  - destruct (N.eqb_spec c sep) as [E|E].
    + constructor; [intros []|exact IH].
    + destruct (split_on sep l) as [|x xs]; [constructor; [|constructor]|].
      * intros [H|[]]. congruence.
      * inversion IH as [|? ? Hx Hxs]; subst. constructor; [|exact Hxs].
        intros [H|H]; [congruence|contradiction].
Qed.

(* joining back what was split gives the original: Split/Join are inverse *)
Lemma join_split_on sep l : join [sep] (split_on sep l) = l.
Proof.
  induction l as [|c l IH]; cbn; [reflexivity|].
  destruct (N.eqb_spec c sep) as [E|E].
  - subst c. pose proof (split_on_nonempty sep l) as Hne.
    destruct (split_on sep l) as [|x xs]; [contradiction|]. cbn in *. rewrite IH. reflexivity.
  - pose proof (split_on_nonempty sep l) as Hne.
    destruct (split_on sep l) as [|x xs]; [contradiction|].
    destruct xs as [|y ys]; cbn in *; rewrite <- IH; reflexivity.
Qed.

Lemma split_on_join sep ls : ls <> [] -> Forall (fun p => ~ In sep p) ls -> split_on sep (join [sep] ls) = ls.
Proof.
  induction ls as [|x xs IH]; intros Hne HF; [contradiction|].
  inversion HF as [|? ? Hx Hxs]; subst.
  destruct xs as [|y ys].
  - cbn. apply split_on_nosep. exact Hx.
  - change (join [sep] (x :: y :: ys)) with (x ++ sep :: join [sep] (y :: ys)).
    rewrite split_on_app by exact Hx. rewrite IH; [reflexivity|discriminate|exact Hxs].
Qed.

(* ------------------------------------------------------------------------------------------ *)
(* printing and parsing numbers *)
Lemma digit_char_range d : d < 16 ->
  (48 <= digit_char d <= 57 /\ digit_char d = 48 + d /\ d < 10) \/ (97 <= digit_char d <= 102 /\ digit_char d = 87 + d /\ 10 <= d).
Proof. intros H. unfold digit_char. destruct (N.ltb_spec d 10); cbv iota; lia. Qed.

Lemma digit_val_char d : d < 16 -> digit_val (digit_char d) = Some d.
Proof.
  intros H. destruct (digit_char_range d H) as [[H1 [H2 H3]]|[H1 [H2 H3]]]; unfold digit_val; rewrite H2 in *.
  - destruct (N.leb_spec 48 (48 + d)); [|lia]. destruct (N.leb_spec (48 + d) 57); [|lia]. cbn [andb]. f_equal. lia.
  - destruct (N.leb_spec 48 (87 + d)); [|lia]. destruct (N.leb_spec (87 + d) 57); [lia|]. cbn [andb].
    destruct (N.leb_spec 97 (87 + d)); [|lia]. destruct (N.leb_spec (87 + d) 122); [|lia]. cbn [andb]. f_equal. lia.
Qed.

Lemma digits_aux_acc fuel base n acc : digits_aux fuel base n acc = digits_aux fuel base n [] ++ acc.
Proof.
  revert n acc. induction fuel as [|f IH]; intros n acc; cbn; [reflexivity|].
  destruct (n / base =? 0); [reflexivity|].
  rewrite IH. rewrite (IH _ [_]). rewrite <- app_assoc. reflexivity.
Qed.

(* the printed number ends with a digit character *)
Lemma digits_aux_last f base n : exists X, digits_aux (S f) base n [] = X ++ [digit_char (n mod base)].
Proof.
  cbn [digits_aux]. destruct (n / base =? 0); [exists []; reflexivity|].
  rewrite digits_aux_acc. eexists. reflexivity.
Qed.

Lemma print_uint_last base n : exists X, print_uint base n = X ++ [digit_char (n mod base)].
Proof. unfold print_uint. apply (digits_aux_last 63). Qed.

Definition is_digit_char (c : N) : Prop := 48 <= c <= 57 \/ 97 <= c <= 102.

Lemma digits_aux_chars fuel base n acc : 0 < base <= 16 ->
  Forall is_digit_char acc -> Forall is_digit_char (digits_aux fuel base n acc).
Proof.
  intros Hb. revert n acc. induction fuel as [|f IH]; intros n acc Hacc; cbn; [exact Hacc|].
  assert (Hd : is_digit_char (digit_char (n mod base))).
  { assert (n mod base < base) by (apply N.mod_lt; lia).
    destruct (digit_char_range (n mod base)) as [[H1 _]|[H1 _]]; [lia| |]; [left|right]; exact H1. }
  destruct (n / base =? 0); [constructor; assumption|]. apply IH. constructor; assumption.
Qed.

Lemma print_uint_chars base n : 0 < base <= 16 -> Forall is_digit_char (print_uint base n).
Proof. intros Hb. apply digits_aux_chars; [exact Hb|constructor]. Qed.

Lemma cutoff_pos base : 0 < cutoff base.
Proof. unfold cutoff. rewrite N.add_1_r. apply N.lt_0_succ. Qed.

Lemma parse_digits_step base b0 d rest n us :
  d < base -> base <= 16 -> n < cutoff base -> n * base + d <= maxu64 ->
  parse_digits base b0 (digit_char d :: rest) n us = parse_digits base b0 rest (n * base + d) us.
Proof.
  intros Hd Hb Hn Hm. cbn [parse_digits].
  assert (E95 : (digit_char d =? 95) = false).
  { destruct (digit_char_range d) as [[H _]|[H _]]; [lia| |]; apply N.eqb_neq; lia. }
  rewrite E95. cbn [andb]. rewrite digit_val_char by lia.
  destruct (N.leb_spec base d); [lia|]. destruct (N.leb_spec (cutoff base) n); [lia|].
  destruct (N.ltb_spec maxu64 (n * base + d)); [lia|]. reflexivity.
Qed.

Lemma parse_digits_print fuel base b0 : 2 <= base <= 16 ->
  forall n rest us, n <= maxu64 -> n < base ^ N.of_nat fuel ->
  parse_digits base b0 (digits_aux fuel base n [] ++ rest) 0 us = parse_digits base b0 rest n us.
Proof.
  intros Hb. induction fuel as [|f IH]; intros n rest us Hm Hlt.
  - cbn in Hlt. assert (n = 0) by lia. subst. reflexivity.
  - cbn [digits_aux].
    assert (Hdm : n = base * (n / base) + n mod base) by (apply N.div_mod'; lia).
    assert (Hmod : n mod base < base) by (apply N.mod_lt; lia).
    destruct (N.eqb_spec (n / base) 0) as [E|E].
    + cbn [app].
      assert (Hn : n mod base = n) by (rewrite E in Hdm; lia).
      rewrite parse_digits_step; [f_equal; lia|lia|lia|apply cutoff_pos|lia].
    + rewrite digits_aux_acc. rewrite <- app_assoc. cbn [app].
      assert (Hle : n / base <= n) by (apply N.div_le_upper_bound; nia).
      rewrite IH.
      * assert (Hc : n / base < cutoff base).
        { unfold cutoff. assert (n / base <= maxu64 / base) by (apply N.div_le_mono; lia). lia. }
        rewrite parse_digits_step; [f_equal; lia|lia|lia|exact Hc|lia].
      * lia.
      * rewrite Nat2N.inj_succ, N.pow_succ_r' in Hlt. apply N.div_lt_upper_bound; lia.
Qed.

Lemma pow64_le base : 2 <= base -> maxu64 < base ^ N.of_nat 64.
Proof.
  intros Hb. assert (H : 2 ^ 64 <= base ^ 64) by (apply N.pow_le_mono_l; lia).
  change (N.of_nat 64) with 64. change (2 ^ 64) with 18446744073709551616 in H. unfold maxu64. lia.
Qed.

Lemma parse_digits_print_uint base b0 n rest us : 2 <= base <= 16 -> n <= maxu64 ->
  parse_digits base b0 (print_uint base n ++ rest) 0 us = parse_digits base b0 rest n us.
Proof.
  intros Hb Hn. unfold print_uint. apply parse_digits_print; [exact Hb|exact Hn|].
  pose proof (pow64_le base). lia.
Qed.

Lemma print_uint_nonempty base n : print_uint base n <> [].
Proof. destruct (print_uint_last base n) as [X E]. rewrite E. destruct X; discriminate. Qed.

Lemma parse_uint_10_unfold c t :
  parse_uint 10 (c :: t) =
  match parse_digits 10 false (c :: t) 0 false with
  | DErr e => PErr e
  | DOk n us => if us && negb (underscore_ok (c :: t)) then PErr PSyntax else POk n
  end.
Proof. reflexivity. Qed.

Lemma parse_uint_0x_unfold c t :
  parse_uint 0 (48 :: 120 :: c :: t) =
  match parse_digits 16 true (c :: t) 0 false with
  | DErr e => PErr e
  | DOk n us => if us && negb (underscore_ok (48 :: 120 :: c :: t)) then PErr PSyntax else POk n
  end.
Proof. reflexivity. Qed.

(* "%v" of the seed parses back in base 10 *)
Lemma parse_uint_10_print seed : seed <= maxu64 -> parse_uint 10 (print_uint 10 seed) = POk seed.
Proof.
  intros H. pose proof (print_uint_nonempty 10 seed) as Hne.
  destruct (print_uint 10 seed) as [|c0 t0] eqn:E; [contradiction|].
  rewrite parse_uint_10_unfold. rewrite <- E. rewrite <- (app_nil_r (print_uint 10 seed)).
  rewrite parse_digits_print_uint by (try exact H; lia). reflexivity.
Qed.

(* "0x%x" of a word parses back in base 0 *)
Lemma parse_uint_0_word u : u <= maxu64 -> parse_uint 0 (word_line u) = POk u.
Proof.
  intros H. pose proof (print_uint_nonempty 16 u) as Hne. unfold word_line.
  destruct (print_uint 16 u) as [|c0 t0] eqn:E; [contradiction|].
  cbn [app]. rewrite parse_uint_0x_unfold. rewrite <- E. rewrite <- (app_nil_r (print_uint 16 u)).
  rewrite parse_digits_print_uint by (try exact H; lia). reflexivity.
Qed.

Lemma parse_words_lines buf : Forall (fun u => u <= maxu64) buf -> parse_words (map word_line buf) = Some buf.
Proof.
  induction buf as [|u buf IH]; intros HF; [reflexivity|].
  inversion HF; subst. cbn [map parse_words]. rewrite parse_uint_0_word by assumption.
  rewrite IH by assumption. reflexivity.
Qed.

(* ------------------------------------------------------------------------------------------ *)
(* spaces *)
Lemma is_ascii_space_low c : is_ascii_space c = true -> c <= 32.
Proof. unfold is_ascii_space. rewrite !orb_true_iff, !N.eqb_eq. lia. Qed.

Lemma is_space2_high c1 c2 : is_space2 c1 c2 = true -> 128 <= c1 /\ 128 <= c2.
Proof. unfold is_space2. rewrite andb_true_iff, orb_true_iff, !N.eqb_eq. lia. Qed.

Lemma is_space3_high c1 c2 c3 : is_space3 c1 c2 c3 = true -> 128 <= c1 /\ 128 <= c2 /\ 128 <= c3.
Proof.
  unfold is_space3.
  destruct (N.eqb_spec c1 225); [rewrite andb_true_iff, !N.eqb_eq; lia|].
  destruct (N.eqb_spec c1 226).
  - destruct (N.eqb_spec c2 128).
    + rewrite !orb_true_iff, andb_true_iff, !N.leb_le, !N.eqb_eq. lia.
    + rewrite andb_true_iff, !N.eqb_eq. lia.
  - destruct (N.eqb_spec c1 227); [rewrite andb_true_iff, !N.eqb_eq; lia|discriminate].
Qed.

(* a visible ASCII byte: below 128 and not an ASCII space *)
Definition plain (c : N) : Prop := c < 128 /\ is_ascii_space c = false.

Lemma is_space2_plain_l c c2 : plain c -> is_space2 c c2 = false.
Proof. intros [H _]. destruct (is_space2 c c2) eqn:E; [apply is_space2_high in E; lia|reflexivity]. Qed.
Lemma is_space2_plain_r c c1 : plain c -> is_space2 c1 c = false.
Proof. intros [H _]. destruct (is_space2 c1 c) eqn:E; [apply is_space2_high in E; lia|reflexivity]. Qed.
Lemma is_space3_plain_1 c a b : plain c -> is_space3 c a b = false.
Proof. intros [H _]. destruct (is_space3 c a b) eqn:E; [apply is_space3_high in E; lia|reflexivity]. Qed.
Lemma is_space3_plain_2 c a b : plain c -> is_space3 a c b = false.
Proof. intros [H _]. destruct (is_space3 a c b) eqn:E; [apply is_space3_high in E; lia|reflexivity]. Qed.
Lemma is_space3_plain_3 c a b : plain c -> is_space3 a b c = false.
Proof. intros [H _]. destruct (is_space3 a b c) eqn:E; [apply is_space3_high in E; lia|reflexivity]. Qed.

Lemma strip_loop_none step f l : step l = None -> strip_loop step f l = l.
Proof. intros H. destruct f; cbn; [reflexivity|]. rewrite H. reflexivity. Qed.

Lemma strip_prefix_plain c l : plain c -> strip_space_prefix (c :: l) = None.
Proof.
  intros Hc. pose proof Hc as [_ Hs]. cbn. rewrite Hs.
  destruct l as [|c2 l]; [reflexivity|]. rewrite is_space2_plain_l by exact Hc.
  destruct l as [|c3 l]; [reflexivity|]. rewrite is_space3_plain_1 by exact Hc. reflexivity.
Qed.

Lemma strip_suffix_plain c r : plain c -> strip_space_suffix_rev (c :: r) = None.
Proof.
  intros Hc. pose proof Hc as [_ Hs]. cbn. rewrite Hs.
  destruct r as [|c2 r]; [reflexivity|]. rewrite is_space2_plain_r by exact Hc.
  destruct r as [|c3 r]; [reflexivity|]. rewrite is_space3_plain_3 by exact Hc. reflexivity.
Qed.

(* a string that does not start with a space rune still does not after a plain byte is appended *)
Lemma strip_prefix_app v c rest : strip_space_prefix v = None -> v <> [] -> plain c ->
  strip_space_prefix (v ++ c :: rest) = None.
Proof.
  intros H Hne Hc. destruct v as [|a [|b [|d t]]]; [contradiction| | |].
  - cbn in *. destruct (is_ascii_space a); [discriminate|].
    rewrite is_space2_plain_r by exact Hc. destruct rest; [reflexivity|].
    rewrite is_space3_plain_2 by exact Hc. reflexivity.
  - cbn in *. destruct (is_ascii_space a); [discriminate|]. destruct (is_space2 a b); [discriminate|].
    rewrite is_space3_plain_3 by exact Hc. reflexivity.
  - cbn in *. destruct (is_ascii_space a); [discriminate|]. destruct (is_space2 a b); [discriminate|].
    destruct (is_space3 a b d); [discriminate|reflexivity].
Qed.

Lemma trim_left_id l : strip_space_prefix l = None -> trim_left l = l.
Proof. intros H. unfold trim_left. apply strip_loop_none. exact H. Qed.

Lemma trim_right_alt l : trim_right l = rev (strip_loop strip_space_suffix_rev (length l) (rev l)).
Proof. unfold trim_right. rewrite !rev_append_rev, !app_nil_r. reflexivity. Qed.

Lemma trim_right_id l : strip_space_suffix_rev (rev l) = None -> trim_right l = l.
Proof.
  intros H. rewrite trim_right_alt. rewrite strip_loop_none by exact H. apply rev_involutive.
Qed.

(* trimming never removes a leading plain byte *)
Lemma strip_suffix_keeps r c r2 : plain c -> strip_space_suffix_rev (r ++ [c]) = Some r2 -> exists r', r2 = r' ++ [c].
Proof.
  intros Hc H. pose proof Hc as [_ Hs].
  destruct r as [|a [|b [|d t]]]; cbn in H.
  - rewrite Hs in H. discriminate.
  - destruct (is_ascii_space a); [inversion H; exists []; reflexivity|].
    rewrite is_space2_plain_l in H by exact Hc. discriminate.
  - destruct (is_ascii_space a); [inversion H; exists [b]; reflexivity|].
    destruct (is_space2 b a); [inversion H; exists []; reflexivity|].
    rewrite is_space3_plain_1 in H by exact Hc. discriminate.
  - destruct (is_ascii_space a); [inversion H; exists (b :: d :: t); reflexivity|].
    destruct (is_space2 b a); [inversion H; exists (d :: t); reflexivity|].
    destruct (is_space3 d b a); [inversion H; exists t; reflexivity|discriminate].
Qed.

Lemma strip_loop_suffix_keeps f r c : plain c -> exists r', strip_loop strip_space_suffix_rev f (r ++ [c]) = r' ++ [c].
Proof.
  intros Hc. revert r. induction f as [|f IH]; intros r; cbn; [exists r; reflexivity|].
  destruct (strip_space_suffix_rev (r ++ [c])) as [r2|] eqn:E; [|exists r; reflexivity].
  destruct (strip_suffix_keeps _ _ _ Hc E) as [r' ->]. apply IH.
Qed.

Lemma trim_space_keeps_first c l : plain c -> exists l', trim_space (c :: l) = c :: l'.
Proof.
  intros Hc. unfold trim_space. rewrite trim_left_id by (apply strip_prefix_plain; exact Hc).
  rewrite trim_right_alt. cbn [rev].
  destruct (strip_loop_suffix_keeps (length (c :: l)) (rev l) c Hc) as [r' E]. rewrite E.
  rewrite rev_app_distr. cbn. eexists. reflexivity.
Qed.

(* ------------------------------------------------------------------------------------------ *)
(* lines *)
Lemma drop_cr_last X d : d <> 13 -> drop_cr (X ++ [d]) = X ++ [d].
Proof.
  intros Hd. induction X as [|x X IH]; cbn.
  - destruct (N.eqb_spec d 13); [contradiction|reflexivity].
  - destruct (X ++ [d]) as [|y Y] eqn:E; [destruct X; discriminate|]. rewrite IH. reflexivity.
Qed.

Lemma drop_cr_cons2 a b l : drop_cr (a :: b :: l) = a :: drop_cr (b :: l).
Proof. reflexivity. Qed.

Lemma scan_tokens_app A B : B <> [] -> scan_tokens (A ++ B) = map drop_cr A ++ scan_tokens B.
Proof.
  intros HB. induction A as [|a A IH]; [reflexivity|].
  cbn [app map]. destruct (A ++ B) as [|y Y] eqn:E; [destruct A; [contradiction|discriminate]|].
  cbn [scan_tokens]. rewrite <- IH. reflexivity.
Qed.

Lemma scan_tokens_nonempty B : Forall (fun l => l <> []) B -> scan_tokens B = map drop_cr B.
Proof.
  induction B as [|b B IH]; intros HF; [reflexivity|]. inversion HF; subst.
  destruct B as [|b2 B]; [destruct b; [contradiction|reflexivity]|].
  change (scan_tokens (b :: b2 :: B)) with (drop_cr b :: scan_tokens (b2 :: B)).
  rewrite IH by assumption. reflexivity.
Qed.

Lemma filter_none {A} (f : A -> bool) l : Forall (fun x => f x = false) l -> filter f l = [].
Proof. induction 1 as [|x l Hx _ IH]; cbn; [reflexivity|]. rewrite Hx. exact IH. Qed.

Lemma filter_all {A} (f : A -> bool) l : Forall (fun x => f x = true) l -> filter f l = l.
Proof. induction 1 as [|x l Hx _ IH]; cbn; [reflexivity|]. rewrite Hx, IH. reflexivity. Qed.

(* a comment line, as written by saveFailFile, is never a data line - whatever bytes it carries *)
Lemma comment_token_skipped s : is_data_line (trim_space (drop_cr (35 :: 32 :: s))) = false.
Proof.
  rewrite drop_cr_cons2.
  assert (Hp : plain 35) by (split; [lia|reflexivity]).
  destruct (trim_space_keeps_first 35 (drop_cr (32 :: s)) Hp) as [l' E]. rewrite E. reflexivity.
Qed.

(* a line that ends with a digit, does not start with a space or '#': scanned and trimmed unchanged, kept *)
Definition good_line (L : bytes) : Prop :=
  (exists X d, L = X ++ [digit_char d] /\ d < 16) /\ strip_space_prefix L = None /\ is_data_line L = true /\ ~ In 10 L.

Lemma digit_char_plain d : d < 16 -> plain (digit_char d).
Proof.
  intros H. destruct (digit_char_range d H) as [[H1 _]|[H1 _]]; (split; [lia|]);
    unfold is_ascii_space; ncases.
Qed.

Lemma good_line_fix L : good_line L -> trim_space (drop_cr L) = L /\ is_data_line L = true /\ L <> [].
Proof.
  intros [[X [d [E Hd]]] [Hp [Hdl Hnl]]]. split; [|split; [exact Hdl|]].
  - pose proof (digit_char_plain d Hd) as Hpl.
    rewrite E. rewrite drop_cr_last.
    + unfold trim_space. rewrite <- E. rewrite trim_left_id by exact Hp. apply trim_right_id.
      rewrite E, rev_app_distr. cbn. apply strip_suffix_plain. exact Hpl.
    + destruct (digit_char_range d Hd) as [[H1 _]|[H1 _]]; lia.
  - rewrite E. destruct X; discriminate.
Qed.

Lemma is_digit_char_facts c : is_digit_char c -> c <> 10 /\ c <> 35 /\ plain c.
Proof.
  intros H. split; [destruct H; lia|]. split; [destruct H; lia|]. split; [destruct H; lia|].
  unfold is_ascii_space. destruct H; ncases.
Qed.

Lemma digits_not_in c l : ~ is_digit_char c -> Forall is_digit_char l -> ~ In c l.
Proof. intros Hc HF Hin. rewrite Forall_forall in HF. apply Hc. apply HF. exact Hin. Qed.

Lemma word_line_good u : good_line (word_line u).
Proof.
  unfold good_line, word_line. destruct (print_uint_last 16 u) as [X E]. rewrite E.
  assert (Hm : u mod 16 < 16) by (apply N.mod_lt; lia).
  split; [exists ([48; 120] ++ X), (u mod 16); split; [rewrite <- app_assoc; reflexivity|exact Hm]|].
  split; [apply strip_prefix_plain; split; [lia|reflexivity]|].
  split; [reflexivity|].
  rewrite <- E. intros [H|[H|H]]; try discriminate.
  revert H. apply digits_not_in; [unfold is_digit_char; lia|apply print_uint_chars; lia].
Qed.

Lemma split_comments ss rest : Forall (fun p => ~ In 10 p) ss ->
  split_on 10 (concat (map comment_line ss) ++ rest) = map (fun s => 35 :: 32 :: s) ss ++ split_on 10 rest.
Proof.
  induction 1 as [|s ss Hs _ IH]; cbn [map concat app]; [reflexivity|].
  unfold comment_line at 1. rewrite <- !app_assoc. cbn [app].
  change (35 :: 32 :: s ++ 10 :: concat (map comment_line ss) ++ rest)
    with ((35 :: 32 :: s) ++ 10 :: (concat (map comment_line ss) ++ rest)).
  rewrite split_on_app; [rewrite IH; reflexivity|].
  intros [H|[H|H]]; try discriminate. contradiction.
Qed.

Section RoundTrip.
  Variables (ver out : bytes) (seed : N) (buf : list N).
  Hypothesis ver_nonempty : ver <> [].
  Hypothesis ver_no_hash : ~ In 35 ver.
  Hypothesis ver_no_nl : ~ In 10 ver.
  Hypothesis ver_no_leading_space : strip_space_prefix ver = None.
  Hypothesis seed_64 : seed <= maxu64.
  Hypothesis buf_64 : Forall (fun u => u <= maxu64) buf.

  Lemma header_line_good : good_line (header_line ver seed).
  Proof.
    unfold good_line, header_line. destruct (print_uint_last 10 seed) as [X E].
    assert (Hm : seed mod 10 < 16) by (assert (seed mod 10 < 10) by (apply N.mod_lt; lia); lia).
    pose proof (print_uint_chars 10 seed ltac:(lia)) as Hch.
    split; [|split; [|split]].
    - exists (ver ++ [35] ++ X), (seed mod 10). split; [|exact Hm]. rewrite E, <- !app_assoc. reflexivity.
    - cbn [app]. apply strip_prefix_app; [assumption|assumption|split; [lia|reflexivity]].
    - destruct ver as [|a v]; [contradiction|]. cbn.
      destruct (N.eqb_spec a 35) as [Ea|Ea]; [exfalso; apply ver_no_hash; left; congruence|reflexivity].
    - intros Hin. apply in_app_or in Hin. destruct Hin as [Hin|Hin]; [contradiction|].
      change ([35] ++ print_uint 10 seed) with (35 :: print_uint 10 seed) in Hin.
      destruct Hin as [Hin|Hin]; [discriminate|].
      revert Hin. apply digits_not_in; [unfold is_digit_char; lia|exact Hch].
  Qed.

  Definition data_part : list bytes := header_line ver seed :: map word_line buf.

  Lemma data_part_good : Forall good_line data_part.
  Proof.
    constructor; [apply header_line_good|]. apply Forall_forall. intros l Hin.
    apply in_map_iff in Hin. destruct Hin as [u [<- _]]. apply word_line_good.
  Qed.

  Lemma split_save_bytes :
    split_on 10 (save_bytes ver out seed buf) = map (fun s => 35 :: 32 :: s) (split_on 10 out) ++ data_part.
  Proof.
    unfold save_bytes, save_chunks. rewrite concat_app. cbn [concat]. rewrite app_nil_r.
    rewrite split_comments by apply split_on_parts. f_equal.
    unfold body. apply split_on_join; [discriminate|].
    eapply Forall_impl; [|apply data_part_good]. intros l [_ [_ [_ H]]]. exact H.
  Qed.

  Lemma data_lines_save : data_lines (save_bytes ver out seed buf) = data_part.
  Proof.
    unfold data_lines, scan_lines. rewrite split_save_bytes.
    rewrite scan_tokens_app by discriminate.
    rewrite scan_tokens_nonempty.
    2:{ eapply Forall_impl; [|apply data_part_good]. intros l H. apply good_line_fix in H. tauto. }
    rewrite map_app, filter_app, !map_map.
    rewrite filter_none.
    2:{ apply Forall_forall. intros x Hin. apply in_map_iff in Hin. destruct Hin as [s [<- _]].
        apply comment_token_skipped. }
    cbn [app].
    assert (E : map (fun x => trim_space (drop_cr x)) data_part = data_part).
    { rewrite <- (map_id data_part) at 2. apply map_ext_in. intros l Hin.
      pose proof data_part_good as HF. rewrite Forall_forall in HF. apply HF in Hin.
      apply good_line_fix in Hin. tauto. }
    rewrite E. apply filter_all.
    eapply Forall_impl; [|apply data_part_good]. intros l H. apply good_line_fix in H. tauto.
  Qed.

  Lemma load_save_roundtrip : load_bytes (save_bytes ver out seed buf) = LOk ver seed buf.
  Proof.
    unfold load_bytes. rewrite data_lines_save. unfold data_part, header_line.
    cbn [app]. rewrite split_on_app by exact ver_no_hash.
    rewrite split_on_nosep.
    2:{ apply digits_not_in; [unfold is_digit_char; lia|apply print_uint_chars; lia]. }
    rewrite parse_uint_10_print by exact seed_64.
    rewrite parse_words_lines by exact buf_64. reflexivity.
  Qed.
End RoundTrip.
