(* GenPure.v -- in the model a generator expression is an immutable value and run_g is a function of
   the state of the check that draws from it (its T and its bit stream).  There is no place where a
   generator could keep state between uses, so what a check draws does not depend on which other
   checks share the generator, or on what they did with it before or in between.  These statements
   are true by functionality; they are here so that a change of the model that gave generators
   hidden state (an extra state component threaded through run_g, say) would break them. *)
From Coq Require Import List NArith.
Require Import Rapid.Model.Base Rapid.Model.Syntax Rapid.Model.Monad Rapid.Model.Prim Rapid.Model.Interp.
Import ListNotations.

Section GenPure.
  Variable geom : nat -> N -> N.
  Variable LF : nat.
  Variable crun : prog -> M val.

  (* the result of drawing is determined by the generator value and the drawing check's own state *)
  Lemma gen_pure : forall (g : gexp) (s s' : st),
    s = s' -> run_g geom LF crun g s = run_g geom LF crun g s'.
  Proof. intros g s s' E. rewrite E. reflexivity. Qed.

  (* one generator value used by a sequence of checks (states), in any order: the k-th use yields
     what that check would get if it were the only user *)
  Definition run_shared (g : gexp) (users : list st) : list (out val) :=
    map (run_g geom LF crun g) users.

  Lemma gen_shared : forall (g : gexp) (before after : list st) (s : st) (d : out val),
    nth (length before) (run_shared g (before ++ s :: after)) d = run_g geom LF crun g s.
  Proof.
    intros g before after s d. unfold run_shared. rewrite map_app. cbn.
    rewrite app_nth2; rewrite map_length; [|apply le_n]. rewrite PeanoNat.Nat.sub_diag. reflexivity.
  Qed.
End GenPure.
