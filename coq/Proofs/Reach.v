(* C18: every value an integer generator's contract allows is produced by some bitstream.  The witness
   streams are explicit: [k; v] where k is a 53-bit word at which the real genGeom selects the bit length
   of v (read off the regenerated table Generated/GeomTable.v). *)
From Coq Require Import Lia ZArith ZifyN ZifyNat ZifyBool List.
Require Import Rapid.Model.Base Rapid.Model.Syntax Rapid.Model.Monad Rapid.Model.Prim Rapid.Model.Corr.
Require Import Rapid.Proofs.Inv Rapid.Proofs.IntProofs.
Require Import Rapid.Generated.GeomTable Rapid.Model.Witness.
Import ListNotations.
Ltac Zify.zify_post_hook ::= Z.div_mod_to_equations.
Local Open Scope N_scope.
Arguments N.leb : simpl never.
Arguments N.ltb : simpl never.
Arguments N.eqb : simpl never.
Arguments Nat.ltb : simpl never.
Arguments mask : simpl never.

Definition steps {A} (m : M A) (s : st) (a : A) (s' : st) : Prop := res (m s) = Ok a /\ post (m s) = s'.

Lemma steps_bind A B (m : M A) (f : A -> M B) s a s1 b s2 :
  steps m s a s1 -> steps (f a) s1 b s2 -> steps (bind m f) s b s2.
Proof. intros [H1 H2] [H3 H4]. unfold steps, bind. rewrite H1. cbn. rewrite H2. split; assumption. Qed.
Lemma steps_ret A (a : A) s : steps (ret a) s a s.
Proof. split; reflexivity. Qed.
Lemma steps_group_draw sa n x l s :
  src s = SBuf (x :: l) -> steps (group sa (drawBits n)) s (mask n x) (with_src s (SBuf l)).
Proof.
  intros Hs. unfold steps, group, group_d, bind, drawBits. rewrite Hs. cbn. split; reflexivity.
Qed.
Lemma steps_group_d_draw sa n x l s (d : word -> bool) :
  src s = SBuf (x :: l) ->
  steps (group_d sa (u <- drawBits n ;; ret (u, d u))) s (mask n x) (with_src s (SBuf l)).
Proof.
  intros Hs. unfold steps, group_d, bind, drawBits. rewrite Hs. cbn. destruct (d (mask n x)); cbn; split; reflexivity.
Qed.
Lemma with_src_src s x : src (with_src s x) = x. Proof. reflexivity. Qed.
Lemma with_src_twice s x y : with_src (with_src s x) y = with_src s y. Proof. reflexivity. Qed.

Lemma size_le_of_lt x b : x < 2 ^ b -> N.size x <= b.
Proof.
  intros H. destruct x as [|p]; [cbn; lia|]. rewrite N.size_log2 by discriminate.
  apply N.log2_lt_pow2 in H; lia.
Qed.
Lemma size_mono x y : x <= y -> N.size x <= N.size y.
Proof. intros H. apply size_le_of_lt. eapply N.le_lt_trans; [exact H|apply size_bound]. Qed.

Section Reach.
  Variable geom : nat -> N -> N.

  (* one iteration suffices when the drawn word is within the bound *)
  Lemma biased_loop_hit fuel bl max n v l s :
    (bl <= 64)%nat -> v < 2 ^ N.of_nat bl -> v <= max -> src s = SBuf (v :: l) ->
    exists fl fr, steps (biased_loop (S fuel) bl max n) s (v, fl, fr) (with_src s (SBuf l)).
  Proof.
    intros Hbl Hv Hm Hs. cbn [biased_loop].
    assert (Hlt : Nat.ltb 64 bl = false) by (apply Nat.ltb_ge; lia).
    assert (Hle : N.leb v max = true) by (apply N.leb_le; exact Hm).
    eexists _, _. eapply steps_bind.
    - apply (steps_group_d_draw false bl v l s (fun u => negb (Nat.ltb 64 bl || N.leb u max))). exact Hs.
    - rewrite (mask_small bl v Hbl Hv). rewrite Hlt, Hle. cbn [orb negb].
      unfold biased_fin. rewrite Hlt. apply steps_ret.
  Qed.

  (* the word k selects a bit length n with size v <= n <= bitlen: the value v is produced *)
  Theorem uint_hit fuel max v k l s :
    max < 2 ^ 64 -> v <= max -> k < 2 ^ 53 ->
    N.size v <= geom (len64 max) k <= N.of_nat (len64 max) ->
    src s = SBuf (k :: v :: l) ->
    exists fl fr, steps (genUintNBiased geom (S fuel) max) s (v, fl, fr) (with_src s (SBuf l)).
  Proof.
    intros Hmax Hv Hk [Hn1 Hn2] Hs. unfold genUintNBiased.
    assert (Hb64 : (len64 max <= 64)%nat).
    { unfold len64. pose proof (size_le_of_lt max 64 Hmax). lia. }
    set (n := geom (len64 max) k) in *.
    set (bl := if N.ltb n (N.of_nat (len64 max)) then N.to_nat n
               else if N.ltb (N.of_nat (len64 max)) n && N.leb (N.of_nat (over_thr (len64 max))) n then 65%nat
               else len64 max).
    assert (Hbl : (bl <= 64)%nat /\ N.size v <= N.of_nat bl).
    { subst bl. destruct (N.ltb_spec n (N.of_nat (len64 max))) as [Ha|Ha]; [lia|].
      destruct (N.ltb_spec (N.of_nat (len64 max)) n) as [Hc|Hc]; [lia|]. cbn [andb]. lia. }
    destruct Hbl as [Hbl Hsz].
    destruct (biased_loop_hit fuel bl max n v l (with_src s (SBuf (v :: l)))) as [fl [fr Hst]]; try assumption.
    - eapply N.lt_le_trans; [apply size_bound|]. apply N.pow_le_mono_r; lia.
    - reflexivity.
    - exists fl, fr. eapply steps_bind.
      + apply steps_group_draw. exact Hs.
      + rewrite (mask_small 53 k) by (try lia; exact Hk). fold n. fold bl. rewrite with_src_twice in Hst. exact Hst.
  Qed.
End Reach.

(* ---- the table regenerated from the real genGeom offers every bit length 1..bitlen ---- *)
Definition offers_all (tab : list (nat * list N)) (B : nat) : bool :=
  forallb (fun bl => forallb (fun n => N.eqb (geom_of tab bl (geom_wit_of tab bl n)) (N.of_nat n)
                                        && N.ltb (geom_wit_of tab bl n) (2 ^ 53))
                             (seq 1 bl)) (seq 0 B).
(* the lifting is proved for an arbitrary table and bound, so that using it never makes the kernel evaluate the sweep *)
Lemma offers_all_spec tab B : offers_all tab B = true ->
  forall bl n, (bl < B)%nat -> (1 <= n <= bl)%nat ->
    geom_of tab bl (geom_wit_of tab bl n) = N.of_nat n /\ geom_wit_of tab bl n < 2 ^ 53.
Proof.
  intros H bl n Hbl Hn. unfold offers_all in H.
  rewrite forallb_forall in H. specialize (H bl). rewrite in_seq in H. specialize (H ltac:(lia)).
  rewrite forallb_forall in H. specialize (H n). rewrite in_seq in H. specialize (H ltac:(lia)).
  apply andb_prop in H. destruct H as [H1 H2]. apply N.eqb_eq in H1. apply N.ltb_lt in H2. split; assumption.
Qed.
Lemma table_offers_all_true : offers_all geom_tab 65 = true.
Proof. vm_cast_no_check (eq_refl true). Qed.
Lemma table_offers bl n : (bl <= 64)%nat -> (1 <= n <= bl)%nat ->
  geom_of geom_tab bl (geom_wit bl n) = N.of_nat n /\ geom_wit bl n < 2 ^ 53.
Proof.
  intros Hbl Hn. exact (offers_all_spec geom_tab 65 table_offers_all_true bl n ltac:(lia) Hn).
Qed.


Theorem uint_reachable fuel max v l s :
  max < 2 ^ 64 -> v <= max ->
  src s = SBuf (uint_wit max v :: v :: l) ->
  exists fl fr, steps (genUintNBiased (geom_of geom_tab) (S fuel) max) s (v, fl, fr) (with_src s (SBuf l)).
Proof.
  intros Hmax Hv Hs.
  assert (Hb64 : (len64 max <= 64)%nat).
  { unfold len64. pose proof (size_le_of_lt max 64 Hmax). lia. }
  assert (Hvm : (len64 v <= len64 max)%nat).
  { unfold len64. pose proof (size_mono v max Hv). lia. }
  destruct (Nat.eq_dec (len64 max) 0) as [Hz|Hnz].
  - (* max = 0: any selector gives 0 *)
    assert (max = 0) by (unfold len64 in Hz; destruct max; [reflexivity|cbn in Hz; lia]). subst max.
    assert (v = 0) by lia. subst v.
    unfold genUintNBiased. change (len64 0) with 0%nat.
    set (k := uint_wit 0 0) in *. set (n := geom_of geom_tab 0 (mask 53 k)).
    eexists _, _. eapply steps_bind; [apply steps_group_draw; exact Hs|]. fold n.
    destruct (N.ltb n (N.of_nat 0)) eqn:E1; [apply N.ltb_lt in E1; lia|].
    cbn [biased_loop]. eapply steps_bind.
    + apply (steps_group_d_draw false _ 0 l _ (fun u => negb (Nat.ltb 64 _ || N.leb u 0))). reflexivity.
    + assert (Hm0 : forall b, mask b 0 = 0) by (intros b; unfold mask; apply N.land_0_l). rewrite Hm0.
      change (N.leb 0 0) with true. rewrite Bool.orb_true_r. cbn [negb]. unfold biased_fin.
      rewrite with_src_twice.
      destruct (Nat.ltb 64 _); apply steps_ret.
  - destruct (table_offers (len64 max) (Nat.max 1 (len64 v))) as [Hg Hk]; [exact Hb64|lia|].
    fold (uint_wit max v) in Hg, Hk. apply (uint_hit _ fuel max v (uint_wit max v)); try assumption. rewrite Hg. unfold len64 in *. lia.
Qed.

(* ---- ranges ---- *)

Theorem urange_reachable fuel mn mx u l s :
  mx < 2 ^ 64 -> mn <= u <= mx ->
  src s = SBuf (urange_wit mn mx u ++ l) ->
  exists fl fr, steps (genUintRange (geom_of geom_tab) (S fuel) mn mx true) s (u, fl, fr) (with_src s (SBuf l)).
Proof.
  intros Hmx [Hlo Hhi] Hs. unfold genUintRange.
  destruct (N.ltb_spec mx mn) as [Hc|Hc]; [lia|].
  destruct (uint_reachable fuel (mx - mn) (u - mn) l s) as [fl [fr Hst]]; [lia|lia|exact Hs|].
  exists fl, fr. eapply steps_bind; [exact Hst|]. cbv beta iota.
  replace (wrapN (mn + (u - mn))) with u; [apply steps_ret|].
  unfold wrapN. rewrite W64_val. rewrite N.mod_small; lia.
Qed.

Lemma steps_coin K c l s : src s = SBuf (c :: l) -> steps (coin K) s (N.leb K (mask 53 c)) (with_src s (SBuf l)).
Proof.
  intros Hs. unfold coin. eapply steps_bind; [apply steps_group_draw; exact Hs|]. apply steps_ret.
Qed.


Theorem int_reachable fuel (mn mx v : Z) l s :
  (- 2 ^ 63 <= mn)%Z -> (mx < 2 ^ 63)%Z -> (mn <= v <= mx)%Z ->
  src s = SBuf (int_wit mn mx v ++ l) ->
  exists fl fr, steps (genIntRange (geom_of geom_tab) (S fuel) mn mx) s (v, fl, fr) (with_src s (SBuf l)).
Proof.
  intros Hmn Hmx [Hlo Hhi] Hs. unfold genIntRange, int_wit in *.
  assert (HW : Z.of_N W64 = (2 ^ 64)%Z) by reflexivity.
  destruct (Z.ltb_spec mx mn) as [Hc|Hc]; [lia|].
  destruct (Z.leb_spec 0 mn) as [Hp|Hp]; [|destruct (Z.leb_spec mx 0) as [Hq|Hq]; [|destruct (Z.leb_spec 0 v) as [Hv|Hv]]].
  - (* non-negative range *)
    destruct (urange_reachable fuel (wrap mn) (wrap mx) (Z.to_N v) l (with_src s (SBuf (urange_wit (wrap mn) (wrap mx) (Z.to_N v) ++ l))))
      as [fl [fr Hst]]; [unfold wrap; rewrite HW; lia|unfold wrap; rewrite HW; lia|reflexivity|].
    eexists _, _. eapply steps_bind; [apply steps_coin; exact Hs|].
    replace (N.leb K_never (mask 53 0)) with false by reflexivity.
    eapply steps_bind; [exact Hst|]. cbv beta iota. rewrite with_src_twice.
    replace (to_int64 (Z.to_N v)) with v; [apply steps_ret|].
    unfold to_int64. rewrite HW. destruct (Z.ltb_spec (Z.of_N (Z.to_N v)) 9223372036854775808) as [Hs1|Hs1]; lia.
  - (* non-positive range *)
    destruct (urange_reachable fuel (wrap (- mx)) (wrap (- mn)) (Z.to_N (- v)) l
                (with_src s (SBuf (urange_wit (wrap (- mx)) (wrap (- mn)) (Z.to_N (- v)) ++ l))))
      as [fl [fr Hst]]; [unfold wrap; rewrite HW; lia|unfold wrap; rewrite HW; lia|reflexivity|].
    eexists _, _. eapply steps_bind; [apply steps_coin; exact Hs|].
    replace (N.leb K_always (mask 53 0)) with true by reflexivity.
    eapply steps_bind; [exact Hst|]. cbv beta iota. rewrite with_src_twice.
    replace (to_int64 (wrap (- Z.of_N (Z.to_N (- v))))) with v; [apply steps_ret|].
    unfold to_int64, wrap. rewrite HW.
    destruct (Z.ltb_spec (Z.of_N (Z.to_N ((- Z.of_N (Z.to_N (- v))) mod 2 ^ 64))) 9223372036854775808) as [Hs1|Hs1]; lia.
  - (* mixed range, non-negative value *)
    destruct (urange_reachable fuel 0 (wrap mx) (Z.to_N v) l (with_src s (SBuf (urange_wit 0 (wrap mx) (Z.to_N v) ++ l))))
      as [fl [fr Hst]]; [unfold wrap; rewrite HW; lia|unfold wrap; rewrite HW; lia|reflexivity|].
    eexists _, _. eapply steps_bind; [apply steps_coin; exact Hs|].
    replace (N.leb K_half (mask 53 0)) with false by reflexivity.
    eapply steps_bind; [exact Hst|]. cbv beta iota. rewrite with_src_twice.
    replace (to_int64 (Z.to_N v)) with v; [apply steps_ret|].
    unfold to_int64. rewrite HW. destruct (Z.ltb_spec (Z.of_N (Z.to_N v)) 9223372036854775808) as [Hs1|Hs1]; lia.
  - (* mixed range, negative value *)
    destruct (urange_reachable fuel 1 (wrap (- mn)) (Z.to_N (- v)) l (with_src s (SBuf (urange_wit 1 (wrap (- mn)) (Z.to_N (- v)) ++ l))))
      as [fl [fr Hst]]; [unfold wrap; rewrite HW; lia|unfold wrap; rewrite HW; lia|reflexivity|].
    eexists _, _. eapply steps_bind; [apply steps_coin; exact Hs|].
    replace (N.leb K_half (mask 53 K_half)) with true by reflexivity.
    eapply steps_bind; [exact Hst|]. cbv beta iota. rewrite with_src_twice.
    replace (to_int64 (wrap (- Z.of_N (Z.to_N (- v))))) with v; [apply steps_ret|].
    unfold to_int64, wrap. rewrite HW.
    destruct (Z.ltb_spec (Z.of_N (Z.to_N ((- Z.of_N (Z.to_N (- v))) mod 2 ^ 64))) 9223372036854775808) as [Hs1|Hs1]; lia.
Qed.

(* ---- edges: how many of the 2^53 selector words force the maximum / allow zero ---- *)
(* every selector word k with geom bitlen k beyond the threshold yields max, whatever follows *)
Theorem overflow_gives_max geom fuel max k x l s :
  k < 2 ^ 53 ->
  let bitlen := len64 max in
  N.of_nat bitlen < geom bitlen k -> N.of_nat (over_thr bitlen) <= geom bitlen k ->
  src s = SBuf (k :: x :: l) ->
  exists fl fr, steps (genUintNBiased geom (S fuel) max) s (max, fl, fr) (with_src s (SBuf l)).
Proof.
  intros Hk bitlen H1 H2 Hs. unfold genUintNBiased. fold bitlen.
  eexists _, _. eapply steps_bind; [apply steps_group_draw; exact Hs|].
  rewrite (mask_small 53 k) by (try lia; exact Hk).
  destruct (N.ltb_spec (geom bitlen k) (N.of_nat bitlen)) as [Hc|Hc]; [lia|].
  destruct (N.ltb_spec (N.of_nat bitlen) (geom bitlen k)) as [Hd|Hd]; [|lia].
  destruct (N.leb_spec (N.of_nat (over_thr bitlen)) (geom bitlen k)) as [He|He]; [|lia].
  cbn [andb biased_loop]. eapply steps_bind.
  - apply (steps_group_d_draw false 65 x l _ (fun u => negb (Nat.ltb 64 65 || N.leb u max))). reflexivity.
  - change (Nat.ltb 64 65) with true. cbn [orb negb]. unfold biased_fin. change (Nat.ltb 64 65) with true.
    rewrite with_src_twice. apply steps_ret.
Qed.

(* least selector word from which the table selects a length beyond bitlen and the threshold *)
Definition over_from (bl : nat) : N := geom_wit bl (Nat.max (S bl) (over_thr bl)).
Definition max_mass_ok : bool :=
  forallb (fun bl => N.leb (N.of_nat (Nat.max (S bl) (over_thr bl))) (geom_of geom_tab bl (over_from bl))
                     && N.ltb (over_from bl) (2 ^ 53)
                     && N.leb (2 ^ 53) ((2 ^ 53 - over_from bl) * 50)) (seq 0 65).
Lemma max_mass_ok_true : max_mass_ok = true. Proof. vm_cast_no_check (eq_refl true). Qed.
Lemma geom_of_mono_tab : forall bl k k', k <= k' -> geom_of geom_tab bl k <= geom_of geom_tab bl k'.
Proof.
  intros bl k k' H. unfold geom_of. destruct (find _ geom_tab) as [[b thr]|]; [|lia].
  assert (length (filter (fun t => N.leb t k) thr) <= length (filter (fun t => N.leb t k') thr))%nat; [|lia].
  induction thr as [|t thr IH]; cbn; [lia|].
  destruct (N.leb_spec t k) as [Ha|Ha]; destruct (N.leb_spec t k') as [Hb|Hb]; cbn; lia.
Qed.
(* at least one selector word in 50 forces max: the maximum of every range is hit with probability
   >= 1/50 per draw under a uniform 53-bit word *)
Theorem max_mass bl k : (bl <= 64)%nat -> over_from bl <= k ->
  N.of_nat bl < geom_of geom_tab bl k /\ N.of_nat (over_thr bl) <= geom_of geom_tab bl k
  /\ 2 ^ 53 <= (2 ^ 53 - over_from bl) * 50.
Proof.
  intros Hbl Hk. pose proof max_mass_ok_true as H. unfold max_mass_ok in H. rewrite forallb_forall in H.
  specialize (H bl). rewrite in_seq in H. specialize (H ltac:(lia)).
  apply andb_prop in H. destruct H as [H H3]. apply andb_prop in H. destruct H as [H1 H2].
  apply N.leb_le in H1, H3. pose proof (geom_of_mono_tab bl _ _ Hk). lia.
Qed.

(* zero: selector words below the first threshold choose one bit (or bitlen if smaller); an even next word gives 0 *)
Definition zero_mass_ok : bool :=
  forallb (fun bl => N.eqb (geom_of geom_tab bl 0) 1 &&
                     match find (fun p => Nat.eqb (fst p) bl) geom_tab with
                     | Some (_, t :: _) => N.leb (2 ^ 53) (t * 18) | _ => false end) (seq 0 65).
Lemma zero_mass_ok_true : zero_mass_ok = true. Proof. vm_cast_no_check (eq_refl true). Qed.

(* ---- seeds of one run are pairwise distinct (engine.go: seed + i, uint64 wrap-around) ---- *)
Theorem seeds_distinct seed i j : i < 2 ^ 64 -> j < 2 ^ 64 -> i <> j -> wrapN (seed + i) <> wrapN (seed + j).
Proof.
  intros Hi Hj Hne. unfold wrapN. rewrite W64_val. intros H.
  assert (Hd : (seed + i) mod 2 ^ 64 = (seed + j) mod 2 ^ 64) by exact H.
  pose proof (N.div_mod (seed + i) (2 ^ 64) ltac:(lia)). pose proof (N.div_mod (seed + j) (2 ^ 64) ltac:(lia)).
  pose proof (N.mod_lt (seed + i) (2 ^ 64) ltac:(lia)).
  assert (Hq : (seed + i) / 2 ^ 64 = (seed + j) / 2 ^ 64 \/ (seed + i) / 2 ^ 64 < (seed + j) / 2 ^ 64 \/ (seed + j) / 2 ^ 64 < (seed + i) / 2 ^ 64) by lia.
  destruct Hq as [Hq|[Hq|Hq]]; nia.
Qed.

(* a selector word choosing length 1 followed by an even word gives the range minimum (offset 0) *)
Theorem one_bit_gives_zero geom fuel max k x l s :
  k < 2 ^ 53 -> geom (len64 max) k = 1 -> N.even x = true ->
  src s = SBuf (k :: x :: l) ->
  exists fl fr, steps (genUintNBiased geom (S fuel) max) s (0, fl, fr) (with_src s (SBuf l)).
Proof.
  intros Hk Hg Hx Hs. unfold genUintNBiased.
  eexists _, _. eapply steps_bind; [apply steps_group_draw; exact Hs|].
  rewrite (mask_small 53 k) by (try lia; exact Hk). rewrite Hg.
  set (bl := if N.ltb 1 (N.of_nat (len64 max)) then N.to_nat 1
             else if N.ltb (N.of_nat (len64 max)) 1 && N.leb (N.of_nat (over_thr (len64 max))) 1 then 65%nat
             else len64 max).
  assert (Hbl : bl = 0%nat \/ bl = 1%nat).
  { subst bl. destruct (N.ltb_spec 1 (N.of_nat (len64 max))) as [Ha|Ha]; [right; reflexivity|].
    destruct (N.ltb_spec (N.of_nat (len64 max)) 1) as [Hb|Hb]; cbn [andb].
    - assert (Hz : len64 max = 0%nat) by lia. rewrite Hz. cbn. left; reflexivity.
    - lia. }
  assert (Hm : mask bl x = 0).
  { destruct Hbl as [-> | ->].
    - unfold mask. change (Nat.min 0 64) with 0%nat. apply N.land_0_r.
    - unfold mask. change (Nat.min 1 64) with 1%nat. rewrite N.land_ones. change (2 ^ N.of_nat 1) with 2.
      rewrite <- N.bit0_mod. rewrite N.bit0_odd. rewrite <- N.negb_even. rewrite Hx. reflexivity. }
  assert (Hlt : Nat.ltb 64 bl = false) by (apply Nat.ltb_ge; lia).
  cbn [biased_loop]. eapply steps_bind.
  - apply (steps_group_d_draw false bl x l _ (fun u => negb (Nat.ltb 64 bl || N.leb u max))). reflexivity.
  - rewrite with_src_twice, Hm, Hlt. replace (N.leb 0 max) with true by (symmetry; apply N.leb_le; lia).
    cbn [orb negb]. unfold biased_fin. rewrite Hlt. apply steps_ret.
Qed.
