(* findBug / doCheck / checkTB: counting, seed schedule, isolation, and "a reported failure is real". *)
From Coq Require Import Lia.
Require Import Rapid.Model.Base Rapid.Model.Syntax Rapid.Model.Monad Rapid.Model.Prim Rapid.Model.Interp
  Rapid.Model.Engine Rapid.Model.Groups Rapid.Model.Shrink.
Require Import Rapid.Generated.Consts.
Require Import Rapid.Proofs.Inv Rapid.Proofs.Shortlex Rapid.Proofs.Replay Rapid.Proofs.ReplayTop Rapid.Proofs.ShrinkProofs.
Local Open Scope nat_scope.
Arguments Nat.ltb : simpl never.
Arguments Nat.leb : simpl never.

Section EngineProofs.
  Variable geom : nat -> N -> N.
  Variable LF : nat.
  Hypothesis HLF : 1 <= LF.
  Variable lvl : nat.
  Variable p : prog.
  Notation run := (run_case geom LF lvl p).
  Notation findBug := (findBug geom LF lvl p).
  Notation findBug0 := (findBug0 geom LF lvl p).
  Notation doCheck := (doCheck geom LF lvl p).
  Notation checkTB := (checkTB geom LF lvl p).

  Definition mult := c_invalidChecksMult.

  (* the seed of case number k (0-based) of a run started at base: base + k(k+1)/2 mod 2^64 *)
  Fixpoint sched (base : N) (k : nat) : N :=
    match k with O => wrapN base | S k' => case_seed (sched base k') (S k') end.
  Lemma case_seed_0 s : case_seed s 0 = wrapN s.
  Proof. unfold case_seed. cbn. rewrite N.add_0_r. reflexivity. Qed.

  (* every invocation findBug makes is a run on a fresh T from its own seed (isolation by construction),
     the log only grows, and counters add up *)
  Record fb_ok (checks : nat) (seed : N) (valid invalid : nat) (log : list invocation) (r : fbres) : Prop := mkFbOk {
    fo_prefix : exists more, fb_log r = log ++ more;
    fo_mono : valid <= fb_valid r /\ invalid <= fb_invalid r;
    fo_isolated : forall i, In i (fb_log r) -> In i log \/ iv_out i = run (iv_src i);
    fo_fail : forall i, In i (fb_log r) -> In i log \/ (exists u, res (iv_out i) = Ok u) \/ (exists m, res (iv_out i) = Err (XInvalid m)) \/ fb_err r <> None;
  }.

  Lemma findBug_ok : forall fuel checks early seed valid invalid log,
    fb_err (findBug fuel checks early seed valid invalid log) <> Some XFuel \/ True ->
    fb_ok checks seed valid invalid log (findBug fuel checks early seed valid invalid log).
  Proof.
    induction fuel as [|f IH]; intros checks early seed valid invalid log _; cbn [Shrink.findBug].
    - constructor; cbn; [exists []; rewrite app_nil_r; reflexivity|lia|auto|auto].
    - destruct (Nat.ltb valid checks && Nat.ltb invalid (checks * c_invalidChecksMult)).
      + destruct (Nat.ltb 0 (valid + invalid) && early (valid + invalid)).
        * constructor; cbn; [exists []; rewrite app_nil_r; reflexivity|lia|auto|auto].
        * set (x := SRnd (jsf_init (case_seed seed (valid + invalid)))).
          destruct (res (run x)) as [u|e] eqn:Er.
          -- destruct (IH checks early (case_seed seed (valid + invalid)) (S valid) invalid (log ++ [mkIvc x (run x)]) (or_intror I)) as [[more E] [M1 M2] Iso Fl].
             constructor.
             ++ exists (mkIvc x (run x) :: more). rewrite E, <- app_assoc. reflexivity.
             ++ lia.
             ++ intros i Hi. destruct (Iso i Hi) as [H|H]; [|right; exact H].
                apply in_app_or in H. destruct H as [H|[<-|[]]]; [left; exact H|right; reflexivity].
             ++ intros i Hi. destruct (Fl i Hi) as [H|H]; [|right; exact H].
                apply in_app_or in H. destruct H as [H|[<-|[]]]; [left; exact H|right; left; cbn; eauto].
          -- destruct e as [m|m s0|m s0|].
             ++ destruct (IH checks early (case_seed seed (valid + invalid)) valid (S invalid) (log ++ [mkIvc x (run x)]) (or_intror I)) as [[more E] [M1 M2] Iso Fl].
                constructor.
                ** exists (mkIvc x (run x) :: more). rewrite E, <- app_assoc. reflexivity.
                ** lia.
                ** intros i Hi. destruct (Iso i Hi) as [H|H]; [|right; exact H].
                   apply in_app_or in H. destruct H as [H|[<-|[]]]; [left; exact H|right; reflexivity].
                ** intros i Hi. destruct (Fl i Hi) as [H|H]; [|right; exact H].
                   apply in_app_or in H. destruct H as [H|[<-|[]]]; [left; exact H|right; right; left; cbn; eauto].
             ++ constructor; cbn; [exists [mkIvc x (run x)]; reflexivity|lia| |].
                ** intros i Hi. apply in_app_or in Hi. destruct Hi as [H|[<-|[]]]; [left; exact H|right; reflexivity].
                ** intros i Hi. right. right. right. discriminate.
             ++ constructor; cbn; [exists [mkIvc x (run x)]; reflexivity|lia| |].
                ** intros i Hi. apply in_app_or in Hi. destruct Hi as [H|[<-|[]]]; [left; exact H|right; reflexivity].
                ** intros i Hi. right. right. right. discriminate.
             ++ constructor; cbn; [exists [mkIvc x (run x)]; reflexivity|lia| |].
                ** intros i Hi. apply in_app_or in Hi. destruct Hi as [H|[<-|[]]]; [left; exact H|right; reflexivity].
                ** intros i Hi. right. right. right. discriminate.
      + constructor; cbn; [exists []; rewrite app_nil_r; reflexivity|lia|auto|auto].
  Qed.

  (* C11: every test case is judged on a fresh T from its own seed *)
  Theorem findBug_isolated checks early seed i :
    In i (fb_log (findBug0 checks early seed)) -> iv_out i = run (iv_src i).
  Proof.
    intros H. unfold Shrink.findBug0 in H.
    destruct (findBug_ok (S (checks + checks * c_invalidChecksMult)) checks early seed 0 0 [] (or_intror I)) as [_ _ Iso].
    destruct (Iso i H) as [[]|E]; exact E.
  Qed.

  (* C09: exact amount of work when nothing fails and the deadline is far *)
  Lemma findBug_counts : forall fuel checks early seed valid invalid log,
    (forall k, early k = false) ->
    (checks - valid) + (checks * mult - invalid) < fuel ->
    valid <= checks -> invalid <= checks * mult -> (valid < checks \/ invalid < checks * mult \/ checks = 0) ->
    let r := findBug fuel checks early seed valid invalid log in
    fb_err r = None ->
    fb_early r = false /\
    ((fb_valid r = checks /\ fb_invalid r < checks * mult) \/ (fb_valid r < checks /\ fb_invalid r = checks * mult)
     \/ (checks = 0 /\ fb_valid r = 0 /\ fb_invalid r = 0)).
  Proof.
    unfold mult. induction fuel as [|f IH]; intros checks early seed valid invalid log He Hf Hv Hi Hnb; [lia|].
    cbn [Shrink.findBug]. rewrite He, andb_false_r.
    destruct (Nat.ltb_spec valid checks) as [Hvl|Hvl]; cbn [andb].
    - destruct (Nat.ltb_spec invalid (checks * c_invalidChecksMult)) as [Hil|Hil].
      + destruct (res (run _)) as [u|[m|m s0|m s0|]] eqn:Er; cbn [fb_err]; try discriminate.
        * apply IH; auto; lia.
        * apply IH; auto; lia.
      + cbn. intros _. split; [reflexivity|]. right. left. lia.
    - cbn. intros _. split; [reflexivity|]. assert (valid = checks) by lia. subst.
      destruct (Nat.eq_dec checks 0) as [->|Hc]; [right; right; lia|].
      left. split; [reflexivity|]. lia.
  Qed.

  Lemma findBug_no_fuel : forall fuel checks early seed valid invalid log,
    (checks - valid) + (checks * mult - invalid) < fuel ->
    (forall x, res (run x) <> Err XFuel) ->
    fb_err (findBug fuel checks early seed valid invalid log) <> Some XFuel.
  Proof.
    unfold mult. induction fuel as [|f IH]; intros checks early seed valid invalid log Hf Hnf; [lia|].
    cbn [Shrink.findBug].
    destruct (Nat.ltb_spec valid checks) as [Hvl|Hvl]; cbn [andb]; [|cbn; discriminate].
    destruct (Nat.ltb_spec invalid (checks * c_invalidChecksMult)) as [Hil|Hil]; [|cbn; discriminate].
    destruct (Nat.ltb 0 (valid + invalid) && early (valid + invalid)); [cbn; discriminate|].
    destruct (res (run _)) as [u|[m|m s0|m s0|]] eqn:Er; cbn [fb_err]; try discriminate.
    - apply IH; [lia|exact Hnf].
    - apply IH; [lia|exact Hnf].
    - exfalso. exact (Hnf _ Er).
  Qed.

  (* a failure found by findBug is the outcome of the run on the returned seed *)
  Lemma wrapN_idem x : wrapN (wrapN x) = wrapN x.
  Proof. unfold wrapN. apply N.mod_mod. discriminate. Qed.
  Lemma findBug_failure : forall fuel checks early seed valid invalid log e,
    fb_err (findBug fuel checks early seed valid invalid log) = Some e -> e <> XFuel ->
    res (run (SRnd (jsf_init (fb_seed (findBug fuel checks early seed valid invalid log))))) = Err e
    /\ (forall m, e <> XInvalid m)
    /\ fb_seed (findBug fuel checks early seed valid invalid log) = wrapN (fb_seed (findBug fuel checks early seed valid invalid log)).
  Proof.
    induction fuel as [|f IH]; intros checks early seed valid invalid log e; cbn [Shrink.findBug].
    - cbn [fb_err]. intros H Hne. congruence.
    - destruct (Nat.ltb valid checks && Nat.ltb invalid (checks * c_invalidChecksMult)); [|cbn [fb_err]; discriminate].
      destruct (Nat.ltb 0 (valid + invalid) && early (valid + invalid)); [cbn [fb_err]; discriminate|].
      set (sd := case_seed seed (valid + invalid)).
      assert (Hsd : sd = wrapN sd) by (unfold sd, case_seed; symmetry; apply wrapN_idem).
      destruct (res (run (SRnd (jsf_init sd)))) as [u|[m|m s0|m s0|]] eqn:Er; cbn [fb_err fb_seed].
      + apply IH.
      + apply IH.
      + intros H _. injection H as <-. split; [exact Er|split; [discriminate|exact Hsd]].
      + intros H _. injection H as <-. split; [exact Er|split; [discriminate|exact Hsd]].
      + intros H Hne. injection H as <-. congruence.
  Qed.

  (* C07: the seed returned with a failure reproduces it as the very first case of a new run *)
  Lemma findBug_first fuel checks early s e :
    1 <= checks -> s = wrapN s ->
    res (run (SRnd (jsf_init s))) = Err e -> (forall m, e <> XInvalid m) ->
    let r := findBug (S fuel) checks early s 0 0 [] in
    fb_err r = Some e /\ fb_valid r = 0 /\ fb_invalid r = 0 /\ fb_seed r = s.
  Proof.
    intros Hc Hs Hr Hni. cbv zeta. cbn [Shrink.findBug].
    destruct (Nat.ltb_spec 0 checks) as [_|]; [|lia]. cbn [andb].
    assert (Hm : 0 < checks * c_invalidChecksMult) by (unfold c_invalidChecksMult; lia).
    destruct (Nat.ltb_spec 0 (checks * c_invalidChecksMult)) as [_|]; [|lia].
    change (0 + 0) with 0. change (Nat.ltb 0 0) with false. cbn [andb].
    assert (Hcs : case_seed s 0 = s) by (rewrite case_seed_0; symmetry; exact Hs).
    rewrite Hcs, Hr.
    destruct e as [m|m s0|m s0|]; cbn [fb_err fb_valid fb_invalid fb_seed]; auto.
    exfalso. eapply Hni; reflexivity.
  Qed.

  Theorem seed_reproduces checks early early' seed e :
    1 <= checks ->
    fb_err (findBug0 checks early seed) = Some e -> e <> XFuel ->
    let s := fb_seed (findBug0 checks early seed) in
    let r' := findBug0 checks early' s in
    fb_err r' = Some e /\ fb_valid r' = 0 /\ fb_invalid r' = 0 /\ fb_seed r' = s.
  Proof.
    intros Hc H Hne. unfold Shrink.findBug0 in *.
    destruct (findBug_failure _ _ _ _ _ _ _ _ H Hne) as [Hr [Hni Hw]].
    set (s := fb_seed _) in *. clearbody s. cbv zeta.
    apply findBug_first; assumption.
  Qed.
End EngineProofs.

(* ---- doCheck / checkTB: a reported failure is real ---- *)
Section Reported.
  Variable geom : nat -> N -> N.
  Variable LF : nat.
  Hypothesis HLF : 1 <= LF.
  Variable lvl : nat.
  Variable p : prog.
  Notation run := (run_case geom LF lvl p).
  (* the property is run only in ways that leave no trace of rejected attempts, and the model's fuel suffices *)
  Hypothesis Hclean : forall x, dirty (w (run x)) = false.
  Hypothesis Hnofuel : forall x, res (run x) <> Err XFuel.

  Lemma tbk_refl_failing r : (forall m, r <> Err (XInvalid m)) -> r <> Err XFuel -> (forall u, r <> Ok u) ->
    exists s, tb_of r = TSite s.
  Proof.
    destruct r as [u|[m|m s|m s|]]; intros H1 H2 H3; cbn.
    - exfalso. eapply H3; reflexivity.
    - exfalso. eapply H1; reflexivity.
    - eexists; reflexivity.
    - eexists; reflexivity.
    - congruence.
  Qed.
  Lemma tbk_eqb_refl_site s : tbk_eqb (TSite s) (TSite s) = true.
  Proof. cbn. apply site_eqb_refl. Qed.

  Lemma check_files_real : forall files idx logs invs r logs' invs',
    check_files geom LF lvl p files idx logs invs = (Some r, logs', invs') ->
    let '(i, buf, e1, e2) := r in
    e1 = res (run (SBuf buf)) /\ e2 = e1 /\ (forall u, e1 <> Ok u) /\ (forall m, e1 <> Err (XInvalid m)).
  Proof.
    induction files as [|f fs IH]; intros idx logs invs r logs' invs'; cbn [check_files]; [discriminate|].
    destruct f as [|[|] buf]; try apply IH.
    destruct (res (run (SBuf buf))) as [u|[m|m s|m s|]] eqn:Er; try apply IH;
      intros H; injection H as <- _ _; rewrite Er; repeat split; discriminate.
  Qed.

  Theorem reported_failure_is_real files checks nofailfile early seed cands clock :
    let tb := checkTB geom LF lvl p files checks nofailfile early seed cands clock in
    tb_failed tb = true ->
    match tb_verdict tb with
    | VOk _ => False
    | VOnlyGenerated _ _ => tb_final tb = None /\ tb_saved tb = None
    | VFlaky => False
    | VFailedAfter _ e | VPanicAfter _ e =>
        let buf := dc_buf (tb_dc tb) in
        (* the final replay runs the presented buffer, fails with the reported error, and the bytes
           handed to the fail file are that buffer *)
        tb_final tb = Some (run (SBuf buf)) /\ res (run (SBuf buf)) = Err e /\
        (tb_saved tb = None \/ tb_saved tb = Some buf) /\
        dc_err2 (tb_dc tb) = Err e /\ (forall m, e <> XInvalid m)
    end.
  Proof.
    cbv zeta. unfold Shrink.checkTB.
    set (dc := doCheck geom LF lvl p files checks early seed cands clock).
    assert (Hdc :
      (dc_err1 dc = Ok tt /\ dc_err2 dc = Ok tt) \/
      (exists s, tb_of (dc_err1 dc) = TSite s /\ tb_of (dc_err2 dc) = TSite s /\
                 res (run (SBuf (dc_buf dc))) = dc_err2 dc)).
    { unfold dc, Shrink.doCheck.
      destruct (check_files geom LF lvl p files 0 [] []) as [[[r|] logs] invs] eqn:Ecf.
      - destruct r as [[[i buf] e1] e2]. pose proof (check_files_real _ _ _ _ _ _ _ Ecf) as R. cbv beta iota in R.
        destruct R as [R1 [R2 [R3 R4]]]. right. cbn [dc_err1 dc_err2 dc_buf].
        destruct (tbk_refl_failing e1 R4 ltac:(rewrite R1; apply Hnofuel) R3) as [s Hs].
        exists s. rewrite R2. split; [exact Hs|split; [exact Hs|symmetry; exact R1]].
      - destruct (fb_err (findBug0 geom LF lvl p checks early seed)) as [e1|] eqn:Efb; [|left; split; reflexivity].
        right.
        assert (Hne : e1 <> XFuel).
        { intros ->. revert Efb. unfold Shrink.findBug0. apply findBug_no_fuel; solve [exact Hnofuel | unfold mult; lia]. }
        unfold Shrink.findBug0 in *.
        destruct (findBug_failure geom LF lvl p _ _ _ _ _ _ _ _ Efb Hne) as [Hr [Hni _]].
        set (x := SRnd (jsf_init (fb_seed _))) in *.
        rewrite Hr. rewrite (res_eqb_refl (Err e1)). cbn [negb].
        destruct (tbk_refl_failing (Err e1)) as [s0 Hs0]; [intros m E; injection E as ->; eapply Hni; reflexivity|congruence|discriminate|].
        destruct (Shrink.shrink_any geom LF lvl p cands clock 0 (shrink_start (run x))) as [sf ab] eqn:Esh.
        assert (HI : Inv geom LF lvl p s0 (rpd (w (run x))) (shrink_start (run x))).
        { unfold Inv, shrink_start. cbn [s_data s_err]. split; [exists x; split; reflexivity|].
          split; [unfold failing; rewrite Hr; exact Hs0|apply sl_le_refl]. }
        destruct (shrink_any_inv geom LF HLF lvl p s0 (rpd (w (run x))) cands clock 0 _ sf ab HI Esh) as [HI' [-> [_ _]]].
        cbn [dc_err1 dc_err2 dc_buf].
        destruct (inv_reproduces geom LF HLF lvl p s0 (rpd (w (run x))) sf HI' Hclean) as [Q1 _].
        destruct HI' as [_ [Hf' _]]. unfold failing in Hf'.
        exists s0. split; [exact Hs0|split; [exact Hf'|exact Q1]]. }
    destruct Hdc as [[E1 E2]|[s [T1 [T2 Hrep]]]].
    - rewrite E1, E2. destruct (_ || _); cbn; [discriminate|auto].
    - destruct (dc_err1 dc) as [u1|x1] eqn:D1; [cbn in T1; discriminate|].
      destruct (dc_err2 dc) as [u2|x2] eqn:D2; [cbn in T2; discriminate|].
      rewrite T1, T2, tbk_eqb_refl_site. cbn [tb_failed tb_verdict tb_final tb_saved tb_dc]. intros _.
      destruct x2 as [m|m s2|m s2|]; cbn in T2; try discriminate.
      + split; [reflexivity|]. split; [exact Hrep|]. split; [destruct (dc_fromfile dc); [left|destruct nofailfile; [left|right]]; reflexivity|].
        split; [exact D2|discriminate].
      + split; [reflexivity|]. split; [exact Hrep|]. split; [destruct (dc_fromfile dc); [left|destruct nofailfile; [left|right]]; reflexivity|].
        split; [exact D2|discriminate].
  Qed.
End Reported.

Section FailingCase.
  Variable geom : nat -> N -> N.
  Variable LF : nat.
  Hypothesis HLF : 1 <= LF.
  Variable lvl : nat.
  Variable p : prog.
  (* any executed test case that is neither a pass nor invalid makes findBug return an error *)
  Theorem failing_case_stops_findBug checks early seed i :
    In i (fb_log (findBug0 geom LF lvl p checks early seed)) ->
    (forall u, res (iv_out i) <> Ok u) -> (forall m, res (iv_out i) <> Err (XInvalid m)) ->
    fb_err (findBug0 geom LF lvl p checks early seed) <> None.
  Proof.
    intros Hin H1 H2. unfold findBug0 in *.
    destruct (findBug_ok geom LF HLF lvl p (S (checks + checks * c_invalidChecksMult)) checks early seed 0 0 [] (or_intror I)) as [_ _ _ Fl].
    destruct (Fl i Hin) as [[]|[[u Hu]|[[m Hm]|H]]]; [exfalso; eapply H1; eauto|exfalso; eapply H2; eauto|exact H].
  Qed.
End FailingCase.
