(* Integer generators: range contracts for every bitstream (C03) and reachability of every allowed value
   (C18), over the encoding of utils.go incl. its wrap-around steps. *)
From Coq Require Import Lia ZArith ZifyN ZifyNat ZifyBool.
Require Import Rapid.Model.Base Rapid.Model.Syntax Rapid.Model.Monad Rapid.Model.Prim Rapid.Model.Corr.
Require Import Rapid.Proofs.Inv Rapid.Proofs.RepeatProofs.
Require Import Rapid.Generated.GeomTable.
Ltac Zify.zify_post_hook ::= Z.div_mod_to_equations.
Local Open Scope N_scope.
Arguments N.leb : simpl never.
Arguments N.ltb : simpl never.
Arguments N.eqb : simpl never.
Arguments Nat.ltb : simpl never.
Arguments mask : simpl never.

Lemma W64_val : W64 = 2 ^ 64. Proof. reflexivity. Qed.
Lemma mask_lt n x : (n <= 64)%nat -> mask n x < 2 ^ N.of_nat n.
Proof.
  intros Hn. unfold mask. rewrite Nat.min_l by exact Hn. rewrite N.land_ones.
  apply N.mod_lt. apply N.pow_nonzero. lia.
Qed.
Lemma mask_small n v : (n <= 64)%nat -> v < 2 ^ N.of_nat n -> mask n v = v.
Proof.
  intros Hn Hv. unfold mask. rewrite Nat.min_l by exact Hn. rewrite N.land_ones. apply N.mod_small. exact Hv.
Qed.
Lemma size_bound v : v < 2 ^ N.size v.
Proof. destruct v as [|p]; [reflexivity|]. apply N.size_gt. Qed.

(* ---- C03: results of the rejection loops are within their bound ---- *)
Lemma unbiased_loop_le : forall fuel bl max s u, res (unbiased_loop fuel bl max s) = Ok u -> u <= max.
Proof.
  induction fuel as [|f IH]; intros bl max s u; cbn [unbiased_loop]; [cbn; discriminate|].
  intros H. apply bind_res_ok in H. destruct H as [a [Ha H]].
  destruct (negb (N.leb a max)) eqn:Ed; [eapply IH; exact H|].
  unfold ret in H. cbn in H. injection H as <-. apply negb_false_iff in Ed. apply N.leb_le. exact Ed.
Qed.
Lemma genUintN_le geom fuel max bias s u l r : res (genUintN geom fuel max bias s) = Ok (u, l, r) -> u <= max.
Proof.
  unfold genUintN. destruct bias.
  - unfold genUintNBiased. intros H. apply bind_res_ok in H. destruct H as [k [_ H]]. eapply biased_loop_le; exact H.
  - intros H. apply bind_res_ok in H. destruct H as [a [Ha H]]. unfold ret in H. cbn in H. injection H as <- _ _.
    eapply unbiased_loop_le; exact Ha.
Qed.

Theorem uint_range_contract geom fuel mn mx bias s u l r :
  mx < 2 ^ 64 ->
  res (genUintRange geom fuel mn mx bias s) = Ok (u, l, r) -> mn <= u <= mx.
Proof.
  intros Hmx. unfold genUintRange, assert_fail. destruct (N.ltb_spec mx mn) as [Hlt|Hge]; [cbn; discriminate|].
  intros H. apply bind_res_ok in H. destruct H as [[[u0 l0] r0] [Ha H]].
  unfold ret in H. cbn in H. injection H as <- _ _.
  apply genUintN_le in Ha. unfold wrapN. rewrite W64_val. rewrite N.mod_small; lia.
Qed.

(* the 53-bit coin *)
Lemma coin_never : forall s b, res (coin K_never s) = Ok b -> b = false.
Proof.
  intros s b H. unfold coin in H. apply bind_res_ok in H. destruct H as [k [Hk H]].
  unfold ret in H. cbn in H. injection H as <-.
  apply res_group in Hk. unfold drawBits in Hk.
  assert (Hm : forall x, mask 53 x < K_never) by (intros x; apply (mask_lt 53 x); lia).
  destruct (src s) as [[|x l]|j]; cbn in Hk; try discriminate.
  - injection Hk as <-. apply N.leb_gt. apply Hm.
  - change (Nat.leb 53 64) with true in Hk. cbv iota in Hk. destruct (jsf_rand j). cbn in Hk. injection Hk as <-.
    apply N.leb_gt. apply Hm.
Qed.
Lemma coin_always : forall s b, res (coin K_always s) = Ok b -> b = true.
Proof.
  intros s b H. unfold coin in H. apply bind_res_ok in H. destruct H as [k [Hk H]].
  unfold ret in H. cbn in H. injection H as <-. apply N.leb_le. unfold K_always. lia.
Qed.

Theorem int_range_contract geom fuel (mn mx : Z) s v l r :
  (- 2 ^ 63 <= mn)%Z -> (mx < 2 ^ 63)%Z ->
  res (genIntRange geom fuel mn mx s) = Ok (v, l, r) -> (mn <= v <= mx)%Z.
Proof.
  intros Hmn Hmx. unfold genIntRange, assert_fail. destruct (Z.ltb_spec mx mn) as [Hlt|Hge]; [cbn; discriminate|].
  assert (HW : Z.of_N W64 = (2 ^ 64)%Z) by reflexivity.
  destruct (Z.leb_spec 0 mn) as [Hp|Hp]; [|destruct (Z.leb_spec mx 0) as [Hq|Hq]].
  - (* non-negative range *)
    intros H. apply bind_res_ok in H. destruct H as [neg [Hc H]]. apply coin_never in Hc. subst neg.
    apply bind_res_ok in H. destruct H as [[[u l0] r0] [Ha H]]. unfold ret in H. cbn in H. injection H as <- _ _.
    apply uint_range_contract in Ha; [|unfold wrap; rewrite HW; lia].
    unfold wrap in Ha. rewrite HW in Ha. unfold to_int64. rewrite HW.
    destruct (Z.ltb_spec (Z.of_N u) 9223372036854775808) as [Hs|Hs]; lia.
  - (* non-positive range *)
    intros H. apply bind_res_ok in H. destruct H as [neg [Hc H]]. apply coin_always in Hc. subst neg.
    apply bind_res_ok in H. destruct H as [[[u l0] r0] [Ha H]]. unfold ret in H. cbn in H. injection H as <- _ _.
    apply uint_range_contract in Ha; [|unfold wrap; rewrite HW; lia].
    unfold wrap in *. rewrite HW in *. unfold to_int64. rewrite HW.
    destruct (Z.ltb_spec (Z.of_N (Z.to_N ((- Z.of_N u) mod 2 ^ 64))) 9223372036854775808) as [Hs|Hs]; lia.
  - (* mixed *)
    intros H. apply bind_res_ok in H. destruct H as [neg [Hc H]]. destruct neg.
    + apply bind_res_ok in H. destruct H as [[[u l0] r0] [Ha H]]. unfold ret in H. cbn in H. injection H as <- _ _.
      apply uint_range_contract in Ha; [|unfold wrap; rewrite HW; lia].
      unfold wrap in *. rewrite HW in *. unfold to_int64. rewrite HW.
      destruct (Z.ltb_spec (Z.of_N (Z.to_N ((- Z.of_N u) mod 2 ^ 64))) 9223372036854775808) as [Hs|Hs]; lia.
    + apply bind_res_ok in H. destruct H as [[[u l0] r0] [Ha H]]. unfold ret in H. cbn in H. injection H as <- _ _.
      apply uint_range_contract in Ha; [|unfold wrap; rewrite HW; lia].
      unfold wrap in Ha. rewrite HW in Ha. unfold to_int64. rewrite HW.
      destruct (Z.ltb_spec (Z.of_N u) 9223372036854775808) as [Hs|Hs]; lia.
Qed.

Lemma genIndex_lt_any geom fuel n bias s i : res (genIndex geom fuel n bias s) = Ok i -> (i < n)%nat.
Proof.
  unfold genIndex, assert_fail. destruct n as [|n']; [cbn; discriminate|].
  intros H. apply bind_res_ok in H. destruct H as [[[u l] r] [Ha H]].
  unfold ret in H. cbn in H. injection H as <-. apply genUintN_le in Ha. lia.
Qed.
