(* C12, mechanism "value encodings are monotone in their blocks": for a full-range unsigned generator the
   value decoded from the two blocks [k; w] is monotone in the bias block k, so a threshold property is a
   monotone condition on that block and minimize() ends on the least bias word that still fails. *)
From Coq Require Import Lia NArith ZArith ZifyN ZifyNat ZifyBool List.
Require Import Rapid.Model.Base Rapid.Model.Syntax Rapid.Model.Monad Rapid.Model.Prim Rapid.Model.Minimize.
Require Import Rapid.Generated.Consts.
Require Import Rapid.Proofs.IntProofs Rapid.Proofs.Reach Rapid.Proofs.MinimizeProofs Rapid.Proofs.MinimizeMono.
Import ListNotations.
Ltac Zify.zify_post_hook ::= Z.div_mod_to_equations.
Local Open Scope N_scope.
Arguments N.leb : simpl never.
Arguments N.ltb : simpl never.
Arguments mask : simpl never.

(* the value genUintNBiased returns on the stream [k; w] for max = 2^64-1 *)
Definition full := 2 ^ 64 - 1.
Definition dec64 (n : N) (w : N) : N :=
  if N.ltb n 64 then mask (N.to_nat n) w else if N.ltb 64 n then full else mask 64 w.

Lemma over_thr_64 : over_thr 64 = 64%nat. Proof. reflexivity. Qed.
Lemma len64_full : len64 full = 64%nat. Proof. reflexivity. Qed.

Lemma mask_le_full n w : mask n w <= full.
Proof.
  unfold mask, full. rewrite N.land_ones.
  assert (Nat.min n 64 <= 64)%nat by lia.
  assert (2 ^ N.of_nat (Nat.min n 64) <= 2 ^ 64) by (apply N.pow_le_mono_r; lia).
  pose proof (N.mod_lt w (2 ^ N.of_nat (Nat.min n 64)) ltac:(apply N.pow_nonzero; lia)). lia.
Qed.
Lemma mask_mono n n' w : (n <= n')%nat -> mask n w <= mask n' w.
Proof.
  intros H. unfold mask. rewrite !N.land_ones.
  assert (Hm : (Nat.min n 64 <= Nat.min n' 64)%nat) by lia.
  set (a := Nat.min n 64) in *. set (b := Nat.min n' 64) in *.
  replace (N.of_nat b) with (N.of_nat a + N.of_nat (b - a)) by lia.
  rewrite N.pow_add_r.
  assert (Ha : 2 ^ N.of_nat a <> 0) by (apply N.pow_nonzero; lia).
  assert (Hb : 2 ^ N.of_nat (b - a) <> 0) by (apply N.pow_nonzero; lia).
  rewrite (N.mod_mul_r w _ _ Ha Hb). apply N.le_add_r.
Qed.

(* what the generator computes *)
Lemma dec64_is_run geom k w l s :
  k < 2 ^ 53 -> src s = SBuf (k :: w :: l) ->
  exists fl fr, steps (genUintNBiased geom 1 full) s (dec64 (geom 64%nat k) w, fl, fr) (with_src s (SBuf l)).
Proof.
  intros Hk Hs. unfold genUintNBiased. rewrite len64_full.
  assert (Hpre : forall (f : N -> M (N * bool * bool)) r s',
            steps (f (geom 64%nat k)) (with_src s (SBuf (w :: l))) r s' ->
            steps (k0 <- group false (drawBits 53) ;; f (geom 64%nat k0)) s r s').
  { intros f r s' H. eapply steps_bind; [apply steps_group_draw; exact Hs|].
    rewrite (mask_small 53 k) by (try lia; exact Hk). exact H. }
  set (n := geom 64%nat k) in *.
  unfold dec64. rewrite over_thr_64. change (N.of_nat 64) with 64.
  destruct (N.ltb_spec n 64) as [Ha|Ha]; [|destruct (N.ltb_spec 64 n) as [Hb|Hb]].
  - (* n < 64: n bits *)
    eexists _, _. apply (Hpre (fun n0 => biased_loop 1 (if N.ltb n0 64 then N.to_nat n0 else if N.ltb 64 n0 && N.leb 64 n0 then 65%nat else 64%nat) full n0)).
    destruct (N.ltb_spec n 64) as [_|]; [|lia].
    cbn [biased_loop]. eapply steps_bind.
    + apply (steps_group_d_draw false (N.to_nat n) w l _ (fun u => negb (Nat.ltb 64 (N.to_nat n) || N.leb u full))). reflexivity.
    + rewrite with_src_twice. assert (Hlt : Nat.ltb 64 (N.to_nat n) = false) by (apply Nat.ltb_ge; lia). rewrite Hlt.
      assert (Hle : N.leb (mask (N.to_nat n) w) full = true) by (apply N.leb_le; apply mask_le_full). rewrite Hle.
      cbn [orb negb]. unfold biased_fin. rewrite Hlt. apply steps_ret.
  - (* n > 64: overflow to max *)
    eexists _, _. apply (Hpre (fun n0 => biased_loop 1 (if N.ltb n0 64 then N.to_nat n0 else if N.ltb 64 n0 && N.leb 64 n0 then 65%nat else 64%nat) full n0)).
    destruct (N.ltb_spec n 64) as [|_]; [lia|]. destruct (N.ltb_spec 64 n) as [_|]; [|lia].
    assert (Hc : N.leb 64 n = true) by (apply N.leb_le; lia). rewrite Hc. cbn [andb biased_loop].
    eapply steps_bind.
    + apply (steps_group_d_draw false 65 w l _ (fun u => negb (Nat.ltb 64 65 || N.leb u full))). reflexivity.
    + rewrite with_src_twice. change (Nat.ltb 64 65) with true. cbn [orb negb]. unfold biased_fin.
      change (Nat.ltb 64 65) with true. apply steps_ret.
  - (* n = 64 *)
    eexists _, _. apply (Hpre (fun n0 => biased_loop 1 (if N.ltb n0 64 then N.to_nat n0 else if N.ltb 64 n0 && N.leb 64 n0 then 65%nat else 64%nat) full n0)).
    destruct (N.ltb_spec n 64) as [|_]; [lia|]. destruct (N.ltb_spec 64 n) as [|_]; [lia|].
    cbn [andb biased_loop]. eapply steps_bind.
    + apply (steps_group_d_draw false 64 w l _ (fun u => negb (Nat.ltb 64 64 || N.leb u full))). reflexivity.
    + rewrite with_src_twice. change (Nat.ltb 64 64) with false.
      assert (Hle : N.leb (mask 64 w) full = true) by (apply N.leb_le; apply mask_le_full). rewrite Hle.
      cbn [orb negb]. unfold biased_fin. change (Nat.ltb 64 64) with false. apply steps_ret.
Qed.

Lemma dec64_mono n n' w : n <= n' -> dec64 n w <= dec64 n' w.
Proof.
  intros H. unfold dec64.
  destruct (N.ltb_spec n 64) as [A|A]; destruct (N.ltb_spec n' 64) as [B|B]; try lia.
  - apply mask_mono. lia.
  - destruct (N.ltb_spec 64 n') as [C|C]; [apply mask_le_full|]. apply mask_mono. lia.
  - destruct (N.ltb_spec 64 n) as [C|C]; destruct (N.ltb_spec 64 n') as [D|D]; try lia. apply mask_le_full.
Qed.

(* minimizing the bias block of a full-range unsigned draw under "fails iff value >= t": the result is the
   least bias word whose decoded value still reaches the threshold *)
Theorem bias_block_minimized_exactly (geom : nat -> N -> N) (t k w : N) :
  (forall a b, a <= b -> geom 64%nat a <= geom 64%nat b) ->
  k < 2 ^ 64 -> t <= dec64 (geom 64%nat k) w ->
  let cond := fun k' => N.leb t (dec64 (geom 64%nat k') w) in
  let k0 := minimize cond k in
  t <= dec64 (geom 64%nat k0) w /\ forall k', k' < k0 -> dec64 (geom 64%nat k') w < t.
Proof.
  intros Hg Hk Ht cond k0.
  destruct (minimize_least cond k eq_refl Hk) as [A B].
  - unfold cond. apply N.leb_le. exact Ht.
  - intros x y Hxy _ Hx. unfold cond in *. apply N.leb_le in Hx. apply N.leb_le.
    eapply N.le_trans; [exact Hx|]. apply dec64_mono. apply Hg. exact Hxy.
  - split; [apply N.leb_le; exact A|]. intros k' Hk'. specialize (B k' Hk'). unfold cond in B. apply N.leb_gt in B. exact B.
Qed.

(* within one bit length the value block is the value: minimizing it under the same property ends on t *)
Theorem value_block_minimized_exactly (n t w : N) :
  n <= 64 -> w < 2 ^ n -> t <= w ->
  minimize (fun w' => N.leb t (dec64 n w')) w = t.
Proof.
  intros Hn Hw Ht.
  assert (Hw64 : w < 2 ^ 64) by (eapply N.lt_le_trans; [exact Hw|apply N.pow_le_mono_r; lia]).
  rewrite (minimize_ext (fun w' => N.leb t (dec64 n w')) (fun w' => N.leb t w') w).
  - apply (minimize_exact t w eq_refl Ht Hw64).
  - intros x Hx. unfold dec64.
    destruct (N.ltb_spec n 64) as [A|A].
    + rewrite mask_small; [reflexivity|lia|]. rewrite N2Nat.id. lia.
    + assert (n = 64) by lia. subst n. change (N.ltb 64 64) with false. rewrite mask_small; [reflexivity|lia|].
      change (N.of_nat 64) with 64. lia.
Qed.
