(* C02: a failure signalled with Error/Errorf/Fail/Fatal/Fatalf/FailNow on any T handed to user code
   (property body, action, invariant, Custom function, cleanup callback) makes the test case fail. *)
From Coq Require Import Lia.
Require Import Rapid.Model.Base Rapid.Model.Syntax Rapid.Model.Monad Rapid.Model.Prim Rapid.Model.Interp Rapid.Model.Engine.
Require Import Rapid.Proofs.Inv Rapid.Proofs.Closure.
Local Open Scope nat_scope.
Arguments internal_msg : simpl never.

Definition is_set (o : option msg) : Prop := o <> None.
(* sticky: once failed is set on a T it stays set; every flagged signal sets it *)
Definition STICKY {A} (m : M A) : Prop :=
  forall s, (is_set (failed (ts s)) \/ nf (w (m s)) = true) -> is_set (failed (ts (post (m s)))).
(* every non-panic signal in the trace raises the flag *)
Definition FLAGGED {A} (m : M A) : Prop :=
  forall s k mm id, In (USignal k mm id) (tr (w (m s))) -> k <> KPanic -> nf (w (m s)) = true.
Definition SIG {A} (m : M A) : Prop := STICKY m /\ FLAGGED m.

Lemma sig_quiet A (m : M A) :
  (forall s, failed (ts (post (m s))) = failed (ts s) /\ nf (w (m s)) = false /\
             forall k mm id, ~ In (USignal k mm id) (tr (w (m s)))) -> SIG m.
Proof.
  intros H. split.
  - intros s [Hs|Hn]; destruct (H s) as [E [N _]]; [rewrite E; exact Hs|congruence].
  - intros s k mm id Hin _. destruct (H s) as [_ [_ Hno]]. exfalso. eapply Hno; eauto.
Qed.

Lemma sig_bind A B (m : M A) (f : A -> M B) : SIG m -> (forall a, SIG (f a)) -> SIG (bind m f).
Proof.
  intros [Sm Fm] Hf. split.
  - intros s H. unfold bind in *. destruct (res (m s)) as [a|e]; cbn [post w] in *.
    + destruct (Hf a) as [Sf _]. apply Sf.
      destruct H as [H|H]; [left; apply Sm; left; exact H|].
      cbn in H. apply orb_true_iff in H. destruct H as [H|H]; [left; apply Sm; right; exact H|right; exact H].
    + apply Sm. exact H.
  - intros s k mm id Hin Hk. unfold bind in *. destruct (res (m s)) as [a|e]; cbn [w] in *.
    + cbn in Hin. apply in_app_or in Hin. cbn. apply orb_true_iff. destruct Hin as [Hin|Hin].
      * left. eapply Fm; eauto.
      * right. destruct (Hf a) as [_ Ff]. eapply Ff; eauto.
    + eapply Fm; eauto.
Qed.
Lemma sig_try A B (m : M A) (h : result A -> M B) : SIG m -> (forall r, SIG (h r)) -> SIG (try_ m h).
Proof.
  intros [Sm Fm] Hh. split.
  - intros s H. unfold try_ in *. cbn [post w] in *. destruct (Hh (res (m s))) as [Sh _]. apply Sh.
    destruct H as [H|H]; [left; apply Sm; left; exact H|].
    cbn in H. apply orb_true_iff in H. destruct H as [H|H]; [left; apply Sm; right; exact H|right; exact H].
  - intros s k mm id Hin Hk. unfold try_ in *. cbn [w] in *. cbn in Hin. apply in_app_or in Hin.
    cbn. apply orb_true_iff. destruct Hin as [Hin|Hin].
    + left. eapply Fm; eauto.
    + right. destruct (Hh (res (m s))) as [_ Fh]. eapply Fh; eauto.
Qed.
Lemma sig_try_w A B (m : M A) (h : result A -> wr -> M B) : SIG m -> (forall r x, SIG (h r x)) -> SIG (try_w m h).
Proof.
  intros [Sm Fm] Hh. split.
  - intros s H. unfold try_w in *. cbn [post w] in *. destruct (Hh (res (m s)) (w (m s))) as [Sh _]. apply Sh.
    destruct H as [H|H]; [left; apply Sm; left; exact H|].
    cbn in H. apply orb_true_iff in H. destruct H as [H|H]; [left; apply Sm; right; exact H|right; exact H].
  - intros s k mm id Hin Hk. unfold try_w in *. cbn [w] in *. cbn in Hin. apply in_app_or in Hin.
    cbn. apply orb_true_iff. destruct Hin as [Hin|Hin].
    + left. eapply Fm; eauto.
    + right. destruct (Hh (res (m s)) (w (m s))) as [_ Fh]. eapply Fh; eauto.
Qed.

Lemma wkeep_tr_nf a : tr (wkeep a) = tr a /\ nf (wkeep a) = nf a.
Proof. unfold wkeep. destruct (rpd a); split; reflexivity. Qed.

Lemma sig_group_d A sa (m : M (A * bool)) : SIG m -> SIG (group_d sa m).
Proof.
  intros [Sm Fm].
  assert (E : forall s, post (group_d sa m s) = post (m s) /\ nf (w (group_d sa m s)) = nf (w (m s))
                        /\ tr (w (group_d sa m s)) = tr (w (m s))).
  { intros s. unfold group_d. destruct (res (m s)) as [[a d]|e]; [destruct d|]; cbn; rewrite ?app_nil_r, ?orb_false_r; auto.
    destruct (wkeep_tr_nf (w (m s))) as [K1 K2].
    destruct (rd (w (m s))); cbn; rewrite ?app_nil_r, ?orb_false_r, ?K1, ?K2; auto. }
  split.
  - intros s H. destruct (E s) as [E1 [E2 _]]. rewrite E1. apply Sm. rewrite E2 in H. exact H.
  - intros s k mm id Hin Hk. destruct (E s) as [_ [E2 E3]]. rewrite E2. rewrite E3 in Hin. eapply Fm; eauto.
Qed.

Lemma sig_fresh A (m : M A) : SIG m -> SIG (with_fresh_T m).
Proof.
  intros [Sm Fm]. split.
  - intros s H. unfold with_fresh_T in *. cbn [post ts with_ts w nf] in *.
    destruct (failed (ts (post (m (with_ts s fresh_t))))) as [mm|] eqn:Ef; [cbn; discriminate|].
    destruct H as [H|H]; [exact H|].
    exfalso. assert (Hi : is_set (failed (ts (post (m (with_ts s fresh_t)))))) by (apply Sm; right; exact H).
    rewrite Ef in Hi. apply Hi; reflexivity.
  - intros s k mm id Hin Hk. unfold with_fresh_T in *. cbn [w tr nf] in *.
    destruct Hin as [Hin|Hin]; [discriminate|]. apply in_app_or in Hin. destruct Hin as [Hin|[Hin|[]]]; [|discriminate].
    eapply Fm; eauto.
Qed.

Ltac quiet3 := (split; [|split]); [cbn; reflexivity | cbn; reflexivity | intros k0 m0 i0 Hin0; cbn in Hin0; intuition discriminate].
Ltac quiet := apply sig_quiet; intros s0; quiet3.

Theorem sig_checkOnce geom LF lvl p : SIG (checkOnce geom LF lvl p).
Proof.
  apply (P_checkOnce (@SIG)); intros; try quiet.
  - apply sig_bind; assumption.
  - (* emit_u of a plain event *) apply sig_quiet. intros s0. (split; [|split]); [reflexivity|reflexivity|].
    intros k0 m0 i0 Hin0. cbn in Hin0. destruct Hin0 as [E|[]]. subst e. discriminate.
  - (* signal *) split.
    + intros s0 Hs. unfold signal. destruct k; cbn; try discriminate. destruct Hs as [Hs|Hs]; [exact Hs|cbn in Hs; discriminate].
    + intros s0 k0 m0 i0 Hin Hk. unfold signal in *. destruct k; cbn in *; auto.
      destruct Hin as [E|[]]. injection E as <- _ _. congruence.
  - (* context_call *) apply sig_quiet. intros s0. unfold context_call.
    destruct (ctx (ts s0)); [|destruct (cleaning (ts s0))]; quiet3.
  - (* begin_cleanup *) apply sig_quiet. intros s0. unfold begin_cleanup. destruct (ctx (ts s0)); quiet3.
  - (* pop_cleanup *) apply sig_quiet. intros s0. unfold pop_cleanup.
    destruct (cleanups (ts s0)) as [|[i c] r]; [|destruct (cleaning (ts s0))]; quiet3.
  - (* failOnError *) apply sig_quiet. intros s0. unfold failOnError.
    destruct (failed (ts s0)) eqn:E; (split; [|split]); cbn; rewrite ?E; try reflexivity; intros k0 m0 i0 Hin0; tauto.
  - (* drawBits *) apply sig_quiet. intros s0. unfold drawBits.
    destruct (src s0) as [[|x l]|j]; [| |destruct (Nat.leb n 64); [destruct (jsf_rand j)|]]; quiet3.
  - apply sig_group_d; assumption.
  - apply sig_try; assumption.
  - apply sig_try_w; assumption.
  - apply sig_fresh; assumption.
Qed.

(* checkOnce's last step: a test case passes or is invalid only if the failed flag is clear at the end *)
Definition passes_or_invalid (r : result unit) : Prop :=
  (exists u, r = Ok u) \/ (exists mm, r = Err (XInvalid mm)).

Lemma check_tail_verdict (r' : tstate -> result unit) s :
  let m := (t <- get_ts ;;
            match r' t, failed t with
            | Err XFuel, _ => throw XFuel
            | Ok _, Some mm | Err (XInvalid _), Some mm => throw (XStop mm SLate)
            | Ok _, None => ret tt
            | Err e, _ => throw e
            end) in
  passes_or_invalid (res (m s)) -> failed (ts (post (m s))) = None.
Proof.
  cbv zeta. unfold bind. cbn [get_ts res post].
  destruct (r' (ts s)) as [u|[mm|mm s0|mm s0|]]; destruct (failed (ts s)) eqn:E; cbn [throw ret res post];
    intros [[u0 H]|[m0 H]]; try discriminate; exact E.
Qed.

Lemma bind_passes A (m : M A) (f : A -> M unit) s :
  passes_or_invalid (res (bind m f s)) ->
  (exists a, res (m s) = Ok a /\ bind m f s = mkOut (res (f a (post (m s)))) (post (f a (post (m s)))) (wapp (w (m s)) (w (f a (post (m s))))))
  \/ (exists mm, res (m s) = Err (XInvalid mm)).
Proof.
  unfold bind. destruct (res (m s)) as [a|e]; cbn [res].
  - intros _. left. exists a. split; reflexivity.
  - intros [[u H]|[mm H]]; [discriminate|]. right. injection H as ->. eexists; reflexivity.
Qed.

Require Import Rapid.Proofs.Replay.

Lemma bind_ok_shape A B (m : M A) (f : A -> M B) s a :
  res (m s) = Ok a -> res (bind m f s) = res (f a (post (m s))) /\ post (bind m f s) = post (f a (post (m s))).
Proof. intros H. unfold bind. rewrite H. split; reflexivity. Qed.

Lemma check_handler_verdict geom LF lvl r s :
  passes_or_invalid (res (check_handler geom LF lvl r s)) ->
  failed (ts (post (check_handler geom LF lvl r s))) = None.
Proof.
  unfold check_handler.
  set (tail := fun (c : option exn) =>
        t <- get_ts ;;
        let r' := match c with
                  | Some e => Err e
                  | None => match r, skipreq t with Ok _, Some m => Err (XInvalid m) | _, _ => r end
                  end in
        match r', failed t with
        | Err XFuel, _ => throw XFuel
        | Ok _, Some mm | Err (XInvalid _), Some mm => throw (XStop mm SLate)
        | Ok _, None => ret tt
        | Err e, _ => throw e
        end).
  set (mark := match r with Err (XInvalid m) => if internal_msg m then mark_dirty else ret tt | _ => ret tt end).
  assert (Hmark : res (mark s) = Ok tt).
  { unfold mark. destruct r as [|[]]; try reflexivity. destruct (internal_msg m); reflexivity. }
  assert (H : passes_or_invalid (res ((_ <- mark ;; c <- cleanup LF (exec geom LF lvl) false ;; tail c) s)) ->
              failed (ts (post ((_ <- mark ;; c <- cleanup LF (exec geom LF lvl) false ;; tail c) s))) = None).
  { destruct (bind_ok_shape _ _ mark (fun _ => c <- cleanup LF (exec geom LF lvl) false ;; tail c) s tt Hmark) as [E1 E2].
    rewrite E1, E2. set (s1 := post (mark s)).
    destruct (res (cleanup LF (exec geom LF lvl) false s1)) as [c|e] eqn:Ec.
    - destruct (bind_ok_shape _ _ (cleanup LF (exec geom LF lvl) false) (fun c0 => tail c0) s1 c Ec) as [F1 F2].
      rewrite F1, F2. unfold tail.
      apply (check_tail_verdict (fun t => match c with
                                          | Some e => Err e
                                          | None => match r, skipreq t with Ok _, Some m => Err (XInvalid m) | _, _ => r end
                                          end)).
    - unfold bind at 1 2. rewrite Ec. cbn [res post].
      apply cleanup_err in Ec. subst e. intros [[u H0]|[mm H0]]; discriminate. }
  destruct r as [u|[]]; try exact H.
  cbn. intros [[u H0]|[mm H0]]; discriminate.
Qed.

(* C02 at the level of one test case *)
Theorem signal_fails_case geom LF lvl p x k mm id :
  let o := checkOnce geom LF lvl p (start x) in
  In (USignal k mm id) (tr (w o)) -> k <> KPanic ->
  ~ passes_or_invalid (res o).
Proof.
  cbv zeta. intros Hin Hk Hp.
  destruct (sig_checkOnce geom LF lvl p) as [St Fl].
  pose proof (Fl (start x) k mm id Hin Hk) as Hnf.
  pose proof (St (start x) (or_intror Hnf)) as Hset.
  unfold checkOnce, try_ in Hp, Hset. cbn [res post] in Hp, Hset.
  apply check_handler_verdict in Hp. apply Hset. exact Hp.
Qed.

(* ---- panics: a panic raised by user code (PFail KPanic) can no longer be replaced by a later skip of a
   cleanup function (the skip is noted, the panic stays in flight), nor by a generator that runs out of data inside a
   cleanup function of the inner T of a Custom generator function (that is noted on the inner T as well, note_ood,
   and only decides the fate of an attempt whose function returned), so the hypothesis [k <> KPanic] can go.
   [signal KPanic] only logs the event and the throw follows in run_p, so this is a direct induction over the
   interpreter (the primitives of Prim.v are taken from the closure principle). ---- *)
Definition bad (e : exn) : Prop := match e with XInvalid _ => False | _ => True end.
Definition bad_res {A} (r : result A) : Prop := match r with Err e => bad e | Ok _ => False end.
Definition psig (t : list uev) : Prop := exists mm id, In (USignal KPanic mm id) t.
(* a panic signal in the trace: the computation ends with a failure, a panic or the fuel artefact *)
Definition PAN {A} (m : M A) : Prop := forall s, psig (tr (w (m s))) -> bad_res (res (m s)).

Lemma psig_app a b : psig (a ++ b) -> psig a \/ psig b.
Proof. intros (mm & id & H). apply in_app_or in H. destruct H; [left|right]; exists mm, id; assumption. Qed.
Lemma psig_nil : ~ psig [].
Proof. intros (mm & id & []). Qed.
Lemma pan_quiet A (m : M A) : (forall s, ~ psig (tr (w (m s)))) -> PAN m.
Proof. intros H s Hp. destruct (H s Hp). Qed.
Ltac in_disc H := cbn in H; repeat (destruct H as [H|H]; [discriminate H|]); destruct H.
Ltac pan_still := apply pan_quiet; intros s0; cbn; apply psig_nil.

Lemma pan_ret A (a : A) : PAN (ret a). Proof. pan_still. Qed.
Lemma pan_throw A e : PAN (@throw A e). Proof. pan_still. Qed.
Lemma pan_emit_g e : PAN (emit_g e). Proof. pan_still. Qed.
Lemma pan_get_ts : PAN get_ts. Proof. pan_still. Qed.
Lemma pan_mark_dirty : PAN mark_dirty. Proof. pan_still. Qed.
Lemma pan_emit_u e : plain e = true -> PAN (emit_u e).
Proof. intros He. apply pan_quiet. intros s0 (mm & id & [E|[]]). subst e. discriminate. Qed.
Lemma pan_note_draw v : PAN (note_draw v).
Proof. apply pan_quiet. intros s0 (mm & id & [E|[]]). discriminate. Qed.
Lemma pan_register id f : PAN (register id f).
Proof. apply pan_quiet. intros s0 (mm & id0 & [E|[]]). discriminate. Qed.
Lemma pan_context_call : PAN context_call.
Proof.
  apply pan_quiet. intros s0 (mm & id & H). unfold context_call in H.
  destruct (ctx (ts s0)); [|destruct (cleaning (ts s0))]; cbn in H; intuition discriminate.
Qed.
Lemma pan_failOnError l : PAN (failOnError l).
Proof. apply pan_quiet. intros s0. unfold failOnError. destruct (failed (ts s0)); cbn; apply psig_nil. Qed.
Lemma pan_drawBits n : PAN (drawBits n).
Proof.
  apply pan_quiet. intros s0. unfold drawBits.
  destruct (src s0) as [[|x l]|j]; [| |destruct (Nat.leb n 64); [destruct (jsf_rand j)|]]; cbn; apply psig_nil.
Qed.

Lemma bind_shape A B (m : M A) (f : A -> M B) s :
  match res (m s) with
  | Ok a => res (bind m f s) = res (f a (post (m s))) /\ tr (w (bind m f s)) = tr (w (m s)) ++ tr (w (f a (post (m s))))
  | Err e => res (bind m f s) = Err e /\ tr (w (bind m f s)) = tr (w (m s))
  end.
Proof. unfold bind. destruct (res (m s)); split; reflexivity. Qed.

Lemma pan_bind A B (m : M A) (f : A -> M B) : PAN m -> (forall a, PAN (f a)) -> PAN (bind m f).
Proof.
  intros Hm Hf s Hp. pose proof (bind_shape _ _ m f s) as E. specialize (Hm s).
  destruct (res (m s)) as [a|e]; destruct E as [E1 E2]; rewrite E1; rewrite E2 in Hp.
  - apply psig_app in Hp. destruct Hp as [Hp|Hp]; [destruct (Hm Hp)|apply Hf; exact Hp].
  - apply Hm. exact Hp.
Qed.
Lemma pan_group_d A sa (m : M (A * bool)) : PAN m -> PAN (group_d sa m).
Proof.
  intros Hm s Hp. specialize (Hm s).
  assert (E : tr (w (group_d sa m s)) = tr (w (m s)) /\
              (forall e, res (m s) = Err e -> res (group_d sa m s) = Err e)).
  { unfold group_d. destruct (res (m s)) as [[a d]|e]; [destruct d|]; cbn; rewrite ?app_nil_r.
    - split; [reflexivity|discriminate].
    - destruct (wkeep_tr_nf (w (m s))) as [K1 _].
      destruct (rd (w (m s))); cbn; rewrite ?app_nil_r, ?K1; (split; [reflexivity|discriminate]).
    - split; [reflexivity|]. intros e0 H. injection H as ->. reflexivity. }
  destruct E as [E1 E2]. rewrite E1 in Hp. specialize (Hm Hp).
  destruct (res (m s)) as [x|e]; [destruct Hm|]. rewrite (E2 e eq_refl). exact Hm.
Qed.
Lemma pan_fresh A (m : M A) : PAN m -> PAN (with_fresh_T m).
Proof.
  intros Hm s (mm & id & Hin). unfold with_fresh_T in *. cbn [w tr res] in *.
  destruct Hin as [Hin|Hin]; [discriminate|]. apply in_app_or in Hin. destruct Hin as [Hin|[Hin|[]]]; [|discriminate].
  apply Hm. exists mm, id. exact Hin.
Qed.
(* catching: a handler that keeps a bad outcome bad *)
Lemma pan_try A B (m : M A) (h : result A -> M B) :
  PAN m -> (forall r, PAN (h r)) -> (forall r s, bad_res r -> bad_res (res (h r s))) -> PAN (try_ m h).
Proof.
  intros Hm Hh Hb s Hp. unfold try_ in *. cbn [res w tr wapp] in *. apply psig_app in Hp. destruct Hp as [Hp|Hp].
  - apply Hb. apply Hm. exact Hp.
  - apply Hh. exact Hp.
Qed.
Lemma pan_try_w A B (m : M A) (h : result A -> wr -> M B) :
  PAN m -> (forall r x, PAN (h r x)) -> (forall r x s, bad_res r -> bad_res (res (h r x s))) -> PAN (try_w m h).
Proof.
  intros Hm Hh Hb s Hp. unfold try_w in *. cbn [res w tr wapp] in *. apply psig_app in Hp. destruct Hp as [Hp|Hp].
  - apply Hb. apply Hm. exact Hp.
  - apply Hh. exact Hp.
Qed.
(* user code's panic: the event and the throw together *)
Lemma pan_fail kind mm id (k : M val) : PAN k ->
  PAN (_ <- signal kind mm id ;;
       match kind with
       | KError => k
       | KFatal => throw (XStop mm (SUser id))
       | KPanic => throw (XPanic mm (SUser id))
       end).
Proof.
  intros Hk s Hp. pose proof (bind_shape _ _ (signal kind mm id)
    (fun _ => match kind with KError => k | KFatal => throw (XStop mm (SUser id)) | KPanic => throw (XPanic mm (SUser id)) end) s) as E.
  assert (Er : res (signal kind mm id s) = Ok tt) by (unfold signal; destruct kind; reflexivity).
  rewrite Er in E. destruct E as [E1 E2]. rewrite E1. rewrite E2 in Hp.
  destruct kind.
  - apply Hk. apply psig_app in Hp. destruct Hp as [(m0 & i0 & [E|[]])|Hp]; [discriminate|exact Hp].
  - exact I.
  - exact I.
Qed.

Section PanInterp.
  Variable geom : nat -> N -> N.
  Variable LF : nat.
  Variable crun : prog -> M val.
  Hypothesis Hcrun : forall p, PAN (crun p).

  Local Notation pgroup := (P_group (@PAN) pan_ret pan_bind pan_group_d).
  Local Notation pcoin := (P_coin (@PAN) pan_ret pan_bind pan_drawBits pan_group_d).
  Local Notation puint := (P_genUintRange (@PAN) pan_ret pan_throw pan_bind pan_drawBits pan_group_d geom).
  Local Notation pint := (P_genIntRange (@PAN) pan_ret pan_throw pan_bind pan_drawBits pan_group_d geom).
  Local Notation pindex := (P_genIndex (@PAN) pan_ret pan_throw pan_bind pan_drawBits pan_group_d geom).
  Local Notation prep := (P_rep_loop (@PAN) pan_ret pan_throw pan_bind pan_mark_dirty pan_drawBits pan_group_d).
  Local Notation pfind := (P_find_loop (@PAN) pan_ret pan_throw pan_bind pan_group_d).

  Ltac pa :=
    repeat first
      [ apply pan_ret | apply pan_throw | apply pan_emit_g | apply pan_emit_u; reflexivity | apply pan_get_ts
      | apply pan_mark_dirty | apply pan_register | apply pan_context_call | apply pan_failOnError
      | apply pan_note_draw | apply pan_drawBits | apply pan_group_d | apply pan_bind; [|intros]
      | assumption
      | match goal with H : forall a, PAN (_ a) |- _ => apply H end ].

  (* T.cleanup reports a panic of a cleanup function (or runs out of fuel); a skip never replaces it *)
  Definition cl_bad (r : result (option exn)) : Prop :=
    match r with Ok (Some e) => bad e | Ok None => False | Err e => bad e end.

  Lemma skip_steps_shape B m (k : M B) s2 :
    res ((_ <- (if internal_msg m then mark_dirty else ret tt) ;; _ <- note_skip m ;; k) s2) = res (k (post (note_skip m s2))) /\
    tr (w ((_ <- (if internal_msg m then mark_dirty else ret tt) ;; _ <- note_skip m ;; k) s2)) = tr (w (k (post (note_skip m s2)))).
  Proof. destruct (internal_msg m); unfold bind, mark_dirty, ret, note_skip; cbn [res post w tr wapp wnil app]; split; reflexivity. Qed.
  Lemma ood_steps_shape B m (k : M B) s2 :
    res ((_ <- mark_dirty ;; _ <- note_ood m ;; k) s2) = res (k (post (note_ood m s2))) /\
    tr (w ((_ <- mark_dirty ;; _ <- note_ood m ;; k) s2)) = tr (w (k (post (note_ood m s2)))).
  Proof. unfold bind, mark_dirty, note_ood; cbn [res post w tr wapp wnil app]; split; reflexivity. Qed.

  Lemma pan_cleanup_loop inner : forall fuel last s,
    psig (tr (w (cleanup_loop crun inner fuel last s))) \/ (exists e, last = Some e /\ bad e) ->
    cl_bad (res (cleanup_loop crun inner fuel last s)).
  Proof.
    induction fuel as [|f IH]; intros last s H; cbn [cleanup_loop]; [exact I|].
    cbn [cleanup_loop] in H.
    pose proof (bind_shape _ _ pop_cleanup (fun c => match c with
        | None => ret last
        | Some c => try_ (crun c) (fun r => match r with
              | Err XFuel => throw XFuel
              | Err (XInvalid m) =>
                  if inner && internal_msg m then _ <- mark_dirty ;; _ <- note_ood m ;; cleanup_loop crun inner f last
                  else _ <- (if internal_msg m then mark_dirty else ret tt) ;; _ <- note_skip m ;; cleanup_loop crun inner f last
              | Err e => cleanup_loop crun inner f (Some e)
              | Ok _ => cleanup_loop crun inner f last
              end)
        end) s) as E.
    assert (Hpop : (res (pop_cleanup s) = Ok None /\ tr (w (pop_cleanup s)) = []) \/
                   (exists c id, res (pop_cleanup s) = Ok (Some c) /\ tr (w (pop_cleanup s)) = [URun id])).
    { unfold pop_cleanup. destruct (cleanups (ts s)) as [|[id c] rest]; [left; split; reflexivity|].
      destruct (cleaning (ts s)); [right; exists c, id; split; reflexivity|left; split; reflexivity]. }
    destruct Hpop as [[P1 P2]|(c & id & P1 & P2)]; rewrite P1 in E; destruct E as [E1 E2]; rewrite E1; rewrite E2, P2 in H; clear E1 E2.
    - cbn [ret res w tr wnil app] in *. destruct H as [H|(e & -> & He)]; [destruct (psig_nil H)|exact He].
    - set (s1 := post (pop_cleanup s)) in H |- *. unfold try_ in H |- *. cbn [res w tr wapp] in H |- *.
      assert (Hc : psig (tr (w (crun c s1))) -> bad_res (res (crun c s1))) by apply Hcrun.
      assert (H' : psig (tr (w (crun c s1))) \/
                   psig (tr (w (match res (crun c s1) with
                                | Err XFuel => throw XFuel
                                | Err (XInvalid m) =>
                                    if inner && internal_msg m then _ <- mark_dirty ;; _ <- note_ood m ;; cleanup_loop crun inner f last
                                    else _ <- (if internal_msg m then mark_dirty else ret tt) ;; _ <- note_skip m ;; cleanup_loop crun inner f last
                                | Err e => cleanup_loop crun inner f (Some e)
                                | Ok _ => cleanup_loop crun inner f last
                                end (post (crun c s1))))) \/
                   (exists e, last = Some e /\ bad e)).
      { destruct H as [H|H]; [|right; right; exact H].
        change ([URun id] ++ ?x) with (URun id :: x) in H. destruct H as (m0 & i0 & [E|Hin]); [discriminate|].
        apply in_app_or in Hin. destruct Hin as [Hin|Hin]; [left|right; left]; exists m0, i0; exact Hin. }
      clear H. destruct (res (crun c s1)) as [v|[m|m st|m st|]].
      + apply IH. destruct H' as [H|[H|H]]; [destruct (Hc H)|left; exact H|right; exact H].
      + destruct (inner && internal_msg m).
        * destruct (ood_steps_shape _ m (cleanup_loop crun inner f last) (post (crun c s1))) as [A B].
          rewrite A. rewrite B in H'. apply IH. destruct H' as [H|[H|H]]; [destruct (Hc H)|left; exact H|right; exact H].
        * destruct (skip_steps_shape _ m (cleanup_loop crun inner f last) (post (crun c s1))) as [A B].
          rewrite A. rewrite B in H'. apply IH. destruct H' as [H|[H|H]]; [destruct (Hc H)|left; exact H|right; exact H].
      + apply IH. right. exists (XStop m st). split; [reflexivity|exact I].
      + apply IH. right. exists (XPanic m st). split; [reflexivity|exact I].
      + exact I.
  Qed.

  Lemma pan_cleanup inner s : psig (tr (w (cleanup LF crun inner s))) -> cl_bad (res (cleanup LF crun inner s)).
  Proof.
    unfold cleanup. intros H.
    pose proof (bind_shape _ _ begin_cleanup (fun _ => r <- cleanup_loop crun inner LF None ;; _ <- end_cleanup ;; ret r) s) as E.
    cbn [begin_cleanup res] in E. destruct E as [E1 E2]. rewrite E1. rewrite E2 in H. clear E1 E2.
    apply psig_app in H. destruct H as [H|H].
    { exfalso. destruct H as (m0 & i0 & H). cbn [begin_cleanup w tr wev] in H. destruct (ctx (ts s)); in_disc H. }
    set (s1 := post (begin_cleanup s)) in H |- *.
    pose proof (bind_shape _ _ (cleanup_loop crun inner LF None) (fun r => _ <- end_cleanup ;; ret r) s1) as E.
    pose proof (pan_cleanup_loop inner LF None s1) as L.
    destruct (res (cleanup_loop crun inner LF None s1)) as [r|e]; destruct E as [E1 E2]; rewrite E1; rewrite E2 in H; clear E1 E2.
    - apply psig_app in H. destruct H as [H|H]; [|exfalso].
      + specialize (L (or_introl H)). unfold bind. cbn [end_cleanup ret res post]. exact L.
      + destruct H as (m0 & i0 & H). unfold bind in H. in_disc H.
    - apply L. left. exact H.
  Qed.

  (* what follows T.cleanup: [k] rethrows what cleanup reports *)
  Lemma pan_after_cleanup inner B (k : option exn -> M B) :
    (forall c, PAN (k c)) -> (forall e s, bad e -> bad_res (res (k (Some e) s))) ->
    PAN (bind (cleanup LF crun inner) k).
  Proof.
    intros Hk Hb s Hp. pose proof (bind_shape _ _ (cleanup LF crun inner) k s) as E.
    pose proof (pan_cleanup inner s) as C.
    destruct (res (cleanup LF crun inner s)) as [c|e]; destruct E as [E1 E2]; rewrite E1; rewrite E2 in Hp; clear E1 E2.
    - apply psig_app in Hp. destruct Hp as [Hp|Hp]; [|apply Hk; exact Hp].
      specialize (C Hp). destruct c as [e|]; [apply Hb; exact C|destruct C].
    - exact (C Hp).
  Qed.
  (* whatever T.cleanup reports is a failure or a panic, never a skip *)
  Lemma cleanup_loop_some inner : forall fuel last s e,
    (forall e0, last = Some e0 -> bad e0) -> res (cleanup_loop crun inner fuel last s) = Ok (Some e) -> bad e.
  Proof.
    induction fuel as [|f IH]; intros last s e Hl; cbn [cleanup_loop]; [discriminate|].
    unfold bind at 1. unfold pop_cleanup at 1 2 3.
    destruct (cleanups (ts s)) as [|[id c] rest]; [|destruct (cleaning (ts s))]; cbn [res post ret].
    - intros H. injection H as H. exact (Hl e H).
    - unfold try_. cbn [res]. destruct (res (crun c _)) as [v|[m|m st|m st|]].
      + apply IH. exact Hl.
      + destruct (inner && internal_msg m).
        * match goal with |- context [post (crun c ?s1)] =>
            destruct (ood_steps_shape _ m (cleanup_loop crun inner f last) (post (crun c s1))) as [A _] end.
          rewrite A. apply IH. exact Hl.
        * match goal with |- context [post (crun c ?s1)] =>
            destruct (skip_steps_shape _ m (cleanup_loop crun inner f last) (post (crun c s1))) as [A _] end.
          rewrite A. apply IH. exact Hl.
      + apply IH. intros e0 H. injection H as <-. exact I.
      + apply IH. intros e0 H. injection H as <-. exact I.
      + discriminate.
    - intros H. injection H as H. exact (Hl e H).
  Qed.
  Lemma cleanup_some inner s e : res (cleanup LF crun inner s) = Ok (Some e) -> bad e.
  Proof.
    unfold cleanup. unfold bind at 1. cbn [begin_cleanup res post]. unfold bind at 1.
    match goal with |- context [res (cleanup_loop crun inner LF None ?s0)] =>
      pose proof (cleanup_loop_some inner LF None s0) as L; destruct (res (cleanup_loop crun inner LF None s0)) as [r|e0] end.
    - unfold bind at 1. cbn [end_cleanup ret res post]. intros H. injection H as ->. apply (L e); [discriminate|reflexivity].
    - discriminate.
  Qed.
  Lemma bad_after_cleanup inner B (k : option exn -> M B) s :
    (forall c s0, (forall e, c = Some e -> bad e) -> bad_res (res (k c s0))) -> bad_res (res (bind (cleanup LF crun inner) k s)).
  Proof.
    intros Hb. pose proof (bind_shape _ _ (cleanup LF crun inner) k s) as E.
    destruct (res (cleanup LF crun inner s)) as [c|e] eqn:Ec; destruct E as [E1 _]; rewrite E1.
    - apply Hb. intros e ->. exact (cleanup_some inner s e Ec).
    - apply (cleanup_err LF crun) in Ec. subst e. exact I.
  Qed.

  Lemma pan_custom_end r : PAN (custom_end r).
  Proof.
    unfold custom_end.
    assert (H : PAN (_ <- emit_u (UCustomEnd (match r with Ok _ => 0 | Err _ => 1 end)) ;;
                 match r with Ok v => _ <- failOnError SCustomFOE ;; ret v | Err e => throw e end)).
    { apply pan_bind; [apply pan_emit_u; destruct r; reflexivity|intros _]. destruct r; pa. }
    destruct r as [v|[]]; try exact H. apply pan_throw.
  Qed.
  Lemma bad_custom_end r s : bad_res r -> bad_res (res (custom_end r s)).
  Proof. destruct r as [v|[m|m st|m st|]]; intros H; try destruct H; exact I. Qed.

  Lemma pan_custom_handler r : PAN (custom_handler LF crun r).
  Proof.
    unfold custom_handler.
    assert (H : PAN (
                 c <- cleanup LF crun true ;;
                 t0 <- get_ts ;;
                 match c, r with
                 | None, Ok v =>
                     match ood t0 with
                     | Some m => match failed t0 with Some _ => throw (XInvalid m) | None => ret None end
                     | None => ret (Some v)
                     end
                 | Some e, Err (XInvalid m) => _ <- (if internal_msg m then mark_dirty else ret tt) ;; throw e
                 | Some e, _ => throw e
                 | None, Err (XInvalid m) => match failed t0 with Some _ => throw (XInvalid m) | None => ret None end
                 | None, Err e => throw e
                 end)).
    { apply pan_after_cleanup.
      - intros c. apply pan_bind; [apply pan_get_ts|intros t0].
        destruct c as [e|]; destruct r as [v|[m|m st|m st|]]; pa; try (destruct (internal_msg m); pa);
          try (destruct (ood t0); pa); try (destruct (failed t0); pa).
      - intros e s He. unfold bind at 1. cbn [get_ts res post]. destruct r as [v|[m|m st|m st|]]; try exact He.
        unfold bind. destruct (internal_msg m); cbn; exact He. }
    destruct r as [v|[]]; try exact H. apply pan_throw.
  Qed.
  Lemma bad_custom_handler r s : bad_res r -> bad_res (res (custom_handler LF crun r s)).
  Proof.
    intros Hr. unfold custom_handler. destruct r as [v|[m|m st|m st|]]; try destruct Hr; try exact I.
    - apply bad_after_cleanup. intros c s0 Hc. unfold bind at 1. cbn [get_ts res post]. destruct c; [exact (Hc _ eq_refl)|exact I].
    - apply bad_after_cleanup. intros c s0 Hc. unfold bind at 1. cbn [get_ts res post]. destruct c; [exact (Hc _ eq_refl)|exact I].
  Qed.

  Lemma pan_custom_att (body : M val) : PAN body -> PAN (custom_att LF crun body).
  Proof.
    intros Hb. unfold custom_att. apply pan_fresh. unfold custom_inner.
    apply pan_bind; [apply pan_emit_u; reflexivity|intros _].
    apply pan_try; [apply pan_try; [exact Hb|apply pan_custom_end|intros; apply bad_custom_end; assumption]
                   |apply pan_custom_handler|intros; apply bad_custom_handler; assumption].
  Qed.

  Lemma pan_run_action id (run_act : nat -> val -> M val) i s :
    (forall i s, PAN (run_act i s)) -> PAN (run_action id run_act i s).
  Proof.
    intros Ha. unfold run_action. apply pan_try_w.
    - apply pan_try_w; [apply Ha| |].
      + intros r wa. apply pan_bind; [apply pan_emit_u; reflexivity|intros _]. destruct r; pa.
      + intros r wa s0 Hr. destruct r as [v|e]; [destruct Hr|]. unfold bind. cbn. exact Hr.
    - intros r wa. destruct r as [v|e]; [pa|]. destruct e; pa.
      destruct (failed a); pa. destruct (rd wa); pa. destruct (internal_msg m); pa.
    - intros r wa s0 Hr. destruct r as [v|[m|m st|m st|]]; try destruct Hr; exact I.
  Qed.
  Lemma pan_exec_action id nacts (run_act : nat -> val -> M val) :
    (forall i s, PAN (run_act i s)) -> forall tries s, PAN (exec_action geom LF id nacts run_act tries s).
  Proof.
    intros Ha. induction tries as [|t IH]; intros s; cbn [exec_action]; [apply pan_throw|].
    apply pan_bind.
    - apply pgroup. apply pan_bind; [apply pgroup, pindex|intros i].
      apply pan_bind; [apply pan_emit_u; reflexivity|intros _]. apply pan_run_action. exact Ha.
    - intros r. destruct r; pa; try apply IH.
  Qed.
  Lemma pan_run_repeat id K nacts (chk : val -> M unit) (run_act : nat -> val -> M val) s0 :
    (forall s, PAN (chk s)) -> (forall i s, PAN (run_act i s)) -> PAN (run_repeat geom LF id K nacts chk run_act s0).
  Proof.
    intros Hc Ha. unfold run_repeat. apply pan_bind; [apply Hc|intros _].
    apply pan_bind; [apply pan_failOnError|intros _].
    apply prep. intros s. unfold repeat_step.
    apply pan_bind; [apply pan_exec_action; exact Ha|intros r].
    destruct r; [|apply pan_ret]. apply pan_bind; [apply Hc|intros _].
    apply pan_bind; [apply pan_failOnError|intros _; apply pan_ret].
  Qed.

  Theorem pan_interp : (forall g, PAN (run_g geom LF crun g)) /\ (forall p, PAN (run_p geom LF crun p)).
  Proof.
    apply gexp_prog_ind; intros; cbn [run_g run_p]; unfold gval.
    - pa.
    - apply pan_bind; [apply puint|intros; pa].
    - apply pan_bind; [apply pint|intros; pa].
    - apply pan_bind; [apply pindex|intros; pa].
    - apply pan_bind; [apply pindex|intros i]. apply pgroup. apply H.
    - apply pan_bind; [apply pcoin|intros b]. destruct b; [|pa]. apply pan_bind; [apply pgroup; assumption|intros; pa].
    - apply pan_bind; [|intros; pa]. apply prep. intros acc.
      unfold slice_body. apply pan_bind; [apply pgroup; assumption|intros v].
      destruct key; [destruct (existsb _ _)|]; pa.
    - apply pan_bind; [|intros; pa]. apply prep. intros acc.
      unfold map_body. apply pan_bind; [|intros kv; destruct (existsb _ _); pa].
      apply pan_bind; [apply pgroup; assumption|intros k]. apply pan_bind; [apply pgroup; assumption|intros; pa].
    - apply pan_bind; [|intros; pa]. apply prep. intros acc.
      unfold map_body. apply pan_bind; [|intros kv; destruct (existsb _ _); pa].
      apply pan_bind; [apply pgroup; assumption|intros; pa].
    - apply pan_bind; [|intros; pa]. apply prep. intros [i l].
      unfold perm_body. apply pan_bind; [apply puint|intros; pa].
    - apply pfind. apply pan_bind; [apply pgroup; assumption|intros; pa].
    - apply pan_bind; [apply pgroup; assumption|intros; pa].
    - apply pfind. apply pan_custom_att; assumption.
    - apply pgroup; assumption.
    - pa.
    - apply pan_bind; [apply pgroup; assumption|intros v]. apply pan_bind; [apply pan_note_draw|intros _; apply H0].
    - apply pan_fail. assumption.
    - pa.
    - apply pan_bind; [apply pan_register|intros _; assumption].
    - apply pan_bind; [apply pan_context_call|intros b]. apply H.
    - apply pan_bind; [apply pan_get_ts|intros t]. apply pan_bind; [apply pan_emit_u; reflexivity|intros _]. apply H.
    - pa.
    - destruct nacts; [apply H1|]. apply pan_bind; [|intros sfin; apply H1].
      apply pan_run_repeat.
      + intros s. destruct haschk; pa. apply H.
      + intros i s. apply H0.
  Qed.
End PanInterp.

Theorem pan_exec geom LF : forall lvl p, PAN (exec geom LF lvl p).
Proof.
  induction lvl as [|l IH]; intros p; cbn [exec]; [apply pan_throw|].
  apply (proj2 (pan_interp geom LF (exec geom LF l) IH)).
Qed.

Lemma pan_check_handler geom LF lvl r : PAN (check_handler geom LF lvl r).
Proof.
  unfold check_handler.
  assert (H : PAN (_ <- (match r with Err (XInvalid m) => if internal_msg m then mark_dirty else ret tt | _ => ret tt end) ;;
      c <- cleanup LF (exec geom LF lvl) false ;;
      t <- get_ts ;;
      let r' := match c with
                | Some e => Err e
                | None => match r, skipreq t with Ok _, Some m => Err (XInvalid m) | _, _ => r end
                end in
      match r', failed t with
      | Err XFuel, _ => throw XFuel
      | Ok _, Some m | Err (XInvalid _), Some m => throw (XStop m SLate)
      | Ok _, None => ret tt
      | Err e, _ => throw e
      end)).
  { apply pan_bind.
    - destruct r as [|[]]; try apply pan_ret. destruct (internal_msg m); [apply pan_mark_dirty|apply pan_ret].
    - intros _. apply pan_after_cleanup; [intros p0; apply pan_exec| |].
      + intros c. apply pan_bind; [apply pan_get_ts|intros t]. cbv zeta.
        destruct (match c with Some e => Err e | None => match r, skipreq t with Ok _, Some m => Err (XInvalid m) | _, _ => r end end)
          as [u|[]]; destruct (failed t); try apply pan_throw; apply pan_ret.
      + intros e s He. unfold bind. cbn [get_ts res post]. destruct e; try destruct He; destruct (failed (ts s)); exact I. }
  destruct r as [u|[]]; try exact H. apply pan_throw.
Qed.
Lemma bad_check_handler geom LF lvl r s : bad_res r -> bad_res (res (check_handler geom LF lvl r s)).
Proof.
  intros Hr. unfold check_handler. destruct r as [v|[m|m st|m st|]]; try destruct Hr; try exact I.
  - unfold bind at 1. cbn [ret res post]. apply bad_after_cleanup. intros c s0 Hc.
    unfold bind. cbn [get_ts res post]. destruct c as [e|]; [specialize (Hc e eq_refl); destruct e; try destruct Hc|];
      destruct (failed (ts s0)); exact I.
  - unfold bind at 1. cbn [ret res post]. apply bad_after_cleanup. intros c s0 Hc.
    unfold bind. cbn [get_ts res post]. destruct c as [e|]; [specialize (Hc e eq_refl); destruct e; try destruct Hc|];
      destruct (failed (ts s0)); exact I.
Qed.

Theorem pan_checkOnce geom LF lvl p : PAN (checkOnce geom LF lvl p).
Proof.
  unfold checkOnce. apply pan_try.
  - apply pan_bind; [apply pan_exec|intros; apply pan_failOnError].
  - apply pan_check_handler.
  - intros; apply bad_check_handler; assumption.
Qed.

(* C02 at the level of one test case, for every kind of signal: panics included *)
Theorem signal_fails_case_any geom LF lvl p x k mm id :
  let o := checkOnce geom LF lvl p (start x) in
  In (USignal k mm id) (tr (w o)) ->
  ~ passes_or_invalid (res o).
Proof.
  cbv zeta. intros Hin. destruct k; try (apply (signal_fails_case geom LF lvl p x _ mm id Hin); discriminate).
  intros Hp. assert (Hb : bad_res (res (checkOnce geom LF lvl p (start x)))).
  { apply pan_checkOnce. exists mm, id. exact Hin. }
  destruct Hp as [[u E]|[m0 E]]; rewrite E in Hb; exact Hb.
Qed.
