(* C02: a failure signalled with Error/Errorf/Fail/Fatal/Fatalf/FailNow on any T handed to user code
   (property body, action, invariant, Custom function, cleanup callback) makes the test case fail. *)
From Coq Require Import Lia.
Require Import Rapid.Model.Base Rapid.Model.Syntax Rapid.Model.Monad Rapid.Model.Prim Rapid.Model.Interp Rapid.Model.Engine.
Require Import Rapid.Proofs.Inv Rapid.Proofs.Closure.
Local Open Scope nat_scope.
Arguments internal_msg : simpl never.

Definition is_set (o : option msg) : Prop := o <> None.
(* sticky: once failed is set on a T it stays set; every flagged signal sets it *)
Definition STICKY {A} (m : M A) : Prop :=
  forall s, (is_set (failed (ts s)) \/ nf (w (m s)) = true) -> is_set (failed (ts (post (m s)))).
(* every non-panic signal in the trace raises the flag *)
Definition FLAGGED {A} (m : M A) : Prop :=
  forall s k mm id, In (USignal k mm id) (tr (w (m s))) -> k <> KPanic -> nf (w (m s)) = true.
Definition SIG {A} (m : M A) : Prop := STICKY m /\ FLAGGED m.

Lemma sig_quiet A (m : M A) :
  (forall s, failed (ts (post (m s))) = failed (ts s) /\ nf (w (m s)) = false /\
             forall k mm id, ~ In (USignal k mm id) (tr (w (m s)))) -> SIG m.
Proof.
  intros H. split.
  - intros s [Hs|Hn]; destruct (H s) as [E [N _]]; [rewrite E; exact Hs|congruence].
  - intros s k mm id Hin _. destruct (H s) as [_ [_ Hno]]. exfalso. eapply Hno; eauto.
Qed.

Lemma sig_bind A B (m : M A) (f : A -> M B) : SIG m -> (forall a, SIG (f a)) -> SIG (bind m f).
Proof.
  intros [Sm Fm] Hf. split.
  - intros s H. unfold bind in *. destruct (res (m s)) as [a|e]; cbn [post w] in *.
    + destruct (Hf a) as [Sf _]. apply Sf.
      destruct H as [H|H]; [left; apply Sm; left; exact H|].
      cbn in H. apply orb_true_iff in H. destruct H as [H|H]; [left; apply Sm; right; exact H|right; exact H].
    + apply Sm. exact H.
  - intros s k mm id Hin Hk. unfold bind in *. destruct (res (m s)) as [a|e]; cbn [w] in *.
    + cbn in Hin. apply in_app_or in Hin. cbn. apply orb_true_iff. destruct Hin as [Hin|Hin].
      * left. eapply Fm; eauto.
      * right. destruct (Hf a) as [_ Ff]. eapply Ff; eauto.
    + eapply Fm; eauto.
Qed.
Lemma sig_try A B (m : M A) (h : result A -> M B) : SIG m -> (forall r, SIG (h r)) -> SIG (try_ m h).
Proof.
  intros [Sm Fm] Hh. split.
  - intros s H. unfold try_ in *. cbn [post w] in *. destruct (Hh (res (m s))) as [Sh _]. apply Sh.
    destruct H as [H|H]; [left; apply Sm; left; exact H|].
    cbn in H. apply orb_true_iff in H. destruct H as [H|H]; [left; apply Sm; right; exact H|right; exact H].
  - intros s k mm id Hin Hk. unfold try_ in *. cbn [w] in *. cbn in Hin. apply in_app_or in Hin.
    cbn. apply orb_true_iff. destruct Hin as [Hin|Hin].
    + left. eapply Fm; eauto.
    + right. destruct (Hh (res (m s))) as [_ Fh]. eapply Fh; eauto.
Qed.
Lemma sig_try_w A B (m : M A) (h : result A -> wr -> M B) : SIG m -> (forall r x, SIG (h r x)) -> SIG (try_w m h).
Proof.
  intros [Sm Fm] Hh. split.
  - intros s H. unfold try_w in *. cbn [post w] in *. destruct (Hh (res (m s)) (w (m s))) as [Sh _]. apply Sh.
    destruct H as [H|H]; [left; apply Sm; left; exact H|].
    cbn in H. apply orb_true_iff in H. destruct H as [H|H]; [left; apply Sm; right; exact H|right; exact H].
  - intros s k mm id Hin Hk. unfold try_w in *. cbn [w] in *. cbn in Hin. apply in_app_or in Hin.
    cbn. apply orb_true_iff. destruct Hin as [Hin|Hin].
    + left. eapply Fm; eauto.
    + right. destruct (Hh (res (m s)) (w (m s))) as [_ Fh]. eapply Fh; eauto.
Qed.

Lemma wkeep_tr_nf a : tr (wkeep a) = tr a /\ nf (wkeep a) = nf a.
Proof. unfold wkeep. destruct (rpd a); split; reflexivity. Qed.

Lemma sig_group_d A sa (m : M (A * bool)) : SIG m -> SIG (group_d sa m).
Proof.
  intros [Sm Fm].
  assert (E : forall s, post (group_d sa m s) = post (m s) /\ nf (w (group_d sa m s)) = nf (w (m s))
                        /\ tr (w (group_d sa m s)) = tr (w (m s))).
  { intros s. unfold group_d. destruct (res (m s)) as [[a d]|e]; [destruct d|]; cbn; rewrite ?app_nil_r, ?orb_false_r; auto.
    destruct (wkeep_tr_nf (w (m s))) as [K1 K2].
    destruct (rd (w (m s))); cbn; rewrite ?app_nil_r, ?orb_false_r, ?K1, ?K2; auto. }
  split.
  - intros s H. destruct (E s) as [E1 [E2 _]]. rewrite E1. apply Sm. rewrite E2 in H. exact H.
  - intros s k mm id Hin Hk. destruct (E s) as [_ [E2 E3]]. rewrite E2. rewrite E3 in Hin. eapply Fm; eauto.
Qed.

Lemma sig_fresh A (m : M A) : SIG m -> SIG (with_fresh_T m).
Proof.
  intros [Sm Fm]. split.
  - intros s H. unfold with_fresh_T in *. cbn [post ts with_ts w nf] in *.
    destruct (failed (ts (post (m (with_ts s fresh_t))))) as [mm|] eqn:Ef; [cbn; discriminate|].
    destruct H as [H|H]; [exact H|].
    exfalso. assert (Hi : is_set (failed (ts (post (m (with_ts s fresh_t)))))) by (apply Sm; right; exact H).
    rewrite Ef in Hi. apply Hi; reflexivity.
  - intros s k mm id Hin Hk. unfold with_fresh_T in *. cbn [w tr nf] in *.
    destruct Hin as [Hin|Hin]; [discriminate|]. apply in_app_or in Hin. destruct Hin as [Hin|[Hin|[]]]; [|discriminate].
    eapply Fm; eauto.
Qed.

Ltac quiet3 := (split; [|split]); [cbn; reflexivity | cbn; reflexivity | intros k0 m0 i0 Hin0; cbn in Hin0; intuition discriminate].
Ltac quiet := apply sig_quiet; intros s0; quiet3.

Theorem sig_checkOnce geom LF lvl p : SIG (checkOnce geom LF lvl p).
Proof.
  apply (P_checkOnce (@SIG)); intros; try quiet.
  - apply sig_bind; assumption.
  - (* emit_u of a plain event *) apply sig_quiet. intros s0. (split; [|split]); [reflexivity|reflexivity|].
    intros k0 m0 i0 Hin0. cbn in Hin0. destruct Hin0 as [E|[]]. subst e. discriminate.
  - (* signal *) split.
    + intros s0 Hs. unfold signal. destruct k; cbn; try discriminate. destruct Hs as [Hs|Hs]; [exact Hs|cbn in Hs; discriminate].
    + intros s0 k0 m0 i0 Hin Hk. unfold signal in *. destruct k; cbn in *; auto.
      destruct Hin as [E|[]]. injection E as <- _ _. congruence.
  - (* context_call *) apply sig_quiet. intros s0. unfold context_call.
    destruct (ctx (ts s0)); [|destruct (cleaning (ts s0))]; quiet3.
  - (* begin_cleanup *) apply sig_quiet. intros s0. unfold begin_cleanup. destruct (ctx (ts s0)); quiet3.
  - (* pop_cleanup *) apply sig_quiet. intros s0. unfold pop_cleanup.
    destruct (cleanups (ts s0)) as [|[i c] r]; [|destruct (cleaning (ts s0))]; quiet3.
  - (* failOnError *) apply sig_quiet. intros s0. unfold failOnError.
    destruct (failed (ts s0)) eqn:E; (split; [|split]); cbn; rewrite ?E; try reflexivity; intros k0 m0 i0 Hin0; tauto.
  - (* drawBits *) apply sig_quiet. intros s0. unfold drawBits.
    destruct (src s0) as [[|x l]|j]; [| |destruct (Nat.leb n 64); [destruct (jsf_rand j)|]]; quiet3.
  - apply sig_group_d; assumption.
  - apply sig_try; assumption.
  - apply sig_try_w; assumption.
  - apply sig_fresh; assumption.
Qed.

(* checkOnce's last step: a test case passes or is invalid only if the failed flag is clear at the end *)
Definition passes_or_invalid (r : result unit) : Prop :=
  (exists u, r = Ok u) \/ (exists mm, r = Err (XInvalid mm)).

Lemma check_tail_verdict (r' : result unit) s :
  let m := (t <- get_ts ;;
            match r', failed t with
            | Err XFuel, _ => throw XFuel
            | Ok _, Some mm | Err (XInvalid _), Some mm => throw (XStop mm SLate)
            | Ok _, None => ret tt
            | Err e, _ => throw e
            end) in
  passes_or_invalid (res (m s)) -> failed (ts (post (m s))) = None.
Proof.
  cbv zeta. unfold bind. cbn [get_ts res post].
  destruct r' as [u|[mm|mm s0|mm s0|]]; destruct (failed (ts s)) eqn:E; cbn [throw ret res post];
    intros [[u0 H]|[m0 H]]; try discriminate; exact E.
Qed.

Lemma bind_passes A (m : M A) (f : A -> M unit) s :
  passes_or_invalid (res (bind m f s)) ->
  (exists a, res (m s) = Ok a /\ bind m f s = mkOut (res (f a (post (m s)))) (post (f a (post (m s)))) (wapp (w (m s)) (w (f a (post (m s))))))
  \/ (exists mm, res (m s) = Err (XInvalid mm)).
Proof.
  unfold bind. destruct (res (m s)) as [a|e]; cbn [res].
  - intros _. left. exists a. split; reflexivity.
  - intros [[u H]|[mm H]]; [discriminate|]. right. injection H as ->. eexists; reflexivity.
Qed.

Require Import Rapid.Proofs.Replay.

Lemma bind_ok_shape A B (m : M A) (f : A -> M B) s a :
  res (m s) = Ok a -> res (bind m f s) = res (f a (post (m s))) /\ post (bind m f s) = post (f a (post (m s))).
Proof. intros H. unfold bind. rewrite H. split; reflexivity. Qed.

Lemma check_handler_verdict geom LF lvl r s :
  passes_or_invalid (res (check_handler geom LF lvl r s)) ->
  failed (ts (post (check_handler geom LF lvl r s))) = None.
Proof.
  unfold check_handler.
  set (tail := fun (c : option exn) =>
        let r' := match c with Some e => Err e | None => r end in
        t <- get_ts ;;
        match r', failed t with
        | Err XFuel, _ => throw XFuel
        | Ok _, Some mm | Err (XInvalid _), Some mm => throw (XStop mm SLate)
        | Ok _, None => ret tt
        | Err e, _ => throw e
        end).
  set (mark := match r with Err (XInvalid m) => if internal_msg m then mark_dirty else ret tt | _ => ret tt end).
  assert (Hmark : res (mark s) = Ok tt).
  { unfold mark. destruct r as [|[]]; try reflexivity. destruct (internal_msg m); reflexivity. }
  assert (H : passes_or_invalid (res ((_ <- mark ;; c <- cleanup LF (exec geom LF lvl) ;; tail c) s)) ->
              failed (ts (post ((_ <- mark ;; c <- cleanup LF (exec geom LF lvl) ;; tail c) s))) = None).
  { destruct (bind_ok_shape _ _ mark (fun _ => c <- cleanup LF (exec geom LF lvl) ;; tail c) s tt Hmark) as [E1 E2].
    rewrite E1, E2. set (s1 := post (mark s)).
    destruct (res (cleanup LF (exec geom LF lvl) s1)) as [c|e] eqn:Ec.
    - destruct (bind_ok_shape _ _ (cleanup LF (exec geom LF lvl)) (fun c0 => tail c0) s1 c Ec) as [F1 F2].
      rewrite F1, F2. unfold tail. apply check_tail_verdict.
    - unfold bind at 1 2. rewrite Ec. cbn [res post].
      apply cleanup_err in Ec. subst e. intros [[u H0]|[mm H0]]; discriminate. }
  destruct r as [u|[]]; try exact H.
  cbn. intros [[u H0]|[mm H0]]; discriminate.
Qed.

(* C02 at the level of one test case *)
Theorem signal_fails_case geom LF lvl p x k mm id :
  let o := checkOnce geom LF lvl p (start x) in
  In (USignal k mm id) (tr (w o)) -> k <> KPanic ->
  ~ passes_or_invalid (res o).
Proof.
  cbv zeta. intros Hin Hk Hp.
  destruct (sig_checkOnce geom LF lvl p) as [St Fl].
  pose proof (Fl (start x) k mm id Hin Hk) as Hnf.
  pose proof (St (start x) (or_intror Hnf)) as Hset.
  unfold checkOnce, try_ in Hp, Hset. cbn [res post] in Hp, Hset.
  apply check_handler_verdict in Hp. apply Hset. exact Hp.
Qed.
