(* Lemmas about fail-file names: kindaSafeFilename yields safe characters only, the discovery pattern
   matches every fail-file name of the same test and never a CreateTemp name. *)
From Coq Require Import List NArith Bool Lia Arith.
Import ListNotations.
Require Import Rapid.Generated.Consts Rapid.Generated.UnicodeLD Rapid.Model.Persist Rapid.Model.PersistCorr.
Require Import Rapid.Proofs.PersistProofs.
Open Scope N_scope.

(* ------------------------------------------------------------------------------------------ *)
(* glob_match *)
Lemma glob_lit c p x n : c <> 42 -> glob_match (c :: p) (x :: n) = (x =? c) && glob_match p n.
Proof. intros H. cbn. destruct (N.eqb_spec c 42); [contradiction|reflexivity]. Qed.

Lemma glob_lit_nil c p : c <> 42 -> glob_match (c :: p) [] = false.
Proof. intros H. cbn. destruct (N.eqb_spec c 42); [contradiction|reflexivity]. Qed.

Lemma glob_star_unfold p n :
  glob_match (42 :: p) n =
  glob_match p n || match n with [] => false | x :: n' => if x =? 47 then false else glob_match (42 :: p) n' end.
Proof. destruct n; reflexivity. Qed.

Lemma glob_prefix l p n : ~ In 42 l -> glob_match (l ++ p) (l ++ n) = glob_match p n.
Proof.
  induction l as [|c l IH]; intros H; [reflexivity|]. cbn [app].
  rewrite glob_lit by (intros E; apply H; left; exact E). rewrite N.eqb_refl. cbn [andb].
  apply IH. intros Hin. apply H. right. exact Hin.
Qed.

(* '*' may swallow any separator-free string *)
Lemma glob_star_skip p x n : ~ In 47 x -> glob_match p n = true -> glob_match (42 :: p) (x ++ n) = true.
Proof.
  intros Hx Hm. induction x as [|c x IH]; cbn [app]; rewrite glob_star_unfold.
  - rewrite Hm. reflexivity.
  - destruct (N.eqb_spec c 47) as [E|E]; [exfalso; apply Hx; left; exact E|].
    rewrite IH; [apply orb_true_r|]. intros Hin. apply Hx. right. exact Hin.
Qed.

Lemma notin_b x l : forallb (fun y => negb (y =? x)) l = true -> ~ In x l.
Proof.
  intros H Hin. rewrite forallb_forall in H. apply H in Hin. rewrite N.eqb_refl in Hin. discriminate.
Qed.

(* ------------------------------------------------------------------------------------------ *)
(* the shapes fixed by the constants of persist.go (Generated/Consts.v): these break when the format
   strings, the directory components or the temp pattern change *)
Definition fail_ext : list N := [46; 102; 97; 105; 108].                       (* ".fail" *)
Definition dir_prefix : list N := [116; 101; 115; 116; 100; 97; 116; 97; 47; 114; 97; 112; 105; 100; 47].   (* "testdata/rapid/" *)

Section Names.
  Variable is_lod : N -> bool.
  Variable to_upper : N -> N.
  Notation ksf := (kindaSafeFilename is_lod to_upper).
  Notation safe := (fun r => safe_rune is_lod r = true).

  Lemma safe_underscore : safe_rune is_lod 95 = true.
  Proof. unfold safe_rune. rewrite (N.eqb_refl 95). apply orb_true_r. Qed.

  Lemma sanitize_safe f : Forall safe (sanitize is_lod f).
  Proof.
    induction f as [|r f IH]; cbn; [constructor|].
    destruct (safe_rune is_lod r) eqn:E; constructor; try exact IH; [exact E|apply safe_underscore].
  Qed.

  Lemma ksf_safe f : Forall safe (ksf f).
  Proof.
    unfold kindaSafeFilename. destruct (is_reserved to_upper (sanitize is_lod f)).
    - apply Forall_app. split; [apply sanitize_safe|]. constructor; [apply safe_underscore|constructor].
    - apply sanitize_safe.
  Qed.

  Lemma pattern_base_shape test : failFilePatternBase is_lod to_upper test = ksf test ++ 45 :: 42 :: fail_ext.
  Proof. reflexivity. Qed.

  Lemma file_base_shape test ts pid :
    failFileBase is_lod to_upper test ts pid = ksf test ++ 45 :: ts ++ 45 :: pid ++ fail_ext.
  Proof. reflexivity. Qed.

  Lemma tmp_name_shape rnd : exists rest, failfile_tmp_name rnd = 46 :: rest.
  Proof. eexists. reflexivity. Qed.

  (* both paths are the same directory prefix followed by the respective base name *)
  Definition path_prefix (test : list N) : list N :=
    match ksf test with [] => dir_prefix | s => dir_prefix ++ s ++ [47] end.

  Lemma pattern_path_shape test :
    failFilePattern is_lod to_upper test = path_prefix test ++ failFilePatternBase is_lod to_upper test.
  Proof.
    unfold failFilePattern, path_prefix. rewrite pattern_base_shape.
    destruct (ksf test) as [|a s]; [reflexivity|].
    cbn. rewrite <- app_assoc. reflexivity.
  Qed.

  Lemma file_path_shape test ts pid :
    failFileName is_lod to_upper test ts pid = path_prefix test ++ failFileBase is_lod to_upper test ts pid.
  Proof.
    unfold failFileName, path_prefix. rewrite file_base_shape.
    destruct (ksf test) as [|a s]; [reflexivity|].
    cbn. rewrite <- app_assoc. reflexivity.
  Qed.

  Lemma dir_shape test : failFileDir is_lod to_upper test ++ [47] = path_prefix test.
  Proof.
    unfold failFileDir, path_prefix. destruct (ksf test) as [|a s]; [reflexivity|].
    cbn. rewrite <- ?app_assoc. reflexivity.
  Qed.

  (* ---- with the oracle agreeing with ASCII below 128 ---- *)
  Hypothesis lod_ascii : forall r, r < 128 -> is_lod r = ascii_alnum r.

  Definition not_meta (r : N) : Prop := r <> 47 /\ r <> 42 /\ r <> 63 /\ r <> 91 /\ r <> 92 /\ r <> 46.

  Lemma safe_not_meta r : safe_rune is_lod r = true -> not_meta r.
  Proof.
    intros H. unfold not_meta.
    repeat split; intros ->; unfold safe_rune in H; rewrite lod_ascii in H by lia; discriminate H.
  Qed.

  Lemma ksf_not_meta f : Forall not_meta (ksf f).
  Proof. eapply Forall_impl; [|apply ksf_safe]. intros r H. apply safe_not_meta. exact H. Qed.

  Lemma ksf_no_star f : ~ In 42 (ksf f).
  Proof. intros Hin. pose proof (ksf_not_meta f) as HF. rewrite Forall_forall in HF. apply HF in Hin. unfold not_meta in Hin. tauto. Qed.

  Lemma path_prefix_no_star test : ~ In 42 (path_prefix test).
  Proof.
    unfold path_prefix. pose proof (ksf_no_star test) as Hs.
    assert (Hd : ~ In 42 dir_prefix) by (apply notin_b; reflexivity).
    destruct (ksf test) as [|a s]; [exact Hd|].
    intros Hin. apply in_app_or in Hin. destruct Hin as [Hin|Hin]; [contradiction|].
    apply in_app_or in Hin. destruct Hin as [Hin|[Hin|[]]]; [contradiction|discriminate].
  Qed.

  (* the discovery pattern matches every fail-file name of the same test *)
  Lemma pattern_matches_base test ts pid : ~ In 47 ts -> ~ In 47 pid ->
    glob_match (failFilePatternBase is_lod to_upper test) (failFileBase is_lod to_upper test ts pid) = true.
  Proof.
    intros Hts Hpid. rewrite pattern_base_shape, file_base_shape.
    assert (E1 : ksf test ++ 45 :: 42 :: fail_ext = (ksf test ++ [45]) ++ 42 :: fail_ext)
      by (rewrite <- app_assoc; reflexivity).
    assert (E2 : ksf test ++ 45 :: ts ++ 45 :: pid ++ fail_ext = (ksf test ++ [45]) ++ ((ts ++ 45 :: pid) ++ fail_ext))
      by (rewrite <- !app_assoc; reflexivity).
    rewrite E1, E2. rewrite glob_prefix.
    - apply glob_star_skip; [|reflexivity].
      intros Hin. apply in_app_or in Hin. destruct Hin as [Hin|[Hin|Hin]]; [contradiction|discriminate|contradiction].
    - intros Hin. apply in_app_or in Hin. destruct Hin as [Hin|[Hin|[]]]; [|discriminate].
      exact (ksf_no_star test Hin).
  Qed.

  Lemma pattern_matches_path test ts pid : ~ In 47 ts -> ~ In 47 pid ->
    glob_match (failFilePattern is_lod to_upper test) (failFileName is_lod to_upper test ts pid) = true.
  Proof.
    intros Hts Hpid. rewrite pattern_path_shape, file_path_shape.
    rewrite glob_prefix by apply path_prefix_no_star. apply pattern_matches_base; assumption.
  Qed.

  (* ... and never a name made by os.CreateTemp from failfileTmpPattern *)
  Lemma tmp_disjoint_base test rnd :
    glob_match (failFilePatternBase is_lod to_upper test) (failfile_tmp_name rnd) = false.
  Proof.
    rewrite pattern_base_shape. destruct (tmp_name_shape rnd) as [rest ->].
    pose proof (ksf_not_meta test) as HF.
    destruct (ksf test) as [|a s]; [reflexivity|].
    inversion HF as [|? ? Ha _]; subst. unfold not_meta in Ha. cbn [app].
    rewrite glob_lit by tauto. destruct (N.eqb_spec 46 a) as [E|E]; [exfalso; symmetry in E; tauto|reflexivity].
  Qed.

  Lemma tmp_disjoint_path test rnd :
    glob_match (failFilePattern is_lod to_upper test) (failFileDir is_lod to_upper test ++ 47 :: failfile_tmp_name rnd) = false.
  Proof.
    rewrite pattern_path_shape.
    change (failFileDir is_lod to_upper test ++ 47 :: failfile_tmp_name rnd)
      with (failFileDir is_lod to_upper test ++ [47] ++ failfile_tmp_name rnd).
    rewrite app_assoc, dir_shape. rewrite glob_prefix by apply path_prefix_no_star. apply tmp_disjoint_base.
  Qed.

  Lemma name_facts test :
    Forall safe (ksf test) /\ Forall not_meta (ksf test) /\
    forall ts pid, ~ In 47 ts -> ~ In 47 pid ->
      glob_match (failFilePatternBase is_lod to_upper test) (failFileBase is_lod to_upper test ts pid) = true /\
      glob_match (failFilePattern is_lod to_upper test) (failFileName is_lod to_upper test ts pid) = true.
  Proof.
    split; [apply ksf_safe|]. split; [apply ksf_not_meta|]. intros ts pid Hts Hpid.
    split; [apply pattern_matches_base|apply pattern_matches_path]; assumption.
  Qed.
End Names.

(* digit strings contain no separator *)
Lemma digits_no_sep ds : Forall (fun c => 48 <= c <= 57) ds -> ~ In 47 ds.
Proof. intros HF Hin. rewrite Forall_forall in HF. apply HF in Hin. lia. Qed.

(* ------------------------------------------------------------------------------------------ *)
(* the concrete oracle: Go's unicode tables as enumerated into Generated/UnicodeLD.v *)
Lemma ascii_agrees_spec ld : ascii_agrees ld = true -> forall r, r < 128 -> in_ranges ld r = ascii_alnum r.
Proof.
  intros H r Hr. unfold ascii_agrees in H. rewrite forallb_forall in H.
  apply Bool.eqb_prop. apply H. apply in_map_iff. exists (N.to_nat r). split; [lia|].
  apply in_seq. lia.
Qed.

Lemma unicode_ld_ascii : forall r, r < 128 -> in_ranges unicode_ld_ranges r = ascii_alnum r.
Proof. apply ascii_agrees_spec. vm_compute. reflexivity. Qed.
