(* Engine-level theorems about fail files (engine.go: checkFailFile / doCheck / checkTB):
   C17 - unusable files change nothing but the log;  C06 - a saved failure is replayed first on the next run. *)
From Coq Require Import Lia List.
Require Import Rapid.Model.Base Rapid.Model.Syntax Rapid.Model.Monad Rapid.Model.Engine Rapid.Model.Shrink.
Require Import Rapid.Proofs.ShrinkProofs.
Import ListNotations.
Local Open Scope nat_scope.

Section Files.
  Variable geom : nat -> N -> N.
  Variable LF : nat.
  Variable lvl : nat.
  Variable p : prog.
  Notation run := (run_case geom LF lvl p).
  Notation check_files := (check_files geom LF lvl p).
  Notation doCheck := (doCheck geom LF lvl p).
  Notation checkTB := (checkTB geom LF lvl p).

  (* a fail file that cannot reproduce a failure: unreadable / malformed, another version, or its test case
     now passes or is rejected as invalid data *)
  Definition unusable (f : loaded) : Prop :=
    match f with
    | LErr => True
    | LFile false _ => True
    | LFile true buf => (exists u, res (run (SBuf buf)) = Ok u) \/ (exists m, res (run (SBuf buf)) = Err (XInvalid m))
    end.
  (* the invocations the engine makes for an unusable file: none, or one run of its buffer *)
  Definition file_invs (f : loaded) : list invocation :=
    match f with
    | LFile true buf => [mkIvc (SBuf buf) (run (SBuf buf))]
    | _ => []
    end.

  Lemma check_files_unusable : forall files idx logs invs,
    Forall unusable files ->
    exists logs2,
      check_files files idx logs invs = (None, logs ++ logs2, invs ++ flat_map file_invs files) /\
      length logs2 = length files /\ ~ In FFailed logs2.
  Proof.
    induction files as [|f fs IH]; intros idx logs invs HF.
    - exists []. cbn. rewrite !app_nil_r. repeat split; auto.
    - inversion HF as [|f' fs' Hf Hfs]; subst. cbn [check_files flat_map].
      destruct f as [|[|] buf].
      + destruct (IH (S idx) (logs ++ [FIgnored]) invs Hfs) as [l2 [E [Hl Hn]]].
        exists (FIgnored :: l2). rewrite E, <- app_assoc. cbn. repeat split; auto. intros [H|H]; [discriminate|auto].
      + cbn [unusable] in Hf.
        destruct Hf as [[u Hu]|[m Hm]].
        * rewrite Hu. destruct (IH (S idx) (logs ++ [FPassed]) (invs ++ [mkIvc (SBuf buf) (run (SBuf buf))]) Hfs) as [l2 [E [Hl Hn]]].
          exists (FPassed :: l2). rewrite E, <- !app_assoc. cbn. repeat split; auto. intros [H|H]; [discriminate|auto].
        * rewrite Hm. destruct (IH (S idx) (logs ++ [FNoLongerValid]) (invs ++ [mkIvc (SBuf buf) (run (SBuf buf))]) Hfs) as [l2 [E [Hl Hn]]].
          exists (FNoLongerValid :: l2). rewrite E, <- !app_assoc. cbn. repeat split; auto. intros [H|H]; [discriminate|auto].
      + destruct (IH (S idx) (logs ++ [FIgnored]) invs Hfs) as [l2 [E [Hl Hn]]].
        exists (FIgnored :: l2). rewrite E, <- app_assoc. cbn. repeat split; auto. intros [H|H]; [discriminate|auto].
  Qed.

  (* C17 (engine part): with any number of unusable files in the directory, the check behaves exactly as with
     an empty directory - same counts, same seed, same errors, same reported buffer, and the invocations are
     those of the files followed by exactly the invocations of the empty-directory run; one log line per
     file, none of them a failure *)
  Theorem unusable_files_ignored files checks early seed cands clock :
    Forall unusable files ->
    let a := doCheck files checks early seed cands clock in
    let b := doCheck [] checks early seed cands clock in
    dc_valid a = dc_valid b /\ dc_invalid a = dc_invalid b /\ dc_early a = dc_early b /\
    dc_seed a = dc_seed b /\ dc_fromfile a = None /\ dc_fromfile b = None /\ dc_buf a = dc_buf b /\
    dc_err1 a = dc_err1 b /\ dc_err2 a = dc_err2 b /\
    dc_invocations a = flat_map file_invs files ++ dc_invocations b /\
    length (dc_filelogs a) = length files /\ ~ In FFailed (dc_filelogs a).
  Proof.
    intros HF. cbv zeta. unfold Shrink.doCheck.
    destruct (check_files_unusable files 0 [] [] HF) as [l2 [E [Hl Hn]]]. rewrite E. cbn [check_files app].
    set (fb := findBug0 geom LF lvl p checks early seed). clearbody fb.
    destruct (fb_err fb) as [e1|] eqn:Ee.
    - set (o2 := run (SRnd (jsf_init (fb_seed fb)))). clearbody o2.
      destruct (negb (res_eqb (Err e1) (res o2))).
      + cbn [dc_valid dc_invalid dc_early dc_seed dc_fromfile dc_buf dc_err1 dc_err2 dc_invocations dc_filelogs]. repeat split; auto.
      + destruct (shrink_any geom LF lvl p cands clock 0 (shrink_start o2)) as [s abort].
        cbn [dc_valid dc_invalid dc_early dc_seed dc_fromfile dc_buf dc_err1 dc_err2 dc_invocations dc_filelogs]. repeat split; auto.
    - cbn [dc_valid dc_invalid dc_early dc_seed dc_fromfile dc_buf dc_err1 dc_err2 dc_invocations dc_filelogs]. repeat split; auto.
  Qed.
  (* ... and so does the verdict shown to the user *)
  Theorem unusable_files_same_verdict files checks nofailfile early seed cands clock :
    Forall unusable files ->
    let a := checkTB files checks nofailfile early seed cands clock in
    let b := checkTB [] checks nofailfile early seed cands clock in
    tb_verdict a = tb_verdict b /\ tb_failed a = tb_failed b /\ tb_seed_shown a = tb_seed_shown b /\
    tb_saved a = tb_saved b /\ tb_final a = tb_final b.
  Proof.
    intros HF. cbv zeta. unfold Shrink.checkTB.
    destruct (unusable_files_ignored files checks early seed cands clock HF)
      as [H1 [H2 [H3 [H4 [H5 [H6 [H7 [H8 [H9 _]]]]]]]]].
    rewrite H1, H2, H3, H4, H5, H6, H7, H8, H9.
    destruct (dc_err1 (doCheck [] checks early seed cands clock)) as [u|e] eqn:E1;
      [destruct (dc_err2 (doCheck [] checks early seed cands clock)) as [u2|e2] eqn:E2|].
    - destruct (_ || _); cbn [tb_verdict tb_failed tb_seed_shown tb_saved tb_final]; repeat split; reflexivity.
    - cbn [tb_verdict tb_failed tb_seed_shown tb_saved tb_final]. repeat split; reflexivity.
    - cbn [tb_verdict tb_failed tb_seed_shown tb_saved tb_final]. repeat split; reflexivity.
  Qed.

  (* C06 (engine part): the first usable failing file is replayed before any random test case *)
  Lemma check_files_hit : forall pre buf post idx logs invs e,
    Forall unusable pre ->
    res (run (SBuf buf)) = Err e -> (forall m, e <> XInvalid m) ->
    exists logs',
      check_files (pre ++ LFile true buf :: post) idx logs invs
      = (Some (idx + length pre, buf, Err e, Err e), logs',
         invs ++ flat_map file_invs pre ++ [mkIvc (SBuf buf) (run (SBuf buf)); mkIvc (SBuf buf) (run (SBuf buf))]).
  Proof.
    induction pre as [|f fs IH]; intros buf post idx logs invs e HF Hr Hni.
    - cbn [app check_files flat_map length]. rewrite Hr. rewrite Nat.add_0_r.
      destruct e as [m|m s|m s|]; try (eexists; reflexivity). exfalso. eapply Hni; reflexivity.
    - inversion HF as [|f' fs' Hf Hfs]; subst. cbn [app check_files flat_map length].
      destruct f as [|[|] b0].
      + destruct (IH buf post (S idx) (logs ++ [FIgnored]) invs e Hfs Hr Hni) as [l' E]. exists l'. rewrite E.
        replace (S idx + length fs) with (idx + S (length fs)) by lia. reflexivity.
      + cbn [unusable] in Hf. destruct Hf as [[u Hu]|[m Hm]].
        * rewrite Hu. destruct (IH buf post (S idx) (logs ++ [FPassed]) (invs ++ [mkIvc (SBuf b0) (run (SBuf b0))]) e Hfs Hr Hni) as [l' E].
          exists l'. rewrite E. replace (S idx + length fs) with (idx + S (length fs)) by lia. cbn [file_invs]. rewrite <- !app_assoc. reflexivity.
        * rewrite Hm. destruct (IH buf post (S idx) (logs ++ [FNoLongerValid]) (invs ++ [mkIvc (SBuf b0) (run (SBuf b0))]) e Hfs Hr Hni) as [l' E].
          exists l'. rewrite E. replace (S idx + length fs) with (idx + S (length fs)) by lia. cbn [file_invs]. rewrite <- !app_assoc. reflexivity.
      + destruct (IH buf post (S idx) (logs ++ [FIgnored]) invs e Hfs Hr Hni) as [l' E]. exists l'. rewrite E.
        replace (S idx + length fs) with (idx + S (length fs)) by lia. reflexivity.
  Qed.

  Theorem failing_file_replayed_first pre buf post checks nofailfile early seed cands clock e :
    Forall unusable pre ->
    res (run (SBuf buf)) = Err e -> (forall m, e <> XInvalid m) -> e <> XFuel ->
    let tb := checkTB (pre ++ LFile true buf :: post) checks nofailfile early seed cands clock in
    let dc := tb_dc tb in
    (* found from the file, before ("after 0 tests") and instead of any random test case *)
    dc_fromfile dc = Some (length pre) /\ dc_valid dc = 0 /\ dc_invalid dc = 0 /\ dc_buf dc = buf /\
    dc_invocations dc = flat_map file_invs pre ++ [mkIvc (SBuf buf) (run (SBuf buf)); mkIvc (SBuf buf) (run (SBuf buf))] /\
    (* reported with the failure the file's test case has, not re-saved, no seed advertised, and the final
       replay shown to the user is the file's test case *)
    tb_failed tb = true /\
    (tb_verdict tb = VFailedAfter 0 e \/ tb_verdict tb = VPanicAfter 0 e) /\
    tb_saved tb = None /\ tb_seed_shown tb = None /\ tb_final tb = Some (run (SBuf buf)).
  Proof.
    intros HF Hr Hni Hnf. cbv zeta. unfold Shrink.checkTB, Shrink.doCheck.
    destruct (check_files_hit pre buf post 0 [] [] e HF Hr Hni) as [l' E]. rewrite E. cbn [app].
    cbn [dc_err1 dc_err2 dc_fromfile dc_valid dc_invalid dc_buf dc_invocations dc_seed tb_dc].
    assert (Ht : tbk_eqb (tb_of (Err e)) (tb_of (Err e)) = true).
    { destruct e as [m|m s|m s|]; cbn [tb_of tbk_eqb].
      - exfalso; eapply Hni; reflexivity.
      - apply site_eqb_refl.
      - apply site_eqb_refl.
      - exfalso; apply Hnf; reflexivity. }
    rewrite Ht. cbn [tb_verdict tb_failed tb_seed_shown tb_saved tb_final tb_dc dc_fromfile dc_valid dc_invalid dc_buf dc_invocations dc_seed].
    change (N.eqb 0%N 0%N) with true. cbv iota.
    repeat split; auto.
    destruct e as [m|m s|m s|]; auto.
  Qed.

  (* the two-run history: whatever buffer a failed run hands to saveFailFile, a later run that finds it
     (alone or after unusable files) reports it "after 0 tests" with the very outcome of the first run's
     final replay *)
  Theorem saved_failure_replayed_next_run files1 checks1 early1 seed1 cands1 clock1 b e
          pre post checks2 nofailfile2 early2 seed2 cands2 clock2 :
    let tb1 := checkTB files1 checks1 false early1 seed1 cands1 clock1 in
    tb_saved tb1 = Some b ->
    tb_final tb1 = Some (run (SBuf b)) ->
    res (run (SBuf b)) = Err e -> (forall m, e <> XInvalid m) -> e <> XFuel ->
    Forall unusable pre ->
    let tb2 := checkTB (pre ++ LFile true b :: post) checks2 nofailfile2 early2 seed2 cands2 clock2 in
    dc_fromfile (tb_dc tb2) = Some (length pre) /\ dc_valid (tb_dc tb2) = 0 /\
    tb_final tb2 = tb_final tb1 /\ tb_failed tb2 = true /\
    (tb_verdict tb2 = VFailedAfter 0 e \/ tb_verdict tb2 = VPanicAfter 0 e) /\ tb_saved tb2 = None.
  Proof.
    intros tb1 Hs Hf Hr Hni Hnf HF. cbv zeta.
    destruct (failing_file_replayed_first pre b post checks2 nofailfile2 early2 seed2 cands2 clock2 e HF Hr Hni Hnf)
      as [A [B [_ [_ [_ [F [G [H [_ I]]]]]]]]].
    rewrite Hf. repeat split; auto.
  Qed.
End Files.
