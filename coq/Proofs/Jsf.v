(* jsf64 (data.go): one round is injective on 64-bit states, so different seeds give different generator
   states - the test cases of one run (seeds seed+i) start from pairwise different PRNG states. *)
From Coq Require Import Lia NArith ZArith ZifyN ZifyNat ZifyBool.
Require Import Rapid.Model.Base Rapid.Model.Syntax Rapid.Model.Monad.
Require Import Rapid.Proofs.IntProofs Rapid.Proofs.Reach.
Ltac Zify.zify_post_hook ::= Z.div_mod_to_equations.
Local Open Scope N_scope.

Definition wf64 (x : N) : Prop := x < W64.
Definition jwf (x : jsf) : Prop := wf64 (ja x) /\ wf64 (jb x) /\ wf64 (jc x) /\ wf64 (jd x).

Lemma add64_cancel_l a b c : wf64 a -> wf64 b -> add64 a c = add64 b c -> a = b.
Proof. unfold wf64, add64. rewrite W64_val. intros Ha Hb H. lia. Qed.
Lemma add64_cancel_r a b c : wf64 a -> wf64 b -> add64 c a = add64 c b -> a = b.
Proof. unfold wf64, add64. rewrite W64_val. intros Ha Hb H. lia. Qed.
Lemma sub64_cancel a b c : wf64 a -> wf64 b -> wf64 c -> sub64 a c = sub64 b c -> a = b.
Proof. unfold wf64, sub64. rewrite W64_val. intros Ha Hb Hc H. lia. Qed.
Lemma add64_wf a b : wf64 (add64 a b).
Proof. unfold wf64, add64. rewrite W64_val. lia. Qed.
Lemma sub64_wf a b : wf64 (sub64 a b).
Proof. unfold wf64, sub64. rewrite W64_val. lia. Qed.
Lemma lxor_wf a b : wf64 a -> wf64 b -> wf64 (N.lxor a b).
Proof.
  unfold wf64. rewrite W64_val. intros Ha Hb.
  destruct (N.eq_dec (N.lxor a b) 0) as [->|Hne]; [lia|].
  apply N.log2_lt_pow2; [lia|].
  eapply N.le_lt_trans; [apply N.log2_lxor|].
  destruct (N.eq_dec a 0) as [->|Ha0]; destruct (N.eq_dec b 0) as [->|Hb0].
  - cbn. lia.
  - rewrite N.max_r by (cbn; lia). apply N.log2_lt_pow2; lia.
  - rewrite N.max_l by (cbn; lia). apply N.log2_lt_pow2; lia.
  - apply N.max_lub_lt; apply N.log2_lt_pow2; lia.
Qed.
Lemma lxor_cancel_r a b c : N.lxor a c = N.lxor b c -> a = b.
Proof.
  intros H.
  assert (E : forall x, N.lxor (N.lxor x c) c = x).
  { intros x. rewrite N.lxor_assoc, N.lxor_nilpotent. apply N.lxor_0_r. }
  rewrite <- (E a), <- (E b), H. reflexivity.
Qed.
Lemma rotl_wf x k : wf64 x -> 0 < k < 64 -> wf64 (rotl x k).
Proof.
  unfold wf64, rotl. rewrite W64_val. intros Hx Hk.
  rewrite N.shiftl_mul_pow2, N.shiftr_div_pow2.
  assert (Hp : 2 ^ 64 = 2 ^ k * 2 ^ (64 - k)) by (rewrite <- N.pow_add_r; f_equal; lia).
  assert (Hk0 : 2 ^ k <> 0) by (apply N.pow_nonzero; lia).
  assert (Hk1 : 2 ^ (64 - k) <> 0) by (apply N.pow_nonzero; lia).
  (* low part: (x * 2^k) mod 2^64 = (x mod 2^(64-k)) * 2^k *)
  assert (Hlow : (x * 2 ^ k) mod 2 ^ 64 = (x mod 2 ^ (64 - k)) * 2 ^ k).
  { rewrite Hp. rewrite (N.mul_comm x (2 ^ k)). rewrite N.mul_mod_distr_l by assumption. apply N.mul_comm. }
  rewrite Hlow.
  assert (Hhi : x / 2 ^ (64 - k) < 2 ^ k).
  { apply N.div_lt_upper_bound; [assumption|]. rewrite N.mul_comm, <- Hp. exact Hx. }
  pose proof (N.mod_lt x (2 ^ (64 - k)) Hk1) as Hm.
  rewrite Hp. nia.
Qed.

Lemma jsf_step_wf x : jwf x -> jwf (snd (jsf_rand x)).
Proof.
  intros [Ha [Hb [Hc Hd]]]. unfold jsf_rand, jwf. cbn [snd ja jb jc jd].
  repeat split; try apply add64_wf. apply lxor_wf; [exact Hb|apply rotl_wf; [exact Hc|lia]].
Qed.

Theorem jsf_step_injective x y : jwf x -> jwf y -> snd (jsf_rand x) = snd (jsf_rand y) -> x = y.
Proof.
  intros [Ha [Hb [Hc Hd]]] [Ha' [Hb' [Hc' Hd']]]. unfold jsf_rand. cbn [snd]. intros H.
  injection H as H1 H2 H3 H4.
  destruct x as [a b c d], y as [a' b' c' d']. cbn [ja jb jc jd] in *.
  (* e from d' and a' *)
  rewrite H1 in H4. apply add64_cancel_l in H4; try apply sub64_wf.
  (* d from c' *)
  rewrite H4 in H3. apply add64_cancel_l in H3; try assumption. subst d'.
  (* c from b' *)
  apply add64_cancel_l in H2; try assumption. subst c'.
  (* b from a' *)
  apply lxor_cancel_r in H1. subst b'.
  (* a from e *)
  apply sub64_cancel in H4; try assumption; [|apply rotl_wf; [assumption|lia]]. subst a'. reflexivity.
Qed.

Lemma jsf_warm_wf n : forall x, jwf x -> jwf (jsf_warm n x).
Proof. induction n as [|n IH]; intros x H; cbn [jsf_warm]; [exact H|]. apply IH. apply jsf_step_wf. exact H. Qed.
Lemma jsf_warm_injective n : forall x y, jwf x -> jwf y -> jsf_warm n x = jsf_warm n y -> x = y.
Proof.
  induction n as [|n IH]; intros x y Hx Hy H; cbn [jsf_warm] in H; [exact H|].
  apply IH in H; try (apply jsf_step_wf; assumption). apply jsf_step_injective; assumption.
Qed.

Theorem jsf_init_injective s1 s2 : s1 < 2 ^ 64 -> s2 < 2 ^ 64 -> jsf_init s1 = jsf_init s2 -> s1 = s2.
Proof.
  intros H1 H2 H. unfold jsf_init in H.
  apply jsf_warm_injective in H.
  - injection H as E. exact E.
  - unfold jwf, wf64. cbn [ja jb jc jd]. rewrite W64_val. lia.
  - unfold jwf, wf64. cbn [ja jb jc jd]. rewrite W64_val. lia.
Qed.

(* the test cases of one run start from pairwise different generator states *)
Theorem case_states_distinct seed i j :
  i < 2 ^ 64 -> j < 2 ^ 64 -> i <> j -> jsf_init (wrapN (seed + i)) <> jsf_init (wrapN (seed + j)).
Proof.
  intros Hi Hj Hne H. apply jsf_init_injective in H.
  - exact (seeds_distinct seed i j Hi Hj Hne H).
  - unfold wrapN. rewrite W64_val. apply N.mod_lt. lia.
  - unfold wrapN. rewrite W64_val. apply N.mod_lt. lia.
Qed.
