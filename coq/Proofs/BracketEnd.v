(* The end of a bracket: when T.cleanup is done the T is empty (no cleanups left, context cancelled,
   cleaning reset).  Uses the closure principle for predicates about the current T only. *)
From Coq Require Import Lia.
Require Import Rapid.Model.Base Rapid.Model.Syntax Rapid.Model.Monad Rapid.Model.Prim Rapid.Model.Interp Rapid.Model.Engine.
Require Import Rapid.Proofs.Inv.
Require Rapid.Proofs.Closure2 Rapid.Proofs.Replay.
Local Open Scope nat_scope.

(* user code never changes the cleaning flag of its own T, and cannot create a context while cleaning *)
Definition KEEPC {A} (m : M A) : Prop :=
  forall s, cleaning (ts (post (m s))) = cleaning (ts s) /\
            (cleaning (ts s) = true -> ctx (ts (post (m s))) = ctx (ts s)).

Lemma keepc_still A (m : M A) : (forall s, ts (post (m s)) = ts s) -> KEEPC m.
Proof. intros H s. rewrite H. auto. Qed.
Lemma keepc_bind A B (m : M A) (f : A -> M B) : KEEPC m -> (forall a, KEEPC (f a)) -> KEEPC (bind m f).
Proof.
  intros Hm Hf s. unfold bind. destruct (Hm s) as [M1 M2]. destruct (res (m s)) as [a|e]; cbn [post]; [|auto].
  destruct (Hf a (post (m s))) as [F1 F2]. split; [congruence|]. intros H. rewrite F2, M2; auto. congruence.
Qed.
Lemma keepc_try A B (m : M A) (h : result A -> M B) : KEEPC m -> (forall r, KEEPC (h r)) -> KEEPC (try_ m h).
Proof.
  intros Hm Hh s. unfold try_. cbn [post]. destruct (Hm s) as [M1 M2].
  destruct (Hh (res (m s)) (post (m s))) as [F1 F2]. split; [congruence|]. intros H. rewrite F2, M2; auto. congruence.
Qed.
Lemma keepc_try_w A B (m : M A) (h : result A -> wr -> M B) : KEEPC m -> (forall r x, KEEPC (h r x)) -> KEEPC (try_w m h).
Proof.
  intros Hm Hh s. unfold try_w. cbn [post]. destruct (Hm s) as [M1 M2].
  destruct (Hh (res (m s)) (w (m s)) (post (m s))) as [F1 F2]. split; [congruence|]. intros H. rewrite F2, M2; auto. congruence.
Qed.
Lemma keepc_group_d A sa (m : M (A * bool)) : KEEPC m -> KEEPC (group_d sa m).
Proof.
  intros Hm s. assert (E : post (group_d sa m s) = post (m s)).
  { unfold group_d. destruct (res (m s)) as [[a d]|e]; [destruct d|]; cbn; auto. destruct (rd (w (m s))); reflexivity. }
  rewrite E. apply Hm.
Qed.

Theorem keepc_exec geom LF lvl p : KEEPC (exec geom LF lvl p).
Proof.
  apply (Closure2.P_exec (@KEEPC)); intros; try (apply keepc_still; intros s0; reflexivity).
  - apply keepc_bind; assumption.
  - intros s0. unfold signal. destruct k; cbn; auto.
  - intros s0. cbn. auto.
  - intros s0. unfold context_call. destruct (ctx (ts s0)) eqn:Ec; [|destruct (cleaning (ts s0)) eqn:Ecl]; cbn; auto.
  - apply keepc_still. intros s0. unfold failOnError. destruct (failed (ts s0)); reflexivity.
  - apply keepc_still. intros s0. unfold drawBits.
    destruct (src s0) as [[|x l]|j]; [| |destruct (Nat.leb n 64); [destruct (jsf_rand j)|]]; reflexivity.
  - apply keepc_group_d; assumption.
  - apply keepc_try_w; assumption.
  - (* a Custom attempt runs on its own T; the outer T only receives a forwarded failure *)
    intros s0. unfold custom_att, with_fresh_T. cbn [post ts with_ts cleaning ctx]. auto.
Qed.

Section End.
  Variable geom : nat -> N -> N.
  Variable LF lvl : nat.
  Notation crun := (exec geom LF lvl).

  Variable inner : bool.

  Definition loop_handler f last (r : result val) : M (option exn) :=
    match r with
    | Err XFuel => throw XFuel
    | Err (XInvalid m) =>
        if inner && internal_msg m then _ <- mark_dirty ;; _ <- note_ood m ;; cleanup_loop crun inner f last
        else _ <- (if internal_msg m then mark_dirty else ret tt) ;; _ <- note_skip m ;; cleanup_loop crun inner f last
    | Err e => cleanup_loop crun inner f (Some e)
    | Ok _ => cleanup_loop crun inner f last
    end.
  Lemma bind_ok_shape A B (m : M A) (f : A -> M B) s a :
    res (m s) = Ok a -> res (bind m f s) = res (f a (post (m s))) /\ post (bind m f s) = post (f a (post (m s))).
  Proof. intros H. unfold bind. rewrite H. split; reflexivity. Qed.
  Lemma cl_none f last s : cleanups (ts s) = [] ->
    res (cleanup_loop crun inner (S f) last s) = Ok last /\ post (cleanup_loop crun inner (S f) last s) = s.
  Proof. intros H. cbn [cleanup_loop]. unfold bind, pop_cleanup. rewrite H. split; reflexivity. Qed.
  Lemma cl_some f last s id c rest : cleanups (ts s) = (id, c) :: rest -> cleaning (ts s) = true ->
    let s1 := with_ts s (mkT (failed (ts s)) rest (ctx (ts s)) true (skipreq (ts s)) (ood (ts s))) in
    res (cleanup_loop crun inner (S f) last s) = res (loop_handler f last (res (crun c s1)) (post (crun c s1))) /\
    post (cleanup_loop crun inner (S f) last s) = post (loop_handler f last (res (crun c s1)) (post (crun c s1))).
  Proof.
    intros H Hc s1.
    assert (Ep : pop_cleanup s = mkOut (Ok (Some c)) s1 (wev [URun id] false false)).
    { unfold pop_cleanup. rewrite H, Hc. reflexivity. }
    assert (EL : cleanup_loop crun inner (S f) last s =
                 (let o := try_ (crun c) (loop_handler f last) s1 in mkOut (res o) (post o) (wapp (wev [URun id] false false) (w o)))).
    { cbn [cleanup_loop]. unfold bind at 1. rewrite Ep. reflexivity. }
    rewrite EL. cbv zeta. unfold try_. cbn [res post]. split; reflexivity.
  Qed.

  Lemma cleanup_loop_end : forall fuel last s r,
    cleaning (ts s) = true -> ctx (ts s) = false ->
    res (cleanup_loop crun inner fuel last s) = Ok r ->
    let t := ts (post (cleanup_loop crun inner fuel last s)) in
    cleanups t = [] /\ cleaning t = true /\ ctx t = false.
  Proof.
    induction fuel as [|f IH]; intros last s r Hc Hx; [cbn; discriminate|].
    destruct (cleanups (ts s)) as [|[id c] rest] eqn:El.
    - destruct (cl_none f last s El) as [E1 E2]. rewrite E1, E2. intros _. cbv zeta. auto.
    - destruct (cl_some f last s id c rest El Hc) as [E1 E2]. cbv zeta in E1, E2. rewrite E1, E2. clear E1 E2.
      set (s1 := with_ts s (mkT (failed (ts s)) rest (ctx (ts s)) true (skipreq (ts s)) (ood (ts s)))).
      destruct (keepc_exec geom LF lvl c s1) as [K1 K2].
      assert (Hc1 : cleaning (ts (post (crun c s1))) = true) by (rewrite K1; reflexivity).
      assert (Hx1 : ctx (ts (post (crun c s1))) = false) by (rewrite K2; [exact Hx|reflexivity]).
      unfold loop_handler. destruct (res (crun c s1)) as [v|e].
      + intros H. apply (IH last (post (crun c s1)) r Hc1 Hx1 H).
      + destruct e as [m|m s0|m s0|]; try (cbn; discriminate).
        * destruct (inner && internal_msg m).
          { (* a cleanup function of a Custom's inner T that ran out of data: noted, which keeps the rest of the T *)
            destruct (bind_ok_shape _ _ mark_dirty (fun _ => _ <- note_ood m ;; cleanup_loop crun inner f last) (post (crun c s1)) tt eq_refl) as [A B].
            rewrite A, B. clear A B. cbn [mark_dirty post].
            destruct (bind_ok_shape _ _ (note_ood m) (fun _ => cleanup_loop crun inner f last) (post (crun c s1)) tt eq_refl) as [A B].
            rewrite A, B. clear A B.
            intros H. apply (IH _ (post (note_ood m (post (crun c s1)))) r); [exact Hc1|exact Hx1|exact H]. }
          (* a skipping cleanup function: the request is noted, which keeps the rest of the T *)
          set (mk := if internal_msg m then mark_dirty else ret tt).
          assert (Hmk : res (mk (post (crun c s1))) = Ok tt /\ post (mk (post (crun c s1))) = post (crun c s1))
            by (unfold mk; destruct (internal_msg m); split; reflexivity).
          destruct Hmk as [M1 M2].
          destruct (bind_ok_shape _ _ mk (fun _ => _ <- note_skip m ;; cleanup_loop crun inner f last) (post (crun c s1)) tt M1) as [A B].
          rewrite A, B, M2. clear A B.
          destruct (bind_ok_shape _ _ (note_skip m) (fun _ => cleanup_loop crun inner f last) (post (crun c s1)) tt eq_refl) as [A B].
          rewrite A, B. clear A B.
          intros H. apply (IH _ (post (note_skip m (post (crun c s1)))) r); [exact Hc1|exact Hx1|exact H].
        * intros H. apply (IH _ (post (crun c s1)) r Hc1 Hx1 H).
        * intros H. apply (IH _ (post (crun c s1)) r Hc1 Hx1 H).
  Qed.

  Lemma bind_err_shape A B (m : M A) (f : A -> M B) s e :
    res (m s) = Err e -> res (bind m f s) = Err e.
  Proof. intros H. unfold bind. rewrite H. reflexivity. Qed.

  Theorem cleanup_end s r :
    res (cleanup LF crun inner s) = Ok r ->
    ts (post (cleanup LF crun inner s))
    = mkT (failed (ts (post (cleanup LF crun inner s)))) [] false false (skipreq (ts (post (cleanup LF crun inner s))))
          (ood (ts (post (cleanup LF crun inner s)))).
  Proof.
    unfold cleanup.
    destruct (bind_ok_shape _ _ begin_cleanup (fun _ => r0 <- cleanup_loop crun inner LF None ;; _ <- end_cleanup ;; ret r0) s tt eq_refl) as [E1 E2].
    rewrite E1, E2. clear E1 E2.
    set (s1 := post (begin_cleanup s)).
    assert (Hc1 : cleaning (ts s1) = true) by reflexivity.
    assert (Hx1 : ctx (ts s1) = false) by reflexivity.
    destruct (res (cleanup_loop crun inner LF None s1)) as [r0|e] eqn:El.
    - destruct (bind_ok_shape _ _ (cleanup_loop crun inner LF None) (fun r0 => _ <- end_cleanup ;; ret r0) s1 r0 El) as [F1 F2].
      rewrite F1, F2. clear F1 F2.
      destruct (cleanup_loop_end LF None s1 r0 Hc1 Hx1 El) as [A [B C]].
      intros _. unfold bind. cbn [end_cleanup ret res post ts with_ts failed skipreq ood]. rewrite A, C. reflexivity.
    - rewrite (bind_err_shape _ _ (cleanup_loop crun inner LF None) (fun r0 => _ <- end_cleanup ;; ret r0) s1 e El). discriminate.
  Qed.
End End.

Section CheckOnceEnd.
  Variable geom : nat -> N -> N.
  Variable LF lvl : nat.

  Lemma tail_state (r' : tstate -> result unit) s :
    post ((t <- get_ts ;;
           match r' t, failed t with
           | Err XFuel, _ => throw XFuel
           | Ok _, Some mm | Err (XInvalid _), Some mm => throw (XStop mm SLate)
           | Ok _, None => ret tt
           | Err e, _ => throw e
           end) s) = s.
  Proof.
    unfold bind. cbn [get_ts res post].
    destruct (r' (ts s)) as [u|[mm|mm s0|mm s0|]]; destruct (failed (ts s)); reflexivity.
  Qed.

  Lemma handler_body_end (mark : M unit) (tail : option exn -> M unit) s1 :
    (res (mark s1) = Ok tt /\ post (mark s1) = s1) -> (forall c s0, post (tail c s0) = s0) ->
    res ((_ <- mark ;; c <- cleanup LF (exec geom LF lvl) false ;; tail c) s1) <> Err XFuel ->
    let t := ts (post ((_ <- mark ;; c <- cleanup LF (exec geom LF lvl) false ;; tail c) s1)) in
    cleanups t = [] /\ ctx t = false /\ cleaning t = false.
  Proof.
    intros [M1 M2] Htail.
    destruct (bind_ok_shape _ _ mark (fun _ => c <- cleanup LF (exec geom LF lvl) false ;; tail c) s1 tt M1) as [E1 E2].
    rewrite E1, E2, M2. clear E1 E2.
    destruct (res (cleanup LF (exec geom LF lvl) false s1)) as [c|e] eqn:Ec.
    - destruct (bind_ok_shape _ _ (cleanup LF (exec geom LF lvl) false) (fun c0 => tail c0) s1 c Ec) as [F1 F2].
      rewrite F1, F2, Htail. intros _. cbv zeta.
      rewrite (cleanup_end geom LF lvl false s1 c Ec). cbn. auto.
    - rewrite (bind_err_shape _ _ (cleanup LF (exec geom LF lvl) false) (fun c0 => tail c0) s1 e Ec).
      pose proof (Rapid.Proofs.Replay.cleanup_err LF (exec geom LF lvl) false s1 e Ec) as ->. congruence.
  Qed.

  Theorem checkOnce_ends_empty p s :
    res (checkOnce geom LF lvl p s) <> Err XFuel ->
    cleanups (ts (post (checkOnce geom LF lvl p s))) = [] /\
    ctx (ts (post (checkOnce geom LF lvl p s))) = false /\
    cleaning (ts (post (checkOnce geom LF lvl p s))) = false.
  Proof.
    unfold checkOnce, try_. cbn [res post].
    set (body := (_ <- exec geom LF (S lvl) p ;; failOnError STopFailOnError) s).
    destruct (res body) as [u|[m|m s0|m s0|]]; unfold check_handler.
    - apply handler_body_end; [split; reflexivity|intros c0 s2; apply tail_state].
    - apply handler_body_end; [destruct (internal_msg m); split; reflexivity|intros c0 s2; apply tail_state].
    - apply handler_body_end; [split; reflexivity|intros c0 s2; apply tail_state].
    - apply handler_body_end; [split; reflexivity|intros c0 s2; apply tail_state].
    - cbn. congruence.
  Qed.
End CheckOnceEnd.
