(* Frame property: a run on a buffer that does not exhaust it never looks at what is left; appending
   anything to the buffer changes nothing but the remainder. *)
From Coq Require Import Lia.
Require Import Rapid.Model.Base Rapid.Model.Syntax Rapid.Model.Monad Rapid.Model.Prim Rapid.Model.Interp Rapid.Model.Engine.
Require Import Rapid.Proofs.Inv Rapid.Proofs.Closure Rapid.Proofs.Prefix.
Local Open Scope nat_scope.
Arguments mask : simpl never.

Definition FRAME {A} (m : M A) : Prop :=
  forall s l ext rest, src s = SBuf l -> src (post (m s)) = SBuf rest -> rest <> [] ->
  m (with_src s (SBuf (l ++ ext))) = mkOut (res (m s)) (with_src (post (m s)) (SBuf (rest ++ ext))) (w (m s)).
Definition FP {A} (m : M A) : Prop := PFX m /\ FRAME m.

Lemma fp_state A (m : M A) :
  (forall s x, m (with_src s x) = mkOut (res (m s)) (with_src (post (m s)) x) (w (m s))) ->
  (forall s, src (post (m s)) = src s /\ rd (w (m s)) = []) -> FP m.
Proof.
  intros Hf Hs. split; [apply pfx_state; exact Hs|].
  intros s l ext rest Hl Hr Hne. destruct (Hs s) as [H1 _]. rewrite H1, Hl in Hr. injection Hr as <-.
  apply Hf.
Qed.

Lemma app_neq_nil A (a b : list A) : b <> [] -> a ++ b <> [].
Proof. destruct a; cbn; [auto|discriminate]. Qed.

Lemma fp_bind A B (m : M A) (f : A -> M B) : FP m -> (forall a, FP (f a)) -> FP (bind m f).
Proof.
  intros [Pm Fm] Hf. split; [apply pfx_bind; [exact Pm|intros a; apply Hf]|].
  intros s l ext rest Hl Hr Hne. unfold bind in *.
  destruct (Pm s l Hl) as [l1 [r1 [E1 [S1 _]]]].
  destruct (res (m s)) as [a|e] eqn:Er.
  - cbn [post] in Hr. destruct (Hf a) as [Pf Ff].
    destruct (Pf (post (m s)) r1 S1) as [l2 [r2 [E2 [S2 _]]]].
    rewrite Hr in S2. injection S2 as <-.
    assert (Hr1 : r1 <> []) by (rewrite E2; apply app_neq_nil; exact Hne).
    rewrite (Fm s l ext r1 Hl S1 Hr1). cbn [res post w]. rewrite Er.
    rewrite (Ff (post (m s)) r1 ext rest S1 Hr Hne). reflexivity.
  - cbn [post] in Hr. rewrite S1 in Hr. injection Hr as <-.
    rewrite (Fm s l ext r1 Hl S1 Hne). cbn [res post w]. rewrite Er. reflexivity.
Qed.

Lemma fp_try A B (m : M A) (h : result A -> M B) : FP m -> (forall r, FP (h r)) -> FP (try_ m h).
Proof.
  intros [Pm Fm] Hh. split; [apply pfx_try; [exact Pm|intros r; apply Hh]|].
  intros s l ext rest Hl Hr Hne. unfold try_ in *. cbn [post] in Hr.
  destruct (Pm s l Hl) as [l1 [r1 [E1 [S1 _]]]].
  destruct (Hh (res (m s))) as [Ph Fh].
  destruct (Ph (post (m s)) r1 S1) as [l2 [r2 [E2 [S2 _]]]].
  rewrite Hr in S2. injection S2 as <-.
  assert (Hr1 : r1 <> []) by (rewrite E2; apply app_neq_nil; exact Hne).
  rewrite (Fm s l ext r1 Hl S1 Hr1). cbn [res post w].
  rewrite (Fh (post (m s)) r1 ext rest S1 Hr Hne). reflexivity.
Qed.
Lemma fp_try_w A B (m : M A) (h : result A -> wr -> M B) : FP m -> (forall r x, FP (h r x)) -> FP (try_w m h).
Proof.
  intros [Pm Fm] Hh. split; [apply pfx_try_w; [exact Pm|intros r x; apply Hh]|].
  intros s l ext rest Hl Hr Hne. unfold try_w in *. cbn [post] in Hr.
  destruct (Pm s l Hl) as [l1 [r1 [E1 [S1 _]]]].
  destruct (Hh (res (m s)) (w (m s))) as [Ph Fh].
  destruct (Ph (post (m s)) r1 S1) as [l2 [r2 [E2 [S2 _]]]].
  rewrite Hr in S2. injection S2 as <-.
  assert (Hr1 : r1 <> []) by (rewrite E2; apply app_neq_nil; exact Hne).
  rewrite (Fm s l ext r1 Hl S1 Hr1). cbn [res post w].
  rewrite (Fh (post (m s)) r1 ext rest S1 Hr Hne). reflexivity.
Qed.

Lemma fp_drawBits n : FP (drawBits n).
Proof.
  split; [apply pfx_drawBits|].
  intros s l ext rest Hl Hr Hne. unfold drawBits in *. rewrite Hl in *. cbn [with_src src].
  destruct l as [|x l']; cbn [post with_src src] in Hr.
  - rewrite Hl in Hr. injection Hr as <-. congruence.
  - injection Hr as <-. cbn. reflexivity.
Qed.

Lemma fp_group_d A sa (m : M (A * bool)) : FP m -> FP (group_d sa m).
Proof.
  intros [Pm Fm]. split; [apply pfx_group_d; exact Pm|].
  intros s l ext rest Hl Hr Hne. unfold group_d in *.
  assert (Hp : src (post (m s)) = SBuf rest).
  { destruct (res (m s)) as [[a d]|e]; [destruct d|]; cbn [post] in Hr; auto.
    destruct (rd (w (m s))); cbn [post] in Hr; exact Hr. }
  rewrite (Fm s l ext rest Hl Hp Hne). cbn [res post w].
  destruct (res (m s)) as [[a d]|e]; [destruct d|]; try reflexivity.
  destruct (rd (w (m s))); reflexivity.
Qed.

Lemma fp_fresh A (m : M A) : FP m -> FP (with_fresh_T m).
Proof.
  intros [Pm Fm]. split; [apply pfx_fresh; exact Pm|].
  intros s l ext rest Hl Hr Hne. unfold with_fresh_T in *. cbn [post with_ts src] in Hr.
  assert (E : with_ts (with_src s (SBuf (l ++ ext))) fresh_t = with_src (with_ts s fresh_t) (SBuf (l ++ ext))) by (destruct s; reflexivity).
  rewrite E. rewrite (Fm (with_ts s fresh_t) l ext rest Hl Hr Hne). cbn [res post w with_src with_ts ts src]. reflexivity.
Qed.

Ltac fp_prim := apply fp_state; [intros s0 x0; reflexivity|intros s0; split; reflexivity].
Theorem fp_checkOnce geom LF lvl p : FP (checkOnce geom LF lvl p).
Proof.
  apply (P_checkOnce (@FP)); intros; try fp_prim.
  - apply fp_bind; assumption.
  - apply fp_state; [intros s0 x0|intros s0]; unfold signal; destruct k; try split; reflexivity.
  - apply fp_state; [intros s0 x0|intros s0]; unfold context_call; cbn [with_src ts];
      (destruct (ctx (ts s0)); [|destruct (cleaning (ts s0))]); try split; reflexivity.
  - apply fp_state; [intros s0 x0|intros s0]; unfold pop_cleanup; cbn [with_src ts];
      (destruct (cleanups (ts s0)) as [|[i c] r]; [|destruct (cleaning (ts s0))]); try split; reflexivity.
  - apply fp_state.
    + intros s0 x0. unfold failOnError. cbn [with_src ts]. destruct (failed (ts s0)); reflexivity.
    + intros s0. unfold failOnError. destruct (failed (ts s0)); split; reflexivity.
  - apply fp_drawBits.
  - apply fp_group_d; assumption.
  - apply fp_try; assumption.
  - apply fp_try_w; assumption.
  - apply fp_fresh; assumption.
Qed.
