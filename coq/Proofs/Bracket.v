(* C10: every invocation (checkOnce, and every attempt of a Custom function on its inner T) is a bracket:
   the context is live while user code of the body runs, it is cancelled before the first cleanup, every
   registered cleanup function is started exactly once, last-in first-out, and the T is empty at the end.
   The discipline is an acceptor over the event trace; the theorem says every trace the interpreter
   produces is accepted and ends in the empty frame. *)
From Coq Require Import Lia.
Require Import Rapid.Model.Base Rapid.Model.Syntax Rapid.Model.Monad Rapid.Model.Prim Rapid.Model.Interp Rapid.Model.Engine.
Require Import Rapid.Proofs.Inv Rapid.Proofs.Closure.
Local Open Scope nat_scope.

Record frame := mkF { fstack : list nat; flive : bool; fcleaning : bool }.

(* one event against the stack of frames (innermost T first); None = discipline violated *)
Definition step_ev (e : uev) (fs : list frame) : option (list frame) :=
  match e, fs with
  | UFrameBegin, _ => Some (mkF [] false false :: fs)
  | UFrameEnd, _ :: fs' => Some fs'
  | UReg id, f :: fs' => Some (mkF (id :: fstack f) (flive f) (fcleaning f) :: fs')
  | URun id, f :: fs' =>
      (* only while cleaning, only with the context already cancelled, and only the top of the stack *)
      if fcleaning f && negb (flive f) then
        match fstack f with
        | i :: st => if Nat.eqb i id then Some (mkF st false true :: fs') else None
        | [] => None
        end
      else None
  | UCtxNew, f :: fs' => if negb (flive f) && negb (fcleaning f) then Some (mkF (fstack f) true false :: fs') else None
  | UCtxSeen true, f :: _ => if flive f && negb (fcleaning f) then Some fs else None   (* live: only in the body *)
  | UCtxSeen false, f :: _ => if fcleaning f && negb (flive f) then Some fs else None  (* dead: only during cleanup *)
  | UCtxCancel, f :: fs' => if flive f then Some (mkF (fstack f) false (fcleaning f) :: fs') else None
  | UCleanupBegin, f :: fs' => if negb (flive f) then Some (mkF (fstack f) false true :: fs') else None
  | UCleanupEnd, f :: fs' => Some (mkF (fstack f) (flive f) false :: fs')
  | UFrameEnd, [] | UReg _, [] | URun _, [] | UCtxNew, [] | UCtxSeen _, [] | UCtxCancel, []
  | UCleanupBegin, [] | UCleanupEnd, [] => None
  | _, _ => Some fs
  end.
Fixpoint run_ev (l : list uev) (fs : list frame) : option (list frame) :=
  match l with
  | [] => Some fs
  | e :: r => match step_ev e fs with Some fs' => run_ev r fs' | None => None end
  end.
Lemma run_ev_app a b fs : run_ev (a ++ b) fs = match run_ev a fs with Some fs' => run_ev b fs' | None => None end.
Proof. revert fs. induction a as [|e a IH]; intros fs; cbn; [reflexivity|]. destruct (step_ev e fs); [apply IH|reflexivity]. Qed.

Definition frame_of (t : tstate) : frame := mkF (map fst (cleanups t)) (ctx t) (cleaning t).
Definition wfT (t : tstate) : Prop := cleaning t = true -> ctx t = false.

Definition BR {A} (m : M A) : Prop :=
  forall s fs, wfT (ts s) ->
    run_ev (tr (w (m s))) (frame_of (ts s) :: fs) = Some (frame_of (ts (post (m s))) :: fs) /\ wfT (ts (post (m s))).

Lemma br_still A (m : M A) :
  (forall s, ts (post (m s)) = ts s /\ forall fs, run_ev (tr (w (m s))) fs = Some fs) -> BR m.
Proof. intros H s fs Hw. destruct (H s) as [E R]. rewrite E, R. auto. Qed.

Lemma br_bind A B (m : M A) (f : A -> M B) : BR m -> (forall a, BR (f a)) -> BR (bind m f).
Proof.
  intros Hm Hf s fs Hw. unfold bind. destruct (Hm s fs Hw) as [R1 W1].
  destruct (res (m s)) as [a|e]; cbn [w post tr wapp].
  - rewrite run_ev_app, R1. apply Hf. exact W1.
  - auto.
Qed.
Lemma br_try A B (m : M A) (h : result A -> M B) : BR m -> (forall r, BR (h r)) -> BR (try_ m h).
Proof.
  intros Hm Hh s fs Hw. unfold try_. destruct (Hm s fs Hw) as [R1 W1]. cbn [w post tr wapp].
  rewrite run_ev_app, R1. apply Hh. exact W1.
Qed.
Lemma br_try_w A B (m : M A) (h : result A -> wr -> M B) : BR m -> (forall r x, BR (h r x)) -> BR (try_w m h).
Proof.
  intros Hm Hh s fs Hw. unfold try_w. destruct (Hm s fs Hw) as [R1 W1]. cbn [w post tr wapp].
  rewrite run_ev_app, R1. apply Hh. exact W1.
Qed.
Lemma tr_wkeep a : tr (wkeep a) = tr a. Proof. unfold wkeep. destruct (rpd a); reflexivity. Qed.
Lemma br_group_d A sa (m : M (A * bool)) : BR m -> BR (group_d sa m).
Proof.
  intros Hm s fs Hw. destruct (Hm s fs Hw) as [R1 W1].
  assert (E : post (group_d sa m s) = post (m s) /\ tr (w (group_d sa m s)) = tr (w (m s))).
  { unfold group_d. destruct (res (m s)) as [[a d]|e]; [destruct d|]; cbn; rewrite ?app_nil_r; auto.
    destruct (rd (w (m s))); cbn; rewrite ?app_nil_r, ?tr_wkeep; auto. }
  destruct E as [E1 E2]. rewrite E1, E2. auto.
Qed.
Lemma br_fresh A (m : M A) : BR m -> BR (with_fresh_T m).
Proof.
  intros Hm s fs Hw. unfold with_fresh_T. cbn [w tr post ts with_ts].
  assert (Hwf : wfT (ts (with_ts s fresh_t))) by (cbn; intros H; discriminate).
  destruct (Hm (with_ts s fresh_t) (frame_of (ts s) :: fs) Hwf) as [R1 W1].
  cbn [run_ev step_ev]. change (mkF [] false false) with (frame_of (ts (with_ts s fresh_t))).
  rewrite run_ev_app, R1. cbn [run_ev step_ev].
  destruct (failed (ts (post (m (with_ts s fresh_t))))); cbn; auto.
Qed.

Theorem br_checkOnce geom LF lvl p : BR (checkOnce geom LF lvl p).
Proof.
  apply (P_checkOnce (@BR)); intros; try (apply br_still; intros s0; split; [reflexivity|intros fs0; reflexivity]).
  - apply br_bind; assumption.
  - (* plain events *) apply br_still. intros s0. split; [reflexivity|]. intros fs0. cbn. destruct e; try discriminate; reflexivity.
  - (* signal *) intros s0 fs0 Hw. unfold signal. destruct k; cbn; auto.
  - (* register *) intros s0 fs0 Hw. cbn. auto.
  - (* context_call *) intros s0 fs0 Hw. unfold context_call, wfT in *.
    destruct (ctx (ts s0)) eqn:Ec; [|destruct (cleaning (ts s0)) eqn:Ecl].
    + destruct (cleaning (ts s0)) eqn:Ecl; [specialize (Hw eq_refl); congruence|].
      cbn. rewrite ?Ec, ?Ecl. cbn. split; [reflexivity|]. unfold wfT. cbn. intros H; congruence.
    + cbn. rewrite ?Ec, ?Ecl. cbn. split; [reflexivity|]. unfold wfT. cbn. rewrite ?Ec. intros _. reflexivity.
    + cbn. rewrite ?Ec, ?Ecl. cbn. split; [reflexivity|]. intros H; discriminate.
  - (* begin_cleanup *) intros s0 fs0 Hw. unfold begin_cleanup.
    destruct (ctx (ts s0)) eqn:Ec; cbn; rewrite ?Ec; cbn; (split; [reflexivity|unfold wfT; cbn; auto]).
  - (* pop_cleanup *) intros s0 fs0 Hw. unfold pop_cleanup, wfT in *.
    destruct (cleanups (ts s0)) as [|[i c] r] eqn:El; [cbn; rewrite ?El; auto|].
    destruct (cleaning (ts s0)) eqn:Ecl; [|cbn; rewrite ?El, ?Ecl; auto].
    specialize (Hw eq_refl). cbn. rewrite ?El, ?Ecl, ?Hw. cbn. rewrite Nat.eqb_refl. cbn. rewrite ?Hw. auto.
  - (* end_cleanup *) intros s0 fs0 Hw. cbn. split; [reflexivity|]. intros H; discriminate.
  - (* note_skip: neither the frame nor the trace changes *) intros s0 fs0 Hw. cbn. split; [reflexivity|exact Hw].
  - (* note_ood: likewise *) intros s0 fs0 Hw. cbn. split; [reflexivity|exact Hw].
  - (* failOnError *) apply br_still. intros s0. unfold failOnError. destruct (failed (ts s0)); split; reflexivity.
  - (* drawBits *) apply br_still. intros s0. unfold drawBits.
    destruct (src s0) as [[|x l]|j]; [| |destruct (Nat.leb n 64); [destruct (jsf_rand j)|]]; split; reflexivity.
  - apply br_group_d; assumption.
  - apply br_try; assumption.
  - apply br_try_w; assumption.
  - apply br_fresh; assumption.
Qed.
