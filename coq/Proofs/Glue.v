(* Small glue lemmas behind property theorems whose statement instantiates or repackages a proof of Proofs/*.v. *)
From Coq Require Import Lia List.
Require Import Rapid.Model.Base Rapid.Model.Syntax Rapid.Model.Monad Rapid.Model.Prim Rapid.Model.Interp
  Rapid.Model.Engine Rapid.Model.Pexp Rapid.Model.Corr Rapid.Model.Shrink.
Require Import Rapid.Generated.Consts Rapid.Generated.GeomTable.
Require Import Rapid.Proofs.Inv Rapid.Proofs.Replay Rapid.Proofs.ReplayTop Rapid.Proofs.Signals Rapid.Proofs.EngineProofs
  Rapid.Proofs.Bracket Rapid.Proofs.BracketEnd.
Import ListNotations.
Local Open Scope nat_scope.

Lemma C02_error_fails_TB_glue :
  forall geom LF lvl p files checks nofailfile early seed cands clock,
    (forall u, dc_err1 (doCheck geom LF lvl p files checks early seed cands clock) <> Ok u) ->
    tb_failed (checkTB geom LF lvl p files checks nofailfile early seed cands clock) = true.
Proof.
  intros geom LF lvl p files checks nofailfile early seed cands clock H. unfold checkTB.
  destruct (dc_err1 (doCheck geom LF lvl p files checks early seed cands clock)) as [u|e] eqn:E1.
  - exfalso. eapply H. reflexivity.
  - reflexivity.
Qed.

Lemma C04_replay_pruned_gen_glue :
  forall (geom : nat -> N -> N) (LF : nat), 1 <= LF -> forall lvl g,
    replays (run_g geom LF (exec geom LF lvl) g).
Proof.
  intros geom LF HLF lvl g. destruct (exec_ok geom LF HLF lvl) as [Hi Hr].
  exact (proj1 (replay_interp geom LF (exec geom LF lvl) HLF Hi Hr) g).
Qed.

Lemma C04_pruned_is_subsequence_glue :
  forall (geom : nat -> N -> N) (LF lvl : nat) p s,
    sublist (rpd (w (exec geom LF lvl p s))) (rd (w (exec geom LF lvl p s))).
Proof.
  intros geom LF lvl p s.
  assert (H : forall l, forall q, INV (exec geom LF l q)).
  { induction l as [|l IH]; intros q; cbn [exec]; [apply inv_throw|].
    apply (inv_interp geom LF (exec geom LF l) IH). }
  destruct (H lvl p s) as [H1 _ _]. exact H1.
Qed.

Lemma C09_counts_glue :
  forall geom LF, 1 <= LF -> forall lvl p checks early seed,
    (forall k, early k = false) ->
    let r := findBug0 geom LF lvl p checks early seed in
    fb_err r = None ->
    fb_early r = false /\
    ((fb_valid r = checks /\ fb_invalid r < checks * c_invalidChecksMult)
     \/ (fb_valid r < checks /\ fb_invalid r = checks * c_invalidChecksMult)
     \/ (checks = 0 /\ fb_valid r = 0 /\ fb_invalid r = 0)).
Proof.
  intros geom LF HLF lvl p checks early seed He. unfold findBug0.
  apply (findBug_counts geom LF HLF lvl p); auto; unfold mult; try lia.
Qed.

Lemma C09_verdict_glue :
  forall geom LF lvl p files checks nofailfile early seed cands clock,
    let tb := checkTB geom LF lvl p files checks nofailfile early seed cands clock in
    match tb_verdict tb with
    | VOk v => tb_failed tb = false /\ v = dc_valid (tb_dc tb) /\
               (v = checks \/ (dc_early (tb_dc tb) = true /\ 0 < v))
    | _ => tb_failed tb = true
    end.
Proof.
  intros. unfold tb, checkTB. destruct (dc_err1 _) as [u|e] eqn:E1; [destruct (dc_err2 _) as [u2|e2] eqn:E2|].
  - destruct (Nat.eqb_spec (dc_valid (doCheck geom LF lvl p files checks early seed cands clock)) checks) as [Hq|Hq]; cbn [orb].
    + cbn. auto.
    + destruct (dc_early _) eqn:Ee; cbn [andb]; [destruct (Nat.ltb_spec 0 (dc_valid (doCheck geom LF lvl p files checks early seed cands clock)))|]; cbn; auto.
  - cbn [tb_verdict tb_failed]. destruct (tbk_eqb _ _); [destruct e2|]; reflexivity.
  - cbn [tb_verdict tb_failed]. destruct (tbk_eqb _ _); [destruct (dc_err2 _) as [|[]]|]; reflexivity.
Qed.

Lemma C10_bracket_discipline_glue :
  forall geom LF lvl p x fs,
    run_ev (tr (w (checkOnce geom LF lvl p (start x)))) (mkF [] false false :: fs)
    = Some (frame_of (ts (post (checkOnce geom LF lvl p (start x)))) :: fs).
Proof.
  intros geom LF lvl p x fs.
  assert (Hw : wfT (ts (start x))) by (intros H; discriminate).
  exact (proj1 (br_checkOnce geom LF lvl p (start x) fs Hw)).
Qed.

Lemma C10_ends_empty_glue :
  forall geom LF lvl p x,
    res (checkOnce geom LF lvl p (start x)) <> Err XFuel ->
    frame_of (ts (post (checkOnce geom LF lvl p (start x)))) = mkF [] false false.
Proof.
  intros geom LF lvl p x H. destruct (checkOnce_ends_empty geom LF lvl p (start x) H) as [A [B C]].
  unfold frame_of. rewrite A, B, C. reflexivity.
Qed.
