(* prune() of data.go, as written there (index arithmetic over the flat group table, Model/Groups.v),
   computes exactly the pruned recording [rpd] that the writer of Model/Monad.v builds compositionally.

   Route:
   1. table level: for every group table that is "laminar in preorder" ([inv]: begins weakly sorted,
      every later entry lies inside or behind a discarded one, unfinished entries are never discarded)
      [prune] deletes exactly the positions covered by some discarded entry ([select (keepk T)]);
      this copes with removeGroup dropping unfinished (end = -1) and empty non-descendants, which makes
      the intermediate tables differ from "the table of the log without the group".
   2. log level: logs of runs are flattenings of forests; the table rebuilt by [groups_of] from a flattened
      forest is the preorder table [tab] of the forest, which satisfies [inv], and deleting the covered
      positions is the structural specification [spec_forest] (= the stack machine [spec_prune] on logs).
   3. run level: by the closure principle of Proofs/Closure.v every run writes a flattened forest [f] with
      rd = words, rpd = spec_forest f. *)
From Coq Require Import Lia.
Require Import Rapid.Model.Base Rapid.Model.Syntax Rapid.Model.Monad Rapid.Model.Prim Rapid.Model.Interp
  Rapid.Model.Engine Rapid.Model.Groups.
Require Import Rapid.Proofs.Inv Rapid.Proofs.Closure.
Require Import Rapid.Model.Pexp Rapid.Model.Corr Rapid.Generated.GeomTable.   (* for the examples only *)
Local Open Scope Z_scope.

(* ================================================================================================ *)
(* 1. table level                                                                                   *)
(* ================================================================================================ *)

Definition len (D : list word) : Z := Z.of_nat (length D).
Lemma len_app a b : len (a ++ b) = len a + len b.
Proof. unfold len. rewrite app_length. lia. Qed.
Lemma len_nonneg a : 0 <= len a.
Proof. unfold len. lia. Qed.
Lemma len_cons x a : len (x :: a) = 1 + len a.
Proof. unfold len. cbn [length]. lia. Qed.
Lemma len_nil : len [] = 0.
Proof. reflexivity. Qed.

(* position k of the data is inside the discarded group g *)
Definition covers (g : ginfo) (k : Z) : bool := g_discard g && (g_begin g <=? k) && (k <? g_end g).
Definition keepk (T : list ginfo) (k : Z) : bool := forallb (fun g => negb (covers g k)) T.
(* the sublist of D (whose first element has position p) at the positions where f holds *)
Fixpoint select (f : Z -> bool) (p : Z) (D : list word) : list word :=
  match D with
  | [] => []
  | x :: r => (if f p then [x] else []) ++ select f (p + 1) r
  end.

Lemma select_app f : forall a p b, select f p (a ++ b) = select f p a ++ select f (p + len a) b.
Proof.
  induction a as [|x a IH]; intros p b; cbn [select app].
  - rewrite len_nil, Z.add_0_r. reflexivity.
  - rewrite IH, <- app_assoc, len_cons. do 3 f_equal. lia.
Qed.
Lemma select_ext f g : forall D p, (forall k, p <= k < p + len D -> f k = g k) -> select f p D = select g p D.
Proof.
  induction D as [|x D IH]; intros p H; cbn [select]; [reflexivity|].
  rewrite len_cons in H. pose proof (len_nonneg D).
  rewrite (H p) by lia. rewrite (IH (p + 1)); [reflexivity|]. intros k Hk. apply H. lia.
Qed.
Lemma select_all : forall D p, select (fun _ => true) p D = D.
Proof. induction D as [|x D IH]; intros p; cbn [select app]; [reflexivity|]. rewrite IH. reflexivity. Qed.
Lemma select_none : forall D p, select (fun _ => false) p D = [].
Proof. induction D as [|x D IH]; intros p; cbn [select app]; [reflexivity|]. apply IH. Qed.
Lemma select_true f D p : (forall k, p <= k < p + len D -> f k = true) -> select f p D = D.
Proof. intros H. rewrite (select_ext f (fun _ => true)) by exact H. apply select_all. Qed.
Lemma select_false f D p : (forall k, p <= k < p + len D -> f k = false) -> select f p D = [].
Proof. intros H. rewrite (select_ext f (fun _ => false)) by exact H. apply select_none. Qed.
Lemma select_shift f n : forall D p, select (fun k => f (k + n)) p D = select f (p + n) D.
Proof.
  induction D as [|x D IH]; intros p; cbn [select]; [reflexivity|].
  rewrite IH. replace (p + 1 + n) with (p + n + 1) by lia. reflexivity.
Qed.

Lemma covers_lt h k : k < g_begin h -> covers h k = false.
Proof. intros H. unfold covers. destruct (Z.leb_spec (g_begin h) k); [lia|]. rewrite andb_false_r. reflexivity. Qed.
Lemma covers_ge h k : g_end h <= k -> covers h k = false.
Proof. intros H. unfold covers. destruct (Z.ltb_spec k (g_end h)); [lia|]. rewrite andb_false_r. reflexivity. Qed.
Lemma covers_nd h k : g_discard h = false -> covers h k = false.
Proof. intros H. unfold covers. rewrite H. reflexivity. Qed.
Lemma covers_in h k : g_discard h = true -> g_begin h <= k < g_end h -> covers h k = true.
Proof.
  intros H H1. unfold covers. rewrite H.
  destruct (Z.leb_spec (g_begin h) k); [|lia]. destruct (Z.ltb_spec k (g_end h)); [|lia]. reflexivity.
Qed.

Lemma keepk_app a b k : keepk (a ++ b) k = keepk a k && keepk b k.
Proof. unfold keepk. apply forallb_app. Qed.
Lemma keepk_cons g T k : keepk (g :: T) k = negb (covers g k) && keepk T k.
Proof. reflexivity. Qed.
Lemma keepk_none T k : Forall (fun g => covers g k = false) T -> keepk T k = true.
Proof.
  induction 1 as [|g T Hg _ IH]; [reflexivity|]. rewrite keepk_cons, Hg, IH. reflexivity.
Qed.
Lemma keepk_map f k k' : forall l, (forall h, In h l -> covers (f h) k = covers h k') -> keepk (map f l) k = keepk l k'.
Proof.
  induction l as [|h l IH]; intros H; [reflexivity|].
  cbn [map]. rewrite !keepk_cons, H by (left; reflexivity). rewrite IH; [reflexivity|].
  intros h' Hin. apply H. right. exact Hin.
Qed.

(* all ordered pairs of the list are related *)
Fixpoint sorted {A} (R : A -> A -> Prop) (l : list A) : Prop :=
  match l with
  | [] => True
  | x :: r => Forall (R x) r /\ sorted R r
  end.
Lemma sorted_app {A} (R : A -> A -> Prop) : forall a b,
  sorted R (a ++ b) <-> sorted R a /\ sorted R b /\ Forall (fun x => Forall (R x) b) a.
Proof.
  induction a as [|x a IH]; intros b; cbn [sorted app].
  - split; [intros H; repeat split; auto|intros (_ & H & _); exact H].
  - rewrite Forall_app, IH. split.
    + intros ((H1 & H2) & H3 & H4 & H5). repeat split; auto.
    + intros ((H1 & H3) & H4 & H5). inversion H5; subst. repeat split; auto.
Qed.
Lemma sorted_map {A B} (R : A -> A -> Prop) (R' : B -> B -> Prop) (f : A -> B) : forall l,
  (forall x y, In x l -> In y l -> R x y -> R' (f x) (f y)) -> sorted R l -> sorted R' (map f l).
Proof.
  induction l as [|x l IH]; intros H Hs; cbn [map sorted] in *; [exact I|].
  destruct Hs as [H1 H2]. split.
  - rewrite Forall_map. rewrite Forall_forall in *. intros y Hy. apply H; [left; reflexivity|right; exact Hy|auto].
  - apply IH; [|exact H2]. intros a b Ha Hb. apply H; right; assumption.
Qed.

(* the shape of a group table over data of length L:
   - an unfinished group (end = -1) is never discarded; a finished one is an interval of [0, L];
   - begins are weakly increasing along the table (preorder);
   - a later entry lies inside a discarded entry or behind it (laminarity, as far as prune() needs it) *)
Definition ok (L : Z) (g : ginfo) : Prop :=
  (g_end g = -1 /\ g_discard g = false) \/ (0 <= g_begin g /\ g_begin g <= g_end g /\ g_end g <= L).
Definition rel (g h : ginfo) : Prop :=
  g_begin g <= g_begin h /\ (g_discard g = true -> g_end h <= g_end g \/ g_end g <= g_begin h).
Definition inv (L : Z) (T : list ginfo) : Prop := Forall (ok L) T /\ sorted rel T.

Lemma skip_children_split : forall r e, exists dr,
  r = dr ++ skip_children r e /\ Forall (fun h => g_end h <= e) dr /\
  match skip_children r e with [] => True | h0 :: _ => e < g_end h0 end.
Proof.
  induction r as [|h r IH]; intros e; cbn [skip_children].
  - exists []. repeat split. constructor.
  - destruct (Z.leb_spec (g_end h) e) as [Hle|Hgt].
    + destruct (IH e) as (dr & E & F & M). exists (h :: dr).
      split; [cbn [app]; f_equal; exact E|]. split; [constructor; assumption|exact M].
    + exists []. repeat split; [constructor|exact Hgt].
Qed.

Lemma skipn_skipn' {A} : forall m n (l : list A), skipn n (skipn m l) = skipn (m + n) l.
Proof.
  induction m as [|m IH]; intros n l; [reflexivity|].
  destruct l as [|x l]; cbn [skipn Nat.add]; [apply skipn_nil|apply IH].
Qed.

Lemma cut_split (D : list word) b e : 0 <= b <= e -> e <= len D ->
  exists D1 D2 D3, D = D1 ++ D2 ++ D3 /\ len D1 = b /\ len D2 = e - b /\ cut D b e = D1 ++ D3.
Proof.
  intros Hb He. unfold len in *.
  exists (firstn (Z.to_nat b) D), (firstn (Z.to_nat (e - b)) (skipn (Z.to_nat b) D)),
         (skipn (Z.to_nat (e - b)) (skipn (Z.to_nat b) D)).
  repeat split.
  - rewrite firstn_skipn, firstn_skipn. reflexivity.
  - rewrite firstn_length. lia.
  - rewrite firstn_length, skipn_length. lia.
  - unfold cut. f_equal. rewrite skipn_skipn'. f_equal. lia.
Qed.

Lemma rebase_far b e h L : 0 <= b <= e -> e <= g_begin h -> ok L h ->
  g_begin (rebase b e h) = g_begin h - (e - b) /\ g_discard (rebase b e h) = g_discard h /\
  ((g_end h = -1 /\ g_discard h = false /\ g_end (rebase b e h) = -1) \/
   (g_begin h <= g_end h /\ g_end h <= L /\ g_end (rebase b e h) = g_end h - (e - b))).
Proof.
  destruct h as [hb he hs hd]. unfold ok, rebase. cbn [g_begin g_end g_sa g_discard].
  intros Hb Hh Hok.
  destruct (Z.leb_spec e hb); [|lia]. split; [reflexivity|]. split; [reflexivity|].
  destruct (Z.leb_spec e he); destruct Hok as [[E1 E2]|(A1 & A2 & A3)].
  - lia.
  - right. repeat split; lia.
  - left. repeat split; assumption.
  - lia.
Qed.

Lemma rel_rebase b e L x y : 0 <= b <= e -> e <= g_begin x -> e <= g_begin y -> ok L x -> ok L y ->
  rel x y -> rel (rebase b e x) (rebase b e y).
Proof.
  intros Hb Hx Hy Ox Oy [R1 R2].
  destruct (rebase_far b e x L Hb Hx Ox) as (Bx & Dx & Ex).
  destruct (rebase_far b e y L Hb Hy Oy) as (By & Dy & Ey).
  unfold rel. rewrite Bx, By, Dx. split; [lia|]. intros Hd. specialize (R2 Hd).
  destruct Ex as [(E1 & E2 & E3)|(E1 & E2 & E3)]; [congruence|].
  destruct Ey as [(F1 & F2 & F3)|(F1 & F2 & F3)]; rewrite E3, F3; lia.
Qed.

Lemma covers_rebase b e L h k : 0 <= b <= e -> e <= g_begin h -> ok L h ->
  covers (rebase b e h) k = covers h (k + (e - b)).
Proof.
  intros Hb Hh Oh. destruct (rebase_far b e h L Hb Hh Oh) as (Bh & Dh & Eh).
  destruct Eh as [(E1 & E2 & E3)|(E1 & E2 & E3)].
  - rewrite !covers_nd; [reflexivity|exact E2|rewrite Dh; exact E2].
  - unfold covers. rewrite Bh, Dh, E3. f_equal; [f_equal|].
    + destruct (Z.leb_spec (g_begin h - (e - b)) k), (Z.leb_spec (g_begin h) (k + (e - b))); try reflexivity; lia.
    + destruct (Z.ltb_spec k (g_end h - (e - b))), (Z.ltb_spec (k + (e - b)) (g_end h)); try reflexivity; lia.
Qed.

(* one removeGroup *)
Lemma step_discard L D g r :
  len D = L -> inv L (g :: r) -> g_discard g = true ->
  let T' := map (rebase (g_begin g) (g_end g)) (skip_children r (g_end g)) in
  let D' := cut D (g_begin g) (g_end g) in
  inv (len D') T' /\ select (keepk (g :: r)) 0 D = select (keepk T') 0 D'.
Proof.
  intros HL [Hok Hs] Hd. cbv zeta.
  inversion Hok as [|? ? Hg Hr]; subst. cbn [sorted] in Hs. destruct Hs as [Hgr Hsr].
  destruct Hg as [[_ C]|(B0 & BE & EL)]; [congruence|].
  set (b := g_begin g) in *. set (e := g_end g) in *.
  destruct (skip_children_split r e) as (dr & E & Fdr & M).
  remember (skip_children r e) as r' eqn:Er. clear Er. subst r.
  apply Forall_app in Hr. destruct Hr as [Hr1 Hr2].
  apply Forall_app in Hgr. destruct Hgr as [Hg1 Hg2].
  apply sorted_app in Hsr. destruct Hsr as (_ & Hs2 & _).
  (* everything that remains starts behind the removed group *)
  assert (Hfar : Forall (fun h => e <= g_begin h) r').
  { destruct r' as [|h0 t]; [constructor|].
    inversion Hg2 as [|? ? [_ R0] _]; subst. specialize (R0 Hd).
    cbn [sorted] in Hs2. destruct Hs2 as [Hs0 _].
    constructor; [fold e in R0; lia|].
    eapply Forall_impl; [|exact Hs0]. intros h [Hb _]. fold e in R0. lia. }
  rewrite Forall_forall in Hfar, Hr2.
  destruct (cut_split D b e) as (D1 & D2 & D3 & ED & L1 & L2 & EC); [lia|lia|].
  rewrite EC. split; [split|].
  - (* ok *)
    rewrite Forall_map, Forall_forall. intros h Hin.
    destruct (rebase_far b e h (len D) ltac:(lia) (Hfar h Hin) (Hr2 h Hin)) as (Bh & Dh & Eh).
    unfold ok. rewrite Bh, Dh. specialize (Hfar h Hin).
    rewrite ED, !len_app in *.
    destruct Eh as [(E1 & E2 & E3)|(E1 & E2 & E3)]; rewrite E3; [left; split; auto|right; lia].
  - (* sorted *)
    apply (sorted_map rel rel); [|exact Hs2].
    intros x y Hx Hy Hxy. apply rel_rebase with (L := len D); auto; lia.
  - (* data *)
    rewrite ED at 1. rewrite !select_app, L1, L2. cbn [Z.add].
    replace (b + (e - b)) with e by lia.
    rewrite (select_true _ D1).
    2:{ intros k Hk. rewrite keepk_cons, covers_lt by (fold b; lia). cbn [negb andb].
        apply keepk_none. apply Forall_app. split.
        - eapply Forall_impl; [|exact Hg1]. intros h [Hb _]. apply covers_lt. fold b in Hb. lia.
        - rewrite Forall_forall. intros h Hin. apply covers_lt. specialize (Hfar h Hin). lia. }
    rewrite (select_false _ D2).
    2:{ intros k Hk. rewrite keepk_cons, covers_in; [reflexivity|exact Hd|fold b e; lia]. }
    rewrite (select_true _ D1).
    2:{ intros k Hk. apply keepk_none. rewrite Forall_map, Forall_forall. intros h Hin.
        destruct (rebase_far b e h (len D) ltac:(lia) (Hfar h Hin) (Hr2 h Hin)) as (Bh & _).
        apply covers_lt. rewrite Bh. specialize (Hfar h Hin). lia. }
    cbn [app]. f_equal.
    rewrite (select_ext _ (keepk r') D3 e).
    2:{ intros k Hk. rewrite keepk_cons, covers_ge by (fold e; lia). cbn [negb andb].
        rewrite keepk_app, keepk_none; [reflexivity|].
        eapply Forall_impl; [|exact Fdr]. intros h Hh. cbv beta in Hh. apply covers_ge. lia. }
    rewrite (select_ext _ (fun k => keepk r' (k + (e - b))) D3 b).
    2:{ intros k Hk. apply keepk_map. intros h Hin.
        apply covers_rebase with (L := len D); [lia|apply Hfar; exact Hin|apply Hr2; exact Hin]. }
    rewrite select_shift. f_equal. lia.
Qed.

Lemma firstn_len_app {A} (pre : list A) suf : firstn (length pre) (pre ++ suf) = pre.
Proof. induction pre as [|x pre IH]; cbn [length firstn app]; [destruct suf; reflexivity|rewrite IH; reflexivity]. Qed.
Lemma skipn_len_app {A} (pre : list A) suf : skipn (length pre) (pre ++ suf) = suf.
Proof. induction pre as [|x pre IH]; cbn [length skipn app]; [reflexivity|exact IH]. Qed.
Lemma nth_error_len_app {A} (pre : list A) suf : nth_error (pre ++ suf) (length pre) = nth_error suf 0.
Proof. induction pre as [|x pre IH]; cbn [length nth_error app]; [reflexivity|exact IH]. Qed.

(* the loop of prune(): the entries before i are never looked at again *)
Lemma prune_go_spec : forall fuel D pre suf,
  (length suf < fuel)%nat -> inv (len D) suf ->
  fst (prune_go fuel D (pre ++ suf) (length pre)) = select (keepk suf) 0 D.
Proof.
  induction fuel as [|fuel IH]; intros D pre suf Hf Hinv; [lia|].
  cbn [prune_go]. rewrite nth_error_len_app.
  destruct suf as [|g r]; cbn [nth_error].
  - cbn [fst]. symmetry. apply select_true. reflexivity.
  - destruct (g_discard g) eqn:Hd.
    + unfold remove_group. rewrite nth_error_len_app. cbn [nth_error].
      replace (S (length pre)) with (length pre + 1)%nat by lia.
      rewrite <- (skipn_skipn' (length pre) 1), skipn_len_app, firstn_len_app. cbn [skipn].
      rewrite map_app.
      destruct (step_discard (len D) D g r eq_refl Hinv Hd) as [Hinv' Hsel].
      rewrite Hsel.
      rewrite <- (map_length (rebase (g_begin g) (g_end g)) pre).
      apply IH; [|exact Hinv'].
      rewrite map_length. destruct (skip_children_split r (g_end g)) as (dr & E & _).
      apply (f_equal (@length _)) in E. rewrite app_length in E. cbn [length] in Hf. lia.
    + change (pre ++ g :: r) with (pre ++ [g] ++ r). rewrite app_assoc.
      replace (S (length pre)) with (length (pre ++ [g])) by (rewrite app_length; cbn [length]; lia).
      destruct Hinv as [Hok Hs]. inversion Hok; subst. cbn [sorted] in Hs.
      rewrite IH; [|cbn [length] in Hf; lia|split; tauto].
      apply select_ext. intros k _. rewrite keepk_cons, covers_nd by exact Hd. reflexivity.
Qed.

(* prune() deletes exactly the positions covered by a discarded entry *)
Theorem prune_table D T : inv (len D) T -> fst (prune D T) = select (keepk T) 0 D.
Proof. intros H. unfold prune. apply (prune_go_spec (S (length T)) D [] T); [lia|exact H]. Qed.

(* ================================================================================================ *)
(* 2. log level                                                                                     *)
(* ================================================================================================ *)

(* bracket structure of a log: words and groups; a group is closed by EE d ([Some d]) or EX ([None]) *)
Inductive forest :=
| FNil
| FW (u : word) (r : forest)
| FG (sa : bool) (c : option bool) (i r : forest).
Fixpoint fapp (a b : forest) : forest :=
  match a with
  | FNil => b
  | FW u r => FW u (fapp r b)
  | FG sa c i r => FG sa c i (fapp r b)
  end.
Definition closer (c : option bool) : gev := match c with Some d => EE d | None => EX end.
Fixpoint flatten (f : forest) : list gev :=
  match f with
  | FNil => []
  | FW u r => EW u :: flatten r
  | FG sa c i r => EB sa :: flatten i ++ closer c :: flatten r
  end.
Fixpoint fwords (f : forest) : list word :=
  match f with
  | FNil => []
  | FW u r => u :: fwords r
  | FG _ _ i r => fwords i ++ fwords r
  end.
(* the words outside discarded groups; a discarded group contributes nothing, whatever is nested in it;
   EX closes a group without discarding it *)
Fixpoint spec_forest (f : forest) : list word :=
  match f with
  | FNil => []
  | FW u r => u :: spec_forest r
  | FG _ c i r => (match c with Some true => [] | _ => spec_forest i end) ++ spec_forest r
  end.
(* the group table in preorder, p = position of the first word *)
Fixpoint tab (p : Z) (f : forest) : list ginfo :=
  match f with
  | FNil => []
  | FW u r => tab (p + 1) r
  | FG sa c i r =>
      mkG p (match c with Some _ => p + len (fwords i) | None => -1 end) sa
            (match c with Some d => d | None => false end)
      :: tab p i ++ tab (p + len (fwords i)) r
  end.

(* well-formed logs, and the same specification as a stack machine over the flat log:
   cur = pruned words of the innermost open group so far, stack = those of the enclosing ones *)
Definition wf_log (l : list gev) : Prop := exists f, l = flatten f.
Fixpoint spec_go (log : list gev) (cur : list word) (stack : list (list word)) : list word :=
  match log with
  | [] => fold_left (fun c parent => parent ++ c) stack cur
  | EW u :: r => spec_go r (cur ++ [u]) stack
  | EB _ :: r => spec_go r [] (cur :: stack)
  | EE d :: r =>
      match stack with
      | [] => spec_go r cur []
      | parent :: st => spec_go r (parent ++ (if d then [] else cur)) st
      end
  | EX :: r =>
      match stack with
      | [] => spec_go r cur []
      | parent :: st => spec_go r (parent ++ cur) st
      end
  end.
Definition spec_prune (log : list gev) : list word := spec_go log [] [].

Lemma flatten_app a b : flatten (fapp a b) = flatten a ++ flatten b.
Proof.
  induction a as [|u r IH|sa c i _ r IH]; cbn [fapp flatten app]; [reflexivity|rewrite IH; reflexivity|].
  rewrite IH, <- app_assoc. reflexivity.
Qed.
Lemma fwords_app a b : fwords (fapp a b) = fwords a ++ fwords b.
Proof.
  induction a as [|u r IH|sa c i _ r IH]; cbn [fapp fwords app]; [reflexivity|rewrite IH; reflexivity|].
  rewrite IH, app_assoc. reflexivity.
Qed.
Lemma spec_forest_app a b : spec_forest (fapp a b) = spec_forest a ++ spec_forest b.
Proof.
  induction a as [|u r IH|sa c i _ r IH]; cbn [fapp spec_forest app]; [reflexivity|rewrite IH; reflexivity|].
  rewrite IH, app_assoc. reflexivity.
Qed.

Lemma spec_go_flatten : forall f rest cur st,
  spec_go (flatten f ++ rest) cur st = spec_go rest (cur ++ spec_forest f) st.
Proof.
  induction f as [|u r IH|sa c i IHi r IHr]; intros rest cur st; cbn [flatten spec_forest app spec_go].
  - rewrite app_nil_r. reflexivity.
  - rewrite IH, <- app_assoc. reflexivity.
  - rewrite <- app_assoc. cbn [app]. rewrite IHi. cbn [app].
    destruct c as [[|]|]; cbn [closer spec_go]; rewrite IHr, <- app_assoc; reflexivity.
Qed.
Lemma spec_prune_flatten f : spec_prune (flatten f) = spec_forest f.
Proof.
  unfold spec_prune. rewrite <- (app_nil_r (flatten f)), spec_go_flatten. reflexivity.
Qed.

Lemma words_of_app a b : words_of (a ++ b) = words_of a ++ words_of b.
Proof. unfold words_of. apply flat_map_app. Qed.
Lemma words_of_flatten f : words_of (flatten f) = fwords f.
Proof.
  induction f as [|u r IH|sa c i IHi r IHr]; cbn [flatten fwords]; [reflexivity| |].
  - change (EW u :: flatten r) with ([EW u] ++ flatten r). rewrite words_of_app, IH. reflexivity.
  - change (EB sa :: flatten i ++ closer c :: flatten r) with ([EB sa] ++ flatten i ++ [closer c] ++ flatten r).
    rewrite !words_of_app, IHi, IHr. destruct c; reflexivity.
Qed.

Lemma set_nth_len_app {A} (f : A -> A) (a : list A) x t : set_nth (length a) f (a ++ x :: t) = a ++ f x :: t.
Proof. induction a as [|y a IH]; cbn [length set_nth app]; [reflexivity|rewrite IH; reflexivity]. Qed.

Lemma groups_go_flatten : forall f rest idx stack acc,
  groups_go (flatten f ++ rest) idx stack acc = groups_go rest (idx + len (fwords f)) stack (acc ++ tab idx f).
Proof.
  induction f as [|u r IH|sa c i IHi r IHr]; intros rest idx stack acc; cbn [flatten fwords tab app groups_go].
  - rewrite len_nil, Z.add_0_r, app_nil_r. reflexivity.
  - rewrite IH, len_cons. f_equal. lia.
  - rewrite <- app_assoc. cbn [app]. rewrite IHi, len_app, <- app_assoc. cbn [app].
    destruct c as [d|]; cbn [closer groups_go tl].
    + rewrite set_nth_len_app. cbn [g_begin g_sa]. rewrite IHr.
      f_equal; [lia|]. rewrite <- app_assoc. reflexivity.
    + rewrite IHr. f_equal; [lia|]. rewrite <- app_assoc. reflexivity.
Qed.
Lemma groups_of_flatten f : groups_of (flatten f) = tab 0 f.
Proof.
  unfold groups_of. rewrite <- (app_nil_r (flatten f)), groups_go_flatten. reflexivity.
Qed.

(* every entry of the table of f at p lies in [p, q], q = p + number of words *)
Definition within (p q : Z) (g : ginfo) : Prop :=
  p <= g_begin g /\ g_begin g <= q /\
  ((g_end g = -1 /\ g_discard g = false) \/ (g_begin g <= g_end g /\ g_end g <= q)).
Lemma within_mono p q p' q' g : p' <= p -> q <= q' -> within p q g -> within p' q' g.
Proof.
  unfold within. intros H1 H2 (A & B & [[C E]|[C E]]).
  - split; [lia|]. split; [lia|]. left. split; assumption.
  - split; [lia|]. split; [lia|]. right. lia.
Qed.

Lemma tab_within : forall f p, Forall (within p (p + len (fwords f))) (tab p f).
Proof.
  induction f as [|u r IH|sa c i IHi r IHr]; intros p; cbn [tab fwords].
  - constructor.
  - eapply Forall_impl; [|apply IH]. intros g. rewrite len_cons. apply within_mono; lia.
  - rewrite len_app. pose proof (len_nonneg (fwords i)). pose proof (len_nonneg (fwords r)).
    constructor; [|apply Forall_app; split].
    + unfold within. cbn [g_begin g_end g_discard]. destruct c; lia.
    + eapply Forall_impl; [|apply IHi]. intros g. apply within_mono; lia.
    + eapply Forall_impl; [|apply IHr]. intros g. apply within_mono; lia.
Qed.

Lemma tab_sorted : forall f p, 0 <= p -> sorted rel (tab p f).
Proof.
  induction f as [|u r IH|sa c i IHi r IHr]; intros p Hp; cbn [tab sorted].
  - exact I.
  - apply IH. lia.
  - pose proof (len_nonneg (fwords i)). split.
    + apply Forall_app. split.
      * eapply Forall_impl; [|apply tab_within]. intros h (A & B & W). unfold rel.
        cbn [g_begin g_end g_discard]. split; [lia|]. intros Hd. destruct c; [|discriminate].
        left. destruct W as [[C _]|[C E]]; lia.
      * eapply Forall_impl; [|apply tab_within]. intros h (A & B & W). unfold rel.
        cbn [g_begin g_end g_discard]. split; [lia|]. intros Hd. destruct c; [|discriminate].
        right. lia.
    + apply sorted_app. split; [apply IHi; lia|]. split; [apply IHr; lia|].
      eapply Forall_impl; [|apply tab_within]. intros x (Ax & Bx & Wx).
      eapply Forall_impl; [|apply tab_within]. intros y (Ay & By & Wy).
      unfold rel. split; [lia|]. intros Hd. right.
      destruct Wx as [[_ C]|[C E]]; [congruence|lia].
Qed.

Lemma tab_inv f : inv (len (fwords f)) (tab 0 f).
Proof.
  split; [|apply tab_sorted; lia].
  eapply Forall_impl; [|apply tab_within]. intros g (A & B & W). unfold ok. cbn [Z.add] in *.
  destruct W as [[C E]|[C E]]; [left; split; assumption|right; lia].
Qed.

Lemma covers_within_before p q g k : within p q g -> k < p -> covers g k = false.
Proof. intros (A & _) H. apply covers_lt. lia. Qed.
Lemma covers_within_after p q g k : within p q g -> q <= k -> covers g k = false.
Proof.
  intros (_ & _ & [[_ C]|W]) H; [apply covers_nd; exact C|apply covers_ge; lia].
Qed.

Lemma tab_select : forall f p, select (keepk (tab p f)) p (fwords f) = spec_forest f.
Proof.
  induction f as [|u r IH|sa c i IHi r IHr]; intros p; cbn [tab fwords spec_forest].
  - reflexivity.
  - cbn [select].
    rewrite keepk_none.
    2:{ eapply Forall_impl; [|apply tab_within]. intros g W. eapply covers_within_before; [exact W|lia]. }
    cbn [app]. rewrite IH. reflexivity.
  - set (G := mkG p _ sa _). rewrite select_app. f_equal.
    + destruct c as [[|]|].
      * (* discarded *)
        apply select_false. intros k Hk. rewrite keepk_cons, covers_in; [reflexivity|reflexivity|].
        cbn [G g_begin g_end]. lia.
      * rewrite <- (IHi p). apply select_ext. intros k Hk.
        rewrite keepk_cons, keepk_app, covers_nd by reflexivity. cbn [negb andb].
        rewrite (keepk_none (tab (p + len (fwords i)) r)); [apply andb_true_r|].
        eapply Forall_impl; [|apply tab_within]. intros g W. eapply covers_within_before; [exact W|lia].
      * rewrite <- (IHi p). apply select_ext. intros k Hk.
        rewrite keepk_cons, keepk_app, covers_nd by reflexivity. cbn [negb andb].
        rewrite (keepk_none (tab (p + len (fwords i)) r)); [apply andb_true_r|].
        eapply Forall_impl; [|apply tab_within]. intros g W. eapply covers_within_before; [exact W|lia].
    + rewrite <- (IHr (p + len (fwords i))). apply select_ext. intros k Hk.
      rewrite keepk_cons, keepk_app.
      assert (HG : covers G k = false).
      { destruct c as [d|]; [apply covers_ge; cbn [G g_end]; lia|apply covers_nd; reflexivity]. }
      rewrite HG. cbn [negb andb].
      rewrite (keepk_none (tab p i)); [reflexivity|].
      eapply Forall_impl; [|apply tab_within]. intros g W. eapply covers_within_after; [exact W|lia].
Qed.

(* Lemma A: on every well-formed log, the index algorithm computes the structural specification *)
Theorem prune_forest f : fst (prune (fwords f) (tab 0 f)) = spec_forest f.
Proof. rewrite prune_table by apply tab_inv. apply tab_select. Qed.
Theorem prune_wf_log log : wf_log log -> fst (prune (words_of log) (groups_of log)) = spec_prune log.
Proof.
  intros [f ->]. rewrite words_of_flatten, groups_of_flatten, spec_prune_flatten. apply prune_forest.
Qed.

(* ================================================================================================ *)
(* 3. run level                                                                                     *)
(* ================================================================================================ *)

(* Lemma B: what a computation writes is a flattened forest, with rd its words and rpd its specification *)
Definition PR {A} (m : M A) : Prop :=
  forall s, exists f, glog (w (m s)) = flatten f /\ rd (w (m s)) = fwords f /\ rpd (w (m s)) = spec_forest f.

Lemma pr_silent A (m : M A) :
  (forall s, glog (w (m s)) = [] /\ rd (w (m s)) = [] /\ rpd (w (m s)) = []) -> PR m.
Proof. intros H s. exists FNil. exact (H s). Qed.

Lemma pr_bind A B (m : M A) (f : A -> M B) : PR m -> (forall a, PR (f a)) -> PR (bind m f).
Proof.
  intros Hm Hf s. unfold bind. destruct (Hm s) as (f1 & G1 & R1 & P1).
  destruct (res (m s)) as [a|e].
  - destruct (Hf a (post (m s))) as (f2 & G2 & R2 & P2).
    exists (fapp f1 f2). cbn [w wapp glog rd rpd].
    rewrite flatten_app, fwords_app, spec_forest_app, G1, G2, R1, R2, P1, P2. auto.
  - exists f1. cbn [w]. auto.
Qed.
Lemma pr_try A B (m : M A) (h : result A -> M B) : PR m -> (forall r, PR (h r)) -> PR (try_ m h).
Proof.
  intros Hm Hh s. unfold try_. destruct (Hm s) as (f1 & G1 & R1 & P1).
  destruct (Hh (res (m s)) (post (m s))) as (f2 & G2 & R2 & P2).
  exists (fapp f1 f2). cbn [w wapp glog rd rpd].
  rewrite flatten_app, fwords_app, spec_forest_app, G1, G2, R1, R2, P1, P2. auto.
Qed.
Lemma pr_try_w A B (m : M A) (h : result A -> wr -> M B) : PR m -> (forall r x, PR (h r x)) -> PR (try_w m h).
Proof.
  intros Hm Hh s. unfold try_w. destruct (Hm s) as (f1 & G1 & R1 & P1).
  destruct (Hh (res (m s)) (w (m s)) (post (m s))) as (f2 & G2 & R2 & P2).
  exists (fapp f1 f2). cbn [w wapp glog rd rpd].
  rewrite flatten_app, fwords_app, spec_forest_app, G1, G2, R1, R2, P1, P2. auto.
Qed.
Lemma pr_drawBits n : PR (drawBits n).
Proof.
  intros s. unfold drawBits. destruct (src s) as [[|x l]|j].
  - exists FNil. cbn. auto.
  - exists (FW (mask n x) FNil). cbn. auto.
  - destruct (Nat.leb n 64).
    + destruct (jsf_rand j) as [r j']. exists (FW (mask n r) FNil). cbn. auto.
    + exists (FW ones64 FNil). cbn. auto.
Qed.

Lemma rd_wkeep' a : rd (wkeep a) = rd a.
Proof. unfold wkeep. destruct (rpd a); reflexivity. Qed.
Lemma glog_wkeep a : glog (wkeep a) = glog a.
Proof. unfold wkeep. destruct (rpd a); reflexivity. Qed.
Lemma rpd_wkeep a : rpd (wkeep a) = rpd a.
Proof. unfold wkeep. destruct (rpd a) eqn:E; [reflexivity|exact E]. Qed.

Lemma pr_group_d A sa (m : M (A * bool)) : PR m -> PR (group_d sa m).
Proof.
  intros Hm s. unfold group_d.
  destruct (res (m s)) as [[a d]|e].
  - destruct d.
    + destruct (Hm s) as (f & G & R & P). exists (FG sa (Some true) f FNil).
      cbn [w wapp wgev wdiscard glog rd rpd app flatten fwords spec_forest closer].
      rewrite G, R. auto.
    + destruct (rd (w (m s))) as [|x0 l0] eqn:E; destruct (Hm s) as (f & G & R & P).
      * exists (FG sa None f FNil).
        cbn [w wapp wgev glog rd rpd app flatten fwords spec_forest closer].
        rewrite G, R, P. auto.
      * exists (FG sa (Some false) f FNil).
        cbn [w wapp wgev glog rd rpd app flatten fwords spec_forest closer].
        rewrite glog_wkeep, rd_wkeep', rpd_wkeep, G, R, P. auto.
  - destruct (Hm s) as (f & G & R & P). exists (FG sa None f FNil).
    cbn [w wapp wgev glog rd rpd app flatten fwords spec_forest closer].
    rewrite G, R, P. auto.
Qed.
Lemma pr_fresh A (m : M A) : PR m -> PR (with_fresh_T m).
Proof.
  intros Hm s. unfold with_fresh_T. destruct (Hm (with_ts s fresh_t)) as (f & G & R & P).
  exists f. cbn [w glog rd rpd]. auto.
Qed.

Ltac pr_prim := apply pr_silent; intros s0; repeat split; reflexivity.
Theorem pr_checkOnce geom LF lvl p : PR (checkOnce geom LF lvl p).
Proof.
  apply (P_checkOnce (@PR)); intros; try pr_prim.
  - apply pr_bind; assumption.
  - apply pr_silent. intros s0. unfold signal. destruct k; repeat split; reflexivity.
  - apply pr_silent. intros s0. unfold context_call.
    destruct (ctx (ts s0)); [|destruct (cleaning (ts s0))]; repeat split; reflexivity.
  - apply pr_silent. intros s0. unfold pop_cleanup.
    destruct (cleanups (ts s0)) as [|[i c] r]; [|destruct (cleaning (ts s0))]; repeat split; reflexivity.
  - apply pr_silent. intros s0. unfold failOnError. destruct (failed (ts s0)); repeat split; reflexivity.
  - apply pr_drawBits.
  - apply pr_group_d; assumption.
  - apply pr_try; assumption.
  - apply pr_try_w; assumption.
  - apply pr_fresh; assumption.
Qed.

(* the log of a run is well-formed, its recording is the words of the log, and the writer's pruned
   recording is the structural specification of the log *)
Theorem run_log_spec geom LF lvl p s :
  let o := checkOnce geom LF lvl p s in
  wf_log (glog (w o)) /\ rd (w o) = words_of (glog (w o)) /\ rpd (w o) = spec_prune (glog (w o)).
Proof.
  cbv zeta. destruct (pr_checkOnce geom LF lvl p s) as (f & G & R & P).
  rewrite G, R, P, words_of_flatten, spec_prune_flatten. repeat split. exists f. reflexivity.
Qed.

(* ================================================================================================ *)
(* 4. the refinement                                                                                *)
(* ================================================================================================ *)

Theorem prune_refines : forall geom LF lvl p s,
  let o := checkOnce geom LF lvl p s in
  fst (prune (rd (w o)) (groups_of (glog (w o)))) = rpd (w o).
Proof.
  intros geom LF lvl p s. cbv zeta.
  destruct (run_log_spec geom LF lvl p s) as (Hwf & R & P). cbv zeta in *.
  rewrite R, P. apply prune_wf_log. exact Hwf.
Qed.

(* ================================================================================================ *)
(* 5. non-vacuity                                                                                   *)
(* ================================================================================================ *)

Fixpoint has_pair (P : ginfo -> ginfo -> bool) (l : list ginfo) : bool :=
  match l with [] => false | a :: r => existsb (P a) r || has_pair P r end.
(* b is a non-empty discarded group inside the finished, kept group a *)
Definition discard_in_kept (a b : ginfo) : bool :=
  negb (g_discard a) && (0 <=? g_end a) && g_discard b
  && (g_begin a <=? g_begin b) && (g_end b <=? g_end a) && (g_begin b <? g_end b).
(* b is a non-empty discarded group inside the discarded group a *)
Definition discard_in_discard (a b : ginfo) : bool :=
  g_discard a && g_discard b && (g_begin a <=? g_begin b) && (g_end b <=? g_end a) && (g_begin b <? g_end b).
(* b is an unfinished group that was opened inside the discarded group a *)
Definition open_in_discard (a b : ginfo) : bool :=
  g_discard a && (g_end b =? -1) && (g_begin a <=? g_begin b) && (g_begin b <? g_end a).

Definition ex_run (p : pexp) (seed : N) : out unit :=
  checkOnce (geom_of geom_tab) 100 3 (compile_p [] p) (start (SRnd (jsf_init seed))).

(* a Custom generator that skips on small values: rejected attempts (discarded groups) inside the kept group
   of the Draw, and rejected attempts of the integer generator (discarded) inside rejected attempts of the
   Custom generator (discarded) *)
Definition ex_p1 : pexp :=
  SDraw false (DCustom (SDraw false (DInt 0 10)
                 (SIf (CLt (EVar 0) (EConst (VZ 5))) (SSkip (MUser 1)) (SRet (EVar 0))))) (SRet (EConst VU)).
Example prune_refines_example :
  let o := ex_run ex_p1 2 in
  let gs := groups_of (glog (w o)) in
  fst (prune (rd (w o)) gs) = rpd (w o)
  /\ length (rd (w o)) = 11%nat /\ length (rpd (w o)) = 3%nat /\ length gs = 21%nat
  /\ has_pair discard_in_kept gs = true /\ has_pair discard_in_discard gs = true
  /\ res o = Ok tt.
Proof. vm_compute. repeat split; reflexivity. Qed.

(* a Custom generator drawing from a filter that runs out of tries: the panic-like unwinding leaves groups
   open (EX, end = -1) inside the attempt of the Custom generator, which is then discarded;
   removeGroup drops these entries because -1 <= end *)
Definition ex_p2 : pexp :=
  SDraw false (DCustom (SDraw false (DFilter (DInt 0 10) (PrModEq 7 3)) (SRet (EVar 0)))) (SRet (EConst VU)).
Example prune_refines_example_open :
  let o := ex_run ex_p2 4 in
  let gs := groups_of (glog (w o)) in
  fst (prune (rd (w o)) gs) = rpd (w o)
  /\ length (rd (w o)) = 19%nat /\ length (rpd (w o)) = 3%nat
  /\ has_pair open_in_discard gs = true /\ has_pair discard_in_kept gs = true
  /\ res o = Ok tt.
Proof. vm_compute. repeat split; reflexivity. Qed.

(* why the intermediate tables are not "the table of the log without the group": after removing the first
   group, removeGroup also drops the unfinished group behind it (end = -1 <= 1), which is not a descendant;
   the result is right nevertheless, because an unfinished group is never discarded *)
Example skip_children_drops_non_descendant :
  let log := [EB false; EW 1; EE true; EB false; EW 2; EB false; EW 3; EE true; EX]%N in
  wf_log log
  /\ groups_of log = [mkG 0 1 false true; mkG 1 (-1) false false; mkG 2 3 false true]
  /\ snd (remove_group (words_of log) (groups_of log) 0) = [mkG 1 2 false true]
  /\ fst (prune (words_of log) (groups_of log)) = [2%N] /\ spec_prune log = [2%N].
Proof.
  cbv zeta. split; [|vm_compute; repeat split; reflexivity].
  exists (FG false (Some true) (FW 1%N FNil) (FG false None (FW 2%N (FG false (Some true) (FW 3%N FNil) FNil)) FNil)).
  reflexivity.
Qed.

Print Assumptions prune_wf_log.
Print Assumptions run_log_spec.
Print Assumptions prune_refines.
