(* LocksetProofs.v -- soundness of the lockset table check (Model/Lockset.v).

   Main result:
     lockset_sound : table_ok tbl = true -> wf_trace tr -> conforms tbl tr -> forall i j, ~ race tr i j
   for traces of any length over any number of goroutines (induction over traces; nothing is
   enumerated). *)
From Coq Require Import List Arith Bool Lia.
From Coq Require String.
From Rapid Require Import Model.Lockset.
Import ListNotations.

(* ------------------------------------------------------------------------------------------- *)
(* A. sync.RWMutex                                                                              *)
(* ------------------------------------------------------------------------------------------- *)

Definition holds (s : lk) (t : tid) (m : mode) : Prop :=
  match m with MW => wr s = Some t | MR => In t (rds s) end.

Definition excl (s : lk) : Prop := wr s <> None -> rds s = [].

Lemma mode_eq_dec : forall a b : mode, {a = b} + {a <> b}.
Proof. decide equality. Qed.

Lemma op_eq_dec : forall a b : op, {a = b} + {a <> b}.
Proof.
  decide equality; try apply Nat.eq_dec; try apply mode_eq_dec; try apply bool_dec; apply String.string_dec.
Qed.

Lemma ev_eq_dec : forall a b : ev, {a = b} + {a <> b}.
Proof. decide equality; [apply op_eq_dec | apply Nat.eq_dec]. Qed.

Lemma in_remove1 t u l : In u (remove1 t l) -> In u l.
Proof.
  induction l as [|x l IH]; cbn; [auto|]. destruct (Nat.eqb x t); cbn; intuition.
Qed.

Lemma in_remove1_other t u l : u <> t -> In u l -> In u (remove1 t l).
Proof.
  intros Hne. induction l as [|x l IH]; cbn; [auto|]. intros [->|Hin].
  - destruct (Nat.eqb u t) eqn:E; [apply Nat.eqb_eq in E; contradiction|]. left; reflexivity.
  - destruct (Nat.eqb x t); [assumption|]. right; auto.
Qed.

Lemma existsb_eqb_in t l : existsb (Nat.eqb t) l = true <-> In t l.
Proof.
  rewrite existsb_exists. split.
  - intros [x [Hin He]]. apply Nat.eqb_eq in He. subst. assumption.
  - intros Hin. exists t. split; [assumption|apply Nat.eqb_refl].
Qed.

Lemma step_excl mu s e s' : excl s -> step mu s e = Some s' -> excl s'.
Proof.
  unfold excl, step. destruct e as [t o]. intros Hx Hs.
  destruct o as [mu' m|mu' m|f w|f w|o|o|o|c]; try (inversion Hs; subst; exact Hx).
  - destruct m; destruct (Nat.eqb mu' mu); try (inversion Hs; subst; exact Hx).
    + destruct (wr s) eqn:E; [discriminate|]. inversion Hs; subst; cbn. congruence.
    + destruct (wr s) eqn:E; [discriminate|]. destruct (rds s) eqn:Er; [|discriminate].
      inversion Hs; subst; cbn. reflexivity.
  - destruct m; destruct (Nat.eqb mu' mu); try (inversion Hs; subst; exact Hx).
    + destruct (existsb (Nat.eqb t) (rds s)) eqn:Ee; [|discriminate]. inversion Hs; subst; cbn.
      intros Hw. rewrite (Hx Hw) in *. reflexivity.
    + destruct (wr s) eqn:E; [|discriminate]. destruct (Nat.eqb t t0); [|discriminate].
      inversion Hs; subst; cbn. congruence.
Qed.

Lemma run_excl mu : forall tr s s', excl s -> run mu s tr = Some s' -> excl s'.
Proof.
  induction tr as [|e tr IH]; intros s s' Hx Hr; cbn in Hr.
  - inversion Hr; subst; assumption.
  - destruct (step mu s e) as [s1|] eqn:Es; [|discriminate].
    eapply IH; [eapply step_excl; eauto|eassumption].
Qed.

Lemma excl_lk0 : excl lk0.
Proof. unfold excl, lk0; cbn. congruence. Qed.

Lemma excl_no_conflict s t1 t2 m1 m2 :
  excl s -> t1 <> t2 -> mconf m1 m2 = true -> holds s t1 m1 -> holds s t2 m2 -> False.
Proof.
  unfold excl, holds. intros Hx Hne Hc H1 H2.
  destruct m1, m2; cbn in *; try discriminate.
  - assert (Hr : rds s = []) by (apply Hx; congruence). rewrite Hr in H1. contradiction.
  - assert (Hr : rds s = []) by (apply Hx; congruence). rewrite Hr in H2. contradiction.
  - congruence.
Qed.

Lemma run_app mu : forall a b s,
  run mu s (a ++ b) = match run mu s a with Some s1 => run mu s1 b | None => None end.
Proof.
  induction a as [|e a IH]; intros b s; cbn; [reflexivity|].
  destruct (step mu s e); [apply IH|reflexivity].
Qed.

(* a hold is lost only by the holder's own release of that mutex in that mode *)
Lemma step_holds_fwd mu s e s' t m :
  step mu s e = Some s' -> e <> (t, Rel mu m) -> holds s t m -> holds s' t m.
Proof.
  unfold step, holds. destruct e as [u o]. intros Hs Hne Hh.
  destruct o as [mu' m'|mu' m'|f w|f w|o|o|o|c]; try (inversion Hs; subst; exact Hh).
  - destruct m'; destruct (Nat.eqb mu' mu); try (inversion Hs; subst; exact Hh).
    + destruct (wr s) eqn:E; [discriminate|]. inversion Hs; subst; cbn.
      destruct m; [right; assumption|congruence].
    + destruct (wr s) eqn:E; [discriminate|]. destruct (rds s) eqn:Er; [|discriminate].
      inversion Hs; subst; cbn. destruct m; [contradiction|congruence].
  - destruct m'; destruct (Nat.eqb mu' mu) eqn:Emu; try (inversion Hs; subst; exact Hh).
    + apply Nat.eqb_eq in Emu; subst mu'.
      destruct (existsb (Nat.eqb u) (rds s)) eqn:Ee; [|discriminate]. inversion Hs; subst; cbn.
      destruct m; [|assumption].
      apply in_remove1_other; [|assumption]. intro Heq; subst. apply Hne. reflexivity.
    + apply Nat.eqb_eq in Emu; subst mu'.
      destruct (wr s) eqn:E; [|discriminate]. destruct (Nat.eqb u t0) eqn:Eu; [|discriminate].
      inversion Hs; subst; cbn. destruct m; [assumption|].
      apply Nat.eqb_eq in Eu. subst. inversion Hh; subst. exfalso. apply Hne. reflexivity.
Qed.

(* a hold is gained only by one's own acquisition of that mutex in that mode *)
Lemma step_holds_bwd mu s e s' t m :
  step mu s e = Some s' -> e <> (t, Acq mu m) -> holds s' t m -> holds s t m.
Proof.
  unfold step, holds. destruct e as [u o]. intros Hs Hne Hh.
  destruct o as [mu' m'|mu' m'|f w|f w|o|o|o|c]; try (inversion Hs; subst; exact Hh).
  - destruct m'; destruct (Nat.eqb mu' mu) eqn:Emu; try (inversion Hs; subst; exact Hh).
    + apply Nat.eqb_eq in Emu; subst mu'.
      destruct (wr s) eqn:E; [discriminate|]. inversion Hs; subst; cbn in *.
      destruct m; [|discriminate].
      destruct Hh as [->|Hh]; [exfalso; apply Hne; reflexivity|assumption].
    + apply Nat.eqb_eq in Emu; subst mu'.
      destruct (wr s) eqn:E; [discriminate|]. destruct (rds s) eqn:Er; [|discriminate].
      inversion Hs; subst; cbn in *. destruct m; [contradiction|].
      inversion Hh; subst. exfalso; apply Hne; reflexivity.
  - destruct m'; destruct (Nat.eqb mu' mu); try (inversion Hs; subst; exact Hh).
    + destruct (existsb (Nat.eqb u) (rds s)) eqn:Ee; [|discriminate]. inversion Hs; subst; cbn in *.
      destruct m; [eapply in_remove1; eauto|assumption].
    + destruct (wr s) eqn:E; [|discriminate]. destruct (Nat.eqb u t0); [|discriminate].
      inversion Hs; subst; cbn in *. destruct m; [assumption|discriminate].
Qed.

Lemma acq_holds mu s t m s' : step mu s (t, Acq mu m) = Some s' -> holds s' t m.
Proof.
  unfold step, holds. rewrite Nat.eqb_refl. destruct m.
  - destruct (wr s); [discriminate|]. intros Hs; inversion Hs; subst; cbn. left; reflexivity.
  - destruct (wr s); [discriminate|]. destruct (rds s); [|discriminate].
    intros Hs; inversion Hs; subst; cbn. reflexivity.
Qed.

Lemma released_between mu : forall tr s s' t m,
  run mu s tr = Some s' -> holds s t m -> ~ holds s' t m ->
  exists a b, tr = a ++ (t, Rel mu m) :: b.
Proof.
  induction tr as [|e tr IH]; intros s s' t m Hr Hh Hn; cbn in Hr.
  - inversion Hr; subst. contradiction.
  - destruct (step mu s e) as [s1|] eqn:Es; [|discriminate].
    destruct (ev_eq_dec e (t, Rel mu m)) as [->|Hne].
    + exists [], tr. reflexivity.
    + pose proof (step_holds_fwd _ _ _ _ _ _ Es Hne Hh) as Hh1.
      destruct (IH _ _ _ _ Hr Hh1 Hn) as [a [b ->]].
      exists (e :: a), b. reflexivity.
Qed.

Lemma acquired_between mu : forall tr s s' t m,
  run mu s tr = Some s' -> ~ holds s t m -> holds s' t m ->
  exists a b, tr = a ++ (t, Acq mu m) :: b.
Proof.
  induction tr as [|e tr IH]; intros s s' t m Hr Hn Hh; cbn in Hr.
  - inversion Hr; subst. contradiction.
  - destruct (step mu s e) as [s1|] eqn:Es; [|discriminate].
    destruct (ev_eq_dec e (t, Acq mu m)) as [->|Hne].
    + exists [], tr. reflexivity.
    + assert (Hn1 : ~ holds s1 t m) by (intro H1; apply Hn; eapply step_holds_bwd; eauto).
      destruct (IH _ _ _ _ Hr Hn1 Hh) as [a [b ->]].
      exists (e :: a), b. reflexivity.
Qed.

(* Between a moment at which t1 holds the mutex and a later moment at which t2 holds it in an
   excluding mode, t1 releases and afterwards t2 acquires. *)
Theorem lock_orders mu : forall mid s s' t1 t2 m1 m2,
  excl s -> run mu s mid = Some s' -> t1 <> t2 -> mconf m1 m2 = true ->
  holds s t1 m1 -> holds s' t2 m2 ->
  exists a b c, mid = a ++ (t1, Rel mu m1) :: b ++ (t2, Acq mu m2) :: c.
Proof.
  intros mid s s' t1 t2 m1 m2 Hx Hr Hne Hc H1 H2.
  assert (Hn2 : ~ holds s t2 m2) by (intro H; eapply excl_no_conflict; eauto).
  destruct (acquired_between mu _ _ _ _ _ Hr Hn2 H2) as [x [c ->]].
  rewrite run_app in Hr. destruct (run mu s x) as [sx|] eqn:Ex; [|discriminate].
  cbn [run] in Hr. destruct (step mu sx (t2, Acq mu m2)) as [sa|] eqn:Ea; [|discriminate].
  pose proof (acq_holds _ _ _ _ _ Ea) as Ha.
  pose proof (run_excl mu _ _ _ Hx Ex) as Hxx.
  pose proof (step_excl _ _ _ _ Hxx Ea) as Hxa.
  assert (Hn1 : ~ holds sx t1 m1).
  { intro H. eapply (excl_no_conflict sa t1 t2 m1 m2); eauto.
    eapply step_holds_fwd; [exact Ea| |exact H]. intro Heq. inversion Heq. }
  destruct (released_between mu _ _ _ _ _ Ex H1 Hn1) as [a [b ->]].
  exists a, b, c. rewrite <- app_assoc. reflexivity.
Qed.

(* ------------------------------------------------------------------------------------------- *)
(* B. From a goroutine's own history to the state of the mutex                                  *)
(* ------------------------------------------------------------------------------------------- *)

Definition no_rel (mu : mutex) (l : list op) : Prop := forall m, ~ In (Rel mu m) l.

(* the goroutine acquired mu in mode m and has not released mu since *)
Definition lholds (pre : list op) (mu : mutex) (m : mode) : Prop :=
  exists a b, pre = a ++ Acq mu m :: b /\ no_rel mu b.

(* the goroutine started the function of Once o and has not finished it *)
Definition lopen (pre : list op) (o : once) : Prop :=
  exists a b, pre = a ++ OnceBegin o :: b /\ ~ In (OnceEnd o) b.

Lemma lholds_prepend x pre mu m : lholds pre mu m -> lholds (x ++ pre) mu m.
Proof. intros [a [b [-> Hn]]]. exists (x ++ a), b. rewrite <- app_assoc. auto. Qed.

Lemma lopen_prepend x pre o : lopen pre o -> lopen (x ++ pre) o.
Proof. intros [a [b [-> Hn]]]. exists (x ++ a), b. rewrite <- app_assoc. auto. Qed.

Lemma proj_app t a b : proj t (a ++ b) = proj t a ++ proj t b.
Proof. unfold proj. rewrite filter_app, map_app. reflexivity. Qed.

Lemma proj_cons_same t o tr : proj t ((t, o) :: tr) = o :: proj t tr.
Proof. unfold proj. cbn. rewrite Nat.eqb_refl. reflexivity. Qed.

Lemma proj_cons_other t u o tr : u <> t -> proj t ((u, o) :: tr) = proj t tr.
Proof.
  intros Hne. unfold proj. cbn. destruct (Nat.eqb u t) eqn:E; [apply Nat.eqb_eq in E; contradiction|].
  reflexivity.
Qed.

Lemma proj_split t : forall tr a o b,
  proj t tr = a ++ o :: b ->
  exists x y, tr = x ++ (t, o) :: y /\ proj t x = a /\ proj t y = b.
Proof.
  induction tr as [|[u o'] tr IH]; intros a o b Hp.
  - destruct a; discriminate.
  - destruct (Nat.eq_dec u t) as [->|Hne].
    + rewrite proj_cons_same in Hp. destruct a as [|o'' a].
      * cbn in Hp. inversion Hp; subst. exists [], tr. auto.
      * cbn in Hp. inversion Hp; subst.
        destruct (IH _ _ _ H1) as [x [y [-> [Hx Hy]]]].
        exists ((t, o'') :: x), y. rewrite proj_cons_same, Hx. auto.
    + rewrite proj_cons_other in Hp by assumption.
      destruct (IH _ _ _ Hp) as [x [y [-> [Hx Hy]]]].
      exists ((u, o') :: x), y. rewrite proj_cons_other by assumption. auto.
Qed.

Lemma in_proj t o tr : In o (proj t tr) <-> In (t, o) tr.
Proof.
  unfold proj. rewrite in_map_iff. split.
  - intros [[u o'] [Heq Hin]]. cbn in Heq. subst. apply filter_In in Hin. destruct Hin as [Hin He].
    cbn in He. apply Nat.eqb_eq in He. subst. assumption.
  - intros Hin. exists (t, o). split; [reflexivity|]. apply filter_In. split; [assumption|].
    cbn. apply Nat.eqb_refl.
Qed.

Lemma run_holds_keep mu : forall y s s' t m,
  run mu s y = Some s' -> holds s t m -> no_rel mu (proj t y) -> holds s' t m.
Proof.
  induction y as [|e y IH]; intros s s' t m Hr Hh Hn; cbn in Hr.
  - inversion Hr; subst; assumption.
  - destruct (step mu s e) as [s1|] eqn:Es; [|discriminate].
    eapply IH; [exact Hr| |].
    + eapply step_holds_fwd; [exact Es| |exact Hh].
      intro Heq. subst e. apply (Hn m). rewrite proj_cons_same. left; reflexivity.
    + intros m' Hin. apply (Hn m'). destruct e as [u o]. destruct (Nat.eq_dec u t) as [->|Hne].
      * rewrite proj_cons_same. right; assumption.
      * rewrite proj_cons_other by assumption. assumption.
Qed.

Lemma lholds_holds mu tr s t m :
  run mu lk0 tr = Some s -> lholds (proj t tr) mu m -> holds s t m.
Proof.
  intros Hr [a [b [Hp Hn]]].
  destruct (proj_split _ _ _ _ _ Hp) as [x [y [-> [Hx Hy]]]].
  rewrite run_app in Hr. destruct (run mu lk0 x) as [sx|]; [|discriminate].
  cbn [run] in Hr. destruct (step mu sx (t, Acq mu m)) as [sa|] eqn:Ea; [|discriminate].
  eapply run_holds_keep; [exact Hr|eapply acq_holds; exact Ea|]. rewrite Hy. assumption.
Qed.

(* ------------------------------------------------------------------------------------------- *)
(* C. What the static annotation of an access says about the history of the goroutine making it *)
(* ------------------------------------------------------------------------------------------- *)

Scheme exec_item_mut := Minimality for exec_item Sort Prop
  with exec_list_mut := Minimality for exec_list Sort Prop.
Combined Scheme exec_mutind from exec_item_mut, exec_list_mut.

Lemma split_mid {A} : forall (o1 o2 pre : list A) x post,
  o1 ++ o2 = pre ++ x :: post ->
  (exists post1, o1 = pre ++ x :: post1 /\ post = post1 ++ o2) \/
  (exists pre2, pre = o1 ++ pre2 /\ o2 = pre2 ++ x :: post).
Proof.
  induction o1 as [|y o1 IH]; intros o2 pre x post Heq.
  - right. exists pre. auto.
  - destruct pre as [|p pre]; cbn in Heq; inversion Heq; subst.
    + left. exists o1. auto.
    + destruct (IH _ _ _ _ H1) as [[post1 [-> ->]]|[pre2 [-> ->]]].
      * left. exists post1. auto.
      * right. exists pre2. auto.
Qed.

(* a critical section of mu contains no release of a mutex held around it; likewise for Onces *)
Lemma exec_no_close :
  (forall i ops, exec_item i ops -> forall Hs Os, wf_item Hs Os i = true ->
     (forall mu m, In mu Hs -> ~ In (Rel mu m) ops) /\ (forall o, In o Os -> ~ In (OnceEnd o) ops)) /\
  (forall l ops, exec_list l ops -> forall Hs Os, forallb (wf_item Hs Os) l = true ->
     (forall mu m, In mu Hs -> ~ In (Rel mu m) ops) /\ (forall o, In o Os -> ~ In (OnceEnd o) ops)).
Proof.
  apply exec_mutind.
  - intros f w Hs Os _. split; intros; intro Hin; cbn in Hin; intuition discriminate.
  - intros f w Hs Os _. split; intros; intro Hin; cbn in Hin; intuition discriminate.
  - intros c Hs Os _. split; intros; intro Hin; cbn in Hin; intuition discriminate.
  - intros mu m body ops _ IH Hs Os Hwf. cbn in Hwf. apply andb_true_iff in Hwf. destruct Hwf as [Hnin Hb].
    destruct (IH _ _ Hb) as [IH1 IH2]. split.
    + intros mu' m' Hin [Heq|Hin']; [discriminate|].
      apply in_app_or in Hin'. destruct Hin' as [Hin'|[Heq|[]]].
      * eapply IH1; [right; exact Hin|exact Hin'].
      * inversion Heq; subst. apply negb_true_iff in Hnin.
        assert (existsb (Nat.eqb mu') Hs = true) by (apply existsb_eqb_in; assumption). congruence.
    + intros o Hin [Heq|Hin']; [discriminate|].
      apply in_app_or in Hin'. destruct Hin' as [Hin'|[Heq|[]]]; [|discriminate].
      eapply IH2; eauto.
  - intros o body ops _ IH Hs Os Hwf. cbn in Hwf. apply andb_true_iff in Hwf. destruct Hwf as [Hnin Hb].
    destruct (IH _ _ Hb) as [IH1 IH2]. split.
    + intros mu' m' Hin [Heq|Hin']; [discriminate|].
      apply in_app_or in Hin'. destruct Hin' as [Hin'|[Heq|[Heq|[]]]]; try discriminate.
      eapply IH1; eauto.
    + intros o' Hin [Heq|Hin']; [discriminate|].
      apply in_app_or in Hin'. destruct Hin' as [Hin'|[Heq|[Heq|[]]]]; try discriminate.
      * eapply IH2; [right; exact Hin|exact Hin'].
      * inversion Heq; subst. apply negb_true_iff in Hnin.
        assert (existsb (Nat.eqb o') Os = true) by (apply existsb_eqb_in; assumption). congruence.
  - intros o body Hs Os _. split; intros; intro Hin; cbn in Hin; intuition discriminate.
  - intros l Hs Os _. split; intros; cbn; auto.
  - intros i l ops _ _ IH Hs Os Hwf. cbn in Hwf. apply andb_true_iff in Hwf. destruct Hwf as [_ Hl].
    apply IH; assumption.
  - intros i l o1 o2 _ IHi _ IHl Hs Os Hwf. cbn in Hwf. apply andb_true_iff in Hwf. destruct Hwf as [Hi Hl].
    destruct (IHi _ _ Hi) as [A1 A2]. destruct (IHl _ _ Hl) as [B1 B2]. split.
    + intros mu m Hin Hin'. apply in_app_or in Hin'. destruct Hin'; [eapply A1|eapply B1]; eauto.
    + intros o Hin Hin'. apply in_app_or in Hin'. destruct Hin'; [eapply A2|eapply B2]; eauto.
Qed.

(* every OnceEnd is preceded, in the same goroutine, by the OnceBegin of that Once *)
Lemma exec_end_after_begin :
  (forall i ops, exec_item i ops -> forall pre o post, ops = pre ++ OnceEnd o :: post -> In (OnceBegin o) pre) /\
  (forall l ops, exec_list l ops -> forall pre o post, ops = pre ++ OnceEnd o :: post -> In (OnceBegin o) pre).
Proof.
  apply exec_mutind.
  - intros f w pre o post Heq. destruct pre as [|? [|? ?]]; cbn in Heq; inversion Heq.
  - intros f w pre o post Heq. destruct pre as [|? [|? ?]]; cbn in Heq; inversion Heq.
  - intros c pre o post Heq. destruct pre as [|? [|? ?]]; cbn in Heq; inversion Heq.
  - intros mu m body ops _ IH pre o post Heq.
    destruct pre as [|p pre]; cbn in Heq; inversion Heq; subst.
    destruct (split_mid _ _ _ _ _ H1) as [[post1 [Hops _]]|[pre2 [-> Hr]]].
    + right. eapply IH. exact Hops.
    + destruct pre2 as [|? [|? ?]]; cbn in Hr; inversion Hr.
  - intros o0 body ops _ IH pre o post Heq.
    destruct pre as [|p pre]; cbn in Heq; inversion Heq; subst.
    destruct (split_mid _ _ _ _ _ H1) as [[post1 [Hops _]]|[pre2 [-> Hr]]].
    + right. eapply IH. exact Hops.
    + destruct pre2 as [|? [|? [|? ?]]]; cbn in Hr; inversion Hr; subst. left; reflexivity.
  - intros o0 body pre o post Heq. destruct pre as [|? [|? ?]]; cbn in Heq; inversion Heq.
  - intros l pre o post Heq. destruct pre; discriminate.
  - intros i l ops _ _ IH pre o post Heq. eapply IH; eauto.
  - intros i l o1 o2 _ IHi _ IHl pre o post Heq.
    destruct (split_mid _ _ _ _ _ Heq) as [[post1 [Hops _]]|[pre2 [-> Hr]]].
    + eapply IHi; eauto.
    + apply in_or_app. right. eapply IHl; eauto.
Qed.

Definition ctx_facts (H : list (mutex * mode)) (I D : list once) (pre : list op) (a : ann) : Prop :=
  (forall mu m, In (mu, m) (a_held a) -> In (mu, m) H \/ lholds pre mu m) /\
  (forall o, In o (a_in a) -> In o I \/ lopen pre o) /\
  (forall o, In o (a_done a) -> In o D \/ In (OnceDone o) pre).

Definition matches (a : ann) (x : field * bool * bool) : Prop :=
  (a_f a, a_w a, a_at a) = x.

Lemma ctx_facts_prepend H I D x pre a :
  ctx_facts H I D pre a -> ctx_facts H I D (x ++ pre) a.
Proof.
  intros [A [B C]]. split; [|split].
  - intros mu m Hin. destruct (A _ _ Hin); [left; assumption|right; apply lholds_prepend; assumption].
  - intros o Hin. destruct (B _ Hin); [left; assumption|right; apply lopen_prepend; assumption].
  - intros o Hin. destruct (C _ Hin); [left; assumption|right; apply in_or_app; right; assumption].
Qed.

Lemma exec_item_once_done i ops o : exec_item i ops -> In o (dones i) -> In (OnceDone o) ops.
Proof.
  intros He Hin. destruct i; cbn in Hin; try contradiction. destruct Hin as [->|[]].
  inversion He; subst.
  - right. apply in_or_app. right. right. left. reflexivity.
  - left. reflexivity.
Qed.

Lemma exec_ann :
  (forall i ops, exec_item i ops ->
     forall nm H I D pre x post acc, wf_item (map fst H) I i = true ->
       ops = pre ++ x :: post -> op_acc x = Some acc ->
       exists a, In a (anns_item nm H I D i) /\ matches a acc /\ ctx_facts H I D pre a) /\
  (forall l ops, exec_list l ops ->
     forall nm H I D pre x post acc, forallb (wf_item (map fst H) I) l = true ->
       ops = pre ++ x :: post -> op_acc x = Some acc ->
       exists a, In a (anns_list nm H I D l) /\ matches a acc /\ ctx_facts H I D pre a).
Proof.
  apply exec_mutind.
  - (* IAcc *)
    intros f w nm H I D pre x post acc _ Heq Hacc.
    destruct pre as [|? [|? ?]]; cbn in Heq; inversion Heq; subst. cbn in Hacc. inversion Hacc; subst.
    eexists. split; [left; reflexivity|]. split; [reflexivity|].
    split; [|split]; intros; left; assumption.
  - (* IAtomic *)
    intros f w nm H I D pre x post acc _ Heq Hacc.
    destruct pre as [|? [|? ?]]; cbn in Heq; inversion Heq; subst. cbn in Hacc. inversion Hacc; subst.
    eexists. split; [left; reflexivity|]. split; [reflexivity|].
    split; [|split]; intros; left; assumption.
  - (* ICall *)
    intros c nm H I D pre x post acc _ Heq Hacc.
    destruct pre as [|? [|? ?]]; cbn in Heq; inversion Heq; subst. discriminate.
  - (* ILocked *)
    intros mu m body ops Hex IH nm H I D pre x post acc Hwf Heq Hacc.
    cbn in Hwf. apply andb_true_iff in Hwf. destruct Hwf as [Hnin Hb].
    destruct pre as [|p pre]; cbn in Heq; inversion Heq; subst; [discriminate|].
    destruct (split_mid _ _ _ _ _ H2) as [[post1 [Hops _]]|[pre2 [-> Hr]]].
    + destruct (IH nm ((mu, m) :: H) I D pre x post1 acc Hb Hops Hacc) as [a [Hin [Hm [A [B C]]]]].
      exists a. split; [exact Hin|]. split; [exact Hm|].
      assert (Hnr : no_rel mu pre).
      { intros m' Hin'. destruct exec_no_close as [_ Hnc].
        destruct (Hnc _ _ Hex _ _ Hb) as [Hnc1 _].
        apply (Hnc1 mu m'); [left; reflexivity|]. rewrite Hops. apply in_or_app. left. assumption. }
      split; [|split].
      * intros mu' m' Hin'. destruct (A _ _ Hin') as [[Heq'|Hin'']|Hl].
        -- inversion Heq'; subst. right. exists [], pre. auto.
        -- left; assumption.
        -- right. apply (lholds_prepend [Acq mu m]). assumption.
      * intros o Hin'. destruct (B _ Hin'); [left; assumption|right; apply (lopen_prepend [Acq mu m]); assumption].
      * intros o Hin'. destruct (C _ Hin'); [left; assumption|right; right; assumption].
    + destruct pre2 as [|? [|? ?]]; cbn in Hr; inversion Hr; subst. discriminate.
  - (* IOnce, run *)
    intros o body ops Hex IH nm H I D pre x post acc Hwf Heq Hacc.
    cbn in Hwf. apply andb_true_iff in Hwf. destruct Hwf as [Hnin Hb].
    destruct pre as [|p pre]; cbn in Heq; inversion Heq; subst; [discriminate|].
    destruct (split_mid _ _ _ _ _ H2) as [[post1 [Hops _]]|[pre2 [-> Hr]]].
    + destruct (IH nm H (o :: I) D pre x post1 acc Hb Hops Hacc) as [a [Hin [Hm [A [B C]]]]].
      exists a. split; [exact Hin|]. split; [exact Hm|].
      assert (Hne : ~ In (OnceEnd o) pre).
      { intros Hin'. destruct exec_no_close as [_ Hnc].
        destruct (Hnc _ _ Hex _ _ Hb) as [_ Hnc2].
        apply (Hnc2 o); [left; reflexivity|]. rewrite Hops. apply in_or_app. left. assumption. }
      split; [|split].
      * intros mu' m' Hin'. destruct (A _ _ Hin'); [left; assumption|right; apply (lholds_prepend [OnceBegin o]); assumption].
      * intros o' Hin'. destruct (B _ Hin') as [[->|Hin'']|Hl].
        -- right. exists [], pre. auto.
        -- left; assumption.
        -- right. apply (lopen_prepend [OnceBegin o]). assumption.
      * intros o' Hin'. destruct (C _ Hin'); [left; assumption|right; right; assumption].
    + destruct pre2 as [|? [|? [|? ?]]]; cbn in Hr; inversion Hr; subst; discriminate.
  - (* IOnce, found done *)
    intros o body nm H I D pre x post acc _ Heq Hacc.
    destruct pre as [|? [|? ?]]; cbn in Heq; inversion Heq; subst. discriminate.
  - (* stop *)
    intros l nm H I D pre x post acc _ Heq _. destruct pre; discriminate.
  - (* skip *)
    intros i l ops Hsk _ IH nm H I D pre x post acc Hwf Heq Hacc.
    cbn in Hwf. apply andb_true_iff in Hwf. destruct Hwf as [_ Hl].
    destruct (IH nm H I D pre x post acc Hl Heq Hacc) as [a [Hin Hrest]].
    exists a. split; [|exact Hrest].
    unfold anns_list. cbn. apply in_or_app. right.
    assert (Hd : dones i = []) by (destruct i; cbn in *; try reflexivity; discriminate).
    rewrite Hd. exact Hin.
  - (* do *)
    intros i l o1 o2 Hei IHi _ IHl nm H I D pre x post acc Hwf Heq Hacc.
    cbn in Hwf. apply andb_true_iff in Hwf. destruct Hwf as [Hi Hl].
    destruct (split_mid _ _ _ _ _ Heq) as [[post1 [Hops _]]|[pre2 [-> Hr]]].
    + destruct (IHi nm H I D pre x post1 acc Hi Hops Hacc) as [a [Hin Hrest]].
      exists a. split; [|exact Hrest]. unfold anns_list. cbn. apply in_or_app. left. exact Hin.
    + destruct (IHl nm H I (dones i ++ D) pre2 x post acc Hl Hr Hacc) as [a [Hin [Hm [A [B C]]]]].
      exists a. split; [unfold anns_list; cbn; apply in_or_app; right; exact Hin|]. split; [exact Hm|].
      split; [|split].
      * intros mu m Hin'. destruct (A _ _ Hin'); [left; assumption|right; apply lholds_prepend; assumption].
      * intros o Hin'. destruct (B _ Hin'); [left; assumption|right; apply lopen_prepend; assumption].
      * intros o Hin'. destruct (C _ Hin') as [Hd|Hp].
        -- apply in_app_or in Hd. destruct Hd as [Hd|Hd]; [|left; assumption].
           right. apply in_or_app. left. eapply exec_item_once_done; eauto.
        -- right. apply in_or_app. right. assumption.
Qed.

(* thread level *)
Definition local_facts (pre : list op) (a : ann) : Prop :=
  (forall mu m, In (mu, m) (a_held a) -> lholds pre mu m) /\
  (forall o, In o (a_in a) -> lopen pre o) /\
  (forall o, In o (a_done a) -> In (OnceDone o) pre).

Lemma local_facts_prepend x pre a : local_facts pre a -> local_facts (x ++ pre) a.
Proof.
  intros [A [B C]]. split; [|split]; intros.
  - apply lholds_prepend; auto.
  - apply lopen_prepend; auto.
  - apply in_or_app; right; auto.
Qed.

Lemma thread_ann tbl : wf_table tbl = true ->
  forall full, exec_thread tbl full ->
  forall pre x post acc, full = pre ++ x :: post -> op_acc x = Some acc ->
  exists a, In a (table_anns tbl) /\ matches a acc /\ local_facts pre a.
Proof.
  intros Hwf full Hex. induction Hex as [|name items ops rest Hin Hel Hex IH]; intros pre x post acc Heq Hacc.
  - destruct pre; discriminate.
  - destruct (split_mid _ _ _ _ _ Heq) as [[post1 [Hops _]]|[pre2 [-> Hr]]].
    + destruct exec_ann as [_ Hl].
      assert (Hwi : forallb (wf_item (map fst (@nil (mutex * mode))) []) items = true).
      { unfold wf_table in Hwf. rewrite forallb_forall in Hwf. apply (Hwf (name, items)). assumption. }
      destruct (Hl _ _ Hel name [] [] [] pre x post1 acc Hwi Hops Hacc) as [a [Hina [Hm [A [B C]]]]].
      exists a. split; [|split; [exact Hm|]].
      * unfold table_anns. apply in_flat_map. exists (name, items). split; assumption.
      * split; [|split]; intros.
        -- destruct (A _ _ H); [contradiction|assumption].
        -- destruct (B _ H); [contradiction|assumption].
        -- destruct (C _ H); [contradiction|assumption].
    + destruct (IH _ _ _ _ Hr Hacc) as [a [Hina [Hm Hf]]].
      exists a. split; [assumption|]. split; [assumption|]. apply local_facts_prepend. assumption.
Qed.

Lemma thread_end_after_begin tbl :
  forall full, exec_thread tbl full ->
  forall pre o post, full = pre ++ OnceEnd o :: post -> In (OnceBegin o) pre.
Proof.
  intros full Hex. induction Hex as [|name items ops rest Hin Hel Hex IH]; intros pre o post Heq.
  - destruct pre; discriminate.
  - destruct (split_mid _ _ _ _ _ Heq) as [[post1 [Hops _]]|[pre2 [-> Hr]]].
    + destruct exec_end_after_begin as [_ Hl]. eapply Hl; eauto.
    + apply in_or_app. right. eapply IH; eauto.
Qed.

(* ------------------------------------------------------------------------------------------- *)
(* D. Indices                                                                                   *)
(* ------------------------------------------------------------------------------------------- *)

Lemma nth_mid {A} (a : list A) x b : nth_error (a ++ x :: b) (length a) = Some x.
Proof. rewrite nth_error_app2 by lia. rewrite Nat.sub_diag. reflexivity. Qed.

Lemma nth_split {A} (l : list A) n x :
  nth_error l n = Some x -> exists a b, l = a ++ x :: b /\ length a = n.
Proof. apply nth_error_split. Qed.

Lemma in_nth {A} (l : list A) x : In x l -> exists n, n < length l /\ nth_error l n = Some x.
Proof.
  intros Hin. destruct (In_nth_error _ _ Hin) as [n Hn]. exists n. split; [|assumption].
  apply nth_error_Some. congruence.
Qed.

Lemma nth_app_l {A} (a b : list A) n x : nth_error a n = Some x -> nth_error (a ++ b) n = Some x.
Proof.
  intros Hn. rewrite nth_error_app1; [assumption|]. apply nth_error_Some. congruence.
Qed.

(* an open Once, in terms of positions of the trace *)
Lemma lopen_global t A o :
  lopen (proj t A) o ->
  exists b, b < length A /\ nth_error A b = Some (t, OnceBegin o) /\
            forall k, b < k -> nth_error A k <> Some (t, OnceEnd o).
Proof.
  intros [a [c [Hp Hn]]].
  destruct (proj_split _ _ _ _ _ Hp) as [x [y [-> [Hx Hy]]]].
  exists (length x). split; [rewrite app_length; cbn; lia|]. split; [apply nth_mid|].
  intros k Hk Hnth. apply Hn. rewrite <- Hy. apply in_proj.
  rewrite nth_error_app2 in Hnth by lia.
  destruct (k - length x) as [|k'] eqn:Ek; [lia|]. cbn in Hnth.
  eapply nth_error_In. exact Hnth.
Qed.

Lemma in_proj_nth t o A : In o (proj t A) -> exists d, d < length A /\ nth_error A d = Some (t, o).
Proof. intros Hin. apply in_proj in Hin. apply in_nth. assumption. Qed.

(* ------------------------------------------------------------------------------------------- *)
(* E. Soundness                                                                                 *)
(* ------------------------------------------------------------------------------------------- *)

Lemma run_prefix_some mu a b : run mu lk0 (a ++ b) <> None -> exists s, run mu lk0 a = Some s.
Proof.
  rewrite run_app. destruct (run mu lk0 a) as [s|]; [eauto|congruence].
Qed.

Lemma table_ok_pair tbl a1 a2 :
  table_ok tbl = true -> In a1 (table_anns tbl) -> In a2 (table_anns tbl) -> pair_ok a1 a2 = true.
Proof.
  unfold table_ok. intros Hok H1 H2. apply andb_true_iff in Hok. destruct Hok as [_ Hok].
  rewrite forallb_forall in Hok. specialize (Hok _ H1). rewrite forallb_forall in Hok. auto.
Qed.

Lemma table_ok_wf tbl : table_ok tbl = true -> wf_table tbl = true.
Proof. unfold table_ok. intros Hok. apply andb_true_iff in Hok. tauto. Qed.

(* the OnceEnd of a Once is made by the goroutine that made its OnceBegin, later *)
Lemma once_end_owner tbl tr e t o :
  conforms tbl tr -> nth_error tr e = Some (t, OnceEnd o) ->
  exists b, b < e /\ nth_error tr b = Some (t, OnceBegin o).
Proof.
  intros Hc Hn. destruct (nth_split _ _ _ Hn) as [A [B [Htr HlA]]].
  destruct (Hc t) as [full [rest [Hex Hfull]]].
  rewrite Htr, proj_app, proj_cons_same, <- app_assoc in Hfull. cbn in Hfull.
  pose proof (thread_end_after_begin _ _ Hex _ _ _ Hfull) as Hin.
  destruct (in_proj_nth _ _ _ Hin) as [b [Hb Hnb]].
  exists b. split; [lia|]. rewrite Htr. apply nth_app_l. assumption.
Qed.

Theorem lockset_sound : forall tbl tr,
  table_ok tbl = true -> wf_trace tr -> conforms tbl tr -> forall i j, ~ race tr i j.
Proof.
  intros tbl tr Hok [Hmwf [Hou Hod]] Hconf i j
         [t1 [t2 [o1 [o2 [c1 [c2 [Hij [Hni [Hnj [Hne [Hc1 [Hc2 [Hcf Hnhb]]]]]]]]]]]]].
  apply Hnhb. clear Hnhb.
  (* split the trace at i and j *)
  destruct (nth_split _ _ _ Hni) as [A [R [Htr HlA]]].
  assert (HnjR : nth_error R (j - S i) = Some (t2, o2)).
  { rewrite Htr in Hnj. rewrite nth_error_app2 in Hnj by lia.
    replace (j - length A) with (S (j - S i)) in Hnj by lia. exact Hnj. }
  destruct (nth_split _ _ _ HnjR) as [B [C [HR HlB]]].
  (* static annotations of the two accesses *)
  pose proof (table_ok_wf _ Hok) as Hwt.
  destruct (Hconf t1) as [full1 [rest1 [Hex1 Hfull1]]].
  rewrite Htr, proj_app, proj_cons_same, <- app_assoc in Hfull1. cbn in Hfull1.
  destruct (thread_ann _ Hwt _ Hex1 _ _ _ _ Hfull1 Hc1) as [a1 [Hin1 [Hm1 [L1 [I1 D1]]]]].
  destruct (Hconf t2) as [full2 [rest2 [Hex2 Hfull2]]].
  assert (Htr2 : tr = (A ++ (t1, o1) :: B) ++ (t2, o2) :: C).
  { rewrite Htr, HR, <- app_assoc. reflexivity. }
  rewrite Htr2, proj_app, proj_cons_same, <- app_assoc in Hfull2. cbn in Hfull2.
  destruct (thread_ann _ Hwt _ Hex2 _ _ _ _ Hfull2 Hc2) as [a2 [Hin2 [Hm2 [L2 [I2 D2]]]]].
  pose proof (table_ok_pair _ _ _ Hok Hin1 Hin2) as Hp.
  assert (HlAB : length (A ++ (t1, o1) :: B) = j) by (rewrite app_length; cbn; lia).
  unfold pair_ok in Hp.
  assert (Hconfl : ann_conflict a1 a2 = true).
  { unfold ann_conflict. unfold matches in Hm1, Hm2. rewrite Hm1, Hm2. exact Hcf. }
  rewrite Hconfl in Hp. cbn in Hp.
  repeat (apply orb_true_iff in Hp; destruct Hp as [Hp|Hp]).
  - (* both inside excluding critical sections of one mutex *)
    unfold lock_protected in Hp. apply existsb_exists in Hp. destruct Hp as [[mu m1] [Hh1 Hp]].
    apply existsb_exists in Hp. destruct Hp as [[mu' m2] [Hh2 Hp]]. cbn in Hp.
    apply andb_true_iff in Hp. destruct Hp as [Hmu Hmc]. apply Nat.eqb_eq in Hmu. subst mu'.
    pose proof (Hmwf mu) as Hrun.
    rewrite Htr2 in Hrun. destruct (run_prefix_some _ _ _ Hrun) as [sB HsB].
    assert (HsA : exists sA, run mu lk0 A = Some sA) by (eapply run_prefix_some; rewrite HsB; congruence).
    destruct HsA as [sA HsA].
    pose proof (lholds_holds _ _ _ _ _ HsA (L1 _ _ Hh1)) as Hhold1.
    pose proof (lholds_holds _ _ _ _ _ HsB (L2 _ _ Hh2)) as Hhold2.
    assert (HrB : run mu sA B = Some sB).
    { rewrite run_app, HsA in HsB. cbn [run] in HsB.
      assert (Hst : step mu sA (t1, o1) = Some sA).
      { destruct o1; cbn in Hc1; try discriminate; reflexivity. }
      rewrite Hst in HsB. exact HsB. }
    destruct (lock_orders mu _ _ _ _ _ _ _ (run_excl mu _ _ _ excl_lk0 HsA) HrB Hne Hmc Hhold1 Hhold2)
      as [x [y [z HB]]].
    (* positions: release at k, acquisition at l *)
    set (k := length (A ++ (t1, o1) :: x)).
    set (l := length ((A ++ (t1, o1) :: x) ++ (t1, Rel mu m1) :: y)).
    assert (Etr_k : tr = (A ++ (t1, o1) :: x) ++ (t1, Rel mu m1) :: (y ++ (t2, Acq mu m2) :: z) ++ (t2, o2) :: C).
    { rewrite Htr, HR, HB. repeat (rewrite <- app_assoc; cbn [app]). reflexivity. }
    assert (Etr_l : tr = ((A ++ (t1, o1) :: x) ++ (t1, Rel mu m1) :: y) ++ (t2, Acq mu m2) :: z ++ (t2, o2) :: C).
    { rewrite Htr, HR, HB. repeat (rewrite <- app_assoc; cbn [app]). reflexivity. }
    assert (Hk : nth_error tr k = Some (t1, Rel mu m1)).
    { unfold k. rewrite Etr_k at 1. apply nth_mid. }
    assert (Hl : nth_error tr l = Some (t2, Acq mu m2)).
    { unfold l. rewrite Etr_l at 1. apply nth_mid. }
    assert (Hik : i < k) by (unfold k; rewrite app_length; cbn; lia).
    assert (Hkl : k < l) by (unfold k, l; repeat (rewrite app_length; cbn); unfold ev in *; lia).
    assert (Hlj : l < j).
    { rewrite <- HlAB, HB. unfold l. repeat (rewrite app_length; cbn). unfold ev in *. lia. }
    eapply hb_trans; [eapply hb_po; [exact Hik|exact Hni|exact Hk]|].
    eapply hb_trans; [|eapply hb_po; [exact Hlj|exact Hl|exact Hnj]].
    apply hb_sw; [exact Hkl|]. exists t1, t2, (Rel mu m1), (Acq mu m2). auto.
  - (* the earlier access is made by the function of a Once, the later one after a Do returned *)
    unfold once_ordered in Hp. apply existsb_exists in Hp. destruct Hp as [o [Hi1 Hp]].
    apply existsb_eqb_in in Hp.
    destruct (lopen_global _ _ _ (I1 _ Hi1)) as [b [Hb [Hnb Hnoend]]].
    destruct (in_proj_nth _ _ _ (D2 _ Hp)) as [d [Hd Hnd]].
    assert (Hnb' : nth_error tr b = Some (t1, OnceBegin o)) by (rewrite Htr; apply nth_app_l; assumption).
    assert (Hnd' : nth_error tr d = Some (t2, OnceDone o)) by (rewrite Htr2; apply nth_app_l; assumption).
    destruct (Hod _ _ _ Hnd') as [e [t' [Hed Hne']]].
    destruct (once_end_owner _ _ _ _ _ Hconf Hne') as [b' [Hb'e Hnb'']].
    pose proof (Hou _ _ _ _ _ Hnb' Hnb'') as Hbb. subst b'.
    assert (t' = t1) by congruence. subst t'.
    assert (Hie : i < e).
    { destruct (Nat.lt_trichotomy e i) as [Hlt|[Heq|Hgt]]; [|subst e; rewrite Hni in Hne'; inversion Hne'; subst; discriminate|assumption].
      exfalso. apply (Hnoend e Hb'e). rewrite Htr in Hne'. rewrite nth_error_app1 in Hne' by lia. exact Hne'. }
    eapply hb_trans; [eapply hb_po; [exact Hie|exact Hni|exact Hne']|].
    eapply hb_trans; [apply hb_sw; [exact Hed|]|eapply hb_po; [|exact Hnd'|exact Hnj]; lia].
    exists t1, t2, (OnceEnd o), (OnceDone o). auto.
  - (* the later access inside the Once, the earlier one after a Do returned: impossible *)
    exfalso.
    unfold once_ordered in Hp. apply existsb_exists in Hp. destruct Hp as [o [Hi2 Hp]].
    apply existsb_eqb_in in Hp.
    destruct (lopen_global _ _ _ (I2 _ Hi2)) as [b [Hb [Hnb Hnoend]]].
    destruct (in_proj_nth _ _ _ (D1 _ Hp)) as [d [Hd Hnd]].
    assert (Hnb' : nth_error tr b = Some (t2, OnceBegin o)) by (rewrite Htr2; apply nth_app_l; assumption).
    assert (Hnd' : nth_error tr d = Some (t1, OnceDone o)) by (rewrite Htr; apply nth_app_l; assumption).
    destruct (Hod _ _ _ Hnd') as [e [t' [Hed Hne']]].
    destruct (once_end_owner _ _ _ _ _ Hconf Hne') as [b' [Hb'e Hnb'']].
    pose proof (Hou _ _ _ _ _ Hnb' Hnb'') as Hbb. subst b'.
    assert (t' = t2) by congruence. subst t'.
    apply (Hnoend e Hb'e). rewrite Htr2 in Hne'. rewrite nth_error_app1 in Hne' by lia. exact Hne'.
  - (* both inside the function of one Once: it runs in one goroutine only *)
    exfalso.
    unfold same_once in Hp. apply existsb_exists in Hp. destruct Hp as [o [Hi1 Hp]].
    apply existsb_eqb_in in Hp.
    destruct (lopen_global _ _ _ (I1 _ Hi1)) as [b1 [_ [Hnb1 _]]].
    destruct (lopen_global _ _ _ (I2 _ Hp)) as [b2 [_ [Hnb2 _]]].
    assert (Hnb1' : nth_error tr b1 = Some (t1, OnceBegin o)) by (rewrite Htr; apply nth_app_l; assumption).
    assert (Hnb2' : nth_error tr b2 = Some (t2, OnceBegin o)) by (rewrite Htr2; apply nth_app_l; assumption).
    pose proof (Hou _ _ _ _ _ Hnb1' Hnb2') as Hbb. subst b2. congruence.
Qed.
