(* The directory of fail files as bytes: loader (Model/Persist.v) + engine (Model/Shrink.v) composed. *)
From Coq Require Import Lia List NArith.
Require Import Rapid.Generated.Consts.
Require Import Rapid.Model.Base Rapid.Model.Syntax Rapid.Model.Monad Rapid.Model.Engine Rapid.Model.Shrink Rapid.Model.Persist.
Require Import Rapid.Proofs.EngineProofs Rapid.Proofs.FileProofs Rapid.Proofs.PersistTheorems.
Import ListNotations.
Local Open Scope nat_scope.

(* checkFailFile's view of one file: load error or version mismatch -> ignored; else its words *)
Definition classify (b : bytes) : loaded :=
  match load_bytes b with
  | LOk v _ ws => LFile (bytes_eqb v (bytes_of_string c_rapidVersion)) ws
  | Persist.LErr _ => Shrink.LErr
  end.

Lemma classify_garbage b e : load_bytes b = Persist.LErr e -> classify b = Shrink.LErr.
Proof. unfold classify. intros ->. reflexivity. Qed.

Lemma bytes_eqb_refl (a : bytes) : bytes_eqb a a = true.
Proof. induction a as [|x a IH]; cbn; [reflexivity|]. rewrite N.eqb_refl. exact IH. Qed.

Lemma classify_saved out seed buf :
  (seed < 2 ^ 64)%N -> Forall (fun u => (u < 2 ^ 64)%N) buf ->
  classify (save_bytes (bytes_of_string c_rapidVersion) out seed buf) = LFile true buf.
Proof.
  intros Hs Hb. unfold classify. fold rapid_version. rewrite (roundtrip_rapid_version out seed buf Hs Hb).
  rewrite bytes_eqb_refl. reflexivity.
Qed.

Lemma verdict_valid geom LF lvl p files checks nofailfile early seed cands clock :
  let tb := Shrink.checkTB geom LF lvl p files checks nofailfile early seed cands clock in
  match tb_verdict tb with
  | VFailedAfter v _ | VPanicAfter v _ => v = dc_valid (tb_dc tb)
  | _ => True
  end.
Proof.
  cbv zeta. unfold Shrink.checkTB.
  set (dc := doCheck geom LF lvl p files checks early seed cands clock). clearbody dc.
  destruct (dc_err1 dc) as [u|e1]; destruct (dc_err2 dc) as [u2|e2]; cbv beta iota.
  - destruct (_ || _); cbn [tb_verdict]; exact I.
  - cbn [tb_verdict tb_dc]. destruct (tbk_eqb _ _); [destruct e2|]; cbn [tb_verdict]; auto.
  - cbn [tb_verdict tb_dc]. destruct (tbk_eqb _ _); cbn [tb_verdict]; auto.
  - cbn [tb_verdict tb_dc]. destruct (tbk_eqb _ _); [destruct e2|]; cbn [tb_verdict]; auto.
Qed.

Section Dir.
  Variable geom : nat -> N -> N.
  Variable LF : nat.
  Hypothesis HLF : 1 <= LF.
  Variable lvl : nat.
  Variable p : prog.
  Notation run := (run_case geom LF lvl p).
  Notation checkTB := (checkTB geom LF lvl p).
  Notation unusable := (unusable geom LF lvl p).

  (* C17: any directory content none of whose files reproduces a failure (unparsable bytes, other versions,
     stale test cases that now pass or are invalid) leaves verdict, seed, saved buffer and final replay
     exactly as with an empty directory *)
  Theorem dir_of_unusable_files_changes_nothing (dir : list bytes) checks nofailfile early seed cands clock :
    Forall (fun b => unusable (classify b)) dir ->
    let a := checkTB (map classify dir) checks nofailfile early seed cands clock in
    let b := checkTB [] checks nofailfile early seed cands clock in
    tb_verdict a = tb_verdict b /\ tb_failed a = tb_failed b /\ tb_seed_shown a = tb_seed_shown b /\
    tb_saved a = tb_saved b /\ tb_final a = tb_final b /\
    dc_valid (tb_dc a) = dc_valid (tb_dc b) /\ dc_invalid (tb_dc a) = dc_invalid (tb_dc b) /\
    length (dc_filelogs (tb_dc a)) = length dir /\ ~ In FFailed (dc_filelogs (tb_dc a)).
  Proof.
    intros HF. assert (HF' : Forall unusable (map classify dir)) by (rewrite Forall_map; exact HF).
    cbv zeta.
    destruct (unusable_files_same_verdict geom LF lvl p (map classify dir) checks nofailfile early seed cands clock HF')
      as [A [B [C [D E]]]].
    destruct (unusable_files_ignored geom LF lvl p (map classify dir) checks early seed cands clock HF')
      as [V [I [_ [_ [_ [_ [_ [_ [_ [_ [L N]]]]]]]]]]].
    rewrite map_length in L.
    assert (Hdc : forall files, tb_dc (checkTB files checks nofailfile early seed cands clock)
                                = doCheck geom LF lvl p files checks early seed cands clock).
    { intros files. unfold Shrink.checkTB.
      destruct (dc_err1 _) as [u|e1]; [destruct (dc_err2 _) as [u2|e2]; [destruct (_ || _)|]|]; reflexivity. }
    rewrite !Hdc. repeat split; assumption.
  Qed.
  (* in particular every byte string the loader rejects is unusable *)
  Lemma rejected_bytes_unusable b e : load_bytes b = Persist.LErr e -> unusable (classify b).
  Proof. intros H. rewrite (classify_garbage b e H). exact I. Qed.

  (* C06: the two-run history.  Run 1 fails and hands buffer b to saveFailFile (any captured output, any
     seed field); run 2 - any flags, any seed, any shrink schedule - finds those bytes among any number of
     unusable files: it reports the failure "after 0 tests" from the file, with the very outcome of run 1's
     final replay, runs no random test case before it, and does not save it again. *)
  Hypothesis Hclean : forall x, dirty (w (run x)) = false.
  Hypothesis Hnofuel : forall x, res (run x) <> Err XFuel.

  Theorem saved_failure_is_replayed_first
          files1 checks1 early1 seed1 cands1 clock1 b out seedfield
          (pre post : list bytes) checks2 nofailfile2 early2 seed2 cands2 clock2 :
    let tb1 := checkTB files1 checks1 false early1 seed1 cands1 clock1 in
    tb_saved tb1 = Some b ->
    (seedfield < 2 ^ 64)%N -> Forall (fun u => (u < 2 ^ 64)%N) b ->
    Forall (fun x => unusable (classify x)) pre ->
    let file := save_bytes (bytes_of_string c_rapidVersion) out seedfield b in
    let tb2 := checkTB (map classify (pre ++ file :: post)) checks2 nofailfile2 early2 seed2 cands2 clock2 in
    exists e,
      (tb_verdict tb1 = VFailedAfter (dc_valid (tb_dc tb1)) e \/ tb_verdict tb1 = VPanicAfter (dc_valid (tb_dc tb1)) e) /\
      (tb_verdict tb2 = VFailedAfter 0 e \/ tb_verdict tb2 = VPanicAfter 0 e) /\
      dc_fromfile (tb_dc tb2) = Some (length pre) /\ dc_valid (tb_dc tb2) = 0 /\ dc_invalid (tb_dc tb2) = 0 /\
      tb_final tb2 = tb_final tb1 /\ tb_failed tb2 = true /\ tb_saved tb2 = None /\ tb_seed_shown tb2 = None.
  Proof.
    intros tb1 Hsaved Hsf Hb Hpre file tb2.
    (* run 1: C01 *)
    assert (Hfailed : tb_failed tb1 = true).
    { revert Hsaved. unfold tb1, Shrink.checkTB.
      destruct (dc_err1 _) as [u|e1]; [destruct (dc_err2 _) as [u2|e2]; [destruct (_ || _)|]|];
        cbn [tb_saved tb_failed]; intros Hsv; try reflexivity; discriminate Hsv. }
    pose proof (reported_failure_is_real geom LF HLF lvl p Hclean Hnofuel files1 checks1 false early1 seed1 cands1 clock1 Hfailed) as R.
    fold tb1 in R.
    assert (Hcase : exists e, (tb_verdict tb1 = VFailedAfter (dc_valid (tb_dc tb1)) e \/ tb_verdict tb1 = VPanicAfter (dc_valid (tb_dc tb1)) e) /\
                     tb_final tb1 = Some (run (SBuf b)) /\ res (run (SBuf b)) = Err e /\ (forall m, e <> XInvalid m)).
    { pose proof (verdict_valid geom LF lvl p files1 checks1 false early1 seed1 cands1 clock1) as Hv. cbv zeta in Hv. fold tb1 in Hv.
      destruct (tb_verdict tb1) as [v|v t|v e|v e|] eqn:Ev; try contradiction.
      - destruct R as [_ R]. rewrite R in Hsaved. discriminate.
      - destruct R as [R1 [R2 [[R3|R3] [_ R5]]]]; rewrite R3 in Hsaved; [discriminate|]. injection Hsaved as <-.
        exists e. rewrite <- Hv. repeat split; auto.
      - destruct R as [R1 [R2 [[R3|R3] [_ R5]]]]; rewrite R3 in Hsaved; [discriminate|]. injection Hsaved as <-.
        exists e. rewrite <- Hv. repeat split; auto. }
    destruct Hcase as [e [Hv1 [Hfin [Hres Hni]]]].
    exists e. split; [exact Hv1|].
    assert (Hnf : e <> XFuel) by (intros ->; exact (Hnofuel _ Hres)).
    unfold tb2. rewrite map_app. cbn [map]. unfold file. rewrite (classify_saved out seedfield b Hsf Hb).
    assert (HF' : Forall unusable (map classify pre)) by (rewrite Forall_map; exact Hpre).
    destruct (failing_file_replayed_first geom LF lvl p (map classify pre) b (map classify post) checks2 nofailfile2 early2 seed2 cands2 clock2 e HF' Hres Hni Hnf)
      as [A [B [C [_ [_ [F [G [H [S I']]]]]]]]].
    rewrite map_length in A. rewrite Hfin. repeat split; assumption.
  Qed.
End Dir.
