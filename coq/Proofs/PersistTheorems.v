(* The statements of Properties/C06.v, C16.v, C17.v in their final form, assembled from the lemma files. *)
From Coq Require Import String.
From Coq Require Import List NArith Bool Lia Arith.
Import ListNotations.
Require Import Rapid.Generated.Consts Rapid.Generated.UnicodeLD.
Require Import Rapid.Model.Persist Rapid.Model.FS Rapid.Model.PersistCorr.
Require Import Rapid.Proofs.PersistProofs Rapid.Proofs.PersistNameProofs Rapid.Proofs.PersistCrashProofs Rapid.Proofs.PersistLoadProofs.
Open Scope N_scope.

Lemma lt64_le u : u < 2 ^ 64 -> u <= maxu64.
Proof. change (2 ^ 64) with 18446744073709551616. unfold maxu64. lia. Qed.

(* ---- C06 ---- *)
Lemma roundtrip_64 (ver out : bytes) (seed : N) (buf : list N) :
  ver <> [] -> ~ In 35 ver -> ~ In 10 ver -> strip_space_prefix ver = None ->
  seed < 2 ^ 64 -> Forall (fun u => u < 2 ^ 64) buf ->
  load_bytes (save_bytes ver out seed buf) = LOk ver seed buf.
Proof.
  intros H1 H2 H3 H4 H5 H6. apply load_save_roundtrip; try assumption.
  - apply lt64_le. exact H5.
  - eapply Forall_impl; [|exact H6]. intros u. apply lt64_le.
Qed.

Definition rapid_version : bytes := bytes_of_string c_rapidVersion.

Lemma roundtrip_rapid_version (out : bytes) (seed : N) (buf : list N) :
  seed < 2 ^ 64 -> Forall (fun u => u < 2 ^ 64) buf ->
  load_bytes (save_bytes rapid_version out seed buf) = LOk rapid_version seed buf.
Proof.
  apply roundtrip_64.
  - discriminate.
  - apply notin_b. vm_compute. reflexivity.
  - apply notin_b. vm_compute. reflexivity.
  - vm_compute. reflexivity.
Qed.

Lemma name_facts_unicode (test : list N) :
  let lod := in_ranges unicode_ld_ranges in
  let up := assoc_or_id unicode_upper_pairs in
  Forall (fun r => safe_rune lod r = true) (kindaSafeFilename lod up test) /\
  Forall not_meta (kindaSafeFilename lod up test) /\
  forall ts pid, ~ In 47 ts -> ~ In 47 pid ->
    glob_match (failFilePatternBase lod up test) (failFileBase lod up test ts pid) = true /\
    glob_match (failFilePattern lod up test) (failFileName lod up test ts pid) = true.
Proof. cbv zeta. apply name_facts. exact unicode_ld_ascii. Qed.

(* ---- C16 ---- *)
Lemma crash_atomic_failfile (is_lod : N -> bool) (to_upper : N -> N) :
  (forall r, r < 128 -> is_lod r = ascii_alnum r) ->
  forall (test ts pid rnd dir : list N) (ver out : bytes) (seed : N) (buf : list N) (chunks : list bytes) (fs0 : fs),
  ~ In 47 ts -> ~ In 47 pid ->
  concat chunks = save_bytes ver out seed buf ->
  let pat := failFilePatternBase is_lod to_upper test in
  let tmp := failfile_tmp_name rnd in
  let final := failFileBase is_lod to_upper test ts pid in
  let ops := save_ops_chunks dir tmp final chunks in
  look tmp fs0 = None ->
  (forall k n c, In (n, c) (matches pat (apply_ops (firstn k ops) fs0)) ->
     In (n, c) (matches pat fs0) \/ (n = final /\ c = save_bytes ver out seed buf)) /\
  (forall k n, n <> final -> n <> tmp -> look n (apply_ops (firstn k ops) fs0) = look n fs0) /\
  (look final (apply_ops (firstn (length ops) ops) fs0) = Some (save_bytes ver out seed buf) /\
   look tmp (apply_ops (firstn (length ops) ops) fs0) = None).
Proof.
  intros Hlod test ts pid rnd dir ver out seed buf chunks fs0 Hts Hpid Hc pat tmp final ops Hfresh.
  assert (Hn : glob_match pat tmp = false) by (apply tmp_disjoint_base; exact Hlod).
  assert (Hm : glob_match pat final = true) by (apply pattern_matches_base; assumption).
  split; [|split].
  - intros k n c Hin. rewrite <- Hc. exact (crash_atomic pat dir tmp final chunks fs0 Hn Hm Hfresh k n c Hin).
  - intros k n Hf Ht. exact (crash_others_untouched dir tmp final chunks fs0 k n Hf Ht).
  - unfold ops. rewrite full_prefix. rewrite <- Hc.
    destruct (save_complete pat dir tmp final chunks fs0 Hn Hm Hfresh) as [_ [H1 H2]]. split; assumption.
Qed.

(* the operation list as saveFailFile issues it: one write per output line and one for the body *)
Lemma crash_atomic_save_ops (is_lod : N -> bool) (to_upper : N -> N) :
  (forall r, r < 128 -> is_lod r = ascii_alnum r) ->
  forall (test ts pid rnd dir : list N) (ver out : bytes) (seed : N) (buf : list N) (fs0 : fs),
  ~ In 47 ts -> ~ In 47 pid ->
  let pat := failFilePatternBase is_lod to_upper test in
  let tmp := failfile_tmp_name rnd in
  let final := failFileBase is_lod to_upper test ts pid in
  let ops := save_ops dir tmp final ver out seed buf in
  look tmp fs0 = None ->
  (forall k n c, In (n, c) (matches pat (apply_ops (firstn k ops) fs0)) ->
     In (n, c) (matches pat fs0) \/ (n = final /\ c = save_bytes ver out seed buf)) /\
  (forall k n, n <> final -> n <> tmp -> look n (apply_ops (firstn k ops) fs0) = look n fs0) /\
  (look final (apply_ops (firstn (length ops) ops) fs0) = Some (save_bytes ver out seed buf) /\
   look tmp (apply_ops (firstn (length ops) ops) fs0) = None).
Proof.
  intros Hlod test ts pid rnd dir ver out seed buf fs0 Hts Hpid.
  apply (crash_atomic_failfile is_lod to_upper Hlod test ts pid rnd dir ver out seed buf (save_chunks ver out seed buf) fs0 Hts Hpid).
  apply concat_save_chunks.
Qed.

Lemma tmp_disjoint_all (is_lod : N -> bool) (to_upper : N -> N) :
  (forall r, r < 128 -> is_lod r = ascii_alnum r) ->
  forall test rnd,
    glob_match (failFilePatternBase is_lod to_upper test) (failfile_tmp_name rnd) = false /\
    glob_match (failFilePattern is_lod to_upper test) (failFileDir is_lod to_upper test ++ 47 :: failfile_tmp_name rnd) = false.
Proof. intros H test rnd. split; [apply tmp_disjoint_base|apply tmp_disjoint_path]; exact H. Qed.

(* the literal shapes named in the property text *)
Lemma tmp_disjoint_literal (s d : list N) :
  Forall (fun r => r <> 42 /\ r <> 46) s ->
  glob_match (s ++ bytes_of_string "-*.fail"%string) (bytes_of_string ".rapid-failfile-tmp-"%string ++ d) = false.
Proof.
  intros HF. destruct s as [|a s]; [reflexivity|]. inversion HF as [|? ? Ha _]; subst.
  change (bytes_of_string ".rapid-failfile-tmp-"%string ++ d) with (46 :: (bytes_of_string "rapid-failfile-tmp-"%string ++ d)).
  cbn [app]. rewrite glob_lit by tauto. destruct (N.eqb_spec 46 a) as [E|E]; [exfalso; symmetry in E; tauto|reflexivity].
Qed.

Lemma shapes_are_literal (is_lod : N -> bool) (to_upper : N -> N) (test rnd : list N) :
  failFilePatternBase is_lod to_upper test = kindaSafeFilename is_lod to_upper test ++ bytes_of_string "-*.fail"%string /\
  failfile_tmp_name rnd = bytes_of_string ".rapid-failfile-tmp-"%string ++ rnd ++ [].
Proof. split; reflexivity. Qed.
