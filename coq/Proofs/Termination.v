(* "Never loops forever on a finite bitstream".

   Every unbounded loop of rapid is modelled by recursion on explicit fuel [LF]; exhausting it is the
   model artefact [XFuel].  This file proves that on a buffer source ([SBuf l], as used by minimization,
   fail files and fuzzing) whose length is below [LF], the rejection loops (biased_loop, unbiased_loop),
   the repeat loop (rep_loop), find and executeAction never end a run with [XFuel]: every iteration
   consumes a word of the buffer (the coin of more() is drawn even for a forced stop) or ends with a
   different error; find_loop and exec_action are bounded by their tries.

   The unrestricted statement "res (run_g g s) <> Err XFuel for every g" is FALSE for the model, for a
   reason that has nothing to do with the bitstream (see [full_statement_false], [level_exhausted] at
   the end): [cleanup_loop] pops the cleanup stack with the same fuel [LF], so LF registered cleanups
   exhaust it, and [exec 0] (cleanup nesting level exhausted) is [XFuel] by definition.  Proved:

     fuel_only_by_cleanups   run_g / run_p, every g / p, every runner that has the property itself:
                             XFuel on a buffer shorter than LF  ->  LF <= number of URun events
     no_fuel_on_buffer(_p)   run_g / run_p, g / p registering no cleanup ([cleanup_free_g/p]), ANY runner:
                             res <> Err XFuel   ([no_fuel_on_buffer_strong]: and the buffer only shrinks)
     fuel_exec, fuel_checkOnce(_reg)
                             exec (S lvl) / checkOnce lvl, p of cleanup nesting depth <= lvl ([depth_le]):
                             XFuel  ->  LF <= number of URun (resp. UReg) events
     no_fuel_exec, no_fuel_checkOnce, no_fuel_checkFuzz
                             cleanup-free p, every lvl: never XFuel / never FFuel.

   Method: [NFb] is a Hoare-style judgement "on a buffer shorter than LF: XFuel only with LF cleanups
   started, the buffer only shrinks, the cleanup stack of the current T changes as R allows", closed under
   the monad operations; the loops are handled by induction on the fuel with the buffer length as the
   measure ([STR]: a successful iteration consumed a word); the interpreter by the mutual induction
   of Inv.v; the stored cleanup functions by an invariant of the cleanup stacks ([SI], every stored
   function satisfies Q) and, in the engine, by induction on the nesting level ([Qn]). *)
From Coq Require Import Lia.
Require Import Rapid.Model.Base Rapid.Model.Syntax Rapid.Model.Monad Rapid.Model.Prim Rapid.Model.Interp Rapid.Model.Engine.
Require Import Rapid.Generated.Consts Rapid.Proofs.Inv Rapid.Proofs.Closure.
Local Open Scope nat_scope.
Arguments Nat.ltb : simpl never.
Arguments Nat.leb : simpl never.
Arguments N.leb : simpl never.
Arguments N.ltb : simpl never.
Arguments N.eqb : simpl never.
Arguments mask : simpl never.
Arguments internal_msg : simpl never.

(* number of cleanup functions started, as logged *)
Fixpoint nrun (t : list uev) : nat :=
  match t with
  | [] => 0
  | URun _ :: r => S (nrun r)
  | _ :: r => nrun r
  end.
Lemma nrun_app a b : nrun (a ++ b) = nrun a + nrun b.
Proof. induction a as [|x a IH]; cbn [app nrun]; [reflexivity|]. destruct x; rewrite IH; reflexivity. Qed.
Lemma tr_wapp a b : tr (wapp a b) = tr a ++ tr b.
Proof. reflexivity. Qed.
Lemma tr_wkeep a : tr (wkeep a) = tr a.
Proof. unfold wkeep. destruct (rpd a); reflexivity. Qed.
Lemma tr_wdiscard a : tr (wdiscard a) = tr a.
Proof. reflexivity. Qed.
Ltac trs := rewrite ?tr_wapp, ?nrun_app, ?tr_wkeep, ?tr_wdiscard; cbn [tr wgev wuev wev wnil wword nrun app].

Lemma bind_ok A B (m : M A) (f : A -> M B) s y :
  res (bind m f s) = Ok y -> exists a, res (m s) = Ok a /\ res (f a (post (m s))) = Ok y.
Proof.
  unfold bind. destruct (res (m s)) as [a|e]; cbn [res]; [|discriminate]. intros H. exists a. auto.
Qed.

(* how a computation may change the bookkeeping of the current T: anything that keeps the cleanup stack
   is allowed, and the relation composes *)
Class RelOK (Pre : tstate -> Prop) (R : tstate -> tstate -> Prop) : Prop := {
  R_same : forall t t', cleanups t' = cleanups t -> R t t';
  R_trans : forall a b c, R a b -> R b c -> R a c;
  R_pre : forall t t', Pre t -> R t t' -> Pre t' }.

Section NoFuel.
  Variable LF : nat.
  (* the cleanup functions that may sit on a cleanup stack *)
  Variable Q : prog -> Prop.
  Definition Qne : Prop := exists c, Q c.
  Definition SI (t : tstate) : Prop := Forall (fun ic : nat * prog => Q (snd ic)) (cleanups t).

  (* every cleanup function that g / p can register (on whatever T) satisfies Q *)
  Fixpoint Wg (g : gexp) : Prop :=
    match g with
    | GBool | GUint _ _ | GInt _ _ | GSampled _ | GPerm _ => True
    | GOneOf _ gs => forall i, Wg (gs i)
    | GPtr _ e | GSlice _ _ _ _ e | GMapV _ _ _ _ e | GFilter e _ | GMapFn e _ | GDeferred e => Wg e
    | GMap _ _ _ ek ev => Wg ek /\ Wg ev
    | GCustom body => Wp body
    end
  with Wp (p : prog) : Prop :=
    match p with
    | PRet _ | PSkip _ => True
    | PDraw g k => Wg g /\ forall v, Wp (k v)
    | PFail kind _ _ k => match kind with KError => Wp k | _ => True end
    | PCleanup _ f k => Q f /\ Wp k
    | PContext k | PFailed k => forall b, Wp (k b)
    | PLog _ k => Wp k
    | PRepeat _ _ _ _ check _ act k => (forall s, Wp (check s)) /\ (forall i s, Wp (act i s)) /\ (forall s, Wp (k s))
    end.

  Section Rel.
    Variable Pre : tstate -> Prop.
    Variable R : tstate -> tstate -> Prop.
    Context {HR : RelOK Pre R}.

    Definition nf_at {A} (b : bool) (s : st) (l : list word) (o : out A) : Prop :=
      (b = true -> res o = Err XFuel -> Qne /\ LF <= nrun (tr (w o))) /\
      (exists l', src (post o) = SBuf l' /\ length l' <= length l) /\
      R (ts s) (ts (post o)).
    Definition NFb {A} (b : bool) (m : M A) : Prop :=
      forall s l, src s = SBuf l -> length l < LF -> Pre (ts s) -> nf_at b s l (m s).
    (* a successful run consumed at least one word *)
    Definition STR {A} (m : M A) : Prop :=
      forall s l a, src s = SBuf l -> length l < LF -> Pre (ts s) -> res (m s) = Ok a ->
      exists l', src (post (m s)) = SBuf l' /\ length l' < length l.

    Lemma NF_false A b (m : M A) : NFb b m -> NFb false m.
    Proof.
      intros H s l Hs Hl Hp. destruct (H s l Hs Hl Hp) as (_ & Mn & Rr). split; [discriminate|auto].
    Qed.

    Lemma NF_state A b (m : M A) :
      (forall s, res (m s) <> Err XFuel /\ src (post (m s)) = src s /\ cleanups (ts (post (m s))) = cleanups (ts s)) ->
      NFb b m.
    Proof.
      intros H s l Hs Hl Hp. destruct (H s) as (H1 & H2 & H3). split; [|split].
      - intros _ E. contradiction.
      - exists l. rewrite H2. auto.
      - apply R_same. exact H3.
    Qed.

    Lemma NF_ret A b (a : A) : NFb b (ret a).
    Proof. apply NF_state. intros s. cbn. repeat split; discriminate. Qed.
    Lemma NF_throw A b e : (b = true -> e <> XFuel) -> NFb b (@throw A e).
    Proof.
      intros He s l Hs Hl Hp. split; [|split].
      - intros Hb E. cbn in E. injection E as E. destruct (He Hb E).
      - exists l. cbn. auto.
      - apply R_same. reflexivity.
    Qed.
    Lemma NF_emit_g b e : NFb b (emit_g e).
    Proof. apply NF_state. intros s. cbn. repeat split; discriminate. Qed.
    Lemma NF_emit_u b e : NFb b (emit_u e).
    Proof. apply NF_state. intros s. cbn. repeat split; discriminate. Qed.
    Lemma NF_get_ts b : NFb b get_ts.
    Proof. apply NF_state. intros s. cbn. repeat split; discriminate. Qed.
    Lemma NF_mark_dirty b : NFb b mark_dirty.
    Proof. apply NF_state. intros s. cbn. repeat split; discriminate. Qed.
    Lemma NF_note_draw b v : NFb b (note_draw v).
    Proof. apply NF_state. intros s. cbn. repeat split; discriminate. Qed.
    Lemma NF_signal b k m id : NFb b (signal k m id).
    Proof. apply NF_state. intros s. unfold signal. destruct k; cbn; repeat split; discriminate. Qed.
    Lemma NF_context_call b : NFb b context_call.
    Proof.
      apply NF_state. intros s. unfold context_call.
      destruct (ctx (ts s)); [|destruct (cleaning (ts s))]; cbn; repeat split; discriminate.
    Qed.
    Lemma NF_failOnError b loc : NFb b (failOnError loc).
    Proof.
      apply NF_state. intros s. unfold failOnError. destruct (failed (ts s)); cbn; repeat split; discriminate.
    Qed.

    Lemma NF_drawBits b n : NFb b (drawBits n).
    Proof.
      intros s l Hs Hl Hp. unfold drawBits. rewrite Hs. destruct l as [|x l']; (split; [|split]).
      - discriminate.
      - exists []. cbn. auto.
      - apply R_same. reflexivity.
      - discriminate.
      - exists l'. cbn. auto.
      - apply R_same. reflexivity.
    Qed.
    Lemma STR_drawBits n : STR (drawBits n).
    Proof.
      intros s l a Hs Hl Hp. unfold drawBits. rewrite Hs. destruct l as [|x l']; cbn; [discriminate|].
      intros _. exists l'. auto.
    Qed.

    Lemma nf_at_bind A B b (m : M A) (f : A -> M B) s l :
      Pre (ts s) ->
      nf_at b s l (m s) ->
      (forall a l1, res (m s) = Ok a -> src (post (m s)) = SBuf l1 -> length l1 <= length l -> Pre (ts (post (m s))) ->
                    nf_at b (post (m s)) l1 (f a (post (m s)))) ->
      nf_at b s l (bind m f s).
    Proof.
      intros Hp (F & (l1 & S1 & L1) & Rr) Hf. unfold bind.
      assert (Hp1 : Pre (ts (post (m s)))) by (eapply R_pre; eassumption).
      destruct (res (m s)) as [a|e] eqn:E.
      - destruct (Hf a l1 eq_refl S1 L1 Hp1) as (F2 & (l2 & S2 & L2) & R2). split; [|split]; cbn [res post w].
        + intros Hb E2. destruct (F2 Hb E2) as [q Hn]. split; [exact q|]. trs. lia.
        + exists l2. split; [exact S2|lia].
        + eapply R_trans; eassumption.
      - split; [|split]; cbn [res post w].
        + intros Hb E2. apply F; [exact Hb|]. injection E2 as ->. reflexivity.
        + exists l1. auto.
        + exact Rr.
    Qed.
    Lemma NF_bind A B b (m : M A) (f : A -> M B) : NFb b m -> (forall a, NFb b (f a)) -> NFb b (bind m f).
    Proof.
      intros Hm Hf s l Hs Hl Hp. apply nf_at_bind; [exact Hp|apply Hm; assumption|].
      intros a l1 _ S1 L1 Hp1. apply Hf; [exact S1|lia|exact Hp1].
    Qed.
    Lemma NF_bind_val A B b (m : M A) (f : A -> M B) (P : A -> Prop) :
      NFb b m -> (forall s a, res (m s) = Ok a -> P a) -> (forall a, P a -> NFb b (f a)) -> NFb b (bind m f).
    Proof.
      intros Hm HP Hf s l Hs Hl Hp. apply nf_at_bind; [exact Hp|apply Hm; assumption|].
      intros a l1 E S1 L1 Hp1. apply Hf; [exact (HP s a E)|exact S1|lia|exact Hp1].
    Qed.
    Lemma STR_bind A B b (m : M A) (f : A -> M B) : STR m -> NFb b m -> (forall a, NFb b (f a)) -> STR (bind m f).
    Proof.
      intros Hm Hn Hf s l y Hs Hl Hp. unfold bind. destruct (res (m s)) as [a|e] eqn:E; cbn [res post]; [|discriminate].
      intros _. destruct (Hm s l a Hs Hl Hp E) as (l1 & S1 & L1).
      assert (Hp1 : Pre (ts (post (m s)))).
      { destruct (Hn s l Hs Hl Hp) as (_ & _ & Rr). eapply R_pre; eassumption. }
      destruct (Hf a (post (m s)) l1 S1) as (_ & (l2 & S2 & L2) & _); [lia|exact Hp1|].
      exists l2. split; [exact S2|lia].
    Qed.

    Lemma NF_group_d A b sa (m : M (A * bool)) : NFb b m -> NFb b (group_d sa m).
    Proof.
      intros H s l Hs Hl Hp. destruct (H s l Hs Hl Hp) as (F & Mn & Rr). unfold group_d.
      destruct (res (m s)) as [[a d]|e] eqn:E; [destruct d; [|destruct (rd (w (m s))) as [|x0 l0]]|];
        (split; [|split]); cbn [res post w]; auto; try discriminate.
      intros Hb E2. injection E2 as ->. destruct (F Hb eq_refl) as [q Hn]. split; [exact q|]. trs. lia.
    Qed.
    Lemma STR_group_d A sa (m : M (A * bool)) : STR m -> STR (group_d sa m).
    Proof.
      intros H s l y Hs Hl Hp. unfold group_d.
      destruct (res (m s)) as [[a d]|e] eqn:E; [destruct d; [|destruct (rd (w (m s))) as [|x0 l0]]|];
        cbn [res post]; try discriminate; intros _; exact (H s l _ Hs Hl Hp E).
    Qed.
    Lemma NF_group A b sa (m : M A) : NFb b m -> NFb b (group sa m).
    Proof. intros H. unfold group. apply NF_group_d. apply NF_bind; [exact H|intros; apply NF_ret]. Qed.
    Lemma STR_group A b sa (m : M A) : STR m -> NFb b m -> STR (group sa m).
    Proof.
      intros H Hn. unfold group. apply STR_group_d. apply (STR_bind _ _ b); [exact H|exact Hn|intros; apply NF_ret].
    Qed.

    (* catching: the handler of an XFuel result only has to behave *)
    Lemma NF_try A B b (m : M A) (h : result A -> M B) :
      NFb b m -> (forall r, r <> Err XFuel -> NFb b (h r)) -> NFb false (h (Err XFuel)) -> NFb b (try_ m h).
    Proof.
      intros Hm Hh Hx s l Hs Hl Hp. destruct (Hm s l Hs Hl Hp) as (F & (l1 & S1 & L1) & Rr). unfold try_.
      assert (Hp1 : Pre (ts (post (m s)))) by (eapply R_pre; eassumption).
      assert (Hl1 : length l1 < LF) by lia.
      assert (Hd : {res (m s) = Err XFuel} + {res (m s) <> Err XFuel}).
      { destruct (res (m s)) as [a|[]]; (left; reflexivity) || (right; discriminate). }
      destruct Hd as [E|E].
      - rewrite E. destruct (Hx (post (m s)) l1 S1 Hl1 Hp1) as (_ & (l2 & S2 & L2) & R2).
        split; [|split]; cbn [res post w].
        + intros Hb _. destruct (F Hb E) as [q Hn]. split; [exact q|]. trs. lia.
        + exists l2. split; [exact S2|lia].
        + eapply R_trans; eassumption.
      - destruct (Hh _ E (post (m s)) l1 S1 Hl1 Hp1) as (F2 & (l2 & S2 & L2) & R2).
        split; [|split]; cbn [res post w].
        + intros Hb E2. destruct (F2 Hb E2) as [q Hn]. split; [exact q|]. trs. lia.
        + exists l2. split; [exact S2|lia].
        + eapply R_trans; eassumption.
    Qed.
    Lemma NF_try_w A B b (m : M A) (h : result A -> wr -> M B) :
      NFb b m -> (forall r x, r <> Err XFuel -> NFb b (h r x)) -> (forall x, NFb false (h (Err XFuel) x)) -> NFb b (try_w m h).
    Proof.
      intros Hm Hh Hx s l Hs Hl Hp. destruct (Hm s l Hs Hl Hp) as (F & (l1 & S1 & L1) & Rr). unfold try_w.
      assert (Hp1 : Pre (ts (post (m s)))) by (eapply R_pre; eassumption).
      assert (Hl1 : length l1 < LF) by lia.
      assert (Hd : {res (m s) = Err XFuel} + {res (m s) <> Err XFuel}).
      { destruct (res (m s)) as [a|[]]; (left; reflexivity) || (right; discriminate). }
      destruct Hd as [E|E].
      - rewrite E. destruct (Hx (w (m s)) (post (m s)) l1 S1 Hl1 Hp1) as (_ & (l2 & S2 & L2) & R2).
        split; [|split]; cbn [res post w].
        + intros Hb _. destruct (F Hb E) as [q Hn]. split; [exact q|]. trs. lia.
        + exists l2. split; [exact S2|lia].
        + eapply R_trans; eassumption.
      - destruct (Hh _ (w (m s)) E (post (m s)) l1 S1 Hl1 Hp1) as (F2 & (l2 & S2 & L2) & R2).
        split; [|split]; cbn [res post w].
        + intros Hb E2. destruct (F2 Hb E2) as [q Hn]. split; [exact q|]. trs. lia.
        + exists l2. split; [exact S2|lia].
        + eapply R_trans; eassumption.
    Qed.

    Ltac nf :=
      repeat first
        [ apply NF_ret | apply NF_emit_g | apply NF_emit_u | apply NF_get_ts | apply NF_mark_dirty | apply NF_note_draw
        | apply NF_signal | apply NF_context_call | apply NF_failOnError | apply NF_drawBits
        | apply NF_throw; solve [intro; discriminate | intro; congruence]
        | apply NF_group | apply NF_group_d
        | apply NF_bind; [|intros]
        | assumption
        | match goal with H : forall a, NFb _ (_ a) |- _ => apply H end ].

    Section PrimNF.
      Variable geom : nat -> N -> N.

      Lemma NF_coin b K : NFb b (coin K).
      Proof. unfold coin. nf. Qed.
      Lemma STR_coin K : STR (coin K).
      Proof.
        unfold coin. apply (STR_bind _ _ false); [apply (STR_group _ false); [apply STR_drawBits|nf]|nf|intros; apply NF_ret].
      Qed.

      Lemma nf_unbiased_loop b : forall fuel bitlen max s l,
        src s = SBuf l -> length l < fuel -> length l < LF -> Pre (ts s) -> nf_at b s l (unbiased_loop fuel bitlen max s).
      Proof.
        induction fuel as [|f IH]; intros bitlen max s l Hs Hf Hl Hp; [lia|]. cbn [unbiased_loop].
        set (m := group_d false (u <- drawBits bitlen ;; ret (u, negb (N.leb u max)))).
        assert (Hm : NFb b m) by (unfold m; nf).
        assert (Sm : STR m) by (apply STR_group_d, (STR_bind _ _ false); [apply STR_drawBits|nf|intros; apply NF_ret]).
        apply nf_at_bind; [exact Hp|apply Hm; assumption|].
        intros u l1 E S1 L1 Hp1. destruct (Sm s l u Hs Hl Hp E) as (l1' & S1' & L1'). rewrite S1 in S1'. injection S1' as <-.
        destruct (negb _).
        - apply IH; [exact S1|lia|lia|exact Hp1].
        - apply NF_ret; [exact S1|lia|exact Hp1].
      Qed.
      Lemma nf_biased_loop b : forall fuel bl max n s l,
        src s = SBuf l -> length l < fuel -> length l < LF -> Pre (ts s) -> nf_at b s l (biased_loop fuel bl max n s).
      Proof.
        induction fuel as [|f IH]; intros bl max n s l Hs Hf Hl Hp; [lia|]. cbn [biased_loop].
        set (m := group_d false (u <- drawBits bl ;; ret (u, negb (Nat.ltb 64 bl || N.leb u max)))).
        assert (Hm : NFb b m) by (unfold m; nf).
        assert (Sm : STR m) by (apply STR_group_d, (STR_bind _ _ false); [apply STR_drawBits|nf|intros; apply NF_ret]).
        apply nf_at_bind; [exact Hp|apply Hm; assumption|].
        intros u l1 E S1 L1 Hp1. destruct (Sm s l u Hs Hl Hp E) as (l1' & S1' & L1'). rewrite S1 in S1'. injection S1' as <-.
        destruct (negb _).
        - apply IH; [exact S1|lia|lia|exact Hp1].
        - unfold biased_fin. apply NF_ret; [exact S1|lia|exact Hp1].
      Qed.
      Lemma NF_genUintN b max bias : NFb b (genUintN geom LF max bias).
      Proof.
        unfold genUintN, genUintNBiased. destruct bias.
        - apply NF_bind; [nf|]. intros k. cbv zeta. intros s l Hs Hl Hp. apply nf_biased_loop; assumption.
        - apply NF_bind; [|intros; nf]. intros s l Hs Hl Hp. apply nf_unbiased_loop; assumption.
      Qed.
      Lemma NF_genUintRange b mn mx bias : NFb b (genUintRange geom LF mn mx bias).
      Proof.
        unfold genUintRange, assert_fail. destruct (N.ltb mx mn); nf.
        - apply NF_genUintN.
        - destruct a as [[u l] r]. nf.
      Qed.
      Lemma NF_genIntRange b mn mx : NFb b (genIntRange geom LF mn mx).
      Proof.
        unfold genIntRange, assert_fail. destruct (Z.ltb mx mn); nf.
        destruct (Z.leb 0 mn); [|destruct (Z.leb mx 0)];
          (apply NF_bind; [apply NF_coin|intros neg]; destruct neg;
           (apply NF_bind; [apply NF_genUintRange|intros [[u l] r]; nf])).
      Qed.
      Lemma NF_genIndex b n bias : NFb b (genIndex geom LF n bias).
      Proof. unfold genIndex, assert_fail. destruct n; nf. apply NF_genUintN. Qed.

      (* ---- the repeat loop: the coin of more() always costs a word ---- *)
      Lemma NF_rep_coin b minc maxc K count force : NFb b (rep_coin minc maxc K count force).
      Proof.
        unfold rep_coin. destruct (N.ltb _ _); [apply NF_coin|]. destruct force; [nf|].
        destruct (N.leb _ _); apply NF_coin.
      Qed.
      Lemma STR_rep_coin minc maxc K count force : STR (rep_coin minc maxc K count force).
      Proof.
        unfold rep_coin. destruct (N.ltb _ _); [apply STR_coin|]. destruct force.
        - apply (STR_bind _ _ false); [apply (STR_group _ false); [apply STR_drawBits|nf]|nf|intros; apply NF_ret].
        - destruct (N.leb _ _); apply STR_coin.
      Qed.
      Lemma NF_rep_tail A b minc K (body : A -> M (option A)) count rej force acc cont :
        (forall a, NFb b (body a)) -> NFb b (rep_tail minc K body count rej force acc cont).
      Proof.
        intros Hb. unfold rep_tail, rep_reject. destruct cont; nf. destruct a; nf.
        destruct (Nat.ltb _ _); nf. destruct (N.leb _ _); nf. destruct (N.eqb _ _); nf.
      Qed.
      Lemma NF_rep_iter A b minc maxc K (body : A -> M (option A)) count rej force acc :
        (forall a, NFb b (body a)) -> NFb b (rep_iter minc maxc K body count rej force acc).
      Proof.
        intros Hb. unfold rep_iter. apply NF_group_d. apply NF_bind; [apply NF_rep_coin|].
        intros cont. apply NF_rep_tail. exact Hb.
      Qed.
      Lemma STR_rep_iter A b minc maxc K (body : A -> M (option A)) count rej force acc :
        (forall a, NFb b (body a)) -> STR (rep_iter minc maxc K body count rej force acc).
      Proof.
        intros Hb. unfold rep_iter. apply STR_group_d. apply (STR_bind _ _ b); [apply STR_rep_coin|apply NF_rep_coin|].
        intros cont. apply NF_rep_tail. exact Hb.
      Qed.
      Lemma nf_rep_loop A b minc maxc K (body : A -> M (option A)) :
        (forall a, NFb b (body a)) ->
        forall fuel count rej force acc s l,
        src s = SBuf l -> length l < fuel -> length l < LF -> Pre (ts s) ->
        nf_at b s l (rep_loop fuel minc maxc K body count rej force acc s).
      Proof.
        intros Hb. induction fuel as [|f IH]; intros count rej force acc s l Hs Hf Hl Hp; [lia|]. cbn [rep_loop].
        apply nf_at_bind; [exact Hp|apply NF_rep_iter; assumption|].
        intros r l1 E S1 L1 Hp1.
        destruct (STR_rep_iter A b minc maxc K body count rej force acc Hb s l r Hs Hl Hp E) as (l1' & S1' & L1').
        rewrite S1 in S1'. injection S1' as <-.
        destruct r as [|acc'|force'].
        - apply NF_ret; [exact S1|lia|exact Hp1].
        - apply IH; [exact S1|lia|lia|exact Hp1].
        - apply IH; [exact S1|lia|lia|exact Hp1].
      Qed.
      Lemma NF_rep_loop A b minc maxc K (body : A -> M (option A)) count rej force acc :
        (forall a, NFb b (body a)) -> NFb b (rep_loop LF minc maxc K body count rej force acc).
      Proof. intros Hb s l Hs Hl Hp. apply nf_rep_loop; assumption. Qed.

      Lemma NF_find_loop A b (att : M (option A)) : NFb b att -> forall tries, NFb b (find_loop att tries).
      Proof.
        intros Ha. induction tries as [|t IH]; cbn [find_loop]; [nf|].
        apply NF_bind; [nf|]. intros r; destruct r; [nf|exact IH].
      Qed.

      (* ---- state machines ---- *)
      Lemma NF_run_action b id (run_act : nat -> val -> M val) i s :
        (forall i s, NFb b (run_act i s)) -> NFb b (run_action id run_act i s).
      Proof.
        intros Ha. unfold run_action. apply NF_try_w.
        - apply NF_try_w; [apply Ha| |].
          + intros r wa Hr. apply NF_bind; [nf|intros _]. destruct r; nf.
          + intros wa. nf.
        - intros r wa Hr. destruct r as [v|e]; [nf|]. destruct e; nf.
          destruct (failed a); nf. destruct (rd wa); nf; destruct (internal_msg m); nf.
        - intros wa. nf.
      Qed.
      Lemma NF_exec_action b id nacts (run_act : nat -> val -> M val) :
        (forall i s, NFb b (run_act i s)) -> forall tries s, NFb b (exec_action geom LF id nacts run_act tries s).
      Proof.
        intros Ha. induction tries as [|t IH]; intros s; cbn [exec_action]; [nf|].
        apply NF_bind.
        - apply NF_group. apply NF_bind; [apply NF_group, NF_genIndex|intros i].
          apply NF_bind; [nf|intros _]. apply NF_run_action. exact Ha.
        - intros r. destruct r; nf; apply IH.
      Qed.
      Lemma NF_run_repeat b id K nacts (chk : val -> M unit) (run_act : nat -> val -> M val) s0 :
        (forall s, NFb b (chk s)) -> (forall i s, NFb b (run_act i s)) -> NFb b (run_repeat geom LF id K nacts chk run_act s0).
      Proof.
        intros Hc Ha. unfold run_repeat. apply NF_bind; [apply Hc|intros _].
        apply NF_bind; [nf|intros _].
        apply NF_rep_loop. intros s. unfold repeat_step.
        apply NF_bind; [apply NF_exec_action; exact Ha|intros r].
        destruct r; [|nf]. apply NF_bind; [apply Hc|intros _]. nf.
      Qed.
    End PrimNF.
  End Rel.

  (* outside the section of the relation its side conditions are found by instance search *)
  Ltac tc := try (match goal with |- RelOK _ _ => typeclasses eauto end).
  Tactic Notation "ap" uconstr(L) := (apply L; tc).
  Ltac nf :=
    repeat first
      [ ap NF_ret | ap NF_emit_g | ap NF_emit_u | ap NF_get_ts | ap NF_mark_dirty | ap NF_note_draw
      | ap NF_signal | ap NF_context_call | ap NF_failOnError | ap NF_drawBits
      | ap NF_throw; solve [intro; discriminate | intro; congruence]
      | ap NF_group | ap NF_group_d
      | ap NF_bind; [|intros]
      | assumption
      | match goal with H : forall a, NFb _ _ _ (_ a) |- _ => apply H end ].

  Lemma NF_weaken (Pre Pre' : tstate -> Prop) (R R' : tstate -> tstate -> Prop) A b (m : M A) :
    (forall t, Pre' t -> Pre t) -> (forall t t', R t t' -> R' t t') -> NFb Pre R b m -> NFb Pre' R' b m.
  Proof.
    intros HP HR H s l Hs Hl Hp. destruct (H s l Hs Hl (HP _ Hp)) as (F & Mn & Rr).
    split; [exact F|split; [exact Mn|auto]].
  Qed.

  (* ---- T.cleanup: what matters of the bookkeeping is that every stored function satisfies Q ---- *)
  Definition R2 (t t' : tstate) : Prop := SI t -> SI t'.
  #[global] Instance R2_ok : RelOK SI R2.
  Proof.
    split.
    - intros t t' E. unfold R2, SI. rewrite E. auto.
    - intros a b c H1 H2 H. auto.
    - intros t t' H1 H2. auto.
  Qed.

  Section Cleanup.
    Variable crun : prog -> M val.
    Hypothesis Hcrun : forall c, Q c -> NFb SI R2 true (crun c).

    Lemma pop_spec s :
      pop_cleanup s = mkOut (Ok None) s wnil \/
      exists id c rest, cleanups (ts s) = (id, c) :: rest /\
        pop_cleanup s = mkOut (Ok (Some c)) (with_ts s (mkT (failed (ts s)) rest (ctx (ts s)) true (skipreq (ts s)) (ood (ts s)))) (wev [URun id] false false).
    Proof.
      unfold pop_cleanup. destruct (cleanups (ts s)) as [|[id c] rest]; [left; reflexivity|].
      destruct (cleaning (ts s)); [right; eauto|left; reflexivity].
    Qed.

    Definition cl_at {A} (k : nat) (l : list word) (o : out A) : Prop :=
      (res o = Err XFuel -> (0 < k -> Qne) /\ (LF <= nrun (tr (w o)) \/ k <= nrun (tr (w o)))) /\
      (exists l', src (post o) = SBuf l' /\ length l' <= length l) /\ SI (ts (post o)).

    (* the steps between two cleanup functions (mark_dirty, note_skip, note_ood): they succeed, log nothing, and keep the
       source and the cleanup stack *)
    Definition same_sc (s2 s1 : st) : Prop := src s2 = src s1 /\ cleanups (ts s2) = cleanups (ts s1).
    Definition quiet (pre : M unit) : Prop :=
      forall st, res (pre st) = Ok tt /\ tr (w (pre st)) = [] /\ same_sc (post (pre st)) st.
    Lemma quiet_ret : quiet (ret tt).
    Proof. intros st. repeat split. Qed.
    Lemma quiet_mark_dirty : quiet mark_dirty.
    Proof. intros st. repeat split. Qed.
    Lemma quiet_note_skip m : quiet (note_skip m).
    Proof. intros st. repeat split. Qed.
    Lemma quiet_note_ood m : quiet (note_ood m).
    Proof. intros st. repeat split. Qed.
    Lemma quiet_dirty_if (b : bool) : quiet (if b then mark_dirty else ret tt).
    Proof. destruct b; [apply quiet_mark_dirty|apply quiet_ret]. Qed.

    Lemma cl_pre A k l (pre : M unit) (m : M A) st :
      quiet pre -> cl_at k l (m (post (pre st))) -> cl_at k l (bind pre (fun _ => m) st).
    Proof.
      intros Hq (F & Mn & Si). destruct (Hq st) as (E1 & E2 & _). unfold bind. rewrite E1. cbn [res post w].
      split; [|split]; auto.
      cbn [res] in *. intros E; destruct (F E) as [q Hn]; (split; [exact q|]); cbn [w]; trs; rewrite E2; cbn [nrun Nat.add]; exact Hn.
    Qed.

    Lemma nf_cleanup_loop inner : forall fuel last s l,
      src s = SBuf l -> length l < LF -> SI (ts s) -> cl_at fuel l (cleanup_loop crun inner fuel last s).
    Proof.
      induction fuel as [|f IH]; intros last s l Hs Hl Hsi; cbn [cleanup_loop].
      - unfold throw. split; [|split]; cbn [res post w].
        + intros _. split; [lia|right; cbn; lia].
        + exists l; auto.
        + exact Hsi.
      - unfold bind at 1. destruct (pop_spec s) as [E|(id & c & rest & Ec & E)]; rewrite E; cbn [res post w].
        + unfold ret; cbn [res post w]. split; [discriminate|split]; [exists l; auto|exact Hsi].
        + set (s' := with_ts s _).
          assert (Qc : Q c /\ SI (ts s')).
          { unfold SI in Hsi. rewrite Ec in Hsi. inversion Hsi; subst. split; assumption. }
          destruct Qc as [Qc Hsi'].
          assert (Hs' : src s' = SBuf l) by exact Hs.
          destruct (Hcrun c Qc s' l Hs' Hl Hsi') as (F & (l1 & S1 & L1) & R2r).
          specialize (R2r Hsi').
          assert (Hl1 : length l1 < LF) by lia.
          assert (K : forall last' s2, same_sc s2 (post (crun c s')) -> cl_at f l (cleanup_loop crun inner f last' s2)).
          { intros last' s2 [Es Ecl].
            assert (S1' : src s2 = SBuf l1) by (rewrite Es; exact S1).
            assert (Si' : SI (ts s2)) by (unfold SI; rewrite Ecl; exact R2r).
            destruct (IH last' s2 l1 S1' Hl1 Si') as (F2 & (l2 & S2 & L2) & Si2).
            split; [exact F2|split; [exists l2; split; [exact S2|lia]|exact Si2]]. }
          assert (K0 : forall last', cl_at f l (cleanup_loop crun inner f last' (post (crun c s')))).
          { intros last'. apply K. split; reflexivity. }
          assert (G : forall o2 : out (option exn),
                     (cl_at f l o2 \/
                      (res (crun c s') = Err XFuel /\ post o2 = post (crun c s'))) ->
                     cl_at (S f) l (mkOut (res o2) (post o2)
                                          (wapp (wev [URun id] false false) (wapp (w (crun c s')) (w o2))))).
          { intros o2 [(F2 & Mn2 & Si2)|[Ex Ep]]; (split; [|split]); cbn [res post w].
            - intros E2. destruct (F2 E2) as [_ Hn]. split; [intros _; exists c; exact Qc|]. trs. lia.
            - exact Mn2.
            - exact Si2.
            - intros _. destruct (F eq_refl Ex) as [q Hn]. split; [intros _; exact q|]. trs. lia.
            - rewrite Ep. exists l1. auto.
            - rewrite Ep. exact R2r. }
          unfold try_. cbv zeta.
          destruct (res (crun c s')) as [v|e] eqn:Er; [|destruct e as [m|m st|m st|]]; cbv beta iota zeta; cbn [res post w];
            (lazymatch goal with |- cl_at _ _ (mkOut (res ?o) _ _) => apply (G o) end).
          * left. apply K0.
          * left. destruct (inner && internal_msg m).
            { apply cl_pre; [apply quiet_mark_dirty|]. apply cl_pre; [apply quiet_note_ood|]. apply K.
              destruct (quiet_mark_dirty (post (crun c s'))) as (_ & _ & [A1 A2]).
              destruct (quiet_note_ood m (post (mark_dirty (post (crun c s'))))) as (_ & _ & [B1 B2]).
              split; [rewrite B1; exact A1|rewrite B2; exact A2]. }
            apply cl_pre; [apply quiet_dirty_if|]. apply cl_pre; [apply quiet_note_skip|]. apply K.
            destruct (quiet_dirty_if (internal_msg m) (post (crun c s'))) as (_ & _ & [A1 A2]).
            destruct (quiet_note_skip m (post ((if internal_msg m then mark_dirty else ret tt) (post (crun c s')))))
              as (_ & _ & [B1 B2]).
            split; [rewrite B1; exact A1|rewrite B2; exact A2].
          * left. apply K0.
          * left. apply K0.
          * right. split; reflexivity.
    Qed.

    (* the panic that T.cleanup reports is never the fuel artefact *)
    Lemma pre_res A (pre : M unit) (m : M A) st :
      quiet pre -> res (bind pre (fun _ => m) st) = res (m (post (pre st))).
    Proof. intros Hq. destruct (Hq st) as (E & _). unfold bind. rewrite E. reflexivity. Qed.
    Lemma cleanup_loop_okl inner : forall fuel last s r,
      last <> Some XFuel -> res (cleanup_loop crun inner fuel last s) = Ok r -> r <> Some XFuel.
    Proof.
      induction fuel as [|f IH]; intros last s r Hlast H; cbn [cleanup_loop] in H; [discriminate|].
      unfold bind at 1 in H. destruct (pop_spec s) as [E|(id & c & rest & Ec & E)]; rewrite E in H; cbn [res post w] in H.
      - unfold ret in H. cbn [res] in H. injection H as <-. exact Hlast.
      - unfold try_ in H. cbv zeta in H. cbn [res] in H.
        destruct (res (crun c _)) as [v|[m|m st|m st|]]; cbv beta iota zeta in H.
        + eapply IH; [|exact H]. exact Hlast.
        + destruct (inner && internal_msg m).
          * rewrite pre_res in H by apply quiet_mark_dirty. rewrite pre_res in H by apply quiet_note_ood.
            eapply IH; [|exact H]. exact Hlast.
          * rewrite pre_res in H by apply quiet_dirty_if. rewrite pre_res in H by apply quiet_note_skip.
            eapply IH; [|exact H]. exact Hlast.
        + eapply IH; [|exact H]. discriminate.
        + eapply IH; [|exact H]. discriminate.
        + discriminate.
    Qed.
    Lemma cleanup_okl inner s r : res (cleanup LF crun inner s) = Ok r -> r <> Some XFuel.
    Proof.
      unfold cleanup. intros H.
      apply bind_ok in H. destruct H as [u [_ H]].
      apply bind_ok in H. destruct H as [r' [H1 H]].
      apply bind_ok in H. destruct H as [u' [_ H]].
      unfold ret in H. cbn [res] in H. injection H as <-.
      eapply cleanup_loop_okl; [|exact H1]. discriminate.
    Qed.

    Lemma NF_cleanup_loop inner b last : NFb SI R2 b (cleanup_loop crun inner LF last).
    Proof.
      intros s l Hs Hl Hp. destruct (nf_cleanup_loop inner LF last s l Hs Hl Hp) as (F & Mn & Si).
      split; [|split; [exact Mn|intros _; exact Si]].
      intros _ E. destruct (F E) as [q Hn]. split; [apply q; lia|]. destruct Hn; assumption.
    Qed.
    Lemma NF_begin_cleanup b : NFb SI R2 b begin_cleanup.
    Proof. ap NF_state. intros s. cbn. repeat split; discriminate. Qed.
    Lemma NF_end_cleanup b : NFb SI R2 b end_cleanup.
    Proof. ap NF_state. intros s. cbn. repeat split; discriminate. Qed.
    Lemma NF_cleanup inner b : NFb SI R2 b (cleanup LF crun inner).
    Proof.
      unfold cleanup. ap NF_bind; [apply NF_begin_cleanup|intros _].
      ap NF_bind; [apply NF_cleanup_loop|intros r].
      ap NF_bind; [apply NF_end_cleanup|intros _]. nf.
    Qed.

    Lemma NF_custom_end Pre R {HR : RelOK Pre R} b r : (b = true -> r <> Err XFuel) -> NFb Pre R b (custom_end r).
    Proof.
      intros Hr. unfold custom_end.
      assert (H : NFb Pre R b (_ <- emit_u (UCustomEnd (match r with Ok _ => 0 | Err _ => 1 end)) ;;
                   match r with Ok v => _ <- failOnError SCustomFOE ;; ret v | Err e => throw e end)).
      { ap NF_bind; [nf|intros _]. destruct r as [v|e]; nf.
        ap NF_throw. intros Hb E. apply (Hr Hb). rewrite E. reflexivity. }
      destruct r as [v|[]]; first [exact H | ap NF_throw; intros Hb; destruct (Hr Hb eq_refl)].
    Qed.
    Lemma NF_custom_handler b r : (b = true -> r <> Err XFuel) -> NFb SI R2 b (custom_handler LF crun r).
    Proof.
      intros Hr. unfold custom_handler.
      assert (H : NFb SI R2 b (
                   c <- cleanup LF crun true ;;
                   t0 <- get_ts ;;
                   match c, r with
                   | None, Ok v =>
                       match ood t0 with
                       | Some m => match failed t0 with Some _ => throw (XInvalid m) | None => ret None end
                       | None => ret (Some v)
                       end
                   | Some e, Err (XInvalid m) => _ <- (if internal_msg m then mark_dirty else ret tt) ;; throw e
                   | Some e, _ => throw e
                   | None, Err (XInvalid m) => match failed t0 with Some _ => throw (XInvalid m) | None => ret None end
                   | None, Err e => throw e
                   end)).
      { apply (NF_bind_val _ _ _ _ _ _ _ (fun c => c <> Some XFuel)); [apply NF_cleanup|intros s c; apply cleanup_okl|intros c Hc].
        ap NF_bind; [nf|intros t0].
        assert (Hth : forall e, c = Some e -> NFb SI R2 b (@throw (option val) e)).
        { intros e ->. ap NF_throw. intros _ ->. apply Hc. reflexivity. }
        assert (Hr' : forall e, r = Err e -> NFb SI R2 b (@throw (option val) e)).
        { intros e ->. ap NF_throw. intros Hb ->. apply (Hr Hb). reflexivity. }
        destruct c as [e|]; destruct r as [v|e']; auto.
        - destruct e'; auto. ap NF_bind; [destruct (internal_msg m); nf|intros _; auto].
        - destruct (ood t0); [destruct (failed t0)|]; nf.
        - destruct e'; auto. destruct (failed t0); auto. nf. }
      destruct r as [v|[]]; first [exact H | ap NF_throw; intros Hb; destruct (Hr Hb eq_refl)].
    Qed.
    Lemma NF_custom_inner b (body : M val) : NFb SI R2 b body -> NFb SI R2 b (custom_inner LF crun body).
    Proof.
      intros Hb. unfold custom_inner. ap NF_bind; [nf|intros _].
      ap NF_try.
      - ap NF_try; [exact Hb| |].
        + intros r Hr. ap NF_custom_end. intros _. exact Hr.
        + ap NF_custom_end. discriminate.
      - intros r Hr. apply NF_custom_handler. intros _. exact Hr.
      - apply NF_custom_handler. discriminate.
    Qed.

    Section InterpNF.
      Variable geom : nat -> N -> N.
      Variable Pre : tstate -> Prop.
      Variable R : tstate -> tstate -> Prop.
      Context {HR : RelOK Pre R}.
      Hypothesis R_reg : forall t id f, Q f -> R t (mkT (failed t) ((id, f) :: cleanups t) (ctx t) (cleaning t) (skipreq t) (ood t)).
      Hypothesis R_SI : forall t t', R t t' -> SI t -> SI t'.
      Hypothesis Pre_SI : forall t, SI t -> Pre t.

      Lemma NF_register b id f : Q f -> NFb Pre R b (register id f).
      Proof.
        intros Qf s l Hs Hl Hp. unfold register. split; [|split]; cbn [res post w with_ts ts src].
        - discriminate.
        - exists l. auto.
        - apply R_reg. exact Qf.
      Qed.
      (* Custom: the inner T starts with an empty cleanup stack and is dropped afterwards *)
      Lemma NF_fresh A b (m : M A) : NFb SI R2 b m -> NFb Pre R b (with_fresh_T m).
      Proof.
        intros H s l Hs Hl Hp. unfold with_fresh_T.
        assert (Hf : SI (ts (with_ts s fresh_t))) by constructor.
        destruct (H (with_ts s fresh_t) l Hs Hl Hf) as (F & Mn & _).
        split; [|split]; cbn [res post w with_ts ts src].
        - intros Hb E. destruct (F Hb E) as [q Hn]. split; [exact q|].
          cbn [tr nrun]. rewrite nrun_app. cbn [nrun]. lia.
        - exact Mn.
        - apply R_same. reflexivity.
      Qed.
      Lemma NF_custom_att b (body : M val) : NFb Pre R b body -> NFb Pre R b (custom_att LF crun body).
      Proof.
        intros Hb. unfold custom_att. apply NF_fresh. apply NF_custom_inner.
        eapply NF_weaken; [| |exact Hb]; [exact Pre_SI|exact R_SI].
      Qed.

      Theorem NF_interp :
        (forall g, Wg g -> NFb Pre R true (run_g geom LF crun g)) /\
        (forall p, Wp p -> NFb Pre R true (run_p geom LF crun p)).
      Proof.
        apply gexp_prog_ind; cbn [Wg Wp run_g run_p]; unfold gval.
        - (* GBool *) intros _. nf.
        - (* GUint *) intros mn mx _. ap NF_bind; [ap NF_genUintRange|intros; nf].
        - (* GInt *) intros mn mx _. ap NF_bind; [ap NF_genIntRange|intros; nf].
        - (* GSampled *) intros xs _. ap NF_bind; [ap NF_genIndex|intros; nf].
        - (* GOneOf *) intros n gs IH Wf. ap NF_bind; [ap NF_genIndex|intros i]. ap NF_group. apply IH. apply Wf.
        - (* GPtr *) intros allowNil e IH Wf. ap NF_bind; [ap NF_coin|intros b]. destruct b; [|nf].
          ap NF_bind; [ap NF_group; apply IH; exact Wf|intros; nf].
        - (* GSlice *) intros minLen maxLen K key e IH Wf. ap NF_bind; [|intros; nf]. ap NF_rep_loop. intros acc.
          unfold slice_body. ap NF_bind; [ap NF_group; apply IH; exact Wf|intros v].
          destruct key; [destruct (existsb _ _)|]; nf.
        - (* GMap *) intros minLen maxLen K ek IHk ev IHv [Wk Wv]. ap NF_bind; [|intros; nf]. ap NF_rep_loop. intros acc.
          unfold map_body. ap NF_bind; [|intros kv; destruct (existsb _ _); nf].
          ap NF_bind; [ap NF_group; auto|intros k]. ap NF_bind; [ap NF_group; auto|intros; nf].
        - (* GMapV *) intros minLen maxLen K key ev IH Wf. ap NF_bind; [|intros; nf]. ap NF_rep_loop. intros acc.
          unfold map_body. ap NF_bind; [|intros kv; destruct (existsb _ _); nf].
          ap NF_bind; [ap NF_group; auto|intros; nf].
        - (* GPerm *) intros xs _. ap NF_bind; [|intros; nf]. ap NF_rep_loop. intros [i l].
          unfold perm_body. ap NF_bind; [ap NF_genUintRange|intros; nf].
        - (* GFilter *) intros e IH f Wf. ap NF_find_loop. ap NF_bind; [ap NF_group; auto|intros; nf].
        - (* GMapFn *) intros e IH f Wf. ap NF_bind; [ap NF_group; auto|intros; nf].
        - (* GCustom *) intros body IH Wf. ap NF_find_loop. apply NF_custom_att. auto.
        - (* GDeferred *) intros e IH Wf. ap NF_group. auto.
        - (* PRet *) intros v _. nf.
        - (* PDraw *) intros g IHg k IHk [Wg' Wk]. ap NF_bind; [ap NF_group; auto|intros v].
          ap NF_bind; [nf|intros _]. apply IHk. apply Wk.
        - (* PFail *) intros kind id m k IH Wf. ap NF_bind; [nf|intros _]. destruct kind; nf. auto.
        - (* PSkip *) intros m _. nf.
        - (* PCleanup *) intros id f IHf k IHk [Qf Wk]. ap NF_bind; [apply NF_register; exact Qf|intros _; auto].
        - (* PContext *) intros k IH Wf. ap NF_bind; [nf|intros b]. apply IH. apply Wf.
        - (* PFailed *) intros k IH Wf. ap NF_bind; [nf|intros t]. ap NF_bind; [nf|intros _]. apply IH. apply Wf.
        - (* PLog *) intros n k IH Wf. ap NF_bind; [nf|intros _]. auto.
        - (* PRepeat *) intros id K s0 haschk check IHc nacts act IHa k IHk (Wc & Wa & Wk).
          destruct nacts; [apply IHk; apply Wk|].
          ap NF_bind; [|intros sfin; apply IHk; apply Wk].
          ap NF_run_repeat.
          + intros s. destruct haschk; nf. apply IHc. apply Wc.
          + intros i s. apply IHa. apply Wa.
      Qed.
    End InterpNF.

    (* ---- the two instances of the relation ---- *)
    (* R1: the current T only gains cleanups, all satisfying Q (nothing is assumed about what it holds already) *)
    Definition R1 (t t' : tstate) : Prop :=
      exists new, cleanups t' = new ++ cleanups t /\ Forall (fun ic : nat * prog => Q (snd ic)) new.
    #[global] Instance R1_ok : RelOK (fun _ => True) R1.
    Proof.
      split.
      - intros t t' E. exists []. split; [exact E|constructor].
      - intros a b c (n1 & E1 & F1) (n2 & E2 & F2). exists (n2 ++ n1). split.
        + rewrite E2, E1, app_assoc. reflexivity.
        + apply Forall_app. split; assumption.
      - auto.
    Qed.
    Lemma R1_SI t t' : R1 t t' -> SI t -> SI t'.
    Proof. intros (n & E & F) H. unfold SI. rewrite E. apply Forall_app. split; assumption. Qed.

    Theorem NF_interp_R1 geom :
      (forall g, Wg g -> NFb (fun _ => True) R1 true (run_g geom LF crun g)) /\
      (forall p, Wp p -> NFb (fun _ => True) R1 true (run_p geom LF crun p)).
    Proof.
      ap NF_interp.
      - intros t id f Qf. exists [(id, f)]. split; [reflexivity|]. constructor; [exact Qf|constructor].
      - exact R1_SI.
      - auto.
    Qed.
    Theorem NF_interp_R2 geom :
      (forall g, Wg g -> NFb SI R2 true (run_g geom LF crun g)) /\
      (forall p, Wp p -> NFb SI R2 true (run_p geom LF crun p)).
    Proof.
      ap NF_interp.
      - intros t id f Qf H. constructor; [exact Qf|exact H].
      - intros t t' H. exact H.
      - auto.
    Qed.

    (* ---- checkOnce, given that the runner of the top-level cleanups behaves ---- *)
    Lemma NF_check_handler geom lvl b r :
      crun = exec geom LF lvl -> (b = true -> r <> Err XFuel) -> NFb SI R2 b (check_handler geom LF lvl r).
    Proof.
      intros Ec Hr. unfold check_handler. rewrite <- Ec.
      assert (H : NFb SI R2 b (
          _ <- (match r with Err (XInvalid m) => if internal_msg m then mark_dirty else ret tt | _ => ret tt end) ;;
          c <- cleanup LF crun false ;;
          t <- get_ts ;;
          let r' := match c with
                    | Some e => Err e
                    | None => match r, skipreq t with Ok _, Some m => Err (XInvalid m) | _, _ => r end
                    end in
          match r', failed t with
          | Err XFuel, _ => throw XFuel
          | Ok _, Some m | Err (XInvalid _), Some m => throw (XStop m SLate)
          | Ok _, None => ret tt
          | Err e, _ => throw e
          end)).
      { ap NF_bind.
        - destruct r as [|[]]; nf. destruct (internal_msg m); nf.
        - intros _.
          apply (NF_bind_val _ _ _ _ _ _ _ (fun c => c <> Some XFuel)); [apply NF_cleanup|intros s c; apply cleanup_okl|intros c Hc].
          ap NF_bind; [nf|intros t]. cbv zeta.
          set (r' := match c with
                     | Some e => Err e
                     | None => match r, skipreq t with Ok _, Some m => Err (XInvalid m) | _, _ => r end
                     end).
          assert (Hr' : b = true -> r' <> Err XFuel).
          { intros Hb. unfold r'. destruct c as [e|].
            - intros E. apply Hc. injection E as ->. reflexivity.
            - destruct r as [u|e]; [destruct (skipreq t); discriminate|exact (Hr Hb)]. }
          clearbody r'.
          destruct r' as [u|[]]; destruct (failed t); nf;
            ap NF_throw; intros Hb; destruct (Hr' Hb eq_refl). }
      destruct r as [u|[]]; first [exact H | ap NF_throw; intros Hb; destruct (Hr Hb eq_refl)].
    Qed.
    Lemma NF_checkOnce geom lvl p :
      crun = exec geom LF lvl -> Wp p -> NFb SI R2 true (checkOnce geom LF lvl p).
    Proof.
      intros Ec Wf. unfold checkOnce. cbn [exec]. rewrite <- Ec. ap NF_try.
      - ap NF_bind; [apply (proj2 (NF_interp_R2 geom)); exact Wf|intros; nf].
      - intros r Hr. apply NF_check_handler; [exact Ec|intros _; exact Hr].
      - apply NF_check_handler; [exact Ec|discriminate].
    Qed.
  End Cleanup.
End NoFuel.

(* ---- changing the set of admissible cleanup functions ---- *)
Lemma NF_change LF (Q Q' : prog -> Prop) (Pre Pre' : tstate -> Prop) (R R' : tstate -> tstate -> Prop) A b (m : M A) :
  (Qne Q -> Qne Q') -> (forall t, Pre' t -> Pre t) -> (forall t t', R t t' -> R' t t') ->
  NFb LF Q Pre R b m -> NFb LF Q' Pre' R' b m.
Proof.
  intros HQ HP HR H s l Hs Hl Hp. destruct (H s l Hs Hl (HP _ Hp)) as (F & Mn & Rr).
  split; [|split; [exact Mn|auto]]. intros Hb E. destruct (F Hb E) as [q Hn]. split; auto.
Qed.

Lemma W_mono (Q Q' : prog -> Prop) :
  (forall c, Q c -> Q' c) -> (forall g, Wg Q g -> Wg Q' g) /\ (forall p, Wp Q p -> Wp Q' p).
Proof.
  intros HQ. apply gexp_prog_ind.
  - intros _; exact I.
  - intros mn mx _; exact I.
  - intros mn mx _; exact I.
  - intros xs _; exact I.
  - intros n gs IH H. exact (fun i => IH i (H i)).
  - intros a e IH H. exact (IH H).
  - intros a b c d e IH H. exact (IH H).
  - intros a b c ek IHk ev IHv H. destruct H as [H1 H2]. exact (conj (IHk H1) (IHv H2)).
  - intros a b c d ev IH H. exact (IH H).
  - intros xs _; exact I.
  - intros e IH f H. exact (IH H).
  - intros e IH f H. exact (IH H).
  - intros body IH H. exact (IH H).
  - intros e IH H. exact (IH H).
  - intros v _. exact I.
  - intros g IHg k IHk H. destruct H as [H1 H2]. exact (conj (IHg H1) (fun v => IHk v (H2 v))).
  - intros kind id m k IH H. destruct kind; [exact (IH H)|exact I|exact I].
  - intros m _. exact I.
  - intros id f IHf k IHk H. destruct H as [H1 H2]. exact (conj (HQ f H1) (IHk H2)).
  - intros k IH H. exact (fun b => IH b (H b)).
  - intros k IH H. exact (fun b => IH b (H b)).
  - intros n k IH H. exact (IH H).
  - intros id K s0 haschk check IHc nacts act IHa k IHk H. destruct H as (H1 & H2 & H3).
    exact (conj (fun s => IHc s (H1 s)) (conj (fun i s => IHa i s (H2 i s)) (fun s => IHk s (H3 s)))).
Qed.
Lemma W_true : (forall g, Wg (fun _ => True) g) /\ (forall p, Wp (fun _ => True) p).
Proof.
  apply gexp_prog_ind.
  - exact I.
  - intros; exact I.
  - intros; exact I.
  - intros; exact I.
  - intros n gs IH. exact IH.
  - intros a e IH. exact IH.
  - intros a b c d e IH. exact IH.
  - intros a b c ek IHk ev IHv. exact (conj IHk IHv).
  - intros a b c d ev IH. exact IH.
  - intros; exact I.
  - intros e IH f. exact IH.
  - intros e IH f. exact IH.
  - intros body IH. exact IH.
  - intros e IH. exact IH.
  - intros; exact I.
  - intros g IHg k IHk. exact (conj IHg IHk).
  - intros kind id m k IH. destruct kind; [exact IH|exact I|exact I].
  - intros; exact I.
  - intros id f IHf k IHk. exact (conj I IHk).
  - intros k IH. exact IH.
  - intros k IH. exact IH.
  - intros n k IH. exact IH.
  - intros id K s0 haschk check IHc nacts act IHa k IHk. exact (conj IHc (conj IHa IHk)).
Qed.

(* programs that register no cleanup function at all (on whatever T, however deep) *)
Definition cleanup_free_g : gexp -> Prop := Wg (fun _ => False).
Definition cleanup_free_p : prog -> Prop := Wp (fun _ => False).

(* cleanup nesting: [Qn n c] says that the stored function c can be run by [exec n]: it runs at level n-1
   and everything it (or a Custom inside it) registers can be run at level n-1 *)
Fixpoint Qn (n : nat) : prog -> Prop :=
  match n with
  | O => fun _ => False
  | S m => Wp (Qn m)
  end.
(* the property function p can be run by [checkOnce lvl] / [exec (S lvl)] *)
Definition depth_le (lvl : nat) (p : prog) : Prop := Wp (Qn lvl) p.

Lemma Qn_mono n : forall c, Qn n c -> Qn (S n) c.
Proof.
  induction n as [|n IH]; intros c H; [destruct H|].
  cbn [Qn] in *. apply (proj2 (W_mono (Qn n) (Qn (S n)) IH)). exact H.
Qed.
Lemma cleanup_free_depth p lvl : cleanup_free_p p -> depth_le lvl p.
Proof. apply (proj2 (W_mono (fun _ => False) (Qn lvl) (fun c (F : False) => match F with end))). Qed.
Lemma depth_le_S p lvl : depth_le lvl p -> depth_le (S lvl) p.
Proof. apply (proj2 (W_mono (Qn lvl) (Qn (S lvl)) (Qn_mono lvl))). Qed.

Section Main.
  Variable geom : nat -> N -> N.
  Variable LF : nat.

  (* ---- run_g / run_p, arbitrary generator or program, any runner that itself behaves:
          on a buffer shorter than LF the only way to XFuel is to start LF cleanup functions ---- *)
  Theorem fuel_only_by_cleanups (crun : prog -> M val) :
    (forall c s l, src s = SBuf l -> length l < LF ->
       (res (crun c s) = Err XFuel -> LF <= nrun (tr (w (crun c s)))) /\
       (exists l', src (post (crun c s)) = SBuf l' /\ length l' <= length l)) ->
    (forall g s l, src s = SBuf l -> length l < LF ->
       res (run_g geom LF crun g s) = Err XFuel -> LF <= nrun (tr (w (run_g geom LF crun g s)))) /\
    (forall p s l, src s = SBuf l -> length l < LF ->
       res (run_p geom LF crun p s) = Err XFuel -> LF <= nrun (tr (w (run_p geom LF crun p s)))).
  Proof.
    intros Hc. set (Q := fun _ : prog => True).
    assert (Hcrun : forall c, Q c -> NFb LF Q (SI Q) (R2 Q) true (crun c)).
    { intros c _ s l Hs Hl _. destruct (Hc c s l Hs Hl) as [F Mn]. split; [|split; [exact Mn|]].
      - intros _ E. split; [exists (PRet VU); exact I|auto].
      - intros _. unfold SI. apply Forall_forall. intros; exact I. }
    destruct (NF_interp_R1 LF Q crun Hcrun geom) as [Hg Hp]. split; intros x s l Hs Hl E.
    - destruct (Hg x (proj1 W_true x) s l Hs Hl I) as (F & _). apply (F eq_refl E).
    - destruct (Hp x (proj2 W_true x) s l Hs Hl I) as (F & _). apply (F eq_refl E).
  Qed.

  (* ---- the main theorem: without cleanups, and for ANY runner, fuel is never the reason a run on a
          buffer ends; the buffer only shrinks ---- *)
  Theorem no_fuel_on_buffer_strong (crun : prog -> M val) :
    (forall g s l, cleanup_free_g g -> src s = SBuf l -> length l < LF ->
       res (run_g geom LF crun g s) <> Err XFuel /\
       exists l', src (post (run_g geom LF crun g s)) = SBuf l' /\ length l' <= length l) /\
    (forall p s l, cleanup_free_p p -> src s = SBuf l -> length l < LF ->
       res (run_p geom LF crun p s) <> Err XFuel /\
       exists l', src (post (run_p geom LF crun p s)) = SBuf l' /\ length l' <= length l).
  Proof.
    destruct (NF_interp_R1 LF (fun _ => False) crun (fun c (F : False) => match F with end) geom) as [Hg Hp].
    split; intros x s l Wf Hs Hl.
    - destruct (Hg x Wf s l Hs Hl I) as (F & Mn & _). split; [|exact Mn].
      intros E. destruct (F eq_refl E) as [[c []] _].
    - destruct (Hp x Wf s l Hs Hl I) as (F & Mn & _). split; [|exact Mn].
      intros E. destruct (F eq_refl E) as [[c []] _].
  Qed.

  Theorem no_fuel_on_buffer (crun : prog -> M val) g s l :
    cleanup_free_g g -> src s = SBuf l -> length l < LF -> res (run_g geom LF crun g s) <> Err XFuel.
  Proof. intros Wf Hs Hl. apply (proj1 (no_fuel_on_buffer_strong crun) g s l Wf Hs Hl). Qed.
  Theorem no_fuel_on_buffer_p (crun : prog -> M val) p s l :
    cleanup_free_p p -> src s = SBuf l -> length l < LF -> res (run_p geom LF crun p s) <> Err XFuel.
  Proof. intros Wf Hs Hl. apply (proj2 (no_fuel_on_buffer_strong crun) p s l Wf Hs Hl). Qed.

  (* ---- the engine ---- *)
  Lemma exec_NF : forall n c, Qn n c -> NFb LF (Qn n) (SI (Qn n)) (R2 (Qn n)) true (exec geom LF n c).
  Proof.
    induction n as [|n IH]; intros c Qc; [destruct Qc|]. cbn [exec].
    apply (NF_change LF (Qn n) (Qn (S n)) (fun _ => True) (SI (Qn (S n))) (R1 (Qn n)) (R2 (Qn (S n)))).
    - intros [c' H]. exists c'. apply Qn_mono. exact H.
    - auto.
    - intros t t' (new & E & F) H. unfold SI. rewrite E. apply Forall_app. split; [|exact H].
      eapply Forall_impl; [|exact F]. intros a. apply Qn_mono.
    - apply (proj2 (NF_interp_R1 LF (Qn n) (exec geom LF n) IH geom)). exact Qc.
  Qed.

  Theorem fuel_exec lvl p s l :
    depth_le lvl p -> src s = SBuf l -> length l < LF ->
    res (exec geom LF (S lvl) p s) = Err XFuel -> LF <= nrun (tr (w (exec geom LF (S lvl) p s))).
  Proof.
    intros Wf Hs Hl E. cbn [exec] in *.
    destruct (proj2 (NF_interp_R1 LF (Qn lvl) (exec geom LF lvl) (exec_NF lvl) geom) p Wf s l Hs Hl I) as (F & _).
    apply (F eq_refl E).
  Qed.
  Theorem fuel_checkOnce lvl p l :
    depth_le lvl p -> length l < LF ->
    res (checkOnce geom LF lvl p (start (SBuf l))) = Err XFuel ->
    LF <= nrun (tr (w (checkOnce geom LF lvl p (start (SBuf l))))).
  Proof.
    intros Wf Hl E.
    assert (Hsi : SI (Qn lvl) (ts (start (SBuf l)))) by constructor.
    destruct (NF_checkOnce LF (Qn lvl) (exec geom LF lvl) (exec_NF lvl) geom lvl p eq_refl Wf (start (SBuf l)) l eq_refl Hl Hsi)
      as (F & _).
    apply (F eq_refl E).
  Qed.

  Theorem no_fuel_exec lvl p s l :
    cleanup_free_p p -> src s = SBuf l -> length l < LF -> res (exec geom LF (S lvl) p s) <> Err XFuel.
  Proof. intros Wf Hs Hl. cbn [exec]. apply no_fuel_on_buffer_p with (l := l); assumption. Qed.
  Theorem no_fuel_checkOnce lvl p l :
    cleanup_free_p p -> length l < LF -> res (checkOnce geom LF lvl p (start (SBuf l))) <> Err XFuel.
  Proof.
    intros Wf Hl E.
    assert (Hsi : SI (fun _ => False) (ts (start (SBuf l)))) by constructor.
    destruct (NF_checkOnce LF (fun _ => False) (exec geom LF lvl) (fun c (F : False) => match F with end)
                           geom lvl p eq_refl Wf (start (SBuf l)) l eq_refl Hl Hsi) as (F & _).
    destruct (F eq_refl E) as [[c []] _].
  Qed.
  Theorem no_fuel_checkFuzz lvl p bs :
    cleanup_free_p p -> length (words_of_bytes (S (length bs)) bs) < LF ->
    fst (checkFuzz geom LF lvl p bs) <> FFuel.
  Proof.
    intros Wf Hl. unfold checkFuzz. cbn [fst].
    pose proof (no_fuel_checkOnce lvl p _ Wf Hl) as H.
    destruct (res (checkOnce geom LF lvl p (start (SBuf (words_of_bytes (S (length bs)) bs))))) as [u|[]];
      cbn [status_of]; try discriminate. destruct (H eq_refl).
  Qed.
End Main.

(* ---- accounting: every cleanup function that is started was registered before (or was on the stack at
        the start), so "LF cleanup functions started" can be read as "LF cleanups registered" ---- *)
Fixpoint nreg (t : list uev) : nat :=
  match t with
  | [] => 0
  | UReg _ :: r => S (nreg r)
  | _ :: r => nreg r
  end.
Lemma nreg_app a b : nreg (a ++ b) = nreg a + nreg b.
Proof. induction a as [|x a IH]; cbn [app nreg]; [reflexivity|]. destruct x; rewrite IH; reflexivity. Qed.

Definition ACC {A} (m : M A) : Prop :=
  forall s, nrun (tr (w (m s))) + length (cleanups (ts (post (m s))))
            <= length (cleanups (ts s)) + nreg (tr (w (m s))).
Ltac accs := rewrite ?tr_wapp, ?nrun_app, ?nreg_app, ?tr_wkeep, ?tr_wdiscard; cbn [tr wgev wuev wev wnil wword nrun nreg app].

Lemma acc_state A (m : M A) :
  (forall s, cleanups (ts (post (m s))) = cleanups (ts s) /\ nrun (tr (w (m s))) = 0) -> ACC m.
Proof. intros H s. destruct (H s) as [H1 H2]. rewrite H1, H2. lia. Qed.
Lemma acc_bind A B (m : M A) (f : A -> M B) : ACC m -> (forall a, ACC (f a)) -> ACC (bind m f).
Proof.
  intros Hm Hf s. unfold bind. specialize (Hm s). destruct (res (m s)) as [a|e]; cbn [res post w]; [|exact Hm].
  specialize (Hf a (post (m s))). accs. lia.
Qed.
Lemma acc_try A B (m : M A) (h : result A -> M B) : ACC m -> (forall r, ACC (h r)) -> ACC (try_ m h).
Proof.
  intros Hm Hh s. unfold try_. cbn [res post w]. specialize (Hm s). specialize (Hh (res (m s)) (post (m s))). accs. lia.
Qed.
Lemma acc_try_w A B (m : M A) (h : result A -> wr -> M B) : ACC m -> (forall r x, ACC (h r x)) -> ACC (try_w m h).
Proof.
  intros Hm Hh s. unfold try_w. cbn [res post w]. specialize (Hm s).
  specialize (Hh (res (m s)) (w (m s)) (post (m s))). accs. lia.
Qed.
Lemma acc_group_d A sa (m : M (A * bool)) : ACC m -> ACC (group_d sa m).
Proof.
  intros Hm s. unfold group_d. specialize (Hm s).
  destruct (res (m s)) as [[a d]|e]; [destruct d; [|destruct (rd (w (m s))) as [|x0 l0]]|]; cbn [res post w]; accs; lia.
Qed.
Lemma acc_fresh A (m : M A) : ACC m -> ACC (with_fresh_T m).
Proof.
  intros Hm s. unfold with_fresh_T. specialize (Hm (with_ts s fresh_t)). cbn [with_ts ts fresh_t cleanups length] in Hm.
  cbn [res post w with_ts ts tr nrun nreg cleanups]. rewrite nrun_app, nreg_app. cbn [nrun nreg]. lia.
Qed.

Ltac acc_prim := apply acc_state; intros s0; split; reflexivity.
Lemma acc_emit_u e : plain e = true -> ACC (emit_u e).
Proof. intros H. apply acc_state. intros s. split; [reflexivity|]. destruct e; try discriminate; reflexivity. Qed.
Lemma acc_signal k m id : ACC (signal k m id).
Proof. apply acc_state. intros s. unfold signal. destruct k; split; reflexivity. Qed.
Lemma acc_register id f : ACC (register id f).
Proof. intros s. unfold register. cbn [res post w with_ts ts cleanups length tr wev nrun nreg]. lia. Qed.
Lemma acc_context_call : ACC context_call.
Proof.
  apply acc_state. intros s. unfold context_call.
  destruct (ctx (ts s)); [|destruct (cleaning (ts s))]; split; reflexivity.
Qed.
Lemma acc_begin_cleanup : ACC begin_cleanup.
Proof. apply acc_state. intros s. unfold begin_cleanup. split; [reflexivity|]. cbn [w tr wev]. destruct (ctx (ts s)); reflexivity. Qed.
Lemma acc_pop_cleanup : ACC pop_cleanup.
Proof.
  intros s. unfold pop_cleanup. destruct (cleanups (ts s)) as [|[id c] rest] eqn:E; [|destruct (cleaning (ts s))];
    cbn [res post w with_ts ts cleanups length tr wev wnil nrun nreg]; rewrite ?E; cbn [length]; lia.
Qed.
Lemma acc_failOnError l : ACC (failOnError l).
Proof. apply acc_state. intros s. unfold failOnError. destruct (failed (ts s)); split; reflexivity. Qed.
Lemma acc_drawBits n : ACC (drawBits n).
Proof.
  apply acc_state. intros s. unfold drawBits. destruct (src s) as [[|x l]|j]; try (split; reflexivity).
  destruct (Nat.leb n 64); [destruct (jsf_rand j)|]; split; reflexivity.
Qed.

Ltac acc_solve :=
  intros;
  first [ apply acc_bind; assumption | apply acc_try; assumption | apply acc_try_w; assumption
        | apply acc_group_d; assumption | apply acc_fresh; assumption
        | apply acc_emit_u; assumption | apply acc_signal | apply acc_register | apply acc_context_call
        | apply acc_begin_cleanup | apply acc_pop_cleanup | apply acc_failOnError | apply acc_drawBits
        | acc_prim ].

Theorem acc_checkOnce geom LF lvl p : ACC (checkOnce geom LF lvl p).
Proof. apply (P_checkOnce (@ACC)); acc_solve. Qed.
Theorem acc_interp geom LF crun :
  (forall c, ACC (crun c)) -> (forall g, ACC (run_g geom LF crun g)) /\ (forall p, ACC (run_p geom LF crun p)).
Proof. intros Hc. apply (P_interp (@ACC)); try exact Hc; acc_solve. Qed.

(* the engine theorem in terms of registrations *)
Theorem fuel_checkOnce_reg geom LF lvl p l :
  depth_le lvl p -> length l < LF ->
  res (checkOnce geom LF lvl p (start (SBuf l))) = Err XFuel ->
  LF <= nreg (tr (w (checkOnce geom LF lvl p (start (SBuf l))))).
Proof.
  intros Wf Hl E. pose proof (fuel_checkOnce geom LF lvl p l Wf Hl E) as H.
  pose proof (acc_checkOnce geom LF lvl p (start (SBuf l))) as H2. cbn [start ts fresh_t cleanups length] in H2. lia.
Qed.

Print Assumptions no_fuel_on_buffer.
Print Assumptions no_fuel_on_buffer_p.
Print Assumptions fuel_only_by_cleanups.
Print Assumptions fuel_checkOnce.
Print Assumptions no_fuel_checkOnce.
Print Assumptions no_fuel_checkFuzz.
Print Assumptions fuel_checkOnce_reg.

(* ---- non-vacuity: a nested generator (slice of one-of pointer-to-int / Custom drawing from a filter)
        on a 7-word buffer with LF = 8 ---- *)
Definition ex_g : gexp :=
  GSlice 1 3 K_half None
    (GOneOf 2 (fun i => match i with
                        | O => GPtr true (GInt (-5) 5)
                        | _ => GCustom (PDraw (GFilter GBool (fun _ => true)) (fun v => PLog 7 (PRet v)))
                        end)).
Lemma ex_g_cleanup_free : cleanup_free_g ex_g.
Proof. unfold cleanup_free_g, ex_g. cbn. intros [|i]; cbn; auto. Qed.
Example no_fuel_example geom crun :
  res (run_g geom 8 crun ex_g (start (SBuf [1; 2; 3; 4; 5; 6; 7]%N))) <> Err XFuel.
Proof.
  apply no_fuel_on_buffer with (l := [1; 2; 3; 4; 5; 6; 7]%N); [exact ex_g_cleanup_free|reflexivity|cbn; lia].
Qed.
(* the run is not trivial: with a concrete oracle it draws and returns a one-element slice *)
Example no_fuel_example_runs :
  res (run_g (fun _ _ => 1%N) 8 (fun _ => ret VU) ex_g (start (SBuf [1; 2; 3; 4; 5; 6; 7]%N))) = Ok (VL [VB false]).
Proof. vm_compute. reflexivity. Qed.
(* a rejection loop that never accepts: every word is rejected (7 > 4) until the buffer is exhausted;
   the run ends with the overrun, not with the fuel *)
Example rejection_ends_in_overrun :
  res (run_g (fun bl _ => N.of_nat bl) 6 (fun _ => ret VU) (GUint 0 4) (start (SBuf [0; 7; 7; 7; 7]%N)))
  = Err (XInvalid MOverrun).
Proof. vm_compute. reflexivity. Qed.
(* a program with a cleanup that itself draws (nesting depth 1): accepted at level 1, not at level 0 *)
Definition ex_p : prog := PCleanup 0 (PDraw GBool (fun _ => PRet VU)) (PDraw (GInt 0 3) (fun v => PRet v)).
Example depth_example : depth_le 1 ex_p /\ ~ depth_le 0 ex_p.
Proof. split; [cbn; auto|]. intros [[] _]. Qed.
(* ---- why the unrestricted statement is false in the model ----

   Theorem no_fuel_on_buffer_full : forall geom LF crun g s l,
     src s = SBuf l -> length l < LF -> res (run_g geom LF crun g s) <> Err XFuel.

   is refuted by a Custom generator whose function registers LF cleanups: T.cleanup of the inner T pops
   them with [cleanup_loop LF], which needs LF + 1 iterations.  No word of the buffer is involved and the
   runner is the most harmless one.  This is an artefact of reusing the loop fuel for the cleanup stack
   (the Go loop just empties a finite slice), not a non-termination of rapid. *)
Example full_statement_false :
  let g := GCustom (PCleanup 0 (PRet VU) (PCleanup 1 (PRet VU) (PRet VU))) in
  let o := run_g (fun _ _ => 1%N) 2 (fun _ => ret VU) g (start (SBuf [])) in
  res o = Err XFuel /\ nrun (tr (w o)) = 2.
Proof. vm_compute. split; reflexivity. Qed.
(* the same at top level, with a nesting level that is large enough *)
Example full_statement_false_checkOnce :
  res (checkOnce (fun _ _ => 1%N) 2 5 (PCleanup 0 (PRet VU) (PCleanup 1 (PRet VU) (PRet VU))) (start (SBuf []))) = Err XFuel.
Proof. vm_compute. reflexivity. Qed.
(* and the other artefact: a cleanup at nesting level 0 ([depth_le 0] fails, [depth_le 1] holds) *)
Example level_exhausted :
  res (checkOnce (fun _ _ => 1%N) 3 0 (PCleanup 0 (PRet VU) (PRet VU)) (start (SBuf []))) = Err XFuel /\
  res (checkOnce (fun _ _ => 1%N) 3 1 (PCleanup 0 (PRet VU) (PRet VU)) (start (SBuf []))) = Ok tt.
Proof. vm_compute. split; reflexivity. Qed.
