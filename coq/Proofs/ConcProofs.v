(* ConcProofs.v -- no lost update on the atomic-section transition system of Model/Conc.v, for every
   interleaving of any number of calls by any number of goroutines (induction over runs). *)
From Coq Require Import List Arith Bool Lia Permutation.
From Rapid Require Import Model.Conc.
Import ListNotations.

Lemma csteps_app : forall a b s s',
  csteps s (a ++ b) s' <-> exists s1, csteps s a s1 /\ csteps s1 b s'.
Proof.
  induction a as [|l a IH]; intros b s s'; cbn.
  - split.
    + intros H. exists s. split; [constructor|assumption].
    + intros [s1 [H1 H2]]. inversion H1; subst. assumption.
  - split.
    + intros H. inversion H; subst. apply IH in H5. destruct H5 as [s2 [Ha Hb]].
      exists s2. split; [econstructor; eauto|assumption].
    + intros [s1 [H1 H2]]. inversion H1; subst. econstructor; [eassumption|].
      apply IH. eauto.
Qed.

(* ------------------------------------------------------------------------------------------- *)
(* fail_sticks                                                                                  *)
(* ------------------------------------------------------------------------------------------- *)

Lemma cstep_failed s l s' :
  cstep s l s' ->
  failed (st s') = match fail_msg l with Some m => m | None => failed (st s) end.
Proof. inversion 1; subst; cbn; reflexivity. Qed.

Lemma cstep_obs s l s' r :
  cstep s l s' -> fail_obs l = Some r -> r = negb (Nat.eqb (failed (st s)) 0).
Proof. inversion 1; subst; cbn; intros Ho; inversion Ho; reflexivity. Qed.

Lemma stick : forall s ls s',
  csteps s ls s' -> failed (st s) <> 0 ->
  (forall l m, In l ls -> fail_msg l = Some m -> m <> 0) ->
  failed (st s') <> 0 /\ forall l r, In l ls -> fail_obs l = Some r -> r = true.
Proof.
  intros s ls s' H. induction H as [s|s l s1 ls s2 Hstep Hsteps IH]; intros Hf Hm.
  - split; [assumption|]. intros l r [].
  - assert (Hf1 : failed (st s1) <> 0).
    { rewrite (cstep_failed _ _ _ Hstep). destruct (fail_msg l) as [m|] eqn:E; [|assumption].
      eapply Hm; [left; reflexivity|exact E]. }
    destruct (IH Hf1) as [IH1 IH2]; [intros; eapply Hm; [right|]; eassumption|].
    split; [assumption|]. intros l' r [->|Hin] Ho.
    + rewrite (cstep_obs _ _ _ _ Hstep Ho). apply Nat.eqb_neq in Hf. rewrite Hf. reflexivity.
    + eapply IH2; eassumption.
Qed.

(* Once some goroutine's fail step has happened, every later Failed() / failOnError -- by any
   goroutine, after any interleaving of any other calls -- sees the failure (provided no failure
   message is the empty string, which is how "not failed" is represented). *)
Theorem fail_sticks : forall pre t m post s,
  csteps init (pre ++ LFail t m :: post) s ->
  (forall l m', In l (pre ++ LFail t m :: post) -> fail_msg l = Some m' -> m' <> 0) ->
  failed (st s) <> 0 /\ forall l r, In l post -> fail_obs l = Some r -> r = true.
Proof.
  intros pre t m post s H Hm. apply csteps_app in H. destruct H as [s1 [_ H]].
  inversion H; subst. eapply stick; [eassumption| |].
  - rewrite (cstep_failed _ _ _ H3). cbn. eapply Hm; [apply in_or_app; right; left; reflexivity|reflexivity].
  - intros l m' Hin. apply Hm. apply in_or_app. right. right. assumption.
Qed.

(* ------------------------------------------------------------------------------------------- *)
(* cleanups_once                                                                                *)
(* ------------------------------------------------------------------------------------------- *)

Definition cinv (s : cstate) (ls : list label) : Prop :=
  Permutation (regs ls) (rans ls ++ pending (kpc s) ++ cleanups (st s)) /\
  (forall f, In f (regs ls) -> f < next_f (st s)) /\
  NoDup (regs ls).

Lemma regs_app a b : regs (a ++ b) = regs a ++ regs b.
Proof. apply flat_map_app. Qed.
Lemma rans_app a b : rans (a ++ b) = rans a ++ rans b.
Proof. apply flat_map_app. Qed.

Lemma NoDup_app_tail_one {A} (l : list A) x : NoDup l -> ~ In x l -> NoDup (l ++ [x]).
Proof.
  intros Hn Hx. eapply Permutation_NoDup; [apply Permutation_cons_append|]. constructor; assumption.
Qed.

Lemma cinv_step s l s' ls : cstep s l s' -> cinv s ls -> cinv s' (ls ++ [l]).
Proof.
  intros Hstep [Hp [Hb Hn]]. unfold cinv. rewrite regs_app, rans_app.
  inversion Hstep; subst; cbn in *; rewrite ?app_nil_r in *; try (split; [|split]; assumption).
  - (* register *)
    split; [|split].
    + rewrite !app_assoc. apply Permutation_app_tail. rewrite <- !app_assoc. assumption.
    + intros f Hin. apply in_app_or in Hin. destruct Hin as [Hin|[<-|[]]]; [specialize (Hb _ Hin)|]; lia.
    + apply NoDup_app_tail_one; [assumption|]. intro Hin. specialize (Hb _ Hin). lia.
  - (* pop *)
    split; [|split]; try assumption.
    rewrite H in Hp. eapply Permutation_trans; [exact Hp|].
    apply Permutation_app_head. apply Permutation_app_comm.
  - (* ran, normally *)
    split; [|split]; try assumption. rewrite <- app_assoc. assumption.
  - (* ran, panicked *)
    split; [|split]; try assumption. rewrite <- app_assoc. assumption.
Qed.

Lemma cinv_steps : forall s ls s', csteps s ls s' -> forall ls0, cinv s ls0 -> cinv s' (ls0 ++ ls).
Proof.
  intros s ls s' H. induction H as [s|s l s1 ls s2 Hstep Hsteps IH]; intros ls0 Hi.
  - rewrite app_nil_r. assumption.
  - replace (ls0 ++ l :: ls) with ((ls0 ++ [l]) ++ ls) by (rewrite <- app_assoc; reflexivity).
    apply IH. eapply cinv_step; eassumption.
Qed.

Lemma cinv_init : cinv init [].
Proof. unfold cinv; cbn. split; [constructor|]. split; [intros f []|constructor]. Qed.

(* in every run: a registration is run at most once, and only registered functions are run *)
Theorem cleanups_at_most_once : forall ls s,
  csteps init ls s ->
  forall f, count_occ Nat.eq_dec (rans ls) f <= count_occ Nat.eq_dec (regs ls) f /\
            count_occ Nat.eq_dec (regs ls) f <= 1.
Proof.
  intros ls s H f. pose proof (cinv_steps _ _ _ H [] cinv_init) as [Hp [_ Hn]]. cbn [app] in Hp, Hn.
  rewrite (Permutation_count_occ Nat.eq_dec) in Hp. specialize (Hp f).
  rewrite !count_occ_app in Hp. unfold fid in *. split; [lia|].
  apply (NoDup_count_occ Nat.eq_dec). assumption.
Qed.

Definition drained (s : cstate) : Prop := cleanups (st s) = [] /\ pending (kpc s) = [].

Lemma drained_step s l s' : cstep s l s' -> is_reg l = false -> drained s -> drained s'.
Proof.
  intros Hstep Hr [Hc Hp]. unfold drained.
  inversion Hstep; subst; cbn in *; try discriminate; try (split; assumption); try (split; reflexivity).
  - rewrite Hc in H. destruct l0; discriminate.
Qed.

Lemma drained_steps : forall s ls s',
  csteps s ls s' -> forallb (fun l => negb (is_reg l)) ls = true -> drained s -> drained s'.
Proof.
  intros s ls s' H. induction H as [s|s l s1 ls s2 Hstep Hsteps IH]; intros Hr Hd; [assumption|].
  cbn in Hr. apply andb_true_iff in Hr. destruct Hr as [Hl Hr]. apply negb_true_iff in Hl.
  apply IH; [assumption|]. eapply drained_step; eassumption.
Qed.

(* cleanup() leaves only after it has seen the stack empty (the step "check false"); if no
   registration comes after that, every function registered by any goroutine -- before or during
   cleanup, in any interleaving -- has been run exactly once. *)
Theorem cleanups_once : forall pre post s,
  csteps init (pre ++ LKCheck false :: post) s ->
  forallb (fun l => negb (is_reg l)) post = true ->
  forall f, count_occ Nat.eq_dec (rans (pre ++ LKCheck false :: post)) f =
            count_occ Nat.eq_dec (regs (pre ++ LKCheck false :: post)) f /\
            count_occ Nat.eq_dec (regs (pre ++ LKCheck false :: post)) f <= 1.
Proof.
  intros pre post s H Hnr f.
  pose proof (cinv_steps _ _ _ H [] cinv_init) as [Hp [_ Hn]]. cbn [app] in Hp, Hn.
  apply csteps_app in H. destruct H as [s1 [_ H]]. inversion H; subst.
  assert (Hd : drained s).
  { eapply drained_steps; [eassumption|assumption|]. inversion H3; subst. split; [assumption|reflexivity]. }
  destruct Hd as [Hc Hpe]. rewrite Hc, Hpe in Hp. cbn in Hp. rewrite app_nil_r in Hp.
  rewrite (Permutation_count_occ Nat.eq_dec) in Hp. specialize (Hp f).
  split; [symmetry; assumption|]. apply (NoDup_count_occ Nat.eq_dec). assumption.
Qed.

(* ------------------------------------------------------------------------------------------- *)
(* one_context                                                                                  *)
(* ------------------------------------------------------------------------------------------- *)

Definition jinv (s : cstate) (ls : list label) : Prop :=
  kpc s = KIdle /\ cleaning (st s) = false /\ cancelled (st s) = [] /\
  forall l c, In l ls -> ctx_ret l = Some c -> ctx (st s) = Some c.

Lemma jinv_step s l s' ls : cstep s l s' -> is_cleaner l = false -> jinv s ls -> jinv s' (ls ++ [l]).
Proof.
  intros Hstep Hnc [Hk [Hcl [Hca Hr]]]. unfold jinv.
  inversion Hstep; subst; cbn in *; try discriminate;
    try (repeat split; try assumption; intros l' c' Hin Hret; apply in_app_or in Hin;
         destruct Hin as [Hin|[<-|[]]]; [eapply Hr; eassumption|cbn in Hret; try discriminate]).
  - inversion Hret; subst. assumption.
  - congruence.
  - inversion Hret; subst. assumption.
  - repeat split; try assumption. intros l' c' Hin Hret. apply in_app_or in Hin.
    destruct Hin as [Hin|[<-|[]]].
    + specialize (Hr _ _ Hin Hret). congruence.
    + cbn in Hret. inversion Hret; subst. reflexivity.
Qed.

Lemma jinv_steps : forall s ls s',
  csteps s ls s' -> forallb (fun l => negb (is_cleaner l)) ls = true ->
  forall ls0, jinv s ls0 -> jinv s' (ls0 ++ ls).
Proof.
  intros s ls s' H. induction H as [s|s l s1 ls s2 Hstep Hsteps IH]; intros Hnc ls0 Hj.
  - rewrite app_nil_r. assumption.
  - cbn in Hnc. apply andb_true_iff in Hnc. destruct Hnc as [Hl Hnc]. apply negb_true_iff in Hl.
    replace (ls0 ++ l :: ls) with ((ls0 ++ [l]) ++ ls) by (rewrite <- app_assoc; reflexivity).
    apply IH; [assumption|]. eapply jinv_step; eassumption.
Qed.

Lemma jinv_init : jinv init [].
Proof. unfold jinv; cbn. repeat split. intros l c []. Qed.

(* All Context() calls that return before cleanup starts (the part [pre] of the run contains no
   step of cleanup) return one and the same context, whatever the interleaving of their fast-path
   reads, cleaning tests and locked re-checks; that context is the one stored in the T and it has
   not been cancelled. *)
Theorem one_context : forall pre post s,
  csteps init (pre ++ post) s ->
  forallb (fun l => negb (is_cleaner l)) pre = true ->
  forall l1 l2 c1 c2,
    In l1 pre -> In l2 pre -> ctx_ret l1 = Some c1 -> ctx_ret l2 = Some c2 ->
    c1 = c2 /\
    exists s1, csteps init pre s1 /\ ctx (st s1) = Some c1 /\ ~ In c1 (cancelled (st s1)).
Proof.
  intros pre post s H Hnc l1 l2 c1 c2 Hin1 Hin2 Hr1 Hr2.
  apply csteps_app in H. destruct H as [s1 [H1 _]].
  pose proof (jinv_steps _ _ _ H1 Hnc [] jinv_init) as [_ [_ [Hca Hr]]]. cbn [app] in Hr.
  pose proof (Hr _ _ Hin1 Hr1) as E1. pose proof (Hr _ _ Hin2 Hr2) as E2.
  split; [congruence|]. exists s1. split; [assumption|]. split; [assumption|].
  rewrite Hca. intros [].
Qed.
