(* A rejected Custom attempt never carries a non-fatal failure: the recover in Custom's value function looks at
   the inner T after its cleanup functions have run, so a failure signalled by the function body or by one of its
   cleanup functions turns the skip into a failing test case instead of a rejected attempt.  Hence the writer flag
   [nf] of a rejected Custom attempt is clear, and such an attempt makes a run dirty only through [reg]. *)
Require Import Rapid.Model.Base Rapid.Model.Syntax Rapid.Model.Monad Rapid.Model.Prim Rapid.Model.Interp Rapid.Model.Engine.
Require Import Rapid.Proofs.Inv Rapid.Proofs.Closure Rapid.Proofs.Signals.
Local Open Scope nat_scope.
Arguments internal_msg : simpl never.

(* the closure conditions of SIG, goal by goal (the same facts that Signals.sig_checkOnce uses) *)
Ltac sig_step :=
  lazymatch goal with
  | |- SIG (bind _ _) => apply sig_bind; assumption
  | |- SIG (group_d _ _) => apply sig_group_d; assumption
  | |- SIG (try_ _ _) => apply sig_try; assumption
  | |- SIG (try_w _ _) => apply sig_try_w; assumption
  | |- SIG (with_fresh_T _) => apply sig_fresh; assumption
  | |- SIG (emit_u ?e) =>
      apply sig_quiet; intros s0; (split; [|split]); [reflexivity|reflexivity|];
      intros k0 m0 i0 Hin0; cbn in Hin0; destruct Hin0 as [E|[]]; subst e; discriminate
  | |- SIG (signal ?k _ _) =>
      split;
      [ intros s0 Hs; unfold signal; destruct k; cbn; try discriminate;
        destruct Hs as [Hs|Hs]; [exact Hs|cbn in Hs; discriminate]
      | intros s0 k0 m0 i0 Hin Hk; unfold signal in *; destruct k; cbn in *; auto;
        destruct Hin as [E|[]]; injection E as <- _ _; congruence ]
  | |- SIG context_call =>
      apply sig_quiet; intros s0; unfold context_call;
      destruct (ctx (ts s0)); [|destruct (cleaning (ts s0))]; quiet3
  | |- SIG begin_cleanup =>
      apply sig_quiet; intros s0; unfold begin_cleanup; destruct (ctx (ts s0)); quiet3
  | |- SIG pop_cleanup =>
      apply sig_quiet; intros s0; unfold pop_cleanup;
      destruct (cleanups (ts s0)) as [|[i c] r]; [|destruct (cleaning (ts s0))]; quiet3
  | |- SIG (failOnError _) =>
      apply sig_quiet; intros s0; unfold failOnError;
      destruct (failed (ts s0)) eqn:E; (split; [|split]); cbn; rewrite ?E; try reflexivity;
      intros k0 m0 i0 Hin0; tauto
  | |- SIG (drawBits ?n) =>
      apply sig_quiet; intros s0; unfold drawBits;
      destruct (src s0) as [[|x l]|j]; [| |destruct (Nat.leb n 64); [destruct (jsf_rand j)|]]; quiet3
  | |- SIG _ => quiet
  end.
Ltac sig_hyps := intros; sig_step.

Section RejectedCustom.
  Variable geom : nat -> N -> N.
  Variable LF : nat.
  Variable crun : prog -> M val.
  Hypothesis Hcrun : forall p, SIG (crun p).

  Lemma sig_interp : (forall g, SIG (run_g geom LF crun g)) /\ (forall p, SIG (run_p geom LF crun p)).
  Proof. apply (P_interp (@SIG)); try exact Hcrun; sig_hyps. Qed.
  Lemma sig_cleanup inner : SIG (cleanup LF crun inner).
  Proof. clear geom. apply (P_cleanup (@SIG)); try exact Hcrun; sig_hyps. Qed.
  Lemma sig_custom_end r : SIG (custom_end r).
  Proof. clear geom Hcrun. apply (P_custom_end (@SIG)); sig_hyps. Qed.

  (* the only way for Custom's recover to report "rejected" *)
  Lemma custom_handler_none r s :
    res (custom_handler LF crun r s) = Ok None ->
    failed (ts (post (cleanup LF crun true s))) = None /\
    post (custom_handler LF crun r s) = post (cleanup LF crun true s) /\
    nf (w (custom_handler LF crun r s)) = nf (w (cleanup LF crun true s)).
  Proof.
    unfold custom_handler. destruct r as [v|[m|m st|m st|]]; try (cbn [throw res]; discriminate);
      unfold bind; destruct (res (cleanup LF crun true s)) as [[[m'|m' st'|m' st'|]|]|e];
      cbn [get_ts throw ret res post w]; try discriminate;
      try (destruct (internal_msg m); cbn [mark_dirty throw ret res post w]; discriminate);
      try match goal with |- context [ood ?t] => destruct (ood t); [|cbn [ret res]; discriminate] end;
      (destruct (failed (ts (post (cleanup LF crun true s)))) eqn:E; cbn [throw ret res post w]; [discriminate|];
       intros _; repeat split; cbn [nf wapp wnil w]; rewrite ?orb_false_r; reflexivity).
  Qed.

  Theorem custom_inner_rejected_no_nf (body : M val) s :
    SIG body -> res (custom_inner LF crun body s) = Ok None ->
    nf (w (custom_inner LF crun body s)) = false /\ failed (ts (post (custom_inner LF crun body s))) = None.
  Proof.
    intros Hb. unfold custom_inner. unfold bind at 1 2 3. cbn [emit_u res post w].
    set (inner := try_ body custom_end).
    assert (Hi : SIG inner) by (apply sig_try; [exact Hb|apply sig_custom_end]).
    unfold try_ at 1 2 3. cbn [res post w].
    intros H. destruct (custom_handler_none _ _ H) as [Hf [Hp Hn]].
    pose proof (proj1 (sig_try _ _ inner (fun _ => cleanup LF crun true) Hi (fun _ => sig_cleanup true)) s) as St.
    unfold try_ at 1 2 in St. cbn [post w] in St.
    split; [|rewrite Hp; exact Hf].
    cbn [nf wapp wuev]. rewrite Hn. cbn [orb].
    change (nf (wapp (w (inner s)) (w (cleanup LF crun true (post (inner s))))) = false).
    destruct (nf (wapp (w (inner s)) (w (cleanup LF crun true (post (inner s)))))); [|reflexivity].
    exfalso. apply (St (or_intror eq_refl)). exact Hf.
  Qed.

  Theorem custom_att_rejected_no_nf (body : M val) s :
    SIG body -> res (custom_att LF crun body s) = Ok None -> nf (w (custom_att LF crun body s)) = false.
  Proof.
    intros Hb. unfold custom_att, with_fresh_T. cbn [res w nf]. intros H.
    exact (proj1 (custom_inner_rejected_no_nf body _ Hb H)).
  Qed.

  (* so a rejected Custom attempt can make the run dirty only by registering on the outer T
     (a skip requested by a cleanup function of the inner T) *)
  Corollary custom_att_rejected_dirty (body : M val) s :
    SIG body -> res (custom_att LF crun body s) = Ok None ->
    dirty (wdiscard (w (custom_att LF crun body s))) =
    dirty (w (custom_att LF crun body s)) || reg (w (custom_att LF crun body s)).
  Proof.
    intros Hb H. unfold wdiscard. cbn [dirty]. rewrite (custom_att_rejected_no_nf body s Hb H), orb_false_r. reflexivity.
  Qed.
End RejectedCustom.

(* the interpreter as the engine runs it: every Custom generator of a property, at every cleanup nesting level *)
Theorem sig_exec geom LF : forall lvl p, SIG (exec geom LF lvl p).
Proof. apply (P_exec (@SIG)); sig_hyps. Qed.

Theorem rejected_custom_no_nf geom LF lvl body s :
  let att := custom_att LF (exec geom LF lvl) (run_p geom LF (exec geom LF lvl) body) in
  res (att s) = Ok None -> nf (w (att s)) = false.
Proof.
  cbv zeta. apply (custom_att_rejected_no_nf LF (exec geom LF lvl) (sig_exec geom LF lvl)).
  exact (sig_exec geom LF (S lvl) body).
Qed.

Print Assumptions rejected_custom_no_nf.
