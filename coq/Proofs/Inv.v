(* Invariants of every computation of the interpreter:
   - the pruned recording is a subsequence of the recording;
   - the test state changes only together with the writer flags nf / reg. *)
From Coq Require Import Lia.
Require Import Rapid.Model.Base Rapid.Model.Syntax Rapid.Model.Monad Rapid.Model.Prim Rapid.Model.Interp.
Require Import Rapid.Generated.Consts.

Local Open Scope nat_scope.
Arguments Nat.ltb : simpl never.
Arguments Nat.leb : simpl never.
Arguments N.leb : simpl never.
Arguments N.ltb : simpl never.
Arguments N.eqb : simpl never.
Arguments mask : simpl never.
Arguments internal_msg : simpl never.

Inductive sublist {A} : list A -> list A -> Prop :=
| sub_nil : sublist [] []
| sub_keep x a b : sublist a b -> sublist (x :: a) (x :: b)
| sub_drop x a b : sublist a b -> sublist a (x :: b).

Lemma sublist_refl A (l : list A) : sublist l l.
Proof. induction l; constructor; auto. Qed.
Lemma sublist_nil_l A (l : list A) : sublist [] l.
Proof. induction l; constructor; auto. Qed.
Lemma sublist_app A (a b c d : list A) : sublist a b -> sublist c d -> sublist (a ++ c) (b ++ d).
Proof. induction 1; cbn; intros; try constructor; auto. Qed.
Lemma sublist_length A (a b : list A) : sublist a b -> length a <= length b.
Proof. induction 1; cbn; lia. Qed.
Lemma sublist_nil_r A (a : list A) : sublist a [] -> a = [].
Proof. inversion 1; reflexivity. Qed.
Lemma sublist_same_length A (a b : list A) : sublist a b -> length a = length b -> a = b.
Proof.
  induction 1 as [|x a b H IH|x a b H IH]; cbn; intros L; auto.
  - f_equal. apply IH. lia.
  - apply sublist_length in H. lia.
Qed.

(* [strong = false] drops the last clause: T.cleanup pops and runs stored functions, which changes the
   test state without setting a flag - but only ever on a T whose state is discarded afterwards *)
Record inv_at {A} (strong : bool) (s : st) (o : out A) : Prop := mkInv {
  iv_sub : sublist (rpd (w o)) (rd (w o));
  iv_failed : nf (w o) = false -> failed (ts (post o)) = failed (ts s);
  iv_ts : strong = true -> nf (w o) = false -> reg (w o) = false -> ts (post o) = ts s }.
Definition INVb {A} (b : bool) (m : M A) : Prop := forall s, inv_at b s (m s).
Notation INV := (INVb true).
Lemma INV_weaken A b (m : M A) : INV m -> INVb b m.
Proof. intros H s. destruct (H s) as [H1 H2 H3]. constructor; auto. Qed.

Lemma inv_ret A (a : A) : INV (ret a).
Proof. intros s; constructor; cbn; auto using sub_nil. Qed.
Lemma inv_throw A e : INV (@throw A e).
Proof. intros s; constructor; cbn; auto using sub_nil. Qed.

Lemma inv_bind b A B (m : M A) (f : A -> M B) : INVb b m -> (forall a, INVb b (f a)) -> INVb b (bind m f).
Proof.
  intros Hm Hf s. unfold bind. destruct (Hm s) as [M1 M2 M3].
  destruct (res (m s)) as [a|e].
  - destruct (Hf a (post (m s))) as [F1 F2 F3]. constructor; cbn.
    + apply sublist_app; assumption.
    + intros H. apply orb_false_iff in H. destruct H as [H1 H2]. rewrite F2, M2; auto.
    + intros Hb H H'. apply orb_false_iff in H, H'. destruct H as [H1 H2], H' as [H3 H4]. rewrite F3, M3; auto.
  - constructor; cbn; auto.
Qed.

Lemma inv_emit_g e : INV (emit_g e). Proof. intros s; constructor; cbn; auto using sub_nil. Qed.
Lemma inv_emit_u e : INV (emit_u e). Proof. intros s; constructor; cbn; auto using sub_nil. Qed.
Lemma inv_get_ts : INV get_ts. Proof. intros s; constructor; cbn; auto using sub_nil. Qed.
Lemma inv_mark_dirty : INV mark_dirty. Proof. intros s; constructor; cbn; auto using sub_nil. Qed.
Lemma inv_signal k m id : INV (signal k m id).
Proof. intros s; unfold signal; destruct k; constructor; cbn; auto using sub_nil; discriminate. Qed.
Lemma inv_register id f : INV (register id f).
Proof. intros s; constructor; cbn; auto using sub_nil; discriminate. Qed.
Lemma inv_context_call : INV context_call.
Proof.
  intros s; unfold context_call. destruct (ctx (ts s)); [|destruct (cleaning (ts s))];
    constructor; cbn; auto using sub_nil; discriminate.
Qed.
Lemma inv_begin_cleanup : INVb false begin_cleanup.
Proof. intros s; constructor; cbn; auto using sub_nil; discriminate. Qed.
Lemma inv_end_cleanup : INVb false end_cleanup.
Proof. intros s; constructor; cbn; auto using sub_nil; discriminate. Qed.
Lemma inv_pop_cleanup : INVb false pop_cleanup.
Proof.
  intros s; unfold pop_cleanup. destruct (cleanups (ts s)) as [|[id c] rest]; [|destruct (cleaning (ts s))];
    constructor; cbn; auto using sub_nil; discriminate.
Qed.
Lemma inv_note_skip m : INVb false (note_skip m).
Proof. intros s; constructor; cbn; auto using sub_nil; discriminate. Qed.
Lemma inv_note_ood m : INVb false (note_ood m).
Proof. intros s; constructor; cbn; auto using sub_nil; discriminate. Qed.
Lemma inv_failOnError l : INV (failOnError l).
Proof. intros s. unfold failOnError. destruct (failed (ts s)); constructor; cbn; auto using sub_nil. Qed.

Lemma inv_drawBits n : INV (drawBits n).
Proof.
  intros s. unfold drawBits. destruct (src s) as [[|x l]|j].
  - constructor; cbn; auto using sub_nil.
  - constructor; cbn; auto using sublist_refl.
  - destruct (Nat.leb n 64).
    + destruct (jsf_rand j). constructor; cbn; auto using sublist_refl.
    + constructor; cbn; auto using sublist_refl.
Qed.

Lemma inv_group_d b A sa (m : M (A * bool)) : INVb b m -> INVb b (group_d sa m).
Proof.
  intros Hm s. unfold group_d. destruct (Hm s) as [M1 M2 M3].
  destruct (res (m s)) as [[a d]|e].
  - destruct d.
    + constructor; cbn; rewrite ?app_nil_r, ?orb_false_r; auto using sublist_nil_l.
    + destruct (rd (w (m s))) as [|x0 l0] eqn:E.
      * constructor; cbn; rewrite ?app_nil_r, ?orb_false_r; auto; try congruence.
      * assert (Hk : rd (wkeep (w (m s))) = rd (w (m s)) /\ rpd (wkeep (w (m s))) = rpd (w (m s))
                     /\ nf (wkeep (w (m s))) = nf (w (m s)) /\ reg (wkeep (w (m s))) = reg (w (m s))).
        { unfold wkeep. destruct (rpd (w (m s))) eqn:Ep; cbn; rewrite ?Ep; auto. }
        destruct Hk as [K1 [K2 [K3 K4]]].
        constructor; cbn; rewrite ?app_nil_r, ?orb_false_r, ?K1, ?K2, ?K3, ?K4; auto; try congruence.
  - constructor; cbn; rewrite ?app_nil_r, ?orb_false_r; auto.
Qed.

Lemma inv_group b A sa (m : M A) : INVb b m -> INVb b (group sa m).
Proof. intros Hm. apply inv_group_d. apply inv_bind; [exact Hm|intros; apply INV_weaken, inv_ret]. Qed.

Lemma inv_try b A B (m : M A) (h : result A -> M B) : INVb b m -> (forall r, INVb b (h r)) -> INVb b (try_ m h).
Proof.
  intros Hm Hh s. unfold try_. destruct (Hm s) as [M1 M2 M3].
  destruct (Hh (res (m s)) (post (m s))) as [F1 F2 F3]. constructor; cbn.
  - apply sublist_app; assumption.
  - intros H. apply orb_false_iff in H. destruct H as [H1 H2]. rewrite F2, M2; auto.
  - intros Hb H H'. apply orb_false_iff in H, H'. destruct H as [H1 H2], H' as [H3 H4]. rewrite F3, M3; auto.
Qed.
Lemma inv_try_w b A B (m : M A) (h : result A -> wr -> M B) : INVb b m -> (forall r x, INVb b (h r x)) -> INVb b (try_w m h).
Proof.
  intros Hm Hh s. unfold try_w. destruct (Hm s) as [M1 M2 M3].
  destruct (Hh (res (m s)) (w (m s)) (post (m s))) as [F1 F2 F3]. constructor; cbn.
  - apply sublist_app; assumption.
  - intros H. apply orb_false_iff in H. destruct H as [H1 H2]. rewrite F2, M2; auto.
  - intros Hb H H'. apply orb_false_iff in H, H'. destruct H as [H1 H2], H' as [H3 H4]. rewrite F3, M3; auto.
Qed.

Ltac inv_auto :=
  repeat first
    [ apply inv_ret | apply inv_throw | apply inv_emit_g | apply inv_emit_u | apply inv_get_ts
    | apply inv_signal | apply inv_register | apply inv_context_call | apply inv_mark_dirty | apply inv_failOnError | apply inv_drawBits
    | apply inv_group | apply inv_group_d
    | apply inv_bind; [|intros]
    | assumption
    | match goal with H : forall a, INV (_ a) |- _ => apply H end ].

Section PrimInv.
  Variable geom : nat -> N -> N.

  Lemma inv_coin K : INV (coin K).
  Proof. unfold coin. inv_auto. Qed.

  Lemma inv_unbiased_loop : forall fuel bitlen max, INV (unbiased_loop fuel bitlen max).
  Proof.
    induction fuel as [|f IH]; intros; cbn [unbiased_loop]; inv_auto.
    destruct (negb _); inv_auto; try apply IH.
  Qed.
  Lemma inv_biased_loop : forall fuel bl max n, INV (biased_loop fuel bl max n).
  Proof.
    induction fuel as [|f IH]; intros; cbn [biased_loop]; inv_auto.
    destruct (negb _); unfold biased_fin; inv_auto; try apply IH.
  Qed.
  Lemma inv_genUintN fuel max bias : INV (genUintN geom fuel max bias).
  Proof.
    unfold genUintN, genUintNBiased. destruct bias; inv_auto.
    - apply inv_biased_loop.
    - apply inv_unbiased_loop.
  Qed.
  Lemma inv_genUintRange fuel mn mx bias : INV (genUintRange geom fuel mn mx bias).
  Proof.
    unfold genUintRange, assert_fail. destruct (N.ltb mx mn); inv_auto.
    - apply inv_genUintN.
    - destruct a as [[u l] r]. inv_auto.
  Qed.
  Lemma inv_genIntRange fuel mn mx : INV (genIntRange geom fuel mn mx).
  Proof.
    unfold genIntRange, assert_fail. destruct (Z.ltb mx mn); inv_auto.
    destruct (Z.leb 0 mn); [|destruct (Z.leb mx 0)]; inv_auto; try apply inv_coin;
      (destruct a; inv_auto; try apply inv_genUintRange; destruct a as [[u l] r]; inv_auto).
  Qed.
  Lemma inv_genIndex fuel n bias : INV (genIndex geom fuel n bias).
  Proof. unfold genIndex, assert_fail. destruct n; inv_auto. apply inv_genUintN. Qed.

  Lemma inv_rep_iter A minc maxc K (body : A -> M (option A)) count rej force acc :
    (forall a, INV (body a)) -> INV (rep_iter minc maxc K body count rej force acc).
  Proof.
    intros Hb. unfold rep_iter. apply inv_group_d. apply inv_bind.
    - unfold rep_coin. destruct (N.ltb _ _); [apply inv_coin|]. destruct force; [inv_auto|].
      destruct (N.leb _ _); apply inv_coin.
    - intros cont. unfold rep_tail, rep_reject. destruct cont; inv_auto. destruct a; inv_auto.
      destruct (Nat.ltb _ _); inv_auto. destruct (N.leb _ _); inv_auto. destruct (N.eqb _ _); inv_auto.
  Qed.
  Lemma inv_rep_loop A minc maxc K (body : A -> M (option A)) :
    (forall a, INV (body a)) -> forall fuel count rej force acc, INV (rep_loop fuel minc maxc K body count rej force acc).
  Proof.
    intros Hb. induction fuel as [|f IH]; intros; cbn [rep_loop]; [apply inv_throw|].
    apply inv_bind; [apply inv_rep_iter; exact Hb|].
    intros r; destruct r; try apply inv_ret; apply IH.
  Qed.
  Lemma inv_find_loop A (att : M (option A)) : INV att -> forall tries, INV (find_loop att tries).
  Proof.
    intros Ha. induction tries as [|t IH]; cbn [find_loop]; [apply inv_throw|].
    apply inv_bind.
    - apply inv_group_d. apply inv_bind; [exact Ha|intros; apply inv_ret].
    - intros r; destruct r; [apply inv_ret|exact IH].
  Qed.
End PrimInv.

Section InterpInv.
  Variable geom : nat -> N -> N.
  Variable LF : nat.
  Variable crun : prog -> M val.
  Hypothesis Hcrun : forall p, INV (crun p).

  Ltac weak := first [ apply INV_weaken; solve [inv_auto] ].

  (* cleanup keeps [failed] unless a cleanup function signals; it rewrites the rest of the state *)
  Lemma inv_cleanup_loop inner : forall fuel last, INVb false (cleanup_loop crun inner fuel last).
  Proof.
    induction fuel as [|f IH]; intros last; cbn [cleanup_loop]; [weak|].
    apply inv_bind; [apply inv_pop_cleanup|intros c].
    destruct c as [c|]; [|weak].
    apply inv_try; [apply INV_weaken, Hcrun|].
    intros [v|e]; [apply IH|].
    destruct e; try apply IH.
    - destruct (inner && internal_msg m).
      + apply inv_bind; [weak|intros _].
        apply inv_bind; [apply inv_note_ood|intros; apply IH].
      + apply inv_bind; [destruct (internal_msg m); weak|intros _].
        apply inv_bind; [apply inv_note_skip|intros; apply IH].
    - weak.
  Qed.

  Lemma inv_cleanup inner : INVb false (cleanup LF crun inner).
  Proof.
    unfold cleanup. apply inv_bind; [apply inv_begin_cleanup|intros _].
    apply inv_bind; [apply inv_cleanup_loop|intros r].
    apply inv_bind; [apply inv_end_cleanup|intros _]. weak.
  Qed.

  Lemma inv_custom_end r : INV (custom_end r).
  Proof.
    unfold custom_end.
    assert (H : INV (_ <- emit_u (UCustomEnd (match r with Ok _ => 0 | Err _ => 1 end)) ;;
                 match r with Ok v => _ <- failOnError SCustomFOE ;; ret v | Err e => throw e end)).
    { apply inv_bind; [apply inv_emit_u|intros _]. destruct r; inv_auto. }
    destruct r as [v|[]]; try exact H. apply inv_throw.
  Qed.
  Lemma inv_custom_inner (body : M val) : INV body -> INVb false (custom_inner LF crun body).
  Proof.
    intros Hb. unfold custom_inner. apply inv_bind; [weak|intros _].
    apply inv_try; [apply INV_weaken; apply inv_try; [exact Hb|apply inv_custom_end]|intros r].
    unfold custom_handler.
    assert (H : INVb false (
                 c <- cleanup LF crun true ;;
                 t0 <- get_ts ;;
                 match c, r with
                 | None, Ok v =>
                     match ood t0 with
                     | Some m => match failed t0 with Some _ => throw (XInvalid m) | None => ret None end
                     | None => ret (Some v)
                     end
                 | Some e, Err (XInvalid m) => _ <- (if internal_msg m then mark_dirty else ret tt) ;; throw e
                 | Some e, _ => throw e
                 | None, Err (XInvalid m) => match failed t0 with Some _ => throw (XInvalid m) | None => ret None end
                 | None, Err e => throw e
                 end)).
    { apply inv_bind; [apply inv_cleanup|intros c].
      apply inv_bind; [weak|intros t0].
      destruct c as [[]|]; destruct r as [v|[]]; try weak; try (destruct (failed t0); weak);
        try (destruct (ood t0); [destruct (failed t0)|]; weak);
        (apply inv_bind; [destruct (internal_msg _); weak|intros; weak]). }
    destruct r as [v|[]]; try exact H. weak.
  Qed.
  Lemma inv_custom_att (body : M val) : INV body -> INV (custom_att LF crun body).
  Proof.
    intros Hb s. unfold custom_att, with_fresh_T.
    destruct (inv_custom_inner body Hb (with_ts s fresh_t)) as [H1 H2 _]. cbn [with_ts ts fresh_t failed] in H2.
    constructor; cbn [w rd rpd nf reg post ts with_ts].
    - exact H1.
    - intros Hn. rewrite (H2 Hn). reflexivity.
    - intros _ Hn Hr. rewrite (H2 Hn). destruct s as [x [f c cx cl sk od]]. cbn [ts skipreq failed cleanups ctx cleaning ood] in *.
      destruct sk; [reflexivity|]. destruct (skipreq _); [discriminate|reflexivity].
  Qed.

  Lemma inv_run_action id (run_act : nat -> val -> M val) i s :
    (forall i s, INV (run_act i s)) -> INV (run_action id run_act i s).
  Proof.
    intros Ha. unfold run_action. apply inv_try_w.
    - apply inv_try_w; [apply Ha|]. intros r wa. apply inv_bind; [inv_auto|intros _].
      destruct r; inv_auto.
    - intros r wa. destruct r as [v|e]; [inv_auto|]. destruct e; inv_auto.
      destruct (failed a); inv_auto. destruct (rd wa); inv_auto. destruct (internal_msg m); inv_auto.
  Qed.
  Lemma inv_exec_action id nacts (run_act : nat -> val -> M val) :
    (forall i s, INV (run_act i s)) -> forall tries s, INV (exec_action geom LF id nacts run_act tries s).
  Proof.
    intros Ha. induction tries as [|t IH]; intros s; cbn [exec_action]; [inv_auto|].
    apply inv_bind.
    - apply inv_group. apply inv_bind; [apply inv_group, inv_genIndex|intros i].
      apply inv_bind; [inv_auto|intros _]. apply inv_run_action. exact Ha.
    - intros r. destruct r; inv_auto; try apply IH.
  Qed.
  Lemma inv_run_repeat id K nacts (chk : val -> M unit) (run_act : nat -> val -> M val) s0 :
    (forall s, INV (chk s)) -> (forall i s, INV (run_act i s)) -> INV (run_repeat geom LF id K nacts chk run_act s0).
  Proof.
    intros Hc Ha. unfold run_repeat. apply inv_bind; [apply Hc|intros _].
    apply inv_bind; [inv_auto|intros _].
    apply inv_rep_loop. intros s. unfold repeat_step.
    apply inv_bind; [apply inv_exec_action; exact Ha|intros r].
    destruct r; inv_auto; try apply Hc.
  Qed.

  Scheme gexp_mut := Induction for gexp Sort Prop
    with prog_mut := Induction for prog Sort Prop.
  Combined Scheme gexp_prog_ind from gexp_mut, prog_mut.

  Theorem inv_interp :
    (forall g, INV (run_g geom LF crun g)) /\ (forall p, INV (run_p geom LF crun p)).
  Proof.
    apply gexp_prog_ind; intros; cbn [run_g run_p].
    - (* GBool *) inv_auto.
    - (* GUint *) apply inv_bind; [apply inv_genUintRange|intros; inv_auto].
    - (* GInt *) apply inv_bind; [apply inv_genIntRange|intros; inv_auto].
    - (* GSampled *) apply inv_bind; [apply inv_genIndex|intros; inv_auto].
    - (* GOneOf *) apply inv_bind; [apply inv_genIndex|intros i]. apply inv_group. apply H.
    - (* GPtr *) apply inv_bind; [apply inv_coin|intros b]. destruct b; unfold gval; inv_auto.
    - (* GSlice *) apply inv_bind; [|intros; inv_auto]. apply inv_rep_loop. intros acc.
      unfold slice_body. apply inv_bind; [unfold gval; inv_auto|intros v].
      destruct key; [destruct (existsb _ _)|]; inv_auto.
    - (* GMap *) apply inv_bind; [|intros; inv_auto]. apply inv_rep_loop. intros acc.
      unfold map_body. apply inv_bind; [unfold gval; inv_auto|intros kv]. destruct (existsb _ _); inv_auto.
    - (* GMapV *) apply inv_bind; [|intros; inv_auto]. apply inv_rep_loop. intros acc.
      unfold map_body. apply inv_bind; [unfold gval; inv_auto|intros kv]. destruct (existsb _ _); inv_auto.
    - (* GPerm *) apply inv_bind; [|intros; inv_auto]. apply inv_rep_loop. intros [i l].
      unfold perm_body. apply inv_bind; [apply inv_genUintRange|intros; inv_auto].
    - (* GFilter *) apply inv_find_loop. apply inv_bind; [unfold gval; inv_auto|intros; inv_auto].
    - (* GMapFn *) apply inv_bind; [unfold gval; inv_auto|intros; inv_auto].
    - (* GCustom *) apply inv_find_loop. apply inv_custom_att; assumption.
    - (* GDeferred *) unfold gval; inv_auto.
    - (* PRet *) inv_auto.
    - (* PDraw *) apply inv_bind; [unfold gval; inv_auto|intros v].
      apply inv_bind; [|intros _; apply H0].
      intros s; constructor; cbn; auto using sub_nil.
    - (* PFail *) apply inv_bind; [apply inv_signal|intros _]. destruct kind; inv_auto.
    - (* PSkip *) inv_auto.
    - (* PCleanup *) inv_auto.
    - (* PContext *) apply inv_bind; [apply inv_context_call|intros b]. apply H.
    - (* PFailed *) apply inv_bind; [inv_auto|intros t]. apply inv_bind; [inv_auto|intros _]. apply H.
    - (* PLog *) inv_auto.
    - (* PRepeat *) destruct nacts; [apply H1|].
      apply inv_bind; [|intros sfin; apply H1].
      apply inv_run_repeat.
      + intros s. destruct haschk; inv_auto. apply H.
      + intros i s. apply H0.
  Qed.
End InterpInv.
