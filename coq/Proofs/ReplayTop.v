(* Replay after prune at the level of one test case (checkOnce), for every program, every source,
   every cleanup nesting level. *)
From Coq Require Import Lia.
Require Import Rapid.Model.Base Rapid.Model.Syntax Rapid.Model.Monad Rapid.Model.Prim Rapid.Model.Interp
  Rapid.Model.Engine.
Require Import Rapid.Proofs.Inv Rapid.Proofs.Replay.
Local Open Scope nat_scope.
Arguments internal_msg : simpl never.

Section Top.
  Variable geom : nat -> N -> N.
  Variable LF : nat.
  Hypothesis HLF : 1 <= LF.

  Lemma exec_ok : forall lvl, (forall p, INV (exec geom LF lvl p)) /\ (forall p, replays (exec geom LF lvl p)).
  Proof.
    induction lvl as [|l [IHi IHr]]; cbn [exec].
    - split; intros p; [apply inv_throw|apply replays_throw].
    - split; intros p.
      + apply (inv_interp geom LF (exec geom LF l) IHi).
      + apply (replay_interp geom LF (exec geom LF l) HLF IHi IHr).
  Qed.

  Lemma replays_check_handler lvl r : replays (check_handler geom LF lvl r).
  Proof.
    destruct (exec_ok lvl) as [Hi Hr]. unfold check_handler.
    assert (H : replays (_ <- (match r with Err (XInvalid m) => if internal_msg m then mark_dirty else ret tt | _ => ret tt end) ;;
        c <- cleanup LF (exec geom LF lvl) false ;;
        t <- get_ts ;;
        let r' := match c with
                  | Some e => Err e
                  | None => match r, skipreq t with Ok _, Some m => Err (XInvalid m) | _, _ => r end
                  end in
        match r', failed t with
        | Err XFuel, _ => throw XFuel
        | Ok _, Some m | Err (XInvalid _), Some m => throw (XStop m SLate)
        | Ok _, None => ret tt
        | Err e, _ => throw e
        end)).
    { apply replays_bind.
      - destruct r as [|[]]; try apply replays_ret. destruct (internal_msg m); [apply replays_mark_dirty|apply replays_ret].
      - intros _. apply replays_bind; [apply replays_cleanup; assumption|intros c].
        apply replays_bind; [apply replays_get_ts|intros t]. cbv zeta.
        destruct (match c with Some e => Err e | None => match r, skipreq t with Ok _, Some m => Err (XInvalid m) | _, _ => r end end)
          as [u|[]]; destruct (failed t); try apply replays_throw; apply replays_ret. }
    destruct r as [u|[]]; try exact H. apply replays_throw.
  Qed.

  Theorem replays_checkOnce lvl p : replays (checkOnce geom LF lvl p).
  Proof.
    destruct (exec_ok (S lvl)) as [Hi Hr]. unfold checkOnce. intros s.
    apply (rep_at_try_care _ _ (fun _ => True)); [| | |exact I].
    - apply replays_bind; [apply Hr|intros; apply replays_failOnError].
    - apply replays_check_handler.
    - intros NG Hg _.
      assert (Hcases : forall (r : result unit), ~ good r -> r = Err XFuel \/ exists m, r = Err (XInvalid m) /\ internal_msg m = true).
      { intros r0. destruct r0 as [a|[m|m s0|m s0|]]; cbn; intros H; try (exfalso; apply H; exact I); auto.
        right. exists m. split; [reflexivity|]. destruct (internal_msg m); [reflexivity|exfalso; apply H; reflexivity]. }
      destruct (Hcases _ NG) as [E|[m [E Hm]]]; rewrite E in *.
      + cbn in Hg. contradiction.
      + unfold check_handler. rewrite Hm. unfold bind at 1. cbn [mark_dirty res post w]. cbn. reflexivity.
  Qed.

  (* the statement in plain terms *)
  Theorem replay_pruned_case lvl p x ext :
    let o := checkOnce geom LF lvl p (start x) in
    good (res o) -> dirty (w o) = false ->
    let o' := checkOnce geom LF lvl p (start (SBuf (rpd (w o) ++ ext))) in
    res o' = res o /\ pv (w o') = pv (w o) /\ rd (w o') = rpd (w o) /\ rpd (w o') = rpd (w o)
    /\ src (post o') = SBuf ext /\ ts (post o') = ts (post o) /\ dirty (w o') = false.
  Proof.
    intros o Hg Hd o'. destruct (replays_checkOnce lvl p (start x) Hg Hd ext) as [R1 R2 R3 R4 R5 R6 R7 R8].
    repeat split; assumption.
  Qed.
End Top.
