(* GENERATED from /repo by /verif/extract (locksets.go) - do not edit; rewritten (only when the content changes) on every check.
   Per method: the accesses to the receiver's fields and to package variables in source order, nested in the
   critical sections of its mutex (ILocked) and in sync.Once bodies (IOnce).  Rows named ALARM are constructs the
   translator does not understand or that are unprotected by construction: one unguarded write each. *)
From Coq Require Import List String.
From Rapid Require Import Model.Lockset.
Import ListNotations.
Local Open Scope string_scope.

Definition F_T_tb : field := 0.
Definition F_T_rawLog : field := 1.
Definition F_T_tbLog : field := 2.
Definition F_T_failed : field := 3.
Definition F_T_parent : field := 4.
Definition F_T_ctx : field := 5.
Definition F_T_cleaning : field := 6.
Definition F_T_cancelCtx : field := 7.
Definition F_T_cleanups : field := 8.
Definition F_T_skipping : field := 9.
Definition F_T_noData : field := 10.
Definition F_T_skipped : field := 11.
Definition F_Generator_impl : field := 12.
Definition F_pkg_anyRuneGen : field := 13.
Definition F_Generator_str : field := 14.
Definition F_pkg_flags : field := 15.
Definition F_pkg_tracebackBlacklist : field := 16.
Definition F_asAnyGen_gen : field := 17.
Definition F_castGen_gen : field := 18.
Definition F_castGen_typ : field := 19.
Definition F_customGen_fn : field := 20.
Definition F_deferredGen_fn : field := 21.
Definition F_deferredGen_g : field := 22.
Definition F_filteredGen_g : field := 23.
Definition F_filteredGen_fn : field := 24.
Definition F_floatGen_min : field := 25.
Definition F_floatGen_minVal : field := 26.
Definition F_floatGen_max : field := 27.
Definition F_floatGen_maxVal : field := 28.
Definition F_integerGen_hasMin : field := 29.
Definition F_integerGen_hasMax : field := 30.
Definition F_integerKindInfo_signed : field := 31.
Definition F_integerGen_kind : field := 32.
Definition F_integerKindInfo_smin : field := 33.
Definition F_integerKindInfo_smax : field := 34.
Definition F_integerGen_umin : field := 35.
Definition F_integerKindInfo_umax : field := 36.
Definition F_makeGen_gen : field := 37.
Definition F_mapGen_key : field := 38.
Definition F_mapGen_minLen : field := 39.
Definition F_mapGen_maxLen : field := 40.
Definition F_mapGen_val : field := 41.
Definition F_mapGen_keyFn : field := 42.
Definition F_mappedGen_g : field := 43.
Definition F_mappedGen_fn : field := 44.
Definition F_oneOfGen_gens : field := 45.
Definition F_permGen_slice : field := 46.
Definition F_ptrGen_elem : field := 47.
Definition F_ptrGen_allowNil : field := 48.
Definition F_regexpGen_expr : field := 49.
Definition F_regexpGen_syn : field := 50.
Definition F_pkg_regexpNames : field := 51.
Definition F_pkg_charClassGens : field := 52.
Definition F_pkg_expandedTables : field := 53.
Definition F_pkg_anyRuneGenNoNL : field := 54.
Definition F_regexpGen_re : field := 55.
Definition F_runeGen_default_ : field := 56.
Definition F_runeGen_runes : field := 57.
Definition F_runeGen_tables : field := 58.
Definition F_runeGen_die : field := 59.
Definition F_loadedDie_table : field := 60.
Definition F_sampledGen_slice : field := 61.
Definition F_sliceGen_keyFn : field := 62.
Definition F_sliceGen_minLen : field := 63.
Definition F_sliceGen_maxLen : field := 64.
Definition F_sliceGen_elem : field := 65.
Definition F_stringGen_elem : field := 66.
Definition F_stringGen_minRunes : field := 67.
Definition F_stringGen_maxRunes : field := 68.
Definition F_stringGen_maxLen : field := 69.

Definition field_names : list (field * string) := [(0, "T.tb"); (1, "T.rawLog"); (2, "T.tbLog"); (3, "T.failed"); (4, "T.parent"); (5, "T.ctx"); (6, "T.cleaning"); (7, "T.cancelCtx"); (8, "T.cleanups"); (9, "T.skipping"); (10, "T.noData"); (11, "T.skipped"); (12, "Generator.impl"); (13, "pkg.anyRuneGen"); (14, "Generator.str"); (15, "pkg.flags"); (16, "pkg.tracebackBlacklist"); (17, "asAnyGen.gen"); (18, "castGen.gen"); (19, "castGen.typ"); (20, "customGen.fn"); (21, "deferredGen.fn"); (22, "deferredGen.g"); (23, "filteredGen.g"); (24, "filteredGen.fn"); (25, "floatGen.min"); (26, "floatGen.minVal"); (27, "floatGen.max"); (28, "floatGen.maxVal"); (29, "integerGen.hasMin"); (30, "integerGen.hasMax"); (31, "integerKindInfo.signed"); (32, "integerGen.kind"); (33, "integerKindInfo.smin"); (34, "integerKindInfo.smax"); (35, "integerGen.umin"); (36, "integerKindInfo.umax"); (37, "makeGen.gen"); (38, "mapGen.key"); (39, "mapGen.minLen"); (40, "mapGen.maxLen"); (41, "mapGen.val"); (42, "mapGen.keyFn"); (43, "mappedGen.g"); (44, "mappedGen.fn"); (45, "oneOfGen.gens"); (46, "permGen.slice"); (47, "ptrGen.elem"); (48, "ptrGen.allowNil"); (49, "regexpGen.expr"); (50, "regexpGen.syn"); (51, "pkg.regexpNames"); (52, "pkg.charClassGens"); (53, "pkg.expandedTables"); (54, "pkg.anyRuneGenNoNL"); (55, "regexpGen.re"); (56, "runeGen.default_"); (57, "runeGen.runes"); (58, "runeGen.tables"); (59, "runeGen.die"); (60, "loadedDie.table"); (61, "sampledGen.slice"); (62, "sliceGen.keyFn"); (63, "sliceGen.minLen"); (64, "sliceGen.maxLen"); (65, "sliceGen.elem"); (66, "stringGen.elem"); (67, "stringGen.minRunes"); (68, "stringGen.maxRunes"); (69, "stringGen.maxLen")].

Definition MU_T_mu : mutex := 0.
Definition O_Generator_strOnce : once := 0.
Definition O_deferredGen_once : once := 1.

(* written elsewhere, not accessed by the table: T.draws <- Generator.Draw (generator.go:67) *)

(* ---- *T: methods that may be called from goroutines started by the property ---- *)
Definition t_methods : table := [
  (* promoted from embedded tb *)
  ("T.Helper", [
    IAcc F_T_tb false;
    ICall "tb.Helper"]);
  (* promoted from embedded tb *)
  ("T.Name", [
    IAcc F_T_tb false;
    ICall "tb.Name"]);
  (* engine.go:740 *)
  ("T.Log", [
    IAcc F_T_rawLog false;
    IAcc F_T_rawLog false;
    ICall "t.rawLog.Print";
    IAcc F_T_tbLog false;
    IAcc F_T_tb false;
    ICall "t.tb.Helper";
    IAcc F_T_tb false;
    ICall "t.tb.Log"]);
  (* engine.go:731 *)
  ("T.Logf", [
    IAcc F_T_rawLog false;
    IAcc F_T_rawLog false;
    ICall "t.rawLog.Printf";
    IAcc F_T_tbLog false;
    IAcc F_T_tb false;
    ICall "t.tb.Helper";
    IAcc F_T_tb false;
    ICall "t.tb.Logf"]);
  (* engine.go:788 *)
  ("T.Error", [
    IAcc F_T_tbLog false;
    IAcc F_T_tb false;
    ICall "t.tb.Helper";
    IAcc F_T_rawLog false;
    IAcc F_T_rawLog false;
    ICall "t.rawLog.Print";
    IAcc F_T_tbLog false;
    IAcc F_T_tb false;
    ICall "t.tb.Helper";
    IAcc F_T_tb false;
    ICall "t.tb.Log";
    ICall "fmt.Sprint";
    ILocked MU_T_mu MW [
      IAcc F_T_failed true;
      IAcc F_T_parent false;
      IAcc F_T_parent false;
      ICall "t.parent.fail";
      IAcc F_T_failed false]]);
  (* engine.go:779 *)
  ("T.Errorf", [
    IAcc F_T_tbLog false;
    IAcc F_T_tb false;
    ICall "t.tb.Helper";
    IAcc F_T_rawLog false;
    IAcc F_T_rawLog false;
    ICall "t.rawLog.Printf";
    IAcc F_T_tbLog false;
    IAcc F_T_tb false;
    ICall "t.tb.Helper";
    IAcc F_T_tb false;
    ICall "t.tb.Logf";
    ICall "fmt.Sprintf";
    ILocked MU_T_mu MW [
      IAcc F_T_failed true;
      IAcc F_T_parent false;
      IAcc F_T_parent false;
      ICall "t.parent.fail";
      IAcc F_T_failed false]]);
  (* engine.go:818 *)
  ("T.Fail", [
    ILocked MU_T_mu MW [
      IAcc F_T_failed true;
      IAcc F_T_parent false;
      IAcc F_T_parent false;
      ICall "t.parent.fail";
      IAcc F_T_failed false]]);
  (* engine.go:822 *)
  ("T.Failed", [
    ILocked MU_T_mu MR [
      IAcc F_T_failed false]]);
  (* engine.go:582 *)
  ("T.Context", [
    ILocked MU_T_mu MR [
      IAcc F_T_ctx false];
    IAtomic F_T_cleaning false;
    ICall "context.Background";
    ICall "context.WithCancel";
    ICall "cancel";
    ILocked MU_T_mu MW [
      IAcc F_T_ctx false;
      IAcc F_T_ctx false;
      IAcc F_T_tb false;
      ICall "tctx.Context";
      ICall "context.Background";
      ICall "context.WithCancel";
      IAcc F_T_ctx true;
      IAcc F_T_cancelCtx true]]);
  (* engine.go:641 *)
  ("T.Cleanup", [
    ILocked MU_T_mu MW [
      IAcc F_T_cleanups false;
      IAcc F_T_cleanups true]]);
  (* engine.go:759 *)
  ("T.Skip", [
    IAcc F_T_tbLog false;
    IAcc F_T_tb false;
    ICall "t.tb.Helper";
    IAcc F_T_rawLog false;
    IAcc F_T_rawLog false;
    ICall "t.rawLog.Print";
    IAcc F_T_tbLog false;
    IAcc F_T_tb false;
    ICall "t.tb.Helper";
    IAcc F_T_tb false;
    ICall "t.tb.Log";
    ICall "fmt.Sprint";
    IAtomic F_T_skipping true]);
  (* engine.go:750 *)
  ("T.Skipf", [
    IAcc F_T_tbLog false;
    IAcc F_T_tb false;
    ICall "t.tb.Helper";
    IAcc F_T_rawLog false;
    IAcc F_T_rawLog false;
    ICall "t.rawLog.Printf";
    IAcc F_T_tbLog false;
    IAcc F_T_tb false;
    ICall "t.tb.Helper";
    IAcc F_T_tb false;
    ICall "t.tb.Logf";
    ICall "fmt.Sprintf";
    IAtomic F_T_skipping true]);
  (* engine.go:774 *)
  ("T.SkipNow", [
    IAtomic F_T_skipping true]);
  (* engine.go:806 *)
  ("T.Fatal", [
    IAcc F_T_tbLog false;
    IAcc F_T_tb false;
    ICall "t.tb.Helper";
    IAcc F_T_rawLog false;
    IAcc F_T_rawLog false;
    ICall "t.rawLog.Print";
    IAcc F_T_tbLog false;
    IAcc F_T_tb false;
    ICall "t.tb.Helper";
    IAcc F_T_tb false;
    ICall "t.tb.Log";
    ICall "fmt.Sprint";
    ILocked MU_T_mu MW [
      IAcc F_T_failed true;
      IAcc F_T_parent false;
      IAcc F_T_parent false;
      ICall "t.parent.fail";
      IAcc F_T_failed false]]);
  (* engine.go:797 *)
  ("T.Fatalf", [
    IAcc F_T_tbLog false;
    IAcc F_T_tb false;
    ICall "t.tb.Helper";
    IAcc F_T_rawLog false;
    IAcc F_T_rawLog false;
    ICall "t.rawLog.Printf";
    IAcc F_T_tbLog false;
    IAcc F_T_tb false;
    ICall "t.tb.Helper";
    IAcc F_T_tb false;
    ICall "t.tb.Logf";
    ICall "fmt.Sprintf";
    ILocked MU_T_mu MW [
      IAcc F_T_failed true;
      IAcc F_T_parent false;
      IAcc F_T_parent false;
      ICall "t.parent.fail";
      IAcc F_T_failed false]]);
  (* engine.go:814 *)
  ("T.FailNow", [
    ILocked MU_T_mu MW [
      IAcc F_T_failed true;
      IAcc F_T_parent false;
      IAcc F_T_parent false;
      ICall "t.parent.fail";
      IAcc F_T_failed false]]);
  (* engine.go:834 *)
  ("T.fail", [
    ILocked MU_T_mu MW [
      IAcc F_T_failed true;
      IAcc F_T_parent false;
      IAcc F_T_parent false;
      ICall "t.parent.fail";
      IAcc F_T_failed false]]);
  (* engine.go:873 *)
  ("T.failOnError", [
    ILocked MU_T_mu MR [
      IAcc F_T_failed false;
      IAcc F_T_failed false]]);
  (* engine.go:851 *)
  ("T.failedError", [
    ILocked MU_T_mu MR [
      IAcc F_T_failed false;
      IAcc F_T_failed false]]);
  (* engine.go:650 *)
  ("T.cleanup", [
    IAtomic F_T_cleaning true;
    ILocked MU_T_mu MW [
      IAcc F_T_cancelCtx false;
      IAcc F_T_cancelCtx false;
      ICall "t.cancelCtx";
      IAcc F_T_cancelCtx true;
      IAcc F_T_ctx true];
    ILocked MU_T_mu MW [
      IAcc F_T_cleanups false;
      IAcc F_T_cleanups false;
      IAcc F_T_cleanups false;
      IAcc F_T_cleanups false;
      IAcc F_T_cleanups true];
    IAtomic F_T_skipping true;
    ICall "cleanup";
    IAcc F_T_parent false;
    IAtomic F_T_skipping false;
    ILocked MU_T_mu MW [
      IAcc F_T_noData false;
      IAcc F_T_noData true];
    ICall "root.mu.Lock";
    ICall "root.mu.Unlock";
    ILocked MU_T_mu MW [
      IAcc F_T_cleanups false];
    ICall "T.cleanup (recursive)";
    IAtomic F_T_cleaning true]);
  (* engine.go:567 *)
  ("T.shouldLog", [
    IAcc F_T_rawLog false;
    IAcc F_T_tbLog false]);
  (* engine.go:695 *)
  ("T.runCleanup", [
    IAtomic F_T_skipping true;
    ICall "cleanup";
    IAcc F_T_parent false;
    IAtomic F_T_skipping false;
    ILocked MU_T_mu MW [
      IAcc F_T_noData false;
      IAcc F_T_noData true];
    ICall "root.mu.Lock";
    ICall "root.mu.Unlock"]);
  (* engine.go:862 *)
  ("T.skippedError", [
    ILocked MU_T_mu MR [
      IAcc F_T_skipped false;
      IAcc F_T_skipped false]]);
  (* engine.go:829 *)
  ("T.skip", [
    IAtomic F_T_skipping true])
].

(* fields the table only reads and nothing outside constructors writes *)
Definition t_init_only : list field := [F_T_parent; F_T_rawLog; F_T_skipped; F_T_tb; F_T_tbLog].

(* ---- *Generator[V] and every generatorImpl type (types with a method value(t *T)): asAnyGen, boolGen, castGen, customGen, deferredGen, filteredGen, float32Gen, float64Gen, integerGen, makeGen, mapGen, mappedGen, oneOfGen, permGen, ptrGen, regexpSliceGen, regexpStringGen, runeGen, sampledGen, sliceGen, stringGen ---- *)
Definition g_methods : table := [
  (* generator.go:33 *)
  ("Generator.String", [
    IOnce O_Generator_strOnce [
      IAcc F_Generator_impl false;
      IAcc F_pkg_anyRuneGen false;
      ICall "g.impl.String";
      IAcc F_Generator_str true];
    IAcc F_Generator_str false]);
  (* generator.go:72 *)
  ("Generator.value", [
    IOnce O_Generator_strOnce [
      IAcc F_Generator_impl false;
      IAcc F_pkg_anyRuneGen false;
      ICall "g.impl.String";
      IAcc F_Generator_str true];
    IAcc F_Generator_str false;
    ICall "t.s.beginGroup";
    IAcc F_Generator_impl false;
    ICall "g.impl.value";
    ICall "t.s.endGroup"]);
  (* generator.go:42 *)
  ("Generator.Draw", [
    ICall "t.tb.Helper";
    IOnce O_Generator_strOnce [
      IAcc F_Generator_impl false;
      IAcc F_pkg_anyRuneGen false;
      ICall "g.impl.String";
      IAcc F_Generator_str true];
    IAcc F_Generator_str false;
    ICall "t.s.beginGroup";
    IAcc F_Generator_impl false;
    ICall "g.impl.value";
    ICall "t.s.endGroup";
    ICall "reflect.DeepEqual";
    ICall "t.tb.Fatalf";
    ICall "fmt.Sprintf";
    ICall "t.tb.Helper";
    ICall "t.Logf"]);
  (* generator.go:81 *)
  ("Generator.Example", [
    IAcc F_pkg_flags false;
    IAcc F_pkg_flags false;
    IAcc F_pkg_flags false;
    IOnce O_Generator_strOnce [
      IAcc F_Generator_impl false;
      IAcc F_pkg_anyRuneGen false;
      ICall "g.impl.String";
      IAcc F_Generator_str true];
    IAcc F_Generator_str false;
    ICall "t.s.beginGroup";
    IAcc F_Generator_impl false;
    ICall "g.impl.value";
    ICall "t.s.endGroup";
    IAcc F_pkg_tracebackBlacklist false;
    ICall "t.cleanup";
    ICall "fmt.Sprintf"]);
  (* generator.go:94 *)
  ("Generator.Filter", []);
  (* generator.go:99 *)
  ("Generator.AsAny", []);
  (* combinators.go:302 *)
  ("asAnyGen.String", [
    IAcc F_asAnyGen_gen false;
    ICall "fmt.Sprintf"]);
  (* combinators.go:306 *)
  ("asAnyGen.value", [
    IAcc F_asAnyGen_gen false;
    IAcc F_pkg_anyRuneGen false;
    ICall "g.gen.value"]);
  (* integers.go:68 *)
  ("boolGen.String", []);
  (* integers.go:69 *)
  ("boolGen.value", [
    ICall "t.s.drawBits"]);
  (* make.go:51 *)
  ("castGen.String", [
    IAcc F_castGen_gen false;
    IAcc F_castGen_typ false;
    ICall "g.typ.Name";
    ICall "fmt.Sprintf"]);
  (* make.go:55 *)
  ("castGen.value", [
    IAcc F_castGen_gen false;
    IAcc F_pkg_anyRuneGen false;
    ICall "g.gen.value";
    ICall "reflect.ValueOf";
    IAcc F_castGen_typ false;
    ICall "reflect.ValueOf().Convert";
    ICall "reflect.ValueOf().Convert().Interface"]);
  (* combinators.go:31 *)
  ("customGen.String", [
    ICall "fmt.Sprintf"]);
  (* combinators.go:36 *)
  ("customGen.value", [
    IAcc F_pkg_flags false;
    IAcc F_pkg_flags false;
    IAcc F_customGen_fn false;
    ICall "g.fn";
    ICall "t.failOnError";
    ICall "t.cleanup";
    ICall "t.mu.RLock";
    ICall "t.mu.RUnlock";
    ICall "t.Failed"]);
  (* combinators.go:88 *)
  ("deferredGen.String", [
    ICall "fmt.Sprintf"]);
  (* combinators.go:93 *)
  ("deferredGen.value", [
    IOnce O_deferredGen_once [
      IAcc F_deferredGen_fn false;
      ICall "g.fn";
      IAcc F_deferredGen_g true];
    IAcc F_deferredGen_g false;
    IAcc F_pkg_anyRuneGen false;
    ICall "g.g.value"]);
  (* combinators.go:112 *)
  ("filteredGen.String", [
    IAcc F_filteredGen_g false;
    ICall "fmt.Sprintf"]);
  (* combinators.go:116 *)
  ("filteredGen.value", [
    IAcc F_filteredGen_g false;
    IAcc F_pkg_anyRuneGen false;
    ICall "g.g.value";
    IAcc F_filteredGen_fn false;
    ICall "g.fn"]);
  (* floats.go:110 *)
  ("float32Gen.String", [
    IAcc F_floatGen_min false;
    IAcc F_floatGen_minVal false;
    IAcc F_floatGen_max false;
    IAcc F_floatGen_maxVal false;
    IAcc F_floatGen_min false;
    IAcc F_floatGen_max false;
    ICall "fmt.Sprintf";
    IAcc F_floatGen_min false;
    IAcc F_floatGen_minVal false;
    IAcc F_floatGen_min false;
    ICall "fmt.Sprintf";
    IAcc F_floatGen_max false;
    IAcc F_floatGen_maxVal false;
    IAcc F_floatGen_max false;
    ICall "fmt.Sprintf";
    ICall "fmt.Sprintf"]);
  (* floats.go:117 *)
  ("float32Gen.value", [
    IAcc F_floatGen_min false;
    IAcc F_floatGen_max false]);
  (* floats.go:113 *)
  ("float64Gen.String", [
    IAcc F_floatGen_min false;
    IAcc F_floatGen_minVal false;
    IAcc F_floatGen_max false;
    IAcc F_floatGen_maxVal false;
    IAcc F_floatGen_min false;
    IAcc F_floatGen_max false;
    ICall "fmt.Sprintf";
    IAcc F_floatGen_min false;
    IAcc F_floatGen_minVal false;
    IAcc F_floatGen_min false;
    ICall "fmt.Sprintf";
    IAcc F_floatGen_max false;
    IAcc F_floatGen_maxVal false;
    IAcc F_floatGen_max false;
    ICall "fmt.Sprintf";
    ICall "fmt.Sprintf"]);
  (* floats.go:120 *)
  ("float64Gen.value", [
    IAcc F_floatGen_min false;
    IAcc F_floatGen_max false]);
  (* integers.go:240 *)
  ("integerGen.String", [
    IAcc F_integerGen_hasMin false;
    IAcc F_integerGen_hasMax false;
    IAcc F_integerKindInfo_signed false;
    IAcc F_integerGen_kind false;
    IAcc F_integerKindInfo_smin false;
    IAcc F_integerKindInfo_smax false;
    ICall "fmt.Sprintf";
    IAcc F_integerGen_kind false;
    IAcc F_integerGen_umin false;
    IAcc F_integerKindInfo_umax false;
    ICall "fmt.Sprintf";
    IAcc F_integerGen_hasMin false;
    IAcc F_integerKindInfo_signed false;
    IAcc F_integerGen_kind false;
    IAcc F_integerKindInfo_smin false;
    ICall "fmt.Sprintf";
    IAcc F_integerGen_kind false;
    IAcc F_integerGen_umin false;
    ICall "fmt.Sprintf";
    IAcc F_integerGen_hasMax false;
    IAcc F_integerKindInfo_signed false;
    IAcc F_integerGen_kind false;
    IAcc F_integerKindInfo_smax false;
    ICall "fmt.Sprintf";
    IAcc F_integerGen_kind false;
    IAcc F_integerKindInfo_umax false;
    ICall "fmt.Sprintf";
    IAcc F_integerGen_kind false;
    ICall "fmt.Sprintf"]);
  (* integers.go:264 *)
  ("integerGen.value", [
    IAcc F_integerKindInfo_signed false;
    IAcc F_integerKindInfo_smin false;
    IAcc F_integerKindInfo_smax false;
    IAcc F_integerGen_umin false;
    IAcc F_integerKindInfo_umax false]);
  (* make.go:29 *)
  ("makeGen.String", [
    ICall "fmt.Sprintf"]);
  (* make.go:34 *)
  ("makeGen.value", [
    IAcc F_makeGen_gen false;
    IAcc F_pkg_anyRuneGen false;
    ICall "g.gen.value"]);
  (* collections.go:150 *)
  ("mapGen.String", [
    IAcc F_mapGen_key false;
    IAcc F_mapGen_minLen false;
    IAcc F_mapGen_maxLen false;
    IAcc F_mapGen_key false;
    IAcc F_mapGen_val false;
    ICall "fmt.Sprintf";
    IAcc F_mapGen_key false;
    IAcc F_mapGen_val false;
    IAcc F_mapGen_minLen false;
    IAcc F_mapGen_maxLen false;
    ICall "fmt.Sprintf";
    IAcc F_mapGen_minLen false;
    IAcc F_mapGen_maxLen false;
    IAcc F_mapGen_val false;
    IAcc F_mapGen_keyFn false;
    ICall "fmt.Sprintf";
    IAcc F_mapGen_val false;
    IAcc F_mapGen_minLen false;
    IAcc F_mapGen_maxLen false;
    IAcc F_mapGen_keyFn false;
    ICall "fmt.Sprintf"]);
  (* collections.go:166 *)
  ("mapGen.value", [
    IAcc F_mapGen_val false;
    IAcc F_pkg_anyRuneGen false;
    ICall "g.val.String";
    IAcc F_mapGen_key false;
    IAcc F_mapGen_key false;
    ICall "g.key.String";
    IAcc F_mapGen_minLen false;
    IAcc F_mapGen_maxLen false;
    ICall "repeat.avg";
    ICall "repeat.more";
    IAcc F_mapGen_key false;
    IAcc F_mapGen_key false;
    ICall "g.key.value";
    IAcc F_mapGen_val false;
    ICall "g.val.value";
    IAcc F_mapGen_val false;
    ICall "g.val.value";
    IAcc F_mapGen_keyFn false;
    ICall "g.keyFn";
    ICall "repeat.reject"]);
  (* combinators.go:156 *)
  ("mappedGen.String", [
    IAcc F_mappedGen_g false;
    IAcc F_mappedGen_fn false;
    ICall "fmt.Sprintf"]);
  (* combinators.go:160 *)
  ("mappedGen.value", [
    IAcc F_mappedGen_g false;
    IAcc F_pkg_anyRuneGen false;
    ICall "g.g.value";
    IAcc F_mappedGen_fn false;
    ICall "g.fn"]);
  (* combinators.go:246 *)
  ("oneOfGen.String", [
    IAcc F_oneOfGen_gens false;
    IAcc F_oneOfGen_gens false;
    ICall "g.String";
    ICall "strings.Join";
    ICall "fmt.Sprintf"]);
  (* combinators.go:255 *)
  ("oneOfGen.value", [
    IAcc F_oneOfGen_gens false;
    IAcc F_oneOfGen_gens false;
    IAcc F_pkg_anyRuneGen false;
    ICall "g.gens.value"]);
  (* combinators.go:209 *)
  ("permGen.String", [
    IAcc F_permGen_slice false;
    ICall "fmt.Sprintf"]);
  (* combinators.go:214 *)
  ("permGen.value", [
    IAcc F_permGen_slice false;
    ICall "repeat.more"]);
  (* combinators.go:274 *)
  ("ptrGen.String", [
    IAcc F_ptrGen_elem false;
    IAcc F_ptrGen_allowNil false;
    ICall "fmt.Sprintf"]);
  (* combinators.go:278 *)
  ("ptrGen.value", [
    IAcc F_ptrGen_allowNil false;
    IAcc F_ptrGen_elem false;
    IAcc F_pkg_anyRuneGen false;
    ICall "g.elem.value"]);
  (* strings.go:266 *)
  ("regexpSliceGen.String", [
    IAcc F_regexpGen_expr false;
    ICall "fmt.Sprintf"]);
  (* strings.go:297 *)
  ("regexpSliceGen.value", [
    IAcc F_regexpGen_syn false;
    IAcc F_pkg_anyRuneGen false;
    ICall "re.Op.String";
    ICall "t.s.beginGroup";
    ICall "t.s.drawBits";
    ICall "t.s.drawBits";
    ICall "w.WriteRune";
    IAcc F_pkg_anyRuneGen false;
    IAtomic F_pkg_regexpNames false;
    IAtomic F_pkg_regexpNames true;
    IAtomic F_pkg_charClassGens false;
    IAtomic F_pkg_expandedTables false;
    IAtomic F_pkg_expandedTables true;
    IAtomic F_pkg_charClassGens true;
    IAcc F_pkg_anyRuneGenNoNL false;
    ICall "sub.value";
    ICall "w.WriteRune";
    ICall "t.s.drawBits";
    ICall "regexpGen.build (recursive)";
    ICall "repeat.more";
    ICall "regexpGen.build (recursive)";
    ICall "regexpGen.build (recursive)";
    ICall "regexpGen.build (recursive)";
    ICall "t.s.endGroup";
    ICall "b.Bytes";
    IAcc F_regexpGen_re false;
    ICall "g.re.Match"]);
  (* strings.go:263 *)
  ("regexpStringGen.String", [
    IAcc F_regexpGen_expr false;
    ICall "fmt.Sprintf"]);
  (* strings.go:294 *)
  ("regexpStringGen.value", [
    IAcc F_regexpGen_syn false;
    IAcc F_pkg_anyRuneGen false;
    ICall "re.Op.String";
    ICall "t.s.beginGroup";
    ICall "t.s.drawBits";
    ICall "t.s.drawBits";
    ICall "w.WriteRune";
    IAcc F_pkg_anyRuneGen false;
    IAtomic F_pkg_regexpNames false;
    IAtomic F_pkg_regexpNames true;
    IAtomic F_pkg_charClassGens false;
    IAtomic F_pkg_expandedTables false;
    IAtomic F_pkg_expandedTables true;
    IAtomic F_pkg_charClassGens true;
    IAcc F_pkg_anyRuneGenNoNL false;
    ICall "sub.value";
    ICall "w.WriteRune";
    ICall "t.s.drawBits";
    ICall "regexpGen.build (recursive)";
    ICall "repeat.more";
    ICall "regexpGen.build (recursive)";
    ICall "regexpGen.build (recursive)";
    ICall "regexpGen.build (recursive)";
    ICall "t.s.endGroup";
    ICall "b.String";
    IAcc F_regexpGen_re false;
    ICall "g.re.MatchString"]);
  (* strings.go:121 *)
  ("runeGen.String", [
    IAcc F_runeGen_default_ false;
    IAcc F_runeGen_runes false;
    IAcc F_runeGen_tables false;
    ICall "fmt.Sprintf"]);
  (* strings.go:129 *)
  ("runeGen.value", [
    IAcc F_runeGen_die false;
    ICall "s.beginGroup";
    IAcc F_loadedDie_table false;
    ICall "s.endGroup";
    IAcc F_loadedDie_table false;
    IAcc F_runeGen_runes false;
    IAcc F_runeGen_runes false;
    IAcc F_runeGen_tables false;
    IAcc F_runeGen_tables false]);
  (* combinators.go:184 *)
  ("sampledGen.String", [
    IAcc F_sampledGen_slice false;
    IAcc F_sampledGen_slice false;
    ICall "fmt.Sprintf";
    IAcc F_sampledGen_slice false;
    IAcc F_sampledGen_slice false;
    ICall "fmt.Sprintf"]);
  (* combinators.go:192 *)
  ("sampledGen.value", [
    IAcc F_sampledGen_slice false;
    IAcc F_sampledGen_slice false]);
  (* collections.go:61 *)
  ("sliceGen.String", [
    IAcc F_sliceGen_keyFn false;
    IAcc F_sliceGen_minLen false;
    IAcc F_sliceGen_maxLen false;
    IAcc F_sliceGen_elem false;
    ICall "fmt.Sprintf";
    IAcc F_sliceGen_elem false;
    IAcc F_sliceGen_minLen false;
    IAcc F_sliceGen_maxLen false;
    ICall "fmt.Sprintf";
    IAcc F_sliceGen_minLen false;
    IAcc F_sliceGen_maxLen false;
    IAcc F_sliceGen_elem false;
    IAcc F_sliceGen_keyFn false;
    ICall "fmt.Sprintf";
    IAcc F_sliceGen_elem false;
    IAcc F_sliceGen_minLen false;
    IAcc F_sliceGen_maxLen false;
    IAcc F_sliceGen_keyFn false;
    ICall "fmt.Sprintf"]);
  (* collections.go:77 *)
  ("sliceGen.value", [
    IAcc F_sliceGen_minLen false;
    IAcc F_sliceGen_maxLen false;
    IAcc F_sliceGen_elem false;
    IAcc F_pkg_anyRuneGen false;
    ICall "g.elem.String";
    IAcc F_sliceGen_keyFn false;
    ICall "repeat.avg";
    ICall "repeat.avg";
    ICall "repeat.more";
    IAcc F_sliceGen_elem false;
    ICall "g.elem.value";
    IAcc F_sliceGen_keyFn false;
    IAcc F_sliceGen_keyFn false;
    ICall "g.keyFn";
    ICall "repeat.reject"]);
  (* strings.go:182 *)
  ("stringGen.String", [
    IAcc F_stringGen_elem false;
    IAcc F_pkg_anyRuneGen false;
    IAcc F_stringGen_minRunes false;
    IAcc F_stringGen_maxRunes false;
    IAcc F_stringGen_maxLen false;
    IAcc F_stringGen_minRunes false;
    IAcc F_stringGen_maxRunes false;
    IAcc F_stringGen_maxLen false;
    ICall "fmt.Sprintf";
    IAcc F_stringGen_minRunes false;
    IAcc F_stringGen_maxRunes false;
    IAcc F_stringGen_maxLen false;
    IAcc F_stringGen_elem false;
    ICall "fmt.Sprintf";
    IAcc F_stringGen_elem false;
    IAcc F_stringGen_minRunes false;
    IAcc F_stringGen_maxRunes false;
    IAcc F_stringGen_maxLen false;
    ICall "fmt.Sprintf"]);
  (* strings.go:198 *)
  ("stringGen.value", [
    IAcc F_stringGen_minRunes false;
    IAcc F_stringGen_maxRunes false;
    IAcc F_stringGen_elem false;
    IAcc F_pkg_anyRuneGen false;
    ICall "g.elem.String";
    ICall "repeat.avg";
    ICall "b.Grow";
    IAcc F_stringGen_maxLen false;
    ICall "repeat.more";
    IAcc F_stringGen_elem false;
    ICall "g.elem.value";
    ICall "utf8.RuneLen";
    ICall "b.Len";
    ICall "repeat.reject";
    ICall "b.WriteRune";
    ICall "b.String"])
].

(* fields the table only reads and nothing outside constructors writes *)
Definition g_init_only : list field := [F_Generator_impl; F_asAnyGen_gen; F_castGen_gen; F_castGen_typ; F_customGen_fn; F_deferredGen_fn; F_filteredGen_fn; F_filteredGen_g; F_floatGen_max; F_floatGen_maxVal; F_floatGen_min; F_floatGen_minVal; F_integerGen_hasMax; F_integerGen_hasMin; F_integerGen_kind; F_integerGen_umin; F_integerKindInfo_signed; F_integerKindInfo_smax; F_integerKindInfo_smin; F_integerKindInfo_umax; F_loadedDie_table; F_makeGen_gen; F_mapGen_key; F_mapGen_keyFn; F_mapGen_maxLen; F_mapGen_minLen; F_mapGen_val; F_mappedGen_fn; F_mappedGen_g; F_oneOfGen_gens; F_permGen_slice; F_pkg_anyRuneGen; F_pkg_anyRuneGenNoNL; F_pkg_flags; F_pkg_tracebackBlacklist; F_ptrGen_allowNil; F_ptrGen_elem; F_regexpGen_expr; F_regexpGen_re; F_regexpGen_syn; F_runeGen_default_; F_runeGen_die; F_runeGen_runes; F_runeGen_tables; F_sampledGen_slice; F_sliceGen_elem; F_sliceGen_keyFn; F_sliceGen_maxLen; F_sliceGen_minLen; F_stringGen_elem; F_stringGen_maxLen; F_stringGen_maxRunes; F_stringGen_minRunes].

