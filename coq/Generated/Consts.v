(* PLACEHOLDER - regenerated from /repo by /verif/extract on every run. *)
From Coq Require Import NArith String.
Definition c_small : nat := 5.
Definition c_invalidChecksMult : nat := 10.
Definition c_validActionTries : nat := 100.
Definition c_exampleMaxTries : nat := 1000.
