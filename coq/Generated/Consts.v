(* GENERATED from /repo by /verif/extract - do not edit; rewritten (only when the content changes) on every check. *)
From Coq Require Import List NArith String.
Import ListNotations.

Definition c_small : nat := 5.
Definition c_invalidChecksMult : nat := 10.
Definition c_validActionTries : nat := 100.
Definition c_exampleMaxTries : nat := 1000.

(* persist.go *)
Definition c_rapidVersion : string := "v0.4.8"%string.
Definition c_failfileTmpPattern : string := ".rapid-failfile-tmp-*"%string.
Definition c_persistDirMode : N := 509%N.
(* fmt.Sprintf format of the file name in failFileName, and of the glob pattern in failFilePattern *)
Definition c_failFileNameFmt : string := "%s-%s-%d.fail"%string.
Definition c_failFilePatternFmt : string := "%s-*.fail"%string.
(* literal leading components of filepath.Join in both functions; the sanitized test name follows *)
Definition c_failDirParts : list string := ["testdata"%string; "rapid"%string].
(* windowsReservedNames as lists of code points *)
Definition c_windowsReservedNames : list (list N) := [
  [67; 79; 78];
  [80; 82; 78];
  [65; 85; 88];
  [78; 85; 76];
  [67; 79; 77; 48];
  [67; 79; 77; 49];
  [67; 79; 77; 50];
  [67; 79; 77; 51];
  [67; 79; 77; 52];
  [67; 79; 77; 53];
  [67; 79; 77; 54];
  [67; 79; 77; 55];
  [67; 79; 77; 56];
  [67; 79; 77; 57];
  [67; 79; 77; 185];
  [67; 79; 77; 178];
  [67; 79; 77; 179];
  [76; 80; 84; 48];
  [76; 80; 84; 49];
  [76; 80; 84; 50];
  [76; 80; 84; 51];
  [76; 80; 84; 52];
  [76; 80; 84; 53];
  [76; 80; 84; 54];
  [76; 80; 84; 55];
  [76; 80; 84; 56];
  [76; 80; 84; 57];
  [76; 80; 84; 185];
  [76; 80; 84; 178];
  [76; 80; 84; 179]]%N.
