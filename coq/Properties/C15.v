(* C15 -- a generator can be shared by concurrently running checks.
   Only statements, `exact` of the lemmas proved in Proofs/, Print Assumptions, and examples. *)
From Coq Require Import List Arith Bool NArith.
From Rapid Require Import Model.Lockset Generated.Locksets.
From Rapid Require Import Proofs.LocksetProofs Proofs.LocksetExamples.
Require Import Rapid.Model.Base Rapid.Model.Syntax Rapid.Model.Monad Rapid.Model.Prim Rapid.Model.Interp.
From Rapid Require Import Proofs.GenPure.
Import ListNotations.

(* The table of *Generator[V] (String, value, Draw, Example, Filter, AsAny) and of String/value of
   every generatorImpl type, regenerated from /repo on every run, passes the lockset check:
   sync.Once.Do bodies as synchronisation, sync.Map operations atomic, everything else read-only
   after construction. *)
Theorem C15_table_ok : table_ok g_methods = true.
Proof. vm_compute. reflexivity. Qed.
Print Assumptions C15_table_ok.

(* hence (lockset_sound): no data race on a generator shared by any number of goroutines *)
Theorem C15_no_race : forall tr : trace,
  wf_trace tr -> conforms g_methods tr -> forall i j, ~ race tr i j.
Proof. exact (fun tr => lockset_sound g_methods tr C15_table_ok). Qed.
Print Assumptions C15_no_race.

(* Semantically: in the model a generator expression is an immutable value and run_g a function of
   the drawing check's own state (its T and bit stream) *)
Theorem C15_pure : forall (geom : nat -> N -> N) (LF : nat) (crun : prog -> M val) (g : gexp) (s s' : st),
  s = s' -> run_g geom LF crun g s = run_g geom LF crun g s'.
Proof. exact gen_pure. Qed.
Print Assumptions C15_pure.

(* ... so the k-th user of a shared generator gets what it would get as the only user *)
Theorem C15_shared : forall (geom : nat -> N -> N) (LF : nat) (crun : prog -> M val)
    (g : gexp) (before after : list st) (s : st) (d : out val),
  nth (length before) (run_shared geom LF crun g (before ++ s :: after)) d = run_g geom LF crun g s.
Proof. exact gen_shared. Qed.
Print Assumptions C15_shared.

(* ---- non-vacuity ---- *)

(* the check is able to reject: the shape of the cached-label defect (a field written in a Once
   body, read elsewhere without going through the Once) fails, the repaired shape passes *)
Example C15_ex_once_shape :
  table_ok d7_tbl = false /\ bad_rows d7_tbl = map fst d7_tbl /\ table_ok d7_fixed = true.
Proof. exact (conj (proj1 d7_rejected) (conj (proj2 d7_rejected) d7_fixed_ok)). Qed.

(* a Once orders the write in its function before a read made after another goroutine's Do returned *)
Example C15_ex_once_trace : hb once_tr 1 5.
Proof. exact once_tr_ordered. Qed.

(* the generated table is not trivial: it has a row pair per generatorImpl type, a Once, atomics *)
Example C15_ex_table_nonempty :
  Nat.leb 40 (List.length g_methods) = true /\
  existsb (fun a => match a_in a with [] => false | _ => true end) (table_anns g_methods) = true /\
  existsb a_at (table_anns g_methods) = true /\
  existsb a_w (table_anns g_methods) = true.
Proof. vm_compute. repeat split; reflexivity. Qed.
