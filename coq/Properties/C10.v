(* C10 - every invocation gets a live context and has all its cleanups run, LIFO.  Statements only. *)
From Coq Require Import Lia.
Require Import Rapid.Model.Base Rapid.Model.Syntax Rapid.Model.Monad Rapid.Model.Interp Rapid.Model.Engine Rapid.Model.Pexp Rapid.Model.Corr Rapid.Model.Shrink.
Require Import Rapid.Proofs.Bracket Rapid.Proofs.BracketEnd.
Require Import Rapid.Generated.GeomTable.
Require Import Rapid.Proofs.Glue.
Local Open Scope nat_scope.

(* The discipline is the acceptor [run_ev] (Proofs/Bracket.v) over the event trace, one frame per T:
   - T.Context() returns a live context only in the body and the SAME live context until it is cancelled
     (UCtxSeen true needs live, UCtxNew needs not live); during cleanup it returns a cancelled one;
   - the context is cancelled before the first cleanup function starts (URun needs not live and cleaning);
   - a cleanup function starts only as the top of the stack of registered ones: last-in first-out, each
     registration started at most once - and exactly once because the bracket ends empty (next theorem);
   - a Custom attempt runs on a frame of its own (UFrameBegin .. UFrameEnd).
   For every program, every source, every enclosing frames: the whole trace of a test case is accepted. *)
Theorem C10_bracket_discipline :
  forall geom LF lvl p x fs,
    run_ev (tr (w (checkOnce geom LF lvl p (start x)))) (mkF [] false false :: fs)
    = Some (frame_of (ts (post (checkOnce geom LF lvl p (start x)))) :: fs).
Proof. exact C10_bracket_discipline_glue. Qed.
Print Assumptions C10_bracket_discipline.

(* ... and when the test case is over the T is empty: no cleanup left, context cancelled, not cleaning -
   whether the body passed, failed, panicked or was skipped, and whatever the cleanups did. *)
Theorem C10_ends_empty :
  forall geom LF lvl p x,
    res (checkOnce geom LF lvl p (start x)) <> Err XFuel ->
    frame_of (ts (post (checkOnce geom LF lvl p (start x)))) = mkF [] false false.
Proof. exact C10_ends_empty_glue. Qed.
Print Assumptions C10_ends_empty.

(* the same for T.cleanup on any T (the inner T of a Custom attempt included) *)
Theorem C10_cleanup_empties :
  forall geom LF lvl inner s r,
    res (cleanup LF (exec geom LF lvl) inner s) = Ok r ->
    ts (post (cleanup LF (exec geom LF lvl) inner s))
    = mkT (failed (ts (post (cleanup LF (exec geom LF lvl) inner s)))) [] false false
          (skipreq (ts (post (cleanup LF (exec geom LF lvl) inner s))))
          (ood (ts (post (cleanup LF (exec geom LF lvl) inner s)))).
Proof. exact cleanup_end. Qed.
Print Assumptions C10_cleanup_empties.

(* every execution the engine makes - generation, reproduction, each minimization attempt, fail-file replay,
   final replay, fuzzing - is such a bracket on a fresh T *)
Theorem C10_every_execution_is_a_bracket :
  forall geom LF lvl p x, run_case geom LF lvl p x = checkOnce geom LF lvl p (start x).
Proof. reflexivity. Qed.

(* Non-vacuity: cleanups registered in the body, in a retried Custom function and in a cleanup; a context in
   the body and one requested during cleanup; the trace has 3 registrations that are all run. *)
Definition ex10 : pexp :=
  SCleanup 1 (SContext (SCleanup 2 (SLog 1 (SRet (EConst VU))) (SRet (EConst VU))))
    (SContext (SDraw false (DCustom (SCleanup 3 (SLog 2 (SRet (EConst VU))) (SDraw true (DUint 0 3)
        (SIf (CLt (EVar 0) (EConst (VZ 2))) (SSkip (MUser 1)) (SRet (EVar 0))))))
      (SContext (SFail KFatal 4 (MUser 9) (SRet (EConst VU)))))).
Definition ex10_run := checkOnce (geom_of geom_tab) 5000 3 (compile_p [] ex10) (start (SRnd (jsf_init 5))).
Example C10_example :
  run_ev (tr (w ex10_run)) [mkF [] false false] = Some [mkF [] false false]
  /\ 3 <= length (filter (fun e => match e with URun _ => true | _ => false end) (tr (w ex10_run)))
  /\ res ex10_run = Err (XStop (MUser 9) (SUser 4)).
Proof. vm_compute. repeat split; try reflexivity; lia. Qed.
