(* C09 - Check does the promised amount of work and never passes vacuously.  Statements only. *)
From Coq Require Import Lia.
Require Import Rapid.Model.Base Rapid.Model.Syntax Rapid.Model.Monad Rapid.Model.Engine Rapid.Model.Shrink.
Require Import Rapid.Generated.Consts.
Require Import Rapid.Proofs.EngineProofs.
Require Import Rapid.Proofs.InvCount.
Require Import Rapid.Proofs.Glue.
Local Open Scope nat_scope.

(* no falsification, no early exit: exactly N valid cases with fewer than 10N skipped ones, or fewer than N
   valid with exactly 10N skipped (N = 0: nothing runs).  invalidChecksMult is read from the source. *)
Theorem C09_counts :
  forall geom LF, 1 <= LF -> forall lvl p checks early seed,
    (forall k, early k = false) ->
    let r := findBug0 geom LF lvl p checks early seed in
    fb_err r = None ->
    fb_early r = false /\
    ((fb_valid r = checks /\ fb_invalid r < checks * c_invalidChecksMult)
     \/ (fb_valid r < checks /\ fb_invalid r = checks * c_invalidChecksMult)
     \/ (checks = 0 /\ fb_valid r = 0 /\ fb_invalid r = 0)).
Proof. exact C09_counts_glue. Qed.
Print Assumptions C09_counts.

(* the verdict: OK only with N valid cases (or an early exit with at least one), otherwise the TB is failed *)
Theorem C09_verdict :
  forall geom LF lvl p files checks nofailfile early seed cands clock,
    let tb := checkTB geom LF lvl p files checks nofailfile early seed cands clock in
    match tb_verdict tb with
    | VOk v => tb_failed tb = false /\ v = dc_valid (tb_dc tb) /\
               (v = checks \/ (dc_early (tb_dc tb) = true /\ 0 < v))
    | _ => tb_failed tb = true
    end.
Proof. exact C09_verdict_glue. Qed.
Print Assumptions C09_verdict.

(* after the first falsified case findBug generates no further test case: the log ends with it *)
Theorem C09_every_case_is_fresh :
  forall geom LF, 1 <= LF -> forall lvl p checks early seed i,
    In i (fb_log (findBug0 geom LF lvl p checks early seed)) ->
    iv_out i = run_case geom LF lvl p (iv_src i).
Proof. exact findBug_isolated. Qed.
Print Assumptions C09_every_case_is_fresh.

(* ... "and invokes the property no further": the invocations of the random phase are exactly the counted test cases
   (valid and skipped) plus the falsifying one, if any.  Fuel exhaustion, a model artefact, is excluded. *)
Theorem C09_no_further_invocations :
  forall geom LF lvl p checks early seed,
    let r := findBug0 geom LF lvl p checks early seed in
    fb_err r <> Some XFuel ->
    length (fb_log r) = fb_valid r + fb_invalid r + match fb_err r with None => 0 | Some _ => 1 end.
Proof. exact findBug0_count. Qed.
Print Assumptions C09_no_further_invocations.
