(* C08 - state-machine runs follow the check/action discipline.  Statements only. *)
From Coq Require Import Lia.
Require Import Rapid.Model.Base Rapid.Model.Syntax Rapid.Model.Monad Rapid.Model.Prim Rapid.Model.Interp Rapid.Model.Engine.
Require Import Rapid.Generated.Consts.
Require Import Rapid.Proofs.RepeatProofs.
Local Open Scope nat_scope.

(* The discipline as an automaton over the invariant/action events of one Repeat (Proofs/RepeatProofs.v):
     need-check --UChk--> loop;  loop --UAct i (i < number of supplied actions)--> in-action i;
     in-action i --UActEnd i 0 (the action returned)--> need-check (loop when there is no invariant);
     in-action i --UActEnd i 1|2 (skipped / rejected / panicked)--> loop.
   Every other continuation is stuck.  For every Repeat whose actions and invariant do not themselves run a
   state machine, every geom oracle, fuel, coin threshold, start state and source: the event trace of the run
   is accepted starting in need-check (invariant once before any action), so the invariant runs exactly after
   each completed action and never after a skipped or rejected one, only supplied actions run, one at a time;
   the trace simply ends at the first falsification; and a run that returns normally ends in the loop state. *)
Theorem C08_discipline :
  forall geom LF id nacts haschk check_body run_act,
    (forall st, QUIETT (check_body st)) -> (forall i st, QUIETT (run_act i st)) ->
    forall K s0 s,
    exists stf,
      arun haschk nacts (trp (run_repeat geom LF id K nacts (chk haschk check_body) run_act s0 s)) (after_ok haschk) = Some stf /\
      (forall r, res (run_repeat geom LF id K nacts (chk haschk check_body) run_act s0 s) = Ok r -> stf = ALoop).
Proof. intros. apply run_repeat_auto; assumption. Qed.
Print Assumptions C08_discipline.

(* one call of executeAction: only supplied actions; a completed action leaves the invariant due, a skipped
   or rejected one does not; the number of tries is validActionTries (read from the source) *)
Theorem C08_execute_action :
  forall geom LF id nacts haschk run_act,
    (forall i st, QUIETT (run_act i st)) ->
    forall st s,
    exists stf, arun haschk nacts (trp (exec_action geom LF id nacts run_act c_validActionTries st s)) ALoop = Some stf /\
      (forall st', res (exec_action geom LF id nacts run_act c_validActionTries st s) = Ok (Some st') -> stf = after_ok haschk) /\
      (res (exec_action geom LF id nacts run_act c_validActionTries st s) = Ok None -> stf = ALoop).
Proof. intros. apply exec_action_auto; assumption. Qed.
Print Assumptions C08_execute_action.

(* if no action is able to run, Repeat reports a failure instead of looping forever: with no tries left
   executeAction stops the test with the "no valid action" error *)
Theorem C08_no_valid_action :
  forall geom LF id nacts run_act st s,
    res (exec_action geom LF id nacts run_act 0 st s) = Err (XStop MNoValidActions (SNoValid id)).
Proof. reflexivity. Qed.

(* the action index drawn is always one of the supplied actions *)
Theorem C08_only_supplied_actions :
  forall geom fuel n s i, res (genIndex geom fuel n true s) = Ok i -> i < n.
Proof. exact genIndex_lt. Qed.
Print Assumptions C08_only_supplied_actions.
