(* C06 - a failure is persisted and automatically replayed first on the next run: the file-format and
   file-name parts.  (The two-run history through checkTB/doCheck is exercised by the persist-tworun
   oracle; its engine-level theorem belongs to the engine model.)
   Bytes are [N] (see Model/Persist.v); the statements quantify over all [list N], hence over all byte
   strings.  Byte values: 35 '#', 10 newline, 47 '/', 42 '*', 63 '?', 91 '[', 92 backslash, 46 '.'. *)
From Coq Require Import List NArith Bool.
Import ListNotations.
Require Import Rapid.Generated.Consts Rapid.Generated.UnicodeLD.
Require Import Rapid.Model.Persist Rapid.Model.PersistCorr.
Require Import Rapid.Proofs.PersistNameProofs Rapid.Proofs.PersistTheorems.
Require Rapid.Model.Base Rapid.Model.Monad Rapid.Model.Shrink Rapid.Proofs.FileProofs.
Require Import Rapid.Proofs.FileEngine.
Open Scope N_scope.

(* What saveFailFile writes, loadFailFile reads back: for ALL captured outputs [out] (any bytes:
   newlines, CR, '#', NUL, invalid UTF-8, empty, lines of any length), all seeds and all words below 2^64,
   and every version string that is non-empty, has no '#', no newline and does not start with a space
   rune ([strip_space_prefix ver = None]; trailing spaces and CR inside are harmless). *)
Theorem C06_roundtrip : forall (ver out : bytes) (seed : N) (buf : list N),
  ver <> [] -> ~ In 35 ver -> ~ In 10 ver -> strip_space_prefix ver = None ->
  seed < 2 ^ 64 -> Forall (fun u => u < 2 ^ 64) buf ->
  load_bytes (save_bytes ver out seed buf) = LOk ver seed buf.
Proof. exact roundtrip_64. Qed.
Print Assumptions C06_roundtrip.

(* the version constant of persist.go (Generated/Consts.v) satisfies the hypotheses *)
Theorem C06_roundtrip_rapid_version : forall (out : bytes) (seed : N) (buf : list N),
  seed < 2 ^ 64 -> Forall (fun u => u < 2 ^ 64) buf ->
  load_bytes (save_bytes (bytes_of_string c_rapidVersion) out seed buf) = LOk (bytes_of_string c_rapidVersion) seed buf.
Proof. exact roundtrip_rapid_version. Qed.
Print Assumptions C06_roundtrip_rapid_version.

(* kindaSafeFilename yields only letters, digits, '-' and '_' (for ANY character-class oracle); if the
   oracle agrees with ASCII below 128 the result contains no '/', '*', '?', '[', backslash or '.', and
   the discovery pattern matches the fail-file name of the same test for all separator-free timestamp
   and pid strings - as base names (what filepath.Glob compares) and as full relative paths. *)
Theorem C06_name : forall (is_letter_or_digit : N -> bool) (to_upper : N -> N),
  (forall r, r < 128 -> is_letter_or_digit r = ascii_alnum r) ->
  forall test : list N,
  Forall (fun r => safe_rune is_letter_or_digit r = true) (kindaSafeFilename is_letter_or_digit to_upper test) /\
  Forall (fun r => r <> 47 /\ r <> 42 /\ r <> 63 /\ r <> 91 /\ r <> 92 /\ r <> 46) (kindaSafeFilename is_letter_or_digit to_upper test) /\
  forall ts pid, ~ In 47 ts -> ~ In 47 pid ->
    glob_match (failFilePatternBase is_letter_or_digit to_upper test) (failFileBase is_letter_or_digit to_upper test ts pid) = true /\
    glob_match (failFilePattern is_letter_or_digit to_upper test) (failFileName is_letter_or_digit to_upper test ts pid) = true.
Proof. exact name_facts. Qed.
Print Assumptions C06_name.

(* the same for Go's own tables (Generated/UnicodeLD.v: all 0x110000 code points enumerated): no hypothesis left *)
Theorem C06_name_unicode : forall test : list N,
  let lod := in_ranges unicode_ld_ranges in
  let up := assoc_or_id unicode_upper_pairs in
  Forall (fun r => safe_rune lod r = true) (kindaSafeFilename lod up test) /\
  Forall (fun r => r <> 47 /\ r <> 42 /\ r <> 63 /\ r <> 91 /\ r <> 92 /\ r <> 46) (kindaSafeFilename lod up test) /\
  forall ts pid, ~ In 47 ts -> ~ In 47 pid ->
    glob_match (failFilePatternBase lod up test) (failFileBase lod up test ts pid) = true /\
    glob_match (failFilePattern lod up test) (failFileName lod up test ts pid) = true.
Proof. exact name_facts_unicode. Qed.
Print Assumptions C06_name_unicode.

(* timestamps and pids are digit strings: they satisfy the side condition *)
Theorem C06_digits_have_no_separator : forall ds : list N, Forall (fun c => 48 <= c <= 57) ds -> ~ In 47 ds.
Proof. exact digits_no_sep. Qed.
Print Assumptions C06_digits_have_no_separator.

(* concrete instances (computed): a hostile output round-trips; a hostile test name is found again *)
Example C06_roundtrip_instance :
  let out := [35; 32; 10; 13; 10; 0; 255; 194; 133; 118; 48; 35; 49; 10; 48; 120; 49; 10] in
  load_bytes (save_bytes (bytes_of_string c_rapidVersion) out 18446744073709551615 [0; 1; 18446744073709551615])
  = LOk (bytes_of_string c_rapidVersion) 18446744073709551615 [0; 1; 18446744073709551615].
Proof. vm_compute. reflexivity. Qed.

Example C06_name_instance :
  let lod := in_ranges unicode_ld_ranges in
  let up := assoc_or_id unicode_upper_pairs in
  let test := [84; 47; 42; 63; 91; 19990; 46; 99; 111; 110] in
  kindaSafeFilename lod up test = [84; 95; 95; 95; 95; 19990; 95; 99; 111; 110] /\
  kindaSafeFilename lod up [99; 111; 110] = [99; 111; 110; 95] /\
  glob_match (failFilePattern lod up test) (failFileName lod up test [50; 48; 50; 54] [52; 50]) = true.
Proof. vm_compute. repeat split; reflexivity. Qed.

(* ---- the engine part: the two-run history through checkTB / doCheck (Proofs/FileEngine.v) ----
   Run 1 fails and hands buffer b to saveFailFile (any captured output, any seed field); a later run - any
   flags, any seed, any shrink candidates and clock - that finds those bytes in the directory (alone, or after
   any number of files that cannot reproduce a failure) reports the failure from the file "after 0 tests",
   before and instead of any random test case, with the very outcome of run 1's final replay, and does not
   save it again.  Hypotheses on the property: the C01 ones (no rejected attempt leaves a trace: `dirty`;
   the model's fuel suffices). *)
Theorem C06_saved_failure_is_replayed_first :
  forall geom LF, (1 <= LF)%nat -> forall lvl p,
    (forall x, Monad.dirty (Monad.w (Shrink.run_case geom LF lvl p x)) = false) ->
    (forall x, Monad.res (Shrink.run_case geom LF lvl p x) <> Base.Err Base.XFuel) ->
    forall files1 checks1 early1 seed1 cands1 clock1 b out seedfield (pre post : list bytes)
           checks2 nofailfile2 early2 seed2 cands2 clock2,
    let tb1 := Shrink.checkTB geom LF lvl p files1 checks1 false early1 seed1 cands1 clock1 in
    Shrink.tb_saved tb1 = Some b ->
    seedfield < 2 ^ 64 -> Forall (fun u => u < 2 ^ 64) b ->
    Forall (fun x => FileProofs.unusable geom LF lvl p (classify x)) pre ->
    let file := save_bytes (bytes_of_string c_rapidVersion) out seedfield b in
    let tb2 := Shrink.checkTB geom LF lvl p (map classify (pre ++ file :: post)) checks2 nofailfile2 early2 seed2 cands2 clock2 in
    exists e,
      (Shrink.tb_verdict tb1 = Shrink.VFailedAfter (Shrink.dc_valid (Shrink.tb_dc tb1)) e \/
       Shrink.tb_verdict tb1 = Shrink.VPanicAfter (Shrink.dc_valid (Shrink.tb_dc tb1)) e) /\
      (Shrink.tb_verdict tb2 = Shrink.VFailedAfter 0 e \/ Shrink.tb_verdict tb2 = Shrink.VPanicAfter 0 e) /\
      Shrink.dc_fromfile (Shrink.tb_dc tb2) = Some (length pre) /\
      Shrink.dc_valid (Shrink.tb_dc tb2) = 0%nat /\ Shrink.dc_invalid (Shrink.tb_dc tb2) = 0%nat /\
      Shrink.tb_final tb2 = Shrink.tb_final tb1 /\ Shrink.tb_failed tb2 = true /\
      Shrink.tb_saved tb2 = None /\ Shrink.tb_seed_shown tb2 = None.
Proof. exact saved_failure_is_replayed_first. Qed.
Print Assumptions C06_saved_failure_is_replayed_first.
