(* C05 - minimization keeps the same failure and only ever gets smaller.  Statements only. *)
From Coq Require Import Lia Wellfounded.
Require Import Rapid.Model.Base Rapid.Model.Syntax Rapid.Model.Monad Rapid.Model.Engine Rapid.Model.Shrink.
Require Import Rapid.Proofs.Shortlex Rapid.Proofs.ShrinkProofs.
Local Open Scope nat_scope.

(* One call of accept(), for every program, every shrinker state describing a failing run at site0 and
   every candidate buffer whatsoever: the state keeps describing a real failing run at the SAME site and is
   never above the start; an accepted candidate makes the data strictly shortlex-smaller (and at most the
   candidate); a rejected one changes neither data nor error; the internal assertion
   compareData(rec.data, buf) <= 0 and the "flaky" abort cannot happen. *)
Theorem C05_accept_step :
  forall geom LF lvl p site0 data0 s c s' r,
    Inv geom LF lvl p site0 data0 s -> accept geom LF lvl p s c = (s', r) ->
    Inv geom LF lvl p site0 data0 s' /\
    (r = AccYes -> sl_lt (s_data s') (s_data s) /\ sl_le (s_data s') c /\ s_shrinks s' = S (s_shrinks s)) /\
    (r = AccNo -> s_data s' = s_data s /\ s_err s' = s_err s /\ s_shrinks s' = s_shrinks s) /\
    (r = AccYes \/ r = AccNo).
Proof. intros geom LF lvl p. exact (accept_step geom LF lvl p). Qed.
Print Assumptions C05_accept_step.

(* Any pass strategy (any candidate sequence) under any deadline behaviour (any clock, in particular
   shrinktime = 0 and a deadline hit mid-round): the result still describes a real failing run at the original
   site, is shortlex <= the start, and nothing aborted.  A time limit only cuts the sequence short. *)
Theorem C05_shrink_any :
  forall geom LF, 1 <= LF -> forall lvl p site0 data0 cands clock k s s' ab,
    Inv geom LF lvl p site0 data0 s -> shrink_any geom LF lvl p cands clock k s = (s', ab) ->
    Inv geom LF lvl p site0 data0 s' /\ ab = None /\ sl_le (s_data s') (s_data s) /\ s_shrinks s <= s_shrinks s'.
Proof. exact shrink_any_inv. Qed.
Print Assumptions C05_shrink_any.

(* With replay-after-prune (C04): the buffer the shrinker holds fails with the error it holds. *)
Theorem C05_result_reproduces :
  forall geom LF, 1 <= LF -> forall lvl p site0 data0 s,
    Inv geom LF lvl p site0 data0 s ->
    (forall x, dirty (w (run_case geom LF lvl p x)) = false) ->
    res (run_case geom LF lvl p (SBuf (s_data s))) = s_err s /\
    rd (w (run_case geom LF lvl p (SBuf (s_data s)))) = s_data s /\
    rpd (w (run_case geom LF lvl p (SBuf (s_data s)))) = s_data s.
Proof. exact inv_reproduces. Qed.
Print Assumptions C05_result_reproduces.

(* Termination without a time limit: the order in which accepted data decreases is well-founded on
   64-bit words, so every chain of accepted candidates is finite. *)
Theorem C05_terminates : well_founded sl_ltb.
Proof. exact sl_wf. Qed.
Print Assumptions C05_terminates.

(* what is recorded from a buffer (and what is kept after pruning) never exceeds the buffer *)
Theorem C05_recorded_le : forall geom LF lvl p buf,
  sl_le (rd (w (run_case geom LF lvl p (SBuf buf)))) buf /\ sl_le (rpd (w (run_case geom LF lvl p (SBuf buf)))) buf.
Proof. intros. split; [apply recorded_le|apply pruned_le]. Qed.
Print Assumptions C05_recorded_le.
