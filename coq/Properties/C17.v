(* C17 - unusable fail files are ignored and never change the verdict: the loader part.
   (That checkFailFile/doCheck ignore a load error, a version mismatch, a now-passing or invalid case and
   go on with the same seeds is exercised end-to-end by the persist-tworun oracle; its engine-level theorem
   belongs to the engine model.) *)
From Coq Require Import List NArith Bool.
Import ListNotations.
Require Import Rapid.Generated.Consts.
Require Import Rapid.Model.Persist.
Require Import Rapid.Proofs.PersistLoadProofs.
Require Rapid.Model.Base Rapid.Model.Monad Rapid.Model.Shrink Rapid.Proofs.FileProofs.
Require Import Rapid.Proofs.FileEngine.
Open Scope N_scope.

(* loadFailFile's parsing is a total function of the file content: every byte string gives a result or
   one of the four parse-level error classes.  (Gallina functions are total, so no content can crash or
   hang the model; the two remaining error returns of loadFailFile - open failed, read failed - concern
   the file system, not the content.) *)
Theorem C17_load_total : forall b : bytes,
  (exists v s ws, load_bytes b = LOk v s ws) \/
  (exists e, load_bytes b = LErr e /\ (e = ErrNoData \/ e = ErrFields \/ e = ErrSeed \/ e = ErrWord)).
Proof. exact load_total. Qed.
Print Assumptions C17_load_total.

(* a file without data lines - empty, blank, only comments - is exactly the "no data" class *)
Theorem C17_no_data : forall b : bytes, data_lines b = [] <-> load_bytes b = LErr ErrNoData.
Proof. exact load_no_data. Qed.
Print Assumptions C17_no_data.

(* Garbage is only ever accepted if it has the exact shape of a fail file: an Ok result means that the
   first data line is <version>#<non-empty decimal digits> with a non-empty '#'-free version, the seed and
   all words are below 2^64, and every further data line parsed as a number.  In particular the version
   gate of checkFailFile sees the true first field of the file. *)
Theorem C17_ok_shape : forall (b v : bytes) (s : N) (ws : list N), load_bytes b = LOk v s ws ->
  exists sd rest,
    data_lines b = (v ++ 35 :: sd) :: rest /\
    v <> [] /\ ~ In 35 v /\
    sd <> [] /\ Forall (fun c => 48 <= c <= 57) sd /\ parse_uint 10 sd = POk s /\ s <= maxu64 /\
    parse_words rest = Some ws /\ length ws = length rest /\ Forall (fun u => u <= maxu64) ws.
Proof. exact load_ok_inv. Qed.
Print Assumptions C17_ok_shape.

(* comment lines are invisible: inserting "# <anything without newline>\n" at the start of the file or
   after any newline changes neither the result nor the error class *)
Theorem C17_comment_lines_ignored : forall a c b : bytes,
  ~ In 10 c -> (a = [] \/ exists a', a = a' ++ [10]) ->
  load_bytes (a ++ comment_line c ++ b) = load_bytes (a ++ b).
Proof. exact load_ignores_comment_line. Qed.
Print Assumptions C17_comment_lines_ignored.

(* each error class is inhabited (computed), as is Ok with a foreign version *)
Example C17_instances :
  load_bytes [] = LErr ErrNoData /\
  load_bytes [35; 32; 120; 10; 32; 10] = LErr ErrNoData /\
  load_bytes [118; 49] = LErr ErrFields /\
  load_bytes [118; 35; 49; 35; 50] = LErr ErrFields /\
  load_bytes [118; 35; 120] = LErr ErrSeed /\
  load_bytes [118; 35; 48; 120; 49] = LErr ErrSeed /\
  load_bytes [118; 35; 49; 10; 48; 120] = LErr ErrWord /\
  load_bytes [118; 35; 49; 10; 45; 49] = LErr ErrWord /\
  load_bytes [118; 35; 49; 10; 48; 120; 49; 95; 48; 13; 10; 48; 49; 55; 10] = LOk [118] 1 [16; 15].
Proof. vm_compute. repeat split; reflexivity. Qed.

(* ---- the engine part (Proofs/FileEngine.v): for EVERY directory content none of whose files reproduces a
   failure - bytes the loader rejects, files of another rapid version, stale test cases that now pass or are
   rejected as invalid data - checkTB behaves exactly as with an empty directory: same verdict, same failed
   flag, same advertised seed, same buffer handed to saveFailFile, same final replay, same counts; one log
   entry per file and none of them a failure.  No hypothesis on the property function. *)
Theorem C17_unusable_files_change_nothing :
  forall geom LF lvl p (dir : list bytes) checks nofailfile early seed cands clock,
    Forall (fun b => FileProofs.unusable geom LF lvl p (classify b)) dir ->
    let a := Shrink.checkTB geom LF lvl p (map classify dir) checks nofailfile early seed cands clock in
    let b := Shrink.checkTB geom LF lvl p [] checks nofailfile early seed cands clock in
    Shrink.tb_verdict a = Shrink.tb_verdict b /\ Shrink.tb_failed a = Shrink.tb_failed b /\
    Shrink.tb_seed_shown a = Shrink.tb_seed_shown b /\ Shrink.tb_saved a = Shrink.tb_saved b /\
    Shrink.tb_final a = Shrink.tb_final b /\
    Shrink.dc_valid (Shrink.tb_dc a) = Shrink.dc_valid (Shrink.tb_dc b) /\
    Shrink.dc_invalid (Shrink.tb_dc a) = Shrink.dc_invalid (Shrink.tb_dc b) /\
    length (Shrink.dc_filelogs (Shrink.tb_dc a)) = length dir /\ ~ In Shrink.FFailed (Shrink.dc_filelogs (Shrink.tb_dc a)).
Proof. exact dir_of_unusable_files_changes_nothing. Qed.
Print Assumptions C17_unusable_files_change_nothing.

(* every byte string the loader rejects is such a file *)
Theorem C17_rejected_bytes_are_unusable :
  forall geom LF lvl p b e, load_bytes b = LErr e -> FileProofs.unusable geom LF lvl p (classify b).
Proof. exact rejected_bytes_unusable. Qed.
Print Assumptions C17_rejected_bytes_are_unusable.
