(* C04 - draws are a pure function of the bitstream.  Statements only; proofs are in Proofs/. *)
From Coq Require Import Lia.
Require Import Rapid.Model.Base Rapid.Model.Syntax Rapid.Model.Monad Rapid.Model.Prim Rapid.Model.Interp
  Rapid.Model.Engine Rapid.Model.Pexp Rapid.Model.Corr.
Require Import Rapid.Proofs.Inv Rapid.Proofs.Replay Rapid.Proofs.ReplayTop.
Require Import Rapid.Generated.GeomTable.
Require Import Rapid.Proofs.Glue.
Require Rapid.Model.Groups.
Require Import Rapid.Proofs.PruneRefines.
Local Open Scope nat_scope.

(* Replay after pruning, for every program p (any nesting of generators, filters, distinct slices, maps,
   Custom, state machines, cleanups), every geom oracle, every source x (a PRNG from any seed or any word
   list), every loop fuel >= 1 and cleanup nesting level: if the test case ended with a verdict that user
   code decided (pass, failure, or a skip by the property itself) and no rejected attempt left a trace on
   the test state (flag [dirty]), then running it on its pruned recording - followed by anything - gives
   the same verdict, the same delivered draws, records exactly the pruned recording, and leaves the rest. *)
Theorem C04_replay_pruned :
  forall (geom : nat -> N -> N) (LF : nat), 1 <= LF -> forall lvl p x ext,
    let o := checkOnce geom LF lvl p (start x) in
    good (res o) -> dirty (w o) = false ->
    let o' := checkOnce geom LF lvl p (start (SBuf (rpd (w o) ++ ext))) in
    res o' = res o /\ pv (w o') = pv (w o) /\ rd (w o') = rpd (w o) /\ rpd (w o') = rpd (w o)
    /\ src (post o') = SBuf ext /\ ts (post o') = ts (post o) /\ dirty (w o') = false.
Proof. exact replay_pruned_case. Qed.
Print Assumptions C04_replay_pruned.

(* The same for every generator expression on its own (value-level). *)
Theorem C04_replay_pruned_gen :
  forall (geom : nat -> N -> N) (LF : nat), 1 <= LF -> forall lvl g,
    replays (run_g geom LF (exec geom LF lvl) g).
Proof. exact C04_replay_pruned_gen_glue. Qed.
Print Assumptions C04_replay_pruned_gen.

(* The pruned recording is a subsequence of the recording (pruning only deletes). *)
Theorem C04_pruned_is_subsequence :
  forall (geom : nat -> N -> N) (LF lvl : nat) p s,
    sublist (rpd (w (exec geom LF lvl p s))) (rd (w (exec geom LF lvl p s))).
Proof. exact C04_pruned_is_subsequence_glue. Qed.
Print Assumptions C04_pruned_is_subsequence.

(* Non-vacuity: a distinct-slice over a 3-value domain whose run rejects duplicates, is force-stopped,
   fails fatally, is clean, and whose pruned replay reproduces it. *)
Definition ex_prog : pexp :=
  SDraw false (DSliceD (-1) (-1) 1501199875790166 FId (DInt 0 2))
    (SIf (CLt (EConst (VZ 1)) (ELen (EVar 0))) (SFail KFatal 1 (MUser 7) (SRet (EConst VU))) (SRet (EConst VU))).
Definition ex_run := checkOnce (geom_of geom_tab) 5000 3 (compile_p [] ex_prog) (start (SRnd (jsf_init 3))).
Example C04_example_hypotheses_met :
  good (res ex_run) /\ dirty (w ex_run) = false /\ length (rpd (w ex_run)) < length (rd (w ex_run))
  /\ res ex_run = Err (XStop (MUser 7) (SUser 1)).
Proof. vm_compute. repeat split; reflexivity || lia. Qed.

(* The pruned recording of the theorems above is what the code's prune() computes: data.go's index-arithmetic
   algorithm (removeGroup: cut data[begin:end], drop the group and the following entries with end <= its end -
   which includes unfinished groups, end = -1 - and shift later offsets), applied to the recording and the group
   table of ANY run, yields exactly the writer's rpd. *)
Theorem C04_prune_refines :
  forall geom LF lvl p s,
    let o := checkOnce geom LF lvl p s in
    fst (Groups.prune (rd (w o)) (Groups.groups_of (glog (w o)))) = rpd (w o).
Proof. exact prune_refines. Qed.
Print Assumptions C04_prune_refines.
