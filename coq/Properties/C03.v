(* C03 - Generated values always satisfy the generator's contract, for every bitstream.  Statements only. *)
From Coq Require Import NArith ZArith List Lia.
Require Import Rapid.Model.Base Rapid.Model.Syntax Rapid.Model.Monad Rapid.Model.Prim.
Require Import Rapid.Proofs.IntProofs Rapid.Proofs.RepeatProofs.
Local Open Scope N_scope.

(* unsigned ranges: whatever the state (any buffer of 64-bit words, the PRNG from any seed), whatever the
   geometric oracle returns, biased or not: a returned value lies in [mn, mx].  Covers the 65-bit overflow draw. *)
Theorem C03_uint_range :
  forall geom fuel mn mx bias s u l r,
    mx < 2 ^ 64 ->
    res (genUintRange geom fuel mn mx bias s) = Ok (u, l, r) -> mn <= u <= mx.
Proof. exact uint_range_contract. Qed.
Print Assumptions C03_uint_range.

(* signed ranges anywhere in int64, incl. [MinInt64, MinInt64+1] and ranges straddling zero: the sign split,
   the uint64 negation wrap-around and the conversion back never leave [mn, mx] *)
Theorem C03_int_range :
  forall geom fuel (mn mx : Z) s v l r,
    (- 2 ^ 63 <= mn)%Z -> (mx < 2 ^ 63)%Z ->
    res (genIntRange geom fuel mn mx s) = Ok (v, l, r) -> (mn <= v <= mx)%Z.
Proof. exact int_range_contract. Qed.
Print Assumptions C03_int_range.

(* index draws (SampledFrom, OneOf, state-machine action choice) stay inside the slice *)
Theorem C03_index :
  forall geom fuel n bias s i, res (genIndex geom fuel n bias s) = Ok i -> (i < n)%nat.
Proof. exact genIndex_lt_any. Qed.
Print Assumptions C03_index.
