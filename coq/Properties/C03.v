(* C03 - Generated values always satisfy the generator's contract, for every bitstream.  Statements only. *)
From Coq Require Import NArith ZArith List Lia.
Require Import Rapid.Model.Base Rapid.Model.Syntax Rapid.Model.Monad Rapid.Model.Prim.
Require Import Rapid.Model.Interp Rapid.Model.Engine.
Require Import Rapid.Proofs.IntProofs Rapid.Proofs.RepeatProofs Rapid.Proofs.Contract Rapid.Proofs.Termination.
Require Rapid.Model.Strings.
Require Import Rapid.Proofs.StringProofs.
Import ListNotations.
Local Open Scope N_scope.

(* unsigned ranges: whatever the state (any buffer of 64-bit words, the PRNG from any seed), whatever the
   geometric oracle returns, biased or not: a returned value lies in [mn, mx].  Covers the 65-bit overflow draw. *)
Theorem C03_uint_range :
  forall geom fuel mn mx bias s u l r,
    mx < 2 ^ 64 ->
    res (genUintRange geom fuel mn mx bias s) = Ok (u, l, r) -> mn <= u <= mx.
Proof. exact uint_range_contract. Qed.
Print Assumptions C03_uint_range.

(* signed ranges anywhere in int64, incl. [MinInt64, MinInt64+1] and ranges straddling zero: the sign split,
   the uint64 negation wrap-around and the conversion back never leave [mn, mx] *)
Theorem C03_int_range :
  forall geom fuel (mn mx : Z) s v l r,
    (- 2 ^ 63 <= mn)%Z -> (mx < 2 ^ 63)%Z ->
    res (genIntRange geom fuel mn mx s) = Ok (v, l, r) -> (mn <= v <= mx)%Z.
Proof. exact int_range_contract. Qed.
Print Assumptions C03_int_range.

(* index draws (SampledFrom, OneOf, state-machine action choice) stay inside the slice *)
Theorem C03_index :
  forall geom fuel n bias s i, res (genIndex geom fuel n bias s) = Ok i -> (i < n)%nat.
Proof. exact genIndex_lt_any. Qed.
Print Assumptions C03_index.

(* The whole generator-expression language, arbitrarily nested (OneOf, Ptr, SliceOfN / SliceOfNDistinct, MapOfN,
   MapOfNValues, Permutation, Filter, Map, Custom, Deferred over Bool / unsigned / signed / SampledFrom leaves):
   whatever the state (any buffer of 64-bit words or the PRNG from any seed), any bias oracle, any fuel, any
   cleanup runner - a returned value satisfies `contract` (Proofs/Contract.v: bounds, membership, length limits
   when minLen <= maxLen, distinct keys as NoDup, permutation of the input, the filter predicate, non-nil unless
   nil is allowed).  wf_g = the numeric side conditions the constructors enforce (ranges inside the type). *)
Theorem C03_contract :
  forall geom LF crun g, wf_g g -> forall s v, res (run_g geom LF crun g s) = Ok v -> contract g v.
Proof. exact contract_holds. Qed.
Print Assumptions C03_contract.

(* non-vacuity: a nested generator over type-extreme ranges is well-formed, and a concrete buffer makes it
   return both int64 extremes *)
Example C03_nonvacuous_wf : wf_g Contract.ex_g.
Proof. exact Contract.ex_g_wf. Qed.
Example C03_nonvacuous_run :
  res (run_g Contract.ex_geom 100 (fun _ => ret VU) Contract.ex_g (mkSt (SBuf Contract.ex_buf) fresh_t))
  = Ok (VL (cons (VZ (-9223372036854775808)) (cons (VZ 9223372036854775807) (cons (VZ 5) nil)))).
Proof. exact Contract.ex_run_buf. Qed.

(* "never loops forever": on a finite bitstream (minimization, fail files, fuzzing) no loop of the generators
   spins - every iteration of every rejection / repeat loop consumes a word or ends the run, so the fuel that
   stands for "unbounded" in the model is never what ends a run once it exceeds the stream length.
   (cleanup_free: the model's cleanup stack shares the same fuel; see C03_fuel_means_many_cleanups.) *)
Theorem C03_no_spinning_on_finite_stream :
  forall geom LF crun g s l,
    cleanup_free_g g -> src s = SBuf l -> (length l < LF)%nat -> res (run_g geom LF crun g s) <> Err XFuel.
Proof. intros geom LF crun g s l. exact (no_fuel_on_buffer geom LF crun g s l). Qed.
Print Assumptions C03_no_spinning_on_finite_stream.

(* whole test cases, with cleanups nested to any depth lvl: the only way fuel ends a run on a finite stream is
   LF or more cleanup registrations (the real loop just drains that finite slice) *)
Theorem C03_fuel_means_many_cleanups :
  forall geom LF lvl p l,
    depth_le lvl p -> (length l < LF)%nat ->
    res (checkOnce geom LF lvl p (start (SBuf l))) = Err XFuel ->
    (LF <= nreg (tr (w (checkOnce geom LF lvl p (start (SBuf l))))))%nat.
Proof. exact fuel_checkOnce_reg. Qed.
Print Assumptions C03_fuel_means_many_cleanups.

(* Strings: StringOfN(elem, minRunes, maxRunes, maxLen) over ANY rune generator expression, every parameter, every
   bitstream: the rune count is within [minRunes, maxRunes], every rune is a code point (valid UTF-8: never a
   negative value, a surrogate or a value above MaxRune, although the element generator may yield such values -
   they are rejected), the encoded length is within the byte budget, and every rune is a value of the element
   generator.  (Model/Strings.v, tied to strings.go by the string-cases correspondence.) *)
Theorem C03_string_contract :
  forall geom LF crun e minRunes maxRunes maxLen K s l,
    wf_g e ->
    res (Strings.string_gen geom LF crun e minRunes maxRunes maxLen K s) = Ok l ->
      (minc_of minRunes <= N.of_nat (length l))%N
      /\ ((minc_of minRunes <= maxc_of maxRunes)%N -> (N.of_nat (length l) <= maxc_of maxRunes)%N)
      /\ Forall (fun r => (0 < Strings.rune_len r)%Z) l
      /\ (fold_right (fun r acc => Strings.rune_len r + acc) 0 l <= Strings.maxlen_of maxLen)%Z
      /\ Forall (fun r => exists v, contract e v /\ Strings.rune_of v = r) l.
Proof. exact string_contract. Qed.
Print Assumptions C03_string_contract.
