(* C16 - saving a fail file is atomic with respect to process crashes.
   Model: Model/FS.v (one directory, operations of saveFailFile, crash = the effects of a prefix of the
   operation list).  Trusted, not proved: that rename(2) and O_EXCL creation are single atomic steps
   (the kernel's contract) - the persist-crash oracle kills the real process at every system call. *)
From Coq Require Import String.
From Coq Require Import List NArith Bool.
Import ListNotations.
Require Import Rapid.Generated.Consts.
Require Import Rapid.Model.Persist Rapid.Model.FS.
Require Import Rapid.Proofs.PersistTheorems.
Open Scope N_scope.

(* The discovery pattern never matches a name made by os.CreateTemp from failfileTmpPattern, whatever
   the test name and the random part: as base names and as full paths.  Both shapes are computed from
   the constants of persist.go in Generated/Consts.v (format strings, temp pattern, directories). *)
Theorem C16_tmp_disjoint : forall (is_letter_or_digit : N -> bool) (to_upper : N -> N),
  (forall r, r < 128 -> is_letter_or_digit r = ascii_alnum r) ->
  forall test rnd : list N,
    glob_match (failFilePatternBase is_letter_or_digit to_upper test) (failfile_tmp_name rnd) = false /\
    glob_match (failFilePattern is_letter_or_digit to_upper test)
               (failFileDir is_letter_or_digit to_upper test ++ 47 :: failfile_tmp_name rnd) = false.
Proof. exact tmp_disjoint_all. Qed.
Print Assumptions C16_tmp_disjoint.

(* the shapes are the literal ones of the property text ... *)
Theorem C16_shapes : forall (is_letter_or_digit : N -> bool) (to_upper : N -> N) (test rnd : list N),
  failFilePatternBase is_letter_or_digit to_upper test
    = kindaSafeFilename is_letter_or_digit to_upper test ++ bytes_of_string "-*.fail" /\
  failfile_tmp_name rnd = bytes_of_string ".rapid-failfile-tmp-" ++ rnd ++ [].
Proof. exact shapes_are_literal. Qed.
Print Assumptions C16_shapes.

(* ... for which disjointness needs only that the sanitized name has no '*' and no '.' *)
Theorem C16_tmp_disjoint_literal : forall s d : list N,
  Forall (fun r => r <> 42 /\ r <> 46) s ->
  glob_match (s ++ bytes_of_string "-*.fail") (bytes_of_string ".rapid-failfile-tmp-" ++ d) = false.
Proof. exact tmp_disjoint_literal. Qed.
Print Assumptions C16_tmp_disjoint_literal.

(* Crash atomicity, for ANY division of the file content into write calls (n arbitrary, chunks arbitrary:
   covers short writes and buffering) and any initial directory content fs0 in which the temporary name
   is fresh (CreateTemp's O_EXCL):
   (1) after every prefix of the operation list, every file matching the discovery pattern is a file of
       fs0 with its old content, or is the final file with the complete content;
   (2) files with any other name are never touched;
   (3) after the whole list the final file holds the complete content and the temporary name is gone. *)
Theorem C16_crash_atomic : forall (is_letter_or_digit : N -> bool) (to_upper : N -> N),
  (forall r, r < 128 -> is_letter_or_digit r = ascii_alnum r) ->
  forall (test ts pid rnd dir : list N) (ver out : bytes) (seed : N) (buf : list N) (chunks : list bytes) (fs0 : fs),
  ~ In 47 ts -> ~ In 47 pid ->
  concat chunks = save_bytes ver out seed buf ->
  let pat := failFilePatternBase is_letter_or_digit to_upper test in
  let tmp := failfile_tmp_name rnd in
  let final := failFileBase is_letter_or_digit to_upper test ts pid in
  let ops := save_ops_chunks dir tmp final chunks in
  look tmp fs0 = None ->
  (forall k n c, In (n, c) (matches pat (apply_ops (firstn k ops) fs0)) ->
     In (n, c) (matches pat fs0) \/ (n = final /\ c = save_bytes ver out seed buf)) /\
  (forall k n, n <> final -> n <> tmp -> look n (apply_ops (firstn k ops) fs0) = look n fs0) /\
  (look final (apply_ops (firstn (length ops) ops) fs0) = Some (save_bytes ver out seed buf) /\
   look tmp (apply_ops (firstn (length ops) ops) fs0) = None).
Proof. exact crash_atomic_failfile. Qed.
Print Assumptions C16_crash_atomic.

(* the operation list exactly as saveFailFile issues it: one write per output line, one for the body *)
Theorem C16_crash_atomic_save_ops : forall (is_letter_or_digit : N -> bool) (to_upper : N -> N),
  (forall r, r < 128 -> is_letter_or_digit r = ascii_alnum r) ->
  forall (test ts pid rnd dir : list N) (ver out : bytes) (seed : N) (buf : list N) (fs0 : fs),
  ~ In 47 ts -> ~ In 47 pid ->
  let pat := failFilePatternBase is_letter_or_digit to_upper test in
  let tmp := failfile_tmp_name rnd in
  let final := failFileBase is_letter_or_digit to_upper test ts pid in
  let ops := save_ops dir tmp final ver out seed buf in
  look tmp fs0 = None ->
  (forall k n c, In (n, c) (matches pat (apply_ops (firstn k ops) fs0)) ->
     In (n, c) (matches pat fs0) \/ (n = final /\ c = save_bytes ver out seed buf)) /\
  (forall k n, n <> final -> n <> tmp -> look n (apply_ops (firstn k ops) fs0) = look n fs0) /\
  (look final (apply_ops (firstn (length ops) ops) fs0) = Some (save_bytes ver out seed buf) /\
   look tmp (apply_ops (firstn (length ops) ops) fs0) = None).
Proof. exact crash_atomic_save_ops. Qed.
Print Assumptions C16_crash_atomic_save_ops.

(* a concrete run of the model: an old fail file and an unrelated file are in the directory; the crash
   after 3 operations (mkdir, create, first write) leaves a partial temp file that the pattern ignores *)
Example C16_instance :
  let lod := ascii_alnum in
  let up := fun r : N => r in
  let test := [84; 47; 120] in
  let pat := failFilePatternBase lod up test in
  let tmp := failfile_tmp_name [49; 50; 51] in
  let final := failFileBase lod up test [50; 48] [55] in
  let old := failFileBase lod up test [49; 57] [54] in
  let fs0 := [(old, [111; 108; 100]); ([120], [1])] in
  let ops := save_ops [] tmp final [118] [97; 10; 98] 5 [255] in
  length ops = 9%nat /\
  map fst (matches pat (apply_ops (firstn 3 ops) fs0)) = [old] /\
  look tmp (apply_ops (firstn 3 ops) fs0) = Some [35; 32; 97; 10] /\
  map fst (matches pat (apply_ops ops fs0)) = [final; old] /\
  look final (apply_ops ops fs0) = Some (save_bytes [118] [97; 10; 98] 5 [255]) /\
  look tmp (apply_ops ops fs0) = None.
Proof. vm_compute. repeat split; reflexivity. Qed.
