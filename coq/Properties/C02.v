(* C02 - no falsification is lost.  Statements only. *)
From Coq Require Import Lia.
Require Import Rapid.Model.Base Rapid.Model.Syntax Rapid.Model.Monad Rapid.Model.Engine Rapid.Model.Shrink.
Require Import Rapid.Proofs.Signals Rapid.Proofs.EngineProofs.
Require Import Rapid.Proofs.Glue.
Require Import Rapid.Model.Corr Rapid.Generated.GeomTable.   (* for the example only *)
Local Open Scope nat_scope.

(* For every program, every source, every nesting: if anywhere in the execution of a test case - property
   body, Repeat action or invariant, Custom generator function (kept or rejected attempt), cleanup callback of
   the outer or of an inner T - user code calls Error/Errorf/Fail, Fatal/Fatalf/FailNow, or panics (any kind of
   signal), then the test case neither passes nor counts as invalid: it is a failure (or the model's fuel
   artefact) - whatever happens afterwards, including a Skip by the property or by a cleanup function, and
   including a generator that runs out of data inside a cleanup function of a Custom generator's inner T (that
   event is remembered on the inner T and no longer replaces a panic in flight).  Every kind of signal, panics
   included, is covered unconditionally. *)
Theorem C02_signal_fails_case :
  forall geom LF lvl p x k mm id,
    let o := checkOnce geom LF lvl p (start x) in
    In (USignal k mm id) (tr (w o)) ->
    ~ ((exists u, res o = Ok u) \/ (exists m, res o = Err (XInvalid m))).
Proof. exact signal_fails_case_any. Qed.
Print Assumptions C02_signal_fails_case.

(* Non-vacuity, and the former counterexample of the panic case: a Custom generator function registers a cleanup
   function that draws and then panics; on the empty buffer (and on a random source with a cleanup function whose
   filter never succeeds) the cleanup function runs out of data - the panic is still what the test case ends with. *)
Definition ex02_body (g : gexp) : prog :=
  PCleanup 0 (PDraw g (fun _ => PRet VU)) (PFail KPanic 1 (MUser 7) (PRet VU)).
Definition ex02_run (g : gexp) (x : source) : out unit :=
  checkOnce (geom_of geom_tab) 100 3 (PDraw (GCustom (ex02_body g)) (fun _ => PRet VU)) (start x).
Example C02_example_panic_then_cleanup_out_of_data :
  (let o := ex02_run GBool (SBuf []) in
   In (USignal KPanic (MUser 7) 1) (tr (w o)) /\ res o = Err (XPanic (MUser 7) (SUser 1)) /\ dirty (w o) = true)
  /\ (let o := ex02_run (GFilter GBool (fun _ => false)) (SRnd (jsf_init 2)) in
      In (USignal KPanic (MUser 7) 1) (tr (w o)) /\ res o = Err (XPanic (MUser 7) (SUser 1)) /\ dirty (w o) = true).
Proof. vm_compute. repeat split; auto 10. Qed.

(* the flag behind it: failed is sticky on every T and every such signal sets it (also forwarded from an
   inner Custom T to its parent) *)
Theorem C02_failed_is_sticky :
  forall geom LF lvl p s,
    (failed (ts s) <> None \/ nf (w (checkOnce geom LF lvl p s)) = true) ->
    failed (ts (post (checkOnce geom LF lvl p s))) <> None.
Proof. intros geom LF lvl p. exact (proj1 (sig_checkOnce geom LF lvl p)). Qed.
Print Assumptions C02_failed_is_sticky.

(* a failing test case anywhere in the run (first, last, after many skipped ones) stops findBug with an error *)
Theorem C02_failing_case_fails_run :
  forall geom LF, 1 <= LF -> forall lvl p checks early seed i,
    In i (fb_log (findBug0 geom LF lvl p checks early seed)) ->
    (forall u, res (iv_out i) <> Ok u) -> (forall m, res (iv_out i) <> Err (XInvalid m)) ->
    fb_err (findBug0 geom LF lvl p checks early seed) <> None.
Proof. exact failing_case_stops_findBug. Qed.
Print Assumptions C02_failing_case_fails_run.

(* and checkTB fails the TB whenever doCheck returns an error (FailNow is then called) *)
Theorem C02_error_fails_TB :
  forall geom LF lvl p files checks nofailfile early seed cands clock,
    (forall u, dc_err1 (doCheck geom LF lvl p files checks early seed cands clock) <> Ok u) ->
    tb_failed (checkTB geom LF lvl p files checks nofailfile early seed cands clock) = true.
Proof. exact C02_error_fails_TB_glue. Qed.
Print Assumptions C02_error_fails_TB.
