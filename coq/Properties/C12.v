(* C12 - Minimization reaches the exact boundary on threshold properties.  Statements only.
   What is proved here is the block-level core the property rests on (shrink.go: minimize / minimizer):
   for EVERY 64-bit start value and EVERY threshold the search ends exactly on the threshold.  The way
   Check composes block minimization with group removal over the value encodings is decided by the
   implementation oracle (harness c12-oracle) and the correspondence min-cases; see DESIGN.md. *)
From Coq Require Import NArith Lia.
Require Import Rapid.Model.Base Rapid.Model.Minimize.
Require Import Rapid.Generated.Consts.
Require Import Rapid.Proofs.MinimizeProofs.
Local Open Scope N_scope.

(* `small` as read from shrink.go by the translator *)
Lemma small_is_5 : smallN = 5. Proof. reflexivity. Qed.

(* a condition that holds exactly at or beyond a threshold t, started anywhere at or beyond it: the result is t.
   All thresholds of every magnitude, incl. >= 2^62, powers of two and their neighbours; all start values. *)
Theorem C12_minimize_exact :
  forall t u : N, t <= u -> u < 2 ^ 64 -> minimize (fun x => N.leb t x) u = t.
Proof. intros t u. exact (minimize_exact t u small_is_5). Qed.
Print Assumptions C12_minimize_exact.

(* for any pure condition (monotone or not): the result is never larger than the start, and it is the start
   itself or a value that satisfies the condition - minimization never reports a value that does not fail *)
Theorem C12_minimize_sound :
  forall (cond : N -> bool) (u : N),
    minimize cond u <= u /\ (minimize cond u = u \/ cond (minimize cond u) = true).
Proof. exact minimize_sound. Qed.
Print Assumptions C12_minimize_sound.

(* non-vacuity: thresholds at the top of the type and next to a power of two *)
Example C12_top : minimize (fun x => N.leb (2 ^ 64 - 2) x) (2 ^ 64 - 1) = 2 ^ 64 - 2.
Proof. vm_compute. reflexivity. Qed.
Example C12_pow : minimize (fun x => N.leb (2 ^ 62 + 1) x) 13835058055282163712 = 2 ^ 62 + 1.
Proof. vm_compute. reflexivity. Qed.
