(* C12 - Minimization reaches the exact boundary on threshold properties.  Statements only.
   What is proved here is the block-level core the property rests on (shrink.go: minimize / minimizer):
   for EVERY 64-bit start value and EVERY threshold the search ends exactly on the threshold.  The way
   Check composes block minimization with group removal over the value encodings is decided by the
   implementation oracle (harness c12-oracle) and the correspondence min-cases; see DESIGN.md. *)
From Coq Require Import NArith Lia.
Require Import Rapid.Model.Base Rapid.Model.Minimize.
Require Import Rapid.Generated.Consts.
Require Import Rapid.Model.Syntax Rapid.Model.Monad Rapid.Model.Prim.
Require Import Rapid.Proofs.MinimizeProofs Rapid.Proofs.MinimizeMono Rapid.Proofs.Reach Rapid.Proofs.BiasMono.
Local Open Scope N_scope.

(* `small` as read from shrink.go by the translator *)
Lemma small_is_5 : smallN = 5. Proof. reflexivity. Qed.

(* a condition that holds exactly at or beyond a threshold t, started anywhere at or beyond it: the result is t.
   All thresholds of every magnitude, incl. >= 2^62, powers of two and their neighbours; all start values. *)
Theorem C12_minimize_exact :
  forall t u : N, t <= u -> u < 2 ^ 64 -> minimize (fun x => N.leb t x) u = t.
Proof. intros t u. exact (minimize_exact t u small_is_5). Qed.
Print Assumptions C12_minimize_exact.

(* for any pure condition (monotone or not): the result is never larger than the start, and it is the start
   itself or a value that satisfies the condition - minimization never reports a value that does not fail *)
Theorem C12_minimize_sound :
  forall (cond : N -> bool) (u : N),
    minimize cond u <= u /\ (minimize cond u = u \/ cond (minimize cond u) = true).
Proof. exact minimize_sound. Qed.
Print Assumptions C12_minimize_sound.

(* every monotone condition (not only x >= t), every 64-bit start value that satisfies it: the result is the
   least satisfying value *)
Theorem C12_minimize_least :
  forall (cond : N -> bool) (u : N),
    u < 2 ^ 64 -> cond u = true ->
    (forall x y, x <= y -> y <= u -> cond x = true -> cond y = true) ->
    cond (minimize cond u) = true /\ forall x, x < minimize cond u -> cond x = false.
Proof. intros cond u. exact (minimize_least cond u small_is_5). Qed.
Print Assumptions C12_minimize_least.

(* "value encodings are monotone in their blocks", for the full-range unsigned kinds: dec64 n w is what
   genUintNBiased returns on the two blocks [k; w] when the bias word k selects n bits ... *)
Theorem C12_blocks_decode :
  forall geom k w rest s,
    k < 2 ^ 53 -> src s = SBuf (k :: w :: rest) ->
    exists fl fr, steps (genUintNBiased geom 1 full) s (dec64 (geom 64%nat k) w, fl, fr) (with_src s (SBuf rest)).
Proof. exact dec64_is_run. Qed.
Print Assumptions C12_blocks_decode.
(* ... it is monotone in the bias block, so under "fails iff value >= t" minimizing that block ends on the
   least bias word that still fails (for every geom oracle that is monotone in k, as the regenerated table is:
   Reach.geom_of_mono_tab) ... *)
Theorem C12_bias_block_minimized_exactly :
  forall (geom : nat -> N -> N) (t k w : N),
    (forall a b, a <= b -> geom 64%nat a <= geom 64%nat b) ->
    k < 2 ^ 64 -> t <= dec64 (geom 64%nat k) w ->
    let k0 := minimize (fun k' => N.leb t (dec64 (geom 64%nat k') w)) k in
    t <= dec64 (geom 64%nat k0) w /\ forall k', k' < k0 -> dec64 (geom 64%nat k') w < t.
Proof. exact bias_block_minimized_exactly. Qed.
Print Assumptions C12_bias_block_minimized_exactly.
(* ... and minimizing the value block (a word below 2^n, as the PRNG stream records it) ends exactly on t *)
Theorem C12_value_block_minimized_exactly :
  forall n t w : N, n <= 64 -> w < 2 ^ n -> t <= w ->
    minimize (fun w' => N.leb t (dec64 n w')) w = t.
Proof. exact value_block_minimized_exactly. Qed.
Print Assumptions C12_value_block_minimized_exactly.

(* non-vacuity: thresholds at the top of the type and next to a power of two *)
Example C12_top : minimize (fun x => N.leb (2 ^ 64 - 2) x) (2 ^ 64 - 1) = 2 ^ 64 - 2.
Proof. vm_compute. reflexivity. Qed.
Example C12_pow : minimize (fun x => N.leb (2 ^ 62 + 1) x) 13835058055282163712 = 2 ^ 62 + 1.
Proof. vm_compute. reflexivity. Qed.
