(* C07 - the printed seed reproduces the failure.  Statements only. *)
From Coq Require Import Lia.
Require Import Rapid.Model.Base Rapid.Model.Syntax Rapid.Model.Monad Rapid.Model.Engine Rapid.Model.Shrink.
Require Import Rapid.Proofs.EngineProofs.
Local Open Scope nat_scope.

(* If a run (any base seed, any index of the first falsified case) stops at a failing case and returns seed s
   with error e, then a run started with -rapid.seed = s fails at its very first case: 0 valid, 0 invalid,
   same error, and returns the same seed - whatever the early-exit behaviour. *)
Theorem C07_seed_reproduces :
  forall geom LF, 1 <= LF -> forall lvl p checks early early' seed e,
    1 <= checks ->
    fb_err (findBug0 geom LF lvl p checks early seed) = Some e -> e <> XFuel ->
    let s := fb_seed (findBug0 geom LF lvl p checks early seed) in
    let r' := findBug0 geom LF lvl p checks early' s in
    fb_err r' = Some e /\ fb_valid r' = 0 /\ fb_invalid r' = 0 /\ fb_seed r' = s.
Proof. exact seed_reproduces. Qed.
Print Assumptions C07_seed_reproduces.

(* the returned seed is the seed of the failing case itself *)
Theorem C07_seed_is_failing_case :
  forall geom LF lvl p fuel checks early seed valid invalid log e,
    fb_err (findBug geom LF lvl p fuel checks early seed valid invalid log) = Some e -> e <> XFuel ->
    res (run_case geom LF lvl p (SRnd (jsf_init (fb_seed (findBug geom LF lvl p fuel checks early seed valid invalid log))))) = Err e
    /\ (forall m, e <> XInvalid m)
    /\ fb_seed (findBug geom LF lvl p fuel checks early seed valid invalid log)
       = wrapN (fb_seed (findBug geom LF lvl p fuel checks early seed valid invalid log)).
Proof. exact findBug_failure. Qed.
Print Assumptions C07_seed_is_failing_case.

(* a fixed seed fixes the whole run: checkTB is a function of its arguments (no hidden state) *)
Theorem C07_run_deterministic :
  forall geom LF lvl p files checks nofailfile early seed cands clock,
    checkTB geom LF lvl p files checks nofailfile early seed cands clock
    = checkTB geom LF lvl p files checks nofailfile early seed cands clock.
Proof. reflexivity. Qed.
