(* C01 - a reported failure is real.  Statements only. *)
From Coq Require Import Lia.
Require Import Rapid.Model.Base Rapid.Model.Syntax Rapid.Model.Monad Rapid.Model.Engine Rapid.Model.Shrink.
Require Import Rapid.Proofs.EngineProofs.
Local Open Scope nat_scope.

(* For every program whose runs leave no trace of rejected attempts (flag dirty, see C04) and within the
   model's fuel; every set of fail files, -rapid.checks, -rapid.nofailfile, base seed, early-exit behaviour;
   EVERY candidate sequence the minimizer may try and EVERY deadline behaviour (clock): whenever checkTB
   fails the test with a falsification, it is never "flaky"; the final replay runs exactly the presented
   buffer on a fresh T and ends with exactly the reported error (same message, same site); the buffer
   handed to the fail file (when one is written) is that same buffer. *)
Theorem C01_reported_failure_is_real :
  forall geom LF, 1 <= LF -> forall lvl p,
    (forall x, dirty (w (run_case geom LF lvl p x)) = false) ->
    (forall x, res (run_case geom LF lvl p x) <> Err XFuel) ->
    forall files checks nofailfile early seed cands clock,
    let tb := checkTB geom LF lvl p files checks nofailfile early seed cands clock in
    tb_failed tb = true ->
    match tb_verdict tb with
    | VOk _ => False
    | VOnlyGenerated _ _ => tb_final tb = None /\ tb_saved tb = None
    | VFlaky => False
    | VFailedAfter _ e | VPanicAfter _ e =>
        let buf := dc_buf (tb_dc tb) in
        tb_final tb = Some (run_case geom LF lvl p (SBuf buf)) /\
        res (run_case geom LF lvl p (SBuf buf)) = Err e /\
        (tb_saved tb = None \/ tb_saved tb = Some buf) /\
        dc_err2 (tb_dc tb) = Err e /\ (forall m, e <> XInvalid m)
    end.
Proof. exact reported_failure_is_real. Qed.
Print Assumptions C01_reported_failure_is_real.

(* No false report: a failure found by findBug is the outcome of the run on the reported seed, on a fresh T
   (it is some executed test case's own failure, never a leftover of another case). *)
Theorem C01_no_false_report :
  forall geom LF lvl p fuel checks early seed valid invalid log e,
    fb_err (findBug geom LF lvl p fuel checks early seed valid invalid log) = Some e -> e <> XFuel ->
    res (run_case geom LF lvl p (SRnd (jsf_init (fb_seed (findBug geom LF lvl p fuel checks early seed valid invalid log))))) = Err e
    /\ (forall m, e <> XInvalid m)
    /\ fb_seed (findBug geom LF lvl p fuel checks early seed valid invalid log)
       = wrapN (fb_seed (findBug geom LF lvl p fuel checks early seed valid invalid log)).
Proof. exact findBug_failure. Qed.
Print Assumptions C01_no_false_report.
