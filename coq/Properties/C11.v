(* C11 - test cases are isolated.  Statements only. *)
From Coq Require Import Lia.
Require Import Rapid.Model.Base Rapid.Model.Syntax Rapid.Model.Monad Rapid.Model.Engine Rapid.Model.Shrink.
Require Import Rapid.Proofs.EngineProofs.
Local Open Scope nat_scope.

(* Every test case findBug executes is judged on its own execution: its outcome is that of running the
   property on a fresh T (no failed flag, no cleanups, no context) from its own seed - for every program,
   every history of earlier cases in the same Check. *)
Theorem C11_isolation :
  forall geom LF, 1 <= LF -> forall lvl p checks early seed i,
    In i (fb_log (findBug0 geom LF lvl p checks early seed)) ->
    iv_out i = checkOnce geom LF lvl p (start (iv_src i)).
Proof. exact findBug_isolated. Qed.
Print Assumptions C11_isolation.

(* the case findBug reports is one that failed in its own execution *)
Theorem C11_reported_case_failed_itself :
  forall geom LF lvl p fuel checks early seed valid invalid log e,
    fb_err (findBug geom LF lvl p fuel checks early seed valid invalid log) = Some e -> e <> XFuel ->
    res (checkOnce geom LF lvl p (start (SRnd (jsf_init (fb_seed (findBug geom LF lvl p fuel checks early seed valid invalid log)))))) = Err e
    /\ (forall m, e <> XInvalid m)
    /\ fb_seed (findBug geom LF lvl p fuel checks early seed valid invalid log)
       = wrapN (fb_seed (findBug geom LF lvl p fuel checks early seed valid invalid log)).
Proof. exact findBug_failure. Qed.
Print Assumptions C11_reported_case_failed_itself.

(* a test case starts and ends with an empty T: nothing is handed on *)
Theorem C11_fresh_start : start = fun x => mkSt x fresh_t.
Proof. reflexivity. Qed.
