(* C13 - MakeFuzz is total and faithful on arbitrary bytes.  Statements only. *)
From Coq Require Import Lia.
Require Import Rapid.Model.Base Rapid.Model.Syntax Rapid.Model.Monad Rapid.Model.Engine.
Require Import Rapid.Proofs.Frame Rapid.Proofs.Prefix Rapid.Proofs.FuzzProofs Rapid.Proofs.Termination.
Local Open Scope nat_scope.

(* checkFuzz reads the input as little-endian 64-bit words, a short tail zero-padded: ceil(n/8) words,
   word i = sum_j byte(8i+j) * 256^j *)
Theorem C13_words_length : forall bs, length (words_of_bytes (S (length bs)) bs) = (length bs + 7) / 8.
Proof. exact words_length. Qed.
Print Assumptions C13_words_length.

Theorem C13_words_little_endian : forall bs i, i < (length bs + 7) / 8 ->
  nth i (words_of_bytes (S (length bs)) bs) 0%N = le_word (firstn 8 (skipn (8 * i) bs)) 0.
Proof. exact words_nth. Qed.
Print Assumptions C13_words_little_endian.

(* faithful: the status is a function of the outcome of one test case run on exactly those words, on a
   fresh T: fails iff falsified, skips iff invalid data (exhausted input included), else passes *)
Theorem C13_faithful : forall geom LF lvl p bs,
  let o := checkOnce geom LF lvl p (start (SBuf (words_of_bytes (S (length bs)) bs))) in
  checkFuzz geom LF lvl p bs = (status_of (res o), o) /\
  (status_of (res o) = FPass <-> exists u, res o = Ok u) /\
  (status_of (res o) = FSkip <-> exists m, res o = Err (XInvalid m)) /\
  (status_of (res o) = FFail <-> exists m s, res o = Err (XStop m s) \/ res o = Err (XPanic m s)).
Proof. exact fuzz_faithful. Qed.
Print Assumptions C13_faithful.

(* total: apart from the model's own fuel artefact the result is one of pass / skip / fail *)
Theorem C13_total : forall geom LF lvl p bs,
  res (snd (checkFuzz geom LF lvl p bs)) <> Err XFuel ->
  fst (checkFuzz geom LF lvl p bs) = FPass \/ fst (checkFuzz geom LF lvl p bs) = FSkip \/ fst (checkFuzz geom LF lvl p bs) = FFail.
Proof. exact fuzz_total. Qed.
Print Assumptions C13_total.

(* appending whole words that the run does not reach changes nothing: same status, same draws, same
   recording (stated for runs that leave at least one word unread; see DESIGN for the exact-fit case) *)
Theorem C13_suffix : forall geom LF lvl p (ws ext rest : list word),
  let o := checkOnce geom LF lvl p (start (SBuf ws)) in
  src (post o) = SBuf rest -> rest <> [] ->
  let o' := checkOnce geom LF lvl p (start (SBuf (ws ++ ext))) in
  res o' = res o /\ w o' = w o /\ src (post o') = SBuf (rest ++ ext).
Proof. exact fuzz_suffix. Qed.
Print Assumptions C13_suffix.

Example C13_words_example :
  words_of_bytes 12 [1; 2; 3; 4; 5; 6; 7; 8; 9; 10; 11]%N = [578437695752307201; 723465]%N.
Proof. vm_compute. reflexivity. Qed.

(* it never hangs: on every byte string the run ends for a reason other than the model's loop fuel, as soon
   as the fuel exceeds the number of input words (properties without cleanups; with cleanups: C03_fuel_means_many_cleanups) *)
Theorem C13_never_hangs :
  forall geom LF lvl p bs,
    cleanup_free_p p -> length (words_of_bytes (S (length bs)) bs) < LF ->
    fst (checkFuzz geom LF lvl p bs) <> FFuel.
Proof. exact no_fuel_checkFuzz. Qed.
Print Assumptions C13_never_hangs.
