(* C14 -- T's non-drawing methods are safe to call from many goroutines.
   Only statements, `exact` of the lemmas proved in Proofs/, Print Assumptions, and examples. *)
From Coq Require Import List Arith Bool.
From Rapid Require Import Model.Lockset Model.Conc Generated.Locksets.
From Rapid Require Import Proofs.LocksetProofs Proofs.ConcProofs Proofs.LocksetExamples.
Import ListNotations.

(* (1) Generic, proved once: if the per-method access table passes the check, then in every
   well-formed trace (sync.RWMutex: writers exclusive, readers shared; sync.Once) in which every
   goroutine executes any sequence of methods of the table, any two conflicting accesses of
   different goroutines are ordered by happens-before.  Any number of goroutines, any interleaving. *)
Theorem C14_lockset_sound : forall (tbl : table) (tr : trace),
  table_ok tbl = true -> wf_trace tr -> conforms tbl tr -> forall i j, ~ race tr i j.
Proof. exact lockset_sound. Qed.
Print Assumptions C14_lockset_sound.

(* (2) The table regenerated from engine.go by /verif/extract on every run passes the check. *)
Theorem C14_table_ok : table_ok t_methods = true.
Proof. vm_compute. reflexivity. Qed.
Print Assumptions C14_table_ok.

(* (1)+(2): no data race between the listed methods of *T *)
Theorem C14_no_race : forall tr : trace,
  wf_trace tr -> conforms t_methods tr -> forall i j, ~ race tr i j.
Proof. exact (fun tr => lockset_sound t_methods tr C14_table_ok). Qed.
Print Assumptions C14_no_race.

(* (3) No lost update, on the atomic-section transition system of (failed, cleanups, ctx, cancelCtx,
   cleaning), for all interleavings of any multiset of calls by any number of goroutines. *)

(* a failure signalled from any goroutine is seen by every later Failed() / failOnError *)
Theorem C14_fail_sticks : forall pre t m post s,
  csteps init (pre ++ LFail t m :: post) s ->
  (forall l m', In l (pre ++ LFail t m :: post) -> fail_msg l = Some m' -> m' <> 0) ->
  failed (st s) <> 0 /\ forall l r, In l post -> fail_obs l = Some r -> r = true.
Proof. exact fail_sticks. Qed.
Print Assumptions C14_fail_sticks.

(* every function registered by any goroutine, before or during cleanup, is run exactly once, provided
   no registration comes after cleanup has seen the stack empty *)
Theorem C14_cleanups_once : forall pre post s,
  csteps init (pre ++ LKCheck false :: post) s ->
  forallb (fun l => negb (is_reg l)) post = true ->
  forall f, count_occ Nat.eq_dec (rans (pre ++ LKCheck false :: post)) f =
            count_occ Nat.eq_dec (regs (pre ++ LKCheck false :: post)) f /\
            count_occ Nat.eq_dec (regs (pre ++ LKCheck false :: post)) f <= 1.
Proof. exact cleanups_once. Qed.
Print Assumptions C14_cleanups_once.

(* ... and in every run whatsoever no registration is run twice, and nothing unregistered is run *)
Theorem C14_cleanups_at_most_once : forall ls s,
  csteps init ls s ->
  forall f, count_occ Nat.eq_dec (rans ls) f <= count_occ Nat.eq_dec (regs ls) f /\
            count_occ Nat.eq_dec (regs ls) f <= 1.
Proof. exact cleanups_at_most_once. Qed.
Print Assumptions C14_cleanups_at_most_once.

(* all Context() calls that return before cleanup starts return one and the same, live, context *)
Theorem C14_one_context : forall pre post s,
  csteps init (pre ++ post) s ->
  forallb (fun l => negb (is_cleaner l)) pre = true ->
  forall l1 l2 c1 c2,
    In l1 pre -> In l2 pre -> ctx_ret l1 = Some c1 -> ctx_ret l2 = Some c2 ->
    c1 = c2 /\
    exists s1, csteps init pre s1 /\ ctx (st s1) = Some c1 /\ ~ In c1 (cancelled (st s1)).
Proof. exact one_context. Qed.
Print Assumptions C14_one_context.

(* ---- non-vacuity ---- *)

(* the hypotheses of C14_lockset_sound are satisfiable together (a writer and a reader under one
   RWMutex), and the two accesses are indeed ordered *)
Example C14_ex_protected :
  table_ok ex_tbl = true /\ wf_trace ex_tr /\ conforms ex_tbl ex_tr /\ hb ex_tr 1 4.
Proof. exact (conj ex_tbl_ok (conj ex_tr_wf (conj ex_tr_conforms ex_tr_ordered))). Qed.

(* a race exists in the model: an unprotected writer/reader pair; the table check rejects its table *)
Example C14_ex_race :
  table_ok bad_tbl = false /\ wf_trace bad_tr /\ conforms bad_tbl bad_tr /\ race bad_tr 0 1.
Proof. exact (conj bad_tbl_rejected bad_tr_races). Qed.

(* the generated table is not trivial: it has rows, and critical sections *)
Example C14_ex_table_nonempty :
  (15 <=? length t_methods) = true /\ (40 <=? length (table_anns t_methods)) = true /\
  existsb (fun a => match a_held a with [] => false | _ => true end) (table_anns t_methods) = true.
Proof. vm_compute. repeat split; reflexivity. Qed.

(* runs of the transition system: a failure seen by another goroutine; registrations from three
   goroutines (one during cleanup) all run; two goroutines racing through Context() *)
Example C14_ex_run_fail :
  exists s, csteps init [LFail 1 7; LFailed 2 true; LFailOnError 0 true] s /\ failed (st s) = 7.
Proof. exact ex_run_fail. Qed.
Example C14_ex_run_cleanup :
  exists s, csteps init ex_labels_cleanup s /\ cleanups (st s) = [] /\ kpc s = KIdle.
Proof. exact ex_run_cleanup. Qed.
Example C14_ex_run_ctx :
  exists s, csteps init ex_labels_ctx s /\ ctx (st s) = None /\ cancelled (st s) = [1; 0].
Proof. exact ex_run_ctx. Qed.
