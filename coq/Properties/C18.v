(* C18 - Generators can reach every allowed value, hit the edges, and use fresh seeds.  Statements only. *)
From Coq Require Import NArith ZArith List Lia.
Require Import Rapid.Model.Base Rapid.Model.Syntax Rapid.Model.Monad Rapid.Model.Prim Rapid.Model.Corr Rapid.Model.Witness.
Require Import Rapid.Generated.GeomTable.
Require Import Rapid.Proofs.Reach Rapid.Proofs.Jsf.
Import ListNotations.
Local Open Scope N_scope.

(* the geom oracle of the theorems below is the table regenerated from the real genGeom on every run *)
Notation geomT := (geom_of geom_tab).

(* every value of every unsigned range [mn, mx] (any width up to 64 bits, placed anywhere incl. the type
   extremes) is produced by an explicit two-word bitstream, which is consumed exactly *)
Theorem C18_uint_every_value_reachable :
  forall fuel mn mx u rest s,
    mx < 2 ^ 64 -> mn <= u <= mx ->
    src s = SBuf (urange_wit mn mx u ++ rest) ->
    exists fl fr, steps (genUintRange geomT (S fuel) mn mx true) s (u, fl, fr) (with_src s (SBuf rest)).
Proof. exact urange_reachable. Qed.
Print Assumptions C18_uint_every_value_reachable.

(* every value of every signed range inside int64 is produced by an explicit three-word bitstream *)
Theorem C18_int_every_value_reachable :
  forall fuel (mn mx v : Z) rest s,
    (- 2 ^ 63 <= mn)%Z -> (mx < 2 ^ 63)%Z -> (mn <= v <= mx)%Z ->
    src s = SBuf (int_wit mn mx v ++ rest) ->
    exists fl fr, steps (genIntRange geomT (S fuel) mn mx) s (v, fl, fr) (with_src s (SBuf rest)).
Proof. exact int_reachable. Qed.
Print Assumptions C18_int_every_value_reachable.

(* edges: for every bit length at least one 53-bit selector word in 50 forces the maximum, whatever the
   next word is ... *)
Theorem C18_max_mass :
  forall bl k, (bl <= 64)%nat -> over_from bl <= k ->
    N.of_nat bl < geomT bl k /\ N.of_nat (over_thr bl) <= geomT bl k /\ 2 ^ 53 <= (2 ^ 53 - over_from bl) * 50.
Proof. exact max_mass. Qed.
Print Assumptions C18_max_mass.
Theorem C18_overflow_gives_max :
  forall geom fuel max k x rest s,
    k < 2 ^ 53 ->
    N.of_nat (len64 max) < geom (len64 max) k -> N.of_nat (over_thr (len64 max)) <= geom (len64 max) k ->
    src s = SBuf (k :: x :: rest) ->
    exists fl fr, steps (genUintNBiased geom (S fuel) max) s (max, fl, fr) (with_src s (SBuf rest)).
Proof. exact overflow_gives_max. Qed.
Print Assumptions C18_overflow_gives_max.
(* ... and at least one selector word in 18 selects a single bit, after which every even word gives offset 0
   (the minimum of an unsigned range, zero of a signed one) *)
Theorem C18_zero_mass : zero_mass_ok = true.
Proof. exact zero_mass_ok_true. Qed.
Theorem C18_one_bit_gives_zero :
  forall geom fuel max k x rest s,
    k < 2 ^ 53 -> geom (len64 max) k = 1 -> N.even x = true ->
    src s = SBuf (k :: x :: rest) ->
    exists fl fr, steps (genUintNBiased geom (S fuel) max) s (0, fl, fr) (with_src s (SBuf rest)).
Proof. exact one_bit_gives_zero. Qed.
Print Assumptions C18_one_bit_gives_zero.

(* the seeds of the test cases of one run (engine.go: seed + i in uint64 arithmetic) are pairwise distinct *)
Theorem C18_seeds_distinct :
  forall seed i j, i < 2 ^ 64 -> j < 2 ^ 64 -> i <> j -> wrapN (seed + i) <> wrapN (seed + j).
Proof. exact seeds_distinct. Qed.
Print Assumptions C18_seeds_distinct.

(* ... and so are the PRNG states the test cases start from: one jsf64 round is injective on 64-bit states, hence
   different seeds give different generator states *)
Theorem C18_case_states_distinct :
  forall seed i j, i < 2 ^ 64 -> j < 2 ^ 64 -> i <> j -> jsf_init (wrapN (seed + i)) <> jsf_init (wrapN (seed + j)).
Proof. exact case_states_distinct. Qed.
Print Assumptions C18_case_states_distinct.
Theorem C18_jsf_init_injective :
  forall s1 s2, s1 < 2 ^ 64 -> s2 < 2 ^ 64 -> jsf_init s1 = jsf_init s2 -> s1 = s2.
Proof. exact jsf_init_injective. Qed.
Print Assumptions C18_jsf_init_injective.

(* non-vacuity: a value of the former dead band of Uint64 (top bit set, not the maximum) *)
Example C18_dead_band_value :
  exists fl fr, steps (genUintRange geomT 1 0 (2 ^ 64 - 1) true)
                      (mkSt (SBuf (urange_wit 0 (2 ^ 64 - 1) (2 ^ 63 + 12345))) fresh_t)
                      (2 ^ 63 + 12345, fl, fr) (mkSt (SBuf []) fresh_t).
Proof.
  destruct (urange_reachable 0 0 (2 ^ 64 - 1) (2 ^ 63 + 12345) [] (mkSt (SBuf (urange_wit 0 (2 ^ 64 - 1) (2 ^ 63 + 12345))) fresh_t))
    as [fl [fr H]]; [reflexivity|lia|cbn [src]; rewrite app_nil_r; reflexivity|]. exists fl, fr. exact H.
Qed.
