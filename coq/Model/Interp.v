(* The interpreter: generator.go (value/Draw), combinators.go, collections.go, statemachine.go and
   the T methods of engine.go, written as one structural recursion over gexp/prog.
   Cleanup functions are stored programs; running them is not structural, so the runner for stored
   programs is a parameter [crun] and the knot is tied on a nesting level in Engine.v. *)
Require Import Rapid.Model.Base Rapid.Model.Syntax Rapid.Model.Monad Rapid.Model.Prim.
Require Import Rapid.Generated.Consts.

Definition swap_nth (l : list val) (i j : nat) : list val :=
  let a := nth i l VU in let b := nth j l VU in
  map (fun p : nat * val => let '(n, x) := p in if Nat.eqb n i then b else if Nat.eqb n j then a else x)
      (combine (seq 0 (length l)) l).

Definition try_w {A B} (m : M A) (h : result A -> wr -> M B) : M B := fun s =>
  let o := m s in let o2 := h (res o) (w o) (post o) in mkOut (res o2) (post o2) (wapp (w o) (w o2)).

Definition failOnError (loc : site) : M unit := fun s =>
  match failed (ts s) with
  | Some m => mkOut (Err (XStop m loc)) s wnil
  | None => mkOut (Ok tt) s wnil
  end.

Section Interp.
  Variable geom : nat -> N -> N.
  Variable LF : nat.                        (* fuel handed to every loop *)
  Variable crun : prog -> M val.            (* runs a stored cleanup function *)

  (* ---- T.cleanup: cancel the context, then pop and run until the stack is empty; a panicking
     cleanup does not stop the others; the last panic is the one that propagates ---- *)
  Fixpoint cleanup_loop (inner : bool) (fuel : nat) (last : option exn) : M (option exn) :=
    match fuel with
    | O => throw XFuel
    | S f =>
        c <- pop_cleanup ;;
        match c with
        | None => ret last
        | Some c =>
            try_ (crun c) (fun r =>
              match r with
              | Err XFuel => throw XFuel
              | Err (XInvalid m) =>
                  if inner && internal_msg m then
                    (* a generator ran out of data inside a cleanup function of a Custom generator function: not a skip
                       request; it is remembered on the inner T (and rejects the attempt) without replacing anything *)
                    _ <- mark_dirty ;;
                    _ <- note_ood m ;;
                    cleanup_loop inner f last
                  else
                    (* a skip requested by a cleanup function is honoured when the test case ends; it never replaces a
                       failure in flight (runCleanup).  A cleanup of the outermost T that ran out of data: replay-unfaithful *)
                    _ <- (if internal_msg m then mark_dirty else ret tt) ;;
                    _ <- note_skip m ;;
                    cleanup_loop inner f last
              | Err e => cleanup_loop inner f (Some e)
              | Ok _ => cleanup_loop inner f last
              end)
        end
    end.
  Definition cleanup (inner : bool) : M (option exn) :=
    _ <- begin_cleanup ;;
    r <- cleanup_loop inner LF None ;;
    _ <- end_cleanup ;;
    ret r.

  (* what happens when the Custom function itself ends: the harness sees it return or panic; a value returned
     after a non-fatal failure fails the test case at once (failOnError in maybeValue) *)
  Definition custom_end (r : result val) : M val :=
    match r with
    | Err XFuel => throw XFuel
    | _ =>
        _ <- emit_u (UCustomEnd (match r with Ok _ => 0 | Err _ => 1 end)%nat) ;;
        match r with
        | Ok v => _ <- failOnError SCustomFOE ;; ret v
        | Err e => throw e
        end
    end.
  Definition custom_handler (r : result val) : M (option val) :=
    match r with
    | Err XFuel => throw XFuel
    | _ =>
        c <- cleanup true ;;                          (* the inner T's cleanup runs before the recover decides *)
        t0 <- get_ts ;;
        match c, r with
        | None, Ok v =>
            (* a generator ran out of data inside a cleanup function after the function returned: the attempt is
               rejected - unless a non-fatal failure was signalled *)
            match ood t0 with
            | Some m => match failed t0 with Some _ => throw (XInvalid m) | None => ret None end
            | None => ret (Some v)
            end
        | Some e, Err (XInvalid m) => _ <- (if internal_msg m then mark_dirty else ret tt) ;; throw e
        | Some e, _ => throw e                       (* a panic raised during cleanup wins *)
        | None, Err (XInvalid m) =>
            (* a skip does not undo a non-fatal failure signalled before it *)
            match failed t0 with Some _ => throw (XInvalid m) | None => ret None end
        | None, Err e => throw e
        end
    end.
  Definition custom_inner (body : M val) : M (option val) :=
    _ <- emit_u UCustomBegin ;;
    try_ (try_ body custom_end) custom_handler.
  Definition custom_att (body : M val) : M (option val) := with_fresh_T (custom_inner body).

  Definition gval (m : M val) : M val := group true m.       (* Generator.value *)

  Definition slice_body (elem : M val) (key : option (val -> val))
             (acc : list val * list val) : M (option (list val * list val)) :=
    v <- elem ;;
    match key with
    | None => ret (Some (fst acc ++ [v], snd acc))
    | Some kf => let k := kf v in
                 if existsb (val_eqb k) (snd acc) then ret None
                 else ret (Some (fst acc ++ [v], snd acc ++ [k]))
    end.
  Definition map_body (kv : M (val * val)) (acc : list (val * val)) : M (option (list (val * val))) :=
    p <- kv ;;
    if existsb (fun q : val * val => val_eqb (fst p) (fst q)) acc then ret None
    else ret (Some (acc ++ [p])).
  Definition perm_body (n : nat) (acc : nat * list val) : M (option (nat * list val)) :=
    let '(i, l) := acc in
    r <- genUintRange geom LF (N.of_nat i) (wrap (Z.of_nat n - 1)) false ;;
    ret (Some (S i, swap_nth l i (N.to_nat (fst (fst r))))).

  (* runAction's three ways to end, seen from executeAction *)
  Inductive actres := ADone (s : val) | ARejected | ASkipped.

  (* runAction: the action, then failOnError; how it ended is logged before failOnError *)
  Definition run_action (id : nat) (run_act : nat -> val -> M val) (i : nat) (s : val) : M actres :=
    try_w (try_w (run_act i s) (fun r wa =>
             _ <- emit_u (UActEnd i (match r with
                                     | Ok _ => 0
                                     | Err _ => if Nat.eqb (nd wa) 0 then 1 else 2 end)%nat) ;;
             match r with
             | Ok s' => _ <- failOnError (SRepeatAction id) ;; ret s'
             | Err e => throw e
             end))
          (fun r wa =>
             match r with
             | Ok s' => ret (ADone s')
             | Err (XInvalid m) =>
                 t0 <- get_ts ;;
                 match failed t0 with Some _ => throw (XInvalid m) | None =>   (* a skip does not undo a failure *)
                 if (match rd wa with [] => true | _ => false end)            (* skipped = used no bits (t.s.pos() unchanged) *)
                 then (* the try stays in the recording and is replayed: that is only
                         faithful when the skip was the action's own decision *)
                      _ <- (if internal_msg m then mark_dirty else ret tt) ;; ret ASkipped
                 else ret ARejected
                 end
             | Err e => throw e
             end).
  (* executeAction: up to validActionTries tries; a try that skipped before drawing is retried *)
  Fixpoint exec_action (id nacts : nat) (run_act : nat -> val -> M val) (tries : nat) (s : val) : M (option val) :=
    match tries with
    | O => throw (XStop MNoValidActions (SNoValid id))
    | S tr' =>
        r <- group false (
               i <- group true (genIndex geom LF nacts true) ;;
               _ <- emit_u (UAct i) ;;
               run_action id run_act i s) ;;
        match r with
        | ADone s' => ret (Some s')
        | ARejected => ret None
        | ASkipped => exec_action id nacts run_act tr' s
        end
    end.
  Definition repeat_step (id nacts : nat) (chk : val -> M unit) (run_act : nat -> val -> M val) (s : val) : M (option val) :=
    r <- exec_action id nacts run_act c_validActionTries s ;;
    match r with
    | Some s' => _ <- chk s' ;; _ <- failOnError (SRepeatCheck id) ;; ret (Some s')
    | None => ret None
    end.
  Definition run_repeat (id : nat) (K : N) (nacts : nat) (chk : val -> M unit) (run_act : nat -> val -> M val) (s0 : val) : M val :=
    _ <- chk s0 ;;
    _ <- failOnError (SRepeatInit id) ;;
    rep_loop LF 0 maxInt K (repeat_step id nacts chk run_act) 0 0 false s0.

  Fixpoint run_g (g : gexp) : M val :=
    match g with
    | GBool => u <- drawBits 1 ;; ret (VB (N.eqb u 1))
    | GUint mn mx => r <- genUintRange geom LF mn mx true ;; ret (VZ (Z.of_N (fst (fst r))))
    | GInt mn mx => r <- genIntRange geom LF mn mx ;; ret (VZ (fst (fst r)))
    | GSampled xs => i <- genIndex geom LF (length xs) true ;; ret (nth i xs VU)
    | GOneOf n gs => i <- genIndex geom LF n true ;; gval (run_g (gs i))
    | GPtr allowNil e =>
        b <- coin (if allowNil then K_half else K_always) ;;
        if b then v <- gval (run_g e) ;; ret (VP (Some v)) else ret (VP None)
    | GSlice minLen maxLen K key e =>
        r <- rep_loop LF (minc_of minLen) (maxc_of maxLen) K (slice_body (gval (run_g e)) key) 0 0 false ([], []) ;;
        ret (VL (fst r))
    | GMap minLen maxLen K ek ev =>
        r <- rep_loop LF (minc_of minLen) (maxc_of maxLen) K
               (map_body (k <- gval (run_g ek) ;; v <- gval (run_g ev) ;; ret (k, v))) 0 0 false [] ;;
        ret (VM r)
    | GMapV minLen maxLen K key ev =>
        r <- rep_loop LF (minc_of minLen) (maxc_of maxLen) K
               (map_body (v <- gval (run_g ev) ;; ret (key v, v))) 0 0 false [] ;;
        ret (VM r)
    | GPerm xs =>
        let n := length xs in
        r <- rep_loop LF 0 (N.of_nat (n - 1)) K_always (perm_body n) 0 0 false (O, xs) ;;
        ret (VL (snd r))
    | GFilter e f => find_loop (v <- gval (run_g e) ;; ret (if f v then Some v else None)) c_small
    | GMapFn e f => v <- gval (run_g e) ;; ret (f v)
    | GCustom body => find_loop (custom_att (run_p body)) c_small
    | GDeferred e => gval (run_g e)
    end
  with run_p (p : prog) : M val :=
    match p with
    | PRet v => ret v
    | PDraw g k =>
        v <- gval (run_g g) ;;
        _ <- note_draw v ;;
        run_p (k v)
    | PFail kind id m k =>
        _ <- signal kind m id ;;
        match kind with
        | KError => run_p k
        | KFatal => throw (XStop m (SUser id))
        | KPanic => throw (XPanic m (SUser id))
        end
    | PSkip m => _ <- emit_u (USkip m) ;; throw (XInvalid m)
    | PCleanup id f k =>
        _ <- register id f ;;
        run_p k
    | PContext k => b <- context_call ;; run_p (k b)
    | PFailed k =>
        t <- get_ts ;;
        let b := match failed t with Some _ => true | None => false end in
        _ <- emit_u (UFailedSeen b) ;; run_p (k b)
    | PLog n k => _ <- emit_u (ULog n) ;; run_p k
    | PRepeat id K s0 haschk check nacts act k =>
        match nacts with
        | O => run_p (k s0)
        | S _ =>
            sfin <- run_repeat id K nacts
                      (fun s => if haschk then _ <- emit_u UChk ;; _ <- run_p (check s) ;; ret tt else ret tt)
                      (fun i s => run_p (act i s)) s0 ;;
            run_p (k sfin)
        end
    end.
End Interp.
