(* Evaluation of the generated persist case files (harness subcommands persist-cases / persist-crash):
   each case carries an input and what the REAL code did with it; [mismatches] lists the ids of the
   cases on which the model computes something else.  Definitions only. *)
From Coq Require Import List NArith Bool.
From Coq Require String Ascii.
Import ListNotations.
Require Import Rapid.Generated.Consts Rapid.Model.Persist Rapid.Model.FS.
Open Scope N_scope.

(* ---- compact byte-string expressions (Coq parses literals slowly; long inputs are built, not spelled) ---- *)
Inductive bexp :=
| BHex (s : String.string)          (* two hex digits per byte *)
| BLit (s : String.string)          (* the bytes of the literal (printable ASCII without the double quote) *)
| BRaw (l : list N)
| BRep (n : N) (b : bexp)           (* n copies of b *)
| BCat (l : list bexp)
| BTake (n : N) (b : bexp)          (* the first n bytes *)
| BSet (pos v : N) (b : bexp).      (* byte number pos replaced by v *)

Definition hexval (a : Ascii.ascii) : N :=
  let c := Ascii.N_of_ascii a in
  if c <? 58 then c - 48 else if c <? 71 then c - 55 else c - 87.

Fixpoint unhex (s : String.string) : bytes :=
  match s with
  | String.String a (String.String b r) => (16 * hexval a + hexval b) :: unhex r
  | _ => []
  end.

Fixpoint set_nth (pos : nat) (v : N) (l : bytes) : bytes :=
  match l, pos with
  | [], _ => []
  | _ :: l', O => v :: l'
  | x :: l', S p => x :: set_nth p v l'
  end.

Fixpoint beval (b : bexp) : bytes :=
  match b with
  | BHex s => unhex s
  | BLit s => bytes_of_string s
  | BRaw l => l
  | BRep n b => let x := beval b in N.iter n (app x) []
  | BCat l => concat (map beval l)
  | BTake n b => firstn (N.to_nat n) (beval b)
  | BSet pos v b => set_nth (N.to_nat pos) v (beval b)
  end.

(* ---- comparisons ---- *)
Fixpoint list_eqb {A} (eqb : A -> A -> bool) (a b : list A) : bool :=
  match a, b with
  | [], [] => true
  | x :: a', y :: b' => eqb x y && list_eqb eqb a' b'
  | _, _ => false
  end.

Definition perr_eqb (a b : perr) : bool :=
  match a, b with PSyntax, PSyntax | PRange, PRange => true | _, _ => false end.
Definition pres_eqb (a b : pres) : bool :=
  match a, b with POk x, POk y => x =? y | PErr x, PErr y => perr_eqb x y | _, _ => false end.
Definition load_err_eqb (a b : load_err) : bool :=
  match a, b with
  | ErrOpen, ErrOpen | ErrScan, ErrScan | ErrNoData, ErrNoData | ErrFields, ErrFields | ErrSeed, ErrSeed | ErrWord, ErrWord => true
  | _, _ => false
  end.
Definition load_res_eqb (a b : load_res) : bool :=
  match a, b with
  | LOk v s w, LOk v' s' w' => bytes_eqb v v' && (s =? s') && bytes_eqb w w'
  | LErr x, LErr y => load_err_eqb x y
  | _, _ => false
  end.

Definition sysop_eqb (a b : sysop) : bool :=
  match a, b with
  | SOpenExcl n, SOpenExcl m => bytes_eqb n m
  | SWrite x, SWrite y => bytes_eqb x y
  | SClose, SClose => true
  | SRename x y, SRename x' y' => bytes_eqb x x' && bytes_eqb y y'
  | SUnlink n, SUnlink m => bytes_eqb n m
  | _, _ => false
  end.

(* consecutive writes merged: the kernel (or a buffering layer) may split or join them *)
Fixpoint merge_writes (l : list sysop) : list sysop :=
  match l with
  | [] => []
  | SWrite a :: r =>
      match merge_writes r with
      | SWrite b :: r' => SWrite (a ++ b) :: r'
      | r' => SWrite a :: r'
      end
  | o :: r => o :: merge_writes r
  end.

(* the random part of a CreateTemp name, if the name has the shape of failfileTmpPattern *)
Fixpoint strip_prefix (p l : list N) : option (list N) :=
  match p, l with
  | [], _ => Some l
  | x :: p', y :: l' => if x =? y then strip_prefix p' l' else None
  | _ :: _, [] => None
  end.

Definition tmp_random_part (tmp : list N) : option (list N) :=
  match split_last_star (bytes_of_string c_failfileTmpPattern) with
  | Some (p, s) =>
      match strip_prefix p tmp with
      | Some r =>
          match strip_prefix (rev s) (rev r) with
          | Some m => Some (rev m)
          | None => None
          end
      | None => None
      end
  | None => strip_prefix (bytes_of_string c_failfileTmpPattern) tmp
  end.

(* ---- cases ---- *)
Inductive lres := ROk (ver : bexp) (seed : N) (ws : list N) | RErr (e : load_err).
Definition lres_eval (r : lres) : load_res :=
  match r with ROk v s w => LOk (beval v) s w | RErr e => LErr e end.

Inductive sysobs := OOpenExcl (n : list N) | OWrite (b : bexp) | OClose | ORename (a b : list N) | OUnlink (n : list N).
Definition sysobs_eval (o : sysobs) : sysop :=
  match o with
  | OOpenExcl n => SOpenExcl n | OWrite b => SWrite (beval b) | OClose => SClose
  | ORename a b => SRename a b | OUnlink n => SUnlink n
  end.

Inductive pcase :=
(* saveFailFile(version, output, seed, buf) wrote [file]; loadFailFile of that file returned [reload] *)
| CSave (id : N) (ver out : bexp) (seed : N) (ws : list N) (file : bexp) (reload : lres)
(* loadFailFile on a file with content [file] returned r *)
| CLoad (id : N) (file : bexp) (r : lres)
(* strconv.ParseUint(s, base, 64) *)
| CParse (id : N) (base : N) (s : bexp) (r : pres)
(* strings.TrimSpace(s) *)
| CTrim (id : N) (s r : bexp)
(* tokens of bufio.Scanner/ScanLines over s *)
| CScan (id : N) (s : bexp) (toks : list bexp)
(* kindaSafeFilename, as code points *)
| CSan (id : N) (name r : list N)
(* failFileName(name) = (dir, file) with the given rendered timestamp and pid; failFilePattern(name) *)
| CPath (id : N) (name ts pid dir file pattern : list N)
(* filepath.Match(pat, name) without error *)
| CMatch (id : N) (pat name : list N) (r : bool)
(* filepath.Glob(failFilePattern(name)) in a tree whose fail-file directory lists [listing] returned
   the base names [found] (in order) *)
| CGlob (id : N) (name : list N) (listing found : list (list N))
(* the system calls of one saveFailFile(final, ver, out, seed, ws) on the target directory *)
| COps (id : N) (tmp final : list N) (ver out : bexp) (seed : N) (ws : list N) (obs : list sysobs).

Definition case_id (c : pcase) : N :=
  match c with
  | CSave id _ _ _ _ _ _ | CLoad id _ _ | CParse id _ _ _ | CTrim id _ _ | CScan id _ _ | CSan id _ _
  | CPath id _ _ _ _ _ _ | CMatch id _ _ _ | CGlob id _ _ _ | COps id _ _ _ _ _ _ _ => id
  end.

Section Check.
  Variable ld : list (N * N).     (* letters and digits: sorted inclusive ranges *)
  Variable up : list (N * N).     (* upper-casing exceptions *)

  Definition lod := in_ranges ld.
  Definition upper := assoc_or_id up.

  Definition base_of (path : list N) : list N := last (split_on 47 path) [].

  Definition case_ok (c : pcase) : bool :=
    match c with
    | CSave _ ver out seed ws file reload =>
        let f := beval file in
        bytes_eqb (save_bytes (beval ver) (beval out) seed ws) f && load_res_eqb (load_bytes f) (lres_eval reload)
    | CLoad _ file r => load_res_eqb (load_bytes (beval file)) (lres_eval r)
    | CParse _ base s r => pres_eqb (parse_uint base (beval s)) r
    | CTrim _ s r => bytes_eqb (trim_space (beval s)) (beval r)
    | CScan _ s toks => list_eqb bytes_eqb (scan_lines (beval s)) (map beval toks)
    | CSan _ name r => bytes_eqb (kindaSafeFilename lod upper name) r
    | CPath _ name ts pid dir file pattern =>
        bytes_eqb (failFileDir lod upper name) dir
        && bytes_eqb (failFileName lod upper name ts pid) file
        && bytes_eqb (failFilePattern lod upper name) pattern
    | CMatch _ pat name r => Bool.eqb (glob_match pat name) r
    | CGlob _ name listing found =>
        list_eqb bytes_eqb (filter (glob_match (failFilePatternBase lod upper name)) listing) found
    | COps _ tmp final ver out seed ws obs =>
        match tmp_random_part tmp with
        | None => false
        | Some rnd =>
            bytes_eqb (failfile_tmp_name rnd) tmp
            && list_eqb sysop_eqb
                 (merge_writes (syscalls false (save_ops [] tmp final (beval ver) (beval out) seed ws)))
                 (merge_writes (map sysobs_eval obs))
        end
    end.

  Definition mismatches (cases : list pcase) : list N :=
    map case_id (filter (fun c => negb (case_ok c)) cases).
End Check.

(* the oracle tables of the case file against the generated ones, and against ASCII below 128 *)
Fixpoint ranges_eqb (a b : list (N * N)) : bool :=
  match a, b with
  | [], [] => true
  | (x, y) :: a', (x', y') :: b' => (x =? x') && (y =? y') && ranges_eqb a' b'
  | _, _ => false
  end.

Definition ascii_agrees (ld : list (N * N)) : bool :=
  forallb (fun r => Bool.eqb (in_ranges ld r) (ascii_alnum r)) (map N.of_nat (seq 0 128)).
