(* Generator expressions and user programs.  User code is a free monad over rapid's API whose
   continuations are arbitrary Coq functions: "forall p : prog" ranges over every deterministic
   property function. *)
Require Import Rapid.Model.Base.

Inductive gexp :=
| GBool
| GUint (mn mx : N)                         (* unsigned kinds: genUintRange(min,max,bias=true) *)
| GInt (mn mx : Z)                          (* signed kinds: genIntRange(min,max,bias=true) *)
| GSampled (xs : list val)                  (* SampledFrom / Just *)
| GOneOf (n : nat) (gs : nat -> gexp)       (* OneOf(gs 0 .. gs (n-1)) *)
| GPtr (allowNil : bool) (e : gexp)
| GSlice (minLen maxLen : Z) (K : N) (key : option (val -> val)) (e : gexp)
                                            (* SliceOfN / SliceOfNDistinct; K = coin threshold of pContinue *)
| GMap (minLen maxLen : Z) (K : N) (ek ev : gexp)             (* MapOfN *)
| GMapV (minLen maxLen : Z) (K : N) (key : val -> val) (ev : gexp)   (* MapOfNValues *)
| GPerm (xs : list val)
| GFilter (e : gexp) (f : val -> bool)
| GMapFn (e : gexp) (f : val -> val)
| GCustom (body : prog)
| GDeferred (e : gexp)
with prog :=
| PRet (v : val)
| PDraw (g : gexp) (k : val -> prog)
| PFail (kind : failkind) (id : nat) (m : msg) (k : prog)    (* KError continues with k; KFatal/KPanic stop *)
| PSkip (m : msg)
| PCleanup (id : nat) (f : prog) (k : prog)
| PContext (k : bool -> prog)                                (* k receives "ctx.Err() == nil" *)
| PFailed (k : bool -> prog)
| PLog (n : N) (k : prog)
| PRepeat (id : nat) (K : N) (s0 : val) (haschk : bool) (check : val -> prog)
          (nacts : nat) (act : nat -> val -> prog) (k : val -> prog).

(* The bookkeeping of one *T. *)
Record tstate := mkT {
  failed : option msg;          (* T.failed ("" = None) *)
  cleanups : list (nat * prog); (* T.cleanups, last registered first *)
  ctx : bool;                   (* T.ctx != nil: a live context was created and not yet cancelled *)
  cleaning : bool;              (* T.cleaning *)
  skipreq : option msg;         (* root T.skipped: a cleanup function (of this T or of an inner T) asked to skip the test case *)
  ood : option msg;             (* T.noData: a generator ran out of data inside a cleanup function of this (inner) T *)
}.
Definition fresh_t : tstate := mkT None [] false false None None.
