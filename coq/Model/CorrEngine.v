(* Correspondence for the engine: doCheck with minimization switched off (shrinktime = 0), and
   sequences of accept() calls on a shrinker built from a real failing recording. *)
Require Import Rapid.Model.Base Rapid.Model.Syntax Rapid.Model.Monad Rapid.Model.Prim Rapid.Model.Interp
  Rapid.Model.Engine Rapid.Model.Pexp Rapid.Model.Groups Rapid.Model.Corr Rapid.Model.Shrink.
Local Open Scope nat_scope.

Record dc_case := mkDcCase {
  dcc_id : nat; dcc_prog : pexp; dcc_checks : nat; dcc_seed : N;
  dcc_valid : nat; dcc_invalid : nat; dcc_seed_out : N; dcc_buf : list word;
  dcc_err1 : ores; dcc_err2 : ores; dcc_invs : list (list uev);
}.
Record dcf_case := mkDcfCase {
  dcf_id : nat; dcf_prog : pexp; dcf_checks : nat; dcf_seed : N; dcf_files : list loaded;
  dcf_valid : nat; dcf_invalid : nat; dcf_seed_out : N; dcf_buf : list word;
  dcf_err1 : ores; dcf_err2 : ores; dcf_invs : list (list uev); dcf_from : option nat;
}.
Inductive acc_obs := AccNo | AccYes | AccAbortObs.
Record acc_case := mkAccCase {
  acc_id : nat; acc_prog : pexp; acc_seed : N;
  acc_steps : list (list word * acc_obs * list word * ores * nat);
}.

Section CE.
  Variable tab : list (nat * list N).
  Definition G := geom_of tab.

  Definition ores_r (r : result unit) : ores := ores_of r.
  Definition inv_traces (l : list invocation) : list (list uev) :=
    map (fun i => filter visible (tr (w (iv_out i)))) l.

  (* 1 counters, 2 seed, 3 buffer, 4 errors, 5 invocation logs *)
  Definition diff_dc (c : dc_case) : list nat :=
    let p := compile_p [] (dcc_prog c) in
    let dc := doCheck G LF0 LVL0 p [] (dcc_checks c) (fun _ => false) (dcc_seed c) [] (fun _ => false) in
    (if Nat.eqb (dc_valid dc) (dcc_valid c) && Nat.eqb (dc_invalid dc) (dcc_invalid c) then [] else [1]) ++
    (if N.eqb (dc_seed dc) (dcc_seed_out c) then [] else [2]) ++
    (if list_eqb N.eqb (dc_buf dc) (dcc_buf c) then [] else [3]) ++
    (if ores_eqb (ores_r (dc_err1 dc)) (dcc_err1 c) && ores_eqb (ores_r (dc_err2 dc)) (dcc_err2 c) then [] else [4]) ++
    (if list_eqb (list_eqb uev_eqb) (inv_traces (dc_invocations dc)) (dcc_invs c) then [] else [5]).
  Definition dc_mismatches (cs : list dc_case) : list (nat * list nat) :=
    flat_map (fun c => match diff_dc c with [] => [] | d => [(dcc_id c, d)] end) cs.

  (* doCheck in a directory with fail files: 1 counters, 2 seed, 3 buffer, 4 errors, 5 invocation logs, 6 which file *)
  Definition diff_dcf (c : dcf_case) : list nat :=
    let p := compile_p [] (dcf_prog c) in
    let dc := doCheck G LF0 LVL0 p (dcf_files c) (dcf_checks c) (fun _ => false) (dcf_seed c) [] (fun _ => false) in
    (if Nat.eqb (dc_valid dc) (dcf_valid c) && Nat.eqb (dc_invalid dc) (dcf_invalid c) then [] else [1]) ++
    (if N.eqb (dc_seed dc) (dcf_seed_out c) then [] else [2]) ++
    (if list_eqb N.eqb (dc_buf dc) (dcf_buf c) then [] else [3]) ++
    (if ores_eqb (ores_r (dc_err1 dc)) (dcf_err1 c) && ores_eqb (ores_r (dc_err2 dc)) (dcf_err2 c) then [] else [4]) ++
    (if list_eqb (list_eqb uev_eqb) (inv_traces (dc_invocations dc)) (dcf_invs c) then [] else [5]) ++
    (match dc_fromfile dc, dcf_from c with
     | None, None => []
     | Some i, Some j => if Nat.eqb i j then [] else [6]
     | _, _ => [6]
     end).
  Definition dcf_mismatches (cs : list dcf_case) : list (nat * list nat) :=
    flat_map (fun c => match diff_dcf c with [] => [] | d => [(dcf_id c, d)] end) cs.

  Definition acc_obs_of (r : acc_res) : acc_obs :=
    match r with Shrink.AccYes => AccYes | Shrink.AccNo => AccNo | _ => AccAbortObs end.
  Definition acc_obs_eqb (a b : acc_obs) : bool :=
    match a, b with AccNo, AccNo | AccYes, AccYes | AccAbortObs, AccAbortObs => true | _, _ => false end.

  Fixpoint run_steps (p : prog) (s : sst) (steps : list (list word * acc_obs * list word * ores * nat)) (k : nat) : list nat :=
    match steps with
    | [] => []
    | (cand, ob, data, err, shr) :: rest =>
        let '(s', r) := accept G LF0 LVL0 p s cand in
        if acc_obs_eqb (acc_obs_of r) ob && list_eqb N.eqb (s_data s') data && ores_eqb (ores_r (s_err s')) err
           && Nat.eqb (s_shrinks s') shr
        then run_steps p s' rest (S k) else [k]
    end.
  Definition diff_acc (c : acc_case) : list nat :=
    let p := compile_p [] (acc_prog c) in
    let o := run_case G LF0 LVL0 p (SRnd (jsf_init (acc_seed c))) in
    run_steps p (shrink_start o) (acc_steps c) 0.
  Definition acc_mismatches (cs : list acc_case) : list (nat * list nat) :=
    flat_map (fun c => match diff_acc c with [] => [] | d => [(acc_id c, d)] end) cs.
End CE.

(* ---- checkFuzz on bytes ---- *)
Record fz_case := mkFzCase { fz_id : nat; fz_prog : pexp; fz_bytes : list N; fz_status : fuzz_status; fz_events : list uev }.
Definition fuzz_status_eqb (a b : fuzz_status) : bool :=
  match a, b with FPass, FPass | FSkip, FSkip | FFail, FFail | FFuel, FFuel => true | _, _ => false end.
Definition diff_fz (tab : list (nat * list N)) (c : fz_case) : list nat :=
  let '(st, o) := checkFuzz (geom_of tab) LF0 LVL0 (compile_p [] (fz_prog c)) (fz_bytes c) in
  (if fuzz_status_eqb st (fz_status c) then [] else [1]) ++
  (if list_eqb uev_eqb (filter visible (tr (w o))) (fz_events c) then [] else [2]).
Definition fz_mismatches (tab : list (nat * list N)) (cs : list fz_case) : list (nat * list nat) :=
  flat_map (fun c => match diff_fz tab c with [] => [] | d => [(fz_id c, d)] end) cs.
