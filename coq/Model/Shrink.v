(* shrink.go: the shrinker's accept step, an arbitrary-candidate driver, and the engine functions
   findBug / doCheck / checkTB of engine.go that surround it. *)
Require Import Rapid.Model.Base Rapid.Model.Syntax Rapid.Model.Monad Rapid.Model.Prim Rapid.Model.Interp
  Rapid.Model.Engine Rapid.Model.Groups.
Require Import Rapid.Generated.Consts.
Local Open Scope nat_scope.

Section Shrink.
  Variable geom : nat -> N -> N.
  Variable LF : nat.
  Variable lvl : nat.
  Variable p : prog.

  (* one execution of the property on a fresh T (every execution the engine makes has this shape) *)
  Definition run_case (x : source) : out unit := checkOnce geom LF lvl p (start x).

  (* traceback(err): what accept compares first.  nil error -> "<no error>" *)
  Inductive tbk := TNone | TSite (s : site) | TInvalid.
  Definition tb_of (r : result unit) : tbk :=
    match r with
    | Ok _ => TNone
    | Err (XStop _ s) | Err (XPanic _ s) => TSite s
    | Err (XInvalid _) => TInvalid
    | Err XFuel => TInvalid
    end.
  Definition tbk_eqb (a b : tbk) : bool :=
    match a, b with
    | TNone, TNone => true
    | TSite s, TSite t => site_eqb s t
    | TInvalid, TInvalid => false      (* invalid-data tracebacks are never compared with each other here *)
    | _, _ => false
    end.
  Definition res_eqb (a b : result unit) : bool :=      (* sameError *)
    match a, b with
    | Ok _, Ok _ => true
    | Err x, Err y => exn_eqb x y
    | _, _ => false
    end.

  Record sst := mkS {
    s_data : list word;          (* s.rec.data *)
    s_groups : list ginfo;       (* s.rec.groups *)
    s_err : result unit;         (* s.err *)
    s_cache : list (list word);
    s_shrinks : nat;
  }.
  Fixpoint words_eqb (a b : list word) : bool :=
    match a, b with
    | [], [] => true
    | x :: a', y :: b' => N.eqb x y && words_eqb a' b'
    | _, _ => false
    end.

  Inductive acc_res := AccNo | AccYes | AccAbort (e : result unit) | AccAssert.

  (* shrinker.accept *)
  Definition accept (s : sst) (buf : list word) : sst * acc_res :=
    match compareData buf (s_data s) with
    | Lt =>
        if existsb (words_eqb buf) (s_cache s) then (s, AccNo)
        else
          let o1 := run_case (SBuf buf) in
          if negb (tbk_eqb (tb_of (res o1)) (tb_of (s_err s))) then
            (mkS (s_data s) (s_groups s) (s_err s) (buf :: s_cache s) (s_shrinks s), AccNo)
          else
            let o2 := run_case (SBuf buf) in               (* second run, recording *)
            (* s.rec = prune(recording): the data is what the interpreter reports as surviving the prune
               (that data(prune(recording)) is this list is checked on every correspondence case);
               the group list is computed the way data.go does *)
            let d := rpd (w o2) in
            let g := snd (prune (rd (w o2)) (groups_of (glog (w o2)))) in
            let s' := mkS d g (res o1) (s_cache s) (s_shrinks s) in
            match compareData d buf with
            | Gt => (s', AccAssert)
            | _ => if res_eqb (res o1) (res o2) then (mkS d g (res o1) (s_cache s) (S (s_shrinks s)), AccYes)
                   else (s', AccAbort (res o2))
            end
    | _ => (s, AccNo)
    end.

  (* any pass strategy: a sequence of candidates, the deadline tested before each *)
  Fixpoint shrink_any (cands : list (list word)) (clock : nat -> bool) (k : nat) (s : sst) : sst * option (result unit) :=
    match cands with
    | [] => (s, None)
    | c :: cs =>
        if clock k then
          match accept s c with
          | (s', AccAbort e) => (s', Some e)
          | (s', AccAssert) => (s', Some (Err (XPanic MAssert (SInternal MAssert))))
          | (s', _) => shrink_any cs clock (S k) s'
          end
        else (s, None)
    end.

  (* shrink(): prune the recording, build the shrinker, run; returns (buf, err) *)
  Definition shrink_start (o : out unit) : sst :=
    mkS (rpd (w o)) (snd (prune (rd (w o)) (groups_of (glog (w o))))) (res o) [] 0.

  (* ---- findBug ---- *)
  Record invocation := mkIvc { iv_src : source; iv_out : out unit }.
  Record fbres := mkFB { fb_valid : nat; fb_invalid : nat; fb_early : bool; fb_seed : N; fb_err : option exn;
                         fb_log : list invocation }.
  Definition case_seed (seed : N) (iter : nat) : N := wrapN (seed + N.of_nat iter)%N.
  Fixpoint findBug (fuel checks : nat) (early : nat -> bool) (seed : N) (valid invalid : nat) (log : list invocation) : fbres :=
    match fuel with
    | O => mkFB valid invalid false 0%N (Some XFuel) log
    | S f =>
        if Nat.ltb valid checks && Nat.ltb invalid (checks * c_invalidChecksMult) then
          let iter := valid + invalid in
          if Nat.ltb 0 iter && early iter then mkFB valid invalid true 0%N None log
          else
            let seed' := case_seed seed iter in
            let x := SRnd (jsf_init seed') in
            let o := run_case x in
            let log' := log ++ [mkIvc x o] in
            match res o with
            | Ok _ => findBug f checks early seed' (S valid) invalid log'
            | Err (XInvalid _) => findBug f checks early seed' valid (S invalid) log'
            | Err e => mkFB valid invalid false seed' (Some e) log'
            end
        else mkFB valid invalid false 0%N None log
    end.
  Definition findBug0 (checks : nat) (early : nat -> bool) (seed : N) : fbres :=
    findBug (S (checks + checks * c_invalidChecksMult)) checks early seed 0 0 [].

  (* ---- fail files as loaded from disk ---- *)
  Inductive loaded := LErr | LFile (version_ok : bool) (buf : list word).
  Inductive filelog := FIgnored | FNoLongerValid | FPassed | FFailed.

  Record dcres := mkDC {
    dc_valid : nat; dc_invalid : nat; dc_early : bool; dc_seed : N;
    dc_fromfile : option nat;           (* index of the fail file that reproduced, if any *)
    dc_buf : list word;
    dc_err1 : result unit; dc_err2 : result unit;
    dc_filelogs : list filelog;
    dc_invocations : list invocation;
  }.

  Fixpoint check_files (files : list loaded) (idx : nat) (logs : list filelog) (invs : list invocation)
    : (option (nat * list word * result unit * result unit)) * list filelog * list invocation :=
    match files with
    | [] => (None, logs, invs)
    | LErr :: r => check_files r (S idx) (logs ++ [FIgnored]) invs
    | LFile false _ :: r => check_files r (S idx) (logs ++ [FIgnored]) invs
    | LFile true buf :: r =>
        let o1 := run_case (SBuf buf) in
        match res o1 with
        | Ok _ => check_files r (S idx) (logs ++ [FPassed]) (invs ++ [mkIvc (SBuf buf) o1])
        | Err (XInvalid _) => check_files r (S idx) (logs ++ [FNoLongerValid]) (invs ++ [mkIvc (SBuf buf) o1])
        | Err _ =>
            let o2 := run_case (SBuf buf) in
            (Some (idx, buf, res o1, res o2), logs ++ [FFailed], invs ++ [mkIvc (SBuf buf) o1; mkIvc (SBuf buf) o2])
        end
    end.

  Definition doCheck (files : list loaded) (checks : nat) (early : nat -> bool) (seed : N)
             (cands : list (list word)) (clock : nat -> bool) : dcres :=
    match check_files files 0 [] [] with
    | (Some (idx, buf, e1, e2), logs, invs) => mkDC 0 0 false 0%N (Some idx) buf e1 e2 logs invs
    | (None, logs, invs) =>
        let fb := findBug0 checks early seed in
        match fb_err fb with
        | None => mkDC (fb_valid fb) (fb_invalid fb) (fb_early fb) 0%N None [] (Ok tt) (Ok tt) logs (invs ++ fb_log fb)
        | Some e1 =>
            let x := SRnd (jsf_init (fb_seed fb)) in
            let o2 := run_case x in                         (* reproduce with a recording stream *)
            let invs' := invs ++ fb_log fb ++ [mkIvc x o2] in
            if negb (res_eqb (Err e1) (res o2))
            then mkDC (fb_valid fb) (fb_invalid fb) false (fb_seed fb) None (rd (w o2)) (Err e1) (res o2) logs invs'
            else
              let '(s, abort) := shrink_any cands clock 0 (shrink_start o2) in
              mkDC (fb_valid fb) (fb_invalid fb) false (fb_seed fb) None (s_data s) (res o2)
                   (match abort with Some e => e | None => s_err s end) logs invs'
        end
    end.

  (* ---- checkTB ---- *)
  Inductive verdict :=
  | VOk (valid : nat)
  | VOnlyGenerated (valid total : nat)
  | VFailedAfter (valid : nat) (e : exn)
  | VPanicAfter (valid : nat) (e : exn)
  | VFlaky.
  Record tbres := mkTB {
    tb_verdict : verdict;
    tb_failed : bool;              (* TB marked failed; FailNow is then called last *)
    tb_seed_shown : option N;      (* -rapid.seed=N in the message *)
    tb_saved : option (list word); (* buffer handed to saveFailFile *)
    tb_final : option (out unit);  (* the final replay with TB logging *)
    tb_dc : dcres;
  }.
  Definition checkTB (files : list loaded) (checks : nat) (nofailfile : bool) (early : nat -> bool) (seed : N)
             (cands : list (list word)) (clock : nat -> bool) : tbres :=
    let dc := doCheck files checks early seed cands clock in
    match dc_err1 dc, dc_err2 dc with
    | Ok _, Ok _ =>
        if Nat.eqb (dc_valid dc) checks || (dc_early dc && Nat.ltb 0 (dc_valid dc))
        then mkTB (VOk (dc_valid dc)) false None None None dc
        else mkTB (VOnlyGenerated (dc_valid dc) (dc_valid dc + dc_invalid dc)) true None None None dc
    | e1, e2 =>
        let saved := match dc_fromfile dc with None => if nofailfile then None else Some (dc_buf dc) | Some _ => None end in
        let v := if tbk_eqb (tb_of e1) (tb_of e2)
                 then match e2 with
                      | Err (XStop m s) => VFailedAfter (dc_valid dc) (XStop m s)
                      | Err e => VPanicAfter (dc_valid dc) e
                      | Ok _ => VFlaky
                      end
                 else VFlaky in
        mkTB v true (if N.eqb (dc_seed dc) 0%N then None else Some (dc_seed dc)) saved
             (Some (run_case (SBuf (dc_buf dc)))) dc
    end.
End Shrink.
