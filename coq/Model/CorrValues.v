(* Correspondence for the value-level models: minimize() of shrink.go and the reachability witnesses. *)
From Coq Require Import List NArith ZArith Bool.
Require Import Rapid.Model.Base Rapid.Model.Syntax Rapid.Model.Monad Rapid.Model.Prim Rapid.Model.Engine Rapid.Model.Corr
  Rapid.Model.Minimize Rapid.Model.Witness.
Require Import Rapid.Generated.GeomTable.
Import ListNotations.
Local Open Scope N_scope.

(* a menu of conditions; the harness evaluates the same ones in Go *)
Inductive mcond :=
| MGe (t : N)                     (* monotone threshold *)
| MMod (m r t : N)                (* x mod m = r and x >= t: not monotone *)
| MBits (msk : N)                 (* all bits of msk set *)
| MOr (a b : mcond)
| MAnd (a b : mcond).
Fixpoint mc_eval (c : mcond) (x : N) : bool :=
  match c with
  | MGe t => N.leb t x
  | MMod m r t => N.eqb (x mod m) r && N.leb t x
  | MBits msk => N.eqb (N.land x msk) msk
  | MOr a b => mc_eval a x || mc_eval b x
  | MAnd a b => mc_eval a x && mc_eval b x
  end.

Record min_case := mkMin { mn_id : nat; mn_cond : mcond; mn_u : N; mn_go : N }.
Definition min_mismatches (cs : list min_case) : list nat :=
  map mn_id (filter (fun c => negb (N.eqb (minimize (mc_eval (mn_cond c)) (mn_u c)) (mn_go c))) cs).

(* reachability: the stream the harness derived from the real genGeom, and what the real generator returned on it *)
Record reach_case := mkReach { rc_id : nat; rc_signed : bool; rc_mn : Z; rc_mx : Z; rc_v : Z; rc_stream : list N; rc_got : Z }.
Fixpoint wl_eqb (a b : list N) : bool :=
  match a, b with
  | [], [] => true
  | x :: a', y :: b' => N.eqb x y && wl_eqb a' b'
  | _, _ => false
  end.
Definition reach_ok (c : reach_case) : bool :=
  Z.eqb (rc_got c) (rc_v c) &&
  wl_eqb (rc_stream c)
         (if rc_signed c then int_wit (rc_mn c) (rc_mx c) (rc_v c)
          else urange_wit (Z.to_N (rc_mn c)) (Z.to_N (rc_mx c)) (Z.to_N (rc_v c))).
Definition reach_mismatches (cs : list reach_case) : list nat :=
  map rc_id (filter (fun c => negb (reach_ok c)) cs).

(* integer draws on arbitrary streams (selector words from all over the 53-bit range, the overflow-to-max region and its
   boundary in particular): the model's genIntRange / genUintRange against what the real generator returned *)
Record draw_case := mkDraw { dr_id : nat; dr_signed : bool; dr_mn : Z; dr_mx : Z; dr_stream : list N; dr_got : option Z }.
Definition draw_model (c : draw_case) : option Z :=
  let s := start (SBuf (dr_stream c)) in
  if dr_signed c then
    match res (genIntRange (geom_of geom_tab) LF0 (dr_mn c) (dr_mx c) s) with
    | Ok (v, _, _) => Some v
    | Err _ => None
    end
  else
    match res (genUintRange (geom_of geom_tab) LF0 (Z.to_N (dr_mn c)) (Z.to_N (dr_mx c)) true s) with
    | Ok (u, _, _) => Some (Z.of_N u)
    | Err _ => None
    end.
Definition oz_eqb (a b : option Z) : bool :=
  match a, b with
  | Some x, Some y => Z.eqb x y
  | None, None => true
  | _, _ => false
  end.
Definition draw_mismatches (cs : list draw_case) : list nat :=
  map dr_id (filter (fun c => negb (oz_eqb (draw_model c) (dr_got c))) cs).
