(* Byte-level model of persist.go (fail files): saveFailFile / loadFailFile, the library functions they
   rest on (strings.Split, bufio.ScanLines, strings.TrimSpace, strconv.ParseUint, fmt %v/%x of uint64),
   kindaSafeFilename / failFileName / failFilePattern, os.CreateTemp's name shape and filepath.Match for
   patterns made of literals and '*'.

   Definitions only - no proofs live in Model/.  Lemmas: Proofs/PersistProofs.v.

   Representation.  A byte is an [N]; a byte string is a [list N] (type [bytes]).  Nothing in this file
   requires the numbers to be below 256: every function treats a byte by comparing it with constants, so
   the theorems, which quantify over all [list N], cover all byte strings (and more).  Go strings are
   raw byte sequences, so invalid UTF-8 needs no special treatment here; where Go decodes UTF-8
   (strings.TrimSpace) the model matches on the UTF-8 *encodings* of the space characters, see below.
   File and test names are modelled at the level of code points ([list N] again, one N per rune): the
   harness decodes a Go string the way `for _, r := range s` does (an invalid byte is U+FFFD). *)
From Coq Require Import List NArith Bool.
From Coq Require String Ascii.
Import ListNotations.
Require Import Rapid.Generated.Consts.
Open Scope N_scope.

Definition bytes := list N.

Definition bytes_of_string (s : String.string) : bytes :=
  map Ascii.N_of_ascii (String.list_ascii_of_string s).

Fixpoint bytes_eqb (a b : bytes) : bool :=
  match a, b with
  | [], [] => true
  | x :: a', y :: b' => (x =? y) && bytes_eqb a' b'
  | _, _ => false
  end.

(* ---------------------------------------------------------------------------------------------- *)
(* strings.Split(s, sep) for a one-byte separator: always at least one field; Split("", sep) = [""] *)
Fixpoint split_on (sep : N) (l : bytes) : list bytes :=
  match l with
  | [] => [[]]
  | c :: l' =>
      if c =? sep then [] :: split_on sep l'
      else match split_on sep l' with
           | [] => [[c]]                      (* unreachable: the result is never empty *)
           | x :: xs => (c :: x) :: xs
           end
  end.

(* strings.Join *)
Fixpoint join (sep : bytes) (ls : list bytes) : bytes :=
  match ls with
  | [] => []
  | [x] => x
  | x :: xs => x ++ sep ++ join sep xs
  end.

(* ---------------------------------------------------------------------------------------------- *)
(* fmt "%v"/"%d" (base 10) and "%x" (base 16, lower case) of a uint64: no sign, no leading zeros, "0" for 0.
   Fuel 64 is enough for every value below 2^64 in every base >= 2. *)
Definition digit_char (d : N) : N := if d <? 10 then 48 + d else 87 + d.    (* '0'+d  |  'a'+d-10 *)

Fixpoint digits_aux (fuel : nat) (base n : N) (acc : bytes) : bytes :=
  match fuel with
  | O => acc
  | S f =>
      let acc' := digit_char (n mod base) :: acc in
      if n / base =? 0 then acc' else digits_aux f base (n / base) acc'
  end.

Definition print_uint (base n : N) : bytes := digits_aux 64 base n [].

(* ---------------------------------------------------------------------------------------------- *)
(* saveFailFile: the sequence of WriteString calls, and the file content *)
Definition comment_line (s : bytes) : bytes := [35; 32] ++ s ++ [10].                   (* "# " + s + "\n" *)
Definition header_line (ver : bytes) (seed : N) : bytes := ver ++ [35] ++ print_uint 10 seed.   (* "%v#%v" *)
Definition word_line (u : N) : bytes := [48; 120] ++ print_uint 16 u.                   (* "0x%x" *)
Definition body (ver : bytes) (seed : N) (buf : list N) : bytes :=
  join [10] (header_line ver seed :: map word_line buf).

Definition save_chunks (ver out : bytes) (seed : N) (buf : list N) : list bytes :=
  map comment_line (split_on 10 out) ++ [body ver seed buf].

Definition save_bytes (ver out : bytes) (seed : N) (buf : list N) : bytes :=
  concat (save_chunks ver out seed buf).

(* ---------------------------------------------------------------------------------------------- *)
(* bufio.Scanner with bufio.ScanLines (and, as loadFailFile now configures it, no practical token limit):
   lines end at '\n'; one trailing '\r' is dropped from each line; the last line needs no newline; an
   empty rest after the last newline is not a line. *)
Fixpoint drop_cr (l : bytes) : bytes :=
  match l with
  | [] => []
  | [c] => if c =? 13 then [] else [c]
  | c :: l' => c :: drop_cr l'
  end.

Fixpoint scan_tokens (parts : list bytes) : list bytes :=
  match parts with
  | [] => []
  | [last] => match last with [] => [] | _ => [drop_cr last] end
  | p :: ps => drop_cr p :: scan_tokens ps
  end.

Definition scan_lines (l : bytes) : list bytes := scan_tokens (split_on 10 l).

(* ---------------------------------------------------------------------------------------------- *)
(* strings.TrimSpace.  Go decodes UTF-8 and removes leading and trailing runes with unicode.IsSpace:
     ASCII  \t \n \v \f \r ' '                                  (9 10 11 12 13 32)
     U+0085 U+00A0                                              (C2 85, C2 A0)
     U+1680                                                     (E1 9A 80)
     U+2000..U+200A U+2028 U+2029 U+202F                        (E2 80 80..8A, E2 80 A8, E2 80 A9, E2 80 AF)
     U+205F                                                     (E2 81 9F)
     U+3000                                                     (E3 80 80)
   All of them are modelled, as byte patterns.  This is exact: Go's decoder accepts only the shortest
   encoding of a rune, an undecodable byte is U+FFFD (not a space, so trimming stops there), and
   DecodeLastRune returns a rune only if the bytes from the nearest preceding start byte to the end are
   exactly its encoding. *)
Definition is_ascii_space (c : N) : bool :=
  (c =? 9) || (c =? 10) || (c =? 11) || (c =? 12) || (c =? 13) || (c =? 32).

Definition is_space2 (c1 c2 : N) : bool := (c1 =? 194) && ((c2 =? 133) || (c2 =? 160)).

Definition is_space3 (c1 c2 c3 : N) : bool :=
  if c1 =? 225 then (c2 =? 154) && (c3 =? 128)
  else if c1 =? 226 then
    if c2 =? 128 then ((128 <=? c3) && (c3 <=? 138)) || (c3 =? 168) || (c3 =? 169) || (c3 =? 175)
    else (c2 =? 129) && (c3 =? 159)
  else if c1 =? 227 then (c2 =? 128) && (c3 =? 128)
  else false.

(* remove one leading space rune, if there is one *)
Definition strip_space_prefix (l : bytes) : option bytes :=
  match l with
  | [] => None
  | c1 :: l1 =>
      if is_ascii_space c1 then Some l1 else
      match l1 with
      | [] => None
      | c2 :: l2 =>
          if is_space2 c1 c2 then Some l2 else
          match l2 with
          | [] => None
          | c3 :: l3 => if is_space3 c1 c2 c3 then Some l3 else None
          end
      end
  end.

(* the same from the end; the argument is the REVERSED string *)
Definition strip_space_suffix_rev (r : bytes) : option bytes :=
  match r with
  | [] => None
  | c1 :: r1 =>
      if is_ascii_space c1 then Some r1 else
      match r1 with
      | [] => None
      | c2 :: r2 =>
          if is_space2 c2 c1 then Some r2 else
          match r2 with
          | [] => None
          | c3 :: r3 => if is_space3 c3 c2 c1 then Some r3 else None
          end
      end
  end.

Fixpoint strip_loop (step : bytes -> option bytes) (fuel : nat) (l : bytes) : bytes :=
  match fuel with
  | O => l
  | S f => match step l with Some l' => strip_loop step f l' | None => l end
  end.

(* every step removes at least one byte, so fuel [length l] always suffices *)
Definition trim_left (l : bytes) : bytes := strip_loop strip_space_prefix (length l) l.
Definition trim_right (l : bytes) : bytes :=
  rev_append (strip_loop strip_space_suffix_rev (length l) (rev_append l [])) [].
Definition trim_space (l : bytes) : bytes := trim_right (trim_left l).

(* ---------------------------------------------------------------------------------------------- *)
(* strconv.ParseUint(s, base, 64) for base = 10 and base = 0.
   strconv tests letters through lower(c) = c | 0x20; on bytes that is the same as the three ranges
   used here. *)
Inductive perr := PSyntax | PRange.
Inductive pres := POk (n : N) | PErr (e : perr).
Inductive dres := DOk (n : N) (underscores : bool) | DErr (e : perr).

Definition maxu64 : N := 18446744073709551615.
Definition cutoff (base : N) : N := maxu64 / base + 1.

Definition digit_val (c : N) : option N :=
  if (48 <=? c) && (c <=? 57) then Some (c - 48)
  else if (97 <=? c) && (c <=? 122) then Some (c - 87)
  else if (65 <=? c) && (c <=? 90) then Some (c - 55)
  else None.

Fixpoint parse_digits (base : N) (base0 : bool) (l : bytes) (n : N) (us : bool) : dres :=
  match l with
  | [] => DOk n us
  | c :: l' =>
      if (c =? 95) && base0 then parse_digits base base0 l' n true
      else match digit_val c with
           | None => DErr PSyntax
           | Some d =>
               if base <=? d then DErr PSyntax
               else if cutoff base <=? n then DErr PRange                 (* n*base overflows *)
               else let n1 := n * base + d in
                    if maxu64 <? n1 then DErr PRange                       (* n+d overflows *)
                    else parse_digits base base0 l' n1 us
           end
  end.

(* strconv.underscoreOK *)
Inductive usaw := SawStart | SawDigit | SawUnder | SawOther.

Definition is_dec_digit (c : N) : bool := (48 <=? c) && (c <=? 57).
Definition is_hex_letter (c : N) : bool := ((97 <=? c) && (c <=? 102)) || ((65 <=? c) && (c <=? 70)).
Definition is_b (c : N) : bool := (c =? 98) || (c =? 66).
Definition is_o (c : N) : bool := (c =? 111) || (c =? 79).
Definition is_x (c : N) : bool := (c =? 120) || (c =? 88).

Fixpoint underscore_loop (hex : bool) (saw : usaw) (l : bytes) : bool :=
  match l with
  | [] => match saw with SawUnder => false | _ => true end
  | c :: l' =>
      if is_dec_digit c || (hex && is_hex_letter c) then underscore_loop hex SawDigit l'
      else if c =? 95 then
        match saw with SawDigit => underscore_loop hex SawUnder l' | _ => false end
      else
        match saw with SawUnder => false | _ => underscore_loop hex SawOther l' end
  end.

Definition underscore_ok (s : bytes) : bool :=
  let s1 := match s with
            | c :: t => if (c =? 45) || (c =? 43) then t else s
            | [] => s
            end in
  match s1 with
  | c0 :: c1 :: t =>
      if (c0 =? 48) && (is_b c1 || is_o c1 || is_x c1)
      then underscore_loop (is_x c1) SawDigit t
      else underscore_loop false SawStart s1
  | _ => underscore_loop false SawStart s1
  end.

(* base = 0: "0b"/"0o"/"0x" (either case; only when at least one more byte follows) select 2/8/16, another
   leading "0" selects 8, anything else 10; underscores are accepted only with base 0 and must separate
   digits (the prefix counts as a digit).  Empty input, signs, bad digits: syntax error.  Value above
   2^64-1: range error. *)
Definition parse_uint (base : N) (s : bytes) : pres :=
  match s with
  | [] => PErr PSyntax
  | c0 :: t0 =>
      let base0 := base =? 0 in
      let '(b, digits) :=
        if base0 then
          if c0 =? 48 then
            match t0 with
            | c1 :: ((_ :: _) as t1) =>
                if is_b c1 then (2, t1) else if is_o c1 then (8, t1) else if is_x c1 then (16, t1) else (8, t0)
            | _ => (8, t0)
            end
          else (10, s)
        else (base, s) in
      match parse_digits b base0 digits 0 false with
      | DErr e => PErr e
      | DOk n us => if us && negb (underscore_ok s) then PErr PSyntax else POk n
      end
  end.

(* ---------------------------------------------------------------------------------------------- *)
(* loadFailFile.  Its six error returns, in source order; ErrOpen (os.Open failed) and ErrScan (the
   scanner reported a read error) concern the file system and never come out of [load_bytes]. *)
Inductive load_err := ErrOpen | ErrScan | ErrNoData | ErrFields | ErrSeed | ErrWord.
Inductive load_res := LOk (ver : bytes) (seed : N) (buf : list N) | LErr (e : load_err).

(* a scanned line is kept iff, after TrimSpace, it is non-empty and does not start with '#' *)
Definition is_data_line (s : bytes) : bool :=
  match s with
  | [] => false
  | c :: _ => negb (c =? 35)
  end.

Definition data_lines (b : bytes) : list bytes := filter is_data_line (map trim_space (scan_lines b)).

Fixpoint parse_words (ls : list bytes) : option (list N) :=
  match ls with
  | [] => Some []
  | l :: ls' =>
      match parse_uint 0 l with
      | PErr _ => None
      | POk u => match parse_words ls' with Some us => Some (u :: us) | None => None end
      end
  end.

Definition load_bytes (b : bytes) : load_res :=
  match data_lines b with
  | [] => LErr ErrNoData
  | d0 :: ds =>
      match split_on 35 d0 with
      | [v; sd] =>
          match parse_uint 10 sd with
          | PErr _ => LErr ErrSeed
          | POk seed =>
              match parse_words ds with
              | None => LErr ErrWord
              | Some ws => LOk v seed ws
              end
          end
      | _ => LErr ErrFields
      end
  end.

(* ---------------------------------------------------------------------------------------------- *)
(* filepath.Match for patterns made of literal characters and '*' (no '?', no classes, no escapes):
   '*' matches any sequence of non-separator characters.  Works for bytes and for code points alike
   (UTF-8 is self-synchronising and '/' and '*' are ASCII). *)
Fixpoint glob_match (p : list N) (n : list N) {struct p} : bool :=
  match p with
  | [] => match n with [] => true | _ => false end
  | c :: p' =>
      if c =? 42 then
        (fix star_loop (n : list N) : bool :=
           glob_match p' n ||
           match n with
           | [] => false
           | x :: n' => if x =? 47 then false else star_loop n'
           end) n
      else match n with
           | x :: n' => (x =? c) && glob_match p' n'
           | [] => false
           end
  end.

(* ---------------------------------------------------------------------------------------------- *)
(* fmt.Sprintf restricted to what failFileName/failFilePattern use: %s %d %v substitute the next
   argument (already rendered); everything else is copied. *)
Definition is_verb (c : N) : bool := (c =? 115) || (c =? 100) || (c =? 118).

Fixpoint fmt_subst (fmt : list N) (args : list (list N)) : list N :=
  match fmt with
  | [] => []
  | c :: rest =>
      if c =? 37 then
        match rest with
        | v :: rest' =>
            if is_verb v then
              match args with
              | a :: args' => a ++ fmt_subst rest' args'
              | [] => fmt_subst rest' []
              end
            else c :: fmt_subst rest args
        | [] => [c]
        end
      else c :: fmt_subst rest args
  end.

(* filepath.Join for components that need no cleaning (no '/', no "." or ".."): empty components are
   dropped, the others are joined with '/'. *)
Definition nonempty (l : list N) : bool := match l with [] => false | _ => true end.
Definition path_join (parts : list (list N)) : list N := join [47] (filter nonempty parts).

(* os.CreateTemp(dir, pattern): the random string replaces the last '*' of the pattern (it is appended
   if there is none). *)
Fixpoint split_last_star (l : list N) : option (list N * list N) :=
  match l with
  | [] => None
  | c :: l' =>
      match split_last_star l' with
      | Some (p, s) => Some (c :: p, s)
      | None => if c =? 42 then Some ([], l') else None
      end
  end.

Definition tmp_name (pattern rnd : list N) : list N :=
  match split_last_star pattern with
  | Some (p, s) => p ++ rnd ++ s
  | None => pattern ++ rnd
  end.

Definition failfile_tmp_name (rnd : list N) : list N := tmp_name (bytes_of_string c_failfileTmpPattern) rnd.

(* ---------------------------------------------------------------------------------------------- *)
(* kindaSafeFilename, failFileName, failFilePattern over code points.
   Oracles: [is_letter_or_digit r] stands for unicode.IsLetter(r) || unicode.IsDigit(r), and [to_upper]
   for unicode.ToUpper as used by strings.ToUpper (only its effect on the comparison with the reserved
   names matters).  Both are validated against the Go tables by exhaustive enumeration of all 0x110000
   code points (Generated/UnicodeLD.v and the persist-cases harness). *)
Section Names.
  Variable is_letter_or_digit : N -> bool.
  Variable to_upper : N -> N.

  Definition safe_rune (r : N) : bool := is_letter_or_digit r || (r =? 45) || (r =? 95).   (* '-' '_' *)

  Definition sanitize (f : list N) : list N := map (fun r => if safe_rune r then r else 95) f.

  Definition is_reserved (name : list N) : bool :=
    existsb (bytes_eqb (map to_upper name)) c_windowsReservedNames.

  Definition kindaSafeFilename (f : list N) : list N :=
    let name := sanitize f in
    if is_reserved name then name ++ [95] else name.

  Definition dir_parts : list (list N) := map bytes_of_string c_failDirParts.

  (* file name without directory, as fmt.Sprintf builds it; ts and pid are the rendered timestamp and pid *)
  Definition failFileBase (test ts pid : list N) : list N :=
    fmt_subst (bytes_of_string c_failFileNameFmt) [kindaSafeFilename test; ts; pid].
  Definition failFilePatternBase (test : list N) : list N :=
    fmt_subst (bytes_of_string c_failFilePatternFmt) [kindaSafeFilename test].

  Definition failFileDir (test : list N) : list N := path_join (dir_parts ++ [kindaSafeFilename test]).
  Definition failFileName (test ts pid : list N) : list N :=
    path_join (dir_parts ++ [kindaSafeFilename test; failFileBase test ts pid]).
  Definition failFilePattern (test : list N) : list N :=
    path_join (dir_parts ++ [kindaSafeFilename test; failFilePatternBase test]).
End Names.

(* letters and digits of ASCII: what the oracle must agree with below 128 *)
Definition ascii_alnum (r : N) : bool :=
  ((48 <=? r) && (r <=? 57)) || ((65 <=? r) && (r <=? 90)) || ((97 <=? r) && (r <=? 122)).

(* an oracle given as a sorted table of inclusive ranges (the shape of Generated/UnicodeLD.v) *)
Fixpoint in_ranges (t : list (N * N)) (r : N) : bool :=
  match t with
  | [] => false
  | (lo, hi) :: t' => if r <? lo then false else if r <=? hi then true else in_ranges t' r
  end.

(* an upper-casing oracle given as a finite exception table over the identity *)
Fixpoint assoc_or_id (t : list (N * N)) (r : N) : N :=
  match t with
  | [] => r
  | (a, b) :: t' => if r =? a then b else assoc_or_id t' r
  end.
