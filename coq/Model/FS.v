(* A one-directory file-system model and the operation list of saveFailFile (persist.go).
   Definitions only - no proofs live in Model/.  Lemmas: Proofs/PersistProofs.v.

   The directory is the target directory of the fail file (testdata/rapid/<name>/); a state is an
   association list from file names (code points or bytes, [list N]) to contents.  A crash (SIGKILL) at
   any instant leaves the effects of the system calls that completed: the state after a prefix
   [firstn k] of the operation list.  What is *not* modelled: durability across power loss, and the
   atomicity of rename(2) and of O_EXCL creation themselves (they are single steps here - that is the
   kernel's contract). *)
From Coq Require Import List NArith Bool.
Import ListNotations.
Require Import Rapid.Model.Persist.
Open Scope N_scope.

Definition name := list N.
Definition fs := list (name * bytes).

Inductive fop :=
| MkdirAll (dir : name)               (* os.MkdirAll(dir): creates missing directories; no effect on the files of an existing one *)
| CreateExcl (n : name)               (* os.CreateTemp: open(O_CREAT|O_EXCL) of a fresh name *)
| Write (n : name) (b : bytes)        (* one write(2) on the open temporary file: appends b *)
| Close (n : name)                    (* close(2); also the deferred second Close, which is a no-op *)
| Rename (a b : name)                 (* rename(2): atomically replaces b *)
| Remove (n : name).                  (* deferred os.Remove of the temporary name: fails (ENOENT) after a successful rename *)

Fixpoint look (n : name) (d : fs) : option bytes :=
  match d with
  | [] => None
  | (m, c) :: d' => if bytes_eqb m n then Some c else look n d'
  end.

Fixpoint upd (n : name) (f : bytes -> bytes) (d : fs) : fs :=
  match d with
  | [] => []
  | (m, c) :: d' => if bytes_eqb m n then (m, f c) :: d' else (m, c) :: upd n f d'
  end.

Fixpoint del (n : name) (d : fs) : fs :=
  match d with
  | [] => []
  | (m, c) :: d' => if bytes_eqb m n then del n d' else (m, c) :: del n d'
  end.

Definition apply1 (d : fs) (o : fop) : fs :=
  match o with
  | MkdirAll _ => d
  | CreateExcl n => match look n d with None => (n, []) :: d | Some _ => d end      (* EEXIST: nothing happens *)
  | Write n b => upd n (fun c => c ++ b) d
  | Close _ => d
  | Rename a b => match look a d with Some c => (b, c) :: del b (del a d) | None => d end
  | Remove n => del n d
  end.

Definition apply_ops (ops : list fop) (d : fs) : fs := fold_left apply1 ops d.

(* saveFailFile, for an arbitrary division of the content into write calls *)
Definition save_ops_chunks (dir tmp final : name) (chunks : list bytes) : list fop :=
  [MkdirAll dir; CreateExcl tmp] ++ map (Write tmp) chunks ++ [Close tmp; Rename tmp final; Close tmp; Remove tmp].

(* saveFailFile as written: one WriteString per output line, one for the body *)
Definition save_ops (dir tmp final : name) (ver out : bytes) (seed : N) (buf : list N) : list fop :=
  save_ops_chunks dir tmp final (save_chunks ver out seed buf).

(* the files a later run discovers: names matching the glob pattern (last path component) *)
Definition matches (pat : list N) (d : fs) : fs := filter (fun e => glob_match pat (fst e)) d.

(* system-call view of an operation list, for comparison with strace: MkdirAll is zero or more mkdir
   calls (none if the directory exists) and is left out; Close of an already closed file issues no
   system call. *)
Inductive sysop := SOpenExcl (n : name) | SWrite (b : bytes) | SClose | SRename (a b : name) | SUnlink (n : name).

Fixpoint syscalls (open : bool) (ops : list fop) : list sysop :=
  match ops with
  | [] => []
  | MkdirAll _ :: r => syscalls open r
  | CreateExcl n :: r => SOpenExcl n :: syscalls true r
  | Write _ b :: r => SWrite b :: syscalls open r
  | Close _ :: r => if open then SClose :: syscalls false r else syscalls false r
  | Rename a b :: r => SRename a b :: syscalls open r
  | Remove n :: r => SUnlink n :: syscalls open r
  end.
