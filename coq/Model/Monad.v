(* Bit sources (data.go), the recording writer, and the state/exception/writer monad in which the
   interpreter is written. *)
Require Import Rapid.Model.Base Rapid.Model.Syntax.

(* ---- jsf64 (data.go: jsf64ctx) ---- *)
Record jsf := mkJsf { ja : N; jb : N; jc : N; jd : N }.
Definition rotl (x : N) (k : N) : N := ((N.shiftl x k) mod W64) + N.shiftr x (64 - k).
Definition sub64 (a b : N) : N := (a + W64 - b) mod W64.
Definition add64 (a b : N) : N := (a + b) mod W64.
Definition jsf_rand (x : jsf) : N * jsf :=
  let e := sub64 (ja x) (rotl (jb x) 7) in
  let a := N.lxor (jb x) (rotl (jc x) 13) in
  let b := add64 (jc x) (rotl (jd x) 37) in
  let c := add64 (jd x) e in
  let d := add64 e a in
  (d, mkJsf a b c d).
Fixpoint jsf_warm (n : nat) (x : jsf) : jsf :=
  match n with O => x | S n' => jsf_warm n' (snd (jsf_rand x)) end.
Definition jsf_init (seed : N) : jsf := jsf_warm 20 (mkJsf 4058668781 seed seed seed).   (* 0xf1ea5eed *)

Inductive source := SBuf (l : list word) | SRnd (j : jsf).

(* ---- interpreter state ---- *)
Record st := mkSt { src : source; ts : tstate }.
Definition with_src (s : st) (x : source) : st := mkSt x (ts s).
Definition with_ts (s : st) (t : tstate) : st := mkSt (src s) t.

(* ---- writer part of a computation's output ---- *)
Record wr := mkW {
  rd : list word;      (* words recorded (recordedBits.data) *)
  rpd : list word;     (* the recorded words that survive prune() *)
  glog : list gev;     (* group events, from which the groupInfo list is rebuilt *)
  tr : list uev;       (* everything user code did, as the harness logs it *)
  pv : list val;       (* values delivered by Draw that are not part of a rejected attempt *)
  nd : nat;            (* number of Draw calls on the current T (t.draws delta) *)
  nf : bool;           (* a non-fatal failure was signalled on (or forwarded to) the current T *)
  reg : bool;          (* a cleanup was registered or the context created on the current T *)
  dirty : bool;        (* some rejected attempt had nf or reg set: its pruned replay differs *)
}.
Definition wnil : wr := mkW [] [] [] [] [] 0 false false false.
Definition wapp (a b : wr) : wr :=
  mkW (rd a ++ rd b) (rpd a ++ rpd b) (glog a ++ glog b) (tr a ++ tr b) (pv a ++ pv b)
      (nd a + nd b) (nf a || nf b) (reg a || reg b) (dirty a || dirty b).
(* the attempt that produced [a] is rejected: its bits are pruned, its draws are not replayed *)
Definition wdiscard (a : wr) : wr :=
  mkW (rd a) [] (glog a) (tr a) [] (nd a) (nf a) (reg a) (dirty a || nf a || reg a).
(* a kept group all of whose data was pruned away: prune() asserts this never happens, and a replay
   would trip endGroup's "used no data" assertion; such runs are flagged *)
Definition wkeep (a : wr) : wr :=
  match rpd a with
  | [] => mkW (rd a) [] (glog a) (tr a) (pv a) (nd a) (nf a) (reg a) true
  | _ => a
  end.
Definition wgev (e : gev) : wr := mkW [] [] [e] [] [] 0 false false false.
Definition wuev (e : uev) : wr := mkW [] [] [] [e] [] 0 false false false.

Record out (A : Type) := mkOut { res : result A; post : st; w : wr }.
Arguments mkOut {A}. Arguments res {A}. Arguments post {A}. Arguments w {A}.

Definition M (A : Type) := st -> out A.
Definition ret {A} (a : A) : M A := fun s => mkOut (Ok a) s wnil.
Definition throw {A} (e : exn) : M A := fun s => mkOut (Err e) s wnil.
Definition bind {A B} (m : M A) (f : A -> M B) : M B := fun s =>
  let o := m s in
  match res o with
  | Ok a => let o2 := f a (post o) in mkOut (res o2) (post o2) (wapp (w o) (w o2))
  | Err e => mkOut (Err e) (post o) (w o)
  end.
Notation "x <- m ;; f" := (bind m (fun x => f)) (at level 61, m at next level, right associativity).
Notation "m ;;; f" := (bind m (fun _ => f)) (at level 61, right associativity).
Definition emit_g (e : gev) : M unit := fun s => mkOut (Ok tt) s (wgev e).
Definition emit_u (e : uev) : M unit := fun s => mkOut (Ok tt) s (wuev e).
Definition get_ts : M tstate := fun s => mkOut (Ok (ts s)) s wnil.
Definition put_ts (t : tstate) : M unit := fun s => mkOut (Ok tt) (with_ts s t) wnil.
Definition mark_dirty : M unit := fun s => mkOut (Ok tt) s (mkW [] [] [] [] [] 0 false false true).
(* ---- the bookkeeping operations of T, each with the event the harness logs for it ---- *)
Definition wev (l : list uev) (nfb regb : bool) : wr := mkW [] [] [] l [] 0 nfb regb false.
(* T.fail(now, msg) for Error/Fatal kinds; a panic only shows in the log *)
Definition signal (k : failkind) (m : msg) (id : nat) : M unit := fun s =>
  match k with
  | KPanic => mkOut (Ok tt) s (wev [USignal k m id] false false)
  | _ => let t := ts s in
         mkOut (Ok tt) (with_ts s (mkT (Some m) (cleanups t) (ctx t) (cleaning t) (skipreq t) (ood t))) (wev [USignal k m id] true false)
  end.
(* T.Cleanup(f) *)
Definition register (id : nat) (f : prog) : M unit := fun s =>
  let t := ts s in
  mkOut (Ok tt) (with_ts s (mkT (failed t) ((id, f) :: cleanups t) (ctx t) (cleaning t) (skipreq t) (ood t))) (wev [UReg id] false true).
(* T.Context(): the live context, a cancelled one during cleanup, or a new one; returns ctx.Err() == nil *)
Definition context_call : M bool := fun s =>
  let t := ts s in
  if ctx t then mkOut (Ok true) s (wev [UCtxSeen true] false false)
  else if cleaning t then mkOut (Ok false) s (wev [UCtxSeen false] false false)
  else mkOut (Ok true) (with_ts s (mkT (failed t) (cleanups t) true (cleaning t) (skipreq t) (ood t))) (wev [UCtxNew; UCtxSeen true] false true).
(* T.cleanup(): cleaning := true and the context cancelled; pop one function; cleaning := false *)
Definition begin_cleanup : M unit := fun s =>
  let t := ts s in
  mkOut (Ok tt) (with_ts s (mkT (failed t) (cleanups t) false true (skipreq t) (ood t))) (wev (if ctx t then [UCtxCancel; UCleanupBegin] else [UCleanupBegin]) false false).
(* pop is only ever called from T.cleanup, i.e. with cleaning = true (begin_cleanup set it and nothing on
   this T clears it before end_cleanup); the guard makes that explicit so that the operation is well behaved
   in every state *)
Definition pop_cleanup : M (option prog) := fun s =>
  let t := ts s in
  match cleanups t with
  | [] => mkOut (Ok None) s wnil
  | (id, c) :: rest =>
      if cleaning t
      then mkOut (Ok (Some c)) (with_ts s (mkT (failed t) rest (ctx t) true (skipreq t) (ood t))) (wev [URun id] false false)
      else mkOut (Ok None) s wnil
  end.
Definition end_cleanup : M unit := fun s =>
  let t := ts s in mkOut (Ok tt) (with_ts s (mkT (failed t) (cleanups t) (ctx t) false (skipreq t) (ood t))) (wev [UCleanupEnd] false false).
(* T.runCleanup: a skip requested by a cleanup function is remembered (the first one) instead of propagating *)
Definition note_skip (m : msg) : M unit := fun s =>
  let t := ts s in
  mkOut (Ok tt) (with_ts s (mkT (failed t) (cleanups t) (ctx t) (cleaning t)
                                (match skipreq t with Some m0 => Some m0 | None => Some m end) (ood t))) wnil.
(* T.runCleanup on the T of a Custom generator function: a generator ran out of data inside a cleanup function;
   remembered (the first one), decides the fate of the attempt in maybeValue *)
Definition note_ood (m : msg) : M unit := fun s =>
  let t := ts s in
  mkOut (Ok tt) (with_ts s (mkT (failed t) (cleanups t) (ctx t) (cleaning t) (skipreq t)
                                (match ood t with Some m0 => Some m0 | None => Some m end))) wnil.
(* Draw delivered v to user code on the current T *)
Definition note_draw (v : val) : M unit := fun s => mkOut (Ok tt) s (mkW [] [] [] [UDraw v] [v] 1 false false false).
(* run m on a fresh inner T that shares the stream (Custom); afterwards the outer T is back, with a
   failure signalled on the inner T forwarded to it; inner draws and registrations do not count outside *)
Definition with_fresh_T {A} (m : M A) : M A := fun s =>
  let outer := ts s in
  let o := m (with_ts s fresh_t) in
  let inner := ts (post o) in
  let sk := match skipreq outer with Some m => Some m | None => skipreq inner end in
  let outer' := mkT (match failed inner with Some msg => Some msg | None => failed outer end)
                    (cleanups outer) (ctx outer) (cleaning outer) sk (ood outer) in
  let w' := w o in
  mkOut (res o) (with_ts (post o) outer')
        (mkW (rd w') (rpd w') (glog w') (UFrameBegin :: tr w' ++ [UFrameEnd]) (pv w') 0 (nf w')
             (match skipreq outer, skipreq inner with None, Some _ => true | _, _ => false end) (dirty w')).
(* map over the writer of a computation (used to discard, to reset counters at a T boundary ...) *)
Definition wmap {A} (f : wr -> wr) (m : M A) : M A := fun s =>
  let o := m s in mkOut (res o) (post o) (f (w o)).
(* catch: run m, hand result (Ok or Err) to the handler, keeping what was written *)
Definition try_ {A B} (m : M A) (h : result A -> M B) : M B := fun s =>
  let o := m s in let o2 := h (res o) (post o) in mkOut (res o2) (post o2) (wapp (w o) (w o2)).

(* ---- drawBits of both streams; records the masked word ---- *)
Definition wword (u : word) : wr := mkW [u] [u] [EW u] [] [] 0 false false false.
Definition drawBits (n : nat) : M word := fun s =>
  match src s with
  | SBuf [] => mkOut (Err (XInvalid MOverrun)) s wnil
  | SBuf (x :: l) => let u := mask n x in mkOut (Ok u) (with_src s (SBuf l)) (wword u)
  | SRnd j =>
      if Nat.leb n 64 then
        let '(r, j') := jsf_rand j in let u := mask n r in mkOut (Ok u) (with_src s (SRnd j')) (wword u)
      else mkOut (Ok ones64) s (wword ones64)
  end.

(* ---- groups: beginGroup / endGroup(i, discard) around a computation.
   The computation says whether its group is to be discarded.  endGroup asserts that a kept
   group used data.  A panic inside leaves the group open (no EE). ---- *)
Definition group_d {A} (standalone : bool) (m : M (A * bool)) : M A := fun s =>
  let o := m s in
  match res o with
  | Ok (a, d) =>
      if d then mkOut (Ok a) (post o) (wapp (wgev (EB standalone)) (wapp (wdiscard (w o)) (wgev (EE true))))
      else match rd (w o) with
           | [] => mkOut (Err (XPanic MGroupNoData (SInternal MGroupNoData))) (post o) (wapp (wgev (EB standalone)) (wapp (w o) (wgev EX)))
           | _ => mkOut (Ok a) (post o) (wapp (wgev (EB standalone)) (wapp (wkeep (w o)) (wgev (EE false))))
           end
  | Err e => mkOut (Err e) (post o) (wapp (wgev (EB standalone)) (wapp (w o) (wgev EX)))
  end.
Definition group {A} (standalone : bool) (m : M A) : M A :=
  group_d standalone (a <- m ;; ret (a, false)).
