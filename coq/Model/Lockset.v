(* Lockset.v -- definitions only (no proofs).

   Traces of synchronisation and memory events of goroutines working on ONE object (a *T, or a
   *Generator / generatorImpl value), the sync.RWMutex / sync.Once semantics that make a trace
   well formed, happens-before, data race; and the static side: per-method access tables
   (regenerated from /repo by /verif/extract into Generated/Locksets.v), what it means for a thread
   to execute methods of a table, and the boolean check [table_ok].

   The soundness theorem (Proofs/LocksetProofs.v: lockset_sound) is:
     table_ok tbl = true -> wf_trace tr -> conforms tbl tr -> forall i j, ~ race tr i j.          *)
From Coq Require Import List Arith Bool Lia String.
Import ListNotations.

Definition field := nat.
Definition mutex := nat.
Definition once := nat.
Definition tid := nat.

Inductive mode := MR | MW.

(* two holds of the same RWMutex exclude each other unless both are read locks *)
Definition mconf (m1 m2 : mode) : bool :=
  match m1, m2 with MR, MR => false | _, _ => true end.

(* ------------------------------------------------------------------------------------------- *)
(* Dynamic events                                                                              *)
(* ------------------------------------------------------------------------------------------- *)

Inductive op :=
| Acq (mu : mutex) (m : mode)        (* Lock / RLock returns *)
| Rel (mu : mutex) (m : mode)        (* Unlock / RUnlock is called *)
| Acc (f : field) (w : bool)         (* plain read (w = false) or write of a field *)
| Atomic (f : field) (w : bool)      (* sync/atomic (or sync.Map) operation on a field *)
| OnceBegin (o : once)               (* this goroutine starts running the function passed to o.Do *)
| OnceEnd (o : once)                 (* ... and finishes it *)
| OnceDone (o : once)                (* a call of o.Do returns *)
| Ext (c : string).                  (* a call the table does not look into *)

Definition ev := (tid * op)%type.
Definition trace := list ev.

(* the access made by an event: field, is-write, is-atomic *)
Definition op_acc (o : op) : option (field * bool * bool) :=
  match o with
  | Acc f w => Some (f, w, false)
  | Atomic f w => Some (f, w, true)
  | _ => None
  end.

(* ---- sync.RWMutex: one writer or any number of readers ---- *)

Record lk := mkLk { wr : option tid; rds : list tid }.
Definition lk0 := mkLk None [].

Fixpoint remove1 (t : tid) (l : list tid) : list tid :=
  match l with
  | [] => []
  | x :: l' => if Nat.eqb x t then l' else x :: remove1 t l'
  end.

(* one step of mutex [mu]; None = the event cannot happen in this state.  Events that do not
   concern [mu] leave its state alone. *)
Definition step (mu : mutex) (s : lk) (e : ev) : option lk :=
  match e with
  | (t, Acq mu' MW) =>
      if Nat.eqb mu' mu then
        match wr s, rds s with None, [] => Some (mkLk (Some t) []) | _, _ => None end
      else Some s
  | (t, Acq mu' MR) =>
      if Nat.eqb mu' mu then
        match wr s with None => Some (mkLk None (t :: rds s)) | Some _ => None end
      else Some s
  | (t, Rel mu' MW) =>
      if Nat.eqb mu' mu then
        match wr s with
        | Some t' => if Nat.eqb t t' then Some (mkLk None (rds s)) else None
        | None => None
        end
      else Some s
  | (t, Rel mu' MR) =>
      if Nat.eqb mu' mu then
        if existsb (Nat.eqb t) (rds s) then Some (mkLk (wr s) (remove1 t (rds s))) else None
      else Some s
  | _ => Some s
  end.

Fixpoint run (mu : mutex) (s : lk) (tr : trace) : option lk :=
  match tr with
  | [] => Some s
  | e :: tr' => match step mu s e with Some s' => run mu s' tr' | None => None end
  end.

Definition mutex_wf (tr : trace) : Prop := forall mu, run mu lk0 tr <> None.

(* ---- sync.Once: the function runs at most once; every Do returns after it has finished ---- *)

Definition once_wf (tr : trace) : Prop :=
  (forall o i j t t',
      nth_error tr i = Some (t, OnceBegin o) -> nth_error tr j = Some (t', OnceBegin o) -> i = j) /\
  (forall o j t,
      nth_error tr j = Some (t, OnceDone o) ->
      exists i t', i < j /\ nth_error tr i = Some (t', OnceEnd o)).

Definition wf_trace (tr : trace) : Prop := mutex_wf tr /\ once_wf tr.

(* ---- happens-before ---- *)

(* synchronisation edges of the Go memory model that the model knows:
   - an Unlock/RUnlock is synchronised before every later Lock/RLock of the same mutex that it
     excludes (W->W, W->R, R->W; R->R is not an edge);
   - the completion of the function of a Once is synchronised before the return of any Do;
   - an atomic write is synchronised before the atomic read that observes it. *)
Definition sw (tr : trace) (i j : nat) : Prop :=
  exists t1 t2 o1 o2,
    nth_error tr i = Some (t1, o1) /\ nth_error tr j = Some (t2, o2) /\
    match o1, o2 with
    | Rel mu m1, Acq mu' m2 => mu = mu' /\ mconf m1 m2 = true
    | OnceEnd o, OnceDone o' => o = o'
    | Atomic f true, Atomic f' false =>
        f = f' /\ forall k t, i < k < j -> nth_error tr k <> Some (t, Atomic f true)
    | _, _ => False
    end.

Inductive hb (tr : trace) : nat -> nat -> Prop :=
| hb_po i j t o1 o2 :
    i < j -> nth_error tr i = Some (t, o1) -> nth_error tr j = Some (t, o2) -> hb tr i j
| hb_sw i j : i < j -> sw tr i j -> hb tr i j
| hb_trans i j k : hb tr i j -> hb tr j k -> hb tr i k.

Definition conflict (a1 a2 : field * bool * bool) : bool :=
  let '(f1, w1, at1) := a1 in
  let '(f2, w2, at2) := a2 in
  Nat.eqb f1 f2 && (w1 || w2) && negb (at1 && at2).

(* a data race: two conflicting accesses of different goroutines, not ordered by happens-before *)
Definition race (tr : trace) (i j : nat) : Prop :=
  exists t1 t2 o1 o2 a1 a2,
    i < j /\ nth_error tr i = Some (t1, o1) /\ nth_error tr j = Some (t2, o2) /\ t1 <> t2 /\
    op_acc o1 = Some a1 /\ op_acc o2 = Some a2 /\ conflict a1 a2 = true /\ ~ hb tr i j.

(* ------------------------------------------------------------------------------------------- *)
(* Static side: access tables                                                                  *)
(* ------------------------------------------------------------------------------------------- *)

(* A row is the body of one method in source order, critical sections and Once bodies nested. *)
Inductive item :=
| IAcc (f : field) (w : bool)
| IAtomic (f : field) (w : bool)
| ICall (c : string)
| ILocked (mu : mutex) (m : mode) (body : list item)   (* mu.Lock()/RLock(); body; mu.Unlock()/RUnlock() *)
| IOnce (o : once) (body : list item).                 (* o.Do(func() { body }) *)

Definition row := (string * list item)%type.
Definition table := list row.

(* What a goroutine may do when it executes a row.  Control flow is abstracted: any item other than
   a Once may be skipped (branches not taken, whole critical sections on a path that returned
   earlier), execution may stop after any item (return / panic; an enclosing critical section is
   still left through its Unlock -- deferred or not), and a Once either runs its function or
   finds it done.  Loops and recursion are covered by "any sequence of methods" below. *)
Definition skippable (i : item) : bool := match i with IOnce _ _ => false | _ => true end.

Inductive exec_item : item -> list op -> Prop :=
| ei_acc f w : exec_item (IAcc f w) [Acc f w]
| ei_atomic f w : exec_item (IAtomic f w) [Atomic f w]
| ei_call c : exec_item (ICall c) [Ext c]
| ei_locked mu m body ops :
    exec_list body ops -> exec_item (ILocked mu m body) (Acq mu m :: ops ++ [Rel mu m])
| ei_once_run o body ops :
    exec_list body ops -> exec_item (IOnce o body) (OnceBegin o :: ops ++ [OnceEnd o; OnceDone o])
| ei_once_skip o body : exec_item (IOnce o body) [OnceDone o]
with exec_list : list item -> list op -> Prop :=
| el_stop l : exec_list l []
| el_skip i l ops : skippable i = true -> exec_list l ops -> exec_list (i :: l) ops
| el_do i l o1 o2 : exec_item i o1 -> exec_list l o2 -> exec_list (i :: l) (o1 ++ o2).

(* a goroutine executes any sequence of methods of the table *)
Inductive exec_thread (tbl : table) : list op -> Prop :=
| et_nil : exec_thread tbl []
| et_call name items ops rest :
    In (name, items) tbl -> exec_list items ops -> exec_thread tbl rest ->
    exec_thread tbl (ops ++ rest).

Definition proj (t : tid) (tr : trace) : list op :=
  map snd (filter (fun e => Nat.eqb (fst e) t) tr).

(* every goroutine's events so far are an initial part of such an execution (a trace may be
   observed while methods are still running) *)
Definition conforms (tbl : table) (tr : trace) : Prop :=
  forall t, exists full rest, exec_thread tbl full /\ full = proj t tr ++ rest.

(* ---- static annotation of every access of a table ---- *)

Record ann := mkAnn {
  a_row : string;                    (* method *)
  a_f : field; a_w : bool; a_at : bool;
  a_held : list (mutex * mode);      (* critical sections the access is nested in *)
  a_in : list once;                  (* Once bodies the access is nested in *)
  a_done : list once                 (* Onces whose Do returned earlier in the same method *)
}.

Definition dones (i : item) : list once := match i with IOnce o _ => [o] | _ => [] end.

Section AnnsSeq.
  Variable f : list once -> item -> list ann.
  Fixpoint anns_seq (D : list once) (l : list item) {struct l} : list ann :=
    match l with
    | [] => []
    | x :: l' => f D x ++ anns_seq (dones x ++ D) l'
    end.
End AnnsSeq.

Fixpoint anns_item (nm : string) (H : list (mutex * mode)) (I D : list once) (i : item) : list ann :=
  match i with
  | IAcc f w => [mkAnn nm f w false H I D]
  | IAtomic f w => [mkAnn nm f w true H I D]
  | ICall _ => []
  | ILocked mu m body => anns_seq (fun D' x => anns_item nm ((mu, m) :: H) I D' x) D body
  | IOnce o body => anns_seq (fun D' x => anns_item nm H (o :: I) D' x) D body
  end.

Definition anns_list (nm : string) (H : list (mutex * mode)) (I D : list once) (l : list item) : list ann :=
  anns_seq (fun D' x => anns_item nm H I D' x) D l.

Definition table_anns (tbl : table) : list ann :=
  flat_map (fun r : row => anns_list (fst r) [] [] [] (snd r)) tbl.

(* no critical section of a mutex nested in one of the same mutex, no Once nested in itself *)
Fixpoint wf_item (Hs : list mutex) (Os : list once) (i : item) : bool :=
  match i with
  | ILocked mu _ body => negb (existsb (Nat.eqb mu) Hs) && forallb (wf_item (mu :: Hs) Os) body
  | IOnce o body => negb (existsb (Nat.eqb o) Os) && forallb (wf_item Hs (o :: Os)) body
  | _ => true
  end.

Definition wf_table (tbl : table) : bool :=
  forallb (fun r : row => forallb (wf_item [] []) (snd r)) tbl.

Definition ann_conflict (a1 a2 : ann) : bool :=
  conflict (a_f a1, a_w a1, a_at a1) (a_f a2, a_w a2, a_at a2).

(* both accesses are made inside critical sections of one mutex that exclude each other *)
Definition lock_protected (a1 a2 : ann) : bool :=
  existsb (fun h1 : mutex * mode =>
    existsb (fun h2 : mutex * mode => Nat.eqb (fst h1) (fst h2) && mconf (snd h1) (snd h2)) (a_held a2))
    (a_held a1).

(* a1 is made by the function of a Once, a2 after a Do of that Once returned *)
Definition once_ordered (a1 a2 : ann) : bool :=
  existsb (fun o => existsb (Nat.eqb o) (a_done a2)) (a_in a1).

(* both are made by the function of the same Once (which runs once, in one goroutine) *)
Definition same_once (a1 a2 : ann) : bool :=
  existsb (fun o => existsb (Nat.eqb o) (a_in a2)) (a_in a1).

Definition pair_ok (a1 a2 : ann) : bool :=
  negb (ann_conflict a1 a2) || lock_protected a1 a2 || once_ordered a1 a2 || once_ordered a2 a1
  || same_once a1 a2.

Definition table_ok (tbl : table) : bool :=
  wf_table tbl &&
  forallb (fun a1 => forallb (fun a2 => pair_ok a1 a2) (table_anns tbl)) (table_anns tbl).

(* for reporting: the pairs that fail *)
Definition bad_pairs (tbl : table) : list (ann * ann) :=
  flat_map (fun a1 => flat_map (fun a2 => if pair_ok a1 a2 then [] else [(a1, a2)]) (table_anns tbl))
           (table_anns tbl).

(* a row is ok against the whole table: every access of it passes against every access *)
Definition row_ok (tbl : table) (r : row) : bool :=
  forallb (fun a1 => forallb (fun a2 => pair_ok a1 a2 && pair_ok a2 a1) (table_anns tbl))
          (anns_list (fst r) [] [] [] (snd r)).

Definition bad_rows (tbl : table) : list string :=
  map fst (filter (fun r => negb (row_ok tbl r)) tbl).
