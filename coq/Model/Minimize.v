(* shrink.go: minimize(u, cond) and the minimizer's four strategies, for a pure condition. *)
Require Import Rapid.Model.Base.
Require Import Rapid.Generated.Consts.

Section Minimize.
  Variable cond : N -> bool.
  Definition smallN : N := N.of_nat c_small.

  (* minimizer.accept *)
  Definition macc (best u : N) : N * bool :=
    if N.leb best u || N.ltb u smallN || negb (cond u) then (best, false) else (u, true).

  Fixpoint rshift (fuel : nat) (best : N) : N :=
    match fuel with
    | O => best
    | S f => let '(b, ok) := macc best (N.shiftr best 1) in if ok then rshift f b else b
    end.
  (* for i := size-1 .. 0: accept(best ^ 1<<i) *)
  Fixpoint unset_bits (i : nat) (best : N) : N :=
    match i with
    | O => best
    | S i' => unset_bits i' (fst (macc best (N.lxor best (N.shiftl 1 (N.of_nat i')))))
    end.
  (* inner loop of sortBits: for j := j0 .. i-1: if best&l == 0 && accept(best^(l|h)) break *)
  Fixpoint sort_inner (n : nat) (j : N) (i : N) (best : N) : N :=
    match n with
    | O => best
    | S n' =>
        if N.ltb j i then
          if N.testbit best j then sort_inner n' (j + 1) i best
          else let '(b, ok) := macc best (N.lxor best (N.lor (N.shiftl 1 j) (N.shiftl 1 i))) in
               if ok then b else sort_inner n' (j + 1) i b
        else best
    end.
  Fixpoint sort_bits (i : nat) (best : N) : N :=
    match i with
    | O => best
    | S i' => let b := if N.testbit best (N.of_nat i') then sort_inner i' 0 (N.of_nat i') best else best in
              sort_bits i' b
    end.
  Fixpoint bin_loop (fuel : nat) (best i j : N) : N :=
    match fuel with
    | O => best
    | S f => if N.ltb i j then
               let h := i + (j - i) / 2 in
               let '(best', ok) := macc best h in
               if ok then bin_loop f best' i h else bin_loop f best' (h + 1) j
             else best
    end.
  Definition bin_search (best : N) : N :=
    let '(best', ok) := macc best (best - 1) in
    if ok then bin_loop 65 best' 0 best' else best.

  Fixpoint try_small (n : nat) (i u : N) : option N :=
    match n with
    | O => None
    | S n' => if N.ltb i u && N.ltb i smallN then (if cond i then Some i else try_small n' (i + 1) u) else None
    end.

  Definition minimize (u : N) : N :=
    if N.eqb u 0 then 0 else
    match try_small c_small 0 u with
    | Some i => i
    | None =>
        if N.leb u smallN then u else
        let b1 := rshift 64 u in
        let b2 := unset_bits (len64 b1) b1 in
        let b3 := sort_bits (len64 b2) b2 in
        bin_search b3
    end.
End Minimize.
