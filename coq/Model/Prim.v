(* utils.go: integer encodings, coins, the repeat loop.  Floating point enters control flow only
   through the geometric "bias" length and coin thresholds; both are integer oracles here. *)
Require Import Rapid.Model.Base Rapid.Model.Syntax Rapid.Model.Monad.

Section Prim.
  (* geom bitlen k = genGeom(s, 1/(m+1)) + 1 for the 53-bit word k, m = max(8,(bitlen+48)/7);
     values above 66 are indistinguishable for the code below and may be capped there. *)
  Variable geom : nat -> N -> N.

  (* flipBiasedCoin(p): K = least k with float64(k)*2^-53 >= 1-p *)
  Definition coin (K : N) : M bool :=
    k <- group false (drawBits 53) ;; ret (N.leb K k).
  Definition K_never : N := 9007199254740992.    (* p = 0: 2^53 *)
  Definition K_always : N := 0.                   (* p = 1 *)
  Definition K_half : N := 4503599627370496.      (* p = 1/2: 2^52 *)

  Definition m_int (bitlen : nat) : nat := Nat.max 8 ((bitlen + 48) / 7).
  Definition over_thr (bitlen : nat) : nat := 64 - (16 - m_int bitlen) * 4.

  Definition genUintNNoReject (max : N) : M N :=
    u <- group false (drawBits (len64 max)) ;; ret (if N.ltb max u then max else u).

  Fixpoint unbiased_loop (fuel bitlen : nat) (max : N) : M N :=
    match fuel with
    | O => throw XFuel
    | S f =>
        u <- group_d false (u <- drawBits bitlen ;; ret (u, negb (N.leb u max))) ;;
        if negb (N.leb u max) then unbiased_loop f bitlen max else ret u
    end.

  Definition biased_fin (bl : nat) (max n u : N) : M (N * bool * bool) :=
    let u' := if Nat.ltb 64 bl then max else u in
    ret (u', N.eqb u' 0 && N.eqb n 1, N.eqb u' max && N.leb n (N.of_nat bl)).
  Fixpoint biased_loop (fuel bl : nat) (max n : N) : M (N * bool * bool) :=
    match fuel with
    | O => throw XFuel
    | S f =>
        u <- group_d false (u <- drawBits bl ;; ret (u, negb (Nat.ltb 64 bl || N.leb u max))) ;;
        if negb (Nat.ltb 64 bl || N.leb u max) then biased_loop f bl max n else biased_fin bl max n u
    end.

  Definition genUintNBiased (fuel : nat) (max : N) : M (N * bool * bool) :=
    let bitlen := len64 max in
    k <- group false (drawBits 53) ;;
    let n := geom bitlen k in
    let bl := if N.ltb n (N.of_nat bitlen) then N.to_nat n
              else if N.ltb (N.of_nat bitlen) n && N.leb (N.of_nat (over_thr bitlen)) n then 65%nat else bitlen in
    biased_loop fuel bl max n.

  Definition genUintN (fuel : nat) (max : N) (bias : bool) : M (N * bool * bool) :=
    if bias then genUintNBiased fuel max
    else u <- unbiased_loop fuel (len64 max) max ;; ret (u, false, false).

  Definition assert_fail {A} : M A := throw (XPanic MAssert (SInternal MAssert)).

  Definition genUintRange (fuel : nat) (mn mx : N) (bias : bool) : M (N * bool * bool) :=
    if N.ltb mx mn then assert_fail else
    r <- genUintN fuel (mx - mn) bias ;;
    let '(u, l, r') := r in ret (wrapN (mn + u), l, r').

  (* genIntRange with bias = true (the only way integer generators and floats call it) *)
  Definition genIntRange (fuel : nat) (mn mx : Z) : M (Z * bool * bool) :=
    if Z.ltb mx mn then assert_fail else
    let '(posMin, negMin, K) :=
      if Z.leb 0 mn then (wrap mn, 0, K_never)
      else if Z.leb mx 0 then (0, wrap (- mx), K_always)
      else (0, 1, K_half) in
    neg <- coin K ;;
    if neg then
      r <- genUintRange fuel negMin (wrap (- mn)) true ;;
      let '(u, l, r') := r in ret (to_int64 (wrap (- Z.of_N u)), r', l && Z.leb mx 0)
    else
      r <- genUintRange fuel posMin (wrap mx) true ;;
      let '(u, l, r') := r in ret (to_int64 u, l && Z.leb 0 mn, r').

  Definition genIndex (fuel : nat) (n : nat) (bias : bool) : M nat :=
    match n with
    | O => assert_fail
    | S n' => r <- genUintN fuel (N.of_nat n') bias ;; ret (N.to_nat (fst (fst r)))
    end.

  (* ---- repeat (newRepeat / more / reject) ---- *)
  Definition maxInt : N := 9223372036854775807.
  Definition minc_of (minLen : Z) : N := if Z.ltb minLen 0 then 0 else Z.to_N minLen.
  Definition maxc_of (maxLen : Z) : N := if Z.ltb maxLen 0 then maxInt else Z.to_N maxLen.

  Inductive step (A : Type) := StStop | StAcc (a : A) | StRej (force : bool).
  Arguments StStop {A}. Arguments StAcc {A}. Arguments StRej {A}.

  (* One call of more() plus the loop body, inside the iteration's standalone "@repeat" group.
     body returns Some acc' when the element is kept, None when it was rejected (reject()). *)
  Definition rep_coin (minc maxc K : N) (count : nat) (force : bool) : M bool :=
    if N.ltb (N.of_nat count) minc then coin K_always
    else if force then (_ <- group false (drawBits 0) ;; ret false)   (* forced stop: records a 0 block *)
    else if N.leb maxc (N.of_nat count) then coin K_never
    else coin K.
  Definition rep_reject {A} (minc K : N) (count rej : nat) (force : bool) : M (step A * bool) :=
    (* reject(): count is back at its old value, rejections = rej + 1 *)
    if Nat.ltb (count * 2) (S rej) then
      if N.leb minc (N.of_nat count)
      then (* forceStop: the next coin is recorded as a 0 block, which means "stop" for every pContinue < 1;
              with pContinue = 1 (K = 0) a pruned replay would continue instead: flagged *)
           _ <- (if N.eqb K 0 then mark_dirty else ret tt) ;; ret (StRej true, true)
      else throw (XInvalid MTooManyRej)
    else ret (StRej force, true).
  Definition rep_tail {A} (minc K : N) (body : A -> M (option A))
             (count rej : nat) (force : bool) (acc : A) (cont : bool) : M (step A * bool) :=
    if cont then
      r <- body acc ;;
      match r with
      | Some acc' => ret (StAcc acc', false)
      | None => rep_reject minc K count rej force
      end
    else ret (StStop, false).
  Definition rep_iter {A} (minc maxc K : N) (body : A -> M (option A))
             (count rej : nat) (force : bool) (acc : A) : M (step A) :=
    group_d true (cont <- rep_coin minc maxc K count force ;; rep_tail minc K body count rej force acc cont).

  Fixpoint rep_loop {A} (fuel : nat) (minc maxc K : N) (body : A -> M (option A))
           (count rej : nat) (force : bool) (acc : A) : M A :=
    match fuel with
    | O => throw XFuel
    | S f =>
        r <- rep_iter minc maxc K body count rej force acc ;;
        match r with
        | StStop => ret acc
        | StAcc acc' => rep_loop f minc maxc K body (S count) rej force acc'
        | StRej force' => rep_loop f minc maxc K body count (S rej) force' acc
        end
    end.

  (* find(gen, t, tries): failed tries are discarded groups *)
  Fixpoint find_loop {A} (att : M (option A)) (tries : nat) : M A :=
    match tries with
    | O => throw (XInvalid MFindFailed)
    | S t =>
        r <- group_d false (o <- att ;; ret (o, match o with Some _ => false | None => true end)) ;;
        match r with Some v => ret v | None => find_loop att t end
    end.
End Prim.
Arguments StStop {A}. Arguments StAcc {A}. Arguments StRej {A}.
