(* First-order program syntax shared with the Go harness.  The harness interprets the same terms
   against the real rapid; [compile_p] turns them into [prog]s (Coq-function continuations). *)
Require Import Rapid.Model.Base Rapid.Model.Syntax.

Inductive vexp :=
| EVar (i : nat) | EConst (v : val) | EAdd (a b : vexp) | EModC (a : vexp) (k : Z) | ELen (a : vexp).
Inductive cond :=
| CTrue | CLt (a b : vexp) | CEq (a b : vexp) | CNot (c : cond) | CAnd (a b : cond) | CIsTrue (a : vexp).
Inductive fn1 := FId | FModC (k : Z) | FAddC (c : Z) | FLen.
Inductive pr1 := PrTrue | PrModEq (k r : Z) | PrLtC (c : Z) | PrNot (p : pr1) | PrLenLt (c : Z).

Inductive gdesc :=
| DBool | DUint (mn mx : N) | DInt (mn mx : Z)
| DSampled (n : nat)
| DOneOf (gs : list gdesc)
| DPtr (allowNil : bool) (g : gdesc)
| DSlice (minLen maxLen : Z) (K : N) (g : gdesc)
| DSliceD (minLen maxLen : Z) (K : N) (key : fn1) (g : gdesc)
| DMap (minLen maxLen : Z) (K : N) (gk gv : gdesc)
| DMapV (minLen maxLen : Z) (K : N) (key : fn1) (gv : gdesc)
| DPerm (n : nat)
| DFilter (g : gdesc) (p : pr1)
| DMapFn (g : gdesc) (f : fn1)
| DCustom (body : pexp)
| DDeferred (g : gdesc)
with pexp :=
| SRet (e : vexp)
| SDraw (raw : bool) (g : gdesc) (k : pexp)
| SIf (c : cond) (a b : pexp)
| SFail (kind : failkind) (id : nat) (m : msg) (k : pexp)
| SFailV (kind : failkind) (id : nat) (me de : vexp) (k : pexp)   (* message and recursion depth computed from drawn values *)
| SSkip (m : msg)
| SCleanup (id : nat) (f : pexp) (k : pexp)
| SContext (k : pexp)
| SFailed (k : pexp)
| SLog (n : N) (k : pexp)
| SRepeat (id : nat) (K : N) (s0 : vexp) (check : option pexp) (acts : list pexp) (k : pexp).

Definition val_z (v : val) : Z :=
  match v with VZ z => z | VB true => 1%Z | VL l => Z.of_nat (length l) | VM l => Z.of_nat (length l) | _ => 0%Z end.
Definition val_len (v : val) : Z :=
  match v with VL l => Z.of_nat (length l) | VM l => Z.of_nat (length l) | VP (Some _) => 1%Z | _ => 0%Z end.

Fixpoint eval_v (env : list val) (e : vexp) : val :=
  match e with
  | EVar i => nth i env VU
  | EConst v => v
  | EAdd a b => VZ (val_z (eval_v env a) + val_z (eval_v env b))
  | EModC a k => VZ (val_z (eval_v env a) mod k)
  | ELen a => VZ (val_len (eval_v env a))
  end.
Fixpoint eval_c (env : list val) (c : cond) : bool :=
  match c with
  | CTrue => true
  | CLt a b => Z.ltb (val_z (eval_v env a)) (val_z (eval_v env b))
  | CEq a b => val_eqb (eval_v env a) (eval_v env b)
  | CNot c => negb (eval_c env c)
  | CAnd a b => eval_c env a && eval_c env b
  | CIsTrue a => match eval_v env a with VB true => true | _ => false end
  end.
Definition eval_fn (f : fn1) (v : val) : val :=
  match f with
  | FId => v
  | FModC k => VZ (val_z v mod k)
  | FAddC c => VZ (val_z v + c)
  | FLen => VZ (val_len v)
  end.
Fixpoint eval_pr (p : pr1) (v : val) : bool :=
  match p with
  | PrTrue => true
  | PrModEq k r => Z.eqb (val_z v mod k) r
  | PrLtC c => Z.ltb (val_z v) c
  | PrNot q => negb (eval_pr q v)
  | PrLenLt c => Z.ltb (val_len v) c
  end.

Definition idv (v : val) : val := v.
Definition wrapg (g : gexp) : gexp := GMapFn g idv.       (* rapid.Map(typed generator, toVal) in the harness *)
Definition sampled_vals (n : nat) : list val := map (fun i => VZ (Z.of_nat i)) (seq 0 n).

(* cg: the generator expression the harness builds for a description in nested position
   (type-erasing Map wrappers included); cr: the bare typed generator drawn directly. *)
Fixpoint cg (d : gdesc) : gexp :=
  match d with
  | DBool => wrapg GBool
  | DUint mn mx => wrapg (GUint mn mx)
  | DInt mn mx => wrapg (GInt mn mx)
  | DSampled n => GSampled (sampled_vals n)
  | DOneOf gs =>
      let l := (fix go (gs : list gdesc) : list gexp :=
                  match gs with [] => [] | g :: r => cg g :: go r end) gs in
      GOneOf (length l) (fun i => nth i l GBool)
  | DPtr a g => wrapg (GPtr a (cg g))
  | DSlice a b K g => wrapg (GSlice a b K None (cg g))
  | DSliceD a b K key g => wrapg (GSlice a b K (Some (eval_fn key)) (cg g))
  | DMap a b K gk gv => wrapg (GMap a b K (cg gk) (cg gv))
  | DMapV a b K key gv => wrapg (GMapV a b K (eval_fn key) (cg gv))
  | DPerm n => wrapg (GPerm (sampled_vals n))
  | DFilter g p => GFilter (cg g) (eval_pr p)
  | DMapFn g f => GMapFn (cg g) (eval_fn f)
  | DCustom body => GCustom (compile_p [] body)
  | DDeferred g => GDeferred (cg g)
  end
with compile_p (env : list val) (p : pexp) : prog :=
  match p with
  | SRet e => PRet (eval_v env e)
  | SDraw raw g k =>
      let ge := if raw then match cg g with GMapFn g' _ => g' | g' => g' end else cg g in
      PDraw ge (fun v => compile_p (env ++ [v]) k)
  | SIf c a b => if eval_c env c then compile_p env a else compile_p env b
  | SFail kind id m k => PFail kind id m (compile_p env k)
  | SFailV kind id me de k =>
      PFail kind (id + 100 * Z.to_nat (val_z (eval_v env de) mod 4))
            (MUser (Z.to_N (val_z (eval_v env me) mod 50))) (compile_p env k)
  | SSkip m => PSkip m
  | SCleanup id f k => PCleanup id (compile_p env f) (compile_p env k)
  | SContext k => PContext (fun b => compile_p (env ++ [VB b]) k)
  | SFailed k => PFailed (fun b => compile_p (env ++ [VB b]) k)
  | SLog n k => PLog n (compile_p env k)
  | SRepeat id K s0 check acts k =>
      let al := (fix go (acts : list pexp) : list (val -> prog) :=
                   match acts with [] => [] | a :: r => (fun s => compile_p (env ++ [s]) a) :: go r end) acts in
      PRepeat id K (eval_v env s0)
              (match check with Some _ => true | None => false end)
              (fun s => match check with Some c => compile_p (env ++ [s]) c | None => PRet VU end)
              (length al) (fun i s => nth i al (fun _ => PRet VU) s)
              (fun s => compile_p (env ++ [s]) k)
  end.
