(* Correspondence: what the harness observed of the implementation, and the functions that compare
   it with the model.  Case files written by the harness call [mismatches]. *)
Require Import Rapid.Model.Base Rapid.Model.Syntax Rapid.Model.Monad Rapid.Model.Prim Rapid.Model.Interp
  Rapid.Model.Engine Rapid.Model.Pexp Rapid.Model.Groups.

(* canonical form of a failure site: class + node id, as the harness reads it off a Go traceback *)
Inductive scls := CU | CTop | CLate | CRI | CRC | CRA | CNV | CInt | CCF.
Definition scls_eqb (a b : scls) : bool :=
  match a, b with
  | CU, CU | CTop, CTop | CLate, CLate | CRI, CRI | CRC, CRC | CRA, CRA | CNV, CNV | CInt, CInt | CCF, CCF => true
  | _, _ => false
  end.
Definition canon_site (s : site) : scls * nat :=
  match s with
  | SUser id => (CU, id)
  | STopFailOnError => (CTop, O)
  | SLate => (CLate, O)
  | SRepeatInit id => (CRI, id)
  | SRepeatCheck id => (CRC, id)
  | SRepeatAction id => (CRA, id)
  | SNoValid id => (CNV, id)
  | SInternal _ => (CInt, O)
  | SCustomFOE => (CCF, O)
  end.

Inductive ores :=
| ROk | RInvalid (m : msg) | RStop (m : msg) (c : scls) (id : nat) | RPanic (m : msg) (c : scls) (id : nat) | RFuel.
Definition ores_of (r : result unit) : ores :=
  match r with
  | Ok _ => ROk
  | Err (XInvalid m) => RInvalid m
  | Err (XStop m s) => let '(c, i) := canon_site s in RStop m c i
  | Err (XPanic m s) => let '(c, i) := canon_site s in RPanic m c i
  | Err XFuel => RFuel
  end.
Definition ores_eqb (a b : ores) : bool :=
  match a, b with
  | ROk, ROk => true
  | RInvalid x, RInvalid y => msg_eqb x y
  | RStop x c i, RStop y d j | RPanic x c i, RPanic y d j =>
      msg_eqb x y && scls_eqb c d && (match c with CInt | CCF => true | _ => Nat.eqb i j end)
  | _, _ => false
  end.

Fixpoint list_eqb {A} (eq : A -> A -> bool) (a b : list A) : bool :=
  match a, b with
  | [], [] => true
  | x :: a', y :: b' => eq x y && list_eqb eq a' b'
  | _, _ => false
  end.
Definition ginfo_eqb (a b : ginfo) : bool :=
  Z.eqb (g_begin a) (g_begin b) && Z.eqb (g_end a) (g_end b) && Bool.eqb (g_sa a) (g_sa b)
  && Bool.eqb (g_discard a) (g_discard b).
Definition fk_eqb (a b : failkind) : bool :=
  match a, b with KError, KError | KFatal, KFatal | KPanic, KPanic => true | _, _ => false end.

(* maps are compared up to the order of their entries: sort by key (keys are integers or bools) *)
Definition key_z (v : val) : Z := match v with VZ z => z | VB true => 1%Z | _ => 0%Z end.
Fixpoint kv_insert (p : val * val) (l : list (val * val)) : list (val * val) :=
  match l with
  | [] => [p]
  | q :: r => if Z.leb (key_z (fst p)) (key_z (fst q)) then p :: l else q :: kv_insert p r
  end.
Fixpoint canon_val (v : val) : val :=
  match v with
  | VL l => VL (map canon_val l)
  | VP (Some x) => VP (Some (canon_val x))
  | VM kv => VM (fold_right kv_insert [] (map (fun p : val * val => (canon_val (fst p), canon_val (snd p))) kv))
  | _ => v
  end.

(* events as the harness can see them: context creation/cancellation are not directly visible *)
Definition visible (e : uev) : bool :=
  match e with UCtxCancel | UFrameBegin | UFrameEnd | UCleanupBegin | UCleanupEnd => false | _ => true end.
Definition uev_eqb (a b : uev) : bool :=
  match a, b with
  | UDraw x, UDraw y => val_eqb (canon_val x) (canon_val y)
  | USignal k m i, USignal k' m' i' => fk_eqb k k' && msg_eqb m m' && Nat.eqb i i'
  | USkip m, USkip m' => msg_eqb m m'
  | UReg i, UReg j | URun i, URun j | UAct i, UAct j | UCustomEnd i, UCustomEnd j => Nat.eqb i j
  | UCtxSeen b, UCtxSeen c => Bool.eqb b c
  | UCtxNew, UCtxNew => true
  | UFailedSeen b, UFailedSeen c => Bool.eqb b c
  | ULog n, ULog m => N.eqb n m
  | UChk, UChk | UCustomBegin, UCustomBegin => true
  | UActEnd i h, UActEnd j g => Nat.eqb i j && Nat.eqb h g
  | _, _ => false
  end.

(* ---- geom as a table regenerated from the code: for each bitlen the words at which n steps up ---- *)
Definition geom_of (tab : list (nat * list N)) (bitlen : nat) (k : N) : N :=
  match find (fun p => Nat.eqb (fst p) bitlen) tab with
  | Some (_, thr) => 1 + N.of_nat (length (filter (fun t => N.leb t k) thr))
  | None => 1
  end.

(* ---- one observed run of checkOnce ---- *)
Record runobs := mkObs {
  ob_res : ores;
  ob_data : list word;
  ob_groups : list ginfo;
  ob_pruned : list word;
  ob_tr : list uev;
}.
Inductive runsrc := OnBuf (l : list word) | OnSeed (s : N).

Section Run.
  Variable tab : list (nat * list N).
  Definition LF0 : nat := Z.to_nat 20000.
  Definition LVL0 : nat := 6.
  Definition model_run (p : pexp) (x : runsrc) : out unit :=
    checkOnce (geom_of tab) LF0 LVL0 (compile_p [] p)
      (start (match x with OnBuf l => SBuf l | OnSeed s => SRnd (jsf_init s) end)).

  (* which observables disagree: 1 result, 2 recorded data, 3 groups, 4 pruned data (interpreter's rpd),
     5 pruned data (index-based prune of the model's own recording), 6 events *)
  Definition diff_run (p : pexp) (x : runsrc) (o : runobs) : list nat :=
    let m := model_run p x in
    let gs := groups_of (glog (w m)) in
    (if ores_eqb (ores_of (res m)) (ob_res o) then [] else [1%nat]) ++
    (if list_eqb N.eqb (rd (w m)) (ob_data o) then [] else [2%nat]) ++
    (if list_eqb ginfo_eqb gs (ob_groups o) then [] else [3%nat]) ++
    (if list_eqb N.eqb (rpd (w m)) (ob_pruned o) then [] else [4%nat]) ++
    (if list_eqb N.eqb (fst (prune (rd (w m)) gs)) (ob_pruned o) then [] else [5%nat]) ++
    (if list_eqb uev_eqb (filter visible (tr (w m))) (ob_tr o) then [] else [6%nat]).

  Definition mismatches (cases : list (nat * pexp * runsrc * runobs)) : list (nat * list nat) :=
    flat_map (fun c => let '(id, p, x, o) := c in
                       match diff_run p x o with [] => [] | d => [(id, d)] end) cases.
End Run.
