(* Conc.v -- definitions only (no proofs).

   The atomic-section transition system of the shared fields of a *T
   (failed, cleanups, ctx, cancelCtx, cleaning).  Every critical section of engine.go (the code
   between t.mu.Lock()/RLock() and the matching unlock) and every atomic operation is ONE step;
   Lockset.v / C14_table_ok justify this granularity (the sections exclude each other).  Any number
   of goroutines take steps in any order:

     fail           t.mu.Lock();  t.failed = msg;                          Unlock
     Failed         t.mu.RLock(); r := t.failed != "";                     RUnlock
     failOnError    t.mu.RLock(); r := t.failed != "";  (panics if r)      RUnlock
     Cleanup        t.mu.Lock();  t.cleanups = append(t.cleanups, f);      Unlock
     Context        three separate steps:
        fast        t.mu.RLock(); ctx := t.ctx; RUnlock          (returns ctx if non-nil)
        load        t.cleaning.Load()                            (true: returns a cancelled context)
        slow        t.mu.Lock(); re-check t.ctx; create and store ctx, cancelCtx if nil; Unlock
     cleanup        (one goroutine, the one that ran the property)
        store       t.cleaning.Store(true)
        cancel      t.mu.Lock(); if cancelCtx != nil { cancelCtx(); cancelCtx = nil; ctx = nil }; Unlock
        pop         t.mu.Lock(); take the last element of t.cleanups if any; Unlock
        run         the popped function runs OUTSIDE the lock (it may panic)
        check       (deferred) t.mu.Lock(); recurse := len(t.cleanups) > 0; Unlock; recursion
        end         t.cleaning.Store(false)

   Cleanup functions that themselves call t.Cleanup / t.Context are covered: those calls are steps
   of some goroutine interleaved between "pop"/"run" and the next cleaner step.                    *)
From Coq Require Import List Arith Bool Lia.
Import ListNotations.

Definition ctid := nat.    (* goroutine *)
Definition fid := nat.     (* a registered cleanup function (identity of one registration) *)
Definition cid := nat.     (* a context object *)
Definition msg := nat.     (* failure message; 0 is the empty string *)

Record tst := mkTst {
  failed : msg;
  cleanups : list fid;            (* the stack; the last element is the top *)
  ctx : option cid;
  cancelCtx : option cid;
  cleaning : bool;
  cancelled : list cid;           (* ghost: contexts cancelled so far *)
  next_c : cid;                   (* ghost: supply of fresh context identities *)
  next_f : fid                    (* ghost: supply of fresh registration identities *)
}.

(* where a goroutine is inside Context() *)
Inductive ctx_pc := CIdle | CAfterFast | CAfterLoad.

(* where the cleaner is inside cleanup() *)
Inductive clean_pc :=
| KIdle                 (* not in cleanup *)
| KStored               (* cleaning.Store(true) done *)
| KLoop                 (* context cancelled; at the head of the pop loop *)
| KHave (f : fid)       (* popped f; about to run it, outside the lock *)
| KCheck                (* loop left (stack seen empty, or a cleanup function panicked): deferred check *)
| KEnding.              (* check saw an empty stack: about to Store(false) *)

Record cstate := mkC { st : tst; cpc : ctid -> ctx_pc; kpc : clean_pc }.

Definition tst0 := mkTst 0 [] None None false [] 0 0.
Definition init := mkC tst0 (fun _ => CIdle) KIdle.

Definition upd (p : ctid -> ctx_pc) (t : ctid) (v : ctx_pc) : ctid -> ctx_pc :=
  fun u => if Nat.eqb u t then v else p u.

Inductive label :=
| LFail (t : ctid) (m : msg)
| LFailed (t : ctid) (r : bool)               (* Failed() returned r *)
| LFailOnError (t : ctid) (r : bool)          (* failOnError found failed <> "" = r *)
| LReg (t : ctid) (f : fid)                   (* Cleanup registered f *)
| LCtxFast (t : ctid) (r : option cid)        (* Some c: Context() returns c *)
| LCtxLoad (t : ctid) (r : option cid)        (* Some c: cleaning was set; returns the cancelled context c *)
| LCtxSlow (t : ctid) (c : cid) (created : bool)   (* Context() returns c *)
| LKStore
| LKCancel (c : option cid)
| LKPop (f : option fid)
| LKRan (f : fid) (panicked : bool)
| LKCheck (recurse : bool)
| LKEnd.

Definition set_failed (s : tst) (m : msg) : tst :=
  mkTst m (cleanups s) (ctx s) (cancelCtx s) (cleaning s) (cancelled s) (next_c s) (next_f s).
Definition push_cleanup (s : tst) : tst :=
  mkTst (failed s) (cleanups s ++ [next_f s]) (ctx s) (cancelCtx s) (cleaning s) (cancelled s) (next_c s) (S (next_f s)).
Definition set_cleanups (s : tst) (l : list fid) : tst :=
  mkTst (failed s) l (ctx s) (cancelCtx s) (cleaning s) (cancelled s) (next_c s) (next_f s).
Definition set_cleaning (s : tst) (b : bool) : tst :=
  mkTst (failed s) (cleanups s) (ctx s) (cancelCtx s) b (cancelled s) (next_c s) (next_f s).
Definition create_ctx (s : tst) : tst :=
  mkTst (failed s) (cleanups s) (Some (next_c s)) (Some (next_c s)) (cleaning s) (cancelled s) (S (next_c s)) (next_f s).
Definition fresh_cancelled (s : tst) : tst :=
  mkTst (failed s) (cleanups s) (ctx s) (cancelCtx s) (cleaning s) (next_c s :: cancelled s) (S (next_c s)) (next_f s).
Definition cancel_ctx (s : tst) (c : cid) : tst :=
  mkTst (failed s) (cleanups s) None None (cleaning s) (c :: cancelled s) (next_c s) (next_f s).

Inductive cstep : cstate -> label -> cstate -> Prop :=
(* single-section methods: any goroutine, any time *)
| s_fail s p k t m :
    cstep (mkC s p k) (LFail t m) (mkC (set_failed s m) p k)
| s_failed s p k t :
    cstep (mkC s p k) (LFailed t (negb (Nat.eqb (failed s) 0))) (mkC s p k)
| s_fail_on_error s p k t :
    cstep (mkC s p k) (LFailOnError t (negb (Nat.eqb (failed s) 0))) (mkC s p k)
| s_reg s p k t :
    cstep (mkC s p k) (LReg t (next_f s)) (mkC (push_cleanup s) p k)
(* Context *)
| s_ctx_fast_hit s p k t c :
    p t = CIdle -> ctx s = Some c ->
    cstep (mkC s p k) (LCtxFast t (Some c)) (mkC s p k)
| s_ctx_fast_miss s p k t :
    p t = CIdle -> ctx s = None ->
    cstep (mkC s p k) (LCtxFast t None) (mkC s (upd p t CAfterFast) k)
| s_ctx_load_cleaning s p k t :
    p t = CAfterFast -> cleaning s = true ->
    cstep (mkC s p k) (LCtxLoad t (Some (next_c s))) (mkC (fresh_cancelled s) (upd p t CIdle) k)
| s_ctx_load_clear s p k t :
    p t = CAfterFast -> cleaning s = false ->
    cstep (mkC s p k) (LCtxLoad t None) (mkC s (upd p t CAfterLoad) k)
| s_ctx_slow_found s p k t c :
    p t = CAfterLoad -> ctx s = Some c ->
    cstep (mkC s p k) (LCtxSlow t c false) (mkC s (upd p t CIdle) k)
| s_ctx_slow_create s p k t :
    p t = CAfterLoad -> ctx s = None ->
    cstep (mkC s p k) (LCtxSlow t (next_c s) true) (mkC (create_ctx s) (upd p t CIdle) k)
(* cleanup *)
| s_k_store s p :
    cstep (mkC s p KIdle) LKStore (mkC (set_cleaning s true) p KStored)
| s_k_cancel_some s p c :
    cancelCtx s = Some c ->
    cstep (mkC s p KStored) (LKCancel (Some c)) (mkC (cancel_ctx s c) p KLoop)
| s_k_cancel_none s p :
    cancelCtx s = None ->
    cstep (mkC s p KStored) (LKCancel None) (mkC s p KLoop)
| s_k_pop_some s p l f :
    cleanups s = l ++ [f] ->
    cstep (mkC s p KLoop) (LKPop (Some f)) (mkC (set_cleanups s l) p (KHave f))
| s_k_pop_none s p :
    cleanups s = [] ->
    cstep (mkC s p KLoop) (LKPop None) (mkC s p KCheck)
| s_k_ran_ok s p f :
    cstep (mkC s p (KHave f)) (LKRan f false) (mkC s p KLoop)
| s_k_ran_panic s p f :
    cstep (mkC s p (KHave f)) (LKRan f true) (mkC s p KCheck)
| s_k_check_recurse s p :
    cleanups s <> [] ->
    cstep (mkC s p KCheck) (LKCheck true) (mkC s p KIdle)     (* t.cleanup() again: next step is store *)
| s_k_check_done s p :
    cleanups s = [] ->
    cstep (mkC s p KCheck) (LKCheck false) (mkC s p KEnding)
| s_k_end s p :
    cstep (mkC s p KEnding) LKEnd (mkC (set_cleaning s false) p KIdle).

Inductive csteps : cstate -> list label -> cstate -> Prop :=
| cs_nil s : csteps s [] s
| cs_cons s l s1 ls s2 : cstep s l s1 -> csteps s1 ls s2 -> csteps s (l :: ls) s2.

(* observations *)
Definition regs (ls : list label) : list fid :=
  flat_map (fun l => match l with LReg _ f => [f] | _ => [] end) ls.
Definition rans (ls : list label) : list fid :=
  flat_map (fun l => match l with LKRan f _ => [f] | _ => [] end) ls.
Definition ctx_ret (l : label) : option cid :=
  match l with
  | LCtxFast _ (Some c) => Some c
  | LCtxLoad _ (Some c) => Some c
  | LCtxSlow _ c _ => Some c
  | _ => None
  end.
Definition is_cleaner (l : label) : bool :=
  match l with
  | LKStore | LKCancel _ | LKPop _ | LKRan _ _ | LKCheck _ | LKEnd => true
  | _ => false
  end.
Definition is_reg (l : label) : bool := match l with LReg _ _ => true | _ => false end.
(* what failOnError / Failed observed *)
Definition fail_obs (l : label) : option bool :=
  match l with LFailed _ r => Some r | LFailOnError _ r => Some r | _ => None end.
Definition fail_msg (l : label) : option msg :=
  match l with LFail _ m => Some m | _ => None end.

(* the function the cleaner has popped and not yet run *)
Definition pending (k : clean_pc) : list fid := match k with KHave f => [f] | _ => [] end.
