(* Correspondence for the string generator model: StringOfN(Int32Range(lo,hi), minRunes, maxRunes, maxLen). *)
From Coq Require Import List NArith ZArith Bool.
Require Import Rapid.Model.Base Rapid.Model.Syntax Rapid.Model.Monad Rapid.Model.Prim Rapid.Model.Interp Rapid.Model.Engine
  Rapid.Model.Corr Rapid.Model.Strings.
Import ListNotations.
Local Open Scope Z_scope.

Inductive str_out := SOk (runes : list Z) | SInvalid | SOther.
Record str_case := mkStr {
  sc_id : nat; sc_lo : Z; sc_hi : Z; sc_min : Z; sc_max : Z; sc_maxlen : Z; sc_K : N; sc_src : runsrc; sc_out : str_out;
}.
Fixpoint zl_eqb (a b : list Z) : bool :=
  match a, b with
  | [], [] => true
  | x :: a', y :: b' => Z.eqb x y && zl_eqb a' b'
  | _, _ => false
  end.
Definition str_out_eqb (a b : str_out) : bool :=
  match a, b with
  | SOk x, SOk y => zl_eqb x y
  | SInvalid, SInvalid | SOther, SOther => true
  | _, _ => false
  end.
Section CS.
  Variable tab : list (nat * list N).
  Definition str_model (c : str_case) : str_out :=
    let m := string_gen (geom_of tab) LF0 (fun _ => ret VU) (GInt (sc_lo c) (sc_hi c)) (sc_min c) (sc_max c) (sc_maxlen c) (sc_K c) in
    match res (group true m (start (match sc_src c with OnBuf l => SBuf l | OnSeed s => SRnd (jsf_init s) end))) with
    | Ok l => SOk l | Err (XInvalid _) => SInvalid | Err _ => SOther end.
  Definition str_mismatches (cs : list str_case) : list nat :=
    map sc_id (filter (fun c => negb (str_out_eqb (str_model c) (sc_out c))) cs).
End CS.
