(* strings.go: StringOfN(elem, minRunes, maxRunes, maxLen) - a repeat loop over a rune generator that rejects
   values which are not code points and runes that would exceed the byte budget. *)
From Coq Require Import List NArith ZArith Bool.
Require Import Rapid.Model.Base Rapid.Model.Syntax Rapid.Model.Monad Rapid.Model.Prim Rapid.Model.Interp.
Import ListNotations.
Local Open Scope Z_scope.

(* utf8.RuneLen: -1 for negative values, surrogates and values above MaxRune *)
Definition rune_len (r : Z) : Z :=
  if r <? 0 then -1
  else if r <=? 127 then 1
  else if r <=? 2047 then 2
  else if (55296 <=? r) && (r <=? 57343) then -1
  else if r <=? 65535 then 3
  else if r <=? 1114111 then 4
  else -1.

Definition rune_of (v : val) : Z := match v with VZ z => z | _ => -1 end.

(* state of the loop: the runes written so far and their byte length (strings.Builder.Len()) *)
Definition string_body (elem : M val) (maxLen : Z) (acc : list Z * Z) : M (option (list Z * Z)) :=
  v <- elem ;;
  let r := rune_of v in
  let n := rune_len r in
  if (n <? 0) || (maxLen <? snd acc + n) then ret None
  else ret (Some (fst acc ++ [r], snd acc + n)).

Section Str.
  Variable geom : nat -> N -> N.
  Variable LF : nat.
  Variable crun : prog -> M val.

  (* maxLen < 0 means no limit (math.MaxInt) *)
  Definition maxlen_of (maxLen : Z) : Z := if maxLen <? 0 then 9223372036854775807 else maxLen.

  Definition string_gen (e : gexp) (minRunes maxRunes maxLen : Z) (K : N) : M (list Z) :=
    r <- rep_loop LF (minc_of minRunes) (maxc_of maxRunes) K
           (string_body (gval (run_g geom LF crun e)) (maxlen_of maxLen)) 0 0 false ([], 0) ;;
    ret (fst r).
End Str.
