(* Base types of the rapid model: words, values, messages, sites, outcomes, events.
   Definitions only - no proofs live in Model/. *)
From Coq Require Export List NArith ZArith Bool Arith.
Export ListNotations.
Open Scope N_scope.

Definition word := N.

(* ---- 64-bit arithmetic as Go does it ---- *)
Definition W64 : N := 18446744073709551616.            (* 2^64 *)
Definition wrap (z : Z) : N := Z.to_N (z mod (Z.of_N W64)).
Definition wrapN (n : N) : N := n mod W64.
Definition to_int64 (u : N) : Z :=
  let z := Z.of_N u in if Z.ltb z 9223372036854775808 then z else (z - Z.of_N W64)%Z.
(* bitmask64(n) for a uint shift: 1<<n - 1, which is all-ones for n >= 64 *)
Definition mask (n : nat) (w : N) : N := N.land w (N.ones (N.of_nat (Nat.min n 64))).
Definition len64 (x : N) : nat := N.to_nat (N.size x).   (* bits.Len64 *)
Definition ones64 : N := N.ones 64.

(* ---- shortlex order on word lists: compareData of shrink.go ---- *)
Fixpoint lex_cmp (a b : list N) : comparison :=
  match a, b with
  | x :: a', y :: b' => match N.compare x y with Eq => lex_cmp a' b' | c => c end
  | _, _ => Eq
  end.
Definition compareData (a b : list N) : comparison :=
  match Nat.compare (length a) (length b) with Eq => lex_cmp a b | c => c end.

(* ---- values handed to user code ---- *)
Inductive val :=
| VU                                   (* unit / nothing *)
| VZ (z : Z)                           (* every integer kind *)
| VB (b : bool)
| VL (l : list val)                    (* slices, permutations, strings as rune lists *)
| VP (o : option val)                  (* pointers *)
| VM (kv : list (val * val)).          (* maps, insertion order *)

Fixpoint val_eqb (a b : val) {struct a} : bool :=
  match a, b with
  | VU, VU => true
  | VZ x, VZ y => Z.eqb x y
  | VB x, VB y => Bool.eqb x y
  | VL x, VL y =>
      (fix go (x y : list val) : bool :=
         match x, y with
         | [], [] => true
         | a :: x', b :: y' => val_eqb a b && go x' y'
         | _, _ => false
         end) x y
  | VP None, VP None => true
  | VP (Some x), VP (Some y) => val_eqb x y
  | VM x, VM y =>
      (fix go (x y : list (val * val)) : bool :=
         match x, y with
         | [], [] => true
         | (a1, a2) :: x', (b1, b2) :: y' => val_eqb a1 b1 && val_eqb a2 b2 && go x' y'
         | _, _ => false
         end) x y
  | _, _ => false
  end.

(* ---- messages, sites, errors ---- *)
Inductive msg :=
| MUser (n : N)            (* harness-chosen payload of Errorf/Fatalf/panic/Skip *)
| MFailNow | MFail | MSkipNow
| MOverrun | MFindFailed | MTooManyRej
| MNoValidActions
| MGroupNoData             (* endGroup assertion: group did not use any data *)
| MAssert.                 (* any other internal assertion *)

(* messages that only rapid itself raises as invalid data (resource phenomena, not user decisions) *)
Definition internal_msg (m : msg) : bool :=
  match m with MOverrun | MFindFailed | MTooManyRej => true | _ => false end.

Definition msg_eqb (a b : msg) : bool :=
  match a, b with
  | MUser x, MUser y => N.eqb x y
  | MFailNow, MFailNow | MFail, MFail | MSkipNow, MSkipNow
  | MOverrun, MOverrun | MFindFailed, MFindFailed | MTooManyRej, MTooManyRej
  | MNoValidActions, MNoValidActions | MGroupNoData, MGroupNoData | MAssert, MAssert => true
  | _, _ => false
  end.

(* A site stands for the Go traceback: which static program point raised the panic.
   User failure nodes carry a harness-chosen id; rapid's own failure points are named. *)
Inductive site :=
| SUser (id : nat)               (* a PFail node (Fatal/FailNow/panic) *)
| STopFailOnError                (* checkOnce: failOnError after prop returned *)
| SLate                          (* non-fatal failure found after cleanup / before a skip ("<non-fatal failure>") *)
| SRepeatInit (id : nat)         (* Repeat: failOnError after the initial check *)
| SRepeatCheck (id : nat)        (* Repeat: failOnError after a post-action check *)
| SRepeatAction (id : nat)       (* runAction: failOnError after the action *)
| SNoValid (id : nat)            (* executeAction: no valid action *)
| SCustomFOE                     (* customGen.maybeValue: failOnError after the Custom function returned *)
| SInternal (m : msg).           (* assertion inside rapid *)

Definition site_eqb (a b : site) : bool :=
  match a, b with
  | SUser x, SUser y => Nat.eqb x y
  | STopFailOnError, STopFailOnError | SLate, SLate | SCustomFOE, SCustomFOE => true
  | SRepeatInit x, SRepeatInit y | SRepeatCheck x, SRepeatCheck y
  | SRepeatAction x, SRepeatAction y | SNoValid x, SNoValid y => Nat.eqb x y
  | SInternal x, SInternal y => msg_eqb x y
  | _, _ => false
  end.

Inductive failkind := KError | KFatal | KPanic.     (* Error/Errorf/Fail ; Fatal/Fatalf/FailNow ; panic(v) *)

Inductive exn :=
| XInvalid (m : msg)                 (* invalidData: skip, overrun, find exhausted, too many rejections *)
| XStop (m : msg) (s : site)         (* stopTest *)
| XPanic (m : msg) (s : site)        (* any other panic value *)
| XFuel.                             (* model artefact: loop fuel exhausted *)

Inductive result (A : Type) := Ok (a : A) | Err (e : exn).
Arguments Ok {A}. Arguments Err {A}.

Definition exn_eqb (a b : exn) : bool :=      (* sameError: same message and same traceback *)
  match a, b with
  | XInvalid x, XInvalid y => msg_eqb x y
  | XStop x s, XStop y t => msg_eqb x y && site_eqb s t
  | XPanic x s, XPanic y t => msg_eqb x y && site_eqb s t
  | XFuel, XFuel => true
  | _, _ => false
  end.

(* traceback comparison only (accept's first test) *)
Definition exn_site (e : exn) : option site :=
  match e with XStop _ s | XPanic _ s => Some s | _ => None end.

(* ---- group events (what recordedBits sees) ---- *)
Inductive gev :=
| EW (w : word)
| EB (standalone : bool)
| EE (discard : bool)
| EX.                                  (* a panic passed through the group: it stays open (end = -1) *)

(* ---- user-visible events (what the harness's property interpreter logs) ---- *)
Inductive uev :=
| UDraw (v : val)
| USignal (k : failkind) (m : msg) (id : nat)    (* a PFail node executed *)
| USkip (m : msg)
| UReg (id : nat) | URun (id : nat)              (* cleanup registered / started *)
| UCtxNew | UCtxCancel | UCtxSeen (live : bool)   (* context created / cancelled / returned by Context() *)
| UFailedSeen (b : bool)
| ULog (n : N)
| UChk | UAct (i : nat)                          (* state machine: invariant / action i started *)
| UActEnd (i : nat) (how : nat)                  (* 0 = returned, 1 = panicked before drawing, 2 = panicked after drawing *)
| UCustomBegin | UCustomEnd (how : nat)          (* 0 = returned, 1 = panicked *)
| UFrameBegin | UFrameEnd                        (* model only: a fresh inner T starts / is dropped *)
| UCleanupBegin | UCleanupEnd.                   (* model only: T.cleanup starts / is done *)

(* events that do not touch the bookkeeping of T *)
Definition plain (e : uev) : bool :=
  match e with
  | UDraw _ | USkip _ | UFailedSeen _ | ULog _ | UChk | UAct _ | UActEnd _ _ | UCustomBegin | UCustomEnd _ => true
  | _ => false
  end.
