(* recordedBits: the flat groupInfo list rebuilt from the event log, and prune()/removeGroup()
   written the way data.go does it (index arithmetic). *)
Require Import Rapid.Model.Base.

Record ginfo := mkG { g_begin : Z; g_end : Z; g_sa : bool; g_discard : bool }.

Fixpoint set_nth {A} (n : nat) (f : A -> A) (l : list A) : list A :=
  match l, n with
  | [], _ => []
  | x :: r, O => f x :: r
  | x :: r, S n' => x :: set_nth n' f r
  end.

(* groups_of: idx = len(rec.data) so far; stack = indices of groups not yet closed *)
Fixpoint groups_go (log : list gev) (idx : Z) (stack : list nat) (acc : list ginfo) : list ginfo :=
  match log with
  | [] => acc
  | EW _ :: r => groups_go r (idx + 1) stack acc
  | EB sa :: r => groups_go r idx (length acc :: stack) (acc ++ [mkG idx (-1) sa false])
  | EE d :: r =>
      match stack with
      | [] => groups_go r idx [] acc
      | i :: st' => groups_go r idx st' (set_nth i (fun g => mkG (g_begin g) idx (g_sa g) d) acc)
      end
  | EX :: r => groups_go r idx (tl stack) acc
  end.
Definition groups_of (log : list gev) : list ginfo := groups_go log 0 [] [].
Definition words_of (log : list gev) : list word :=
  flat_map (fun e => match e with EW u => [u] | _ => [] end) log.

(* removeGroup(i) *)
Definition cut {A} (l : list A) (b e : Z) : list A :=
  firstn (Z.to_nat b) l ++ skipn (Z.to_nat e) l.
Fixpoint skip_children (gs : list ginfo) (e : Z) : list ginfo :=
  match gs with
  | g :: r => if Z.leb (g_end g) e then skip_children r e else gs
  | [] => []
  end.
Definition rebase (b e : Z) (g : ginfo) : ginfo :=
  let n := (e - b)%Z in
  mkG (if Z.leb e (g_begin g) then g_begin g - n else g_begin g)%Z
      (if Z.leb e (g_end g) then g_end g - n else g_end g)%Z (g_sa g) (g_discard g).
Definition remove_group (data : list word) (gs : list ginfo) (i : nat) : list word * list ginfo :=
  match nth_error gs i with
  | None => (data, gs)
  | Some g =>
      let rest := skip_children (skipn (S i) gs) (g_end g) in
      (cut data (g_begin g) (g_end g), map (rebase (g_begin g) (g_end g)) (firstn i gs ++ rest))
  end.
(* prune(): for i := 0; i < len(groups); { if discard {removeGroup(i)} else {i++} } *)
Fixpoint prune_go (fuel : nat) (data : list word) (gs : list ginfo) (i : nat) : list word * list ginfo :=
  match fuel with
  | O => (data, gs)
  | S f =>
      match nth_error gs i with
      | None => (data, gs)
      | Some g => if g_discard g
                  then let '(d', gs') := remove_group data gs i in prune_go f d' gs' i
                  else prune_go f data gs (S i)
      end
  end.
Definition prune (data : list word) (gs : list ginfo) : list word * list ginfo :=
  prune_go (S (length gs)) data gs 0.
