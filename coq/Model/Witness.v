(* Witness bitstreams for reachability (C18): the words that make an integer generator return a given value,
   read off the table regenerated from the real genGeom.  Executable: compared with the streams the harness
   derives from the real code (harness reach-cases). *)
From Coq Require Import List NArith ZArith.
Require Import Rapid.Model.Base Rapid.Model.Syntax Rapid.Model.Monad Rapid.Model.Prim Rapid.Model.Corr.
Require Import Rapid.Generated.GeomTable.
Import ListNotations.
Local Open Scope N_scope.

Definition geom_wit_of (tab : list (nat * list N)) (bitlen : nat) (n : nat) : N :=
  match n with
  | O | S O => 0
  | S (S i) => match find (fun p => Nat.eqb (fst p) bitlen) tab with
               | Some (_, thr) => nth i thr 0
               | None => 0
               end
  end.
Definition geom_wit : nat -> nat -> N := geom_wit_of geom_tab.

(* the witness word for a value *)
Definition uint_wit (max v : N) : N := geom_wit (len64 max) (Nat.max 1 (len64 v)).

Definition urange_wit (mn mx u : N) : list N := [uint_wit (mx - mn) (u - mn); u - mn].

Definition int_wit (mn mx v : Z) : list N :=
  if Z.leb 0 mn then 0 :: urange_wit (wrap mn) (wrap mx) (Z.to_N v)
  else if Z.leb mx 0 then 0 :: urange_wit (wrap (- mx)) (wrap (- mn)) (Z.to_N (- v))
  else if Z.leb 0 v then 0 :: urange_wit 0 (wrap mx) (Z.to_N v)
  else K_half :: urange_wit 1 (wrap (- mn)) (Z.to_N (- v)).
