(* engine.go: checkOnce, checkFuzz, findBug, doCheck, checkTB. *)
Require Import Rapid.Model.Base Rapid.Model.Syntax Rapid.Model.Monad Rapid.Model.Prim Rapid.Model.Interp.
Require Import Rapid.Generated.Consts.

Section Engine.
  Variable geom : nat -> N -> N.
  Variable LF : nat.

  (* stored cleanup functions may register cleanups that register cleanups ...: [lvl] bounds that
     nesting; exhausting it is the model artefact XFuel, never a rapid outcome *)
  Fixpoint exec (lvl : nat) : prog -> M val :=
    match lvl with
    | O => fun _ => throw XFuel
    | S l => run_p geom LF (exec l)
    end.

  (* checkOnce(t, prop): prop(t); t.failOnError(); deferred t.cleanup(); deferred recover.
     A non-fatal failure that nobody turned into a panic (raised in a cleanup, or followed by a
     skip) is reported as a failure of this test case. *)
  Definition check_handler (lvl : nat) (r : result unit) : M unit :=
    match r with
    | Err XFuel => throw XFuel
    | _ =>
        _ <- (match r with Err (XInvalid m) => if internal_msg m then mark_dirty else ret tt | _ => ret tt end) ;;
        c <- cleanup LF (exec lvl) false ;;
        t <- get_ts ;;
        let r' := match c with
                  | Some e => Err e
                  | None => match r, skipreq t with
                            | Ok _, Some m => Err (XInvalid m)       (* skip requested by a cleanup function *)
                            | _, _ => r
                            end
                  end in
        match r', failed t with
        | Err XFuel, _ => throw XFuel
        | Ok _, Some m | Err (XInvalid _), Some m => throw (XStop m SLate)
        | Ok _, None => ret tt
        | Err e, _ => throw e
        end
    end.
  Definition checkOnce (lvl : nat) (p : prog) : M unit :=
    try_ (_ <- exec (S lvl) p ;; failOnError STopFailOnError) (check_handler lvl).

  Definition start (x : source) : st := mkSt x fresh_t.

  (* ---- checkFuzz ---- *)
  Fixpoint le_word (bs : list N) (sh : N) : N :=
    match bs with [] => 0 | b :: r => N.shiftl b sh + le_word r (sh + 8) end.
  Fixpoint words_of_bytes (fuel : nat) (bs : list N) : list word :=
    match fuel, bs with
    | _, [] => []
    | O, _ => []
    | S f, _ => le_word (firstn 8 bs) 0 :: words_of_bytes f (skipn 8 bs)
    end.
  Inductive fuzz_status := FPass | FSkip | FFail | FFuel.
  Definition status_of (r : result unit) : fuzz_status :=
    match r with
    | Ok _ => FPass
    | Err (XInvalid _) => FSkip
    | Err XFuel => FFuel
    | Err _ => FFail
    end.
  Definition checkFuzz (lvl : nat) (p : prog) (bs : list N) : fuzz_status * out unit :=
    let o := checkOnce lvl p (start (SBuf (words_of_bytes (S (length bs)) bs))) in
    (status_of (res o), o).
End Engine.
