import sys
sys.path.insert(0, '/verif/lib')
import corelib

SPEC = dict(
    prop='C09',
    corr=[('check-cases', 6, 16, ['-n', '60', '-na', '0', '-profile', 'all'], ('_dc', '_acc'))],
    oracles=[('check-oracle',
              [['-n', '120', '-seed', '{seed}', '-profile', 'all', '-shrinkms', '50'] for _ in range(4)],
              [['-n', '600', '-seed', '{seed}', '-profile', 'all', '-shrinkms', '300'] for _ in range(16)])],
    oracle_props=['C09'],
    partial=['the early-exit rule (time.Until(deadline) < avg*5) is an oracle parameter of the model (early), never triggered in the harness runs', 'N = 0 passes with zero invocations, as the statement says'],
    assumptions=['the engine is compared through doCheck (export hook) with minimization off and through rapid.Check with a recording TB'],
)

def run(ctx):
    return corelib.run_core(ctx, SPEC)
