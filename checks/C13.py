import sys
sys.path.insert(0, '/verif/lib')
import corelib

SPEC = dict(
    prop='C13',
    corr=[('fuzz-cases', 6, 16, ['-n', '300', '-profile', 'all'], ('',))],
    oracles=[('fuzz-oracle',
              [['-n', '700', '-seed', '{seed}', '-profile', 'all'] for _ in range(4)],
              [['-n', '4000', '-seed', '{seed}', '-profile', 'all'] for _ in range(16)])],
    partial=['C13_suffix is proved for runs that leave at least one whole word unread; with an exact fit the model cannot tell a swallowed overrun from none (no flag), that case is covered by the oracle only when no overrun is possible',
             'never hangs: on a buffer every loop iteration consumes a word (a 10 s watchdog per input in the oracle; no termination theorem beyond the model\'s fuel)',
             'the real testing.T sub-test status is replaced by a recording TB: Fatalf -> failed, SkipNow -> skipped'],
    assumptions=['checkFuzz is driven through the export hook VerifCheckFuzz with a recording TB (MakeFuzz itself only adds t.Helper())'],
)

def run(ctx):
    return corelib.run_core(ctx, SPEC)
