import sys
sys.path.insert(0, '/verif/lib')
import corelib

SPEC = dict(
    prop='C07',
    corr=[('check-cases', 6, 16, ['-n', '60', '-na', '0', '-profile', 'all'], ('_dc', '_acc'))],
    oracles=[('check-oracle',
              [['-n', '120', '-seed', '{seed}', '-profile', 'all', '-shrinkms', '50'] for _ in range(4)],
              [['-n', '600', '-seed', '{seed}', '-profile', 'all', '-shrinkms', '300'] for _ in range(16)])],
    oracle_props=['C07'],
    partial=['wall-clock early exit and maphash base seeds are outside the model; run-to-run determinism of the implementation (map iteration etc.) is sampled by the oracle: rerun with the printed seed and compare the first invocation'],
    assumptions=['the engine is compared through doCheck (export hook) with minimization off and through rapid.Check with a recording TB'],
)

def run(ctx):
    return corelib.run_core(ctx, SPEC)
