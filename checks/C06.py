"""C06 - a failure is persisted and automatically replayed first on the next run.
Proof: Properties/C06.v (save/load round trip for all outputs; name sanitisation and pattern match).
Correspondence: persist-cases (real saveFailFile/loadFailFile/kindaSafeFilename/failFileName/failFilePattern/Glob and the
library functions vs the model, byte for byte).  Direct oracle: persist-tworun (Check -> fail file -> Check)."""
import sys
sys.path.insert(0, '/verif/lib')
import vlib
import persistlib as pl
import corelib

EVIDENCE_DEFAULTS = dict(level='proof', rule='not run: preparation failed')


def run(ctx):
    ctx.prove('C06')
    ok, log = ctx.make(['Model/PersistCorr.vo', 'Generated/UnicodeLD.vo'])
    if not ok:
        ctx.broken('obligation', 'Model/PersistCorr.v does not build', log[-3000:])
    thorough = ctx.tier == 'thorough'
    s = ctx.seed
    shards = []
    for i in range(128 if thorough else 16):
        shards.append({'name': f'c06_save{i}', 'n': 600 if thorough else 400, 'seed': s * 1000 + i, 'classes': 'save,lib'})
    for i in range(32 if thorough else 4):
        shards.append({'name': f'c06_names{i}', 'n': 150 if thorough else 100, 'seed': s * 1000 + 400 + i, 'classes': 'names'})
    for i in range(4 if thorough else 1):
        shards.append({'name': f'c06_long{i}', 'n': 0, 'seed': s * 1000 + 450 + i, 'classes': 'long', 'long': 7})
    stats, results = pl.run_case_shards(ctx, shards)
    pl.report_shards(ctx, stats, results, 'fail-file format / names')

    # engine part of the model (check_files / doCheck of Model/Shrink.v) vs the real doCheck run in directories
    # holding unparsable files, other versions and recordings of passing / invalid / failing runs
    etotal, ebroken = corelib.correspondence(ctx, 'check-cases', 8 if thorough else 3,
                                             ['-n', '2', '-na', '0', '-nf', '120' if thorough else '60', '-profile', 'all'], ('_dcf',))
    for what, detail in ebroken:
        ctx.broken('correspondence', what, detail)
    stats['engine_dcf'] = etotal.get('stats', etotal)
    # direct oracle on the real engine: fail -> file -> rerun
    n = 1500 if thorough else 80
    rc, out, err = ctx.harness('persist-tworun', '-seed', s, '-n', n, '-part', 'c06', timeout=1500 if thorough else 400)
    tw = pl.parse_json_line(out) if rc == 0 else None
    scen = 0
    tw_distinct = 0
    if tw is None:
        ctx.broken('machinery', 'persist-tworun did not produce a result', (out + err)[-3000:])
    else:
        c06 = tw.get('c06') or {}
        scen = c06.get('scenarios', 0)
        tw_distinct = c06.get('distinct', 0)
        for f in (c06.get('failures') or []):
            long_line = str(f.get('log', '')) in ('line70k', 'mib')
            sig = 'output line >= 65534 bytes' if long_line else 'two-run ' + str(f.get('what', ''))[:80]
            ctx.fail_input(sig, 'persisted failure is not replayed first on the next run: ' + str(f.get('what', '')),
                           {'cmd': pl.BUILD_CMD + (f.get('replay') or f'/verif/build/harness persist-tworun -seed {s} -n {n} -part c06'), 'scenario': f})
        for p in tw.get('escaped_panics') or []:
            ctx.fail_input('panic escapes Check ' + str(p)[:60], 'a panic escaped Check', {'cmd': pl.BUILD_CMD + f'/verif/build/harness persist-tworun -seed {s} -n {n} -part c06', 'panic': p})
        stats['tworun'] = {k: c06.get(k) for k in ('scenarios', 'ok', 'distinct', 'classes', 'stats')}

    ctx.partial.append('the two-run history Check -> fail file -> Check (found without a flag, run before any random case, "after 0 tests", same failure, same draws) '
                       'is proved in the engine model (C06_saved_failure_is_replayed_first, under the C01 hypotheses: no trace of rejected attempts) and tested end to end by persist-tworun; the engine model is tied to the real doCheck by the fail-file correspondence (check-cases -nf)')
    ctx.partial.append('Go library functions (bufio.Scanner, strings.TrimSpace, strconv.ParseUint, fmt, filepath.Match/Glob) are re-modelled and tied to the real ones by differential testing only')
    return ctx.finish(
        level='proof',
        evaluations=stats.get('cases', 0) + scen,
        distinct=stats.get('distinct_nontrivial', 0) + tw_distinct,
        rule='theorems of Properties/C06.v re-checked (Closed under the global context); model = implementation on every generated case '
             '(file bytes, load result or error class, sanitised names, paths, glob matches); real round trip on every saved case; '
             'second Check reports "after 0 tests" with the same failure and draws in every two-run scenario',
        samples=stats.get('samples') or None,
        extra={'input_distribution': pl.distribution(stats), 'tworun': stats.get('tworun')},
        assumptions=pl.ASSUMPTIONS)
