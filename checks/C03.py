import sys
sys.path.insert(0, '/verif/lib')
import corelib

SPEC = dict(
    prop='C03',
    corr=[('runcases', 6, 16, ['-n', '200', '-profile', 'values'], ('',)),
          ('reach-cases', 2, 8, ['-n', '300'], ('',)),
          ('string-cases', 2, 8, ['-n', '400'], ('',))],
    oracles=[('c03-oracle',
              [['-n', '3000', '-seed', '{seed}'] for _ in range(8)],
              [['-n', '30000', '-seed', '{seed}'] for _ in range(16)])],
    oracle_props=['C03'],
    partial=['proved in the model: integer kinds (all signed/unsigned ranges incl. type extremes and the 65-bit overflow draw), index draws, and - see Properties/C03.v - the combinators of the generator-expression language; strings over an arbitrary rune generator expression (rune count, byte budget, valid code points: C03_string_contract, tied by string-cases); floats (never NaN, clamping against min/max parts), the default Rune()/String() tables, regexp generators and Make are not modelled: their contracts are decided on the implementation by the c03-oracle, which drives every public constructor with hostile bitstreams (all-zero, all-ones, 2^k, 2^k-1 words, truncated) and PRNG streams',
             '"never loops forever": on finite bitstreams termination is a theorem when Proofs/Termination.v is present; on the PRNG the rejection loops terminate with probability 1 only, which is not a theorem (oracle: every run is under a time limit)'],
    assumptions=['values are compared through the canonical printer of the harness; floats are not compared numerically'],
)

def run(ctx):
    return corelib.run_core(ctx, SPEC)
