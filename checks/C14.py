"""C14 -- T's non-drawing methods are safe to call from many goroutines.

1. Proof: Properties/C14.v (lockset_sound; table_ok of the table regenerated from engine.go by /verif/extract;
   fail_sticks / cleanups_once / one_context on the atomic-section transition system).
2. Always: the race-detector harness (/verif/raceharness, built -race against /repo's working tree) runs properties
   that start 2..64 goroutines issuing random mixes of Helper, Name, Log/Logf, Error/Errorf, Fail, Failed, Context,
   Cleanup, with and without verbose / log, through VerifRunSeed and through rapid.Check.  A detector report or a failed
   schedule-independent fact (verdict iff signalled, every cleanup exactly once, one live context, cancelled before the
   first cleanup) is a concrete failing input."""
import sys
sys.path.insert(0, '/verif/lib')
import vlib, locklib

ASSUMPTIONS = [
    'Go memory model only as far as: Unlock/RUnlock synchronised-before later excluding Lock/RLock; Once function completion before every Do return; observed atomic write before the atomic read; program order',
    'sync.RWMutex, sync/atomic, sync.Once behave as documented (modelled in Model/Lockset.v, not verified)',
    'the translator /verif/extract/locksets.go reports every access of the listed methods with its true lock context (syntactic; conservative: unknown constructs become unguarded writes)',
    'log.Logger, testing.TB.Logf/Helper/Name and context.WithCancel are goroutine-safe (calls through t.tb / t.rawLog are opaque ICall items)',
    'control flow is abstracted: a method execution is any subsequence of its row that keeps Once items, stopped anywhere; re-entrant calls from user callbacks are seen as further method executions of the same goroutine',
    'fail_sticks needs every failure message to be non-empty: t.Error() / t.Errorf("") store the empty message, which means "not failed" (sequential behaviour of the pinned tree, reported separately)',
]


def run(ctx):
    # ---- 1. proof ----
    tok, rows, pairs, size = locklib.table_report(ctx, 't_methods')
    if tok is False:
        ctx.broken('obligation', 'C14_table_ok: table_ok t_methods = false; rows ' + ', '.join(rows), pairs)
    elif tok is None:
        ctx.broken('obligation', 'C14_table_ok: the generated table could not be evaluated', size)
    proved = ctx.prove('C14')
    ctx.partial += [
        'tested, not proved: that the compiled code performs the accesses of Generated/Locksets.v (translator faithfulness); the race-detector harness is the cross-check',
        'trusted: semantics of sync.RWMutex / atomic.Bool / sync.Once and the happens-before edges of the Go memory model used in Model/Lockset.v',
        'trusted: goroutine-safety of log.Logger and of the TB passed in (testing.T)',
        'the transition system of Model/Conc.v takes each critical section as one atomic step (justified by C14_table_ok) and is hand-written from engine.go; the harness compares its schedule-independent facts with the implementation',
    ]

    # ---- 2. race-detector harness ----
    ok, race, msg = locklib.build_raceharness()
    ctx.notes.append(msg)
    if not ok:
        ctx.broken('build', 'race harness does not build against /repo', msg)
        return ctx.finish(level='proof', assumptions=ASSUMPTIONS)
    if not race:
        ctx.partial.append('RACE DETECTOR NOT AVAILABLE: harness built without -race; stress + schedule-independent facts only')
    thorough = ctx.tier == 'thorough'
    hard = (not proved) or thorough
    iters = 1500 if thorough else (600 if hard else 150)
    seed = ctx.seed
    jobs = [
        ('plain', ['t-methods', '-goroutines', 0, '-iters', iters, '-seed', seed]),
        ('verbose', ['t-methods', '-goroutines', 0, '-iters', iters, '-seed', seed + 1, '-verbose']),
        ('log', ['t-methods', '-goroutines', 0, '-iters', iters, '-seed', seed + 2, '-log']),
        ('verbose-log', ['t-methods', '-goroutines', 0, '-iters', iters // 2, '-seed', seed + 3, '-verbose', '-log']),
        ('g64', ['t-methods', '-goroutines', 64, '-iters', iters // 3, '-seed', seed + 4, '-verbose']),
        ('g2', ['t-methods', '-goroutines', 2, '-iters', iters, '-seed', seed + 5]),
        ('check', ['t-methods', '-goroutines', 0, '-iters', 60 if hard else 25, '-seed', seed + 6, '-check']),
        ('check-verbose', ['t-methods', '-goroutines', 0, '-iters', 40 if hard else 15, '-seed', seed + 7, '-check', '-verbose']),
    ]
    if hard:
        jobs += [(f'extra{i}', ['t-methods', '-goroutines', g, '-iters', 300, '-seed', seed + 100 + i] + fl)
                 for i, (g, fl) in enumerate([(3, []), (8, ['-verbose']), (16, ['-log']), (32, ['-verbose']), (64, [])])]
    evaluations = distinct = ops = cleanups = contexts = reports = 0
    samples, per_job, seen = [], {}, set()
    for tag, args in jobs:
        summary, reps, shown, err = locklib.run_harness(args, ctx.work, tag)
        if summary is None:
            ctx.broken('machinery', f'race harness failed on {tag}', err)
            continue
        evaluations += summary.get('invocations', 0)
        distinct += summary.get('distinct_plans', 0)
        ops += summary.get('ops', 0)
        cleanups += summary.get('cleanups_ran', 0)
        contexts += summary.get('contexts_collected', 0)
        reports += len(reps)
        per_job[tag] = {k: summary.get(k) for k in ('invocations', 'workloads_signalled', 'ops', 'cleanups_registered',
                                                    'cleanups_ran', 'contexts_collected', 'max_goroutines', 'tb_log_calls', 'wall_s')}
        if not samples and summary.get('sample_plan'):
            samples.append({'cmd': shown, 'plan': summary['sample_plan'][:6]})
        bad = locklib.problems_of(summary, locklib.T_COUNTERS)
        for c, n in bad.items():
            ctx.fail_input(f't-methods {c}', f'{c} = {n} in workload {tag}: {summary.get("first_problem", "")}',
                           {'cmd': shown, 'summary': {k: v for k, v in summary.items() if k != 'sample_plan'}})
        for sig, (what, text, n) in locklib.dedupe(reps).items():
            if sig not in seen:
                seen.add(sig)
                ctx.fail_input(sig, what, {'cmd': shown, 'report': text[:6000], 'count': n})
        if summary.get('race_enabled') is False and race:
            ctx.broken('machinery', 'harness reports race_enabled=false although built with -race', '')
    return ctx.finish(
        level='proof', evaluations=evaluations, distinct=distinct,
        rule='a case = one invocation of a property that starts G in {2,3,4,8,16,32,64} goroutines (plus the property goroutine) each running 5..40 '
             'random calls of Helper/Name/Log/Logf/Error/Errorf/Fail/Failed/Context/Cleanup on the shared *T behind a start barrier, joined before '
             'return; cleanups nest, spawn goroutines and call Context; distinct = distinct (G, multiset of op kinds) shapes per run as counted by '
             'the harness (runs use different seeds); non-trivial = at least 2 goroutines really overlapped on t (always, by the barrier)',
        samples=samples or ['(none)'],
        extra={'race_detector_active': race, 'race_reports': reports, 'ops_executed': ops, 'cleanups_ran': cleanups,
               'contexts_compared': contexts, 'jobs': per_job,
               'table': {'ok': tok, 'rows_failing': rows, 'size(rows,accesses)': size},
               'traces_validated_against_impl': evaluations},
        assumptions=ASSUMPTIONS)


def replay(ctx, path):
    return vlib.generic_replay(ctx, path)
