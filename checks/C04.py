import sys
sys.path.insert(0, '/verif/lib')
import corelib

SPEC = dict(
    prop='C04',
    corr=[('runcases', 6, 16, ['-n', '150', '-profile', 'all', '-replays'], ('',)),
          ('runcases', 2, 8, ['-n', '150', '-profile', 'pure', '-src', 'seed', '-replays'], ('',))],
    oracles=[('replay-oracle',
              [['-n', '150', '-k', '4', '-seed', '{seed}', '-profile', 'pure'] for _ in range(4)],
              [['-n', '600', '-k', '8', '-seed', '{seed}', '-profile', 'pure'] for _ in range(16)])],
    partial=['C04_replay_pruned is stated for the interpreter\'s own pruned recording rpd; that Go\'s index-based prune() of the recording yields that list is checked on every correspondence case (observables 4 and 5), not proved',
             'replay of the unpruned recording ("as recorded") is covered by the correspondence and by the frame theorem of C13 for buffers; no separate theorem',
             'history independence (other checks earlier in the process) is by construction in the model (run_case is a function); on the implementation it is sampled by running all cases of a shard in one process'],
    assumptions=['user code is a deterministic function of its draws (prog); a rejected attempt that registered a cleanup or created the context on the outer T is flagged dirty and excluded'],
)

def run(ctx):
    return corelib.run_core(ctx, SPEC)
