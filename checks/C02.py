import sys
sys.path.insert(0, '/verif/lib')
import corelib

SPEC = dict(
    prop='C02',
    corr=[('runcases', 6, 16, ['-n', '150', '-profile', 'all'], ('',))],
    oracles=[('c02-matrix', [['-seed', '{seed}']], [['-seed', '{seed}'] for _ in range(8)]),
             ('check-oracle',
              [['-n', '100', '-seed', '{seed}', '-profile', 'all', '-shrinkms', '20'] for _ in range(4)],
              [['-n', '500', '-seed', '{seed}', '-profile', 'all', '-shrinkms', '200'] for _ in range(16)])],
    oracle_props=['C02'],
    partial=['panic(v) and runtime errors: the theorem covers Error/Errorf/Fail/Fatal/Fatalf/FailNow; that a panic value propagates to checkOnce is decided by the event-trace correspondence and the complete kind x context x position matrix (a panic raised in one cleanup and followed by a Skip in another cleanup is reported as invalid by the code: the last panic wins)',
             'non-fatal signals from other goroutines: C14 (lost-update theorems and the -race workload)',
             'a panic followed by a Skip in a cleanup function that runs afterwards is counted as skipped by the code (open finding, known_findings.json); the empty-message variants t.Error() / t.Errorf("") are part of the matrix since the fix 9895181'],
    assumptions=['the harness logs every failure call it makes before making it; the TB is a recording rapid.TB'],
)

def run(ctx):
    return corelib.run_core(ctx, SPEC)
