import sys
sys.path.insert(0, '/verif/lib')
import corelib

SPEC = dict(
    prop='C02',
    corr=[('runcases', 6, 16, ['-n', '150', '-profile', 'all'], ('',))],
    oracles=[('c02-matrix', [['-seed', '{seed}']], [['-seed', '{seed}'] for _ in range(8)]),
             ('check-oracle',
              [['-n', '100', '-seed', '{seed}', '-profile', 'all', '-shrinkms', '20'] for _ in range(4)],
              [['-n', '500', '-seed', '{seed}', '-profile', 'all', '-shrinkms', '200'] for _ in range(16)])],
    oracle_props=['C02'],
    partial=['panic(v) and runtime errors: the theorem covers Error/Errorf/Fail/Fatal/Fatalf/FailNow; that a panic value propagates to checkOnce is decided by the event-trace correspondence and the complete kind x context x position matrix (a panic raised in one cleanup and followed by a Skip in another cleanup is reported as invalid by the code: the last panic wins)',
             'non-fatal signals from other goroutines: C14 (lost-update theorems and the -race workload)',
             'an empty failure message (t.Error() without arguments, t.Errorf("")) is indistinguishable from "not failed" in the code (T.failed == ""); the harness always uses non-empty messages; recorded in DESIGN.md section 7 as finding E1'],
    assumptions=['the harness logs every failure call it makes before making it; the TB is a recording rapid.TB'],
)

def run(ctx):
    return corelib.run_core(ctx, SPEC)
