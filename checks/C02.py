import sys
sys.path.insert(0, '/verif/lib')
import corelib

SPEC = dict(
    prop='C02',
    corr=[('runcases', 6, 16, ['-n', '150', '-profile', 'all'], ('',))],
    oracles=[('c02-matrix', [['-seed', '{seed}']], [['-seed', '{seed}'] for _ in range(8)]),
             ('check-oracle',
              [['-n', '100', '-seed', '{seed}', '-profile', 'all', '-shrinkms', '20'] for _ in range(3)] +
              [['-n', '100', '-seed', '{seed}', '-profile', 'cleanups', '-shrinkms', '20'] for _ in range(2)],
              [['-n', '500', '-seed', '{seed}', '-profile', 'all', '-shrinkms', '200'] for _ in range(12)] +
              [['-n', '400', '-seed', '{seed}', '-profile', 'cleanups', '-shrinkms', '100'] for _ in range(4)])],
    oracle_props=['C02'],
    partial=['non-fatal signals from other goroutines: C14 (lost-update theorems and the -race workload)',
             'the theorem covers every kind of signal incl. panics (C02_signal_fails_case) in the model; runtime errors (nil dereference ...) are panics raised by the Go runtime rather than by a call the model sees: they are covered by the matrix (nilderef variant) and the event-trace correspondence'],
    assumptions=['the harness logs every failure call it makes before making it; the TB is a recording rapid.TB'],
)

def run(ctx):
    return corelib.run_core(ctx, SPEC)
