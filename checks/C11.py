import sys
sys.path.insert(0, '/verif/lib')
import corelib

SPEC = dict(
    prop='C11',
    corr=[('check-cases', 6, 16, ['-n', '60', '-na', '0', '-profile', 'all'], ('_dc', '_acc'))],
    oracles=[('check-oracle',
              [['-n', '120', '-seed', '{seed}', '-profile', 'all', '-shrinkms', '50'] for _ in range(4)],
              [['-n', '600', '-seed', '{seed}', '-profile', 'all', '-shrinkms', '300'] for _ in range(16)])],
    oracle_props=['C11'],
    partial=['isolation holds by construction in the model after the fix (fresh T per case); the correspondence of invocation logs ties that to findBug'],
    assumptions=['the engine is compared through doCheck (export hook) with minimization off and through rapid.Check with a recording TB'],
)

def run(ctx):
    return corelib.run_core(ctx, SPEC)
