"""C15 -- a generator can be shared by concurrently running checks.

1. Proof: Properties/C15.v (table_ok of the table of *Generator[V] and every generatorImpl type, regenerated from /repo;
   with lockset_sound: no data race; C15_pure / C15_shared on the lead's model).
2. Always: the race-detector harness runs N parallel checks / Example calls sharing FRESHLY built generators of every
   constructor (first use is concurrent), each with its own seed, and compares each check's draws and recording with the
   same check run alone.  A detector report or a value mismatch is a concrete failing input."""
import sys
sys.path.insert(0, '/verif/lib')
import vlib, locklib

ASSUMPTIONS = [
    'Go memory model only as far as the happens-before edges of Model/Lockset.v (mutex, Once, observed atomics, program order)',
    'sync.Once and sync.Map behave as documented (sync.Map operations are taken as atomic accesses of the package variable)',
    'the translator /verif/extract/locksets.go reports every access of the receiver fields / package variables made by String, value, Draw, Example (syntactic; conservative)',
    'objects reached through a generator field (sub-generators, regexp.Regexp, reflect.Type, user functions fn/keyFn) are other objects: sub-generators have their own rows, the rest is assumed goroutine-safe or pure',
    'C15_pure is a statement about the hand-written model (a gexp is a value); that the implementation has no other hidden state is what the table says',
]


def run(ctx):
    tok, rows, pairs, size = locklib.table_report(ctx, 'g_methods')
    if tok is False:
        ctx.broken('obligation', 'C15_table_ok: table_ok g_methods = false; rows ' + ', '.join(rows), pairs)
    elif tok is None:
        ctx.broken('obligation', 'C15_table_ok: the generated table could not be evaluated', size)
    proved = ctx.prove('C15')
    ctx.partial += [
        'tested, not proved: that the compiled code performs the accesses of Generated/Locksets.v (translator faithfulness); the race-detector harness is the cross-check',
        'trusted: semantics of sync.Once / sync.Map and the Go memory model edges used',
        'draws-equal-to-running-alone is proved only in the model (C15_pure, C15_shared: functionality of run_g); on the implementation it is tested by the harness (values, error kinds and recorded bit streams compared with a solo run)',
        'group labels are not part of "the values drawn": the harness reports label differences separately (they vanish when Generator.value takes its label through String())',
    ]
    ok, race, msg = locklib.build_raceharness()
    ctx.notes.append(msg)
    if not ok:
        ctx.broken('build', 'race harness does not build against /repo', msg)
        return ctx.finish(level='proof', assumptions=ASSUMPTIONS)
    if not race:
        ctx.partial.append('RACE DETECTOR NOT AVAILABLE: harness built without -race; stress + solo comparison only')
    thorough = ctx.tier == 'thorough'
    hard = (not proved) or thorough
    seed = ctx.seed
    jobs = [
        ('p8', ['g-share', '-parallel', 8, '-rounds', (40 if thorough else 12) if hard else 5, '-seed', seed]),
        ('p16v', ['g-share', '-parallel', 16, '-rounds', 8 if hard else 3, '-seed', seed + 1, '-verbose']),
        ('p2', ['g-share', '-parallel', 2, '-rounds', 20 if hard else 8, '-seed', seed + 2]),
        ('p32', ['g-share', '-parallel', 32, '-rounds', 6 if hard else 2, '-seed', seed + 3]),
    ]
    if hard:
        jobs += [(f'extra{i}', ['g-share', '-parallel', p, '-rounds', 10, '-seed', seed + 50 + i] + fl)
                 for i, (p, fl) in enumerate([(4, []), (8, ['-verbose']), (24, []), (64, [])])]
    runs = draws = examples = nontrivial = reports = label_diffs = 0
    gens = 0
    samples, per_job, seen = [], {}, set()
    for tag, args in jobs:
        summary, reps, shown, err = locklib.run_harness(args, ctx.work, tag)
        if summary is None:
            ctx.broken('machinery', f'race harness failed on {tag}', err)
            continue
        runs += summary.get('runs', 0)
        draws += summary.get('draws', 0)
        examples += summary.get('examples', 0)
        nontrivial += summary.get('runs', 0) - summary.get('panic_runs', 0)
        label_diffs += summary.get('label_diffs', 0)
        gens = max(gens, summary.get('generators_per_round', 0))
        reports += len(reps)
        per_job[tag] = {k: summary.get(k) for k in ('runs', 'draws', 'examples', 'invalid_runs', 'label_diffs', 'wall_s')}
        if not samples:
            samples.append({'cmd': shown, 'generators': summary.get('generator_names', [])[:40],
                            'label_diff_examples': summary.get('label_diff_examples', [])[:3]})
        bad = locklib.problems_of(summary, locklib.G_COUNTERS)
        for c, n in bad.items():
            ctx.fail_input(f'g-share {c}', f'{c} = {n} in workload {tag}: {summary.get("first_problem", "")}',
                           {'cmd': shown, 'summary': {k: v for k, v in summary.items() if k != 'generator_names'}})
        for sig, (what, text, n) in locklib.dedupe(reps).items():
            if sig not in seen:
                seen.add(sig)
                ctx.fail_input(sig, what, {'cmd': shown, 'report': text[:6000], 'count': n})
    if label_diffs:
        ctx.notes.append(f'{label_diffs} recorded group labels differ between the shared run and the solo run (values and bit streams equal): '
                         'Generator.value uses the lazily cached g.str as the label')
    return ctx.finish(
        level='proof', evaluations=runs + examples, distinct=nontrivial,
        rule='a case = one check (VerifRunSeed with its own seed, its own T and a seed-derived permutation of the generator set; some call '
             'String() or Example() first) run concurrently with parallel-1 others behind a start barrier on a FRESHLY built set of generators '
             'covering every constructor (Deferred incl. recursive, Custom, Filter, Map, OneOf, SliceOf*, MapOf*, StringMatching with cold regexps, '
             'Make, package-level ones); distinct by (round, goroutine) seed; non-trivial = ran to the end without a harness-visible panic; each '
             'is compared with the same check run alone on another fresh set',
        samples=samples or ['(none)'],
        extra={'race_detector_active': race, 'race_reports': reports, 'draws_compared': draws, 'examples_compared': examples,
               'generators_per_round': gens, 'label_diffs': label_diffs, 'jobs': per_job,
               'table': {'ok': tok, 'rows_failing': rows, 'size(rows,accesses)': size},
               'traces_validated_against_impl': runs},
        assumptions=ASSUMPTIONS)


def replay(ctx, path):
    return vlib.generic_replay(ctx, path)
