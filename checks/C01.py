import sys
sys.path.insert(0, '/verif/lib')
import corelib

SPEC = dict(
    prop='C01',
    corr=[('check-cases', 4, 16, ['-n', '40', '-na', '40', '-profile', 'pure'], ('_dc', '_acc')),
          ('check-cases', 2, 8, ['-n', '40', '-na', '0', '-profile', 'all'], ('_dc', '_acc')),
          ('check-cases', 2, 6, ['-n', '2', '-na', '0', '-nf', '40', '-profile', 'all'], ('_dcf',))],
    oracles=[('check-oracle',
              [['-n', '150', '-seed', '{seed}', '-profile', 'pure', '-shrinkus', us] for us in ('50', '100', '150', '200', '300', '500', '800')] +
              [['-n', '100', '-seed', '{seed}', '-profile', 'pure', '-shrinkms', ms] for ms in ('3', '100')] +
              [['-n', '100', '-seed', '{seed}', '-profile', p, '-shrinkms', ms] for p, ms in (('all', '2'), ('all', '30'), ('cleanups', '5'))],
              [['-n', '500', '-seed', '{seed}', '-profile', 'pure', '-shrinkms', '1000'] for _ in range(8)] +
              [['-n', '500', '-seed', '{seed}', '-profile', 'all', '-shrinkms', '1000'] for _ in range(8)])],
    oracle_props=['C01'],
    partial=['model sites are the innermost panic site; the code compares whole tracebacks, which also contain the frames of a panic that was in flight when a cleanup function panicked: accept-level correspondence therefore uses programs without panicking cleanups (the code then accepts a subset of what the model accepts)',
             'the concrete minimization passes are abstracted as "any candidate sequence": the theorem covers every pass strategy; which candidates the real passes try is exercised by the oracle (default shrinktime) only',
             'theorem hypotheses: no run of the program is flagged dirty (a rejected attempt registered a cleanup / created the context on the outer T, or a skipped action consumed bits) and the model\'s fuel suffices; the oracle runs all generated programs regardless',
             'logged draw lines: the final replay is the same model run as the reported one (tb_final = run on the reported buffer); the textual "[rapid] draw" lines themselves are not modelled'],
    assumptions=['doCheck is compared with minimization switched off (shrinktime = 0) and accept() on generated candidate sequences; cut points inside a pass are the states between two accept() calls'],
)

def run(ctx):
    return corelib.run_core(ctx, SPEC)
