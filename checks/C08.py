import sys
sys.path.insert(0, '/verif/lib')
import corelib

SPEC = dict(
    prop='C08',
    corr=[('runcases', 6, 16, ['-n', '150', '-profile', 'all'], ('',))],
    oracles=[('c08-oracle',
              [['-n', '40', '-seed', '{seed}', '-shrinkms', '100'] for _ in range(6)],
              [['-n', '300', '-seed', '{seed}', '-shrinkms', '1000'] for _ in range(16)])],
    oracle_props=['C08'],
    partial=['C08_discipline is proved for machines whose actions and invariant do not run a nested state machine (their traces carry no invariant/action events); nested machines are covered by the event-trace correspondence and by the Go grammar oracle (a stack of machines)',
             'StateMachineActions (reflection over methods) is not modelled; T.Repeat is driven with explicit action maps',
             'termination: on a buffer every try draws the action key, so executeAction cannot loop; on a PRNG the bound is validActionTries (read from the source); no termination theorem beyond the model fuel'],
    assumptions=['actions are named a000, a001, ... so that the sorted key order is the index order'],
)

def run(ctx):
    return corelib.run_core(ctx, SPEC)
