import sys
sys.path.insert(0, '/verif/lib')
import corelib

SPEC = dict(
    prop='C05',
    corr=[('check-cases', 6, 16, ['-n', '5', '-na', '80', '-profile', 'pure'], ('_dc', '_acc'))],
    oracles=[('check-oracle',
              [['-n', '120', '-seed', '{seed}', '-profile', 'pure', '-shrinkms', ms] for ms in ('2', '10', '50', '300')] +
              [['-n', '120', '-seed', '{seed}', '-profile', 'cleanups', '-shrinkms', ms] for ms in ('20', '100')],
              [['-n', '600', '-seed', '{seed}', '-profile', 'pure', '-shrinkms', '2000'] for _ in range(12)] +
              [['-n', '400', '-seed', '{seed}', '-profile', 'cleanups', '-shrinkms', '300'] for _ in range(4)])],
    oracle_props=['C05'],
    partial=['tracebacks are capped at 32 frames in the code; model sites are unbounded (harness programs stay below the cap)',
             'termination of the concrete passes between two accepts (each pass is a finite loop over the current data/groups) is not modelled; the theorem gives: only finitely many accepts',
             'deadline monotonicity: shrink_any with a clock that turns false is a prefix of the run with a later deadline by definition of shrink_any (no separate theorem)'],
    assumptions=['a failure site is the Go traceback, identified by the innermost harness trampoline; non-fatal-only failures count as one site in the oracle'],
)

def run(ctx):
    return corelib.run_core(ctx, SPEC)
