import sys
sys.path.insert(0, '/verif/lib')
import corelib

SPEC = dict(
    prop='C18',
    corr=[('reach-cases', 4, 16, ['-n', '500'], ('',)), ('draw-cases', 4, 16, ['-n', '400'], ('',))],
    oracles=[('c18-oracle',
              [['-seed', '{seed}', '-reach', '300', '-edges', '20', '-draws', '4000', '-procs', '4'] for _ in range(4)],
              [['-seed', '{seed}', '-reach', '3000', '-edges', '120', '-draws', '4000', '-procs', '8'] for _ in range(16)])],
    oracle_props=['C18'],
    partial=['reachability is proved for the integer generators (every range of every kind up to 64 bits, signed and unsigned) with explicit witness streams; floats, strings and collections are covered by the oracle only (sampled ranges, edge hits)',
             '"within a few thousand draws" is a probability statement: proved are the masses of selector words that force max (>= 1/50) and select the one-bit path to zero (>= 1/18) under a uniform 53-bit word; the equidistribution of the jsf64 PRNG itself is not modelled and is sampled by the oracle',
             'fresh seeds: the theorem covers the per-run schedule seed+i (pairwise distinct mod 2^64); that baseSeed() differs between Check calls and processes comes from hash/maphash seeding in the Go runtime and is observed by the oracle (12 calls in one process, several processes)'],
    assumptions=['geom oracle = table regenerated from the real genGeom by binary search over its 53-bit input (monotonicity sampled by the generator of the table)'],
)

def run(ctx):
    return corelib.run_core(ctx, SPEC)
