import sys
sys.path.insert(0, '/verif/lib')
import corelib

SPEC = dict(
    prop='C10',
    corr=[('runcases', 3, 8, ['-n', '150', '-profile', 'all'], ('',)),
          ('runcases', 5, 12, ['-n', '150', '-profile', 'cleanups'], ('',))],
    oracles=[('c10-oracle',
              [['-n', '60', '-seed', '{seed}', '-shrinkms', '150'] for _ in range(6)],
              [['-n', '300', '-seed', '{seed}', '-shrinkms', '1000'] for _ in range(16)])],
    oracle_props=['C10'],
    partial=['the moment of cancellation is not directly observable to the harness: it samples ctx.Err() at every Context() call (body: must be live and the same object; cleanup: must be dead); the model-only events UCtxCancel / UCleanupBegin / UFrame* are not compared',
             'Example(): uses the same T.cleanup (deferred in example()); not driven by the harness',
             'the parent testing.T context (Go 1.24 TB.Context) is taken as never cancelled'],
    assumptions=['cleanup functions are identified by harness-chosen ids logged at registration and at start'],
)

def run(ctx):
    return corelib.run_core(ctx, SPEC)
