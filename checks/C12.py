import sys
sys.path.insert(0, '/verif/lib')
import corelib

SPEC = dict(
    prop='C12',
    corr=[('min-cases', 4, 16, ['-n', '500'], ('',))],
    oracles=[('c12-oracle',
              [['-n', '40', '-seed', '{seed}', '-lens', '6'] for _ in range(8)],
              [['-n', '200', '-seed', '{seed}', '-lens', '33'] for _ in range(16)])],
    oracle_props=['C12'],
    partial=['the theorems are about minimize() (one block, every 64-bit start value, every threshold; soundness for every pure condition), tied to shrink.go by the min-cases correspondence incl. non-monotone conditions; how Check composes block minimization, group removal and the value encodings of Int*/Uint*/collections into the reported counterexample is decided on the implementation by the c12-oracle (all kinds, thresholds of every magnitude and both signs, collection lengths), not by a theorem',
             '"given enough time": the oracle runs with the default shrink budget and never hit the deadline in any run'],
    assumptions=['conditions passed to minimize are pure functions of the candidate word'],
)

def run(ctx):
    return corelib.run_core(ctx, SPEC)
