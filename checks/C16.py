"""C16 - saving a fail file is atomic with respect to process crashes.
Proof: Properties/C16.v (temp names never match the discovery pattern; every prefix of the operation list leaves only old
or complete files under matching names).  Correspondence: strace of a real saveFailFile vs the model's operation list
(persist-crash part a) and names/glob cases.  Direct oracle: SIGKILL at every file-system call, then glob + load."""
import sys
sys.path.insert(0, '/verif/lib')
import vlib
import persistlib as pl

EVIDENCE_DEFAULTS = dict(level='proof', rule='not run: preparation failed')


def run(ctx):
    ctx.prove('C16')
    ok, log = ctx.make(['Model/PersistCorr.vo', 'Generated/UnicodeLD.vo'])
    if not ok:
        ctx.broken('obligation', 'Model/PersistCorr.v does not build', log[-3000:])
    thorough = ctx.tier == 'thorough'
    s = ctx.seed
    # names / glob / CreateTemp names vs the model
    shards = [{'name': f'c16_names{i}', 'n': 150 if thorough else 80, 'seed': s * 1000 + 500 + i, 'classes': 'names'} for i in range(12 if thorough else 1)]
    stats, results = pl.run_case_shards(ctx, shards)
    pl.report_shards(ctx, stats, results, 'names / temp names')

    # strace: operation list, and SIGKILL before every file-system call (all kill points in both tiers; thorough: more seeds)
    kills = 0
    crash_stats = []
    import os
    for r in range(6 if thorough else 1):
        cname = f'c16_crash{r}'
        vfile = f'cases_persist_{ctx.id}_crash{r}.v'
        args = ['persist-crash', '-seed', s + 7919 * r, '-out', f'{vlib.COQ}/{vfile}', '-name', cname, '-maxk', 0, '-j', 12, '-words', 5 + 4 * r]
        rc, out, err = ctx.harness(*args, timeout=1500)
        cr = pl.parse_json_line(out) if rc == 0 else None
        cmd = pl.BUILD_CMD + '/verif/build/harness ' + ' '.join(str(a) for a in args)
        if cr is None:
            ctx.broken('machinery', 'persist-crash did not produce a result', (out + err)[-3000:])
            continue
        for v in cr.get('violations') or []:
            what = str(v.get('what', v))[:80] if isinstance(v, dict) else str(v)[:80]
            ctx.fail_input('crash leaves a bad fail file: ' + what,
                           'after SIGKILL during saveFailFile the discovery glob finds a file that is not the complete fail file',
                           {'cmd': (v.get('replay') if isinstance(v, dict) and v.get('replay') else cmd), 'violation': v})
        if str(cr.get('cross_device_tmp', '')).startswith('unavailable'):
            ctx.notes.append('cross-device crash phase not run: ' + str(cr.get('cross_device_tmp')))
        for t in cr.get('trace_failures') or []:
            ctx.broken('correspondence', 'system calls of saveFailFile are not the expected protocol: ' + str(t)[:200], str(t))
        for t in cr.get('kill_inconsistent') or []:
            ctx.notes.append('kill point could not be reproduced deterministically: ' + str(t)[:200])
        for name, sz in (cr.get('sizes') or {}).items():
            kills += int(sz.get('kills_run', 0)) if isinstance(sz, dict) else 0
        okc, txt = ctx.coq_cases(vfile, cname, timeout=900)
        if okc is None:
            ctx.broken('correspondence', 'crash case file could not be evaluated', txt)
        elif not okc:
            ctx.broken('correspondence', f'strace operation list differs from save_ops on cases {txt[:200]}', f'ids {txt}; regenerate with: {cmd}')
        else:
            try:
                os.remove(f'{vlib.COQ}/{vfile}')
            except OSError:
                pass
        crash_stats.append({k: cr.get(k) for k in ('sizes', 'inject_semantics', 'boundary_crash_point', 'cases', 'cross_device_tmp', 'cross_device_kills')})
    stats['crash'] = crash_stats

    ctx.partial.append('rename(2) atomicity and O_EXCL creation are single steps of the model: trusted to the kernel, exercised (not proved) by killing the real process at every system call')
    ctx.partial.append('crash = SIGKILL of the process (effects of the completed system calls survive); durability across power loss is not modelled and not claimed by the property')
    ctx.partial.append('the operation list of the model is tied to the real one by strace of one save per size class (testing)')
    return ctx.finish(
        level='proof',
        evaluations=stats.get('cases', 0) + kills,
        distinct=stats.get('distinct_nontrivial', 0) + kills,     # every kill point of every size class is a different crash state
        rule='theorems of Properties/C16.v re-checked (Closed under the global context); strace operation list = save_ops of the model; '
             'after SIGKILL at each file-system call every path matching the discovery glob loads and equals the uninterrupted result, '
             'everything else in the directory is a .rapid-failfile-tmp-* name',
        samples=[str(crash_stats[0].get('sizes'))[:600] if crash_stats else '(no crash run)'] + (stats.get('samples') or [])[:3],
        extra={'input_distribution': pl.distribution(stats), 'crash': stats.get('crash')},
        assumptions=pl.ASSUMPTIONS)
