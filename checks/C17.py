"""C17 - unusable fail files are ignored and never change the verdict.
Proof: Properties/C17.v (totality and error classes of the loader, shape of accepted files, comment lines invisible).
Correspondence: persist-cases on the malformed stream (real loadFailFile result or error class vs the model).
Direct oracle: persist-tworun part c17 (0..5 unusable files next to passing and failing properties vs an empty directory)."""
import sys
sys.path.insert(0, '/verif/lib')
import vlib
import persistlib as pl
import corelib

EVIDENCE_DEFAULTS = dict(level='proof', rule='not run: preparation failed')


def run(ctx):
    ctx.prove('C17')
    ok, log = ctx.make(['Model/PersistCorr.vo', 'Generated/UnicodeLD.vo'])
    if not ok:
        ctx.broken('obligation', 'Model/PersistCorr.v does not build', log[-3000:])
    thorough = ctx.tier == 'thorough'
    s = ctx.seed
    shards = []
    for i in range(192 if thorough else 16):
        shards.append({'name': f'c17_load{i}', 'n': 500 if thorough else 300, 'seed': s * 1000 + 600 + i, 'classes': 'load,lib'})
    shards.append({'name': 'c17_long', 'n': 0, 'seed': s * 1000 + 999, 'classes': 'long', 'long': 2})
    stats, results = pl.run_case_shards(ctx, shards)
    pl.report_shards(ctx, stats, results, 'loader')

    # engine part of the model (check_files / doCheck of Model/Shrink.v) vs the real doCheck run in directories
    # holding unparsable files, other versions and recordings of passing / invalid / failing runs
    etotal, ebroken = corelib.correspondence(ctx, 'check-cases', 8 if thorough else 3,
                                             ['-n', '2', '-na', '0', '-nf', '120' if thorough else '60', '-profile', 'all'], ('_dcf',))
    for what, detail in ebroken:
        ctx.broken('correspondence', what, detail)
    stats['engine_dcf'] = etotal.get('stats', etotal)
    n = 2000 if thorough else 100
    rc, out, err = ctx.harness('persist-tworun', '-seed', s, '-n', n, '-part', 'c17', timeout=1500 if thorough else 400)
    tw = pl.parse_json_line(out) if rc == 0 else None
    scen = 0
    tw_distinct = 0
    if tw is None:
        ctx.broken('machinery', 'persist-tworun did not produce a result', (out + err)[-3000:])
    else:
        c17 = tw.get('c17') or {}
        scen = c17.get('scenarios', 0)
        tw_distinct = c17.get('distinct', 0)
        cmd = pl.BUILD_CMD + f'/verif/build/harness persist-tworun -seed {s} -n {n} -part c17'
        for f in (c17.get('failures') or []):
            ctx.fail_input('unusable fail file changes the run: ' + str(f.get('what', ''))[:80],
                           'an unusable fail file changed verdict, log or test cases: ' + str(f.get('what', '')), {'cmd': pl.BUILD_CMD + f['replay'] if f.get('replay') else cmd, 'scenario': f})
        for p in tw.get('escaped_panics') or []:
            ctx.fail_input('panic escapes Check ' + str(p)[:60], 'a panic escaped Check', {'cmd': cmd, 'panic': p})
        stats['tworun'] = {k: c17.get(k) for k in ('scenarios', 'ok', 'distinct', 'classes', 'stats', 'files_by_kind')}

    ctx.partial.append('that checkFailFile/doCheck ignore an unusable file and continue with the same seeds is tested end to end by persist-tworun, '
                       'and proved in the engine model (C17_unusable_files_change_nothing, no hypothesis on the property), which is tied to the real doCheck by the fail-file correspondence (check-cases -nf); unreadable files (open/read errors) are outside the byte-level model')
    ctx.partial.append('Go library functions (bufio.Scanner, strings.TrimSpace, strconv.ParseUint) are re-modelled and tied to the real ones by differential testing only')
    return ctx.finish(
        level='proof',
        evaluations=stats.get('cases', 0) + scen,
        distinct=stats.get('distinct_nontrivial', 0) + tw_distinct,
        rule='theorems of Properties/C17.v re-checked (Closed under the global context); model = implementation (result or error class) on every '
             'generated file content; with 0..5 unusable files in the directory verdict, messages and invocation log equal those of the run in an '
             'empty directory, one ignoring/no-longer-valid line per file, no panic',
        samples=stats.get('samples') or None,
        extra={'input_distribution': pl.distribution(stats), 'tworun': stats.get('tworun')},
        assumptions=pl.ASSUMPTIONS)
