package main

// Value-level correspondence cases (evaluated in Coq by Model/CorrValues.v):
//   min-cases:   minimize(u, cond) of shrink.go for a menu of monotone and non-monotone conditions
//   reach-cases: witness streams for "value v is produced by IntRange/UintRange(mn,mx)", derived here from the
//                real genGeom (binary search over its 53-bit input) and replayed on the real generators

import (
	"encoding/json"
	"flag"
	"fmt"
	"math"
	"math/bits"
	"os"
	"strings"

	"pgregory.net/rapid"
)

func init() {
	register("min-cases", cmdMinCases)
	register("reach-cases", cmdReachCases)
	register("draw-cases", cmdDrawCases)
}

type mcond interface {
	eval(x uint64) bool
	coq() string
}
type mGe struct{ t uint64 }
type mMod struct{ m, r, t uint64 }
type mBits struct{ msk uint64 }
type mOr struct{ a, b mcond }
type mAnd struct{ a, b mcond }

func (c mGe) eval(x uint64) bool   { return x >= c.t }
func (c mMod) eval(x uint64) bool  { return x%c.m == c.r && x >= c.t }
func (c mBits) eval(x uint64) bool { return x&c.msk == c.msk }
func (c mOr) eval(x uint64) bool   { return c.a.eval(x) || c.b.eval(x) }
func (c mAnd) eval(x uint64) bool  { return c.a.eval(x) && c.b.eval(x) }
func (c mGe) coq() string          { return fmt.Sprintf("(MGe %d)", c.t) }
func (c mMod) coq() string         { return fmt.Sprintf("(MMod %d %d %d)", c.m, c.r, c.t) }
func (c mBits) coq() string        { return fmt.Sprintf("(MBits %d)", c.msk) }
func (c mOr) coq() string          { return fmt.Sprintf("(MOr %s %s)", c.a.coq(), c.b.coq()) }
func (c mAnd) coq() string         { return fmt.Sprintf("(MAnd %s %s)", c.a.coq(), c.b.coq()) }

// interesting 64-bit words: every magnitude, powers of two +-1, type extremes
func word(r *Rng) uint64 {
	switch r.intn(7) {
	case 0:
		return uint64(r.intn(12))
	case 1:
		return uint64(1) << uint(r.intn(64))
	case 2:
		return uint64(1)<<uint(r.intn(64)) - 1
	case 3:
		return uint64(1)<<uint(r.intn(64)) + 1
	case 4:
		return math.MaxUint64 - uint64(r.intn(3))
	case 5:
		return r.next()
	}
	return r.next() >> uint(r.intn(64))
}

func genCond(r *Rng, u uint64, depth int) mcond {
	switch k := r.intn(10); {
	case k < 4 || depth > 1:
		t := word(r)
		if u > 0 && u < math.MaxUint64 {
			t %= u + 1
		}
		return mGe{t}
	case k < 6:
		m := uint64(2 + r.intn(17))
		return mMod{m, u % m, word(r) % (u/2 + 1)}
	case k < 7:
		return mBits{u & r.next() & r.next()}
	case k < 9:
		return mOr{genCond(r, u, depth+1), genCond(r, u, depth+1)}
	}
	return mAnd{genCond(r, u, depth+1), genCond(r, u, depth+1)}
}

func cmdMinCases(args []string) {
	fs := flag.NewFlagSet("min-cases", flag.ExitOnError)
	n := fs.Int("n", 400, "cases")
	seed := fs.Uint64("seed", 1, "generator seed")
	out := fs.String("out", "", "output .v file")
	name := fs.String("name", "mc", "name prefix")
	_ = fs.Parse(args)
	r := &Rng{s: *seed*7919 + 11}
	var b strings.Builder
	b.WriteString("From Coq Require Import List NArith ZArith.\nImport ListNotations.\n")
	b.WriteString("Require Import Rapid.Model.Base Rapid.Model.Minimize Rapid.Model.CorrValues.\nLocal Open Scope N_scope.\n")
	fmt.Fprintf(&b, "Definition %s : list min_case := [\n", *name)
	stats := map[string]int{}
	for i := 0; i < *n; i++ {
		u := word(r)
		c := genCond(r, u, 0)
		evals := 0
		got := rapid.VerifMinimize(u, func(x uint64) bool { evals++; return c.eval(x) })
		stats["cases"]++
		stats["cond_evaluations"] += evals
		switch c.(type) {
		case mGe:
			stats["monotone"]++
		default:
			stats["non_monotone"]++
		}
		if !c.eval(u) {
			stats["start_not_satisfying"]++
		}
		if got != u {
			stats["improved"]++
		}
		stats[fmt.Sprintf("u_bits_%02d", (bits.Len64(u)+15)/16*16)]++
		sep := ";"
		if i == *n-1 {
			sep = ""
		}
		fmt.Fprintf(&b, "  mkMin %d %s %d %d%s\n", i, c.coq(), u, got, sep)
	}
	b.WriteString("].\n")
	fmt.Fprintf(&b, "Definition %s_M := Eval vm_compute in min_mismatches %s.\nPrint %s_M.\n", *name, *name, *name)
	if err := os.WriteFile(*out, []byte(b.String()), 0o644); err != nil {
		die("write: %v", err)
	}
	js, _ := json.Marshal(map[string]any{"cases": *n, "stats": stats})
	fmt.Println(string(js))
}

// witness stream for genUintRange(mn, mx) returning u, from the real genGeom
func urangeWit(mn, mx, u uint64) ([]uint64, bool) {
	span, off := mx-mn, u-mn
	n := uint64(bits.Len64(off))
	if n == 0 {
		n = 1
	}
	var k uint64
	if bits.Len64(span) > 0 {
		var ok bool
		k, ok = leastK(bits.Len64(span), n)
		if !ok {
			return nil, false
		}
		if n == 1 {
			k = 0
		}
	}
	return []uint64{k, off}, true
}

func cmdReachCases(args []string) {
	fs := flag.NewFlagSet("reach-cases", flag.ExitOnError)
	n := fs.Int("n", 400, "cases")
	seed := fs.Uint64("seed", 1, "generator seed")
	out := fs.String("out", "", "output .v file")
	name := fs.String("name", "rc", "name prefix")
	_ = fs.Parse(args)
	r := &Rng{s: *seed*104729 + 5}
	var b strings.Builder
	b.WriteString("From Coq Require Import List NArith ZArith.\nImport ListNotations.\n")
	b.WriteString("Require Import Rapid.Model.Base Rapid.Model.Witness Rapid.Model.CorrValues.\nLocal Open Scope N_scope.\n")
	fmt.Fprintf(&b, "Definition %s : list reach_case := [\n", *name)
	stats := map[string]int{}
	coqList := func(ws []uint64) string {
		s := make([]string, len(ws))
		for i, w := range ws {
			s[i] = fmt.Sprint(w)
		}
		return "[" + strings.Join(s, "; ") + "]"
	}
	for i := 0; i < *n; i++ {
		sep := ";"
		if i == *n-1 {
			sep = ""
		}
		if r.chance(50) {
			// signed
			a, c := int64(word(r)), int64(word(r))
			if r.chance(25) {
				a = math.MinInt64 + int64(r.intn(3))
			}
			if r.chance(25) {
				c = math.MaxInt64 - int64(r.intn(3))
			}
			if a > c {
				a, c = c, a
			}
			// value: edges, zero, the former dead band, random
			var v int64
			switch r.intn(6) {
			case 0:
				v = a
			case 1:
				v = c
			case 2:
				v = 0
			case 3:
				v = c - int64(uint64(c-a)/3)
			default:
				span := uint64(c - a)
				if span == math.MaxUint64 {
					v = int64(r.next())
				} else {
					v = a + int64(r.next()%(span+1))
				}
			}
			if v < a || v > c {
				v = a
			}
			var stream []uint64
			var ok bool
			switch {
			case a >= 0:
				stream, ok = urangeWit(uint64(a), uint64(c), uint64(v))
				stream = append([]uint64{0}, stream...)
			case c <= 0:
				stream, ok = urangeWit(uint64(-c), uint64(-a), uint64(-v))
				stream = append([]uint64{0}, stream...)
			case v >= 0:
				stream, ok = urangeWit(0, uint64(c), uint64(v))
				stream = append([]uint64{0}, stream...)
			default:
				stream, ok = urangeWit(1, uint64(-a), uint64(-v))
				stream = append([]uint64{1 << 52}, stream...)
			}
			stats["signed"]++
			var got int64
			kind := "no-witness"
			if ok {
				g := rapid.Int64Range(a, c)
				e, _ := rapid.VerifRunBuf(nil, stream, false, func(t *rapid.T) { got = g.Draw(t, "v") })
				kind = e.Kind
			}
			if kind != "" {
				stats["outcome_"+kind]++
				got = v + 1 // force a mismatch: the witness stream must produce a value
				if v == math.MaxInt64 {
					got = v - 1
				}
			}
			fmt.Fprintf(&b, "  mkReach %d true (%d) (%d) (%d) %s (%d)%s\n", i, a, c, v, coqList(stream), got, sep)
		} else {
			a, c := word(r), word(r)
			if r.chance(25) {
				a = uint64(r.intn(3))
			}
			if r.chance(25) {
				c = math.MaxUint64 - uint64(r.intn(3))
			}
			if a > c {
				a, c = c, a
			}
			var v uint64
			span := c - a
			switch r.intn(6) {
			case 0:
				v = a
			case 1:
				v = c
			case 2:
				v = c - span/3
			case 3:
				v = a + span/2 + 1
				if v > c || v < a {
					v = c
				}
			default:
				if span == math.MaxUint64 {
					v = r.next()
				} else {
					v = a + r.next()%(span+1)
				}
			}
			stream, ok := urangeWit(a, c, v)
			stats["unsigned"]++
			var got uint64
			kind := "no-witness"
			if ok {
				g := rapid.Uint64Range(a, c)
				e, _ := rapid.VerifRunBuf(nil, stream, false, func(t *rapid.T) { got = g.Draw(t, "v") })
				kind = e.Kind
			}
			if kind != "" {
				stats["outcome_"+kind]++
				got = v ^ 1
			}
			fmt.Fprintf(&b, "  mkReach %d false (%d) (%d) (%d) %s (%d)%s\n", i, a, c, v, coqList(stream), got, sep)
		}
		stats["cases"]++
	}
	b.WriteString("].\n")
	fmt.Fprintf(&b, "Definition %s_M := Eval vm_compute in reach_mismatches %s.\nPrint %s_M.\n", *name, *name, *name)
	if err := os.WriteFile(*out, []byte(b.String()), 0o644); err != nil {
		die("write: %v", err)
	}
	js, _ := json.Marshal(map[string]any{"cases": *n, "stats": stats})
	fmt.Println(string(js))
}

// selector words from all over the 53-bit range: uniform, the top few percent (where the biased draw overflows to the
// maximum of the range), and the words at which genGeom()+1 steps past the bit length of the range
func selectorWord(r *Rng, bitlen int) uint64 {
	const top = uint64(1) << 53
	switch r.intn(5) {
	case 0:
		return r.next() >> 11
	case 1:
		return top - 1 - (r.next()>>11)%(top>>5)
	case 2:
		return top - 1 - uint64(r.intn(1000))
	case 3:
		n := uint64(bitlen + r.intn(4))
		if n == 0 {
			n = 1
		}
		if k, ok := leastK(bitlen, n); ok {
			d := uint64(r.intn(3))
			if r.chance(50) && k >= d {
				return k - d
			}
			if k+d < top {
				return k + d
			}
			return k
		}
		return top - 1
	}
	thr := uint64(64 - (16-int(math.Max(8, float64((bitlen+48)/7))))*4)
	if k, ok := leastK(bitlen, thr+uint64(r.intn(3))); ok {
		return k
	}
	return top - 1
}

func cmdDrawCases(args []string) {
	fs := flag.NewFlagSet("draw-cases", flag.ExitOnError)
	n := fs.Int("n", 400, "cases")
	seed := fs.Uint64("seed", 1, "generator seed")
	out := fs.String("out", "", "output .v file")
	name := fs.String("name", "dr", "name prefix")
	_ = fs.Parse(args)
	r := &Rng{s: *seed*15485863 + 3}
	var b strings.Builder
	b.WriteString("From Coq Require Import List NArith ZArith.\nImport ListNotations.\n")
	b.WriteString("Require Import Rapid.Model.Base Rapid.Model.CorrValues.\nLocal Open Scope N_scope.\n")
	fmt.Fprintf(&b, "Definition %s : list draw_case := [\n", *name)
	stats := map[string]int{}
	coqList := func(ws []uint64) string {
		s := make([]string, len(ws))
		for i, w := range ws {
			s[i] = fmt.Sprint(w)
		}
		return "[" + strings.Join(s, "; ") + "]"
	}
	for i := 0; i < *n; i++ {
		sep := ";"
		if i == *n-1 {
			sep = ""
		}
		x := word(r)
		if r.chance(30) {
			x = r.next()
		}
		short := r.chance(4) // a stream that ends early: the draw runs out of data
		if r.chance(50) {
			a, c := int64(word(r)), int64(word(r))
			switch r.intn(6) {
			case 0:
				a = math.MinInt64 + int64(r.intn(2))
			case 1:
				c = math.MaxInt64 - int64(r.intn(2))
			case 2:
				a, c = math.MinInt64, int64(r.intn(2))-1
			case 3:
				a, c = math.MinInt64+int64(r.intn(2)), math.MaxInt64-int64(r.intn(2))
			}
			if a > c {
				a, c = c, a
			}
			var side uint64 // width of the side that the sign word selects
			sign := r.next() >> 11
			neg := a < 0 && (c <= 0 || sign >= 1<<52)
			switch {
			case a >= 0:
				side = uint64(c) - uint64(a)
			case c <= 0:
				side = uint64(-a) - uint64(-c)
			case neg:
				side = uint64(-a) - 1
			default:
				side = uint64(c)
			}
			stream := []uint64{sign, selectorWord(r, bits.Len64(side)), x}
			if short {
				stream = stream[:1+r.intn(2)]
			}
			var got int64
			g := rapid.Int64Range(a, c)
			e, _ := rapid.VerifRunBuf(nil, stream, false, func(t *rapid.T) { got = g.Draw(t, "v") })
			res := fmt.Sprintf("(Some (%d)%%Z)", got)
			if e.Kind != "" {
				res = "None"
				stats["outcome_"+e.Kind]++
			} else {
				if got == a {
					stats["returned_min"]++
				}
				if got == c {
					stats["returned_max"]++
				}
			}
			stats["signed"]++
			if bits.Len64(side) == 64 {
				stats["side_of_64_bits"]++
			}
			fmt.Fprintf(&b, "  mkDraw %d true (%d) (%d) %s %s%s\n", i, a, c, coqList(stream), res, sep)
		} else {
			a, c := word(r), word(r)
			switch r.intn(6) {
			case 0:
				a = uint64(r.intn(2))
			case 1:
				c = math.MaxUint64 - uint64(r.intn(2))
			case 2:
				a, c = uint64(r.intn(2)), math.MaxUint64-uint64(r.intn(2))
			case 3:
				a, c = r.next()>>1, math.MaxUint64
			}
			if a > c {
				a, c = c, a
			}
			stream := []uint64{selectorWord(r, bits.Len64(c-a)), x}
			if short {
				stream = stream[:r.intn(2)]
			}
			var got uint64
			g := rapid.Uint64Range(a, c)
			e, _ := rapid.VerifRunBuf(nil, stream, false, func(t *rapid.T) { got = g.Draw(t, "v") })
			res := fmt.Sprintf("(Some (%d)%%Z)", got)
			if e.Kind != "" {
				res = "None"
				stats["outcome_"+e.Kind]++
			} else {
				if got == a {
					stats["returned_min"]++
				}
				if got == c {
					stats["returned_max"]++
				}
			}
			stats["unsigned"]++
			if bits.Len64(c-a) == 64 {
				stats["side_of_64_bits"]++
			}
			fmt.Fprintf(&b, "  mkDraw %d false (%d) (%d) %s %s%s\n", i, a, c, coqList(stream), res, sep)
		}
		stats["cases"]++
	}
	b.WriteString("].\n")
	fmt.Fprintf(&b, "Definition %s_M := Eval vm_compute in draw_mismatches %s.\nPrint %s_M.\n", *name, *name, *name)
	if err := os.WriteFile(*out, []byte(b.String()), 0o644); err != nil {
		die("write: %v", err)
	}
	js, _ := json.Marshal(map[string]any{"cases": *n, "stats": stats})
	fmt.Println(string(js))
}
