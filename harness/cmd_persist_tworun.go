package main

// persist-tworun: oracles through the real engine (checkTB) for
//   C06  a failure found in run 1 is written to a fail file, and run 2 (another seed, or an explicit
//        -rapid.failfile) replays exactly the minimized case "after 0 tests";
//   C17  fail files that are unusable (unloadable, other version, no longer valid, now passing) are
//        skipped without changing the verdict, the messages or the sequence of generated test cases.
//
// The properties are hand-written closures that append one entry per invocation (drawn values and how
// the invocation ended) to an invocation log; the TB is a recording one.

import (
	"bytes"
	"encoding/json"
	"flag"
	"fmt"
	"os"
	"path/filepath"
	"regexp"
	"sort"
	"strconv"
	"strings"
	"time"

	"pgregory.net/rapid"
)

func init() {
	register("persist-tworun", cmdTworun)
}

// ------------------------------------------------------------------------------------------------
// recording TB

type tworunMsg struct {
	Kind string
	Text string
}

type tworunStop struct{} // what FailNow/SkipNow unwind with (testing.T would stop the goroutine)

type tworunTB struct {
	name   string
	msgs   []tworunMsg
	failed bool
}

func (tb *tworunTB) rec(kind, text string)   { tb.msgs = append(tb.msgs, tworunMsg{kind, text}) }
func (tb *tworunTB) Helper()                 {}
func (tb *tworunTB) Name() string            { return tb.name }
func (tb *tworunTB) Logf(f string, a ...any) { tb.rec("logf", fmt.Sprintf(f, a...)) }
func (tb *tworunTB) Log(a ...any)            { tb.rec("log", strings.TrimSuffix(fmt.Sprintln(a...), "\n")) }
func (tb *tworunTB) Skipf(f string, a ...any) {
	tb.rec("skipf", fmt.Sprintf(f, a...))
	panic(tworunStop{})
}
func (tb *tworunTB) Skip(a ...any) { tb.rec("skip", fmt.Sprint(a...)); panic(tworunStop{}) }
func (tb *tworunTB) SkipNow()      { tb.rec("skipnow", ""); panic(tworunStop{}) }
func (tb *tworunTB) Errorf(f string, a ...any) {
	tb.rec("errorf", fmt.Sprintf(f, a...))
	tb.failed = true
}
func (tb *tworunTB) Error(a ...any) { tb.rec("error", fmt.Sprint(a...)); tb.failed = true }
func (tb *tworunTB) Fatalf(f string, a ...any) {
	tb.rec("fatalf", fmt.Sprintf(f, a...))
	tb.failed = true
	panic(tworunStop{})
}
func (tb *tworunTB) Fatal(a ...any) {
	tb.rec("fatal", fmt.Sprint(a...))
	tb.failed = true
	panic(tworunStop{})
}
func (tb *tworunTB) FailNow()     { tb.failed = true; panic(tworunStop{}) }
func (tb *tworunTB) Fail()        { tb.failed = true }
func (tb *tworunTB) Failed() bool { return tb.failed }
func (tb *tworunTB) kind(kinds ...string) []string {
	var out []string
	for _, m := range tb.msgs {
		for _, k := range kinds {
			if m.Kind == k {
				out = append(out, m.Text)
			}
		}
	}
	return out
}

// tworunCheck is rapid.Check on a recording TB: the stop sentinel is swallowed, any other panic escapes.
func tworunCheck(tb rapid.TB, prop func(*rapid.T)) (escaped any) {
	defer func() {
		if r := recover(); r != nil {
			if _, ok := r.(tworunStop); !ok {
				escaped = r
			}
		}
	}()
	rapid.VerifCheckTB(tb, prop)
	return nil
}

// ------------------------------------------------------------------------------------------------
// properties

type tworunProp struct {
	id    string
	fails bool
	mk    func(inv *[]string, lg func(*rapid.T)) func(*rapid.T)
}

// tworunBody: rec sets the rendering of the drawn values, end how the invocation is about to end.
func tworunBody(body func(t *rapid.T, rec func(string, ...any), end func(string), lg func(*rapid.T))) func(inv *[]string, lg func(*rapid.T)) func(*rapid.T) {
	return func(inv *[]string, lg func(*rapid.T)) func(*rapid.T) {
		return func(t *rapid.T) {
			entry, how := "", "unwound"
			defer func() { *inv = append(*inv, entry+" -> "+how) }()
			body(t, func(f string, a ...any) { entry = fmt.Sprintf(f, a...) }, func(s string) { how = s }, lg)
		}
	}
}

var tworunProps = map[string]tworunProp{
	"P1": {"P1", true, tworunBody(func(t *rapid.T, rec func(string, ...any), end func(string), lg func(*rapid.T)) {
		x := rapid.IntRange(0, 1000).Draw(t, "x")
		rec("x=%v", x)
		lg(t)
		if x > 500 {
			end("fatalf")
			t.Fatalf("x too big: %d", x)
		}
		end("ok")
	})},
	"P2": {"P2", true, tworunBody(func(t *rapid.T, rec func(string, ...any), end func(string), lg func(*rapid.T)) {
		s := rapid.SliceOfN(rapid.IntRange(0, 100), 0, 20).Draw(t, "s")
		rec("s=%v", s)
		lg(t)
		if len(s) >= 3 && s[0] > s[1] {
			end("errorf")
			t.Errorf("unsorted prefix of %d elements: %d > %d", len(s), s[0], s[1])
			return
		}
		end("ok")
	})},
	"P3": {"P3", true, tworunBody(func(t *rapid.T, rec func(string, ...any), end func(string), lg func(*rapid.T)) {
		x := rapid.Uint64().Draw(t, "x")
		rec("x=%v", x)
		lg(t)
		if x&3 == 3 {
			end("panic")
			panic("boom")
		}
		end("ok")
	})},
	"P4": {"P4", false, tworunBody(func(t *rapid.T, rec func(string, ...any), end func(string), lg func(*rapid.T)) {
		a := rapid.Int().Draw(t, "a")
		b := rapid.SliceOfN(rapid.Byte(), 0, 5).Draw(t, "b")
		c := rapid.Bool().Draw(t, "c")
		rec("a=%v b=%v c=%v", a, b, c)
		lg(t)
		if len(b) > 5 {
			end("fatalf")
			t.Fatalf("impossible")
		}
		end("ok")
	})},
	"P5": {"P5", true, tworunBody(func(t *rapid.T, rec func(string, ...any), end func(string), lg func(*rapid.T)) {
		x := rapid.IntRange(0, 99).Draw(t, "x")
		y := rapid.IntRange(0, 9).Draw(t, "y")
		rec("x=%v y=%v", x, y)
		lg(t)
		if x%25 == 12 {
			end("fatal")
			t.Fatal("narrow failure at ", x)
		}
		end("ok")
	})},
}

// ------------------------------------------------------------------------------------------------
// logging behaviours

var tworunLogKinds = []string{"none", "empty", "short", "hostile", "line70k"}

func tworunHostile(r *Rng, n int) string {
	var b []byte
	for len(b) < n {
		switch r.intn(10) {
		case 0:
			b = append(b, '\n')
		case 1:
			b = append(b, '\r')
		case 2:
			b = append(b, '#')
		case 3:
			b = append(b, 0)
		case 4:
			b = append(b, pick(r, "\xff", "\xc3", "\xe2\x82", "\xed\xa0\x80", "%d", "%!", "\r\n", "\n#", "\nv0.4.8#1\n0x1")...)
		case 5:
			b = append(b, byte(r.next()))
		default:
			b = append(b, byte('a'+r.intn(26)))
		}
	}
	return string(b)
}

// tworunLogger returns the logging behaviour and the text that has to show up in the fail file
// (empty: nothing to look for).
func tworunLogger(kind string, r *Rng) (func(*rapid.T), string) {
	switch kind {
	case "none":
		return func(*rapid.T) {}, ""
	case "empty":
		return func(t *rapid.T) { t.Logf(""); t.Log("") }, ""
	case "short":
		return func(t *rapid.T) { t.Logf("checking %s", "value"); t.Log("second", 2) }, "checking value"
	case "hostile":
		s1, s2 := tworunHostile(r, 1+r.intn(200)), tworunHostile(r, 1+r.intn(60))
		return func(t *rapid.T) { t.Log(s1); t.Logf("%s|%d", s2, 7) }, ""
	case "line70k":
		big := strings.Repeat(string(rune('a'+r.intn(26))), 70000)
		return func(t *rapid.T) { t.Logf("%s", big) }, big
	case "mib":
		big := strings.Repeat(string(rune('A'+r.intn(26))), 1<<20)
		return func(t *rapid.T) { t.Log(big) }, big
	}
	panic("unknown logging kind " + kind)
}

var tworunNames = []string{"TestPlain", "a/b", "CON", "com1", "Тест/юникод", "世界", "*?[", "", "Test/with space", "x#y", "a\\b", "..",
	"Test" + strings.Repeat("LongName", 12)}

// ------------------------------------------------------------------------------------------------
// report

type tworunFailure struct {
	Part     string `json:"part"`
	Scenario string `json:"scenario"`
	Replay   string `json:"replay"`
	What     string `json:"what"`
	Expected string `json:"expected"`
	Observed string `json:"observed"`
	Log      string `json:"log"` // logging kind of the scenario
}

type tworunPart struct {
	Scenarios   int             `json:"scenarios"`
	Distinct    int             `json:"distinct"` // distinct scenario identities (see tworunEnv.ident)
	OK          int             `json:"ok"`
	Failures    []tworunFailure `json:"failures"`
	Classes     map[string]int  `json:"classes"`
	Stats       map[string]int  `json:"stats"`
	FilesByKind map[string]int  `json:"files_by_kind,omitempty"`
	idents      map[string]bool
}

type tworunReport struct {
	C06     *tworunPart     `json:"c06,omitempty"`
	C17     *tworunPart     `json:"c17,omitempty"`
	Escaped []tworunFailure `json:"escaped_panics"`
	Runs    []tworunRunDump `json:"runs,omitempty"`
	Seconds float64         `json:"seconds"`
}

// tworunRunDump: what one run looked like (only with -dump)
type tworunRunDump struct {
	Scenario    string   `json:"scenario"`
	Run         string   `json:"run"`
	Failed      bool     `json:"failed"`
	Errors      []string `json:"errors"`
	Invocations int      `json:"invocations"`
	FirstInv    string   `json:"first_invocation"`
	LastInv     string   `json:"last_invocation"`
	Messages    []string `json:"messages"`
}

func tworunClip(s string) string {
	if len(s) > 300 {
		return fmt.Sprintf("%s...(%d bytes)", s[:300], len(s))
	}
	return s
}

type tworunEnv struct {
	base    string // scratch directory
	oldwd   string
	seed    uint64
	rep     *tworunReport
	part    *tworunPart
	partID  string
	scen    string
	logKind string // logging kind of the current scenario
	// ident: canonical identity of the current scenario: (property, logging kind, test name, variant), for
	// C17 also the class of the base seed (verdict of the reference run under it) and the sorted kinds/
	// classes of the files placed in the directory
	ident   string
	replay  string
	nfail   int
	counter int
	dump    bool
	sabot   bool // negative control: sabotage every scenario, all of them must then be reported
}

func (e *tworunEnv) fatal(format string, a ...any) {
	_ = os.Chdir(e.oldwd)
	_ = os.RemoveAll(e.base)
	die(format, a...)
}

func (e *tworunEnv) failf(what string, expected, observed any) {
	e.nfail++
	e.part.Failures = append(e.part.Failures, tworunFailure{e.partID, e.scen, e.replay, what, tworunClip(fmt.Sprint(expected)), tworunClip(fmt.Sprint(observed)), e.logKind})
}

func (e *tworunEnv) freshDir() string {
	e.counter++
	d := filepath.Join(e.base, fmt.Sprintf("d%d", e.counter))
	if err := os.Mkdir(d, 0775); err != nil {
		e.fatal("%v", err)
	}
	return d
}

func (e *tworunEnv) chdir(d string) {
	if err := os.Chdir(d); err != nil {
		e.fatal("%v", err)
	}
}

type tworunRunResult struct {
	tb      *tworunTB
	inv     []string
	escaped any
}

// run: one rapid.Check of prop p with logging lg under flags fl, in the current directory
func (e *tworunEnv) run(name string, fl rapid.VerifFlags, p tworunProp, lg func(*rapid.T), what string) tworunRunResult {
	rapid.VerifSetFlags(fl)
	res := tworunRunResult{tb: &tworunTB{name: name}}
	res.escaped = tworunCheck(res.tb, p.mk(&res.inv, lg))
	if res.escaped != nil {
		f := tworunFailure{e.partID, e.scen, e.replay, "panic escapes Check in " + what, "no panic", tworunClip(fmt.Sprint(res.escaped)), e.logKind}
		e.rep.Escaped = append(e.rep.Escaped, f)
		e.failf(f.What, f.Expected, f.Observed)
	}
	if e.dump {
		d := tworunRunDump{Scenario: e.scen, Run: what, Failed: res.tb.failed, Invocations: len(res.inv)}
		for _, m := range res.tb.kind("errorf", "error", "fatalf", "fatal") {
			d.Errors = append(d.Errors, tworunClip(m))
		}
		if len(res.inv) > 0 {
			d.FirstInv, d.LastInv = tworunClip(res.inv[0]), tworunClip(res.inv[len(res.inv)-1])
		}
		for _, m := range res.tb.msgs {
			if len(d.Messages) < 12 {
				t := m.Kind + ":" + m.Text
				if len(t) > 120 {
					t = fmt.Sprintf("%s...(%d bytes)", t[:120], len(t))
				}
				d.Messages = append(d.Messages, t)
			}
		}
		e.rep.Runs = append(e.rep.Runs, d)
	}
	return res
}

func tworunFlags(seed uint64) rapid.VerifFlags {
	return rapid.VerifFlags{Checks: 100, Steps: 30, ShrinkTime: 2 * time.Second, Seed: seed}
}

// tworunTree lists the directory tree below dir: regular files (with content), directories and the rest
func tworunTree(dir string) (map[string][]byte, []string, []string) {
	files := map[string][]byte{}
	var dirs, other []string
	_ = filepath.Walk(dir, func(p string, info os.FileInfo, err error) error {
		if err != nil {
			return nil
		}
		rel, _ := filepath.Rel(dir, p)
		switch {
		case rel == ".":
		case info.IsDir():
			dirs = append(dirs, rel)
		case info.Mode().IsRegular():
			b, _ := os.ReadFile(p)
			files[rel] = b
		default:
			other = append(other, rel)
		}
		return nil
	})
	sort.Strings(dirs)
	return files, dirs, other
}

var (
	tworunAfterRe    = regexp.MustCompile(`^\[rapid\] (failed|panic) after (\d+) tests: `)
	tworunFailfileRe = regexp.MustCompile(`-rapid\.failfile=("(?:[^"\\]|\\.)*")`)
	tworunSeedRe     = regexp.MustCompile(`-rapid\.seed=(\d+)`)
	tworunDurRe      = regexp.MustCompile(`\(\d+(\.\d+)?(ns|µs|ms|s|m|h)[0-9a-zµ.]*\)`)
)

type tworunVerdict struct {
	kind     string // failed | panic
	after    int
	msg      string // between "tests: " and "\nTo reproduce"
	failfile string
	hasFile  bool
	seed     uint64
	hasSeed  bool
	output   []tworunMsg // what the TB received after the Errorf: the output of the failing test
}

// verdict parses the single Errorf of a failed Check
func (e *tworunEnv) verdict(res tworunRunResult, what string) (tworunVerdict, bool) {
	var v tworunVerdict
	if !res.tb.failed {
		e.failf(what+": TB not failed", "failed", "not failed; messages: "+strings.Join(res.tb.kind("logf", "errorf"), " | "))
		return v, false
	}
	errs := res.tb.kind("errorf", "error", "fatalf", "fatal")
	if len(errs) != 1 {
		e.failf(what+": number of error messages", 1, fmt.Sprintf("%d: %q", len(errs), errs))
		return v, false
	}
	m := tworunAfterRe.FindStringSubmatch(errs[0])
	if m == nil {
		e.failf(what+": error message", "[rapid] failed after ... / [rapid] panic after ...", errs[0])
		return v, false
	}
	v.kind = m[1]
	v.after, _ = strconv.Atoi(m[2])
	body := errs[0][len(m[0]):]
	cut := strings.LastIndex(body, "\nTo reproduce")
	if cut < 0 {
		e.failf(what+": error message has no 'To reproduce' part", "To reproduce, specify ...", errs[0])
		return v, false
	}
	v.msg = body[:cut]
	if fm := tworunFailfileRe.FindStringSubmatch(body[cut:]); fm != nil {
		if s, err := strconv.Unquote(fm[1]); err == nil {
			v.failfile, v.hasFile = s, true
		}
	}
	if sm := tworunSeedRe.FindStringSubmatch(body[cut:]); sm != nil {
		v.seed, _ = strconv.ParseUint(sm[1], 10, 64)
		v.hasSeed = true
	}
	for i, msg := range res.tb.msgs {
		if msg.Kind == "errorf" {
			v.output = res.tb.msgs[i+1:]
			break
		}
	}
	return v, true
}

func tworunSameMsgs(a, b []tworunMsg) bool {
	if len(a) != len(b) {
		return false
	}
	for i := range a {
		if a[i] != b[i] {
			return false
		}
	}
	return true
}

func tworunMsgsString(ms []tworunMsg) string {
	var parts []string
	for _, m := range ms {
		parts = append(parts, m.Kind+":"+m.Text)
	}
	return strings.Join(parts, " | ")
}

// ------------------------------------------------------------------------------------------------
// C06

func (e *tworunEnv) failDir(name string) string {
	return filepath.Join("testdata", "rapid", rapid.VerifKindaSafeFilename(name))
}

// replayRun: a run that has to replay the fail file: failed "after 0 tests", same message, the
// minimized case first (and nothing but it), the fail file named, no file written
func (e *tworunEnv) replayRun(what string, name string, fl rapid.VerifFlags, p tworunProp, lg func(*rapid.T), v1 tworunVerdict, minimized string, wantFile string, treeDir string, treeBefore map[string][]byte) {
	res := e.run(name, fl, p, lg, what)
	v, ok := e.verdict(res, what)
	if !ok {
		return
	}
	if v.after != 0 {
		e.failf(what+": tests before the failure", "after 0 tests", fmt.Sprintf("after %d tests", v.after))
	}
	if v.kind != v1.kind || v.msg != v1.msg {
		e.failf(what+": failure message differs from run 1", v1.kind+": "+v1.msg, v.kind+": "+v.msg)
	}
	if len(res.inv) == 0 || res.inv[0] != minimized {
		first := "<no invocation>"
		if len(res.inv) > 0 {
			first = res.inv[0]
		}
		e.failf(what+": first invocation is not the minimized case of run 1", minimized, first)
	}
	// checkFailFile runs the case twice, checkTB once more for the output: no search may happen
	for _, inv := range res.inv {
		if inv != minimized {
			e.failf(what+": an invocation other than the minimized case", minimized, inv)
			break
		}
	}
	if len(res.inv) != 3 {
		e.failf(what+": number of invocations", 3, len(res.inv))
	}
	if !v.hasFile || v.failfile != wantFile {
		e.failf(what+": fail file named in the message", wantFile, v.failfile)
	}
	if !tworunSameMsgs(v.output, v1.output) {
		e.failf(what+": output of the failing test differs from run 1", tworunMsgsString(v1.output), tworunMsgsString(v.output))
	}
	files, _, _ := tworunTree(treeDir)
	if len(files) != len(treeBefore) {
		e.failf(what+": files after the run", len(treeBefore), len(files))
	}
	for n, b := range treeBefore {
		if !bytes.Equal(files[n], b) {
			e.failf(what+": file changed", n, "different content or missing")
		}
	}
}

func (e *tworunEnv) c06(i int) {
	r := &Rng{s: e.seed*1000003 + uint64(i)*7919 + 6}
	propIDs := []string{"P1", "P2", "P3", "P5"}
	p := tworunProps[propIDs[i%len(propIDs)]]
	name := tworunNames[i%len(tworunNames)]
	kind := tworunLogKinds[i%len(tworunLogKinds)]
	if i == 7 {
		kind = "mib"
	}
	nofile := i%6 == 5 && !e.sabot
	lg, needle := tworunLogger(kind, r)
	s1 := r.next() | 1
	s2 := s1 + 2 + uint64(r.intn(1000))
	e.logKind = kind
	e.ident = fmt.Sprintf("c06|%s|%s|%q|nofailfile=%v", p.id, kind, name, nofile)
	e.scen = fmt.Sprintf("c06 #%d: property %s, logging %s, name %q, nofailfile %v, seed1 %d, seed2 %d", i, p.id, kind, name, nofile, s1, s2)
	e.part.Classes["prop:"+p.id]++
	e.part.Classes["log:"+kind]++
	e.part.Classes[fmt.Sprintf("name:%.20q", name)]++
	if nofile {
		e.part.Classes["variant:nofailfile"]++
	} else {
		e.part.Classes["variant:failfile"]++
	}

	// run 1
	var res1 tworunRunResult
	var dirA string
	for try := 0; ; try++ {
		dirA = e.freshDir()
		e.chdir(dirA)
		fl := tworunFlags(s1)
		fl.NoFailFile = nofile
		if i%5 == 2 && !nofile {
			// -rapid.failfile names a stale file whose test case passes: the fresh failure found afterwards is persisted all the same
			stale := filepath.Join(e.base, fmt.Sprintf("stale-%d-%d.fail", i, try))
			if err := rapid.VerifSaveFailFile(stale, rapid.VerifRapidVersion(), []byte("stale\n"), 1, nil); err != nil {
				e.fatal("%v", err)
			}
			fl.FailFile = stale
			e.part.Classes["variant:explicit-stale-failfile"]++
		}
		res1 = e.run(name, fl, p, lg, "run 1")
		if res1.tb.failed || try == 5 {
			break
		}
		e.part.Stats["run1_found_nothing_reseeded"]++
		s1 = r.next() | 1
		s2 = s1 + 2 + uint64(r.intn(1000))
		e.scen += fmt.Sprintf(" | reseeded: seed1 %d, seed2 %d", s1, s2)
	}
	v1, ok := e.verdict(res1, "run 1")
	if !ok {
		return
	}
	e.part.Stats[fmt.Sprintf("run1_%s", v1.kind)]++
	switch {
	case v1.after == 0:
		e.part.Stats["run1_after_0_tests"]++
	case v1.after < 20:
		e.part.Stats["run1_after_1-19_tests"]++
	default:
		e.part.Stats["run1_after_20+_tests"]++
	}
	minimized := res1.inv[len(res1.inv)-1]
	if strings.HasSuffix(minimized, " -> ok") || strings.HasSuffix(minimized, " -> unwound") {
		e.failf("run 1: the last invocation (replay of the minimized case) did not fail", "a failing invocation", minimized)
	}
	files, dirs, other := tworunTree(dirA)

	if nofile {
		if len(files)+len(dirs)+len(other) != 0 {
			e.failf("run 1 with -rapid.nofailfile: something was created", "empty directory", fmt.Sprintf("files %d, dirs %q", len(files), dirs))
		}
		if v1.hasFile {
			e.failf("run 1 with -rapid.nofailfile: message names a fail file", "no -rapid.failfile", v1.failfile)
		}
		if !v1.hasSeed {
			e.failf("run 1 with -rapid.nofailfile: message names no seed", "-rapid.seed=N", "none")
			return
		}
		// the seed in the message reproduces the failure at once
		fl := tworunFlags(v1.seed)
		fl.NoFailFile = true
		res := e.run(name, fl, p, lg, "run 2 (by seed)")
		if v, ok := e.verdict(res, "run 2 (by seed)"); ok {
			if v.after != 0 {
				e.failf("run 2 (by seed): tests before the failure", "after 0 tests", fmt.Sprintf("after %d tests", v.after))
			}
			if v.kind != v1.kind || v.msg != v1.msg {
				e.failf("run 2 (by seed): failure message differs from run 1", v1.kind+": "+v1.msg, v.kind+": "+v.msg)
			}
			if len(res.inv) == 0 || res.inv[len(res.inv)-1] != minimized {
				e.failf("run 2 (by seed): minimized case differs from run 1", minimized, fmt.Sprint(res.inv[len(res.inv)-1:]))
			}
		}
		if files, dirs, _ := tworunTree(dirA); len(files)+len(dirs) != 0 {
			e.failf("run 2 (by seed) with -rapid.nofailfile: something was created", "empty directory", fmt.Sprintf("files %d, dirs %q", len(files), dirs))
		}
		return
	}

	// the fail file of run 1
	matches, gerr := filepath.Glob(rapid.VerifFailFilePattern(name))
	if gerr != nil || len(matches) != 1 {
		e.failf("run 1: files matching the fail file pattern", "exactly one", fmt.Sprintf("%q (%v)", matches, gerr))
		return
	}
	file := matches[0]
	if len(files) != 1 || files[file] == nil || len(other) != 0 {
		var names []string
		for n := range files {
			names = append(names, n)
		}
		e.failf("run 1: files left behind", "only "+file, fmt.Sprintf("%q %q", names, other))
	}
	if filepath.Dir(file) != e.failDir(name) {
		e.failf("run 1: directory of the fail file", e.failDir(name), filepath.Dir(file))
	}
	wantDirs := []string{"testdata", "testdata/rapid"}
	if d := e.failDir(name); d != "testdata/rapid" {
		wantDirs = append(wantDirs, d)
	}
	if strings.Join(dirs, "|") != strings.Join(wantDirs, "|") {
		e.failf("run 1: directories created", wantDirs, dirs)
	}
	ver, fseed, words, lerr := rapid.VerifLoadFailFile(file)
	if lerr != nil {
		e.failf("run 1: the fail file does not load", "loads", lerr.Error())
		return
	}
	if ver != rapid.VerifRapidVersion() {
		e.failf("run 1: version in the fail file", rapid.VerifRapidVersion(), ver)
	}
	if !v1.hasFile || v1.failfile != file {
		e.failf("run 1: fail file named in the message", file, v1.failfile)
	}
	if !v1.hasSeed || v1.seed != fseed {
		e.failf("run 1: seed in the message vs seed in the fail file", fseed, v1.seed)
	}
	if needle != "" && !bytes.Contains(files[file], []byte(needle)) {
		e.failf("run 1: logged text missing from the fail file", tworunClip(needle), fmt.Sprintf("file of %d bytes", len(files[file])))
	}
	if n := len(res1.inv); n < 2 || res1.inv[n-2] != minimized {
		e.failf("run 1: output capture and final replay ran different cases", minimized, fmt.Sprint(res1.inv[len(res1.inv)-2:]))
	}
	// the words of the file are the minimized case
	{
		var inv []string
		ve, _ := rapid.VerifRunBuf(nil, words, false, p.mk(&inv, func(*rapid.T) {}))
		if len(inv) != 1 || inv[0] != minimized || ve.Kind == "" || ve.Kind == "invalid" {
			e.failf("run 1: the words of the fail file do not drive the minimized case", minimized, fmt.Sprintf("%q (%s)", inv, ve.Kind))
		}
	}
	e.part.Stats["failfile_bytes_max"] = tworunMax(e.part.Stats["failfile_bytes_max"], len(files[file]))

	if e.sabot {
		_ = os.Remove(file) // negative control: run 2 cannot replay anything
	}
	// run 2: another seed, the file is found by the glob
	e.replayRun("run 2 (glob)", name, tworunFlags(s2), p, lg, v1, minimized, file, dirA, files)
	// run 3: explicit -rapid.failfile, and the glob finds it again
	fl := tworunFlags(s2 + 1)
	fl.FailFile = file
	e.replayRun("run 3 (explicit + glob)", name, fl, p, lg, v1, minimized, file, dirA, files)
	// run 3b: explicit absolute path from an empty directory
	dirB := e.freshDir()
	e.chdir(dirB)
	fl = tworunFlags(s2 + 2)
	fl.FailFile = filepath.Join(dirA, file)
	e.replayRun("run 3b (explicit, other directory)", name, fl, p, lg, v1, minimized, fl.FailFile, dirB, map[string][]byte{})
	if _, dirs, _ := tworunTree(dirB); len(dirs) != 0 {
		e.failf("run 3b: directories created", "none", dirs)
	}
	// run 3c: explicit fail file together with -rapid.nofailfile
	fl.NoFailFile = true
	e.replayRun("run 3c (explicit, nofailfile)", name, fl, p, lg, v1, minimized, fl.FailFile, dirB, map[string][]byte{})
}

func tworunMax(a, b int) int {
	if a > b {
		return a
	}
	return b
}

// ------------------------------------------------------------------------------------------------
// C17

type tworunFile struct {
	kind  string
	path  string // relative to the test directory
	class string // ignoring | invalid | passing
	entry string // invocation log entry of the replay (classes invalid and passing)
}

// classify by the real loader and a probe run of the property on the loaded words; "" = the file is
// usable (it reproduces a failure) and must not be used here
func tworunClassify(path string, p tworunProp, lg func(*rapid.T)) (string, string) {
	ver, _, words, err := rapid.VerifLoadFailFile(path)
	if err != nil || ver != rapid.VerifRapidVersion() {
		return "ignoring", ""
	}
	var inv []string
	ve, _ := rapid.VerifRunBuf(nil, words, false, p.mk(&inv, lg))
	if len(inv) != 1 {
		return "", ""
	}
	switch ve.Kind {
	case "":
		return "passing", inv[0]
	case "invalid":
		return "invalid", inv[0]
	}
	return "", ""
}

func (e *tworunEnv) c17(i int) {
	r := &Rng{s: e.seed*1000003 + uint64(i)*7919 + 17}
	propIDs := []string{"P4", "P1", "P5", "P2", "P4", "P3"}
	p := tworunProps[propIDs[i%len(propIDs)]]
	name := tworunNames[(i+3)%len(tworunNames)]
	kind := []string{"none", "short", "hostile", "none", "line70k", "empty", "short"}[i%7]
	lg, _ := tworunLogger(kind, r)
	seed := r.next() | 1
	nfiles := r.intn(6)
	if i%10 == 0 {
		nfiles = 0
	}
	e.logKind = kind
	e.ident = fmt.Sprintf("c17|%s|%s|%q|pending", p.id, kind, name)
	e.scen = fmt.Sprintf("c17 #%d: property %s, logging %s, name %q, seed %d, %d files", i, p.id, kind, name, seed, nfiles)
	e.part.Classes["prop:"+p.id]++
	e.part.Classes["log:"+kind]++
	e.part.Classes[fmt.Sprintf("name:%.20q", name)]++
	e.part.Classes[fmt.Sprintf("files:%d", nfiles)]++

	fl := tworunFlags(seed)
	fl.NoFailFile = true

	// reference run
	dirR := e.freshDir()
	e.chdir(dirR)
	flR := fl
	if e.sabot {
		flR.Seed += 12345 // negative control: the reference run generates other test cases
	}
	ref := e.run(name, flR, p, lg, "reference run")
	if files, dirs, _ := tworunTree(dirR); len(files)+len(dirs) != 0 {
		e.failf("reference run with -rapid.nofailfile: something was created", "empty directory", fmt.Sprintf("files %d, dirs %q", len(files), dirs))
	}
	if ref.tb.failed != p.fails {
		// not a deviation of the library when a failing property happens to survive 100 checks
		e.part.Stats["reference_verdict_unexpected_for_property"]++
	}
	if ref.tb.failed {
		e.part.Stats["reference_failed"]++
	} else {
		e.part.Stats["reference_passed"]++
	}

	// test directory with unusable files
	dirT := e.freshDir()
	e.chdir(dirT)
	fdir := e.failDir(name)
	if err := os.MkdirAll(fdir, 0775); err != nil {
		e.fatal("%v", err)
	}
	ksf := rapid.VerifKindaSafeFilename(name)
	kinds := []string{"garbage", "empty", "truncated", "wrongversion", "nowpassing", "invaliddata", "directory", "symlink", "commentonly", "badword"}
	var tfiles []tworunFile
	for n := 1; n <= nfiles; n++ {
		fk := kinds[r.intn(len(kinds))]
		path := filepath.Join(fdir, fmt.Sprintf("%s-20260930%06d-%d.fail", ksf, 120000+i, n))
		var content []byte
		made := false
		for try := 0; try < 20 && !made; try++ {
			_ = os.RemoveAll(path)
			switch fk {
			case "garbage":
				content = make([]byte, 1+r.intn(300))
				for j := range content {
					content[j] = byte(r.next())
				}
			case "empty":
				content = nil
			case "truncated":
				ws := []uint64{r.next(), uint64(r.intn(2000)), r.next() >> 40, 3, r.next()}
				tmp := filepath.Join(e.base, "valid.fail")
				if err := rapid.VerifSaveFailFile(tmp, rapid.VerifRapidVersion(), []byte("some output\nof a failed test"), r.next(), ws[:1+r.intn(5)]); err != nil {
					e.fatal("%v", err)
				}
				b, _ := os.ReadFile(tmp)
				_ = os.Remove(tmp)
				content = b[:r.intn(len(b))]
			case "wrongversion":
				content = []byte(pick(r, "v0.0.1#1\n0x1", "v0.4.7#5\n0x1f5\n0x0", "# c\nv9.9.9#1", rapid.VerifRapidVersion()+"x#1\n0x1"))
			case "nowpassing":
				content = []byte(fmt.Sprintf("# now passing\n%s#%d\n0x0\n0x0\n0x0\n0x0\n0x0\n0x0\n0x0\n0x0", rapid.VerifRapidVersion(), r.intn(100)))
			case "invaliddata":
				content = []byte(fmt.Sprintf("# buffer too short\n%s#%d", rapid.VerifRapidVersion(), r.intn(100)))
			case "commentonly":
				content = []byte("# nothing\n#\n\n")
			case "badword":
				content = []byte(rapid.VerifRapidVersion() + "#1\n0x1\n" + pick(r, "0xg", "-1", "18446744073709551616", "1 2", "0x", "0x1fzz", "0x7 0x8", "0x12\n0x3q\n0x4", "0xffffffffffffffffff"))
			}
			var err error
			switch fk {
			case "directory":
				err = os.Mkdir(path, 0775)
			case "symlink":
				err = os.Symlink("does-not-exist", path)
			default:
				err = os.WriteFile(path, content, 0644)
			}
			if err != nil {
				e.fatal("%v", err)
			}
			class, entry := tworunClassify(path, p, lg)
			if class != "ignoring" && (fk == "badword" || fk == "commentonly" || fk == "empty" || fk == "wrongversion") {
				// malformed by construction: the loader must reject it, whatever its words would do
				e.failf("a malformed fail file ("+fk+") is loaded instead of being ignored", "loadFailFile returns an error", fmt.Sprintf("content %q is accepted (class %q)", string(content), class))
				class = "ignoring"
			}
			if class == "" {
				continue // the file would reproduce a failure: not an unusable file
			}
			tfiles = append(tfiles, tworunFile{fk, path, class, entry})
			e.part.FilesByKind[fk+"/"+class]++
			made = true
		}
		if !made {
			_ = os.RemoveAll(path)
			e.part.Stats["file_kind_dropped_as_usable"]++
		}
	}
	sort.Slice(tfiles, func(a, b int) bool { return tfiles[a].path < tfiles[b].path })
	// the order in which doCheck looks at the files: the explicit one, then the glob result
	order := tfiles
	flT := fl
	if len(tfiles) > 0 && r.chance(25) {
		x := tfiles[r.intn(len(tfiles))]
		flT.FailFile = x.path
		order = append([]tworunFile{x}, tfiles...)
		e.part.Classes["explicit-unusable-failfile"]++
		e.scen += fmt.Sprintf(", -rapid.failfile=%q", x.path)
	}
	var fdesc []string
	for _, f := range tfiles {
		fdesc = append(fdesc, f.kind+"/"+f.class)
	}
	e.scen += fmt.Sprintf(", files %v", fdesc)
	{
		sorted := append([]string(nil), fdesc...)
		sort.Strings(sorted)
		seedClass := "seed:reference-passes"
		if ref.tb.failed {
			seedClass = "seed:reference-fails"
		}
		e.ident = fmt.Sprintf("c17|%s|%s|%q|explicit-failfile=%v|%s|%s", p.id, kind, name, flT.FailFile != "", seedClass, strings.Join(sorted, ","))
	}
	before, dirsBefore, _ := tworunTree(dirT)

	test := e.run(name, flT, p, lg, "test run")

	if test.tb.failed != ref.tb.failed {
		e.failf("verdict differs from the reference run", fmt.Sprintf("failed=%v", ref.tb.failed), fmt.Sprintf("failed=%v: %s", test.tb.failed, strings.Join(test.tb.kind("errorf"), " | ")))
	}
	if !p.fails && test.tb.failed {
		e.failf("TB failed although the property holds", "not failed", strings.Join(test.tb.kind("errorf"), " | "))
	}
	// messages: one line per unloadable / other-version / invalid file first, then exactly the reference
	var wantLines []string
	var wantInv []string
	for _, f := range order {
		switch f.class {
		case "ignoring":
			wantLines = append(wantLines, "[rapid] ignoring fail file")
		case "invalid":
			wantLines = append(wantLines, fmt.Sprintf("[rapid] fail file %q is no longer valid", f.path))
			wantInv = append(wantInv, f.entry)
		case "passing":
			wantInv = append(wantInv, f.entry)
		}
	}
	msgs := test.tb.msgs
	if len(msgs) < len(wantLines) {
		e.failf("messages about the unusable files", wantLines, tworunMsgsString(msgs))
	} else {
		for k, w := range wantLines {
			if msgs[k].Kind != "logf" || !strings.HasPrefix(msgs[k].Text, w) {
				e.failf(fmt.Sprintf("message %d about the unusable files", k), w, msgs[k].Kind+":"+msgs[k].Text)
			}
		}
		rest := msgs[len(wantLines):]
		canon := func(ms []tworunMsg) []tworunMsg {
			out := make([]tworunMsg, len(ms))
			for k, m := range ms {
				out[k] = tworunMsg{m.Kind, tworunDurRe.ReplaceAllString(m.Text, "(DUR)")}
			}
			return out
		}
		if !tworunSameMsgs(canon(rest), canon(ref.tb.msgs)) {
			e.failf("messages differ from the reference run", tworunMsgsString(canon(ref.tb.msgs)), tworunMsgsString(canon(rest)))
		}
	}
	nIgn, nInv := 0, 0
	for _, m := range msgs {
		if strings.HasPrefix(m.Text, "[rapid] ignoring fail file") {
			nIgn++
		}
		if strings.HasPrefix(m.Text, "[rapid] fail file ") && strings.HasSuffix(m.Text, "is no longer valid") {
			nInv++
		}
	}
	wIgn, wInv := 0, 0
	for _, f := range order {
		if f.class == "ignoring" {
			wIgn++
		}
		if f.class == "invalid" {
			wInv++
		}
	}
	if nIgn != wIgn || nInv != wInv {
		e.failf("number of 'ignoring fail file' / 'no longer valid' lines", fmt.Sprintf("%d / %d", wIgn, wInv), fmt.Sprintf("%d / %d", nIgn, nInv))
	}
	// invocations: one per loadable file of the right version, then exactly the reference sequence
	wantAll := append(append([]string(nil), wantInv...), ref.inv...)
	if len(wantAll) != len(test.inv) {
		e.failf("number of invocations", fmt.Sprintf("%d replayed + %d of the reference run", len(wantInv), len(ref.inv)), len(test.inv))
	} else {
		for k := range wantAll {
			if wantAll[k] != test.inv[k] {
				e.failf(fmt.Sprintf("invocation %d differs", k), wantAll[k], test.inv[k])
				break
			}
		}
	}
	// nothing written, nothing removed
	after, dirsAfter, _ := tworunTree(dirT)
	if len(after) != len(before) || strings.Join(dirsAfter, "|") != strings.Join(dirsBefore, "|") {
		e.failf("the test run changed the directory", fmt.Sprintf("%d files, dirs %q", len(before), dirsBefore), fmt.Sprintf("%d files, dirs %q", len(after), dirsAfter))
	}
	for n, b := range before {
		if !bytes.Equal(after[n], b) {
			e.failf("the test run changed a file", n, "different content or missing")
		}
	}
}

// ------------------------------------------------------------------------------------------------

func cmdTworun(args []string) {
	fs := flag.NewFlagSet("persist-tworun", flag.ExitOnError)
	seed := fs.Uint64("seed", 1, "generator seed")
	n := fs.Int("n", 40, "scenarios per part")
	part := fs.String("part", "all", "c06 | c17 | all")
	only := fs.Int("only", -1, "run only the scenario with this index (replay)")
	dump := fs.Bool("dump", false, "add a description of every run to the JSON")
	sabot := fs.Bool("selftest", false, "negative control: C06 removes the fail file before run 2, C17 runs the reference under another seed; every scenario has to be reported as failed")
	_ = fs.Parse(args)
	if *part != "c06" && *part != "c17" && *part != "all" {
		die("unknown part %s", *part)
	}
	start := time.Now()
	oldwd, err := os.Getwd()
	if err != nil {
		die("%v", err)
	}
	base, err := os.MkdirTemp("", "verif-persist-tworun-")
	if err != nil {
		die("%v", err)
	}
	if s, err := filepath.EvalSymlinks(base); err == nil {
		base = s
	}
	oldFlags := rapid.VerifGetFlags()
	rep := &tworunReport{Escaped: []tworunFailure{}}
	e := &tworunEnv{base: base, oldwd: oldwd, seed: *seed, rep: rep, dump: *dump, sabot: *sabot}
	cleanup := func() {
		rapid.VerifSetFlags(oldFlags)
		_ = os.Chdir(oldwd)
		_ = os.RemoveAll(base)
	}
	defer cleanup()

	runPart := func(id string, f func(int)) *tworunPart {
		p := &tworunPart{Failures: []tworunFailure{}, Classes: map[string]int{}, Stats: map[string]int{}, idents: map[string]bool{}}
		if id == "c17" {
			p.FilesByKind = map[string]int{}
		}
		e.part, e.partID = p, id
		for i := 0; i < *n; i++ {
			if *only >= 0 && i != *only {
				continue
			}
			e.nfail = 0
			e.replay = fmt.Sprintf("/verif/build/harness persist-tworun -seed %d -n %d -part %s -only %d", *seed, *n, id, i)
			f(i)
			p.Scenarios++
			p.idents[e.ident] = true
			p.Distinct = len(p.idents)
			if e.nfail == 0 {
				p.OK++
			}
			e.chdir(oldwd)
		}
		return p
	}
	if *part == "c06" || *part == "all" {
		rep.C06 = runPart("c06", e.c06)
	}
	if *part == "c17" || *part == "all" {
		rep.C17 = runPart("c17", e.c17)
	}
	rep.Seconds = float64(time.Since(start).Milliseconds()) / 1000
	js, err := json.Marshal(rep)
	if err != nil {
		e.fatal("%v", err)
	}
	fmt.Println(string(js))
}
