package main

import (
	"fmt"
	"pgregory.net/rapid"
)

func cmdDbg() {
	chk := &Stmt{Op: "if", C: &Cond{Op: "eq", A: &VExp{Op: "var", I: 0}, B: &VExp{Op: "const", V: zv(0)}},
		A: &Stmt{Op: "fail", Kind: "error", Variant: "errorf", Id: 1, Msg: 1, Next: retUnit()},
		B: retUnit()}
	act := &Stmt{Op: "ret", E: &VExp{Op: "add", A: &VExp{Op: "var", I: 0}, B: &VExp{Op: "const", V: zv(1)}}}
	p := NewProgram(&Stmt{Op: "repeat", Id: 2, E: &VExp{Op: "const", V: zv(0)}, A: chk, Acts: []*Stmt{act}, Next: retUnit()})
	run := NewRun()
	e, rec := rapid.VerifRunSeed(nil, 1, false, p.Prop(&run))
	fmt.Printf("%+v\n%v\n%v\n", e, rec, run.Events)
}
